(* The four local contracts (Model/PropDefs.v) for the REPAIRED Modulo propagator
   `mk_mod x y s`  (x % y == s, Rust truncated remainder) of Model/Props/Arith.v. *)
Require Import Selen.Model.Prelude Selen.Model.Dom Selen.Model.Views Selen.Model.PropDefs Selen.Model.Props.Basic.
Require Import Selen.Model.Props.Arith.
Require Import Selen.Proofs.DomProofs Selen.Proofs.ViewsProofs Selen.Proofs.Props.BasicProofs.
Require Import Psatz.

(* ------------------------------------------------------------------------------------------ *)
(* generic helpers *)

Lemma obind_some : forall {A B} (o : option A) (k : A -> option B) r,
  obind o k = Some r -> exists c1, o = Some c1 /\ k c1 = Some r.
Proof. intros A B [c1|] k r H; [exists c1; split; [reflexivity|exact H]|discriminate H]. Qed.

Lemma In_zrange_aux : forall k lo v, lo <= v < lo + Z.of_nat k -> In v (zrange_aux lo k).
Proof.
  induction k as [|k IH]; intros lo v H.
  - cbn in H. lia.
  - cbn [zrange_aux]. destruct (Z.eq_dec lo v) as [E|E]; [left; exact E|right].
    apply IH. lia.
Qed.

Lemma In_zrange : forall lo hi v, lo <= v < hi -> In v (zrange lo hi).
Proof. intros lo hi v H. unfold zrange. apply In_zrange_aux. lia. Qed.

Lemma sel_min_spec : forall l d, sel_min l d <= d /\ forall v, In v l -> sel_min l d <= v.
Proof.
  induction l as [|x l IH]; intros d.
  - cbn. split; [lia|intros v []].
  - unfold sel_min in *. cbn [fold_left].
    destruct (IH (if x <? d then x else d)) as [H1 H2].
    assert (Hd : (if x <? d then x else d) <= d /\ (if x <? d then x else d) <= x)
      by (destruct (Z.ltb_spec x d); lia).
    split; [lia|]. intros v [<-|Hv]; [lia|apply H2; exact Hv].
Qed.

Lemma sel_max_spec : forall l d, d <= sel_max l d /\ forall v, In v l -> v <= sel_max l d.
Proof.
  induction l as [|x l IH]; intros d.
  - cbn. split; [lia|intros v []].
  - unfold sel_max in *. cbn [fold_left].
    destruct (IH (if d <? x then x else d)) as [H1 H2].
    assert (Hd : d <= (if d <? x then x else d) /\ x <= (if d <? x then x else d))
      by (destruct (Z.ltb_spec d x); lia).
    split; [lia|]. intros v [<-|Hv]; [lia|apply H2; exact Hv].
Qed.

(* bounds of the candidate selection: any value between two candidates is inside *)
Lemma sel_bounds : forall c0 r lo hi v, In lo (c0 :: r) -> In hi (c0 :: r) -> lo <= v <= hi ->
  sel_min (c0 :: r) c0 <= v <= sel_max (c0 :: r) c0.
Proof.
  intros c0 r lo hi v Hlo Hhi H.
  pose proof (proj2 (sel_min_spec (c0 :: r) c0) lo Hlo).
  pose proof (proj2 (sel_max_spec (c0 :: r) c0) hi Hhi). lia.
Qed.

(* ------------------------------------------------------------------------------------------ *)
(* truncated remainder *)

Lemma rem_facts : forall X Y, Y <> 0 ->
  - (Z.abs Y - 1) <= Z.rem X Y <= Z.abs Y - 1 /\
  (0 <= X -> 0 <= Z.rem X Y <= X) /\
  (X <= 0 -> X <= Z.rem X Y <= 0).
Proof.
  intros X Y HY. rewrite (Z.rem_mod X Y HY).
  assert (HA : 0 < Z.abs Y) by lia.
  pose proof (Z.mod_pos_bound (Z.abs X) (Z.abs Y) HA) as B.
  pose proof (Z.mod_le (Z.abs X) (Z.abs Y) (Z.abs_nonneg X) HA) as L.
  destruct (Z.sgn_spec X) as [[H E]|[[H E]|[H E]]]; rewrite E; lia.
Qed.

(* CASE 4: the quotient lies between the two truncated quotients of the shifted bounds *)
Lemma quot_between : forall A B Y k, Y <> 0 -> A <= k * Y <= B ->
  (Z.quot A Y <= k \/ Z.quot B Y <= k) /\ (k <= Z.quot A Y \/ k <= Z.quot B Y).
Proof.
  intros A B Y k HY H.
  pose proof (Z.quot_rem' A Y) as EA. pose proof (Z.rem_bound_abs A Y HY) as RA.
  pose proof (Z.quot_rem' B Y) as EB. pose proof (Z.rem_bound_abs B Y HY) as RB.
  set (qa := Z.quot A Y) in *. set (qb := Z.quot B Y) in *.
  set (ra := Z.rem A Y) in *. set (rb := Z.rem B Y) in *.
  destruct (Z.lt_trichotomy Y 0) as [N|[Z0|P]]; [|lia|].
  - (* Y < 0 *)
    split.
    + right. assert (Y * (k + 1) < Y * qb) by nia. nia.
    + left. assert (Y * qa < Y * (k - 1)) by nia. nia.
  - split.
    + left. assert (Y * qa < Y * (k + 1)) by nia. nia.
    + right. assert (Y * (k - 1) < Y * qb) by nia. nia.
Qed.

(* ------------------------------------------------------------------------------------------ *)
(* prune_mod with the bounds read at entry as parameters *)

Definition pm (x : view) (s : nat) (x_min x_max y_min y_max s_min s_max : Z) (c : ctx) : option ctx :=
  if unsafe_range y_min y_max then
    (if (y_min =? y_max) && (y_min =? 0) then None else Some c)
  else if (x_min =? x_max) && (y_min =? y_max) && negb (y_min =? 0) then
    do c <- cset_min s (trem x_min y_min) c; cset_max s (trem x_min y_min) c
  else
    do c <- (if (y_min =? y_max) && negb (y_min =? 0) then mod_case2 s x_min x_max y_min s_min s_max c else Some c);
    do c <- set_cands s (mod_case3_cands x_min x_max y_min y_max) c;
    if (y_min =? y_max) && (s_min =? s_max) && negb (y_min =? 0) && (0 <=? s_min) && (s_min <? Z.abs y_min)
    then mod_case4 x x_min x_max y_min s_min c
    else Some c.

Lemma prune_mod_pm : forall x y s c,
  prune_mod x y s c = pm x s (cmin x c) (cmax x c) (cmin y c) (cmax y c) (cvar_min s c) (cvar_max s c) c.
Proof. reflexivity. Qed.

Section Mod.
  Variables (x y : view) (s : nat) (T : list nat).
  Hypotheses (Hx : view_ok x) (Hy : view_ok y) (Ux : uin x T) (Uy : uin y T) (Us : In s T).

  (* ---------------- contracting ---------------- *)
  Lemma set_cands_ctr : forall cands c c', wf_store (fst c) -> set_cands s cands c = Some c' -> ctr T c c'.
  Proof.
    intros cands c c' W H. unfold set_cands in H. destruct cands as [|c0 r].
    - inversion H; subst. apply ctr_refl; exact W.
    - ctr_chain T W H.
  Qed.

  Lemma set_vcands_ctr : forall cands c c', wf_store (fst c) -> set_vcands x cands c = Some c' -> ctr T c c'.
  Proof.
    intros cands c c' W H. unfold set_vcands in H. destruct cands as [|c0 r].
    - inversion H; subst. apply ctr_refl; exact W.
    - ctr_chain T W H.
  Qed.

  Lemma mod_case2_ctr : forall xm xM yv sm sM c c', wf_store (fst c) ->
    mod_case2 s xm xM yv sm sM c = Some c' -> ctr T c c'.
  Proof. intros xm xM yv sm sM c c' W H. unfold mod_case2 in H. ctr_chain T W H. Qed.

  Lemma mod_case4_ctr : forall xm xM yv sv c c', wf_store (fst c) ->
    mod_case4 x xm xM yv sv c = Some c' -> ctr T c c'.
  Proof.
    intros xm xM yv sv c c' W H. unfold mod_case4 in H.
    destruct (tdiv (xm - sv) yv <=? tdiv (xM - sv) yv); exact (set_vcands_ctr _ c c' W H).
  Qed.

  Lemma pm_ctr : forall xm xM ym yM sm sM c c', wf_store (fst c) ->
    pm x s xm xM ym yM sm sM c = Some c' -> ctr T c c'.
  Proof.
    intros xm xM ym yM sm sM c c' W H. unfold pm in H.
    destruct (unsafe_range ym yM).
    { destruct ((ym =? yM) && (ym =? 0)); [discriminate|]. inversion H; subst. apply ctr_refl; exact W. }
    destruct ((xm =? xM) && (ym =? yM) && negb (ym =? 0)).
    { ctr_chain T W H. }
    apply obind_some in H. destruct H as (c1 & E1 & H).
    assert (C1 : ctr T c c1).
    { destruct ((ym =? yM) && negb (ym =? 0)).
      - exact (mod_case2_ctr _ _ _ _ _ c c1 W E1).
      - inversion E1; subst. apply ctr_refl; exact W. }
    apply (ctr_trans T c c1 c' C1). pose proof (ctr_wf _ _ _ C1) as W1.
    apply obind_some in H. destruct H as (c2 & E2 & H).
    pose proof (set_cands_ctr _ c1 c2 W1 E2) as C2.
    apply (ctr_trans T c1 c2 c' C2). pose proof (ctr_wf _ _ _ C2) as W2.
    destruct ((ym =? yM) && (sm =? sM) && negb (ym =? 0) && (0 <=? sm) && (sm <? Z.abs ym)).
    - exact (mod_case4_ctr _ _ _ _ c2 c' W2 H).
    - inversion H; subst. apply ctr_refl; exact W2.
  Qed.

  Lemma prune_mod_ctr : forall c c', wf_store (fst c) -> prune_mod x y s c = Some c' -> ctr T c c'.
  Proof. intros c c' W H. rewrite prune_mod_pm in H. exact (pm_ctr _ _ _ _ _ _ c c' W H). Qed.

  (* ---------------- frame ---------------- *)
  Lemma set_cands_frm : forall cands c1 c2, agr T c1 c2 ->
    orel (agr T) (set_cands s cands c1) (set_cands s cands c2).
  Proof.
    intros cands c1 c2 Ha. unfold set_cands. destruct cands as [|c0 r]; [exact Ha|]. frm_chain T Ha.
  Qed.

  Lemma set_vcands_frm : forall cands c1 c2, agr T c1 c2 ->
    orel (agr T) (set_vcands x cands c1) (set_vcands x cands c2).
  Proof.
    intros cands c1 c2 Ha. unfold set_vcands. destruct cands as [|c0 r]; [exact Ha|]. frm_chain T Ha.
  Qed.

  Lemma mod_case2_frm : forall xm xM yv sm sM c1 c2, agr T c1 c2 ->
    orel (agr T) (mod_case2 s xm xM yv sm sM c1) (mod_case2 s xm xM yv sm sM c2).
  Proof. intros xm xM yv sm sM c1 c2 Ha. unfold mod_case2. frm_chain T Ha. Qed.

  Lemma mod_case4_frm : forall xm xM yv sv c1 c2, agr T c1 c2 ->
    orel (agr T) (mod_case4 x xm xM yv sv c1) (mod_case4 x xm xM yv sv c2).
  Proof.
    intros xm xM yv sv c1 c2 Ha. unfold mod_case4.
    destruct (tdiv (xm - sv) yv <=? tdiv (xM - sv) yv); apply set_vcands_frm; exact Ha.
  Qed.

  Lemma pm_frm : forall xm xM ym yM sm sM c1 c2, agr T c1 c2 ->
    orel (agr T) (pm x s xm xM ym yM sm sM c1) (pm x s xm xM ym yM sm sM c2).
  Proof.
    intros xm xM ym yM sm sM c1 c2 Ha. unfold pm.
    destruct (unsafe_range ym yM).
    { destruct ((ym =? yM) && (ym =? 0)); [exact I|exact Ha]. }
    destruct ((xm =? xM) && (ym =? yM) && negb (ym =? 0)).
    { frm_chain T Ha. }
    apply (obind_orel (agr T) (agr T)).
    { destruct ((ym =? yM) && negb (ym =? 0)); [apply mod_case2_frm; exact Ha|exact Ha]. }
    intros d1 d2 Hd. apply (obind_orel (agr T) (agr T)).
    { apply set_cands_frm; exact Hd. }
    intros e1 e2 He.
    destruct ((ym =? yM) && (sm =? sM) && negb (ym =? 0) && (0 <=? sm) && (sm <? Z.abs ym));
      [apply mod_case4_frm; exact He|exact He].
  Qed.

  Lemma prune_mod_frm : forall c1 c2, agr T c1 c2 -> orel (agr T) (prune_mod x y s c1) (prune_mod x y s c2).
  Proof.
    intros c1 c2 Ha. rewrite !prune_mod_pm.
    rewrite (cmin_frame x T c1 c2 Ux Ha), (cmax_frame x T c1 c2 Ux Ha),
            (cmin_frame y T c1 c2 Uy Ha), (cmax_frame y T c1 c2 Uy Ha),
            (cvar_min_frame s T c1 c2 Us Ha), (cvar_max_frame s T c1 c2 Us Ha).
    apply pm_frm; exact Ha.
  Qed.

  (* ---------------- checking ---------------- *)
  Lemma prune_mod_chk : forall s0 ev a, wf_store s0 -> inst a s0 ->
    (forall v, In v T -> dfixed (sget s0 v) = true) ->
    prune_mod x y s (s0, ev) <> None -> vsem y a <> 0 /\ a s = trem (vsem x a) (vsem y a).
  Proof.
    intros s0 ev a W Hi Hf H. rewrite prune_mod_pm in H.
    destruct (cbnd_fixed x T a s0 ev Hi Ux Hf) as [E1 E2].
    destruct (cbnd_fixed y T a s0 ev Hi Uy Hf) as [E3 E4].
    rewrite E1, E2, E3, E4 in H. clear E1 E2 E3 E4.
    set (X := vsem x a) in *. set (Y := vsem y a) in *. unfold pm in H.
    rewrite !Z.eqb_refl in H. cbn [andb] in H.
    unfold unsafe_range in H.
    destruct (Z.eqb_spec Y 0) as [E0|N0].
    { exfalso. rewrite E0 in H. cbn in H. apply H. reflexivity. }
    assert (U : (Y <=? 0) && (0 <=? Y) = false).
    { destruct (Z.leb_spec Y 0); destruct (Z.leb_spec 0 Y); cbn; try reflexivity. lia. }
    rewrite U in H. cbn [negb] in H. split; [exact N0|].
    pose proof (fixed_of_uin (VVar s) T s0 (uin_var s T Us) Hf) as Fs.
    destruct (chk_step (VVar s) false _ a s0 ev _ I W Hi Fs H) as [B1 H1]. cbv beta in H1.
    pose proof (chk_last (VVar s) true _ a s0 ev I W Hi Fs H1) as B2.
    unfold bnd_ok in B1, B2. cbn [vsem] in B1, B2. lia.
  Qed.

  (* ---------------- soundness ---------------- *)
  Lemma snd_bind : forall a n (o : option ctx) (k : ctx -> option ctx),
    (exists c1, o = Some c1 /\ okc a n c1) ->
    (forall c1, okc a n c1 -> exists c2, k c1 = Some c2 /\ okc a n c2) ->
    exists c2, obind o k = Some c2 /\ okc a n c2.
  Proof. intros a n o k (c1 & E & O1) Hk. rewrite E. cbn [obind]. apply Hk. exact O1. Qed.

  Ltac brk := repeat match goal with
    | |- context [?a <=? ?b] => destruct (Z.leb_spec a b)
    | |- context [?a <? ?b] => destruct (Z.ltb_spec a b)
    end.

  Lemma set_cands_snd : forall a n cands c, (s < n)%nat -> okc a n c ->
    (exists lo hi, In lo cands /\ In hi cands /\ lo <= a s <= hi) ->
    exists c2, set_cands s cands c = Some c2 /\ okc a n c2.
  Proof.
    intros a n cands c Ss O (lo & hi & Hlo & Hhi & B). destruct cands as [|c0 r]; [destruct Hlo|].
    pose proof (sel_bounds c0 r lo hi (a s) Hlo Hhi B) as SB. unfold set_cands.
    snd_chain a n O ltac:(fun O => unfold bnd_ok; cbn [vsem]; lia).
  Qed.

  Lemma set_vcands_snd : forall a n cands c, uscope x n -> okc a n c ->
    (exists lo hi, In lo cands /\ In hi cands /\ lo <= vsem x a <= hi) ->
    exists c2, set_vcands x cands c = Some c2 /\ okc a n c2.
  Proof.
    intros a n cands c Sx O (lo & hi & Hlo & Hhi & B). destruct cands as [|c0 r]; [destruct Hlo|].
    pose proof (sel_bounds c0 r lo hi (vsem x a) Hlo Hhi B) as SB. unfold set_vcands.
    snd_chain a n O ltac:(fun O => unfold bnd_ok; lia).
  Qed.

  Lemma mod_case2_snd : forall a n X xm xM yv sm sM c, (s < n)%nat -> okc a n c ->
    yv <> 0 -> xm <= X <= xM -> sm <= a s <= sM -> a s = Z.rem X yv ->
    exists c2, mod_case2 s xm xM yv sm sM c = Some c2 /\ okc a n c2.
  Proof.
    intros a n X xm xM yv sm sM c Ss O HY BX BS ES.
    pose proof (rem_facts X yv HY) as (R1 & R2 & R3). unfold mod_case2.
    snd_chain a n O ltac:(fun O => unfold bnd_ok; cbn [vsem]; brk; lia).
  Qed.

  Lemma mod_case4_snd : forall a n xm xM yv sv c, uscope x n -> okc a n c ->
    yv <> 0 -> xm <= vsem x a <= xM -> sv = Z.rem (vsem x a) yv ->
    exists c2, mod_case4 x xm xM yv sv c = Some c2 /\ okc a n c2.
  Proof.
    intros a n xm xM yv sv c Sx O HY BX ES. set (X := vsem x a) in *.
    pose proof (Z.quot_rem' X yv) as EQ. rewrite <- ES in EQ. set (k := Z.quot X yv) in *.
    assert (HB : xm - sv <= k * yv <= xM - sv) by lia.
    destruct (quot_between (xm - sv) (xM - sv) yv k HY HB) as [L U].
    unfold mod_case4, tdiv.
    assert (HIn : forall klo khi, klo <= k <= khi -> In X (case4_cands xm xM yv sv klo khi)).
    { intros klo khi Hk. unfold case4_cands. apply filter_In. split.
      - apply in_map_iff. exists k. split; [lia|apply In_zrange; lia].
      - apply andb_true_iff. split; apply Z.leb_le; lia. }
    destruct (Z.leb_spec (Z.quot (xm - sv) yv) (Z.quot (xM - sv) yv));
      apply set_vcands_snd; try assumption; exists X, X;
      (split; [apply HIn; lia|split; [apply HIn; lia|lia]]).
  Qed.

  Lemma case3_snd : forall X Y S xm xM ym yM, (0 < ym \/ yM < 0) ->
    xm <= X <= xM -> ym <= Y <= yM -> S = Z.rem X Y ->
    exists lo hi, In lo (mod_case3_cands xm xM ym yM) /\ In hi (mod_case3_cands xm xM ym yM) /\ lo <= S <= hi.
  Proof.
    intros X Y S xm xM ym yM NU BX BY ES. unfold mod_case3_cands.
    destruct (Z.eqb_spec ym yM) as [E|E].
    - assert (HI : In S (rems_xy (zrange xm (xM + 1)) [ym])).
      { unfold rems_xy. apply in_flat_map. exists X. split; [apply In_zrange; lia|].
        cbn [flat_map]. destruct (Z.eqb_spec ym 0); [lia|]. left. unfold trem. rewrite ES. f_equal. lia. }
      exists S, S. split; [exact HI|split; [exact HI|lia]].
    - destruct ((yM - ym <=? mod_enum_limit) && (xM - xm <=? mod_enum_limit)).
      + assert (HI : In S (rems_yx (zrange ym (yM + 1)) (zrange xm (xM + 1)))).
        { unfold rems_yx. apply in_flat_map. exists Y. split; [apply In_zrange; lia|].
          apply in_flat_map. exists X. split; [apply In_zrange; lia|].
          destruct (Z.eqb_spec Y 0); [lia|]. left. unfold trem. rewrite ES. reflexivity. }
        exists S, S. split; [exact HI|split; [exact HI|lia]].
      + assert (HY : Y <> 0) by lia.
        pose proof (rem_facts X Y HY) as (R1 & R2 & R3). rewrite <- ES in R1, R2, R3.
        unfold mod_enclosure. eexists. eexists.
        split; [left; reflexivity|]. split; [right; left; reflexivity|].
        brk; lia.
  Qed.

  Lemma pm_snd : forall a n Y xm xM ym yM sm sM c, uscope x n -> (s < n)%nat -> okc a n c ->
    xm <= vsem x a <= xM -> ym <= Y <= yM -> sm <= a s <= sM ->
    Y <> 0 -> a s = Z.rem (vsem x a) Y ->
    exists c2, pm x s xm xM ym yM sm sM c = Some c2 /\ okc a n c2.
  Proof.
    intros a n Y xm xM ym yM sm sM c Sx Ss O BX BY BS HY ES. unfold pm.
    destruct (unsafe_range ym yM) eqn:U.
    { unfold unsafe_range in U. apply andb_true_iff in U. destruct U as [U1 U2].
      apply Z.leb_le in U1. apply Z.leb_le in U2.
      destruct (Z.eqb_spec ym yM) as [E1|E1]; destruct (Z.eqb_spec ym 0) as [E2|E2]; cbn [andb];
        try (exists c; split; [reflexivity|exact O]). exfalso. lia. }
    assert (NU : 0 < ym \/ yM < 0).
    { unfold unsafe_range in U. destruct (Z.leb_spec ym 0); destruct (Z.leb_spec 0 yM); cbn in U;
        try discriminate; lia. }
    clear U.
    destruct ((xm =? xM) && (ym =? yM) && negb (ym =? 0)) eqn:C1.
    { apply andb_true_iff in C1. destruct C1 as [C1 _]. apply andb_true_iff in C1. destruct C1 as [C1 C2].
      apply Z.eqb_eq in C1. apply Z.eqb_eq in C2.
      replace (trem xm ym) with (a s) by (rewrite ES; unfold trem; f_equal; lia).
      snd_chain a n O ltac:(fun O => unfold bnd_ok; cbn [vsem]; lia). }
    clear C1. apply snd_bind.
    { destruct ((ym =? yM) && negb (ym =? 0)) eqn:C2.
      - apply andb_true_iff in C2. destruct C2 as [C2 _]. apply Z.eqb_eq in C2.
        assert (EY : ym = Y) by lia.
        apply (mod_case2_snd a n (vsem x a)); try assumption; [lia|rewrite EY; exact ES].
      - exists c. split; [reflexivity|exact O]. }
    intros c1 O1. apply snd_bind.
    { apply set_cands_snd; [exact Ss|exact O1|].
      apply (case3_snd (vsem x a) Y); assumption. }
    intros c2 O2.
    destruct ((ym =? yM) && (sm =? sM) && negb (ym =? 0) && (0 <=? sm) && (sm <? Z.abs ym)) eqn:C4.
    - rewrite !andb_true_iff in C4. destruct C4 as ((((K1 & K2) & K3) & K4) & K5).
      apply Z.eqb_eq in K1. apply Z.eqb_eq in K2.
      assert (EY : ym = Y) by lia.
      apply mod_case4_snd; try assumption; [lia|]. rewrite EY. lia.
    - exists c2. split; [reflexivity|exact O2].
  Qed.

  Lemma prune_mod_snd : forall a n c, uscope x n -> uscope y n -> (s < n)%nat -> okc a n c ->
    vsem y a <> 0 -> a s = trem (vsem x a) (vsem y a) ->
    exists c2, prune_mod x y s c = Some c2 /\ okc a n c2.
  Proof.
    intros a n c Sx Sy Ss O HY ES. rewrite prune_mod_pm.
    apply (pm_snd a n (vsem y a)); try assumption.
    - exact (cbnd_bounds x a n c Hx Sx O).
    - exact (cbnd_bounds y a n c Hy Sy O).
    - exact (cvar_bounds s a n c Ss O).
  Qed.

End Mod.

(* ------------------------------------------------------------------------------------------ *)
(* the four contracts, separately, and the package *)

Lemma mod_trig_facts : forall x y s,
  uin x (trig (mk_mod x y s)) /\ uin y (trig (mk_mod x y s)) /\ In s (trig (mk_mod x y s)).
Proof.
  intros x y s. cbn [trig mk_mod]. split; [|split].
  - apply (uin_app_r x [s]), uin_app_l, uin_self.
  - apply (uin_app_r y [s]), uin_app_r, uin_self.
  - left; reflexivity.
Qed.

Lemma mk_mod_contracting : forall x y s, view_ok x -> view_ok y -> contracting (mk_mod x y s).
Proof.
  intros x y s Hx Hy. destruct (mod_trig_facts x y s) as (Ux & Uy & Us).
  apply contracting_of_ctr. intros c c' W H.
  exact (prune_mod_ctr x y s _ Hx Ux Us c c' W H).
Qed.

Lemma mk_mod_sound : forall x y s, view_ok x -> view_ok y -> sound (mk_mod x y s).
Proof.
  intros x y s Hx Hy. destruct (mod_trig_facts x y s) as (Ux & Uy & Us).
  apply sound_of_okc. intros a n c Hsc O Hs. cbn [sat mk_mod] in Hs. unfold mod_sem in Hs.
  apply andb_true_iff in Hs. destruct Hs as [H1 H2].
  apply negb_true_iff in H1. apply Z.eqb_neq in H1. apply Z.eqb_eq in H2.
  apply (prune_mod_snd x y s Hx Hy a n c); try assumption.
  - intros v Hv. apply Hsc, Ux, Hv.
  - intros v Hv. apply Hsc, Uy, Hv.
  - apply Hsc, Us.
Qed.

Lemma mk_mod_checking : forall x y s, view_ok x -> view_ok y -> checking (mk_mod x y s).
Proof.
  intros x y s Hx Hy. destruct (mod_trig_facts x y s) as (Ux & Uy & Us).
  intros s0 ev a W Hi Hf H. cbn [sat mk_mod]. unfold mod_sem.
  destruct (prune_mod_chk x y s _ Ux Uy Us s0 ev a W Hi Hf H) as [N E].
  apply andb_true_iff. split; [apply negb_true_iff, Z.eqb_neq; exact N|apply Z.eqb_eq; exact E].
Qed.

Lemma mk_mod_frame : forall x y s, view_ok x -> view_ok y -> frame (mk_mod x y s).
Proof.
  intros x y s Hx Hy. destruct (mod_trig_facts x y s) as (Ux & Uy & Us).
  apply frame_of_agr.
  - intros c1 c2 Ha. exact (prune_mod_frm x y s _ Ux Uy Us c1 c2 Ha).
  - intros a1 a2 H. cbn [sat mk_mod]. unfold mod_sem.
    rewrite (vsem_frame x _ a1 a2 Ux H), (vsem_frame y _ a1 a2 Uy H), (H s Us). reflexivity.
Qed.

Lemma mk_mod_good : forall x y s, view_ok x -> view_ok y -> good (mk_mod x y s).
Proof.
  intros x y s Hx Hy. split; [|split; [|split]].
  - exact (mk_mod_contracting x y s Hx Hy).
  - exact (mk_mod_sound x y s Hx Hy).
  - exact (mk_mod_checking x y s Hx Hy).
  - exact (mk_mod_frame x y s Hx Hy).
Qed.

Print Assumptions mk_mod_good.
