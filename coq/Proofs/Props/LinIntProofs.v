(* Proofs for Properties/C05.v, section (a), linear integer propagators (Model/Props/LinInt.v):
   the four local contracts (contracting, sound, checking, frame) of IntLinEq / IntLinLe / IntLinNe
   and their reified forms, and the refutation witness for the all-zero-coefficients class (D11). *)
Require Import Selen.Model.Prelude Selen.Model.Dom Selen.Model.Views Selen.Model.PropDefs.
Require Import Selen.Model.Props.Basic Selen.Model.Props.LinInt.
Require Import Selen.Proofs.DomProofs.

(* ------------------------------------------------------------------------------------------ *)
(* integer division facts *)

Lemma cdiv_pos_le : forall t b v, 0 < b -> t <= b * v -> cdiv t b <= v.
Proof.
  intros t b v Hb H. unfold cdiv.
  assert (A : - v <= (- t) / b) by (apply Z.div_le_lower_bound; [exact Hb | lia]). lia.
Qed.

Lemma fdiv_pos_ge : forall t b v, 0 < b -> b * v <= t -> v <= fdiv t b.
Proof. intros t b v Hb H. unfold fdiv. apply Z.div_le_lower_bound; assumption. Qed.

Lemma div_neg_lower : forall t b v, b < 0 -> t <= b * v -> v <= t / b.
Proof.
  intros t b v Hb H. rewrite <- (Z.div_opp_opp t b) by lia.
  apply Z.div_le_lower_bound; lia.
Qed.

Lemma cdiv_neg_le : forall t b v, b < 0 -> b * v <= t -> cdiv t b <= v.
Proof.
  intros t b v Hb H. unfold cdiv.
  assert (A : - v <= (- t) / b) by (apply div_neg_lower; [exact Hb | lia]). lia.
Qed.

Lemma fdiv_neg_ge : forall t b v, b < 0 -> t <= b * v -> v <= fdiv t b.
Proof. intros t b v Hb H. unfold fdiv. apply div_neg_lower; assumption. Qed.

(* an integer between ceil(t/b) and floor(t/b) is the exact quotient *)
Lemma cdiv_fdiv_exact : forall t b v, b <> 0 -> cdiv t b <= v -> v <= fdiv t b -> b * v = t.
Proof.
  intros t b v Hb H1 H2. unfold cdiv, fdiv in *.
  pose proof (Z.div_mod t b Hb) as E1. pose proof (Z.div_mod (- t) b Hb) as E2.
  destruct (Z.lt_ge_cases 0 b) as [P|P].
  - pose proof (Z.mod_pos_bound t b P). pose proof (Z.mod_pos_bound (- t) b P). nia.
  - assert (N : b < 0) by lia.
    pose proof (Z.mod_neg_bound t b N). pose proof (Z.mod_neg_bound (- t) b N). nia.
Qed.

Lemma ediv_spec : forall a b, b <> 0 ->
  exists r, a = b * ediv a b + r /\ 0 <= r < Z.abs b.
Proof.
  intros a b Hb. unfold ediv.
  pose proof (Z.quot_rem' a b) as E.
  pose proof (Z.rem_bound_abs a b Hb) as B.
  destruct (Z.ltb_spec (Z.rem a b) 0) as [N|N].
  - destruct (Z.ltb_spec 0 b) as [P|P].
    + exists (Z.rem a b + b). split; [lia|]. lia.
    + exists (Z.rem a b - b). split; [lia|]. lia.
  - exists (Z.rem a b). split; [lia|]. lia.
Qed.

Lemma ediv_pos_ge : forall t b v, 0 < b -> b * v <= t -> v <= ediv t b.
Proof.
  intros t b v Hb H. destruct (ediv_spec t b) as (r & E & B); [lia|].
  rewrite Z.abs_eq in B by lia. nia.
Qed.
Lemma ediv_pos_le : forall t b v, 0 < b -> v <= ediv t b -> b * v <= t.
Proof.
  intros t b v Hb H. destruct (ediv_spec t b) as (r & E & B); [lia|].
  rewrite Z.abs_eq in B by lia. nia.
Qed.
Lemma ediv_neg_le : forall t b v, b < 0 -> b * v <= t -> ediv t b <= v.
Proof.
  intros t b v Hb H. destruct (ediv_spec t b) as (r & E & B); [lia|].
  rewrite Z.abs_neq in B by lia. nia.
Qed.
Lemma ediv_neg_ge : forall t b v, b < 0 -> ediv t b <= v -> b * v <= t.
Proof.
  intros t b v Hb H. destruct (ediv_spec t b) as (r & E & B); [lia|].
  rewrite Z.abs_neq in B by lia. nia.
Qed.

Lemma trem_zero_exact : forall n b, trem n b = 0 -> n = b * tdiv n b.
Proof. intros n b H. unfold trem, tdiv in *. pose proof (Z.quot_rem' n b). lia. Qed.
Lemma trem_nonzero : forall n b v, trem n b <> 0 -> b * v <> n.
Proof.
  intros n b v H E. apply H. unfold trem. subst n. rewrite Z.mul_comm.
  destruct (Z.eq_dec b 0) as [->|Hb]; [rewrite Z.mul_0_r; reflexivity|].
  apply Z.rem_mul. exact Hb.
Qed.

(* ------------------------------------------------------------------------------------------ *)
(* store facts: bounds, sizes *)

Lemma inst_bounds : forall a s x, wf_store s -> inst a s -> (x < length s)%nat ->
  dmin (sget s x) <= a x <= dmax (sget s x).
Proof.
  intros a s x Hwf Hi Hx. destruct (Hwf x Hx) as [_ Hs]. specialize (Hi x Hx).
  split; [apply dmin_least | apply dmax_greatest]; assumption.
Qed.

Lemma fixed_value : forall a s x, inst a s -> dfixed (sget s x) = true ->
  dmin (sget s x) = a x /\ dmax (sget s x) = a x.
Proof.
  intros a s x Hi Hf.
  assert (Hx : (x < length s)%nat).
  { apply sget_nonempty_lt. intros E. rewrite E in Hf. discriminate. }
  destruct (dfixed_all_eq _ _ Hf (Hi x Hx)). split; congruence.
Qed.

Lemma li_filter_length_le : forall (f : Z -> bool) d, (length (filter f d) <= length d)%nat.
Proof.
  intros f. induction d as [|x r IH]; [cbn; lia|]. cbn [filter]. destruct (f x); cbn [length]; lia.
Qed.

Lemma li_filter_length_lt : forall (f : Z -> bool) d, filter f d <> d -> (length (filter f d) < length d)%nat.
Proof.
  intros f. induction d as [|x r IH]; intros H; [exfalso; apply H; reflexivity|].
  cbn [filter] in *. destruct (f x).
  - cbn [length]. apply -> Nat.succ_lt_mono. apply IH. intros E. apply H. rewrite E. reflexivity.
  - cbn [length]. pose proof (li_filter_length_le f r). lia.
Qed.

Lemma li_total_size_supd : forall s v d, (v < length s)%nat ->
  (total_size (supd s v d) + length (sget s v) = total_size s + length d)%nat.
Proof.
  unfold sget. induction s as [|x r IH]; intros v d H; [cbn in H; lia|].
  destruct v; cbn [supd total_size nth].
  - lia.
  - cbn in H. specialize (IH v d). assert (L : (v < length r)%nat) by lia. specialize (IH L). lia.
Qed.

(* ------------------------------------------------------------------------------------------ *)
(* pointwise step contracts, closed under the option monad *)

(* contracting-like, writing only variables of L *)
Definition cstep (L : list nat) (c : ctx) (r : option ctx) : Prop :=
  wf_store (fst c) -> forall c', r = Some c' ->
    sub_store (fst c') (fst c) /\ wf_store (fst c') /\
    (total_size (fst c') <= total_size (fst c))%nat /\
    exists evn, snd c' = snd c ++ evn /\
      (forall v, sget (fst c') v <> sget (fst c) v -> In v evn) /\
      (forall v, In v evn -> In v L) /\
      (evn <> [] -> (total_size (fst c') < total_size (fst c))%nat).

Lemma cstep_ret : forall L c, cstep L c (Some c).
Proof.
  intros L c Hwf c' E. inversion E; subst c'. split; [apply sub_store_refl|].
  split; [exact Hwf|]. split; [lia|]. exists []. rewrite app_nil_r.
  split; [reflexivity|]. split; [intros v H; exfalso; apply H; reflexivity|].
  split; [intros v []|]. intros H; exfalso; apply H; reflexivity.
Qed.

Lemma cstep_none : forall L c, cstep L c None.
Proof. intros L c _ c' E. discriminate. Qed.

Lemma cstep_bind : forall L c r g, cstep L c r -> (forall c1, r = Some c1 -> cstep L c1 (g c1)) ->
  cstep L c (obind r g).
Proof.
  intros L c r g H1 H2 Hwf c2 E. destruct r as [c1|]; [|discriminate]. cbn [obind] in E.
  destruct (H1 Hwf c1 eq_refl) as (Hsub1 & Hwf1 & Hle1 & evn1 & Hev1 & Hch1 & Hin1 & Hsz1).
  destruct (H2 c1 eq_refl Hwf1 c2 E) as (Hsub2 & Hwf2 & Hle2 & evn2 & Hev2 & Hch2 & Hin2 & Hsz2).
  split; [eapply sub_store_trans; eassumption|]. split; [exact Hwf2|]. split; [lia|].
  exists (evn1 ++ evn2). split; [rewrite Hev2, Hev1, app_assoc; reflexivity|].
  split.
  { intros v Hv. apply in_or_app.
    destruct (list_eq_dec Z.eq_dec (sget (fst c1) v) (sget (fst c) v)) as [E1|N1].
    - right. apply Hch2. congruence.
    - left. apply Hch1. exact N1. }
  split.
  { intros v Hv. apply in_app_or in Hv. destruct Hv; [apply Hin1|apply Hin2]; assumption. }
  intros Hne. destruct evn1 as [|e1 r1].
  - cbn [app] in Hne. specialize (Hsz2 Hne). lia.
  - assert (A : e1 :: r1 <> []) by discriminate. specialize (Hsz1 A). lia.
Qed.

Lemma cstep_write : forall L s ev x d, In x L -> wf_store s -> (x < length s)%nat ->
  wf_dom d -> (forall y, In y d -> In y (sget s x)) -> (length d < length (sget s x))%nat ->
  forall c', Some (supd s x d, ev ++ [x]) = Some c' ->
    sub_store (fst c') s /\ wf_store (fst c') /\
    (total_size (fst c') <= total_size s)%nat /\
    exists evn, snd c' = ev ++ evn /\
      (forall v, sget (fst c') v <> sget s v -> In v evn) /\
      (forall v, In v evn -> In v L) /\
      (evn <> [] -> (total_size (fst c') < total_size s)%nat).
Proof.
  intros L s ev x d HL Hwf Hx Hd Hsub Hlen c' E. inversion E; subst c'; clear E. cbn [fst snd].
  pose proof (li_total_size_supd s x d Hx) as Hts.
  split; [apply sub_store_supd; exact Hsub|].
  split; [apply wf_store_supd; assumption|]. split; [lia|].
  exists [x]. split; [reflexivity|]. split.
  { intros v Hv. destruct (Nat.eq_dec v x) as [->|N]; [left; reflexivity|].
    exfalso. apply Hv. apply sget_supd_other. exact N. }
  split; [intros v [<-|[]]; exact HL|]. intros _. lia.
Qed.

Lemma cstep_set_min : forall L x b c, In x L -> cstep L c (cset_min x b c).
Proof.
  intros L x b [s ev] HL Hwf c' E. cbn [fst snd] in *.
  destruct (Nat.lt_ge_cases x (length s)) as [Hx|Hx].
  - pose proof (Hwf x Hx) as Hd.
    destruct (cset_min_spec x b s ev Hd) as [[_ E']|[[_ E']|(_ & Hn & Hne & E')]]; rewrite E' in E.
    + discriminate.
    + exact (cstep_ret L (s, ev) Hwf c' E).
    + apply (cstep_write L s ev x (dbelow b (sget s x))); try assumption.
      * apply wf_dom_dbelow; assumption.
      * intros y Hy. apply dbelow_In in Hy. tauto.
      * apply li_filter_length_lt. exact Hne.
  - rewrite cset_min_empty in E by (apply sget_oob; exact Hx). discriminate.
Qed.

Lemma cstep_set_max : forall L x b c, In x L -> cstep L c (cset_max x b c).
Proof.
  intros L x b [s ev] HL Hwf c' E. cbn [fst snd] in *.
  destruct (Nat.lt_ge_cases x (length s)) as [Hx|Hx].
  - pose proof (Hwf x Hx) as Hd.
    destruct (cset_max_spec x b s ev Hd) as [[_ E']|[[_ E']|(_ & Hn & Hne & E')]]; rewrite E' in E.
    + discriminate.
    + exact (cstep_ret L (s, ev) Hwf c' E).
    + apply (cstep_write L s ev x (dabove b (sget s x))); try assumption.
      * apply wf_dom_dabove; assumption.
      * intros y Hy. apply dabove_In in Hy. tauto.
      * apply li_filter_length_lt. exact Hne.
  - rewrite cset_max_empty in E by (apply sget_oob; exact Hx). discriminate.
Qed.

Lemma cstep_contracting : forall p, (forall c, cstep (trig p) c (prune p c)) -> contracting p.
Proof.
  intros p H s ev s' ev' Hwf E.
  destruct (H (s, ev) Hwf (s', ev') E) as (A & B & _ & evn & C). cbn [fst snd] in *.
  split; [exact A|]. split; [exact B|]. exists evn. exact C.
Qed.

(* sound-like: keeps the assignment a *)
Definition sstep (a : asg) (c : ctx) (r : option ctx) : Prop :=
  wf_store (fst c) -> inst a (fst c) ->
  exists c', r = Some c' /\ wf_store (fst c') /\ inst a (fst c') /\ length (fst c') = length (fst c).

Lemma sstep_ret : forall a c, sstep a c (Some c).
Proof. intros a c Hwf Hi. exists c. auto. Qed.

Lemma sstep_bind : forall a (c : ctx) r g, sstep a c r ->
  (forall c1 : ctx, length (fst c1) = length (fst c) -> sstep a c1 (g c1)) -> sstep a c (obind r g).
Proof.
  intros a c r g H1 H2 Hwf Hi. destruct (H1 Hwf Hi) as (c1 & -> & Hwf1 & Hi1 & L1).
  destruct (H2 c1 L1 Hwf1 Hi1) as (c2 & E & Hwf2 & Hi2 & L2). exists c2. cbn [obind].
  split; [exact E|]. split; [exact Hwf2|]. split; [exact Hi2|]. congruence.
Qed.

Lemma inst_supd : forall a s x d, inst a s -> In (a x) d -> inst a (supd s x d).
Proof.
  intros a s x d Hi Hd v Hv. rewrite supd_length in Hv.
  destruct (Nat.eq_dec v x) as [->|N].
  - rewrite sget_supd_same by exact Hv. exact Hd.
  - rewrite sget_supd_other by exact N. apply Hi. exact Hv.
Qed.

Lemma sstep_set_min : forall a x b (c : ctx), (x < length (fst c))%nat -> b <= a x -> sstep a c (cset_min x b c).
Proof.
  intros a x b [s ev] Hx Hb Hwf Hi. cbn [fst snd] in *.
  pose proof (Hwf x Hx) as Hd. pose proof (inst_bounds a s x Hwf Hi Hx) as B.
  destruct (cset_min_spec x b s ev Hd) as [[H1 E']|[[_ E']|(_ & Hn & Hne & E')]].
  - exfalso. lia.
  - exists (s, ev). auto.
  - exists (supd s x (dbelow b (sget s x)), ev ++ [x]). cbn [fst]. split; [exact E'|].
    split; [apply wf_store_supd; [exact Hwf | apply wf_dom_dbelow; assumption]|].
    split; [|apply supd_length]. apply inst_supd; [exact Hi|]. apply dbelow_In. split; [apply Hi; exact Hx | exact Hb].
Qed.

Lemma sstep_set_max : forall a x b (c : ctx), (x < length (fst c))%nat -> a x <= b -> sstep a c (cset_max x b c).
Proof.
  intros a x b [s ev] Hx Hb Hwf Hi. cbn [fst snd] in *.
  pose proof (Hwf x Hx) as Hd. pose proof (inst_bounds a s x Hwf Hi Hx) as B.
  destruct (cset_max_spec x b s ev Hd) as [[H1 E']|[[_ E']|(_ & Hn & Hne & E')]].
  - exfalso. lia.
  - exists (s, ev). auto.
  - exists (supd s x (dabove b (sget s x)), ev ++ [x]). cbn [fst]. split; [exact E'|].
    split; [apply wf_store_supd; [exact Hwf | apply wf_dom_dabove; assumption]|].
    split; [|apply supd_length]. apply inst_supd; [exact Hi|]. apply dabove_In. split; [apply Hi; exact Hx | exact Hb].
Qed.

Lemma sstep_sound : forall p,
  (forall a (c : ctx), in_scope p (length (fst c)) -> sat p a = true -> sstep a c (prune p c)) -> sound p.
Proof.
  intros p H s ev a Hwf Hsc Hi Hsat.
  destruct (H a (s, ev) Hsc Hsat Hwf Hi) as ([s' ev'] & E & _ & Hi' & _).
  exists s', ev'. split; assumption.
Qed.

(* frame: related contexts give related results *)
Definition fr (L : list nat) (c1 c2 : ctx) : Prop := agree_on L (fst c1) (fst c2) /\ snd c1 = snd c2.
Definition orel (R : ctx -> ctx -> Prop) (r1 r2 : option ctx) : Prop :=
  match r1, r2 with Some c1, Some c2 => R c1 c2 | None, None => True | _, _ => False end.

Lemma orel_ret : forall (R : ctx -> ctx -> Prop) c1 c2, R c1 c2 -> orel R (Some c1) (Some c2).
Proof. intros. exact H. Qed.

Lemma orel_bind : forall (R : ctx -> ctx -> Prop) r1 r2 g1 g2, orel R r1 r2 ->
  (forall c1 c2, R c1 c2 -> orel R (g1 c1) (g2 c2)) -> orel R (obind r1 g1) (obind r2 g2).
Proof.
  intros R r1 r2 g1 g2 H1 H2. destruct r1 as [c1|], r2 as [c2|]; cbn [orel obind] in *; try contradiction.
  - apply H2. exact H1.
  - exact I.
Qed.

Lemma agree_supd : forall L s1 s2 x d, agree_on L s1 s2 -> sget s1 x <> [] -> sget s2 x <> [] ->
  agree_on L (supd s1 x d) (supd s2 x d).
Proof.
  intros L s1 s2 x d H N1 N2 v Hv. destruct (Nat.eq_dec v x) as [->|N].
  - rewrite !sget_supd_same by (apply sget_nonempty_lt; assumption). reflexivity.
  - rewrite !sget_supd_other by exact N. apply H. exact Hv.
Qed.

Lemma fr_set_min : forall L x b c1 c2, In x L -> fr L c1 c2 -> orel (fr L) (cset_min x b c1) (cset_min x b c2).
Proof.
  intros L x b [s1 e1] [s2 e2] HL [Ha He]. cbn [fst snd] in *. subst e2.
  pose proof (Ha x HL) as E. unfold cset_min. cbn [fst snd]. rewrite <- E.
  destruct (dempty (sget s1 x)) eqn:D0; [exact I|].
  destruct (dmax (sget s1 x) <? b); [exact I|].
  destruct (dmin (sget s1 x) <? b); [|split; [exact Ha|reflexivity]].
  destruct (dempty (dbelow b (sget s1 x))); [exact I|].
  apply dempty_false in D0.
  split; [|reflexivity]. cbn [fst]. apply agree_supd; [exact Ha | exact D0 | rewrite <- E; exact D0].
Qed.

Lemma fr_set_max : forall L x b c1 c2, In x L -> fr L c1 c2 -> orel (fr L) (cset_max x b c1) (cset_max x b c2).
Proof.
  intros L x b [s1 e1] [s2 e2] HL [Ha He]. cbn [fst snd] in *. subst e2.
  pose proof (Ha x HL) as E. unfold cset_max. cbn [fst snd]. rewrite <- E.
  destruct (dempty (sget s1 x)) eqn:D0; [exact I|].
  destruct (b <? dmin (sget s1 x)); [exact I|].
  destruct (b <? dmax (sget s1 x)); [|split; [exact Ha|reflexivity]].
  destruct (dempty (dabove b (sget s1 x))); [exact I|].
  apply dempty_false in D0.
  split; [|reflexivity]. cbn [fst]. apply agree_supd; [exact Ha | exact D0 | rewrite <- E; exact D0].
Qed.

Lemma fr_frame : forall p,
  (forall c1 c2, fr (trig p) c1 c2 -> orel (fr (trig p)) (prune p c1) (prune p c2)) ->
  (forall a1 a2, (forall v, In v (trig p) -> a1 v = a2 v) -> sat p a1 = sat p a2) -> frame p.
Proof.
  intros p H Hs. split; [|exact Hs]. intros s1 s2 ev _ Ha.
  assert (F : fr (trig p) (s1, ev) (s2, ev)) by (split; [exact Ha|reflexivity]).
  specialize (H _ _ F). unfold orel in H.
  destruct (prune p (s1, ev)) as [[s1' e1]|], (prune p (s2, ev)) as [[s2' e2]|]; try exact H.
  destruct H as [A B]. cbn [fst snd] in *. split; [exact B | exact A].
Qed.

(* a setter on a fixed variable either fails or changes nothing *)
Lemma fixed_set_min : forall x b (c c' : ctx), dfixed (sget (fst c) x) = true -> cset_min x b c = Some c' ->
  c' = c /\ b <= dmin (sget (fst c) x).
Proof.
  intros x b [s ev] c' Hf E. cbn [fst] in *. apply dfixed_single in Hf. destruct Hf as [z Hz].
  unfold cset_min in E. cbn [fst snd] in E. rewrite Hz in *. cbn [dempty dmax dmin last hd] in E.
  destruct (Z.ltb_spec z b) as [H|H]; [discriminate|]. inversion E. split; [reflexivity|exact H].
Qed.

Lemma fixed_set_max : forall x b (c c' : ctx), dfixed (sget (fst c) x) = true -> cset_max x b c = Some c' ->
  c' = c /\ dmax (sget (fst c) x) <= b.
Proof.
  intros x b [s ev] c' Hf E. cbn [fst] in *. apply dfixed_single in Hf. destruct Hf as [z Hz].
  unfold cset_max in E. cbn [fst snd] in E. rewrite Hz in *. cbn [dempty dmax dmin last hd] in E.
  destruct (Z.ltb_spec b z) as [H|H]; [discriminate|]. inversion E. split; [reflexivity|exact H].
Qed.

(* ------------------------------------------------------------------------------------------ *)
(* linear sums *)

Fixpoint lsum (f : Z -> nat -> Z) (l : list (Z * nat)) : Z :=
  match l with [] => 0 | (cf, v) :: r => f cf v + lsum f r end.

Definition real (a : asg) : Z -> nat -> Z := fun cf v => cf * a v.

Lemma lin_sem_lsum : forall l a, lin_sem l a = lsum (real a) l.
Proof. induction l as [|[cf x] r IH]; intros a; cbn [lin_sem lsum]; [reflexivity|]. rewrite IH. reflexivity. Qed.

Lemma lsum_mono : forall f g l, (forall cf x, In (cf, x) l -> f cf x <= g cf x) -> lsum f l <= lsum g l.
Proof.
  intros f g. induction l as [|[cf x] r IH]; intros H; cbn [lsum]; [lia|].
  pose proof (H cf x (or_introl eq_refl)). assert (lsum f r <= lsum g r) by (apply IH; intros; apply H; right; assumption). lia.
Qed.

Lemma lsum_ext : forall f g l, (forall cf x, In (cf, x) l -> f cf x = g cf x) -> lsum f l = lsum g l.
Proof.
  intros f g. induction l as [|[cf x] r IH]; intros H; cbn [lsum]; [reflexivity|].
  rewrite (H cf x (or_introl eq_refl)), IH; [reflexivity|]. intros; apply H; right; assumption.
Qed.

Lemma others_skip : forall f l i j, (i < j)%nat -> others f l i j = lsum f l.
Proof.
  intros f. induction l as [|[cf x] r IH]; intros i j H; cbn [others lsum]; [reflexivity|].
  destruct (Nat.eqb_spec i j) as [E|E]; [lia|]. rewrite IH by lia. reflexivity.
Qed.

Lemma others_at : forall f l p i j cf x, nth_error l p = Some (cf, x) -> i = (j + p)%nat ->
  f cf x + others f l i j = lsum f l.
Proof.
  intros f. induction l as [|[cf0 x0] r IH]; intros p i j cf x Hn Hi; [destruct p; discriminate|].
  cbn [others lsum]. destruct p as [|p].
  - cbn in Hn. inversion Hn; subst. rewrite Nat.add_0_r, Nat.eqb_refl. rewrite others_skip by lia. lia.
  - cbn [nth_error] in Hn. destruct (Nat.eqb_spec i j) as [E|E]; [lia|].
    rewrite <- (IH p i (S j) cf x Hn) by lia. lia.
Qed.

Lemma others_mono : forall f g l i j, (forall cf x, In (cf, x) l -> f cf x <= g cf x) ->
  others f l i j <= others g l i j.
Proof.
  intros f g. induction l as [|[cf x] r IH]; intros i j H; cbn [others]; [lia|].
  pose proof (H cf x (or_introl eq_refl)).
  assert (others f r i (S j) <= others g r i (S j)) by (apply IH; intros; apply H; right; assumption).
  destruct (Nat.eqb i j); lia.
Qed.

Lemma others_ext : forall f g l i j, (forall cf x, In (cf, x) l -> f cf x = g cf x) ->
  others f l i j = others g l i j.
Proof.
  intros f g. induction l as [|[cf x] r IH]; intros i j H; cbn [others]; [reflexivity|].
  rewrite (H cf x (or_introl eq_refl)), (IH i (S j)); [reflexivity|]. intros; apply H; right; assumption.
Qed.

Lemma term_bounds : forall s cf x v, dmin (sget s x) <= v <= dmax (sget s x) ->
  term_min s cf x <= cf * v <= term_max s cf x.
Proof. intros s cf x v H. unfold term_min, term_max. destruct (Z.ltb_spec 0 cf); nia. Qed.

Lemma term_fixed : forall s cf x v, dmin (sget s x) = v -> dmax (sget s x) = v ->
  term_min s cf x = cf * v /\ term_max s cf x = cf * v.
Proof. intros s cf x v H1 H2. unfold term_min, term_max. rewrite H1, H2. destruct (0 <? cf); split; reflexivity. Qed.

Lemma term_agree : forall s1 s2 cf x, sget s1 x = sget s2 x ->
  term_min s1 cf x = term_min s2 cf x /\ term_max s1 cf x = term_max s2 cf x.
Proof. intros s1 s2 cf x H. unfold term_min, term_max. rewrite H. split; reflexivity. Qed.

(* every variable of l lies below n / in L / is fixed *)
Definition lscope (l : list (Z * nat)) (n : nat) : Prop := forall cf x, In (cf, x) l -> (x < n)%nat.
Definition lvars_in (l : list (Z * nat)) (L : list nat) : Prop := forall cf x, In (cf, x) l -> In x L.
Definition lfixed (l : list (Z * nat)) (s : store) : Prop := forall cf x, In (cf, x) l -> dfixed (sget s x) = true.

Lemma combine_vars_in : forall cs xs, lvars_in (combine cs xs) xs.
Proof. intros cs xs cf x H. eapply in_combine_r. exact H. Qed.

Lemma lbounds : forall a s l, wf_store s -> inst a s -> lscope l (length s) ->
  forall cf x, In (cf, x) l -> dmin (sget s x) <= a x <= dmax (sget s x).
Proof. intros a s l Hwf Hi Hsc cf x H. apply inst_bounds; [exact Hwf | exact Hi | eapply Hsc; exact H]. Qed.

Lemma lfixed_vals : forall a s l, inst a s -> lfixed l s ->
  forall cf x, In (cf, x) l -> dmin (sget s x) = a x /\ dmax (sget s x) = a x.
Proof. intros a s l Hi Hf cf x H. apply fixed_value; [exact Hi | eapply Hf; exact H]. Qed.

Lemma forallb_false_nth : forall (l : list (Z * nat)), forallb (fun p => fst p =? 0) l = false ->
  exists i cf x, nth_error l i = Some (cf, x) /\ cf <> 0.
Proof.
  induction l as [|[cf x] r IH]; intros H; [discriminate|]. cbn [forallb fst] in H.
  destruct (Z.eqb_spec cf 0) as [E|E].
  - cbn [andb] in H. destruct (IH H) as (i & cf' & x' & Hn & Hc). exists (S i), cf', x'. split; assumption.
  - exists 0%nat, cf, x. split; [reflexivity | exact E].
Qed.

Lemma lsum_real_agree : forall a1 a2 l L, lvars_in l L -> (forall v, In v L -> a1 v = a2 v) ->
  lsum (real a1) l = lsum (real a2) l.
Proof.
  intros a1 a2 l L HL H. apply lsum_ext. intros cf x Hin. unfold real. rewrite (H x); [reflexivity|].
  eapply HL; exact Hin.
Qed.

(* ------------------------------------------------------------------------------------------ *)
(* lin_loop lifts the step contracts *)

Lemma cstep_loop : forall L step l,
  (forall i cf x c, In (cf, x) l -> cstep L c (step i cf x c)) ->
  forall i c, cstep L c (lin_loop step l i c).
Proof.
  intros L step. induction l as [|[cf x] r IH]; intros H i c; cbn [lin_loop]; [apply cstep_ret|].
  apply cstep_bind; [apply H; left; reflexivity|]. intros c1 _. apply IH.
  intros; apply H; right; assumption.
Qed.

Lemma sstep_loop : forall a n step l i,
  (forall j cf x (c : ctx), nth_error l j = Some (cf, x) -> length (fst c) = n -> sstep a c (step (i + j)%nat cf x c)) ->
  forall c : ctx, length (fst c) = n -> sstep a c (lin_loop step l i c).
Proof.
  intros a n step. induction l as [|[cf x] r IH]; intros i H c Hc; cbn [lin_loop]; [apply sstep_ret|].
  apply sstep_bind.
  - specialize (H 0%nat cf x c eq_refl Hc). rewrite Nat.add_0_r in H. exact H.
  - intros c1 Hc1. apply IH; [|exact (eq_trans Hc1 Hc)]. intros j cf' x' c' Hn Hc'.
    specialize (H (S j) cf' x' c' Hn Hc'). rewrite Nat.add_succ_r in H. exact H.
Qed.

Lemma fr_loop : forall L step l,
  (forall i cf x c1 c2, In (cf, x) l -> fr L c1 c2 -> orel (fr L) (step i cf x c1) (step i cf x c2)) ->
  forall i c1 c2, fr L c1 c2 -> orel (fr L) (lin_loop step l i c1) (lin_loop step l i c2).
Proof.
  intros L step. induction l as [|[cf x] r IH]; intros H i c1 c2 F; cbn [lin_loop]; [exact F|].
  apply orel_bind; [apply H; [left; reflexivity | exact F]|]. intros c1' c2' F'. apply IH; [|exact F'].
  intros; apply H; [right; assumption | assumption].
Qed.

Lemma loop_fixed : forall step l c,
  (forall j cf x c', In (cf, x) l -> step j cf x c = Some c' -> c' = c) ->
  forall i, lin_loop step l i c <> None ->
  lin_loop step l i c = Some c /\
  forall p cf x, nth_error l p = Some (cf, x) -> step (i + p)%nat cf x c = Some c.
Proof.
  intros step. induction l as [|[cf x] r IH]; intros c H i Hne; cbn [lin_loop] in *.
  - split; [reflexivity|]. intros p cf x Hn. destruct p; discriminate.
  - destruct (step i cf x c) as [c'|] eqn:E; [|exfalso; apply Hne; reflexivity].
    assert (c' = c) by (eapply H; [left; reflexivity | exact E]). subst c'. cbn [obind] in *.
    assert (H' : forall j cf x c', In (cf, x) r -> step j cf x c = Some c' -> c' = c)
      by (intros j cf' x' c' Hin; apply H; right; exact Hin).
    destruct (IH c H' (S i) Hne) as [A B]. split; [exact A|].
    intros p cf' x' Hn. destruct p as [|p].
    + cbn in Hn. inversion Hn; subst. rewrite Nat.add_0_r. exact E.
    + rewrite Nat.add_succ_r. apply (B p cf' x'). exact Hn.
Qed.

(* ------------------------------------------------------------------------------------------ *)
(* IntLinEq *)

Lemma lin_eq_step_cstep : forall L l k i cf x c, In x L -> cstep L c (lin_eq_step l k i cf x c).
Proof.
  intros L l k i cf x c HL. unfold lin_eq_step. destruct (cf =? 0); [apply cstep_ret|]. cbv zeta.
  apply cstep_bind; [apply cstep_set_min; exact HL|]. intros c1 _. apply cstep_set_max; exact HL.
Qed.

Lemma others_real_bounds : forall a s l i, wf_store s -> inst a s -> lscope l (length s) ->
  others (term_min s) l i 0 <= others (real a) l i 0 <= others (term_max s) l i 0.
Proof.
  intros a s l i Hwf Hi Hsc.
  split; apply others_mono; intros cf x Hin; apply (term_bounds s cf x (a x));
    eapply lbounds; eassumption.
Qed.

Lemma lin_eq_step_sound : forall a l k i cf x (c : ctx), lscope l (length (fst c)) ->
  nth_error l i = Some (cf, x) -> lin_sem l a = k -> sstep a c (lin_eq_step l k i cf x c).
Proof.
  intros a l k i cf x c Hsc Hn Hk Hwf Hi.
  pose proof (others_at (real a) l i i 0%nat cf x Hn eq_refl) as H1. rewrite <- lin_sem_lsum, Hk in H1.
  unfold real at 1 in H1.
  pose proof (others_real_bounds a (fst c) l i Hwf Hi Hsc) as H2.
  assert (Hx : (x < length (fst c))%nat) by (eapply Hsc, nth_error_In; exact Hn).
  generalize Hwf Hi. change (sstep a c (lin_eq_step l k i cf x c)).
  unfold lin_eq_step. destruct (Z.eqb_spec cf 0) as [Z0|Z0]; [apply sstep_ret|]. cbv zeta.
  destruct (Z.ltb_spec 0 cf) as [P|P].
  - apply sstep_bind.
    + apply sstep_set_min; [exact Hx|]. apply cdiv_pos_le; [exact P | lia].
    + intros c1 L1. apply sstep_set_max; [lia|]. apply fdiv_pos_ge; [exact P | lia].
  - assert (N : cf < 0) by lia. apply sstep_bind.
    + apply sstep_set_min; [exact Hx|]. apply cdiv_neg_le; [exact N | lia].
    + intros c1 L1. apply sstep_set_max; [lia|]. apply fdiv_neg_ge; [exact N | lia].
Qed.

Lemma prune_lin_eq_sound : forall a cs xs k (c : ctx), lscope (combine cs xs) (length (fst c)) ->
  lin_sem (combine cs xs) a = k -> sstep a c (prune_lin_eq cs xs k c).
Proof.
  intros a cs xs k c Hsc Hk. unfold prune_lin_eq. cbv zeta.
  apply (sstep_loop a (length (fst c))); [|reflexivity].
  intros j cf x c1 Hn L1. cbn [Nat.add]. apply lin_eq_step_sound; [rewrite L1; exact Hsc | exact Hn | exact Hk].
Qed.

Lemma lin_eq_step_fr : forall L l k i cf x c1 c2, lvars_in l L -> In x L -> fr L c1 c2 ->
  orel (fr L) (lin_eq_step l k i cf x c1) (lin_eq_step l k i cf x c2).
Proof.
  intros L l k i cf x c1 c2 HL Hx F. unfold lin_eq_step. destruct (cf =? 0); [exact F|]. cbv zeta.
  assert (E1 : others (term_min (fst c1)) l i 0 = others (term_min (fst c2)) l i 0).
  { apply others_ext. intros cf' x' Hin. apply term_agree. apply (proj1 F). eapply HL; exact Hin. }
  assert (E2 : others (term_max (fst c1)) l i 0 = others (term_max (fst c2)) l i 0).
  { apply others_ext. intros cf' x' Hin. apply term_agree. apply (proj1 F). eapply HL; exact Hin. }
  rewrite E1, E2. apply orel_bind; [apply fr_set_min; assumption|].
  intros c1' c2' F'. apply fr_set_max; assumption.
Qed.

Lemma prune_lin_eq_cstep : forall L cs xs k c, lvars_in (combine cs xs) L -> cstep L c (prune_lin_eq cs xs k c).
Proof.
  intros L cs xs k c HL. unfold prune_lin_eq. cbv zeta. apply cstep_loop.
  intros i cf x c1 Hin. apply lin_eq_step_cstep. eapply HL; exact Hin.
Qed.

Lemma prune_lin_eq_fr : forall L cs xs k c1 c2, lvars_in (combine cs xs) L -> fr L c1 c2 ->
  orel (fr L) (prune_lin_eq cs xs k c1) (prune_lin_eq cs xs k c2).
Proof.
  intros L cs xs k c1 c2 HL F. unfold prune_lin_eq. cbv zeta. apply fr_loop; [|exact F].
  intros i cf x d1 d2 Hin F'. apply lin_eq_step_fr; [exact HL | eapply HL; exact Hin | exact F'].
Qed.

Lemma lin_eq_step_fixed : forall l k i cf x (c c' : ctx), dfixed (sget (fst c) x) = true ->
  lin_eq_step l k i cf x c = Some c' -> c' = c.
Proof.
  intros l k i cf x c c' Hf E. unfold lin_eq_step in E. destruct (cf =? 0); [inversion E; reflexivity|].
  cbv zeta in E. match type of E with obind ?r _ = _ => destruct r as [c1|] eqn:E1 end; [|discriminate].
  cbn [obind] in E. apply fixed_set_min in E1; [|exact Hf]. destruct E1 as [-> _].
  apply fixed_set_max in E; [|exact Hf]. tauto.
Qed.

Lemma others_fixed : forall a s l i, inst a s -> lfixed l s ->
  others (term_min s) l i 0 = others (real a) l i 0 /\ others (term_max s) l i 0 = others (real a) l i 0.
Proof.
  intros a s l i Hi Hf. split; apply others_ext; intros cf x Hin;
    destruct (lfixed_vals a s l Hi Hf cf x Hin) as [A B];
    destruct (term_fixed s cf x (a x) A B) as [C D]; unfold real; assumption.
Qed.

Lemma prune_lin_eq_checking : forall a cs xs k (c : ctx), inst a (fst c) -> lfixed (combine cs xs) (fst c) ->
  all_zero cs xs = false -> prune_lin_eq cs xs k c <> None -> lin_sem (combine cs xs) a = k.
Proof.
  intros a cs xs k c Hi Hf Hz Hne. unfold prune_lin_eq in Hne. cbv zeta in Hne.
  set (l := combine cs xs) in *.
  destruct (forallb_false_nth l Hz) as (i & cf & x & Hn & Hcf).
  assert (Hfx : forall j cf x c', In (cf, x) l -> lin_eq_step l k j cf x c = Some c' -> c' = c).
  { intros j cf' x' c' Hin. apply lin_eq_step_fixed. eapply Hf; exact Hin. }
  destruct (loop_fixed _ l c Hfx 0%nat Hne) as [_ B]. specialize (B i cf x Hn). cbn [Nat.add] in B.
  assert (Hx : dfixed (sget (fst c) x) = true) by (eapply Hf, nth_error_In; exact Hn).
  destruct (fixed_value a (fst c) x Hi Hx) as [Vmin Vmax].
  destruct (others_fixed a (fst c) l i Hi Hf) as [O1 O2].
  pose proof (others_at (real a) l i i 0%nat cf x Hn eq_refl) as H1. rewrite <- lin_sem_lsum in H1.
  unfold real at 1 in H1.
  unfold lin_eq_step in B. destruct (Z.eqb_spec cf 0) as [Z0|_]; [contradiction|]. cbv zeta in B.
  rewrite O1, O2 in B.
  match type of B with obind ?r _ = _ => destruct r as [c1|] eqn:E1 end; [|discriminate].
  cbn [obind] in B. apply fixed_set_min in E1; [|exact Hx]. destruct E1 as [-> Lo].
  apply fixed_set_max in B; [|exact Hx]. destruct B as [_ Hi'].
  rewrite Vmin in Lo. rewrite Vmax in Hi'.
  assert (cf * a x = k - others (real a) l i 0); [|lia].
  destruct (0 <? cf); apply cdiv_fdiv_exact; assumption.
Qed.

Lemma lin_sat_frame : forall cs xs a1 a2, (forall v, In v xs -> a1 v = a2 v) ->
  lin_sem (combine cs xs) a1 = lin_sem (combine cs xs) a2.
Proof.
  intros cs xs a1 a2 H. rewrite !lin_sem_lsum. eapply lsum_real_agree; [apply combine_vars_in | exact H].
Qed.

Lemma scope_combine : forall cs xs n, (forall v, In v xs -> (v < n)%nat) -> lscope (combine cs xs) n.
Proof. intros cs xs n H cf x Hin. apply H. eapply in_combine_r; exact Hin. Qed.

Lemma fixed_combine : forall cs xs s, (forall v, In v xs -> dfixed (sget s v) = true) -> lfixed (combine cs xs) s.
Proof. intros cs xs n H cf x Hin. apply H. eapply in_combine_r; exact Hin. Qed.

Theorem mk_lin_eq_good : forall cs xs k, all_zero cs xs = false -> good (mk_lin_eq cs xs k).
Proof.
  intros cs xs k Hz. split; [|split; [|split]].
  - apply cstep_contracting. intros c. cbn [prune trig mk_lin_eq]. apply prune_lin_eq_cstep, combine_vars_in.
  - apply sstep_sound. intros a c Hsc Hsat. cbn [prune trig sat mk_lin_eq in_scope] in *.
    apply prune_lin_eq_sound; [apply scope_combine; exact Hsc | apply Z.eqb_eq; exact Hsat].
  - intros s ev a Hwf Hi Hf Hne. cbn [prune trig sat mk_lin_eq] in *. apply Z.eqb_eq.
    apply (prune_lin_eq_checking a cs xs k (s, ev)); [exact Hi | apply fixed_combine; exact Hf | exact Hz | exact Hne].
  - apply fr_frame; cbn [prune trig sat mk_lin_eq].
    + intros c1 c2 F. apply prune_lin_eq_fr; [apply combine_vars_in | exact F].
    + intros a1 a2 H. rewrite (lin_sat_frame cs xs a1 a2 H). reflexivity.
Qed.

(* ------------------------------------------------------------------------------------------ *)
(* IntLinLe *)

Lemma lin_le_step_cstep : forall L l k i cf x c, In x L -> cstep L c (lin_le_step l k i cf x c).
Proof.
  intros L l k i cf x c HL. unfold lin_le_step. destruct (cf =? 0); [apply cstep_ret|]. cbv zeta.
  destruct (0 <? cf); [apply cstep_set_max | apply cstep_set_min]; exact HL.
Qed.

Lemma lin_le_step_sound : forall a l k i cf x (c : ctx), lscope l (length (fst c)) ->
  nth_error l i = Some (cf, x) -> lin_sem l a <= k -> sstep a c (lin_le_step l k i cf x c).
Proof.
  intros a l k i cf x c Hsc Hn Hk Hwf Hi.
  pose proof (others_at (real a) l i i 0%nat cf x Hn eq_refl) as H1. rewrite <- lin_sem_lsum in H1.
  unfold real at 1 in H1.
  pose proof (others_real_bounds a (fst c) l i Hwf Hi Hsc) as H2.
  assert (Hx : (x < length (fst c))%nat) by (eapply Hsc, nth_error_In; exact Hn).
  generalize Hwf Hi. change (sstep a c (lin_le_step l k i cf x c)).
  unfold lin_le_step. destruct (Z.eqb_spec cf 0) as [Z0|Z0]; [apply sstep_ret|]. cbv zeta.
  destruct (Z.ltb_spec 0 cf) as [P|P].
  - apply sstep_set_max; [exact Hx|]. apply ediv_pos_ge; [exact P | lia].
  - assert (N : cf < 0) by lia. apply sstep_set_min; [exact Hx|]. apply ediv_neg_le; [exact N | lia].
Qed.

Lemma prune_lin_le_sound : forall a cs xs k (c : ctx), lscope (combine cs xs) (length (fst c)) ->
  lin_sem (combine cs xs) a <= k -> sstep a c (prune_lin_le cs xs k c).
Proof.
  intros a cs xs k c Hsc Hk. unfold prune_lin_le. cbv zeta.
  apply (sstep_loop a (length (fst c))); [|reflexivity].
  intros j cf x c1 Hn L1. cbn [Nat.add]. apply lin_le_step_sound; [rewrite L1; exact Hsc | exact Hn | exact Hk].
Qed.

Lemma lin_le_step_fr : forall L l k i cf x c1 c2, lvars_in l L -> In x L -> fr L c1 c2 ->
  orel (fr L) (lin_le_step l k i cf x c1) (lin_le_step l k i cf x c2).
Proof.
  intros L l k i cf x c1 c2 HL Hx F. unfold lin_le_step. destruct (cf =? 0); [exact F|]. cbv zeta.
  assert (E1 : others (term_min (fst c1)) l i 0 = others (term_min (fst c2)) l i 0).
  { apply others_ext. intros cf' x' Hin. apply term_agree. apply (proj1 F). eapply HL; exact Hin. }
  rewrite E1. destruct (0 <? cf); [apply fr_set_max | apply fr_set_min]; assumption.
Qed.

Lemma prune_lin_le_cstep : forall L cs xs k c, lvars_in (combine cs xs) L -> cstep L c (prune_lin_le cs xs k c).
Proof.
  intros L cs xs k c HL. unfold prune_lin_le. cbv zeta. apply cstep_loop.
  intros i cf x c1 Hin. apply lin_le_step_cstep. eapply HL; exact Hin.
Qed.

Lemma prune_lin_le_fr : forall L cs xs k c1 c2, lvars_in (combine cs xs) L -> fr L c1 c2 ->
  orel (fr L) (prune_lin_le cs xs k c1) (prune_lin_le cs xs k c2).
Proof.
  intros L cs xs k c1 c2 HL F. unfold prune_lin_le. cbv zeta. apply fr_loop; [|exact F].
  intros i cf x d1 d2 Hin F'. apply lin_le_step_fr; [exact HL | eapply HL; exact Hin | exact F'].
Qed.

Lemma lin_le_step_fixed : forall l k i cf x (c c' : ctx), dfixed (sget (fst c) x) = true ->
  lin_le_step l k i cf x c = Some c' -> c' = c.
Proof.
  intros l k i cf x c c' Hf E. unfold lin_le_step in E. destruct (cf =? 0); [inversion E; reflexivity|].
  cbv zeta in E. destruct (0 <? cf).
  - apply fixed_set_max in E; [|exact Hf]. tauto.
  - apply fixed_set_min in E; [|exact Hf]. tauto.
Qed.

Lemma prune_lin_le_checking : forall a cs xs k (c : ctx), inst a (fst c) -> lfixed (combine cs xs) (fst c) ->
  all_zero cs xs = false -> prune_lin_le cs xs k c <> None -> lin_sem (combine cs xs) a <= k.
Proof.
  intros a cs xs k c Hi Hf Hz Hne. unfold prune_lin_le in Hne. cbv zeta in Hne.
  set (l := combine cs xs) in *.
  destruct (forallb_false_nth l Hz) as (i & cf & x & Hn & Hcf).
  assert (Hfx : forall j cf x c', In (cf, x) l -> lin_le_step l k j cf x c = Some c' -> c' = c).
  { intros j cf' x' c' Hin. apply lin_le_step_fixed. eapply Hf; exact Hin. }
  destruct (loop_fixed _ l c Hfx 0%nat Hne) as [_ B]. specialize (B i cf x Hn). cbn [Nat.add] in B.
  assert (Hx : dfixed (sget (fst c) x) = true) by (eapply Hf, nth_error_In; exact Hn).
  destruct (fixed_value a (fst c) x Hi Hx) as [Vmin Vmax].
  destruct (others_fixed a (fst c) l i Hi Hf) as [O1 O2].
  pose proof (others_at (real a) l i i 0%nat cf x Hn eq_refl) as H1. rewrite <- lin_sem_lsum in H1.
  unfold real at 1 in H1.
  unfold lin_le_step in B. destruct (Z.eqb_spec cf 0) as [Z0|_]; [contradiction|]. cbv zeta in B.
  rewrite O1 in B.
  assert (cf * a x <= k - others (real a) l i 0); [|lia].
  destruct (Z.ltb_spec 0 cf) as [P|P].
  - apply fixed_set_max in B; [|exact Hx]. destruct B as [_ B]. rewrite Vmax in B.
    apply ediv_pos_le; assumption.
  - apply fixed_set_min in B; [|exact Hx]. destruct B as [_ B]. rewrite Vmin in B.
    apply ediv_neg_ge; [lia | exact B].
Qed.

Theorem mk_lin_le_good : forall cs xs k, all_zero cs xs = false -> good (mk_lin_le cs xs k).
Proof.
  intros cs xs k Hz. split; [|split; [|split]].
  - apply cstep_contracting. intros c. cbn [prune trig mk_lin_le]. apply prune_lin_le_cstep, combine_vars_in.
  - apply sstep_sound. intros a c Hsc Hsat. cbn [prune trig sat mk_lin_le in_scope] in *.
    apply prune_lin_le_sound; [apply scope_combine; exact Hsc | apply Z.leb_le; exact Hsat].
  - intros s ev a Hwf Hi Hf Hne. cbn [prune trig sat mk_lin_le] in *. apply Z.leb_le.
    apply (prune_lin_le_checking a cs xs k (s, ev)); [exact Hi | apply fixed_combine; exact Hf | exact Hz | exact Hne].
  - apply fr_frame; cbn [prune trig sat mk_lin_le].
    + intros c1 c2 F. apply prune_lin_le_fr; [apply combine_vars_in | exact F].
    + intros a1 a2 H. rewrite (lin_sat_frame cs xs a1 a2 H). reflexivity.
Qed.

(* D11: with every coefficient zero the propagator never looks at k *)
Theorem lin_zero_coeffs_checking_refuted :
  exists cs xs k, all_zero cs xs = true /\ ~ checking (mk_lin_le cs xs k).
Proof.
  exists [0], [0%nat], (-1). split; [reflexivity|]. intros H.
  specialize (H [[0]] [] (fun _ => 0)).
  assert (A : sat (mk_lin_le [0] [0%nat] (-1)) (fun _ => 0) = true).
  { apply H.
    - intros v Hv. cbn in Hv. assert (v = 0%nat) by lia. subst v. split; [discriminate | exact I].
    - intros v Hv. cbn in Hv. assert (v = 0%nat) by lia. subst v. left; reflexivity.
    - intros v [<-|[]]. reflexivity.
    - vm_compute. discriminate. }
  vm_compute in A. discriminate.
Qed.

(* ------------------------------------------------------------------------------------------ *)
(* IntLinNe *)

Lemma exclude_value_cstep : forall L x f c, In x L -> cstep L c (exclude_value x f c).
Proof.
  intros L x f c HL. unfold exclude_value. cbv zeta.
  destruct ((f <? cvar_min x c) || (cvar_max x c <? f)); [apply cstep_ret|].
  destruct ((cvar_min x c =? cvar_max x c) && (cvar_min x c =? f)); [apply cstep_none|].
  destruct (cvar_min x c =? f); [apply cstep_set_min; exact HL|].
  destruct (cvar_max x c =? f); [apply cstep_set_max; exact HL|]. apply cstep_ret.
Qed.

Lemma exclude_value_sound : forall a x f (c : ctx), (x < length (fst c))%nat -> a x <> f ->
  sstep a c (exclude_value x f c).
Proof.
  intros a x f c Hx Hne Hwf Hi.
  pose proof (inst_bounds a (fst c) x Hwf Hi Hx) as B.
  generalize Hwf Hi. change (sstep a c (exclude_value x f c)).
  unfold exclude_value, cvar_min, cvar_max. cbv zeta.
  destruct ((f <? dmin (sget (fst c) x)) || (dmax (sget (fst c) x) <? f)); [apply sstep_ret|].
  destruct (Z.eqb_spec (dmin (sget (fst c) x)) (dmax (sget (fst c) x))) as [E1|E1];
  destruct (Z.eqb_spec (dmin (sget (fst c) x)) f) as [E2|E2]; cbn [andb].
  - exfalso. lia.
  - destruct (Z.eqb_spec (dmax (sget (fst c) x)) f) as [E3|E3]; [exfalso; lia | apply sstep_ret].
  - apply sstep_set_min; [exact Hx | lia].
  - destruct (Z.eqb_spec (dmax (sget (fst c) x)) f) as [E3|E3]; [|apply sstep_ret].
    apply sstep_set_max; [exact Hx | lia].
Qed.

Lemma exclude_value_fr : forall L x f c1 c2, In x L -> fr L c1 c2 ->
  orel (fr L) (exclude_value x f c1) (exclude_value x f c2).
Proof.
  intros L x f c1 c2 HL F. unfold exclude_value, cvar_min, cvar_max. cbv zeta.
  rewrite <- (proj1 F x HL).
  destruct ((f <? dmin (sget (fst c1) x)) || (dmax (sget (fst c1) x) <? f)); [exact F|].
  destruct ((dmin (sget (fst c1) x) =? dmax (sget (fst c1) x)) && (dmin (sget (fst c1) x) =? f)); [exact I|].
  destruct (dmin (sget (fst c1) x) =? f); [apply fr_set_min; assumption|].
  destruct (dmax (sget (fst c1) x) =? f); [apply fr_set_max; assumption | exact F].
Qed.

Definition uval (a : asg) (u : option (Z * nat)) : Z :=
  match u with None => 0 | Some (cf, x) => cf * a x end.

Lemma ne_scan_in : forall s l fs u fs' p, ne_scan s l fs u = Some (fs', Some p) ->
  u = Some p \/ In p l.
Proof.
  intros s. induction l as [|[cf x] r IH]; intros fs u fs' p H; cbn [ne_scan] in H.
  - inversion H. left; reflexivity.
  - cbv zeta in H. destruct (dmin (sget s x) =? dmax (sget s x)).
    + destruct (IH _ _ _ _ H) as [A|A]; [left; exact A | right; right; exact A].
    + destruct u as [q|]; [discriminate|].
      destruct (IH _ _ _ _ H) as [A|A]; [right; left; congruence | right; right; exact A].
Qed.

Lemma ne_scan_sum : forall a s l,
  (forall cf x, In (cf, x) l -> dmin (sget s x) <= a x <= dmax (sget s x)) ->
  forall fs u fs' u', ne_scan s l fs u = Some (fs', u') ->
  fs' + uval a u' = fs + uval a u + lsum (real a) l.
Proof.
  intros a s. induction l as [|[cf x] r IH]; intros HB fs u fs' u' H; cbn [ne_scan lsum] in *.
  - inversion H. lia.
  - cbv zeta in H. pose proof (HB cf x (or_introl eq_refl)) as B.
    assert (HB' : forall cf x, In (cf, x) r -> dmin (sget s x) <= a x <= dmax (sget s x))
      by (intros cf' x' Hin; apply (HB cf' x'); right; exact Hin).
    destruct (Z.eqb_spec (dmin (sget s x)) (dmax (sget s x))) as [E|E].
    + rewrite (IH HB' _ _ _ _ H). unfold real at 2. assert (a x = dmin (sget s x)) by lia. nia.
    + destruct u as [q|]; [discriminate|]. rewrite (IH HB' _ _ _ _ H). cbn [uval]. unfold real at 2. lia.
Qed.

Lemma ne_scan_fixed : forall a s l, inst a s -> lfixed l s ->
  forall fs u, ne_scan s l fs u = Some (fs + lsum (real a) l, u).
Proof.
  intros a s. induction l as [|[cf x] r IH]; intros Hi Hf fs u; cbn [ne_scan lsum].
  - rewrite Z.add_0_r. reflexivity.
  - cbv zeta. destruct (lfixed_vals a s _ Hi Hf cf x (or_introl eq_refl)) as [A B]. rewrite A, B, Z.eqb_refl.
    rewrite IH; [|exact Hi | intros cf' x' Hin; eapply Hf; right; exact Hin].
    unfold real at 2. rewrite Z.add_assoc. reflexivity.
Qed.

Lemma ne_scan_agree : forall s1 s2 l, (forall cf x, In (cf, x) l -> sget s1 x = sget s2 x) ->
  forall fs u, ne_scan s1 l fs u = ne_scan s2 l fs u.
Proof.
  intros s1 s2. induction l as [|[cf x] r IH]; intros H fs u; cbn [ne_scan]; [reflexivity|].
  cbv zeta. rewrite (H cf x (or_introl eq_refl)).
  assert (H' : forall cf x, In (cf, x) r -> sget s1 x = sget s2 x) by (intros; eapply H; right; eassumption).
  destruct (dmin (sget s2 x) =? dmax (sget s2 x)); [apply IH; exact H'|].
  destruct u; [reflexivity | apply IH; exact H'].
Qed.

Lemma prune_lin_ne_cstep : forall L cs xs k c, lvars_in (combine cs xs) L -> cstep L c (prune_lin_ne cs xs k c).
Proof.
  intros L cs xs k c HL. unfold prune_lin_ne.
  destruct (ne_scan (fst c) (combine cs xs) 0 None) as [[fs [[cf x]|]]|] eqn:E.
  - destruct (cf =? 0); [destruct (fs =? k); [apply cstep_none | apply cstep_ret]|]. cbv zeta.
    destruct (trem (k - fs) cf =? 0); [|apply cstep_ret]. apply exclude_value_cstep.
    apply ne_scan_in in E. destruct E as [E|E]; [discriminate|]. eapply HL; exact E.
  - destruct (fs =? k); [apply cstep_none | apply cstep_ret].
  - apply cstep_ret.
Qed.

Lemma prune_lin_ne_sound : forall a cs xs k (c : ctx), lscope (combine cs xs) (length (fst c)) ->
  lin_sem (combine cs xs) a <> k -> sstep a c (prune_lin_ne cs xs k c).
Proof.
  intros a cs xs k c Hsc Hk Hwf Hi. rewrite lin_sem_lsum in Hk.
  pose proof (lbounds a (fst c) _ Hwf Hi Hsc) as HB.
  generalize Hwf Hi. change (sstep a c (prune_lin_ne cs xs k c)). unfold prune_lin_ne.
  destruct (ne_scan (fst c) (combine cs xs) 0 None) as [[fs [[cf x]|]]|] eqn:E.
  - pose proof (ne_scan_sum a _ _ HB _ _ _ _ E) as S. cbn [uval] in S.
    apply ne_scan_in in E. destruct E as [E|E]; [discriminate|].
    destruct (Z.eqb_spec cf 0) as [Z0|Z0].
    + destruct (Z.eqb_spec fs k) as [K|K]; [exfalso; nia | apply sstep_ret].
    + cbv zeta. destruct (Z.eqb_spec (trem (k - fs) cf) 0) as [T|T]; [|apply sstep_ret].
      apply exclude_value_sound; [eapply Hsc; exact E|].
      apply trem_zero_exact in T. intros A. rewrite <- A in T. lia.
  - pose proof (ne_scan_sum a _ _ HB _ _ _ _ E) as S. cbn [uval] in S.
    destruct (Z.eqb_spec fs k) as [K|K]; [exfalso; lia | apply sstep_ret].
  - apply sstep_ret.
Qed.

Lemma prune_lin_ne_fr : forall L cs xs k c1 c2, lvars_in (combine cs xs) L -> fr L c1 c2 ->
  orel (fr L) (prune_lin_ne cs xs k c1) (prune_lin_ne cs xs k c2).
Proof.
  intros L cs xs k c1 c2 HL F. unfold prune_lin_ne.
  rewrite <- (ne_scan_agree (fst c1) (fst c2) (combine cs xs))
    by (intros cf x Hin; apply (proj1 F); eapply HL; exact Hin).
  destruct (ne_scan (fst c1) (combine cs xs) 0 None) as [[fs [[cf x]|]]|] eqn:E.
  - destruct (cf =? 0); [destruct (fs =? k); [exact I | exact F]|]. cbv zeta.
    destruct (trem (k - fs) cf =? 0); [|exact F]. apply exclude_value_fr; [|exact F].
    apply ne_scan_in in E. destruct E as [E|E]; [discriminate|]. eapply HL; exact E.
  - destruct (fs =? k); [exact I | exact F].
  - exact F.
Qed.

Lemma prune_lin_ne_checking : forall a cs xs k (c : ctx), inst a (fst c) -> lfixed (combine cs xs) (fst c) ->
  prune_lin_ne cs xs k c <> None -> lin_sem (combine cs xs) a <> k.
Proof.
  intros a cs xs k c Hi Hf Hne. unfold prune_lin_ne in Hne.
  rewrite (ne_scan_fixed a (fst c) _ Hi Hf) in Hne. rewrite lin_sem_lsum.
  destruct (Z.eqb_spec (0 + lsum (real a) (combine cs xs)) k) as [K|K]; [exfalso; apply Hne; reflexivity|]. lia.
Qed.

Theorem mk_lin_ne_good : forall cs xs k, good (mk_lin_ne cs xs k).
Proof.
  intros cs xs k. split; [|split; [|split]].
  - apply cstep_contracting. intros c. cbn [prune trig mk_lin_ne]. apply prune_lin_ne_cstep, combine_vars_in.
  - apply sstep_sound. intros a c Hsc Hsat. cbn [prune trig sat mk_lin_ne in_scope] in *.
    apply prune_lin_ne_sound; [apply scope_combine; exact Hsc|].
    apply negb_true_iff in Hsat. apply Z.eqb_neq; exact Hsat.
  - intros s ev a Hwf Hi Hf Hne. cbn [prune trig sat mk_lin_ne] in *. apply negb_true_iff. apply Z.eqb_neq.
    apply (prune_lin_ne_checking a cs xs k (s, ev)); [exact Hi | apply fixed_combine; exact Hf | exact Hne].
  - apply fr_frame; cbn [prune trig sat mk_lin_ne].
    + intros c1 c2 F. apply prune_lin_ne_fr; [apply combine_vars_in | exact F].
    + intros a1 a2 H. rewrite (lin_sat_frame cs xs a1 a2 H). reflexivity.
Qed.

(* ------------------------------------------------------------------------------------------ *)
(* reified forms: helpers *)

Lemma fixed_sum_sum : forall a s l,
  (forall cf x, In (cf, x) l -> dmin (sget s x) <= a x <= dmax (sget s x)) ->
  forall acc sm, fixed_sum s l acc = Some sm -> sm = acc + lsum (real a) l.
Proof.
  intros a s. induction l as [|[cf x] r IH]; intros HB acc sm H; cbn [fixed_sum lsum] in *.
  - inversion H. lia.
  - cbv zeta in H. pose proof (HB cf x (or_introl eq_refl)) as B.
    destruct (Z.eqb_spec (dmin (sget s x)) (dmax (sget s x))) as [E|E]; [|discriminate].
    rewrite (IH (fun cf' x' Hin => HB cf' x' (or_intror Hin)) _ _ H). unfold real at 2.
    assert (a x = dmin (sget s x)) by lia. nia.
Qed.

Lemma fixed_sum_fixed : forall a s l, inst a s -> lfixed l s ->
  forall acc, fixed_sum s l acc = Some (acc + lsum (real a) l).
Proof.
  intros a s. induction l as [|[cf x] r IH]; intros Hi Hf acc; cbn [fixed_sum lsum].
  - rewrite Z.add_0_r. reflexivity.
  - cbv zeta. destruct (lfixed_vals a s _ Hi Hf cf x (or_introl eq_refl)) as [A B]. rewrite A, B, Z.eqb_refl.
    rewrite IH; [|exact Hi | intros cf' x' Hin; eapply Hf; right; exact Hin].
    unfold real at 2. rewrite Z.add_assoc. reflexivity.
Qed.

Lemma fixed_sum_agree : forall s1 s2 l, (forall cf x, In (cf, x) l -> sget s1 x = sget s2 x) ->
  forall acc, fixed_sum s1 l acc = fixed_sum s2 l acc.
Proof.
  intros s1 s2. induction l as [|[cf x] r IH]; intros H acc; cbn [fixed_sum]; [reflexivity|].
  cbv zeta. rewrite (H cf x (or_introl eq_refl)).
  destruct (dmin (sget s2 x) =? dmax (sget s2 x)); [|reflexivity].
  apply IH. intros cf' x' Hin. eapply H; right; exact Hin.
Qed.

Lemma sum_bounds_lsum : forall s l, sum_bounds s l = (lsum (term_min s) l, lsum (term_max s) l).
Proof.
  intros s. induction l as [|[cf x] r IH]; cbn [sum_bounds lsum]; [reflexivity|]. rewrite IH. reflexivity.
Qed.

Lemma set_bool_cstep : forall L b v c, In b L -> cstep L c (set_bool b v c).
Proof.
  intros L b v c HL. unfold set_bool. apply cstep_bind; [apply cstep_set_min; exact HL|].
  intros c1 _. apply cstep_set_max; exact HL.
Qed.

Lemma set_bool_sound : forall a b v (c : ctx), (b < length (fst c))%nat -> a b = v -> sstep a c (set_bool b v c).
Proof.
  intros a b v c Hb E. unfold set_bool. apply sstep_bind; [apply sstep_set_min; [exact Hb | lia]|].
  intros c1 L1. apply sstep_set_max; [lia | lia].
Qed.

Lemma set_bool_fr : forall L b v c1 c2, In b L -> fr L c1 c2 -> orel (fr L) (set_bool b v c1) (set_bool b v c2).
Proof.
  intros L b v c1 c2 HL F. unfold set_bool. apply orel_bind; [apply fr_set_min; assumption|].
  intros d1 d2 F'. apply fr_set_max; assumption.
Qed.

Lemma set_bool_fixed : forall b v (c : ctx), dfixed (sget (fst c) b) = true -> set_bool b v c <> None ->
  dmin (sget (fst c) b) = v.
Proof.
  intros b v c Hf Hne. unfold set_bool in Hne.
  destruct (cset_min b v c) as [c1|] eqn:E1; [|exfalso; apply Hne; reflexivity]. cbn [obind] in Hne.
  apply fixed_set_min in E1; [|exact Hf]. destruct E1 as [-> Lo].
  destruct (cset_max b v c) as [c2|] eqn:E2; [|exfalso; apply Hne; reflexivity].
  apply fixed_set_max in E2; [|exact Hf]. destruct E2 as [_ Hi].
  apply dfixed_single in Hf. destruct Hf as [z Hz]. rewrite Hz in *. cbn [dmin dmax hd last] in *. lia.
Qed.

Lemma reif_is_val : forall a b v (c : ctx), dmin (sget (fst c) b) <= a b <= dmax (sget (fst c) b) ->
  reif_is b v c = true -> a b = v.
Proof.
  intros a b v c B H. unfold reif_is, cvar_min, cvar_max in H. apply andb_true_iff in H.
  destruct H as [H1 H2]. apply Z.eqb_eq in H1, H2. lia.
Qed.

Lemma reif_is_fixed : forall a b v (c : ctx), dmin (sget (fst c) b) = a b -> dmax (sget (fst c) b) = a b ->
  reif_is b v c = (a b =? v).
Proof. intros a b v c H1 H2. unfold reif_is, cvar_min, cvar_max. rewrite H1, H2. apply andb_diag. Qed.

Lemma reif_is_agree : forall L b v c1 c2, In b L -> fr L c1 c2 -> reif_is b v c1 = reif_is b v c2.
Proof. intros L b v c1 c2 HL F. unfold reif_is, cvar_min, cvar_max. rewrite (proj1 F b HL). reflexivity. Qed.

Lemma reif_sat_decode : forall v P, is01 v && Bool.eqb (v =? 1) P = true ->
  (v = 1 /\ P = true) \/ (v = 0 /\ P = false).
Proof.
  intros v P H. apply andb_true_iff in H. destruct H as [H1 H2]. apply eqb_prop in H2.
  unfold is01 in H1. apply orb_true_iff in H1. destruct H1 as [H1|H1]; apply Z.eqb_eq in H1; subst v.
  - right. split; [reflexivity | symmetry; exact H2].
  - left. split; [reflexivity | symmetry; exact H2].
Qed.

Lemma reif_sat_encode : forall v P, (v = 1 /\ P = true) \/ (v = 0 /\ P = false) ->
  is01 v && Bool.eqb (v =? 1) P = true.
Proof. intros v P [[-> ->]|[-> ->]]; reflexivity. Qed.

Lemma reif_vars_in : forall cs xs b, lvars_in (combine cs xs) (xs ++ [b]).
Proof. intros cs xs b cf x H. apply in_or_app. left. eapply in_combine_r; exact H. Qed.
Lemma reif_b_in : forall (xs : list nat) b, In b (xs ++ [b]).
Proof. intros. apply in_or_app. right. left. reflexivity. Qed.

Lemma reif_scope : forall cs xs b n, (forall v, In v (xs ++ [b]) -> (v < n)%nat) ->
  lscope (combine cs xs) n /\ (b < n)%nat.
Proof.
  intros cs xs b n H. split; [|apply H, reif_b_in]. intros cf x Hin. apply H. eapply reif_vars_in; exact Hin.
Qed.

Lemma reif_fixed : forall cs xs b s, (forall v, In v (xs ++ [b]) -> dfixed (sget s v) = true) ->
  lfixed (combine cs xs) s /\ dfixed (sget s b) = true.
Proof.
  intros cs xs b s H. split; [|apply H, reif_b_in]. intros cf x Hin. apply H. eapply reif_vars_in; exact Hin.
Qed.

Lemma reif_sat_frame : forall cs xs b a1 a2, (forall v, In v (xs ++ [b]) -> a1 v = a2 v) ->
  a1 b = a2 b /\ lin_sem (combine cs xs) a1 = lin_sem (combine cs xs) a2.
Proof.
  intros cs xs b a1 a2 H. split; [apply H, reif_b_in|]. apply lin_sat_frame.
  intros v Hv. apply H. apply in_or_app. left. exact Hv.
Qed.

(* ------------------------------------------------------------------------------------------ *)
(* IntLinEqReif *)

Theorem mk_lin_eq_reif_good : forall cs xs k b, all_zero cs xs = false -> good (mk_lin_eq_reif cs xs k b).
Proof.
  intros cs xs k b Hz.
  pose proof (reif_vars_in cs xs b) as HL. pose proof (reif_b_in xs b) as Hb.
  split; [|split; [|split]].
  - apply cstep_contracting. intros c. cbn [prune trig mk_lin_eq_reif]. unfold prune_lin_eq_reif. cbv zeta.
    destruct (reif_is b 1 c); [apply prune_lin_eq_cstep; exact HL|].
    destruct (reif_is b 0 c).
    + destruct (fixed_sum (fst c) (combine cs xs) 0) as [sm|]; [|apply cstep_ret].
      destruct (sm =? k); [apply cstep_none | apply cstep_ret].
    + destruct (fixed_sum (fst c) (combine cs xs) 0) as [sm|]; [|apply cstep_ret].
      destruct (sm =? k); apply set_bool_cstep; exact Hb.
  - apply sstep_sound. intros a c Hsc Hsat. cbn [prune trig sat mk_lin_eq_reif in_scope] in *.
    destruct (reif_scope cs xs b _ Hsc) as [Hsl Hsb]. apply reif_sat_decode in Hsat.
    intros Hwf Hi. pose proof (lbounds a (fst c) _ Hwf Hi Hsl) as HB.
    pose proof (inst_bounds a (fst c) b Hwf Hi Hsb) as Bb.
    generalize Hwf Hi. change (sstep a c (prune_lin_eq_reif cs xs k b c)). unfold prune_lin_eq_reif. cbv zeta.
    destruct (reif_is b 1 c) eqn:R1.
    { apply (reif_is_val a) in R1; [|exact Bb]. apply prune_lin_eq_sound; [exact Hsl|].
      destruct Hsat as [[_ P]|[A _]]; [apply Z.eqb_eq; exact P | lia]. }
    destruct (reif_is b 0 c) eqn:R0.
    { apply (reif_is_val a) in R0; [|exact Bb].
      destruct (fixed_sum (fst c) (combine cs xs) 0) as [sm|] eqn:FS; [|apply sstep_ret].
      apply (fixed_sum_sum a _ _ HB) in FS. rewrite <- lin_sem_lsum in FS.
      destruct Hsat as [[A _]|[_ P]]; [lia|]. apply Z.eqb_neq in P.
      destruct (Z.eqb_spec sm k); [exfalso; lia | apply sstep_ret]. }
    destruct (fixed_sum (fst c) (combine cs xs) 0) as [sm|] eqn:FS; [|apply sstep_ret].
    apply (fixed_sum_sum a _ _ HB) in FS. rewrite <- lin_sem_lsum in FS.
    destruct (Z.eqb_spec sm k) as [K|K]; apply set_bool_sound; try exact Hsb.
    + destruct Hsat as [[A _]|[_ P]]; [exact A|]. apply Z.eqb_neq in P. exfalso; lia.
    + destruct Hsat as [[_ P]|[A _]]; [|exact A]. apply Z.eqb_eq in P. exfalso; lia.
  - intros s ev a Hwf Hi Hf Hne. cbn [prune trig sat mk_lin_eq_reif] in *.
    destruct (reif_fixed cs xs b s Hf) as [Hfl Hfb].
    destruct (fixed_value a s b Hi Hfb) as [Vmin Vmax].
    apply reif_sat_encode. unfold prune_lin_eq_reif in Hne. cbv zeta in Hne.
    rewrite !(reif_is_fixed a b _ (s, ev) Vmin Vmax) in Hne.
    rewrite (fixed_sum_fixed a s _ Hi Hfl) in Hne. cbn [fst] in Hne. rewrite <- lin_sem_lsum in Hne.
    rewrite Z.add_0_l in Hne.
    destruct (Z.eqb_spec (a b) 1) as [B1|B1].
    { left. split; [exact B1|]. apply Z.eqb_eq.
      apply (prune_lin_eq_checking a cs xs k (s, ev)); assumption. }
    destruct (Z.eqb_spec (a b) 0) as [B0|B0].
    { right. split; [exact B0|]. destruct (lin_sem (combine cs xs) a =? k); [exfalso; apply Hne|]; reflexivity. }
    exfalso. destruct (lin_sem (combine cs xs) a =? k);
      apply (set_bool_fixed b _ (s, ev) Hfb) in Hne; cbn [fst] in Hne; lia.
  - apply fr_frame; cbn [prune trig sat mk_lin_eq_reif].
    + intros c1 c2 F. unfold prune_lin_eq_reif. cbv zeta.
      rewrite <- !(reif_is_agree _ b _ c1 c2 Hb F).
      rewrite <- (fixed_sum_agree (fst c1) (fst c2) (combine cs xs))
        by (intros cf x Hin; apply (proj1 F); eapply HL; exact Hin).
      destruct (reif_is b 1 c1); [apply prune_lin_eq_fr; assumption|].
      destruct (reif_is b 0 c1).
      * destruct (fixed_sum (fst c1) (combine cs xs) 0) as [sm|]; [|exact F].
        destruct (sm =? k); [exact I | exact F].
      * destruct (fixed_sum (fst c1) (combine cs xs) 0) as [sm|]; [|exact F].
        destruct (sm =? k); apply set_bool_fr; assumption.
    + intros a1 a2 H. destruct (reif_sat_frame cs xs b a1 a2 H) as [-> ->]. reflexivity.
Qed.

(* ------------------------------------------------------------------------------------------ *)
(* IntLinLeReif *)

Lemma lsum_real_bounds : forall a s l,
  (forall cf x, In (cf, x) l -> dmin (sget s x) <= a x <= dmax (sget s x)) ->
  lsum (term_min s) l <= lsum (real a) l <= lsum (term_max s) l.
Proof.
  intros a s l HB. split; apply lsum_mono; intros cf x Hin;
    apply (term_bounds s cf x (a x)); eapply HB; exact Hin.
Qed.

Lemma lsum_fixed : forall a s l, inst a s -> lfixed l s ->
  lsum (term_min s) l = lsum (real a) l /\ lsum (term_max s) l = lsum (real a) l.
Proof.
  intros a s l Hi Hf. split; apply lsum_ext; intros cf x Hin;
    destruct (lfixed_vals a s l Hi Hf cf x Hin) as [A B];
    destruct (term_fixed s cf x (a x) A B) as [C D]; unfold real; assumption.
Qed.

Lemma lsum_term_agree : forall s1 s2 l, (forall cf x, In (cf, x) l -> sget s1 x = sget s2 x) ->
  lsum (term_min s1) l = lsum (term_min s2) l /\ lsum (term_max s1) l = lsum (term_max s2) l.
Proof.
  intros s1 s2 l H. split; apply lsum_ext; intros cf x Hin; apply term_agree; eapply H; exact Hin.
Qed.

Theorem mk_lin_le_reif_good : forall cs xs k b, all_zero cs xs = false -> good (mk_lin_le_reif cs xs k b).
Proof.
  intros cs xs k b Hz.
  pose proof (reif_vars_in cs xs b) as HL. pose proof (reif_b_in xs b) as Hb.
  split; [|split; [|split]].
  - apply cstep_contracting. intros c. cbn [prune trig mk_lin_le_reif]. unfold prune_lin_le_reif. cbv zeta.
    destruct (reif_is b 1 c); [apply prune_lin_le_cstep; exact HL|].
    destruct (reif_is b 0 c).
    + destruct (fixed_sum (fst c) (combine cs xs) 0) as [sm|]; [|apply cstep_ret].
      destruct (sm <=? k); [apply cstep_none | apply cstep_ret].
    + rewrite sum_bounds_lsum.
      destruct (_ <=? k); [apply set_bool_cstep; exact Hb|].
      destruct (k <? _); [apply set_bool_cstep; exact Hb | apply cstep_ret].
  - apply sstep_sound. intros a c Hsc Hsat. cbn [prune trig sat mk_lin_le_reif in_scope] in *.
    destruct (reif_scope cs xs b _ Hsc) as [Hsl Hsb]. apply reif_sat_decode in Hsat.
    intros Hwf Hi. pose proof (lbounds a (fst c) _ Hwf Hi Hsl) as HB.
    pose proof (inst_bounds a (fst c) b Hwf Hi Hsb) as Bb.
    generalize Hwf Hi. change (sstep a c (prune_lin_le_reif cs xs k b c)). unfold prune_lin_le_reif. cbv zeta.
    destruct (reif_is b 1 c) eqn:R1.
    { apply (reif_is_val a) in R1; [|exact Bb]. apply prune_lin_le_sound; [exact Hsl|].
      destruct Hsat as [[_ P]|[A _]]; [apply Z.leb_le; exact P | lia]. }
    destruct (reif_is b 0 c) eqn:R0.
    { apply (reif_is_val a) in R0; [|exact Bb].
      destruct (fixed_sum (fst c) (combine cs xs) 0) as [sm|] eqn:FS; [|apply sstep_ret].
      apply (fixed_sum_sum a _ _ HB) in FS. rewrite <- lin_sem_lsum in FS.
      destruct Hsat as [[A _]|[_ P]]; [lia|]. apply Z.leb_gt in P.
      destruct (Z.leb_spec sm k); [exfalso; lia | apply sstep_ret]. }
    rewrite sum_bounds_lsum. pose proof (lsum_real_bounds a (fst c) _ HB) as SB. rewrite <- lin_sem_lsum in SB.
    destruct (Z.leb_spec (lsum (term_max (fst c)) (combine cs xs)) k) as [K|K].
    { apply set_bool_sound; [exact Hsb|].
      destruct Hsat as [[A _]|[_ P]]; [exact A|]. apply Z.leb_gt in P. exfalso; lia. }
    destruct (Z.ltb_spec k (lsum (term_min (fst c)) (combine cs xs))) as [K'|K']; [|apply sstep_ret].
    apply set_bool_sound; [exact Hsb|].
    destruct Hsat as [[_ P]|[A _]]; [|exact A]. apply Z.leb_le in P. exfalso; lia.
  - intros s ev a Hwf Hi Hf Hne. cbn [prune trig sat mk_lin_le_reif] in *.
    destruct (reif_fixed cs xs b s Hf) as [Hfl Hfb].
    destruct (fixed_value a s b Hi Hfb) as [Vmin Vmax].
    apply reif_sat_encode. unfold prune_lin_le_reif in Hne. cbv zeta in Hne.
    rewrite !(reif_is_fixed a b _ (s, ev) Vmin Vmax) in Hne.
    rewrite (fixed_sum_fixed a s _ Hi Hfl) in Hne. rewrite sum_bounds_lsum in Hne. cbn [fst] in Hne.
    destruct (lsum_fixed a s _ Hi Hfl) as [S1 S2]. rewrite S1, S2 in Hne.
    rewrite <- lin_sem_lsum in Hne. rewrite Z.add_0_l in Hne.
    destruct (Z.eqb_spec (a b) 1) as [B1|B1].
    { left. split; [exact B1|]. apply Z.leb_le.
      apply (prune_lin_le_checking a cs xs k (s, ev)); assumption. }
    destruct (Z.eqb_spec (a b) 0) as [B0|B0].
    { right. split; [exact B0|]. destruct (lin_sem (combine cs xs) a <=? k); [exfalso; apply Hne|]; reflexivity. }
    exfalso. destruct (Z.leb_spec (lin_sem (combine cs xs) a) k) as [K|K].
    + apply (set_bool_fixed b _ (s, ev) Hfb) in Hne. cbn [fst] in Hne. lia.
    + destruct (Z.ltb_spec k (lin_sem (combine cs xs) a)) as [K'|K']; [|lia].
      apply (set_bool_fixed b _ (s, ev) Hfb) in Hne. cbn [fst] in Hne. lia.
  - apply fr_frame; cbn [prune trig sat mk_lin_le_reif].
    + intros c1 c2 F. unfold prune_lin_le_reif. cbv zeta.
      assert (HA : forall cf x, In (cf, x) (combine cs xs) -> sget (fst c1) x = sget (fst c2) x)
        by (intros cf x Hin; apply (proj1 F); eapply HL; exact Hin).
      rewrite <- !(reif_is_agree _ b _ c1 c2 Hb F).
      rewrite <- (fixed_sum_agree (fst c1) (fst c2) (combine cs xs) HA).
      rewrite !sum_bounds_lsum. destruct (lsum_term_agree _ _ _ HA) as [<- <-].
      destruct (reif_is b 1 c1); [apply prune_lin_le_fr; assumption|].
      destruct (reif_is b 0 c1).
      * destruct (fixed_sum (fst c1) (combine cs xs) 0) as [sm|]; [|exact F].
        destruct (sm <=? k); [exact I | exact F].
      * destruct (_ <=? k); [apply set_bool_fr; assumption|].
        destruct (k <? _); [apply set_bool_fr; assumption | exact F].
    + intros a1 a2 H. destruct (reif_sat_frame cs xs b a1 a2 H) as [-> ->]. reflexivity.
Qed.

(* ------------------------------------------------------------------------------------------ *)
(* IntLinNeReif *)

Theorem mk_lin_ne_reif_good : forall cs xs k b, all_zero cs xs = false -> good (mk_lin_ne_reif cs xs k b).
Proof.
  intros cs xs k b Hz.
  pose proof (reif_vars_in cs xs b) as HL. pose proof (reif_b_in xs b) as Hb.
  split; [|split; [|split]].
  - apply cstep_contracting. intros c. cbn [prune trig mk_lin_ne_reif]. unfold prune_lin_ne_reif. cbv zeta.
    destruct (reif_is b 1 c); [apply prune_lin_ne_cstep; exact HL|].
    destruct (reif_is b 0 c); [apply prune_lin_eq_cstep; exact HL|].
    destruct (fixed_sum (fst c) (combine cs xs) 0) as [sm|]; [|apply cstep_ret].
    destruct (negb (sm =? k)); apply set_bool_cstep; exact Hb.
  - apply sstep_sound. intros a c Hsc Hsat. cbn [prune trig sat mk_lin_ne_reif in_scope] in *.
    destruct (reif_scope cs xs b _ Hsc) as [Hsl Hsb]. apply reif_sat_decode in Hsat.
    intros Hwf Hi. pose proof (lbounds a (fst c) _ Hwf Hi Hsl) as HB.
    pose proof (inst_bounds a (fst c) b Hwf Hi Hsb) as Bb.
    generalize Hwf Hi. change (sstep a c (prune_lin_ne_reif cs xs k b c)). unfold prune_lin_ne_reif. cbv zeta.
    destruct (reif_is b 1 c) eqn:R1.
    { apply (reif_is_val a) in R1; [|exact Bb]. apply prune_lin_ne_sound; [exact Hsl|].
      destruct Hsat as [[_ P]|[A _]]; [apply negb_true_iff in P; apply Z.eqb_neq; exact P | lia]. }
    destruct (reif_is b 0 c) eqn:R0.
    { apply (reif_is_val a) in R0; [|exact Bb]. apply prune_lin_eq_sound; [exact Hsl|].
      destruct Hsat as [[A _]|[_ P]]; [lia|]. apply negb_false_iff in P. apply Z.eqb_eq; exact P. }
    destruct (fixed_sum (fst c) (combine cs xs) 0) as [sm|] eqn:FS; [|apply sstep_ret].
    apply (fixed_sum_sum a _ _ HB) in FS. rewrite <- lin_sem_lsum in FS.
    destruct (Z.eqb_spec sm k) as [K|K]; cbn [negb]; apply set_bool_sound; try exact Hsb.
    + destruct Hsat as [[_ P]|[A _]]; [|exact A]. apply negb_true_iff, Z.eqb_neq in P. exfalso; lia.
    + destruct Hsat as [[A _]|[_ P]]; [exact A|]. apply negb_false_iff, Z.eqb_eq in P. exfalso; lia.
  - intros s ev a Hwf Hi Hf Hne. cbn [prune trig sat mk_lin_ne_reif] in *.
    destruct (reif_fixed cs xs b s Hf) as [Hfl Hfb].
    destruct (fixed_value a s b Hi Hfb) as [Vmin Vmax].
    apply reif_sat_encode. unfold prune_lin_ne_reif in Hne. cbv zeta in Hne.
    rewrite !(reif_is_fixed a b _ (s, ev) Vmin Vmax) in Hne.
    rewrite (fixed_sum_fixed a s _ Hi Hfl) in Hne. cbn [fst] in Hne. rewrite <- lin_sem_lsum in Hne.
    rewrite Z.add_0_l in Hne.
    destruct (Z.eqb_spec (a b) 1) as [B1|B1].
    { left. split; [exact B1|]. apply negb_true_iff, Z.eqb_neq.
      apply (prune_lin_ne_checking a cs xs k (s, ev)); assumption. }
    destruct (Z.eqb_spec (a b) 0) as [B0|B0].
    { right. split; [exact B0|]. apply negb_false_iff, Z.eqb_eq.
      apply (prune_lin_eq_checking a cs xs k (s, ev)); assumption. }
    exfalso. destruct (negb (lin_sem (combine cs xs) a =? k));
      apply (set_bool_fixed b _ (s, ev) Hfb) in Hne; cbn [fst] in Hne; lia.
  - apply fr_frame; cbn [prune trig sat mk_lin_ne_reif].
    + intros c1 c2 F. unfold prune_lin_ne_reif. cbv zeta.
      rewrite <- !(reif_is_agree _ b _ c1 c2 Hb F).
      rewrite <- (fixed_sum_agree (fst c1) (fst c2) (combine cs xs))
        by (intros cf x Hin; apply (proj1 F); eapply HL; exact Hin).
      destruct (reif_is b 1 c1); [apply prune_lin_ne_fr; assumption|].
      destruct (reif_is b 0 c1); [apply prune_lin_eq_fr; assumption|].
      destruct (fixed_sum (fst c1) (combine cs xs) 0) as [sm|]; [|exact F].
      destruct (negb (sm =? k)); apply set_bool_fr; assumption.
    + intros a1 a2 H. destruct (reif_sat_frame cs xs b a1 a2 H) as [-> ->]. reflexivity.
Qed.
