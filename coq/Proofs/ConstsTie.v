(* Literal constants that the model files use directly (because proofs compute with them) are tied
   to the values regenerated from /repo's source in Generated/Consts.v: if the source changes one of
   them, these lemmas stop checking and every property file that requires this module fails its
   proof gate. *)
Require Import ZArith.
Require Import Selen.Generated.Consts.
Open Scope Z_scope.

Lemma hall_limits_tie : hall_max_vars = 6 /\ hall_max_size = 4.        (* Model/Gac.v hall_sizes, bitset_alldiff *)
Proof. split; reflexivity. Qed.
Lemma bitset_width_tie : max_bitset_domain_size = 128.                  (* Model/Gac.v representation switch *)
Proof. reflexivity. Qed.
Lemma sparse_set_limit_tie : max_sparse_set_domain_size = 1000000.      (* validation bound on domain width *)
Proof. reflexivity. Qed.
