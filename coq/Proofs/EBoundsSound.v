(* Soundness of the auxiliary-variable bounds (Model/Lower.v ebounds): every value an expression takes on
   an assignment inside the store lies in the computed interval (used by ext1_facts in
   Proofs/LowerProofs.v, which re-exports this file). *)
Require Import Selen.Model.Prelude Selen.Model.Dom Selen.Model.Views Selen.Model.PropDefs.
Require Import Selen.Model.Api Selen.Model.Lower.
Require Import Selen.Proofs.SparseSetProofs.   (* zrange_In, as LowerProofs.v *)

Fixpoint escoped (n : nat) (e : expr) : Prop :=
  match e with
  | EVar v => (v < n)%nat
  | EVal _ => True
  | EAdd l r | ESub l r | EMul l r | EMod l r => escoped n l /\ escoped n r
  end.

Lemma list_min_spec : forall l d, list_min d l <= d /\ forall x, In x l -> list_min d l <= x.
Proof.
  induction l as [|y l IH]; intro d; simpl.
  - split; [lia|intros x []].
  - destruct (IH (Z.min d y)) as [H1 H2]. split; [lia|].
    intros x [<-|Hx]; [lia|apply H2; exact Hx].
Qed.
Lemma list_max_spec : forall l d, d <= list_max d l /\ forall x, In x l -> x <= list_max d l.
Proof.
  induction l as [|y l IH]; intro d; simpl.
  - split; [lia|intros x []].
  - destruct (IH (Z.max d y)) as [H1 H2]. split; [lia|].
    intros x [<-|Hx]; [lia|apply H2; exact Hx].
Qed.

Lemma dlo_dhi_bound : forall d x, In x d -> dlo d <= x <= dhi d.
Proof.
  intros [|y d] x Hx; [destruct Hx|]. unfold dlo, dhi.
  destruct (list_min_spec d y) as [A1 A2]. destruct (list_max_spec d y) as [B1 B2].
  destruct Hx as [<-|Hx]; [lia|]. split; [apply A2|apply B2]; exact Hx.
Qed.

Lemma lin_between : forall a b x k, a <= x <= b -> Z.min (a * k) (b * k) <= x * k <= Z.max (a * k) (b * k).
Proof. intros a b x k H. destruct (Z.le_gt_cases 0 k); split; nia. Qed.

Lemma mul_bounds_sound : forall ll lh rl rh x y, ll <= x <= lh -> rl <= y <= rh ->
  fst (mul_bounds ll lh rl rh) <= x * y <= snd (mul_bounds ll lh rl rh).
Proof.
  intros ll lh rl rh x y Hx Hy. unfold mul_bounds; cbn [fst snd list_min list_max].
  pose proof (lin_between ll lh x y Hx) as H1.
  pose proof (lin_between rl rh y ll Hy) as H2. pose proof (lin_between rl rh y lh Hy) as H3.
  rewrite (Z.mul_comm rl ll), (Z.mul_comm rh ll), (Z.mul_comm y ll) in H2.
  rewrite (Z.mul_comm rl lh), (Z.mul_comm rh lh), (Z.mul_comm y lh) in H3.
  lia.
Qed.

Lemma mod_bounds_sound : forall ll lh rl rh x y, ll <= x <= lh -> rl <= y <= rh -> y <> 0 ->
  fst (mod_bounds ll lh rl rh) <= Z.rem x y <= snd (mod_bounds ll lh rl rh).
Proof.
  intros ll lh rl rh x y Hx Hy Hy0. unfold mod_bounds; cbn [fst snd].
  set (m := Z.max (Z.max (Z.abs rl) (Z.abs rh) - 1) 0).
  assert (Hm : Z.abs y - 1 <= m) by (unfold m; lia).
  assert (Habs : Z.abs (Z.rem x y) < Z.abs y) by (apply Z.rem_bound_abs; exact Hy0).
  assert (Hle : Z.abs (Z.rem x y) <= Z.abs x) by (rewrite <- (Z.rem_abs x y Hy0); apply Z.rem_le; lia).
  assert (Hsgn : 0 <= x -> 0 <= Z.rem x y) by (intro; apply Z.rem_nonneg; assumption).
  assert (Hsgn' : x <= 0 -> Z.rem x y <= 0) by (intro; apply Z.rem_nonpos; assumption).
  split.
  - destruct (Z.leb_spec 0 ll); [apply Hsgn; lia|].
    destruct (Z.le_gt_cases 0 x); [specialize (Hsgn H0); lia|]. lia.
  - destruct (Z.leb_spec lh 0); [apply Hsgn'; lia|].
    destruct (Z.le_gt_cases x 0); [specialize (Hsgn' H0); lia|]. lia.
Qed.

Theorem ebounds_sound : forall (s : store) a e x, inst a s -> escoped (length s) e ->
  eval_expr e a = Some x -> fst (ebounds s e) <= x <= snd (ebounds s e).
Proof.
  intros s a e; induction e as [v|c|l IHl r IHr|l IHl r IHr|l IHl r IHr|l IHl r IHr]; intros x Hi Hs Hx;
  cbn [ebounds eval_expr] in *.
  - inversion Hx; subst x. cbn [fst snd]. apply dlo_dhi_bound. apply Hi; exact Hs.
  - inversion Hx; subst x. cbn [fst snd]. lia.
  - destruct Hs as [Hsl Hsr]. destruct (eval_expr l a) as [p|]; [|discriminate]. destruct (eval_expr r a) as [q|]; [|discriminate].
    cbn in Hx. inversion Hx; subst x. specialize (IHl p Hi Hsl eq_refl). specialize (IHr q Hi Hsr eq_refl).
    destruct (ebounds s l) as [ll lh]. destruct (ebounds s r) as [rl rh]. cbn [fst snd] in *. lia.
  - destruct Hs as [Hsl Hsr]. destruct (eval_expr l a) as [p|]; [|discriminate]. destruct (eval_expr r a) as [q|]; [|discriminate].
    cbn in Hx. inversion Hx; subst x. specialize (IHl p Hi Hsl eq_refl). specialize (IHr q Hi Hsr eq_refl).
    destruct (ebounds s l) as [ll lh]. destruct (ebounds s r) as [rl rh]. cbn [fst snd] in *. lia.
  - destruct Hs as [Hsl Hsr]. destruct (eval_expr l a) as [p|]; [|discriminate]. destruct (eval_expr r a) as [q|]; [|discriminate].
    cbn in Hx. inversion Hx; subst x. specialize (IHl p Hi Hsl eq_refl). specialize (IHr q Hi Hsr eq_refl).
    destruct (ebounds s l) as [ll lh]. destruct (ebounds s r) as [rl rh]. cbn [fst snd] in IHl, IHr.
    apply mul_bounds_sound; assumption.
  - destruct Hs as [Hsl Hsr]. destruct (eval_expr l a) as [p|]; [|discriminate]. destruct (eval_expr r a) as [q|]; [|discriminate].
    cbn in Hx. destruct (Z.eqb_spec q 0) as [|Hq]; [discriminate|]. inversion Hx; subst x.
    specialize (IHl p Hi Hsl eq_refl). specialize (IHr q Hi Hsr eq_refl).
    destruct (ebounds s l) as [ll lh]. destruct (ebounds s r) as [rl rh]. cbn [fst snd] in IHl, IHr.
    unfold trem. apply mod_bounds_sound; assumption.
Qed.
Print Assumptions ebounds_sound.

(* the auxiliary variable of e can take e's value, unless its range was too large to be
   materialised (Model/Lower.v aux_dom: the empty domain stands for it) *)
Corollary aux_dom_sound : forall (s : store) a e x, inst a s -> escoped (length s) e ->
  eval_expr e a = Some x -> aux_dom s e <> [] -> In x (aux_dom s e).
Proof.
  intros s a e x Hi Hs Hx Hne. unfold aux_dom in *.
  destruct (range_too_large (fst (ebounds s e)) (snd (ebounds s e))); [congruence|].
  unfold drange. apply zrange_In.
  pose proof (ebounds_sound s a e x Hi Hs Hx). lia.
Qed.
Print Assumptions aux_dom_sound.
