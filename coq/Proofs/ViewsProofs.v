(* Proofs for Properties/C13.v: views transform bounds exactly (integer views), and the
   assignment-level corollaries (soundness / contraction / frame of a single setter) that the
   propagator proofs are built from. *)
Require Import Selen.Model.Prelude Selen.Model.Dom Selen.Model.Views Selen.Model.PropDefs Selen.Model.Props.Basic.
Require Import Selen.Proofs.DomProofs.

(* ------------------------------------------------------------------------------------------ *)
(* div_euclid / rem_euclid for a positive divisor are floor division / modulo *)

Lemma ediv_pos : forall b k, 0 < k -> ediv b k = b / k.
Proof.
  intros b k Hk. unfold ediv.
  pose proof (Z.quot_rem' b k) as E.
  pose proof (Z.rem_bound_abs b k ltac:(lia)) as B.
  destruct (Z.ltb_spec (Z.rem b k) 0) as [H|H].
  - destruct (Z.ltb_spec 0 k) as [_|]; [|lia].
    apply (Z.div_unique b k (Z.quot b k - 1) (Z.rem b k + k)); lia.
  - apply (Z.div_unique b k (Z.quot b k) (Z.rem b k)); lia.
Qed.

Lemma erem_pos : forall b k, 0 < k -> erem b k = b mod k.
Proof.
  intros b k Hk. unfold erem.
  pose proof (Z.quot_rem' b k) as E.
  pose proof (Z.rem_bound_abs b k ltac:(lia)) as B.
  destruct (Z.ltb_spec (Z.rem b k) 0) as [H|H].
  - destruct (Z.ltb_spec k 0) as [|_]; [lia|].
    apply (Z.mod_unique b k (Z.quot b k - 1) (Z.rem b k + k)); lia.
  - apply (Z.mod_unique b k (Z.quot b k) (Z.rem b k)); lia.
Qed.

Lemma floor_le : forall b k y, 0 < k -> (y * k <= b <-> y <= b / k).
Proof.
  intros b k y Hk. pose proof (Z.div_mod b k ltac:(lia)). pose proof (Z.mod_pos_bound b k Hk).
  split; intros; nia.
Qed.

Lemma ceil_le : forall b k y, 0 < k -> (b <= y * k <-> b / k + (if b mod k =? 0 then 0 else 1) <= y).
Proof.
  intros b k y Hk. pose proof (Z.div_mod b k ltac:(lia)). pose proof (Z.mod_pos_bound b k Hk).
  destruct (Z.eqb_spec (b mod k) 0); split; intros; nia.
Qed.

Lemma ediv_floor_le : forall b k y, 0 < k -> (y * k <= b <-> y <= ediv b k).
Proof. intros. rewrite ediv_pos by assumption. apply floor_le; assumption. Qed.

Lemma ediv_ceil_le : forall b k y, 0 < k ->
  (b <= y * k <-> ediv b k + (if erem b k =? 0 then 0 else 1) <= y).
Proof. intros. rewrite ediv_pos, erem_pos by assumption. apply ceil_le; assumption. Qed.

Lemma leb_iff_eq : forall a b c d, (a <= b <-> c <= d) -> (a <=? b) = (c <=? d).
Proof. intros a b c d H. apply Bool.eq_true_iff_eq. rewrite !Z.leb_le. exact H. Qed.

(* ------------------------------------------------------------------------------------------ *)
(* direction of a view; monotonicity *)

Fixpoint vdir (w : view) : bool :=
  match w with
  | VVar _ | VConst _ => true
  | VOpp w' => negb (vdir w')
  | VPlus w' _ | VTimesPos w' _ | VNext w' | VPrev w' => vdir w'
  end.

Lemma vfun_mono : forall w, view_ok w -> forall x y, x <= y ->
  if vdir w then vfun w x <= vfun w y else vfun w y <= vfun w x.
Proof.
  induction w as [v|c|w IH|w IH c|w IH k|w IH|w IH]; intros Hok x y Hxy; cbn [vdir vfun view_ok] in *.
  - exact Hxy.
  - lia.
  - specialize (IH Hok x y Hxy). destruct (vdir w); cbn [negb]; lia.
  - specialize (IH Hok x y Hxy). destruct (vdir w); lia.
  - destruct Hok as [Hk Hok]. specialize (IH Hok x y Hxy). destruct (vdir w); nia.
  - specialize (IH Hok x y Hxy). destruct (vdir w); lia.
  - specialize (IH Hok x y Hxy). destruct (vdir w); lia.
Qed.

Lemma vfun_const : forall w, uvar w = None -> forall x y, vfun w x = vfun w y.
Proof.
  induction w as [v|c|w IH|w IH c|w IH k|w IH|w IH]; intros Hu x y; cbn [uvar vfun] in *;
    try discriminate; try reflexivity; rewrite (IH Hu x y); reflexivity.
Qed.

Lemma vbnd_const : forall w, uvar w = None -> forall mx s x, vbnd w mx s = vfun w x.
Proof.
  induction w as [v|c|w IH|w IH c|w IH k|w IH|w IH]; intros Hu mx s x; cbn [uvar vfun vbnd] in *;
    try discriminate; try reflexivity; rewrite (IH Hu _ s x); reflexivity.
Qed.

Lemma vsem_const : forall w, uvar w = None -> forall a x, vsem w a = vfun w x.
Proof.
  induction w as [v|c|w IH|w IH c|w IH k|w IH|w IH]; intros Hu a x; cbn [uvar vfun vsem] in *;
    try discriminate; try reflexivity; rewrite (IH Hu a x); reflexivity.
Qed.

Lemma vsem_vfun : forall w a x, uvar w = Some x -> vsem w a = vfun w (a x).
Proof.
  induction w as [v|c|w IH|w IH c|w IH k|w IH|w IH]; intros a x Hu; cbn [uvar vfun vsem] in *;
    try discriminate; try (rewrite (IH a x Hu); reflexivity).
  inversion Hu; reflexivity.
Qed.

(* the bound of a view is the image of one end of the domain, chosen by the direction *)
Lemma vbnd_vfun : forall w x s, uvar w = Some x -> forall mx,
  vbnd w mx s = vfun w (if Bool.eqb mx (vdir w) then dmax (sget s x) else dmin (sget s x)).
Proof.
  induction w as [v|c|w IH|w IH c|w IH k|w IH|w IH]; intros x s Hu mx; cbn [uvar vfun vbnd vdir] in *;
    try discriminate; try (rewrite (IH x s Hu mx); reflexivity).
  - inversion Hu; subst. destruct mx; reflexivity.
  - rewrite (IH x s Hu (negb mx)). destruct mx, (vdir w); reflexivity.
Qed.

Lemma view_bounds_exact : forall w s x, view_ok w -> uvar w = Some x -> wf_dom (sget s x) ->
  (forall v, In v (sget s x) -> vmin w s <= vfun w v <= vmax w s) /\
  (exists v, In v (sget s x) /\ vfun w v = vmin w s) /\
  (exists v, In v (sget s x) /\ vfun w v = vmax w s) /\
  vmin w s = Z.min (vfun w (dmin (sget s x))) (vfun w (dmax (sget s x))) /\
  vmax w s = Z.max (vfun w (dmin (sget s x))) (vfun w (dmax (sget s x))).
Proof.
  intros w s x Hok Hu Hwf. unfold vmin, vmax. rewrite !(vbnd_vfun w x s Hu).
  set (d := sget s x) in *. destruct Hwf as [Hne Hs].
  pose proof (dmin_In d Hne) as Hlo. pose proof (dmax_In d Hne) as Hhi.
  pose proof (dmin_le_dmax d (conj Hne Hs)) as Hlh.
  pose proof (vfun_mono w Hok _ _ Hlh) as Hm.
  assert (Hall : forall v, In v d ->
            if vdir w then vfun w (dmin d) <= vfun w v <= vfun w (dmax d)
            else vfun w (dmax d) <= vfun w v <= vfun w (dmin d)).
  { intros v Hv. pose proof (dmin_least d v Hs Hv) as H1. pose proof (dmax_greatest d v Hs Hv) as H2.
    pose proof (vfun_mono w Hok _ _ H1). pose proof (vfun_mono w Hok _ _ H2).
    destruct (vdir w); lia. }
  destruct (vdir w); cbn [Bool.eqb].
  - split; [exact Hall|]. split; [exists (dmin d); split; [exact Hlo|reflexivity]|].
    split; [exists (dmax d); split; [exact Hhi|reflexivity]|]. lia.
  - split; [exact Hall|]. split; [exists (dmax d); split; [exact Hhi|reflexivity]|].
    split; [exists (dmin d); split; [exact Hlo|reflexivity]|]. lia.
Qed.

Lemma view_bounds_const : forall w s, uvar w = None -> vmin w s = vfun w 0 /\ vmax w s = vfun w 0.
Proof. intros w s Hu. unfold vmin, vmax. rewrite !(vbnd_const w Hu _ s 0). split; reflexivity. Qed.

(* ------------------------------------------------------------------------------------------ *)
(* tightening through a view *)

Definition keeps (w : view) (mx : bool) (b : Z) (v : Z) : bool :=
  if mx then vfun w v <=? b else b <=? vfun w v.

Lemma keeps_opp : forall w mx b v, keeps (VOpp w) mx b v = keeps w (negb mx) (- b) v.
Proof. intros. unfold keeps. cbn [vfun]. destruct mx; cbn [negb]; apply leb_iff_eq; lia. Qed.
Lemma keeps_plus : forall w k mx b v, keeps (VPlus w k) mx b v = keeps w mx (b - k) v.
Proof. intros. unfold keeps. cbn [vfun]. destruct mx; apply leb_iff_eq; lia. Qed.
Lemma keeps_next : forall w mx b v, keeps (VNext w) mx b v = keeps w mx (b - 1) v.
Proof. intros. unfold keeps. cbn [vfun]. destruct mx; apply leb_iff_eq; lia. Qed.
Lemma keeps_prev : forall w mx b v, keeps (VPrev w) mx b v = keeps w mx (b + 1) v.
Proof. intros. unfold keeps. cbn [vfun]. destruct mx; apply leb_iff_eq; lia. Qed.
Lemma keeps_times_max : forall w k b v, 0 < k ->
  keeps (VTimesPos w k) true b v = keeps w true (ediv b k) v.
Proof. intros. unfold keeps. cbn [vfun]. apply leb_iff_eq. apply ediv_floor_le; assumption. Qed.
Lemma keeps_times_min : forall w k b v, 0 < k ->
  keeps (VTimesPos w k) false b v = keeps w false (ediv b k + (if erem b k =? 0 then 0 else 1)) v.
Proof. intros. unfold keeps. cbn [vfun]. apply leb_iff_eq. apply ediv_ceil_le; assumption. Qed.

(* does the tightening act as an upper bound on the underlying variable? *)
Definition kdir (w : view) (mx : bool) : bool := Bool.eqb mx (vdir w).
Definition kvar (up : bool) (b' v : Z) : bool := if up then v <=? b' else b' <=? v.

Lemma kdir_opp : forall w mx, kdir (VOpp w) mx = kdir w (negb mx).
Proof. intros. unfold kdir. cbn [vdir]. destruct mx, (vdir w); reflexivity. Qed.

(* a view setter IS a variable setter with a transformed bound *)
Lemma vset_reduce : forall w x, view_ok w -> uvar w = Some x -> forall mx b, exists b',
  (forall c, vset w mx b c = if kdir w mx then cset_max x b' c else cset_min x b' c) /\
  (forall v, keeps w mx b v = kvar (kdir w mx) b' v).
Proof.
  induction w as [v|c0|w IH|w IH c0|w IH k|w IH|w IH]; intros x Hok Hu mx b;
    cbn [uvar view_ok] in *; try discriminate.
  - inversion Hu; subst. exists b. split; intros; destruct mx; reflexivity.
  - destruct (IH x Hok Hu (negb mx) (- b)) as (b' & H1 & H2). exists b'. split.
    + intros c. cbn [vset]. rewrite H1, kdir_opp. reflexivity.
    + intros v. rewrite keeps_opp, H2, kdir_opp. reflexivity.
  - destruct (IH x Hok Hu mx (b - c0)) as (b' & H1 & H2). exists b'. split.
    + intros c. cbn [vset]. rewrite H1. reflexivity.
    + intros v. rewrite keeps_plus, H2. reflexivity.
  - destruct Hok as [Hk Hok]. destruct mx.
    + destruct (IH x Hok Hu true (ediv b k)) as (b' & H1 & H2). exists b'. split.
      * intros c. cbn [vset]. rewrite H1. reflexivity.
      * intros v. rewrite keeps_times_max by exact Hk. rewrite H2. reflexivity.
    + destruct (IH x Hok Hu false (ediv b k + (if erem b k =? 0 then 0 else 1))) as (b' & H1 & H2).
      exists b'. split.
      * intros c. cbn [vset]. rewrite H1. reflexivity.
      * intros v. rewrite keeps_times_min by exact Hk. rewrite H2. reflexivity.
  - destruct (IH x Hok Hu mx (b - 1)) as (b' & H1 & H2). exists b'. split.
    + intros c. cbn [vset]. rewrite H1. reflexivity.
    + intros v. rewrite keeps_next, H2. reflexivity.
  - destruct (IH x Hok Hu mx (b + 1)) as (b' & H1 & H2). exists b'. split.
    + intros c. cbn [vset]. rewrite H1. reflexivity.
    + intros v. rewrite keeps_prev, H2. reflexivity.
Qed.

(* complete case analysis of a view setter on a well-formed domain *)
Lemma vset_spec : forall w x mx b s ev, view_ok w -> uvar w = Some x -> wf_dom (sget s x) ->
  let d := sget s x in
  let d' := filter (keeps w mx b) d in
  (d' = [] /\ vset w mx b (s, ev) = None) \/
  (d' = d /\ vset w mx b (s, ev) = Some (s, ev)) \/
  (d' <> [] /\ d' <> d /\ vset w mx b (s, ev) = Some (supd s x d', ev ++ [x])).
Proof.
  intros w x mx b s ev Hok Hu Hwf d d'.
  destruct (vset_reduce w x Hok Hu mx b) as (b' & H1 & H2).
  assert (Ed : d' = filter (kvar (kdir w mx) b') d).
  { unfold d'. apply filter_ext_In. intros v _. apply H2. }
  rewrite Ed, H1. clear Ed d'. destruct (kdir w mx); cbn [kvar].
  - change (filter (fun v => v <=? b') d) with (dabove b' d).
    destruct (cset_max_spec x b' s ev Hwf) as [[Hb E]|[[Hb E]|(Hb & Hn & Hd & E)]]; fold d in Hb, E.
    + left. split; [apply dabove_nil_iff; assumption | exact E].
    + right; left. split; [apply dabove_id_iff; assumption | exact E].
    + right; right. fold d in Hn, Hd. split; [exact Hn|]. split; [exact Hd|exact E].
  - change (filter (fun v => b' <=? v) d) with (dbelow b' d).
    destruct (cset_min_spec x b' s ev Hwf) as [[Hb E]|[[Hb E]|(Hb & Hn & Hd & E)]]; fold d in Hb, E.
    + left. split; [apply dbelow_nil_iff; assumption | exact E].
    + right; left. split; [apply dbelow_id_iff; assumption | exact E].
    + right; right. fold d in Hn, Hd. split; [exact Hn|]. split; [exact Hd|exact E].
Qed.

Lemma view_tighten_exact : forall w mx b s ev s' ev' x, view_ok w -> uvar w = Some x -> wf_dom (sget s x) ->
  vset w mx b (s, ev) = Some (s', ev') ->
  sget s' x = filter (keeps w mx b) (sget s x) /\ (forall u, u <> x -> sget s' u = sget s u) /\ length s' = length s.
Proof.
  intros w mx b s ev s' ev' x Hok Hu Hwf H. pose proof (wf_dom_lt s x Hwf) as Hx.
  destruct (vset_spec w x mx b s ev Hok Hu Hwf) as [[_ E]|[[Hd E]|(_ & _ & E)]];
    rewrite E in H; inversion H; subst; clear H.
  - rewrite Hd. split; [reflexivity|]. split; reflexivity.
  - split; [apply sget_supd_same; exact Hx|]. split; [|apply supd_length].
    intros u Hne. apply sget_supd_other; exact Hne.
Qed.

Lemma view_tighten_fail_iff : forall w mx b s ev x, view_ok w -> uvar w = Some x -> wf_dom (sget s x) ->
  (vset w mx b (s, ev) = None <-> filter (keeps w mx b) (sget s x) = []).
Proof.
  intros w mx b s ev x Hok Hu Hwf.
  destruct (vset_spec w x mx b s ev Hok Hu Hwf) as [[Hd E]|[[Hd E]|(Hn & _ & E)]]; rewrite E.
  - tauto.
  - rewrite Hd. destruct Hwf as [Hne _]. split; [discriminate|intros; contradiction].
  - split; [discriminate|intros; contradiction].
Qed.

Lemma view_tighten_event : forall w mx b s ev s' ev' x, view_ok w -> uvar w = Some x ->
  wf_dom (sget s x) -> (x < length s)%nat -> vset w mx b (s, ev) = Some (s', ev') ->
  (ev' = ev ++ [x] /\ sget s' x <> sget s x) \/ (ev' = ev /\ s' = s).
Proof.
  intros w mx b s ev s' ev' x Hok Hu Hwf Hx H.
  destruct (vset_spec w x mx b s ev Hok Hu Hwf) as [[_ E]|[[Hd E]|(_ & Hd & E)]];
    rewrite E in H; inversion H; subst; clear H.
  - right; split; reflexivity.
  - left. split; [reflexivity|]. rewrite sget_supd_same by exact Hx. exact Hd.
Qed.

(* constant views: the setter is a test *)
Lemma vset_const : forall w, view_ok w -> uvar w = None -> forall mx b c v,
  vset w mx b c = if keeps w mx b v then Some c else None.
Proof.
  induction w as [x|c0|w IH|w IH c0|w IH k|w IH|w IH]; intros Hok Hu mx b c v;
    cbn [uvar view_ok] in *; try discriminate.
  - unfold keeps. cbn [vset vfun]. destruct mx; reflexivity.
  - cbn [vset]. rewrite keeps_opp. apply IH; assumption.
  - cbn [vset]. rewrite keeps_plus. apply IH; assumption.
  - destruct Hok as [Hk Hok]. cbn [vset]. destruct mx.
    + rewrite keeps_times_max by exact Hk. apply IH; assumption.
    + rewrite keeps_times_min by exact Hk. apply IH; assumption.
  - cbn [vset]. rewrite keeps_next. apply IH; assumption.
  - cbn [vset]. rewrite keeps_prev. apply IH; assumption.
Qed.

(* NOTE: Properties/C13.v states view_tighten_const WITHOUT view_ok; that statement is false
   (see view_tighten_const_needs_ok below).  This is the statement with the missing hypothesis. *)
Lemma view_tighten_const : forall w mx b c, view_ok w -> uvar w = None ->
  (vset w mx b c = Some c /\ keeps w mx b 0 = true) \/ (vset w mx b c = None /\ keeps w mx b 0 = false).
Proof.
  intros w mx b c Hok Hu. rewrite (vset_const w Hok Hu mx b c 0).
  destruct (keeps w mx b 0); [left|right]; split; reflexivity.
Qed.

Lemma view_tighten_const_needs_ok :
  ~ (forall w mx b c, uvar w = None ->
       (vset w mx b c = Some c /\ keeps w mx b 0 = true) \/ (vset w mx b c = None /\ keeps w mx b 0 = false)).
Proof.
  intros H. specialize (H (VTimesPos (VConst 5) 0) true 0 ([], []) eq_refl).
  vm_compute in H. destruct H as [[H _]|[_ H]]; discriminate.
Qed.

Lemma vtimes_sem : forall w k, view_ok w -> view_ok (vtimes w k) /\ forall v, vfun (vtimes w k) v = vfun w v * k.
Proof.
  intros w k Hok. unfold vtimes.
  destruct (Z.ltb_spec k 0) as [H|H].
  - cbn [view_ok vfun]. split; [split; [lia|exact Hok]|]. intros v. lia.
  - destruct (Z.eqb_spec k 0) as [E|E].
    + subst k. cbn [view_ok vfun]. split; [exact I|]. intros v. lia.
    + cbn [view_ok vfun]. split; [split; [lia|exact Hok]|]. intros v. reflexivity.
Qed.

Lemma vtimes_neg_ok : forall w k, k < 0 -> view_ok w -> view_ok (vtimes_neg w k).
Proof. intros w k Hk Hok. unfold vtimes_neg. cbn [view_ok]. split; [lia|exact Hok]. Qed.

Lemma leb_ltb_succ : forall x y, (x + 1 <=? y) = (x <? y).
Proof. intros. apply Bool.eq_true_iff_eq. rewrite Z.leb_le, Z.ltb_lt. lia. Qed.

Lemma derived_postings_sem : forall x y s a,
  sat (mk_sub x y s) a = (vsem x a - vsem y a =? a s) /\
  sat (mk_lt x y) a = (vsem x a <? vsem y a) /\
  sat (mk_gt x y) a = (vsem y a <? vsem x a) /\
  sat (mk_geq x y) a = (vsem y a <=? vsem x a).
Proof.
  intros x y s a. unfold mk_sub, mk_lt, mk_gt, mk_geq, mk_add, mk_leq, vtimes_neg. cbn [sat vsem].
  split; [|split; [apply leb_ltb_succ | split; [apply leb_ltb_succ | reflexivity]]].
  f_equal. lia.
Qed.
