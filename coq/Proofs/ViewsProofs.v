(* Proofs for Properties/C13.v: views transform bounds exactly (integer views), and the
   assignment-level corollaries (soundness / contraction / frame of a single setter) that the
   propagator proofs are built from. *)
Require Import Selen.Model.Prelude Selen.Model.Dom Selen.Model.Views Selen.Model.PropDefs Selen.Model.Props.Basic.
Require Import Selen.Proofs.DomProofs.

(* ------------------------------------------------------------------------------------------ *)
(* div_euclid / rem_euclid for a positive divisor are floor division / modulo *)

Lemma ediv_pos : forall b k, 0 < k -> ediv b k = b / k.
Proof.
  intros b k Hk. unfold ediv.
  pose proof (Z.quot_rem' b k) as E.
  pose proof (Z.rem_bound_abs b k ltac:(lia)) as B.
  destruct (Z.ltb_spec (Z.rem b k) 0) as [H|H].
  - destruct (Z.ltb_spec 0 k) as [_|]; [|lia].
    apply (Z.div_unique b k (Z.quot b k - 1) (Z.rem b k + k)); lia.
  - apply (Z.div_unique b k (Z.quot b k) (Z.rem b k)); lia.
Qed.

Lemma erem_pos : forall b k, 0 < k -> erem b k = b mod k.
Proof.
  intros b k Hk. unfold erem.
  pose proof (Z.quot_rem' b k) as E.
  pose proof (Z.rem_bound_abs b k ltac:(lia)) as B.
  destruct (Z.ltb_spec (Z.rem b k) 0) as [H|H].
  - destruct (Z.ltb_spec k 0) as [|_]; [lia|].
    apply (Z.mod_unique b k (Z.quot b k - 1) (Z.rem b k + k)); lia.
  - apply (Z.mod_unique b k (Z.quot b k) (Z.rem b k)); lia.
Qed.

Lemma floor_le : forall b k y, 0 < k -> (y * k <= b <-> y <= b / k).
Proof.
  intros b k y Hk. pose proof (Z.div_mod b k ltac:(lia)). pose proof (Z.mod_pos_bound b k Hk).
  split; intros; nia.
Qed.

Lemma ceil_le : forall b k y, 0 < k -> (b <= y * k <-> b / k + (if b mod k =? 0 then 0 else 1) <= y).
Proof.
  intros b k y Hk. pose proof (Z.div_mod b k ltac:(lia)). pose proof (Z.mod_pos_bound b k Hk).
  destruct (Z.eqb_spec (b mod k) 0); split; intros; nia.
Qed.

Lemma ediv_floor_le : forall b k y, 0 < k -> (y * k <= b <-> y <= ediv b k).
Proof. intros. rewrite ediv_pos by assumption. apply floor_le; assumption. Qed.

Lemma ediv_ceil_le : forall b k y, 0 < k ->
  (b <= y * k <-> ediv b k + (if erem b k =? 0 then 0 else 1) <= y).
Proof. intros. rewrite ediv_pos, erem_pos by assumption. apply ceil_le; assumption. Qed.

Lemma leb_iff_eq : forall a b c d, (a <= b <-> c <= d) -> (a <=? b) = (c <=? d).
Proof. intros a b c d H. apply Bool.eq_true_iff_eq. rewrite !Z.leb_le. exact H. Qed.

(* ------------------------------------------------------------------------------------------ *)
(* direction of a view; monotonicity *)

Fixpoint vdir (w : view) : bool :=
  match w with
  | VVar _ | VConst _ => true
  | VOpp w' => negb (vdir w')
  | VPlus w' _ | VTimesPos w' _ | VNext w' | VPrev w' => vdir w'
  end.

Lemma vfun_mono : forall w, view_ok w -> forall x y, x <= y ->
  if vdir w then vfun w x <= vfun w y else vfun w y <= vfun w x.
Proof.
  induction w as [v|c|w IH|w IH c|w IH k|w IH|w IH]; intros Hok x y Hxy; cbn [vdir vfun view_ok] in *.
  - exact Hxy.
  - lia.
  - specialize (IH Hok x y Hxy). destruct (vdir w); cbn [negb]; lia.
  - specialize (IH Hok x y Hxy). destruct (vdir w); lia.
  - destruct Hok as [Hk Hok]. specialize (IH Hok x y Hxy). destruct (vdir w); nia.
  - specialize (IH Hok x y Hxy). destruct (vdir w); lia.
  - specialize (IH Hok x y Hxy). destruct (vdir w); lia.
Qed.

Lemma vfun_const : forall w, uvar w = None -> forall x y, vfun w x = vfun w y.
Proof.
  induction w as [v|c|w IH|w IH c|w IH k|w IH|w IH]; intros Hu x y; cbn [uvar vfun] in *;
    try discriminate; try reflexivity; rewrite (IH Hu x y); reflexivity.
Qed.

Lemma vbnd_const : forall w, uvar w = None -> forall mx s x, vbnd w mx s = vfun w x.
Proof.
  induction w as [v|c|w IH|w IH c|w IH k|w IH|w IH]; intros Hu mx s x; cbn [uvar vfun vbnd] in *;
    try discriminate; try reflexivity; rewrite (IH Hu _ s x); reflexivity.
Qed.

Lemma vsem_const : forall w, uvar w = None -> forall a x, vsem w a = vfun w x.
Proof.
  induction w as [v|c|w IH|w IH c|w IH k|w IH|w IH]; intros Hu a x; cbn [uvar vfun vsem] in *;
    try discriminate; try reflexivity; rewrite (IH Hu a x); reflexivity.
Qed.

Lemma vsem_vfun : forall w a x, uvar w = Some x -> vsem w a = vfun w (a x).
Proof.
  induction w as [v|c|w IH|w IH c|w IH k|w IH|w IH]; intros a x Hu; cbn [uvar vfun vsem] in *;
    try discriminate; try (rewrite (IH a x Hu); reflexivity).
  inversion Hu; reflexivity.
Qed.

(* the bound of a view is the image of one end of the domain, chosen by the direction *)
Lemma vbnd_vfun : forall w x s, uvar w = Some x -> forall mx,
  vbnd w mx s = vfun w (if Bool.eqb mx (vdir w) then dmax (sget s x) else dmin (sget s x)).
Proof.
  induction w as [v|c|w IH|w IH c|w IH k|w IH|w IH]; intros x s Hu mx; cbn [uvar vfun vbnd vdir] in *;
    try discriminate; try (rewrite (IH x s Hu mx); reflexivity).
  - inversion Hu; subst. destruct mx; reflexivity.
  - rewrite (IH x s Hu (negb mx)). destruct mx, (vdir w); reflexivity.
Qed.

Lemma view_bounds_exact : forall w s x, view_ok w -> uvar w = Some x -> wf_dom (sget s x) ->
  (forall v, In v (sget s x) -> vmin w s <= vfun w v <= vmax w s) /\
  (exists v, In v (sget s x) /\ vfun w v = vmin w s) /\
  (exists v, In v (sget s x) /\ vfun w v = vmax w s) /\
  vmin w s = Z.min (vfun w (dmin (sget s x))) (vfun w (dmax (sget s x))) /\
  vmax w s = Z.max (vfun w (dmin (sget s x))) (vfun w (dmax (sget s x))).
Proof.
  intros w s x Hok Hu Hwf. unfold vmin, vmax. rewrite !(vbnd_vfun w x s Hu).
  set (d := sget s x) in *. destruct Hwf as [Hne Hs].
  pose proof (dmin_In d Hne) as Hlo. pose proof (dmax_In d Hne) as Hhi.
  pose proof (dmin_le_dmax d (conj Hne Hs)) as Hlh.
  pose proof (vfun_mono w Hok _ _ Hlh) as Hm.
  assert (Hall : forall v, In v d ->
            if vdir w then vfun w (dmin d) <= vfun w v <= vfun w (dmax d)
            else vfun w (dmax d) <= vfun w v <= vfun w (dmin d)).
  { intros v Hv. pose proof (dmin_least d v Hs Hv) as H1. pose proof (dmax_greatest d v Hs Hv) as H2.
    pose proof (vfun_mono w Hok _ _ H1). pose proof (vfun_mono w Hok _ _ H2).
    destruct (vdir w); lia. }
  destruct (vdir w); cbn [Bool.eqb].
  - split; [exact Hall|]. split; [exists (dmin d); split; [exact Hlo|reflexivity]|].
    split; [exists (dmax d); split; [exact Hhi|reflexivity]|]. lia.
  - split; [exact Hall|]. split; [exists (dmax d); split; [exact Hhi|reflexivity]|].
    split; [exists (dmin d); split; [exact Hlo|reflexivity]|]. lia.
Qed.

Lemma view_bounds_const : forall w s, uvar w = None -> vmin w s = vfun w 0 /\ vmax w s = vfun w 0.
Proof. intros w s Hu. unfold vmin, vmax. rewrite !(vbnd_const w Hu _ s 0). split; reflexivity. Qed.

(* ------------------------------------------------------------------------------------------ *)
(* tightening through a view *)

Definition keeps (w : view) (mx : bool) (b : Z) (v : Z) : bool :=
  if mx then vfun w v <=? b else b <=? vfun w v.

Lemma keeps_opp : forall w mx b v, keeps (VOpp w) mx b v = keeps w (negb mx) (- b) v.
Proof. intros. unfold keeps. cbn [vfun]. destruct mx; cbn [negb]; apply leb_iff_eq; lia. Qed.
Lemma keeps_plus : forall w k mx b v, keeps (VPlus w k) mx b v = keeps w mx (b - k) v.
Proof. intros. unfold keeps. cbn [vfun]. destruct mx; apply leb_iff_eq; lia. Qed.
Lemma keeps_next : forall w mx b v, keeps (VNext w) mx b v = keeps w mx (b - 1) v.
Proof. intros. unfold keeps. cbn [vfun]. destruct mx; apply leb_iff_eq; lia. Qed.
Lemma keeps_prev : forall w mx b v, keeps (VPrev w) mx b v = keeps w mx (b + 1) v.
Proof. intros. unfold keeps. cbn [vfun]. destruct mx; apply leb_iff_eq; lia. Qed.
Lemma keeps_times_max : forall w k b v, 0 < k ->
  keeps (VTimesPos w k) true b v = keeps w true (ediv b k) v.
Proof. intros. unfold keeps. cbn [vfun]. apply leb_iff_eq. apply ediv_floor_le; assumption. Qed.
Lemma keeps_times_min : forall w k b v, 0 < k ->
  keeps (VTimesPos w k) false b v = keeps w false (ediv b k + (if erem b k =? 0 then 0 else 1)) v.
Proof. intros. unfold keeps. cbn [vfun]. apply leb_iff_eq. apply ediv_ceil_le; assumption. Qed.

(* does the tightening act as an upper bound on the underlying variable? *)
Definition kdir (w : view) (mx : bool) : bool := Bool.eqb mx (vdir w).
Definition kvar (up : bool) (b' v : Z) : bool := if up then v <=? b' else b' <=? v.

Lemma kdir_opp : forall w mx, kdir (VOpp w) mx = kdir w (negb mx).
Proof. intros. unfold kdir. cbn [vdir]. destruct mx, (vdir w); reflexivity. Qed.

(* a view setter IS a variable setter with a transformed bound *)
Lemma vset_reduce : forall w x, view_ok w -> uvar w = Some x -> forall mx b, exists b',
  (forall c, vset w mx b c = if kdir w mx then cset_max x b' c else cset_min x b' c) /\
  (forall v, keeps w mx b v = kvar (kdir w mx) b' v).
Proof.
  induction w as [v|c0|w IH|w IH c0|w IH k|w IH|w IH]; intros x Hok Hu mx b;
    cbn [uvar view_ok] in *; try discriminate.
  - inversion Hu; subst. exists b. split; intros; destruct mx; reflexivity.
  - destruct (IH x Hok Hu (negb mx) (- b)) as (b' & H1 & H2). exists b'. split.
    + intros c. cbn [vset]. rewrite H1, kdir_opp. reflexivity.
    + intros v. rewrite keeps_opp, H2, kdir_opp. reflexivity.
  - destruct (IH x Hok Hu mx (b - c0)) as (b' & H1 & H2). exists b'. split.
    + intros c. cbn [vset]. rewrite H1. reflexivity.
    + intros v. rewrite keeps_plus, H2. reflexivity.
  - destruct Hok as [Hk Hok]. destruct mx.
    + destruct (IH x Hok Hu true (ediv b k)) as (b' & H1 & H2). exists b'. split.
      * intros c. cbn [vset]. rewrite H1. reflexivity.
      * intros v. rewrite keeps_times_max by exact Hk. rewrite H2. reflexivity.
    + destruct (IH x Hok Hu false (ediv b k + (if erem b k =? 0 then 0 else 1))) as (b' & H1 & H2).
      exists b'. split.
      * intros c. cbn [vset]. rewrite H1. reflexivity.
      * intros v. rewrite keeps_times_min by exact Hk. rewrite H2. reflexivity.
  - destruct (IH x Hok Hu mx (b - 1)) as (b' & H1 & H2). exists b'. split.
    + intros c. cbn [vset]. rewrite H1. reflexivity.
    + intros v. rewrite keeps_next, H2. reflexivity.
  - destruct (IH x Hok Hu mx (b + 1)) as (b' & H1 & H2). exists b'. split.
    + intros c. cbn [vset]. rewrite H1. reflexivity.
    + intros v. rewrite keeps_prev, H2. reflexivity.
Qed.

(* complete case analysis of a view setter on a well-formed domain *)
Lemma vset_spec : forall w x mx b s ev, view_ok w -> uvar w = Some x -> wf_dom (sget s x) ->
  let d := sget s x in
  let d' := filter (keeps w mx b) d in
  (d' = [] /\ vset w mx b (s, ev) = None) \/
  (d' = d /\ vset w mx b (s, ev) = Some (s, ev)) \/
  (d' <> [] /\ d' <> d /\ vset w mx b (s, ev) = Some (supd s x d', ev ++ [x])).
Proof.
  intros w x mx b s ev Hok Hu Hwf d d'.
  destruct (vset_reduce w x Hok Hu mx b) as (b' & H1 & H2).
  assert (Ed : d' = filter (kvar (kdir w mx) b') d).
  { unfold d'. apply filter_ext_In. intros v _. apply H2. }
  rewrite Ed, H1. clear Ed d'. destruct (kdir w mx); cbn [kvar].
  - change (filter (fun v => v <=? b') d) with (dabove b' d).
    destruct (cset_max_spec x b' s ev Hwf) as [[Hb E]|[[Hb E]|(Hb & Hn & Hd & E)]]; fold d in Hb, E.
    + left. split; [apply dabove_nil_iff; assumption | exact E].
    + right; left. split; [apply dabove_id_iff; assumption | exact E].
    + right; right. fold d in Hn, Hd. split; [exact Hn|]. split; [exact Hd|exact E].
  - change (filter (fun v => b' <=? v) d) with (dbelow b' d).
    destruct (cset_min_spec x b' s ev Hwf) as [[Hb E]|[[Hb E]|(Hb & Hn & Hd & E)]]; fold d in Hb, E.
    + left. split; [apply dbelow_nil_iff; assumption | exact E].
    + right; left. split; [apply dbelow_id_iff; assumption | exact E].
    + right; right. fold d in Hn, Hd. split; [exact Hn|]. split; [exact Hd|exact E].
Qed.

Lemma view_tighten_exact : forall w mx b s ev s' ev' x, view_ok w -> uvar w = Some x -> wf_dom (sget s x) ->
  vset w mx b (s, ev) = Some (s', ev') ->
  sget s' x = filter (keeps w mx b) (sget s x) /\ (forall u, u <> x -> sget s' u = sget s u) /\ length s' = length s.
Proof.
  intros w mx b s ev s' ev' x Hok Hu Hwf H. pose proof (wf_dom_lt s x Hwf) as Hx.
  destruct (vset_spec w x mx b s ev Hok Hu Hwf) as [[_ E]|[[Hd E]|(_ & _ & E)]];
    rewrite E in H; inversion H; subst; clear H.
  - rewrite Hd. split; [reflexivity|]. split; reflexivity.
  - split; [apply sget_supd_same; exact Hx|]. split; [|apply supd_length].
    intros u Hne. apply sget_supd_other; exact Hne.
Qed.

Lemma view_tighten_fail_iff : forall w mx b s ev x, view_ok w -> uvar w = Some x -> wf_dom (sget s x) ->
  (vset w mx b (s, ev) = None <-> filter (keeps w mx b) (sget s x) = []).
Proof.
  intros w mx b s ev x Hok Hu Hwf.
  destruct (vset_spec w x mx b s ev Hok Hu Hwf) as [[Hd E]|[[Hd E]|(Hn & _ & E)]]; rewrite E.
  - tauto.
  - rewrite Hd. destruct Hwf as [Hne _]. split; [discriminate|intros; contradiction].
  - split; [discriminate|intros; contradiction].
Qed.

Lemma view_tighten_event : forall w mx b s ev s' ev' x, view_ok w -> uvar w = Some x ->
  wf_dom (sget s x) -> (x < length s)%nat -> vset w mx b (s, ev) = Some (s', ev') ->
  (ev' = ev ++ [x] /\ sget s' x <> sget s x) \/ (ev' = ev /\ s' = s).
Proof.
  intros w mx b s ev s' ev' x Hok Hu Hwf Hx H.
  destruct (vset_spec w x mx b s ev Hok Hu Hwf) as [[_ E]|[[Hd E]|(_ & Hd & E)]];
    rewrite E in H; inversion H; subst; clear H.
  - right; split; reflexivity.
  - left. split; [reflexivity|]. rewrite sget_supd_same by exact Hx. exact Hd.
Qed.

(* constant views: the setter is a test *)
Lemma vset_const : forall w, view_ok w -> uvar w = None -> forall mx b c v,
  vset w mx b c = if keeps w mx b v then Some c else None.
Proof.
  induction w as [x|c0|w IH|w IH c0|w IH k|w IH|w IH]; intros Hok Hu mx b c v;
    cbn [uvar view_ok] in *; try discriminate.
  - unfold keeps. cbn [vset vfun]. destruct mx; reflexivity.
  - cbn [vset]. rewrite keeps_opp. apply IH; assumption.
  - cbn [vset]. rewrite keeps_plus. apply IH; assumption.
  - destruct Hok as [Hk Hok]. cbn [vset]. destruct mx.
    + rewrite keeps_times_max by exact Hk. apply IH; assumption.
    + rewrite keeps_times_min by exact Hk. apply IH; assumption.
  - cbn [vset]. rewrite keeps_next. apply IH; assumption.
  - cbn [vset]. rewrite keeps_prev. apply IH; assumption.
Qed.

(* NOTE: Properties/C13.v states view_tighten_const WITHOUT view_ok; that statement is false
   (see view_tighten_const_needs_ok below).  This is the statement with the missing hypothesis. *)
Lemma view_tighten_const : forall w mx b c, view_ok w -> uvar w = None ->
  (vset w mx b c = Some c /\ keeps w mx b 0 = true) \/ (vset w mx b c = None /\ keeps w mx b 0 = false).
Proof.
  intros w mx b c Hok Hu. rewrite (vset_const w Hok Hu mx b c 0).
  destruct (keeps w mx b 0); [left|right]; split; reflexivity.
Qed.

Lemma view_tighten_const_needs_ok :
  ~ (forall w mx b c, uvar w = None ->
       (vset w mx b c = Some c /\ keeps w mx b 0 = true) \/ (vset w mx b c = None /\ keeps w mx b 0 = false)).
Proof.
  intros H. specialize (H (VTimesPos (VConst 5) 0) true 0 ([], []) eq_refl).
  vm_compute in H. destruct H as [[H _]|[_ H]]; discriminate.
Qed.

Lemma vtimes_sem : forall w k, view_ok w -> view_ok (vtimes w k) /\ forall v, vfun (vtimes w k) v = vfun w v * k.
Proof.
  intros w k Hok. unfold vtimes.
  destruct (Z.ltb_spec k 0) as [H|H].
  - cbn [view_ok vfun]. split; [split; [lia|exact Hok]|]. intros v. lia.
  - destruct (Z.eqb_spec k 0) as [E|E].
    + subst k. cbn [view_ok vfun]. split; [exact I|]. intros v. lia.
    + cbn [view_ok vfun]. split; [split; [lia|exact Hok]|]. intros v. reflexivity.
Qed.

Lemma vtimes_neg_ok : forall w k, k < 0 -> view_ok w -> view_ok (vtimes_neg w k).
Proof. intros w k Hk Hok. unfold vtimes_neg. cbn [view_ok]. split; [lia|exact Hok]. Qed.

Lemma leb_ltb_succ : forall x y, (x + 1 <=? y) = (x <? y).
Proof. intros. apply Bool.eq_true_iff_eq. rewrite Z.leb_le, Z.ltb_lt. lia. Qed.

Lemma derived_postings_sem : forall x y s a,
  sat (mk_sub x y s) a = (vsem x a - vsem y a =? a s) /\
  sat (mk_lt x y) a = (vsem x a <? vsem y a) /\
  sat (mk_gt x y) a = (vsem y a <? vsem x a) /\
  sat (mk_geq x y) a = (vsem y a <=? vsem x a).
Proof.
  intros x y s a. unfold mk_sub, mk_lt, mk_gt, mk_geq, mk_add, mk_leq, vtimes_neg. cbn [sat vsem].
  split; [|split; [apply leb_ltb_succ | split; [apply leb_ltb_succ | reflexivity]]].
  f_equal. lia.
Qed.

(* ------------------------------------------------------------------------------------------ *)
(* Assignment-level corollaries used by the propagator proofs (Proofs/Props/*.v) *)

Definition uin (w : view) (T : list nat) : Prop := forall x, uvar w = Some x -> In x T.
Definition uscope (w : view) (n : nat) : Prop := forall x, uvar w = Some x -> (x < n)%nat.

Lemma uin_uvarl : forall w T, incl (uvarl w) T <-> uin w T.
Proof.
  intros w T. unfold uin, uvarl. destruct (uvar w) as [x|]; split.
  - intros H y Hy. inversion Hy; subst. apply H; left; reflexivity.
  - intros H y [<-|[]]. apply H; reflexivity.
  - intros _ y; discriminate.
  - intros _ y [].
Qed.

Lemma uin_self : forall w, uin w (uvarl w).
Proof. intros w. apply uin_uvarl. apply incl_refl. Qed.

Lemma uin_incl : forall w T T', uin w T -> incl T T' -> uin w T'.
Proof. intros w T T' H HI x Hx. apply HI, H, Hx. Qed.

Lemma uscope_of_uin : forall w T n, uin w T -> (forall v, In v T -> (v < n)%nat) -> uscope w n.
Proof. intros w T n H HT x Hx. apply HT, H, Hx. Qed.

Definition bnd_ok (w : view) (mx : bool) (b : Z) (a : asg) : Prop :=
  if mx then vsem w a <= b else b <= vsem w a.

Lemma keeps_sem : forall w mx b a x, uvar w = Some x -> (keeps w mx b (a x) = true <-> bnd_ok w mx b a).
Proof. intros w mx b a x H. unfold keeps, bnd_ok. rewrite (vsem_vfun w a x H). destruct mx; apply Z.leb_le. Qed.

Lemma keeps_sem_const : forall w mx b a v, uvar w = None -> (keeps w mx b v = true <-> bnd_ok w mx b a).
Proof. intros w mx b a v H. unfold keeps, bnd_ok. rewrite (vsem_const w H a v). destruct mx; apply Z.leb_le. Qed.

Lemma vsem_frame : forall w T a1 a2, uin w T -> (forall v, In v T -> a1 v = a2 v) -> vsem w a1 = vsem w a2.
Proof.
  intros w T a1 a2 Hin H. destruct (uvar w) as [x|] eqn:Hu.
  - rewrite (vsem_vfun w a1 x Hu), (vsem_vfun w a2 x Hu), (H x (Hin x Hu)). reflexivity.
  - rewrite (vsem_const w Hu a1 0), (vsem_const w Hu a2 0). reflexivity.
Qed.

(* the view's bounds enclose its value under every assignment inside the domains *)
Lemma vbnd_bounds : forall w s a, view_ok w -> wf_store s -> inst a s -> uscope w (length s) ->
  vmin w s <= vsem w a <= vmax w s.
Proof.
  intros w s a Hok Hwf Hi Hsc. destruct (uvar w) as [x|] eqn:Hu.
  - pose proof (Hsc x Hu) as Hx.
    destruct (view_bounds_exact w s x Hok Hu (Hwf x Hx)) as (H & _).
    rewrite (vsem_vfun w a x Hu). apply H. apply Hi. exact Hx.
  - destruct (view_bounds_const w s Hu) as [E1 E2]. rewrite E1, E2, (vsem_const w Hu a 0). lia.
Qed.

Lemma fixed_inst : forall a s x, inst a s -> dfixed (sget s x) = true ->
  sget s x = [a x] /\ (x < length s)%nat.
Proof.
  intros a s x Hi Hf. apply dfixed_single in Hf. destruct Hf as [z Hz].
  assert (Hx : (x < length s)%nat) by (apply sget_nonempty_lt; rewrite Hz; discriminate).
  split; [|exact Hx]. pose proof (Hi x Hx) as Hin. rewrite Hz in Hin.
  destruct Hin as [E|[]]. rewrite Hz, E. reflexivity.
Qed.

(* fixed underlying variable (or constant view): both bounds are the value *)
Lemma vbnd_fixed : forall w s a mx, inst a s ->
  (forall x, uvar w = Some x -> dfixed (sget s x) = true) -> vbnd w mx s = vsem w a.
Proof.
  intros w s a mx Hi Hf. destruct (uvar w) as [x|] eqn:Hu.
  - destruct (fixed_inst a s x Hi (Hf x eq_refl)) as [Hd _].
    rewrite (vbnd_vfun w x s Hu), (vsem_vfun w a x Hu), Hd.
    destruct (Bool.eqb mx (vdir w)); reflexivity.
  - rewrite (vbnd_const w Hu mx s 0), (vsem_const w Hu a 0). reflexivity.
Qed.

(* bounds only tighten when the store shrinks *)
Lemma vbnd_sub : forall w s s', view_ok w -> wf_store s -> wf_store s' -> sub_store s' s ->
  vmin w s <= vmin w s' /\ vmax w s' <= vmax w s.
Proof.
  intros w s s' Hok Hwf Hwf' [HL HS]. destruct (uvar w) as [x|] eqn:Hu.
  - destruct (Nat.lt_ge_cases x (length s)) as [Hx|Hx].
    + destruct (view_bounds_exact w s x Hok Hu (Hwf x Hx)) as (Hall & _).
      assert (Hx' : (x < length s')%nat) by lia.
      destruct (view_bounds_exact w s' x Hok Hu (Hwf' x Hx')) as (_ & (v1 & I1 & E1) & (v2 & I2 & E2) & _).
      pose proof (Hall v1 (HS _ _ I1)). pose proof (Hall v2 (HS _ _ I2)). lia.
    + unfold vmin, vmax. rewrite !(vbnd_vfun w x _ Hu).
      rewrite (sget_oob s) by lia. rewrite (sget_oob s') by lia. lia.
  - unfold vmin, vmax. rewrite !(vbnd_const w Hu _ _ 0). lia.
Qed.

(* a setter on a variable outside the store fails *)
Lemma vset_oob : forall w x mx b c, view_ok w -> uvar w = Some x -> sget (fst c) x = [] ->
  vset w mx b c = None.
Proof.
  intros w x mx b c Hok Hu He. destruct (vset_reduce w x Hok Hu mx b) as (b' & H1 & _).
  rewrite H1. destruct (kdir w mx); [apply cset_max_empty | apply cset_min_empty]; exact He.
Qed.

(* --- soundness of one setter --- *)
Definition okc (a : asg) (n : nat) (c : ctx) : Prop :=
  wf_store (fst c) /\ inst a (fst c) /\ length (fst c) = n.

Lemma vset_ok : forall w mx b a n c, view_ok w -> uscope w n -> okc a n c -> bnd_ok w mx b a ->
  exists c', vset w mx b c = Some c' /\ okc a n c' /\ sub_store (fst c') (fst c).
Proof.
  intros w mx b a n [s ev] Hok Hsc (Hwf & Hi & Hl) Hb. cbn [fst] in *.
  destruct (uvar w) as [x|] eqn:Hu.
  - assert (Hx : (x < length s)%nat) by (rewrite Hl; apply Hsc; exact Hu).
    pose proof (Hwf x Hx) as Hd.
    assert (Hk : In (a x) (filter (keeps w mx b) (sget s x))).
    { apply filter_In. split; [apply Hi; exact Hx | apply (keeps_sem w mx b a x Hu); exact Hb]. }
    destruct (vset_spec w x mx b s ev Hok Hu Hd) as [[E _]|[[_ E]|(Hn & _ & E)]].
    + rewrite E in Hk. destruct Hk.
    + exists (s, ev). split; [exact E|]. split; [|apply sub_store_refl].
      split; [exact Hwf|]. split; [exact Hi|exact Hl].
    + eexists. split; [exact E|]. unfold okc. cbn [fst]. split.
      * split; [apply wf_store_supd; [exact Hwf|split; [exact Hn | apply filter_sorted; apply Hd]]|].
        split; [|rewrite supd_length; exact Hl].
        intros v Hv. rewrite supd_length in Hv. destruct (Nat.eq_dec v x) as [->|N].
        -- rewrite sget_supd_same by exact Hx. exact Hk.
        -- rewrite sget_supd_other by exact N. apply Hi; exact Hv.
      * apply sub_store_supd. intros y Hy. apply filter_In in Hy. tauto.
  - exists (s, ev). rewrite (vset_const w Hok Hu mx b (s, ev) 0).
    assert (K : keeps w mx b 0 = true) by (apply (keeps_sem_const w mx b a 0 Hu); exact Hb).
    rewrite K. split; [reflexivity|]. split; [|apply sub_store_refl].
    split; [exact Hwf|]. split; [exact Hi|exact Hl].
Qed.

Lemma vset_sound : forall w mx b a s ev, view_ok w -> wf_store s -> inst a s -> uscope w (length s) ->
  (mx = false -> b <= vsem w a) -> (mx = true -> vsem w a <= b) ->
  exists s' ev', vset w mx b (s, ev) = Some (s', ev') /\ inst a s'.
Proof.
  intros w mx b a s ev Hok Hwf Hi Hsc H0 H1.
  assert (Hb : bnd_ok w mx b a) by (unfold bnd_ok; destruct mx; [apply H1|apply H0]; reflexivity).
  destruct (vset_ok w mx b a (length s) (s, ev) Hok Hsc (conj Hwf (conj Hi eq_refl)) Hb)
    as ([s' ev'] & E & (_ & Hi' & _) & _).
  exists s', ev'. split; [exact E|exact Hi'].
Qed.

(* --- contraction of one setter; chains compose by ctr_trans --- *)
Definition ctr (T : list nat) (c c' : ctx) : Prop :=
  sub_store (fst c') (fst c) /\ wf_store (fst c') /\
  (total_size (fst c') <= total_size (fst c))%nat /\
  exists evn, snd c' = snd c ++ evn /\
    (forall v, sget (fst c') v <> sget (fst c) v -> In v evn) /\
    (forall v, In v evn -> In v T) /\
    (evn <> [] -> (total_size (fst c') < total_size (fst c))%nat).

Lemma ctr_refl : forall T c, wf_store (fst c) -> ctr T c c.
Proof.
  intros T c H. split; [apply sub_store_refl|]. split; [exact H|]. split; [lia|].
  exists []. split; [rewrite app_nil_r; reflexivity|]. split; [intros v N; congruence|].
  split; [intros v []|intros N; congruence].
Qed.

Lemma dom_eq_dec : forall d1 d2 : dom, {d1 = d2} + {d1 <> d2}.
Proof. apply list_eq_dec. apply Z.eq_dec. Qed.

Lemma ctr_trans : forall T c1 c2 c3, ctr T c1 c2 -> ctr T c2 c3 -> ctr T c1 c3.
Proof.
  intros T c1 c2 c3 (S1 & W1 & L1 & e1 & E1 & C1 & T1 & D1) (S2 & W2 & L2 & e2 & E2 & C2 & T2 & D2).
  split; [eapply sub_store_trans; eassumption|]. split; [exact W2|]. split; [lia|].
  exists (e1 ++ e2). split; [rewrite E2, E1, app_assoc; reflexivity|]. split; [|split].
  - intros v N. apply in_or_app.
    destruct (dom_eq_dec (sget (fst c2) v) (sget (fst c1) v)) as [E|E].
    + right. apply C2. rewrite E. exact N.
    + left. apply C1. exact E.
  - intros v Hv. apply in_app_or in Hv. destruct Hv as [Hv|Hv]; [apply T1|apply T2]; exact Hv.
  - intros N. destruct e1 as [|z e1].
    + cbn [app] in N. specialize (D2 N). lia.
    + assert (Hz : z :: e1 <> []) by discriminate. specialize (D1 Hz). lia.
Qed.

Lemma ctr_incl : forall T T' c c', incl T T' -> ctr T c c' -> ctr T' c c'.
Proof.
  intros T T' c c' HI (S1 & W1 & L1 & e1 & E1 & C1 & T1 & D1).
  split; [exact S1|]. split; [exact W1|]. split; [exact L1|]. exists e1.
  split; [exact E1|]. split; [exact C1|]. split; [|exact D1]. intros v Hv. apply HI, T1, Hv.
Qed.

Lemma ctr_wf : forall T c c', ctr T c c' -> wf_store (fst c').
Proof. intros T c c' (_ & W & _). exact W. Qed.

Lemma vset_ctr : forall w mx b T c c', view_ok w -> uin w T -> wf_store (fst c) ->
  vset w mx b c = Some c' -> ctr T c c'.
Proof.
  intros w mx b T [s ev] c' Hok Hin Hwf H. cbn [fst] in Hwf.
  destruct (uvar w) as [x|] eqn:Hu.
  - destruct (Nat.lt_ge_cases x (length s)) as [Hx|Hx].
    + pose proof (Hwf x Hx) as Hd.
      destruct (vset_spec w x mx b s ev Hok Hu Hd) as [[_ E]|[[_ E]|(Hn & Hne & E)]];
        rewrite E in H; inversion H; subst; clear H.
      * apply ctr_refl; exact Hwf.
      * unfold ctr; cbn [fst snd].
        split; [apply sub_store_supd; intros y Hy; apply filter_In in Hy; tauto|].
        split; [apply wf_store_supd; [exact Hwf | split; [exact Hn | apply filter_sorted, Hd]]|].
        pose proof (total_size_supd_filter s x (keeps w mx b) Hx Hne) as Hts.
        split; [lia|]. exists [x]. split; [reflexivity|]. split; [|split].
        -- intros v N. destruct (Nat.eq_dec v x) as [->|Nv]; [left; reflexivity|].
           exfalso. apply N. apply sget_supd_other; exact Nv.
        -- intros v [<-|[]]. apply Hin. exact Hu.
        -- intros _. exact Hts.
    + exfalso. rewrite (vset_oob w x mx b (s, ev) Hok Hu) in H; [discriminate|].
      apply sget_oob; exact Hx.
  - rewrite (vset_const w Hok Hu mx b (s, ev) 0) in H.
    destruct (keeps w mx b 0); [|discriminate]. inversion H; subst. apply ctr_refl; exact Hwf.
Qed.

(* the requested packaged form *)
Lemma vset_contracting : forall w mx b s ev s' ev', view_ok w -> wf_store s ->
  vset w mx b (s, ev) = Some (s', ev') ->
  sub_store s' s /\ wf_store s' /\ (total_size s' <= total_size s)%nat /\
  exists evn, ev' = ev ++ evn /\
    (forall v, sget s' v <> sget s v -> In v evn) /\
    (forall v, In v evn -> In v (uvarl w)) /\
    (evn <> [] -> (total_size s' < total_size s)%nat).
Proof.
  intros w mx b s ev s' ev' Hok Hwf H.
  exact (vset_ctr w mx b (uvarl w) (s, ev) (s', ev') Hok (uin_self w) Hwf H).
Qed.

Lemma contracting_of_ctr : forall p,
  (forall c c', wf_store (fst c) -> prune p c = Some c' -> ctr (trig p) c c') -> contracting p.
Proof.
  intros p H s ev s' ev' Hwf E.
  destruct (H (s, ev) (s', ev') Hwf E) as (S1 & W1 & _ & evn & E1 & C1 & T1 & D1).
  cbn [fst snd] in *. split; [exact S1|]. split; [exact W1|]. exists evn.
  split; [exact E1|]. split; [exact C1|]. split; [exact T1|exact D1].
Qed.

(* --- checking: on fixed variables a successful setter changes nothing and certifies its bound --- *)
Lemma vset_fixed : forall w mx b a s ev c', view_ok w -> wf_store s -> inst a s ->
  (forall x, uvar w = Some x -> dfixed (sget s x) = true) ->
  vset w mx b (s, ev) = Some c' -> c' = (s, ev) /\ bnd_ok w mx b a.
Proof.
  intros w mx b a s ev c' Hok Hwf Hi Hf H. destruct (uvar w) as [x|] eqn:Hu.
  - destruct (fixed_inst a s x Hi (Hf x eq_refl)) as [Hd Hx].
    pose proof (Hwf x Hx) as Hwd.
    destruct (vset_spec w x mx b s ev Hok Hu Hwd) as [[_ E]|[[Ed E]|(Hn & Hne & E)]];
      rewrite E in H; inversion H; subst; clear H.
    + split; [reflexivity|]. apply (keeps_sem w mx b a x Hu).
      rewrite Hd in Ed. cbn [filter] in Ed. destruct (keeps w mx b (a x)); [reflexivity|discriminate].
    + exfalso. rewrite Hd in Hn, Hne. cbn [filter] in Hn, Hne.
      destruct (keeps w mx b (a x)); congruence.
  - rewrite (vset_const w Hok Hu mx b (s, ev) 0) in H.
    destruct (keeps w mx b 0) eqn:K; [|discriminate]. inversion H; subst.
    split; [reflexivity|]. apply (keeps_sem_const w mx b a 0 Hu). exact K.
Qed.

(* --- frame: bounds and setters read and write only the underlying variable --- *)
Definition agr (T : list nat) (c1 c2 : ctx) : Prop :=
  length (fst c1) = length (fst c2) /\ agree_on T (fst c1) (fst c2) /\ snd c1 = snd c2.
Definition orel {A} (R : A -> A -> Prop) (o1 o2 : option A) : Prop :=
  match o1, o2 with Some a, Some b => R a b | None, None => True | _, _ => False end.

Lemma obind_orel : forall {A B} (R : A -> A -> Prop) (R' : B -> B -> Prop) o1 o2 f g,
  orel R o1 o2 -> (forall a b, R a b -> orel R' (f a) (g b)) -> orel R' (obind o1 f) (obind o2 g).
Proof.
  intros A B R R' [a|] [b|] f g H Hf; cbn in *; try contradiction; [apply Hf; exact H | exact I].
Qed.

Lemma vbnd_frame : forall w T s1 s2, uin w T -> agree_on T s1 s2 ->
  forall mx, vbnd w mx s1 = vbnd w mx s2.
Proof.
  induction w as [v|c|w IH|w IH c|w IH k|w IH|w IH]; intros T s1 s2 Hin Ha mx; cbn [vbnd];
    try reflexivity; try (rewrite (IH T s1 s2 Hin Ha); reflexivity).
  rewrite (Ha v); [reflexivity|apply Hin; reflexivity].
Qed.

Lemma agr_supd : forall T s1 s2 e1 e2 v d, agr T (s1, e1) (s2, e2) ->
  agr T (supd s1 v d, e1 ++ [v]) (supd s2 v d, e2 ++ [v]).
Proof.
  intros T s1 s2 e1 e2 v d (HL & HA & HE). cbn [fst snd] in *.
  unfold agr; cbn [fst snd]. split; [rewrite !supd_length; exact HL|]. split; [|rewrite HE; reflexivity].
  intros u Hu. destruct (Nat.eq_dec u v) as [->|N].
  - destruct (Nat.lt_ge_cases v (length s1)) as [L|L].
    + rewrite !sget_supd_same by lia. reflexivity.
    + rewrite !sget_oob by (rewrite supd_length; lia). reflexivity.
  - rewrite !sget_supd_other by exact N. apply HA; exact Hu.
Qed.

Lemma cset_min_frame : forall T v b c1 c2, In v T -> agr T c1 c2 ->
  orel (agr T) (cset_min v b c1) (cset_min v b c2).
Proof.
  intros T v b [s1 e1] [s2 e2] Hv Ha. pose proof Ha as (HL & HA & HE). cbn [fst snd] in *.
  unfold cset_min. cbn [fst snd]. rewrite <- (HA v Hv).
  destruct (dempty (sget s1 v)); [exact I|].
  destruct (dmax (sget s1 v) <? b); [exact I|].
  destruct (dmin (sget s1 v) <? b); [|exact Ha].
  destruct (dempty (dbelow b (sget s1 v))); [exact I|].
  cbn [orel]. apply agr_supd. exact Ha.
Qed.

Lemma cset_max_frame : forall T v b c1 c2, In v T -> agr T c1 c2 ->
  orel (agr T) (cset_max v b c1) (cset_max v b c2).
Proof.
  intros T v b [s1 e1] [s2 e2] Hv Ha. pose proof Ha as (HL & HA & HE). cbn [fst snd] in *.
  unfold cset_max. cbn [fst snd]. rewrite <- (HA v Hv).
  destruct (dempty (sget s1 v)); [exact I|].
  destruct (b <? dmin (sget s1 v)); [exact I|].
  destruct (b <? dmax (sget s1 v)); [|exact Ha].
  destruct (dempty (dabove b (sget s1 v))); [exact I|].
  cbn [orel]. apply agr_supd. exact Ha.
Qed.

Lemma vset_frame : forall w T, uin w T -> forall mx b c1 c2, agr T c1 c2 ->
  orel (agr T) (vset w mx b c1) (vset w mx b c2).
Proof.
  induction w as [v|c|w IH|w IH c|w IH k|w IH|w IH]; intros T Hin mx b c1 c2 Ha; cbn [vset];
    try (apply IH; assumption).
  - destruct mx; [apply cset_max_frame | apply cset_min_frame]; try exact Ha; apply Hin; reflexivity.
  - destruct mx; [destruct (c <=? b) | destruct (b <=? c)]; cbn [orel]; (exact Ha || exact I).
  - destruct mx; apply IH; assumption.
Qed.

Lemma frame_of_agr : forall p,
  (forall c1 c2, agr (trig p) c1 c2 -> orel (agr (trig p)) (prune p c1) (prune p c2)) ->
  (forall a1 a2, (forall v, In v (trig p) -> a1 v = a2 v) -> sat p a1 = sat p a2) -> frame p.
Proof.
  intros p H1 H2. split; [|exact H2]. intros s1 s2 ev HL HA.
  assert (Ha : agr (trig p) (s1, ev) (s2, ev)) by (split; [exact HL|split; [exact HA|reflexivity]]).
  specialize (H1 _ _ Ha).
  destruct (prune p (s1, ev)) as [[s1' e1]|]; destruct (prune p (s2, ev)) as [[s2' e2]|];
    cbn [orel] in H1; try exact H1.
  destruct H1 as (_ & A & E). cbn [fst snd] in *. split; [exact E|exact A].
Qed.
