(* The iterative engine of Model/EngineStack.v (explicit stack of suspended branch iterators, one
   `next()` call at a time) refines the recursive searches of Model/Search.v (`dfs`) and
   Model/Limits.v (`dfs_lim`): same solutions in the same order, same final mode state, same
   iteration/check counters, same stop reason, same stack depth.  For every scheduler, mode,
   check interval, clock and memory limit.  Stdlib only, no axioms, no contracts on propagators.

   Method: a big-step relation on machine configurations (`reaches` = "runs, yielding these
   solutions, to that configuration"; `finishes` = "runs to a `return None`/final `return Some`");
   `node_sim` shows by induction on the recursion of `dfs_lim` that from the configuration
   (cur = fresh iterator of node n, stack = st) the machine produces what `dfs_lim` produces for n
   at depth `length st` and, when the subtree is exhausted, is left in (cur = exhausted, stack =
   st) — the suspended iterators in `st` are the recursion's pending frames; then the relation is
   shown to be computed by the fuel-indexed executable functions for every large enough fuel. *)
Require Import Selen.Model.Prelude Selen.Model.Dom Selen.Model.Views Selen.Model.PropDefs.
Require Import Selen.Model.Props.Basic Selen.Model.Propagate Selen.Model.Search Selen.Model.EngineSpec.
Require Import Selen.Model.Limits Selen.Model.EngineStack.
Require Import Selen.Proofs.EngineProofs Selen.Proofs.LimitsProofs.

Section Stack.
  Variable pick : sched.
  Variable m : mode.
  Variable interval : Z.
  Variable clock : Z -> bool.
  Variable mlimit : option Z.
  Variable giveup : list prop -> store -> bool.

  Notation tk := (tick interval clock mlimit).
  Notation lhead := (loop_head interval clock mlimit).
  Notation wstp := (while_step pick m interval clock mlimit giveup).
  Notation ewhile := (engine_while pick m interval clock mlimit giveup).
  Notation enext := (engine_next pick m interval clock mlimit giveup).
  Notation erun := (engine_run pick m interval clock mlimit giveup).
  Notation efirst := (engine_first pick m interval clock mlimit giveup).

  (* ======================================================================================== *)
  (* 1. unfolding and fuel monotonicity of the executable machine *)

  Lemma ewhile_S : forall f e,
    ewhile (S f) e =
    match wstp e with
    | WFuel => EFuel
    | WCont e' => ewhile f e'
    | WYield t e' => EYield t e'
    | WLimit w e' => EDone (SLimit w) e'
    | WExhausted e' => EDone SExhausted e'
    end.
  Proof. reflexivity. Qed.

  (* what the consumer does with the result of the while loop of one call *)
  Definition after_while (n f : nat) (r : eres) : rres :=
    match r with
    | EFuel => RFuel
    | EYield t e' => rcons t (erun n f e')
    | EDone why e' => RStop [] e' why
    end.
  Definition first_res (r : eres) : rres :=
    match r with
    | EFuel => RFuel
    | EYield t e' => RStop [t] e' SConsumer
    | EDone why e' => RStop [] e' why
    end.

  Lemma erun_S : forall n f e,
    erun (S n) f e =
    match lhead e with
    | inr (w, e') => RStop [] e' (SLimit w)
    | inl e' => after_while n f (ewhile f e')
    end.
  Proof.
    intros n f e. cbn [engine_run]. unfold engine_next.
    destruct (lhead e) as [e'|[w e']]; reflexivity.
  Qed.

  Lemma efirst_eq : forall f e,
    efirst f e =
    match lhead e with
    | inr (w, e') => RStop [] e' (SLimit w)
    | inl e' => first_res (ewhile f e')
    end.
  Proof.
    intros f e. unfold engine_first, engine_next.
    destruct (lhead e) as [e'|[w e']]; reflexivity.
  Qed.

  Lemma ewhile_mono : forall f e r, ewhile f e = r -> r <> EFuel ->
    forall f', (f <= f')%nat -> ewhile f' e = r.
  Proof.
    induction f as [|f IH]; intros e r H Hr f' Hle.
    - cbn in H. congruence.
    - destruct f' as [|f']; [lia|]. rewrite ewhile_S in *.
      destruct (wstp e); try exact H.
      apply IH; [exact H|exact Hr|lia].
  Qed.

  Lemma rcons_nofuel : forall t r, rcons t r <> RFuel -> r <> RFuel.
  Proof. intros t r H E. subst r. apply H. reflexivity. Qed.

  Lemma erun_mono : forall n f e r, erun n f e = r -> r <> RFuel ->
    forall n' f', (n <= n')%nat -> (f <= f')%nat -> erun n' f' e = r.
  Proof.
    induction n as [|n IH]; intros f e r H Hr n' f' Hn Hf.
    - cbn in H. congruence.
    - destruct n' as [|n']; [lia|]. rewrite erun_S in *.
      destruct (lhead e) as [e1|[w e1]]; [|exact H].
      destruct (ewhile f e1) as [|t e2|why e2] eqn:E.
      + cbn in H. congruence.
      + rewrite (ewhile_mono f e1 _ E ltac:(discriminate) f' Hf). cbn in *.
        subst r. f_equal. apply (IH f e2); [reflexivity|eapply rcons_nofuel; exact Hr|lia|exact Hf].
      + rewrite (ewhile_mono f e1 _ E ltac:(discriminate) f' Hf). exact H.
  Qed.

  Lemma efirst_mono : forall f e r, efirst f e = r -> r <> RFuel ->
    forall f', (f <= f')%nat -> efirst f' e = r.
  Proof.
    intros f e r H Hr f' Hf. rewrite efirst_eq in *.
    destruct (lhead e) as [e1|[w e1]]; [|exact H].
    destruct (ewhile f e1) as [|t e2|why e2] eqn:E.
    - cbn in H. congruence.
    - rewrite (ewhile_mono f e1 _ E ltac:(discriminate) f' Hf). exact H.
    - rewrite (ewhile_mono f e1 _ E ltac:(discriminate) f' Hf). exact H.
  Qed.

  (* ======================================================================================== *)
  (* 1b. a descent passes the limit test (repair limits_deep): an evaluation of the `while` test
         that leaves the stack one frame deeper has counted an iteration and, on a multiple of the
         interval, consulted the clock and the memory estimate with the DEEPER stack *)

  Lemma tick_counts : forall d l l',
    (tk d l = inl l' \/ exists w, tk d l = inr (w, l')) -> iters l' = iters l + 1.
  Proof.
    intros d l l'. unfold tick. destruct (_ =? 0).
    - destruct (clock _); [|destruct (mem_exceeded _ _ _)].
      + intros [H|[w H]]; [discriminate|]. injection H as _ <-. reflexivity.
      + intros [H|[w H]]; [discriminate|]. injection H as _ <-. reflexivity.
      + intros [H|[w H]]; [|discriminate]. injection H as <-. reflexivity.
    - intros [H|[w H]]; [|discriminate]. injection H as <-. reflexivity.
  Qed.

  Lemma wstp_push : forall e,
    match wstp e with
    | WCont e' => length (stack e') = S (length (stack e)) -> tk (length (stack e')) (lst e) = inl (lst e')
    | WLimit w e' => length (stack e') = S (length (stack e)) -> tk (length (stack e')) (lst e) = inr (w, lst e')
    | _ => True
    end.
  Proof.
    intros [c st b l]. unfold while_step. cbn [cur stack EngineStack.best lst].
    destruct (biter_next c) as [[[[ps1 s] bid]|] c'].
    - destruct (giveup _ s); [cbn; lia|].
      destruct (propagate pick _ _ s _) as [| |s']; [cbn; lia|exact I|].
      destruct (all_fixed s'); [exact I|].
      unfold loop_head. cbn [cur stack EngineStack.best lst length].
      destruct (tk (S (length st)) l) as [l0|[w l0]] eqn:Et; cbn; intros _; exact Et.
    - destruct st as [|parent st]; [exact I|].
      unfold loop_head. cbn [cur stack EngineStack.best lst length].
      destruct (tk (length st) l) as [l0|[w l0]]; cbn; lia.
  Qed.

  Theorem push_passes_limit_test : forall e e', wstp e = WCont e' ->
    length (stack e') = S (length (stack e)) ->
    tk (length (stack e')) (lst e) = inl (lst e') /\ iters (lst e') = iters (lst e) + 1.
  Proof.
    intros e e' W Hl. pose proof (wstp_push e) as H. rewrite W in H. specialize (H Hl).
    split; [exact H|]. eapply tick_counts. left. exact H.
  Qed.

  Theorem push_stopped_by_limit : forall e w e', wstp e = WLimit w e' ->
    length (stack e') = S (length (stack e)) ->
    tk (length (stack e')) (lst e) = inr (w, lst e') /\ iters (lst e') = iters (lst e) + 1.
  Proof.
    intros e w e' W Hl. pose proof (wstp_push e) as H. rewrite W in H. specialize (H Hl).
    split; [exact H|]. eapply tick_counts. right. exists w. exact H.
  Qed.

  (* ======================================================================================== *)
  (* 2. big-step semantics of the machine (with the number of `while` evaluations) and the
        simulation of the recursion *)

  Section Sim.
    Variable resume : bool.
    Notation dl := (dfs_lim pick m interval clock mlimit giveup resume).
    Notation clim := (child_lim pick m interval clock mlimit giveup resume).
    Notation rtk := (retick interval clock mlimit).

    (* from a configuration at the `while` test, the machine runs (the consumer calling again
       after every yield, no limit firing) to another configuration at the `while` test *)
    Inductive reaches : nat -> estate -> list store -> estate -> Prop :=
    | R_refl : forall e, reaches 0 e [] e
    | R_step : forall k e e1 sols e',
        wstp e = WCont e1 -> reaches k e1 sols e' -> reaches (S k) e sols e'
    | R_yield : forall k e t e1 e2 sols e',
        resume = true -> wstp e = WYield t e1 -> lhead e1 = inl e2 ->
        reaches k e2 sols e' -> reaches (S k) e (t :: sols) e'.

    (* ... runs until the consumer stops: next() returned None, or (resume = false) Some *)
    Inductive finishes : nat -> estate -> list store -> estate -> stop -> Prop :=
    | F_exh : forall e e', wstp e = WExhausted e' -> finishes 1 e [] e' SExhausted
    | F_lim : forall e w e', wstp e = WLimit w e' -> finishes 1 e [] e' (SLimit w)
    | F_ylim : forall e t e1 w e',
        resume = true -> wstp e = WYield t e1 -> lhead e1 = inr (w, e') ->
        finishes 1 e [t] e' (SLimit w)
    | F_ycons : forall e t e1,
        resume = false -> wstp e = WYield t e1 -> finishes 1 e [t] e1 SConsumer
    | F_step : forall k e e1 sols e' why,
        wstp e = WCont e1 -> finishes k e1 sols e' why -> finishes (S k) e sols e' why
    | F_yield : forall k e t e1 e2 sols e' why,
        resume = true -> wstp e = WYield t e1 -> lhead e1 = inl e2 ->
        finishes k e2 sols e' why -> finishes (S k) e (t :: sols) e' why.

    Lemma reaches_trans : forall k0 e s0 e0, reaches k0 e s0 e0 ->
      forall k1 s1 e1, reaches k1 e0 s1 e1 -> reaches (k0 + k1) e (s0 ++ s1) e1.
    Proof.
      induction 1 as [e|k e e1 sols e' W _ IH|k e t e1 e2 sols e' Hr W Hl _ IH]; intros k1 s1 e3 H2.
      - exact H2.
      - cbn. eapply R_step; [exact W|]. apply IH. exact H2.
      - cbn. eapply R_yield; [exact Hr|exact W|exact Hl|]. apply IH. exact H2.
    Qed.

    Lemma reaches_finishes : forall k0 e s0 e0, reaches k0 e s0 e0 ->
      forall k1 s1 e' why, finishes k1 e0 s1 e' why -> finishes (k0 + k1) e (s0 ++ s1) e' why.
    Proof.
      induction 1 as [e|k e e1 sols e' W _ IH|k e t e1 e2 sols e' Hr W Hl _ IH]; intros k1 s1 e3 why H2.
      - exact H2.
      - cbn. eapply F_step; [exact W|]. apply IH. exact H2.
      - cbn. eapply F_yield; [exact Hr|exact W|exact Hl|]. apply IH. exact H2.
    Qed.

    Lemma reaches_step_r : forall k e sols e0 e1,
      reaches k e sols e0 -> wstp e0 = WCont e1 -> reaches (S k) e sols e1.
    Proof.
      intros k e sols e0 e1 H W. rewrite <- (app_nil_r sols). replace (S k) with (k + 1)%nat by lia.
      eapply reaches_trans; [exact H|]. eapply R_step; [exact W|apply R_refl].
    Qed.

    Lemma reaches_lim_r : forall k e sols e0 w e1,
      reaches k e sols e0 -> wstp e0 = WLimit w e1 -> finishes (S k) e sols e1 (SLimit w).
    Proof.
      intros k e sols e0 w e1 H W. rewrite <- (app_nil_r sols). replace (S k) with (k + 1)%nat by lia.
      eapply reaches_finishes; [exact H|]. apply F_lim. exact W.
    Qed.

    (* what the result `r` of the recursion (on a node, or on one child of a node) at depth
       `length st` says about the machine started in `e` with the suspended iterators `st` below:
       when the recursion reports the subtree exhausted the machine is left with the iterator
       `fin` and the same stack; otherwise the machine has stopped, at the reported depth; in both
       cases after at most B evaluations of the `while` test *)
    Definition simres (B : nat) (e : estate) (fin : biter) (st : list biter) (r : lres) : Prop :=
      match r with
      | LFuel => True
      | LStop sols b l' SExhausted d =>
          d = length st /\ exists k, (k <= B)%nat /\ reaches k e sols (mke fin st b l')
      | LStop sols b l' why d =>
          exists k e', (k <= B)%nat /\ finishes k e sols e' why /\
                       EngineStack.best e' = b /\ lst e' = l' /\ length (stack e') = d
      end.

    (* the iterator of a child subtree is exhausted: pop, and enter the outer loop again *)
    Lemma retick_pop : forall B k e sols it st b l,
      reaches k e sols (mke None (it :: st) b l) -> (S k <= B)%nat ->
      simres B e it st (rtk (length st) sols b l).
    Proof.
      intros B k e sols it st b l H HB. unfold retick.
      assert (W : wstp (mke None (it :: st) b l) =
                  match tk (length st) l with
                  | inl l' => WCont (mke it st b l')
                  | inr (w, l') => WLimit w (mke it st b l')
                  end).
      { unfold while_step, loop_head. cbn. destruct (tk (length st) l) as [l'|[w l']]; reflexivity. }
      destruct (tk (length st) l) as [l''|[w l'']]; cbn.
      - split; [reflexivity|]. exists (S k). split; [exact HB|].
        eapply reaches_step_r; [exact H|exact W].
      - exists (S k), (mke it st b l''). split; [exact HB|]. split; [|auto].
        eapply reaches_lim_r; [exact H|exact W].
    Qed.

    (* a solution was returned and the consumer calls next() again *)
    Lemma retick_yield : forall B e t it st b l,
      resume = true -> wstp e = WYield t (mke it st b l) -> (1 <= B)%nat ->
      simres B e it st (rtk (length st) [t] b l).
    Proof.
      intros B e t it st b l Hr W HB. unfold retick.
      assert (L : lhead (mke it st b l) =
                  match tk (length st) l with
                  | inl l' => inl (mke it st b l')
                  | inr (w, l') => inr (w, mke it st b l')
                  end) by reflexivity.
      destruct (tk (length st) l) as [l''|[w l'']]; cbn.
      - split; [reflexivity|]. exists 1%nat. split; [exact HB|].
        eapply R_yield; [exact Hr|exact W|exact L|apply R_refl].
      - exists 1%nat, (mke it st b l''). split; [exact HB|]. split; [|auto].
        eapply F_ylim; [exact Hr|exact W|exact L].
    Qed.

    Definition bp_of (pv : nat) (md : Z) (left : bool) : prop :=
      if left then mk_leq (VVar pv) (VConst md) else mk_gt (VVar pv) (VConst md).
    Definition it_after (ps : list prop) (s : store) (pv : nat) (md : Z) (left : bool) : biter :=
      if left then Some (mkbs ps s pv md false) else None.

    (* the body of the while loop on a pending child is the recursion's `child` *)
    Lemma wstp_child : forall ps s pv md left st best l,
      wstp (mke (Some (mkbs ps s pv md left)) st best l) =
      if giveup (cps m ps best (bp_of pv md left)) s
      then WLimit LTimeout (mke (it_after ps s pv md left) st best l) else
      match cprop pick m ps s best (bp_of pv md left) with
      | PFuel => WFuel
      | PFail => WCont (mke (it_after ps s pv md left) st best l)
      | PDone s' =>
        if all_fixed s' then WYield s' (mke (it_after ps s pv md left) st (on_solution m best s') l)
        else
          match lhead (mke (split_on_unassigned (cps m ps best (bp_of pv md left)) s')
                           (it_after ps s pv md left :: st) best l) with
          | inl e' => WCont e'
          | inr (w, e') => WLimit w e'
          end
      end.
    Proof. intros ps s pv md left st best l. destruct left; reflexivity. Qed.

    (* the limit test after a push sees one more frame *)
    Lemma lhead_push : forall c it st best l,
      lhead (mke c (it :: st) best l) =
      match tk (S (length st)) l with
      | inl l' => inl (mke c (it :: st) best l')
      | inr (w, l') => inr (w, mke c (it :: st) best l')
      end.
    Proof. reflexivity. Qed.

    Lemma child_sim : forall B recl ps s pv md left best l st,
      (forall ps' s' best' l' st', length st' = S (length st) ->
         simres B (mke (split_on_unassigned ps' s') st' best' l') None st'
                (recl (S (length st)) ps' s' best' l')) ->
      simres (B + 2) (mke (Some (mkbs ps s pv md left)) st best l) (it_after ps s pv md left) st
             (clim recl (length st) ps s (bp_of pv md left) best l).
    Proof.
      intros B recl ps s pv md left best l st Hrec. unfold child_lim.
      pose proof (wstp_child ps s pv md left st best l) as W.
      set (e := mke (Some (mkbs ps s pv md left)) st best l) in *.
      set (it' := it_after ps s pv md left) in *.
      set (bp := bp_of pv md left) in *.
      destruct (giveup (cps m ps best bp) s).
      { (* the propagation of the child is given up: next() returns None, nothing pushed *)
        cbn. exists 1%nat. eexists. split; [lia|]. split; [apply F_lim; exact W|]. cbn. auto. }
      destruct (cprop pick m ps s best bp) as [| |s'].
      - cbn. split; [reflexivity|]. exists 1%nat. split; [lia|].
        eapply R_step; [exact W|apply R_refl].
      - exact I.
      - destruct (all_fixed s').
        + destruct resume eqn:Er.
          * apply retick_yield; [exact Er|exact W|lia].
          * cbn. exists 1%nat. eexists. split; [lia|].
            split; [eapply F_ycons; [exact Er|exact W]|]. auto.
        + rewrite lhead_push in W.
          destruct (tk (S (length st)) l) as [l0|[w l0]].
          2:{ (* a limit fires on the descent: the machine returns None with the child pushed *)
              cbn. exists 1%nat. eexists. split; [lia|].
              split; [apply F_lim; exact W|]. cbn. auto. }
          specialize (Hrec (cps m ps best bp) s' best l0 (it' :: st) eq_refl).
          destruct (recl (S (length st)) (cps m ps best bp) s' best l0) as [|sols b l' why d];
            [exact I|].
          destruct why as [|w|].
          * cbn in Hrec. destruct Hrec as [_ [k [Hk Hrec]]]. apply (retick_pop _ (S k)); [|lia].
            eapply R_step; [exact W|exact Hrec].
          * cbn in *. destruct Hrec as [k [e' [Hk [Hf Hrest]]]]. exists (S k), e'.
            split; [lia|]. split; [|exact Hrest]. eapply F_step; [exact W|exact Hf].
          * cbn in *. destruct Hrec as [k [e' [Hk [Hf Hrest]]]]. exists (S k), e'.
            split; [lia|]. split; [|exact Hrest]. eapply F_step; [exact W|exact Hf].
    Qed.

    (* the simulation: a node of the recursion = a fresh iterator on top of the pending frames;
       a recursion of fuel f takes at most steps_bound f = 4 * (2^f - 1) evaluations *)
    Lemma node_sim : forall f ps s best l st,
      simres (steps_bound f) (mke (split_on_unassigned ps s) st best l) None st
             (dl f (length st) ps s best l).
    Proof.
      induction f as [|f IH]; intros ps s best l st; [exact I|].
      rewrite dfs_lim_eq. unfold split_on_unassigned.
      destruct (first_unassigned s 0) as [pv|].
      2:{ cbn. split; [reflexivity|]. exists 0%nat. split; [lia|apply R_refl]. }
      cbv zeta. set (md := dmid (sget s pv)).
      assert (HB : steps_bound (S f) = ((steps_bound f + 2) + (steps_bound f + 2))%nat)
        by (cbn [steps_bound]; lia).
      rewrite HB. generalize dependent (steps_bound f). intros B IH _.
      assert (Hrec : forall ps' s' best' l' st', length st' = S (length st) ->
                simres B (mke (split_on_unassigned ps' s') st' best' l') None st'
                       (dl f (S (length st)) ps' s' best' l')).
      { intros ps' s' best' l' st' Hl. rewrite <- Hl. apply IH. }
      pose proof (child_sim B (dl f) ps s pv md true best l st Hrec) as H1.
      cbn [bp_of it_after] in H1.
      destruct (clim (dl f) (length st) ps s (mk_leq (VVar pv) (VConst md)) best l)
        as [|sols1 b1 l2 why1 d1]; [exact I|].
      destruct why1 as [|w1|].
      2,3: cbn in *; destruct H1 as [k [e' [Hk Hrest]]]; exists k, e'; split; [lia|exact Hrest].
      cbn in H1. destruct H1 as [_ [k1 [Hk1 H1]]].
      pose proof (child_sim B (dl f) ps s pv md false b1 l2 st Hrec) as H2.
      cbn [bp_of it_after] in H2.
      destruct (clim (dl f) (length st) ps s (mk_gt (VVar pv) (VConst md)) b1 l2)
        as [|sols2 b2 l3 w d2]; [exact I|].
      destruct w as [|w2|]; cbn in *.
      - destruct H2 as [Hd [k2 [Hk2 H2]]]. split; [exact Hd|]. exists (k1 + k2)%nat.
        split; [lia|]. eapply reaches_trans; [exact H1|exact H2].
      - destruct H2 as [k2 [e' [Hk2 [Hf Hrest]]]]. exists (k1 + k2)%nat, e'. split; [lia|].
        split; [|exact Hrest]. eapply reaches_finishes; [exact H1|exact Hf].
      - destruct H2 as [k2 [e' [Hk2 [Hf Hrest]]]]. exists (k1 + k2)%nat, e'. split; [lia|].
        split; [|exact Hrest]. eapply reaches_finishes; [exact H1|exact Hf].
    Qed.

    (* the root: an empty stack, and `return None` when the root iterator is exhausted *)
    Lemma start_finishes : forall f ps s best l sols b l' why d,
      dl f 0 ps s best l = LStop sols b l' why d ->
      exists k e', (k <= engine_fuel f)%nat /\ finishes k (engine_start ps s best l) sols e' why /\
                   EngineStack.best e' = b /\ lst e' = l' /\ length (stack e') = d.
    Proof.
      intros f ps s best l sols b l' why d H.
      pose proof (node_sim f ps s best l []) as Hs. cbn [length] in Hs. rewrite H in Hs.
      unfold engine_start, engine_fuel. destruct why as [|w|]; cbn in Hs.
      - destruct Hs as [-> [k [Hk Hr]]]. exists (S k), (mke None [] b l'). split; [lia|].
        split; [|auto].
        rewrite <- (app_nil_r sols). replace (S k) with (k + 1)%nat by lia.
        eapply reaches_finishes; [exact Hr|]. apply F_exh. reflexivity.
      - destruct Hs as [k [e' [Hk Hrest]]]. exists k, e'. split; [lia|exact Hrest].
      - destruct Hs as [k [e' [Hk Hrest]]]. exists k, e'. split; [lia|exact Hrest].
    Qed.
  End Sim.

  (* ======================================================================================== *)
  (* 3. the executable machine computes the big-step relation, for every large enough fuel *)

  Lemma finishes_run : forall k e sols e' why, finishes true k e sols e' why ->
    forall n f1 f2, (length sols <= n)%nat -> (k <= f1)%nat -> (k <= f2)%nat ->
      after_while n f2 (ewhile f1 e) = RStop sols e' why.
  Proof.
    induction 1 as [e e' W|e w e' W|e t e1 w e' Hr W Hl|e t e1 Hr W
                    |k e e1 sols e' why W _ IH|k e t e1 e2 sols e' why Hr W Hl _ IH];
      intros n f1 f2 Hn H1 H2.
    - destruct f1 as [|f1]; [lia|]. rewrite ewhile_S, W. reflexivity.
    - destruct f1 as [|f1]; [lia|]. rewrite ewhile_S, W. reflexivity.
    - destruct f1 as [|f1]; [lia|]. cbn in Hn. destruct n as [|n]; [lia|].
      rewrite ewhile_S, W. cbn [after_while]. rewrite erun_S, Hl. reflexivity.
    - discriminate.
    - destruct f1 as [|f1]; [lia|]. rewrite ewhile_S, W. apply IH; lia.
    - destruct f1 as [|f1]; [lia|]. cbn in Hn. destruct n as [|n]; [lia|].
      rewrite ewhile_S, W. cbn [after_while]. rewrite erun_S, Hl.
      rewrite IH by lia. reflexivity.
  Qed.

  Lemma finishes_first : forall k e sols e' why, finishes false k e sols e' why ->
    forall f, (k <= f)%nat -> first_res (ewhile f e) = RStop sols e' why.
  Proof.
    induction 1 as [e e' W|e w e' W|e t e1 w e' Hr W Hl|e t e1 Hr W
                    |k e e1 sols e' why W _ IH|k e t e1 e2 sols e' why Hr W Hl _ IH];
      intros f H1.
    - destruct f as [|f]; [lia|]. rewrite ewhile_S, W. reflexivity.
    - destruct f as [|f]; [lia|]. rewrite ewhile_S, W. reflexivity.
    - discriminate.
    - destruct f as [|f]; [lia|]. rewrite ewhile_S, W. reflexivity.
    - destruct f as [|f]; [lia|]. rewrite ewhile_S, W. apply IH; lia.
    - discriminate.
  Qed.

  (* ======================================================================================== *)
  (* 4. the refinement theorems *)

  Notation dlim := (dfs_lim pick m interval clock mlimit giveup).

  (* the first call of next() passes the head of the outer loop (`l1` = the counters after it),
     then the machine does what the recursion does; one call per solution plus the last one, and
     engine_fuel fuel = 4 * 2^fuel - 3 loop steps per call always suffice *)
  Theorem engine_run_refines_dfs_lim : forall fuel ps s best l l1 sols b l' why d calls fuel',
    tk 0 l = inl l1 ->
    dlim true fuel 0 ps s best l1 = LStop sols b l' why d ->
    (S (length sols) <= calls)%nat -> (engine_fuel fuel <= fuel')%nat ->
    lres_of (erun calls fuel' (engine_start ps s best l)) = LStop sols b l' why d.
  Proof.
    intros fuel ps s best l l1 sols b l' why d calls fuel' Ht H Hc Hfu.
    destruct (start_finishes true fuel ps s best l1 sols b l' why d H) as [k [e' [Hk [Hf [Hb [Hl Hd]]]]]].
    pose proof (finishes_run _ _ _ _ _ Hf) as Hr.
    destruct calls as [|calls]; [lia|].
    rewrite erun_S. unfold loop_head, engine_start. cbn [stack lst length cur EngineStack.best]. rewrite Ht.
    unfold engine_start in Hr. rewrite Hr by lia. cbn. rewrite Hb, Hl, Hd. reflexivity.
  Qed.

  (* ... unless a limit fires at that very first check *)
  Theorem engine_run_first_check : forall ps s best l w l' calls fuel,
    tk 0 l = inr (w, l') ->
    lres_of (erun (S calls) fuel (engine_start ps s best l)) = LStop [] best l' (SLimit w) 0.
  Proof.
    intros ps s best l w l' calls fuel Ht.
    rewrite erun_S. unfold loop_head, engine_start. cbn [stack lst length cur EngineStack.best]. rewrite Ht.
    reflexivity.
  Qed.

  Theorem engine_first_refines_dfs_lim : forall fuel ps s best l l1 sols b l' why d fuel',
    tk 0 l = inl l1 ->
    dlim false fuel 0 ps s best l1 = LStop sols b l' why d ->
    (engine_fuel fuel <= fuel')%nat ->
    lres_of (efirst fuel' (engine_start ps s best l)) = LStop sols b l' why d.
  Proof.
    intros fuel ps s best l l1 sols b l' why d fuel' Ht H Hfu.
    destruct (start_finishes false fuel ps s best l1 sols b l' why d H) as [k [e' [Hk [Hf [Hb [Hl Hd]]]]]].
    pose proof (finishes_first _ _ _ _ _ Hf) as Hr.
    rewrite efirst_eq. unfold loop_head, engine_start. cbn [stack lst length cur EngineStack.best]. rewrite Ht.
    unfold engine_start in Hr. rewrite Hr by lia. cbn. rewrite Hb, Hl, Hd. reflexivity.
  Qed.

  Theorem engine_first_first_check : forall ps s best l w l' fuel,
    tk 0 l = inr (w, l') ->
    lres_of (efirst fuel (engine_start ps s best l)) = LStop [] best l' (SLimit w) 0.
  Proof.
    intros ps s best l w l' fuel Ht.
    rewrite efirst_eq. unfold loop_head, engine_start. cbn [stack lst length cur EngineStack.best]. rewrite Ht.
    reflexivity.
  Qed.

  (* "whenever neither runs out of fuel": any two terminating runs agree *)
  Theorem engine_run_agrees_dfs_lim : forall fuel calls fuel' ps s best l l1 r,
    tk 0 l = inl l1 ->
    dlim true fuel 0 ps s best l1 <> LFuel ->
    erun calls fuel' (engine_start ps s best l) = r -> r <> RFuel ->
    lres_of r = dlim true fuel 0 ps s best l1.
  Proof.
    intros fuel calls fuel' ps s best l l1 r Ht Hnf Hr Hrn.
    destruct (dlim true fuel 0 ps s best l1) as [|sols b l' why d] eqn:E; [congruence|].
    rewrite <- (engine_run_refines_dfs_lim fuel ps s best l l1 sols b l' why d
                  (Nat.max (S (length sols)) calls) (Nat.max (engine_fuel fuel) fuel') Ht E) by lia.
    f_equal. symmetry. eapply erun_mono; [exact Hr|exact Hrn|lia|lia].
  Qed.

  Theorem engine_first_agrees_dfs_lim : forall fuel fuel' ps s best l l1 r,
    tk 0 l = inl l1 ->
    dlim false fuel 0 ps s best l1 <> LFuel ->
    efirst fuel' (engine_start ps s best l) = r -> r <> RFuel ->
    lres_of r = dlim false fuel 0 ps s best l1.
  Proof.
    intros fuel fuel' ps s best l l1 r Ht Hnf Hr Hrn.
    destruct (dlim false fuel 0 ps s best l1) as [|sols b l' why d] eqn:E; [congruence|].
    rewrite <- (engine_first_refines_dfs_lim fuel ps s best l l1 sols b l' why d
                  (Nat.max (engine_fuel fuel) fuel') Ht E) by lia.
    f_equal. symmetry. eapply efirst_mono; [exact Hr|exact Hrn|lia].
  Qed.

  (* the whole entry point: root propagation + engine, against Limits.search_lim *)
  Theorem engine_search_refines_search_lim : forall resume ps s r,
    search_lim pick m interval clock mlimit giveup resume ps s = r -> r <> inl LFuel ->
    exists calls0 fuel0, forall calls fuel, (calls0 <= calls)%nat -> (fuel0 <= fuel)%nat ->
      engine_search pick m interval clock mlimit giveup resume calls fuel ps s = r.
  Proof.
    intros resume ps s r H Hnf. unfold search_lim in H. unfold engine_search.
    destruct (giveup ps s); [exists 0%nat, 0%nat; intros; exact H|].
    destruct (propagate pick _ ps s _) as [| |s'].
    - exists 0%nat, 0%nat. intros; exact H.
    - congruence.
    - destruct (all_fixed s'); [exists 0%nat, 0%nat; intros; exact H|].
      unfold engine_init.
      destruct (tk 0 (mkl 0 0)) as [l1|[w l']] eqn:Et.
      + destruct (dlim resume (S (total_size s')) 0 ps s' None l1) as [|sols b l' why d] eqn:E;
          [congruence|]. subst r.
        destruct resume.
        * exists (S (length sols)), (engine_fuel (S (total_size s'))). intros calls fuel Hc Hf.
          rewrite (engine_run_refines_dfs_lim _ _ _ _ _ _ _ _ _ _ _ _ _ Et E Hc Hf). reflexivity.
        * exists 0%nat, (engine_fuel (S (total_size s'))). intros calls fuel Hc Hf.
          rewrite (engine_first_refines_dfs_lim _ _ _ _ _ _ _ _ _ _ _ _ Et E Hf). reflexivity.
      + subst r. exists 1%nat, 0%nat. intros calls fuel Hc Hf. destruct resume.
        * destruct calls as [|calls]; [lia|].
          rewrite (engine_run_first_check ps s' None (mkl 0 0) w l' calls fuel Et). reflexivity.
        * rewrite (engine_first_first_check ps s' None (mkl 0 0) w l' fuel Et). reflexivity.
  Qed.
End Stack.

(* ========================================================================================== *)
(* 5. no limits: the machine yields exactly the list of the recursive `dfs` *)

Lemma tick_never_inl : forall interval d l, exists l1, tick interval never None d l = inl l1.
Proof.
  intros interval d l. destruct (tick interval never None d l) as [l1|[w l']] eqn:E.
  - exists l1. reflexivity.
  - exfalso. exact (tick_never _ _ _ _ _ E).
Qed.

Lemma dfs_lim_unlimited : forall pick m interval fuel depth ps s best l all ball,
  dfs pick m fuel ps s best = SOk all ball ->
  exists l', dfs_lim pick m interval never None nogiveup true fuel depth ps s best l
             = LStop all ball l' SExhausted depth.
Proof.
  intros pick m interval fuel depth ps s best l all ball H.
  pose proof (dfs_sim pick m interval never None nogiveup true fuel depth ps s best l) as Hs.
  pose proof (dfs_ok pick m interval never None nogiveup true fuel depth ps s best l) as Hok.
  rewrite H in Hs.
  destruct (dfs_lim pick m interval never None nogiveup true fuel depth ps s best l) as [|sols b l' why d] eqn:E.
  - cbn in Hs. discriminate.
  - destruct why as [|w|].
    + cbn in Hs. injection Hs as <- <-. exists l'.
      pose proof (node_sim pick m interval never None nogiveup true fuel ps s best l (repeat None depth)) as Hn.
      rewrite repeat_length, E in Hn. cbn in Hn. destruct Hn as [-> _].
      rewrite repeat_length. reflexivity.
    + exfalso. exact (ok_never_nolimit _ _ _ _ _ _ _ Hok).
    + cbn in Hok. destruct Hok as [_ Hr]. discriminate.
Qed.

Theorem engine_run_unlimited : forall pick m interval fuel ps s best l all ball calls fuel',
  dfs pick m fuel ps s best = SOk all ball ->
  (S (length all) <= calls)%nat -> (engine_fuel fuel <= fuel')%nat ->
  exists e', engine_run pick m interval never None nogiveup calls fuel' (engine_start ps s best l)
             = RStop all e' SExhausted /\ EngineStack.best e' = ball /\ stack e' = [].
Proof.
  intros pick m interval fuel ps s best l all ball calls fuel' H Hc Hf.
  destruct (tick_never_inl interval 0%nat l) as [l1 Ht].
  destruct (dfs_lim_unlimited pick m interval fuel 0%nat ps s best l1 all ball H) as [l' E].
  pose proof (engine_run_refines_dfs_lim pick m interval never None nogiveup fuel ps s best l l1 _ _ _ _ _
                calls fuel' Ht E Hc Hf) as Hk.
  destruct (engine_run pick m interval never None nogiveup calls fuel' (engine_start ps s best l))
    as [|sols e' why]; [discriminate|].
  cbn in Hk. injection Hk as -> Hb _ -> Hd. exists e'. split; [reflexivity|]. split; [exact Hb|].
  destruct (stack e'); [reflexivity|discriminate].
Qed.

(* the entry point `enumerate` (root propagation, then the engine run to exhaustion) *)
Theorem engine_run_enumerate : forall pick m ps s all ball,
  search pick m ps s = SOk all ball ->
  exists calls0 fuel0, forall calls fuel, (calls0 <= calls)%nat -> (fuel0 <= fuel)%nat ->
    engine_enumerate pick m calls fuel ps s = SOk all ball.
Proof.
  intros pick m ps s all ball H. unfold search in H. unfold engine_enumerate, engine_search.
  destruct (propagate pick _ ps s _) as [| |s'].
  - exists 0%nat, 0%nat. intros; exact H.
  - discriminate.
  - destruct (all_fixed s'); [exists 0%nat, 0%nat; intros; exact H|].
    exists (S (length all)), (engine_fuel (S (total_size s'))). intros calls fuel Hc Hf.
    destruct (engine_run_unlimited pick m 1 _ ps s' None (mkl 0 0) all ball calls fuel H Hc Hf)
      as [e' [E [Hb _]]].
    unfold engine_init. rewrite E. cbn. rewrite Hb. reflexivity.
Qed.

(* conversely, whatever the unlimited machine returns is what `search` returns *)
Theorem engine_enumerate_agrees : forall pick m calls fuel ps s,
  search pick m ps s <> SFuel ->
  engine_enumerate pick m calls fuel ps s <> SFuel ->
  engine_enumerate pick m calls fuel ps s = search pick m ps s.
Proof.
  intros pick m calls fuel ps s Hs He.
  destruct (search pick m ps s) as [|all ball] eqn:E; [congruence|].
  destruct (engine_run_enumerate pick m ps s all ball E) as [c0 [f0 Hk]].
  specialize (Hk (Nat.max c0 calls) (Nat.max f0 fuel) ltac:(lia) ltac:(lia)).
  rewrite <- Hk. clear Hk E.
  unfold engine_enumerate, engine_search in *.
  destruct (propagate pick _ ps s _) as [| |s']; try reflexivity.
  destruct (all_fixed s'); [reflexivity|].
  destruct (engine_run pick m 1 never None nogiveup calls fuel (engine_init ps s')) as [|sols e' why] eqn:Er;
    [cbn in He; congruence|].
  rewrite (erun_mono pick m 1 never None nogiveup calls fuel _ _ Er ltac:(discriminate)
             (Nat.max c0 calls) (Nat.max f0 fuel) ltac:(lia) ltac:(lia)).
  reflexivity.
Qed.
