(* C16: the computations that selen performs by ITERATING a hash container and whose result can
   reach a solver verdict are independent of the iteration order (hash seed). *)
Require Import Selen.Model.Prelude Selen.Model.Dom.
Require Import Selen.Proofs.DomProofs.
Require Import Coq.Sorting.Permutation.

(* gac_bitset.rs Hall-set step: `for &value in &union_values { domain.remove(value) }` *)
Definition remove_each (vs : list Z) (d : list Z) : list Z :=
  fold_left (fun d v => filter (fun x => negb (x =? v)) d) vs d.

Lemma filter_filter : forall (f g : Z -> bool) l,
  filter f (filter g l) = filter (fun x => g x && f x) l.
Proof.
  intros f g l. induction l as [|x l IH]; cbn [filter]; [reflexivity|].
  destruct (g x); cbn [filter andb]; [destruct (f x); rewrite IH; reflexivity | exact IH].
Qed.

Lemma remove_each_filter : forall vs d,
  remove_each vs d = filter (fun x => negb (memZ x vs)) d.
Proof.
  unfold remove_each. induction vs as [|v vs IH]; intros d; cbn [fold_left].
  - induction d as [|x d IHd]; cbn; [reflexivity|]. f_equal. exact IHd.
  - rewrite IH, filter_filter. apply filter_ext. intros x. unfold memZ. cbn [existsb].
    destruct (x =? v); cbn; reflexivity.
Qed.

Lemma memZ_perm : forall vs vs' x, Permutation vs vs' -> memZ x vs = memZ x vs'.
Proof.
  intros vs vs' x P. unfold memZ. induction P as [| a l l' P IH | a b l | l l' l'' P1 IH1 P2 IH2]; cbn [existsb].
  - reflexivity.
  - rewrite IH. reflexivity.
  - destruct (x =? a), (x =? b); reflexivity.
  - congruence.
Qed.

Lemma removal_order_irrelevant : forall vs vs' d,
  Permutation vs vs' -> remove_each vs d = remove_each vs' d.
Proof.
  intros vs vs' d P. rewrite !remove_each_filter. apply filter_ext. intros x.
  rewrite (memZ_perm vs vs' x P). reflexivity.
Qed.

(* gac_hybrid.rs union of two domains: `result_set.into_iter().collect()` then sort+dedup
   (new_from_values); constraint_metadata.rs: ids collected from `keys()` then sorted *)
Lemma collect_sort_order_irrelevant : forall l l', Permutation l l' -> zsort l = zsort l'.
Proof.
  intros l l' P. apply sorted_ext.
  - apply zsort_sorted.
  - apply zsort_sorted.
  - intros x. rewrite !zsort_In. split; intros H.
    + eapply Permutation_in; eauto.
    + eapply Permutation_in; [apply Permutation_sym; eauto | eauto].
Qed.

(* core/validation.rs validate_constraint_conflicts: the loop over the HashMap has no effect and
   no early exit, so its verdict is the constant Ok whatever the order: modelled as a fold whose
   step function ignores its input *)
Lemma effect_free_loop : forall (A S : Type) (l l' : list A) (s : S),
  fold_left (fun st _ => st) l s = fold_left (fun st _ => st) l' s.
Proof.
  intros A S l l' s. assert (H : forall (k : list A), fold_left (fun (st : S) (_ : A) => st) k s = s).
  { induction k as [|a k IH]; cbn; auto. }
  rewrite !H. reflexivity.
Qed.
