(* Proofs about the repaired root LP step (Model/LpRoot.v): whatever store the LP oracle proposes, trying it first and
   falling back to the root when it yields nothing keeps every answer of minimize / maximize a solution of the model, keeps
   "no solution" exact, and reduces optimality to the one thing the LP is used for (its bound).  Stdlib only, no axioms;
   the three contracts about the propagators the engine posts are section hypotheses as in Proofs/EngineProofs.v. *)
Require Import Selen.Model.Prelude Selen.Model.Dom Selen.Model.Views Selen.Model.PropDefs.
Require Import Selen.Model.Props.Basic Selen.Model.Propagate Selen.Model.Search Selen.Model.EngineSpec Selen.Model.LpRoot.
Require Import Selen.Proofs.EngineProofs.

(* the literal two-phase definition is the plain search on the vertex store, then (only when that yields nothing) on the root *)
Lemma search_lp_compact : forall pick m s_lp ps s,
  search_lp pick m (Some s_lp) ps s =
  match search pick m ps s_lp with
  | SFuel => SFuel
  | SOk [] _ => search pick m ps s
  | SOk sols best => SOk sols best
  end.
Proof.
  intros pick m s_lp ps s. unfold search_lp. unfold search at 3.
  destruct (propagate pick _ ps s_lp _) as [| |s']; try reflexivity.
  destruct (all_fixed s'); [reflexivity|].
  destruct (dfs pick m _ ps s' None) as [|[|t0 r] best]; reflexivity.
Qed.

Lemma minimize_lp_none : forall pick obj ps s, minimize_lp pick None obj ps s = minimize pick obj ps s.
Proof. reflexivity. Qed.

(* minimize with a tentative vertex, by what minimize answers on the vertex store *)
Lemma minimize_lp_cases : forall pick s_lp obj ps s,
  minimize_lp pick (Some s_lp) obj ps s =
  match minimize pick obj ps s_lp with
  | None => None
  | Some None => minimize pick obj ps s
  | Some (Some t) => Some (Some t)
  end.
Proof.
  intros pick s_lp obj ps s. unfold minimize_lp, minimize. rewrite search_lp_compact.
  destruct (search pick (Some obj) ps s_lp) as [|sols best]; [reflexivity|].
  destruct sols as [|t0 r]; [reflexivity|].
  destruct (last (map Some (t0 :: r)) None) as [t|] eqn:E; [reflexivity|].
  apply last_none_nil in E. discriminate.
Qed.

Section LpRoot.
  Hypothesis leq_good : forall x y, view_ok x -> view_ok y -> good (mk_leq x y).
  Hypothesis gt_good  : forall x y, view_ok x -> view_ok y -> good (mk_gt x y).
  Hypothesis lt_good  : forall x y, view_ok x -> view_ok y -> good (mk_lt x y).

  Let min_sat := minimize_sat1 leq_good gt_good lt_good.
  Let min_opt := minimize_optimal leq_good gt_good lt_good.
  Let min_iff := minimize_ok_iff_sat leq_good gt_good lt_good.

  Lemma sol_sub : forall ps s' s a, sub_store s' s -> sol ps s' a -> sol ps s a.
  Proof. intros ps s' s a Hsub [Hi Hs]. split; [eapply inst_sub; eassumption|exact Hs]. Qed.

  (* (c) nothing below the vertex: the answer is that of the plain search on the root *)
  Theorem lp_fallback_is_plain : forall pick s_lp obj ps s,
    minimize pick obj ps s_lp = Some None ->
    minimize_lp pick (Some s_lp) obj ps s = minimize pick obj ps s.
  Proof. intros pick s_lp obj ps s H. rewrite minimize_lp_cases, H. reflexivity. Qed.

  (* a solution below the vertex is what is answered *)
  Theorem lp_first_phase_answer : forall pick s_lp obj ps s t,
    minimize pick obj ps s_lp = Some (Some t) ->
    minimize_lp pick (Some s_lp) obj ps s = Some (Some t).
  Proof. intros pick s_lp obj ps s t H. rewrite minimize_lp_cases, H. reflexivity. Qed.

  (* (a) every answer is a solution of the model, for every oracle answer *)
  Theorem minimize_lp_result_satisfies : forall pick vertex obj ps s t,
    Forall good ps -> scoped ps (length s) -> wf_store s -> view_ok obj -> vertex_ok vertex s ->
    minimize_lp pick vertex obj ps s = Some (Some t) ->
    all_fixed t = true /\ sub_store t s /\ sol ps s (asg_of t).
  Proof using leq_good gt_good lt_good.
    intros pick [s_lp|] obj ps s t Hg Hsc Hwf Hv Hvx H.
    - destruct Hvx as [Hsub Hwfl]. rewrite minimize_lp_cases in H.
      destruct (minimize pick obj ps s_lp) as [[t1|]|] eqn:E; [|eapply min_sat; eassumption|discriminate].
      injection H as <-.
      assert (Hsc' : scoped ps (length s_lp)) by (rewrite (sub_store_length _ _ Hsub); exact Hsc).
      destruct (min_sat pick obj ps s_lp t1 Hg Hsc' Hwfl Hv E) as [A [B C]].
      split; [exact A|]. split; [eapply sub_store_trans; eassumption|eapply sol_sub; eassumption].
    - eapply min_sat; eassumption.
  Qed.

  (* "no solution" is exact and the search terminates, for every oracle answer: the LP cannot make a satisfiable model
     unsatisfiable any more (this is what finding D10 violated) *)
  Theorem minimize_lp_ok_iff_sat : forall pick vertex obj ps s,
    Forall good ps -> scoped ps (length s) -> wf_store s -> view_ok obj -> vertex_ok vertex s ->
    (minimize_lp pick vertex obj ps s = Some None <-> forall a, ~ sol ps s a) /\ minimize_lp pick vertex obj ps s <> None.
  Proof using leq_good gt_good lt_good.
    intros pick [s_lp|] obj ps s Hg Hsc Hwf Hv Hvx; [|apply min_iff; assumption].
    destruct Hvx as [Hsub Hwfl]. rewrite minimize_lp_cases.
    assert (Hsc' : scoped ps (length s_lp)) by (rewrite (sub_store_length _ _ Hsub); exact Hsc).
    destruct (min_iff pick obj ps s_lp Hg Hsc' Hwfl Hv) as [_ Hne].
    destruct (minimize pick obj ps s_lp) as [[t1|]|] eqn:E; [|apply min_iff; assumption|congruence].
    split; [|discriminate]. split; [discriminate|]. intros Hno. exfalso.
    destruct (min_sat pick obj ps s_lp t1 Hg Hsc' Hwfl Hv E) as [_ [_ C]].
    exact (Hno _ (sol_sub _ _ _ _ Hsub C)).
  Qed.

  (* the one place where the LP is trusted: a solution found below the vertex is answered without looking further.
     `lp_bound_attained`: this hypothesis of minimize_lp_optimal follows from "b is a valid bound of the model and no point of
     the vertex store exceeds it" (the vertex fixes the objective variable to the LP optimum b) *)
  Definition first_phase_optimal (pick : sched) (vertex : option store) (obj : view) (ps : list prop) (s : store) : Prop :=
    forall s_lp t1, vertex = Some s_lp -> minimize pick obj ps s_lp = Some (Some t1) ->
    forall a, sol ps s a -> vsem obj (asg_of t1) <= vsem obj a.

  Lemma lp_bound_attained : forall pick s_lp obj ps s b,
    Forall good ps -> scoped ps (length s) -> view_ok obj -> sub_store s_lp s -> wf_store s_lp ->
    (forall a, sol ps s a -> b <= vsem obj a) ->          (* the LP bound is valid for the model *)
    (forall a, inst a s_lp -> vsem obj a <= b) ->         (* the vertex store holds the objective at (or below) the bound *)
    first_phase_optimal pick (Some s_lp) obj ps s.
  Proof using leq_good gt_good lt_good.
    intros pick s_lp obj ps s b Hg Hsc Hv Hsub Hwfl Hb Hat s0 t1 E0 E a Ha. injection E0 as <-.
    assert (Hsc' : scoped ps (length s_lp)) by (rewrite (sub_store_length _ _ Hsub); exact Hsc).
    destruct (min_sat pick obj ps s_lp t1 Hg Hsc' Hwfl Hv E) as [_ [_ [Hi _]]].
    specialize (Hat _ Hi). specialize (Hb _ Ha). lia.
  Qed.

  Theorem minimize_lp_optimal : forall pick vertex obj ps s t,
    Forall good ps -> scoped ps (length s) -> wf_store s -> view_ok obj ->
    (forall x, uvar obj = Some x -> (x < length s)%nat) ->
    vertex_ok vertex s -> first_phase_optimal pick vertex obj ps s ->
    minimize_lp pick vertex obj ps s = Some (Some t) ->
    sol ps s (asg_of t) /\ forall a, sol ps s a -> vsem obj (asg_of t) <= vsem obj a.
  Proof using leq_good gt_good lt_good.
    intros pick vertex obj ps s t Hg Hsc Hwf Hv Hvs Hvx Hfo H.
    split; [eapply minimize_lp_result_satisfies; eassumption|].
    destruct vertex as [s_lp|]; [|apply (min_opt pick obj ps s t); assumption].
    rewrite minimize_lp_cases in H.
    destruct (minimize pick obj ps s_lp) as [[t1|]|] eqn:E; [|apply (min_opt pick obj ps s t); assumption|discriminate].
    injection H as <-. exact (Hfo s_lp t1 eq_refl E).
  Qed.

  (* the three clauses together *)
  Theorem lp_tentative_sound : forall pick vertex obj ps s t,
    Forall good ps -> scoped ps (length s) -> wf_store s -> view_ok obj ->
    (forall x, uvar obj = Some x -> (x < length s)%nat) ->
    vertex_ok vertex s ->
    minimize_lp pick vertex obj ps s = Some (Some t) ->
    (* a *) sol ps s (asg_of t) /\
    (* b *) (forall s_lp b, vertex = Some s_lp -> minimize pick obj ps s_lp = Some (Some t) ->
             (forall a, sol ps s a -> b <= vsem obj a) -> vsem obj (asg_of t) <= b ->
             forall a, sol ps s a -> vsem obj (asg_of t) <= vsem obj a) /\
    (* c *) ((vertex = None \/ exists s_lp, vertex = Some s_lp /\ minimize pick obj ps s_lp = Some None) ->
             minimize pick obj ps s = Some (Some t) /\ forall a, sol ps s a -> vsem obj (asg_of t) <= vsem obj a).
  Proof using leq_good gt_good lt_good.
    intros pick vertex obj ps s t Hg Hsc Hwf Hv Hvs Hvx H.
    split; [eapply minimize_lp_result_satisfies; eassumption|]. split.
    - intros s_lp b _ _ Hb Hat a Ha. specialize (Hb _ Ha). lia.
    - intros Hc. assert (Hm : minimize pick obj ps s = Some (Some t)).
      { destruct Hc as [->|[s_lp [-> E]]]; [exact H|]. rewrite (lp_fallback_is_plain _ _ _ _ _ E) in H. exact H. }
      split; [exact Hm|]. apply (min_opt pick obj ps s t); assumption.
  Qed.

  Theorem maximize_lp_optimal : forall pick vertex obj ps s t,
    Forall good ps -> scoped ps (length s) -> wf_store s -> view_ok obj ->
    (forall x, uvar obj = Some x -> (x < length s)%nat) ->
    vertex_ok vertex s -> first_phase_optimal pick vertex (VOpp obj) ps s ->
    maximize_lp pick vertex obj ps s = Some (Some t) ->
    sol ps s (asg_of t) /\ forall a, sol ps s a -> vsem obj a <= vsem obj (asg_of t).
  Proof using leq_good gt_good lt_good.
    intros pick vertex obj ps s t Hg Hsc Hwf Hv Hvs Hvx Hfo H. unfold maximize_lp in H.
    destruct (minimize_lp_optimal pick vertex (VOpp obj) ps s t Hg Hsc Hwf Hv Hvs Hvx Hfo H) as [A B].
    split; [exact A|]. intros a Ha. specialize (B a Ha). cbn [vsem] in B. lia.
  Qed.
End LpRoot.
