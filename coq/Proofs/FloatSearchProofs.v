(* C07 stage 1: a robust witness is never lost by the float / mixed propagation loop and bisection search
   (Model/FloatSearch.v).  Part A is purely structural (no float reasoning): the lift from a per-propagator contract
   to the propagation loop and to the depth-first search.  Part B instantiates it with the witness invariant. *)
From Coq Require Import ZArith Bool List Lia Reals Lra.
Import ListNotations.
From Flocq Require Import Core.Core IEEE754.BinarySingleNaN IEEE754.Binary IEEE754.Bits.
Require Import Selen.Generated.Consts Selen.Model.Prelude Selen.Model.Dom Selen.Model.Propagate.
Require Import Selen.Model.B64 Selen.Model.FloatInterval Selen.Model.CtxFloat Selen.Model.FloatStore Selen.Model.FloatProps Selen.Model.FloatSearch.
Require Import Selen.Proofs.DomProofs Selen.Proofs.B64Facts Selen.Proofs.FloatIntervalProofs Selen.Proofs.FloatPropsProofs.

(* ================================================================ Part A: structural lift *)

(* agenda entries are PropIds of the current propagator list *)
Definition qvalid (n : nat) (q : list nat) : Prop := Forall (fun p => (p < n)%nat) q.

Lemma schedule_valid : forall n q p, qvalid n q -> (p < n)%nat -> qvalid n (schedule q p).
Proof. intros n q p Hq Hp. unfold schedule. destruct (memn p q); auto. apply Forall_app; split; auto. Qed.
Lemma fold_schedule_valid : forall n l q, qvalid n q -> Forall (fun p => (p < n)%nat) l -> qvalid n (fold_left schedule l q).
Proof. induction l as [|p l IH]; simpl; intros q Hq Hl; auto. inversion Hl; subst. apply IH; auto. apply schedule_valid; auto. Qed.
Lemma agenda_with_valid : forall n l, Forall (fun p => (p < n)%nat) l -> qvalid n (agenda_with l).
Proof. intros. unfold agenda_with. apply fold_schedule_valid; auto. constructor. Qed.
Lemma fdeps_from_valid : forall ps i v, Forall (fun p => (p < i + length ps)%nat) (fdeps_from ps i v).
Proof. induction ps as [|p ps IH]; intros i v; simpl. constructor.
  apply Forall_app; split.
  - apply Forall_forall. intros x Hx. apply in_map_iff in Hx. destruct Hx as (y & <- & _). lia.
  - eapply Forall_impl; [|apply (IH (S i) v)]. simpl. intros; lia. Qed.
Lemma fdeps_valid : forall ps v, Forall (fun p => (p < length ps)%nat) (fdeps ps v).
Proof. intros. apply (fdeps_from_valid ps 0 v). Qed.
Lemma fschedule_events_valid : forall ps ev q, qvalid (length ps) q -> qvalid (length ps) (fschedule_events ps q ev).
Proof. intros ps ev. unfold fschedule_events. induction ev as [|v ev IH]; simpl; intros q Hq; auto.
  apply IH. apply fold_schedule_valid; auto. apply fdeps_valid. Qed.
Lemma seq_valid : forall a n m, (a + n <= m)%nat -> Forall (fun p => (p < m)%nat) (seq a n).
Proof. intros a n; revert a. induction n; simpl; intros; constructor. lia. apply IHn. lia. Qed.

(* a propagator never fails on a store satisfying P and re-establishes P (run as the engine runs it: empty event list) *)
Definition keeps (P : fstore -> Prop) (p : fprop) : Prop :=
  forall s, P s -> exists s' ev, fprune p (s, []) = Some (s', ev) /\ P s'.

(* (a) the propagation loop: from a store satisfying P, with propagators that all keep P, whatever the initial agenda (any
   list of valid PropIds, in any order) and whatever the fuel, the loop never fails, and a completed run ends in P *)
Lemma fpropagate_keeps : forall (P : fstore -> Prop) ps, (forall p, In p ps -> keeps P p) ->
  forall pf s q, qvalid (length ps) q -> P s ->
  match fpropagate pf ps s q with
  | (FPFail, _) => False
  | (FPFuel, _) => True
  | (FPDone s', _) => P s'
  end.
Proof. intros P ps Hk. induction pf as [|f IH]; intros s q Hq Hs; destruct q as [|p q']; simpl; auto.
  inversion Hq; subst.
  destruct (nth_error ps p) as [pr|] eqn:En.
  2:{ apply nth_error_None in En. lia. }
  destruct (Hk pr (nth_error_In _ _ En) s Hs) as (s' & ev & E & Hs'). rewrite E.
  apply IH; auto. apply fschedule_events_valid; auto. Qed.

(* NoSolution = the search ended normally (not on fuel / budget / maxsols) without any solution *)
Definition nosol (r : fsres) : Prop := fs_sols r = [] /\ fs_stop r = Running.

Section Lift.
  (* Good s ps: the invariant of the search, on the current store AND the current propagator list (which grows with every
     branch).  Two hypotheses:
       HP  every propagator of the list keeps Good (with the same list);
       HS  on an unassigned Good store the pivot and its mid exist, and for at least one of the two children the branch
           propagator succeeds on its first run and Good holds afterwards with the branch propagator appended. *)
  Variable Good : fstore -> list fprop -> Prop.
  Definition child_ok (s : fstore) (ps : list fprop) (b : fprop) : Prop :=
    exists s1 ev, fprune b (s, []) = Some (s1, ev) /\ Good s1 (ps ++ [b]).
  Hypothesis HP : forall s ps p, Good s ps -> In p ps -> exists s' ev, fprune p (s, []) = Some (s', ev) /\ Good s' ps.
  Hypothesis HS : forall s ps, Good s ps -> fall_assigned s = false ->
    exists pivot mid, ffirst_unassigned s 0 = Some pivot /\ var_mid (fget s pivot) = Some mid /\
      (child_ok s ps (mk_fleq (FVar pivot) (FConst mid)) \/ child_ok s ps (mk_fgt (FVar pivot) (FConst mid))).
  Variable maxsols : nat.

  Lemma good_propagate : forall ps pf s q, qvalid (length ps) q -> Good s ps ->
    match fpropagate pf ps s q with (FPFail, _) => False | (FPFuel, _) => True | (FPDone s', _) => Good s' ps end.
  Proof. intros ps pf s q Hq Hg.
    apply (fpropagate_keeps (fun s => Good s ps) ps); auto.
    intros p Hin s0 Hs0. apply HP; auto. Qed.

  (* the result of one child of a split, as fdfs computes it in Enumerate mode (no mode propagators) *)
  Definition child_res (f : nat) (ps : list fprop) (s : fstore) (bp : fprop) (bst : option fval) (bud ns : nat) : fsres :=
    match bud with
    | O => mkfsres [] bst O StopFuel
    | S budget' =>
      match fpropagate budget' ((ps ++ [bp]) ++ []) s (agenda_with (seq (S (length ps)) 0 ++ [length ps])) with
      | (FPFuel, _) => mkfsres [] bst O StopFuel
      | (FPFail, lft) => mkfsres [] bst lft Running
      | (FPDone s', lft) =>
        if fall_assigned s' then mkfsres [fsolution s'] (fon_solution None bst s') lft (if Nat.leb maxsols (S ns) then StopMore else Running)
        else fdfs None maxsols f ((ps ++ [bp]) ++ []) s' bst lft ns
      end
    end.

  Lemma fdfs_unfold : forall f ps s best budget nsol,
    fdfs None maxsols (S f) ps s best budget nsol =
    match ffirst_unassigned s 0 with
    | None => mkfsres [] best budget Running
    | Some pivot =>
      match var_mid (fget s pivot) with
      | None => mkfsres [] best budget StopPanic
      | Some mid =>
        let r1 := child_res f ps s (mk_fleq (FVar pivot) (FConst mid)) best budget nsol in
        match fs_stop r1 with
        | Running =>
          let r2 := child_res f ps s (mk_fgt (FVar pivot) (FConst mid)) (fs_best r1) (fs_budget r1) (nsol + length (fs_sols r1))%nat in
          mkfsres (fs_sols r1 ++ fs_sols r2) (fs_best r2) (fs_budget r2) (fs_stop r2)
        | _ => r1
        end
      end
    end.
  Proof. reflexivity. Qed.

  (* (c), structural form: on a Good, not yet assigned store the depth-first search never answers NoSolution *)
  Lemma fdfs_not_nosol : forall fuel ps s best budget nsol, Good s ps -> fall_assigned s = false ->
    ~ nosol (fdfs None maxsols fuel ps s best budget nsol).
  Proof. induction fuel as [|f IH]; intros ps s best budget nsol Hg Hna.
    - simpl. intros [_ H]. discriminate.
    - rewrite fdfs_unfold.
      destruct (HS s ps Hg Hna) as (pivot & mid & -> & -> & Hch).
      assert (CH : forall bp bst bud ns, child_ok s ps bp -> ~ nosol (child_res f ps s bp bst bud ns)).
      { intros bp bst bud ns (s1 & ev & E1 & G1). unfold child_res. destruct bud as [|b']. { intros [_ H]; discriminate. }
        rewrite app_nil_r. simpl seq. simpl app. unfold agenda_with. simpl fold_left.
        destruct b' as [|b'']. { simpl. intros [_ H]; discriminate. }
        simpl fpropagate. rewrite nth_error_app2 by lia. rewrite Nat.sub_diag. simpl nth_error. cbv beta iota. rewrite E1.
        assert (Hq : qvalid (length (ps ++ [bp])) (fschedule_events (ps ++ [bp]) [] ev)).
        { apply fschedule_events_valid. constructor. }
        pose proof (good_propagate (ps ++ [bp]) b'' s1 _ Hq G1) as HG.
        destruct (fpropagate b'' (ps ++ [bp]) s1 (fschedule_events (ps ++ [bp]) [] ev)) as [[| |s2] lft]; try contradiction.
        - intros [_ H]; discriminate.
        - destruct (fall_assigned s2) eqn:EA. { intros [H _]; discriminate. }
          apply IH; auto. }
      simpl. destruct Hch as [Hl|Hr].
      + specialize (CH _ best budget nsol Hl).
        set (r1 := child_res f ps s (mk_fleq (FVar pivot) (FConst mid)) best budget nsol) in *.
        destruct (fs_stop r1) eqn:E1; auto.
        intros [Hs _]. simpl in Hs. apply app_eq_nil in Hs. destruct Hs as [Hs1 _]. apply CH. split; auto.
      + set (r1 := child_res f ps s (mk_fleq (FVar pivot) (FConst mid)) best budget nsol) in *.
        destruct (fs_stop r1) eqn:E1; try (intros [_ H]; congruence).
        specialize (CH _ (fs_best r1) (fs_budget r1) (nsol + length (fs_sols r1))%nat Hr).
        intros [Hs Hst]. simpl in Hs, Hst. apply app_eq_nil in Hs. destruct Hs as [_ Hs2]. apply CH. split; auto. Qed.

  Theorem fsearch_not_nosol : forall fuel budget ps s, Good s ps -> ~ nosol (fsearch None maxsols fuel budget ps s).
  Proof. intros fuel budget ps s Hg. unfold fsearch.
    assert (Hq : qvalid (length ps) (agenda_with (seq 0 (length ps)))). { apply agenda_with_valid. apply seq_valid. lia. }
    pose proof (good_propagate ps budget s _ Hq Hg) as HG.
    destruct (fpropagate budget ps s (agenda_with (seq 0 (length ps)))) as [[| |s'] lft]; try contradiction.
    - intros [_ H]; discriminate.
    - destruct (fall_assigned s') eqn:EA. { intros [H _]; discriminate. }
      apply fdfs_not_nosol; auto. Qed.
End Lift.

(* ================================================================ Part B: the witness invariant *)
Open Scope R_scope.

(* no widening between stores: same length, same kind of variable, int domains shrink, float bounds move inwards, step kept *)
Definition sle_var (x' x : fvar) : Prop :=
  match x', x with
  | VI d', VI d => incl d' d
  | VF i', VF i => istep i' = istep i /\ R_ (imin i) <= R_ (imin i') /\ R_ (imax i') <= R_ (imax i)
  | _, _ => False
  end.
Definition sle (s' s : fstore) : Prop := length s' = length s /\ forall v, sle_var (fget s' v) (fget s v).
Lemma sle_var_refl : forall x, sle_var x x.
Proof. destruct x; simpl. apply incl_refl. repeat split; lra. Qed.
Lemma sle_var_trans : forall a b c, sle_var a b -> sle_var b c -> sle_var a c.
Proof. destruct a, b, c; simpl; try tauto. apply incl_tran.
  intros (A & B & C) (D & E & F). repeat split; try congruence; lra. Qed.
Lemma sle_refl : forall s, sle s s.
Proof. split; auto using sle_var_refl. Qed.
Lemma sle_trans : forall a b c, sle a b -> sle b c -> sle a c.
Proof. intros a b c [L1 H1] [L2 H2]. split. congruence. intro v. eapply sle_var_trans; eauto. Qed.
Lemma fupd_same_id : forall s v, fupd s v (fget s v) = s.
Proof. unfold fget. induction s as [|x s IH]; destruct v; simpl; auto. f_equal. apply IH. Qed.
Lemma sle_fupd : forall s v x, (v < length s)%nat -> sle_var x (fget s v) -> sle (fupd s v x) s.
Proof. intros s v x Hv H. split. apply fupd_length. intro u. destruct (Nat.eq_dec v u) as [->|N].
  - rewrite fget_fupd_same; auto. - rewrite fget_fupd_other; auto. apply sle_var_refl. Qed.

Section Witness.
  Variable T : R.                      (* tolerance of the invariant, in steps of the variable *)
  Hypothesis T_big : 201/100 <= T.
  Variable w : nat -> R.               (* the witness point *)

  (* the store "contains" w: an integer variable's (well-formed) domain contains w_v exactly; a float variable's (well-formed)
     interval contains w_v up to T steps -- the slack is needed because the two children of a bisection quantise the split
     point to floor(mid/step)*step and ceil(mid/step)*step: a witness strictly between the two is in neither child exactly *)
  Definition near_var (x : fvar) (r : R) : Prop :=
    match x with
    | VF i => wf i /\ R_ (imin i) - T * R_ (istep i) <= r <= R_ (imax i) + T * R_ (istep i)
    | VI d => wf_dom d /\ exists z, In z d /\ r = IZR z
    end.
  Definition near (s : fstore) : Prop := forall v, (v < length s)%nat -> near_var (fget s v) (w v).

  (* the per-propagator contract, relative to a base store: on every store below the base that contains w the propagator
     succeeds, keeps w, and does not widen *)
  Definition wsafe_below (base : fstore) (p : fprop) : Prop :=
    forall s, sle s base -> near s -> exists s' ev, fprune p (s, []) = Some (s', ev) /\ near s' /\ sle s' s.
  Lemma wsafe_below_mono : forall b b' p, sle b' b -> wsafe_below b p -> wsafe_below b' p.
  Proof. intros b b' p Hle H s Hs Hn. apply H; auto. eapply sle_trans; eauto. Qed.

  Lemma near_fupd : forall s v x, near s -> near_var x (w v) -> near (fupd s v x).
  Proof. intros s v x Hn Hx u Hu. rewrite fupd_length in Hu. destruct (Nat.eq_dec v u) as [->|N].
    - rewrite fget_fupd_same; auto. - rewrite fget_fupd_other; auto. Qed.

  (* ---------------------------------------------------------------- pivots *)
  Lemma ffirst_unassigned_spec : forall s k p, ffirst_unassigned s k = Some p ->
    (k <= p)%nat /\ (p - k < length s)%nat /\ var_assigned (fget s (p - k)) = false.
  Proof. induction s as [|x s IH]; simpl; intros k p H. discriminate.
    destruct (var_assigned x) eqn:E.
    - destruct (IH _ _ H) as (A & B & C). split. lia. split. lia.
      replace (p - k)%nat with (S (p - S k)) by lia. exact C.
    - inversion H; subst. rewrite Nat.sub_diag. split. lia. split. lia. exact E. Qed.
  Lemma ffirst_unassigned_some : forall s k, forallb var_assigned s = false -> exists p, ffirst_unassigned s k = Some p.
  Proof. induction s as [|x s IH]; simpl; intros k H. discriminate.
    destruct (var_assigned x); simpl in H; eauto. Qed.

  (* ---------------------------------------------------------------- integer pivot *)
  Lemma int_mid_between : forall d, wf_dom d -> dfixed d = false ->
    (dmin d <= dmin d + tdiv (dmax d - dmin d) 2 < dmax d)%Z /\ (dmin d =? dmax d)%Z = false /\ dempty d = false.
  Proof. intros d W F. assert (L := dmin_le_dmax d W).
    assert (N : dmin d <> dmax d).
    { intro E. apply (dfixed_min_max d W) in E. congruence. }
    split; [|split].
    - unfold tdiv. assert (0 < dmax d - dmin d)%Z by lia.
      assert (0 <= Z.quot (dmax d - dmin d) 2 < dmax d - dmin d)%Z.
      { rewrite Z.quot_div_nonneg by lia. split. apply Z.div_pos; lia. apply Z.div_lt; lia. }
      lia.
    - apply Z.eqb_neq; auto.
    - destruct W as [Hne _]. destruct d; simpl; congruence. Qed.

  Definition left_prop (p : nat) (mid : fval) : fprop := mk_fleq (FVar p) (FConst mid).
  Definition right_prop (p : nat) (mid : fval) : fprop := mk_fgt (FVar p) (FConst mid).

  (* a store below one in which variable p is the integer domain d *)
  Lemma sle_int : forall s2 s1 p d, sle s2 s1 -> fget s1 p = VI d -> exists d2, fget s2 p = VI d2 /\ incl d2 d.
  Proof. intros s2 s1 p d [_ H] E. specialize (H p). rewrite E in H. destruct (fget s2 p); simpl in H; try tauto. eauto. Qed.
  Lemma sle_float : forall s2 s1 p i, sle s2 s1 -> fget s1 p = VF i ->
    exists i2, fget s2 p = VF i2 /\ istep i2 = istep i /\ R_ (imin i) <= R_ (imin i2) /\ R_ (imax i2) <= R_ (imax i).
  Proof. intros s2 s1 p i [_ H] E. specialize (H p). rewrite E in H. destruct (fget s2 p); simpl in H; try tauto. eauto. Qed.

  (* an INTEGER constant: LessThanOrEquals keeps its two setter calls *)
  Lemma prune_fleq_int_const_r : forall x m c, prune_fleq x (FConst (VlI m)) c = prune_fleq_plain x (FConst (VlI m)) c.
  Proof. intros. unfold prune_fleq, fv_float_const, fv_float_var. cbn [fv_is_float andb]. rewrite andb_false_r. reflexivity. Qed.
  Lemma prune_fleq_int_const_l : forall y m c, prune_fleq (FConst (VlI m)) y c = prune_fleq_plain (FConst (VlI m)) y c.
  Proof. intros. unfold prune_fleq, fv_float_const, fv_float_var. cbn [fv_is_float andb]. rewrite andb_false_r. reflexivity. Qed.

  Lemma int_left_child : forall s p d mid, near s -> (p < length s)%nat -> fget s p = VI d -> wf_dom d ->
    (dmin d <= mid < dmax d)%Z -> (exists z, In z d /\ w p = IZR z /\ (z <= mid)%Z) ->
    exists s1 ev, fprune (left_prop p (VlI mid)) (s, []) = Some (s1, ev) /\ near s1 /\ sle s1 s /\ wsafe_below s1 (left_prop p (VlI mid)).
  Proof. intros s p d mid Hn Hp Hg W Hm (z & Hz & Hw & Hzm).
    assert (Hne : dabove mid d <> []).
    { intro E. apply (dabove_nil_iff mid d W) in E. lia. }
    assert (W' : wf_dom (dabove mid d)) by (apply wf_dom_dabove; auto).
    exists (fupd s p (VI (dabove mid d))), [p].
    assert (E1 : fprune (left_prop p (VlI mid)) (s, []) = Some (fupd s p (VI (dabove mid d)), [p])).
    { cbv beta iota delta [left_prop mk_fleq mk_fgeq fprune]. rewrite ?prune_fleq_int_const_r, ?prune_fleq_int_const_l. unfold prune_fleq_plain. simpl. unfold xset_max. simpl. rewrite Hg. simpl. unfold dset_max.
      destruct W as [Wne Ws]. destruct d as [|d0 dr] eqn:Ed; [congruence|]. rewrite <- Ed in *.
      replace (dempty d) with false by (rewrite Ed; reflexivity).
      replace (mid <? dmin d)%Z with false by (symmetry; apply Z.ltb_ge; lia).
      replace (mid <? dmax d)%Z with true by (symmetry; apply Z.ltb_lt; lia).
      replace (dempty (dabove mid d)) with false by (destruct (dabove mid d); simpl; congruence).
      simpl. rewrite fget_fupd_same by auto. simpl.
      assert (dmin (dabove mid d) <= mid)%Z.
      { assert (In (dmin (dabove mid d)) (dabove mid d)) by (apply dmin_In; auto). apply dabove_In in H. tauto. }
      replace (dmin (dabove mid d) <=? mid)%Z with true by (symmetry; apply Z.leb_le; auto). reflexivity. }
    split; [exact E1|]. split; [|split].
    - apply near_fupd; auto. simpl. split; auto. exists z. split; auto. apply dabove_In. split; auto.
    - apply sle_fupd; auto. rewrite Hg. simpl. intros x Hx. apply dabove_In in Hx. tauto.
    - intros s2 Hle Hn2.
      assert (Hl2 : length s2 = length s). { destruct Hle as [L _]. rewrite L. apply fupd_length. }
      destruct (sle_int s2 _ p (dabove mid d) Hle) as (d2 & Hg2 & Hin). { rewrite fget_fupd_same; auto. }
      assert (Hp2 : (p < length s2)%nat) by lia.
      specialize (Hn2 p Hp2) as Hnp. rewrite Hg2 in Hnp. simpl in Hnp. destruct Hnp as (W2 & _).
      assert (Hmax : (dmax d2 <= mid)%Z).
      { assert (In (dmax d2) d2) by (apply dmax_In; apply W2). apply Hin in H. apply dabove_In in H. tauto. }
      assert (Hmin : (dmin d2 <= mid)%Z) by (generalize (dmin_le_dmax d2 W2); lia).
      exists s2, []. split; [|split; auto using sle_refl].
      cbv beta iota delta [left_prop mk_fleq mk_fgeq fprune]. rewrite ?prune_fleq_int_const_r, ?prune_fleq_int_const_l. unfold prune_fleq_plain. simpl. unfold xset_max. simpl. rewrite Hg2. simpl. unfold dset_max.
      destruct W2 as [Wne2 Ws2]. replace (dempty d2) with false by (destruct d2; simpl; congruence).
      replace (mid <? dmin d2)%Z with false by (symmetry; apply Z.ltb_ge; lia).
      replace (mid <? dmax d2)%Z with false by (symmetry; apply Z.ltb_ge; lia).
      simpl. rewrite <- Hg2. rewrite fupd_same_id. rewrite Hg2. simpl.
      replace (dmin d2 <=? mid)%Z with true by (symmetry; apply Z.leb_le; auto). reflexivity. Qed.

  Lemma int_right_child : forall s p d mid, near s -> (p < length s)%nat -> fget s p = VI d -> wf_dom d ->
    (dmin d <= mid < dmax d)%Z -> (exists z, In z d /\ w p = IZR z /\ (mid < z)%Z) ->
    exists s1 ev, fprune (right_prop p (VlI mid)) (s, []) = Some (s1, ev) /\ near s1 /\ sle s1 s /\ wsafe_below s1 (right_prop p (VlI mid)).
  Proof. intros s p d mid Hn Hp Hg W Hm (z & Hz & Hw & Hzm).
    assert (Hne : dbelow (mid + 1) d <> []).
    { intro E. apply (dbelow_nil_iff (mid + 1) d W) in E. lia. }
    assert (W' : wf_dom (dbelow (mid + 1) d)) by (apply wf_dom_dbelow; auto).
    exists (fupd s p (VI (dbelow (mid + 1) d))), [p].
    assert (E1 : fprune (right_prop p (VlI mid)) (s, []) = Some (fupd s p (VI (dbelow (mid + 1) d)), [p])).
    { simpl. unfold prune_flt. unfold int_below_float_var, int_below_float_const, float_const_below_int. simpl. rewrite Hg. simpl.
      unfold prune_fleq_plain. simpl. unfold under_interval. simpl. rewrite Hg. simpl.
      replace (mid <=? dmax d - 1)%Z with true by (symmetry; apply Z.leb_le; lia).
      unfold xset_min. simpl. rewrite Hg. simpl. unfold dset_min.
      destruct W as [Wne Ws]. replace (dempty d) with false by (destruct d; simpl; congruence).
      replace (dmax d <? mid + 1)%Z with false by (symmetry; apply Z.ltb_ge; lia).
      replace (dmin d <? mid + 1)%Z with true by (symmetry; apply Z.ltb_lt; lia).
      replace (dempty (dbelow (mid + 1) d)) with false by (destruct (dbelow (mid + 1) d); simpl; congruence).
      reflexivity. }
    split; [exact E1|]. split; [|split].
    - apply near_fupd; auto. simpl. split; auto. exists z. split; auto. apply dbelow_In. split; auto. lia.
    - apply sle_fupd; auto. rewrite Hg. simpl. intros x Hx. apply dbelow_In in Hx. tauto.
    - intros s2 Hle Hn2.
      assert (Hl2 : length s2 = length s). { destruct Hle as [L _]. rewrite L. apply fupd_length. }
      destruct (sle_int s2 _ p (dbelow (mid + 1) d) Hle) as (d2 & Hg2 & Hin). { rewrite fget_fupd_same; auto. }
      assert (Hp2 : (p < length s2)%nat) by lia.
      specialize (Hn2 p Hp2) as Hnp. rewrite Hg2 in Hnp. simpl in Hnp. destruct Hnp as (W2 & _).
      assert (Hmin : (mid + 1 <= dmin d2)%Z).
      { assert (In (dmin d2) d2) by (apply dmin_In; apply W2). apply Hin in H. apply dbelow_In in H. tauto. }
      assert (Hmax : (mid + 1 <= dmax d2)%Z) by (generalize (dmin_le_dmax d2 W2); lia).
      exists s2, []. split; [|split; auto using sle_refl].
      simpl. unfold prune_flt. unfold int_below_float_var, int_below_float_const, float_const_below_int. simpl. rewrite Hg2. simpl.
      unfold prune_fleq_plain. simpl. unfold under_interval. simpl. rewrite Hg2. simpl.
      replace (mid <=? dmax d2 - 1)%Z with true by (symmetry; apply Z.leb_le; lia).
      unfold xset_min. simpl. rewrite Hg2. simpl. unfold dset_min.
      destruct W2 as [Wne2 Ws2]. replace (dempty d2) with false by (destruct d2; simpl; congruence).
      replace (dmax d2 <? mid + 1)%Z with false by (symmetry; apply Z.ltb_ge; lia).
      replace (dmin d2 <? mid + 1)%Z with false by (symmetry; apply Z.ltb_ge; lia).
      simpl. rewrite <- Hg2. rewrite fupd_same_id. reflexivity. Qed.

  (* ---------------------------------------------------------------- float pivot *)
  Lemma flt_ge_sub_tol_max : forall i x, wf i -> fin x -> R_ (imax i) <= R_ x -> flt x (fsub (imax i) (ctx_tol i)) = false.
  Proof. intros i x W Fx L. destruct (ctx_tol_fin i W) as (Ft & T0 & _). destruct W as (A & B & C & D & E).
    destruct (fsub_nonneg_le (imax i) (ctx_tol i) B Ft T0) as [[F Le]|Ei].
    - apply flt_fin_f; auto. lra.
    - rewrite Ei. unfold flt. rewrite fcmp_fin_ninf; auto. Qed.
  Lemma fgt_le_add_tol_min : forall i x, wf i -> fin x -> R_ x <= R_ (imin i) -> fgt x (fadd (imin i) (ctx_tol i)) = false.
  Proof. intros i x W Fx L. destruct (ctx_tol_fin i W) as (Ft & T0 & _). destruct W as (A & B & C & D & E).
    destruct (fadd_nonneg_ge (imin i) (ctx_tol i) A Ft T0) as [[F Le]|Ei].
    - apply fgt_fin_f; auto. lra.
    - rewrite Ei. unfold fgt. rewrite fcmp_fin_pinf; auto. Qed.

  (* a bound that is not below the current maximum (not above the current minimum) changes nothing and cannot fail *)
  Lemma tsmax_ff_above_noop : forall i v, wf i -> fin v -> R_ (imax i) <= R_ v -> tsmax_ff i v = Some (i, false).
  Proof. intros i v W Fv L. assert (W' := W). destruct W' as (A & B & C & D & E). unfold tsmax_ff. cbv zeta.
    destruct (_ && _); auto.
    replace (flt v (imin i)) with false by (symmetry; apply flt_fin_f; auto; lra).
    rewrite (flt_ge_sub_tol_max i v W Fv L). reflexivity. Qed.
  Lemma tsmin_ff_below_noop : forall i v, wf i -> fin v -> R_ v <= R_ (imin i) -> tsmin_ff i v = Some (i, false).
  Proof. intros i v W Fv L. assert (W' := W). destruct W' as (A & B & C & D & E). unfold tsmin_ff. cbv zeta.
    destruct (_ && _); auto.
    rewrite (fgt_below_add_tol i v W Fv) by lra.
    rewrite (fgt_le_add_tol_min i v W Fv L). reflexivity. Qed.

  (* the two children of a split at a point passing fi_split_ok, as explicit values *)
  Definition q_floor (i : fint) (m : f64) : f64 := fmul (ffloor (fdiv m (istep i))) (istep i).
  Definition q_ceil (i : fint) (m : f64) : f64 := fmul (fceil (fdiv m (istep i))) (istep i).
  Definition left_max (i : fint) (m : f64) : f64 := if flt (q_floor i m) (imin i) then imin i else q_floor i m.
  Definition right_min (i : fint) (m : f64) : f64 := if fgt (q_ceil i m) (imax i) then imax i else q_ceil i m.

  Lemma split_left_value : forall i m, magn_b i m = true -> fi_split_ok i m = true ->
    tsmax_ff i m = Some (mkfi (imin i) (left_max i m) (istep i), true) /\ fin (left_max i m) /\ fin (q_floor i m) /\
    R_ (imin i) <= R_ (left_max i m) /\ R_ (left_max i m) < R_ (imax i) - 7/100 * R_ (istep i) /\
    R_ m - 201/100 * R_ (istep i) <= R_ (left_max i m) /\ R_ (q_floor i m) <= R_ (left_max i m) /\
    R_ (imin i) + 37/100 * R_ (istep i) < R_ m /\ R_ m < R_ (imax i) - 37/100 * R_ (istep i).
  Proof. intros i m Mb S. assert (M := magn_b_MagnR i m Mb).
    destruct (split_wide_enough i m M S) as (Early & Lu & Lv).
    unfold fi_split_ok in S. rewrite fi_tol_is_ctx_tol in S. apply andb_true_iff in S. destruct S as (T1 & T2).
    assert (M' := M). destruct M' as [W Fm S1 S2 Bmin Bmax Bv Bf]. assert (W' := W). destruct W' as (A & B & C & D & E).
    unfold tsmax_ff. cbv zeta. rewrite Early. cbn [andb].
    assert (T0 : flt m (imin i) = false) by (apply flt_fin_f; auto; lra). rewrite T0, T2.
    destruct (quant_float mode_DN m (istep i) (or_intror eq_refl) Fm C S1 S2 Bv) as (Fn & _ & Up & Lb).
    specialize (Up eq_refl). change (Binary.Bnearbyint 53 1024 Hpe unop_nan_pl64 mode_DN) with ffloor in *.
    unfold left_max, q_floor. set (nm0 := fmul (ffloor (fdiv m (istep i))) (istep i)) in *.
    assert (Lo : R_ m - 201/100 * R_ (istep i) <= R_ nm0).
    { destruct Lb as [Lb _]. unfold m50, p50 in *. lra. }
    destruct (flt nm0 (imin i)) eqn:T3.
    - rewrite (flt_above_sub_tol i (imin i) W A) by lra. apply flt_fin in T3; auto. repeat split; auto; lra.
    - apply flt_fin_f in T3; auto. rewrite (flt_above_sub_tol i nm0 W Fn T3). repeat split; auto; lra. Qed.

  Lemma split_right_value : forall i m, magn_b i m = true -> fi_split_ok i m = true ->
    tsmin_ff i m = Some (mkfi (right_min i m) (imax i) (istep i), true) /\ fin (right_min i m) /\ fin (q_ceil i m) /\
    R_ (imin i) + 7/100 * R_ (istep i) < R_ (right_min i m) /\ R_ (right_min i m) <= R_ (imax i) /\
    R_ (right_min i m) <= R_ m + 201/100 * R_ (istep i) /\ R_ (right_min i m) <= R_ (q_ceil i m) /\
    R_ (imin i) + 37/100 * R_ (istep i) < R_ m /\ R_ m < R_ (imax i) - 37/100 * R_ (istep i).
  Proof. intros i m Mb S. assert (M := magn_b_MagnR i m Mb).
    destruct (split_wide_enough i m M S) as (Early & Lu & Lv).
    unfold fi_split_ok in S. rewrite fi_tol_is_ctx_tol in S. apply andb_true_iff in S. destruct S as (T1 & T2).
    assert (M' := M). destruct M' as [W Fm S1 S2 Bmin Bmax Bv Bf]. assert (W' := W). destruct W' as (A & B & C & D & E).
    unfold tsmin_ff. cbv zeta. rewrite Early. cbn [andb].
    rewrite (fgt_below_add_tol i m W Fm) by lra. rewrite T1.
    destruct (quant_float mode_UP m (istep i) (or_introl eq_refl) Fm C S1 S2 Bv) as (Fn & Lo & _ & Lb).
    specialize (Lo eq_refl). change (Binary.Bnearbyint 53 1024 Hpe unop_nan_pl64 mode_UP) with fceil in *.
    unfold right_min, q_ceil. set (nm0 := fmul (fceil (fdiv m (istep i))) (istep i)) in *.
    assert (Up : R_ nm0 <= R_ m + 201/100 * R_ (istep i)).
    { destruct Lb as [_ Lb]. unfold m50, p50 in *. lra. }
    destruct (fgt nm0 (imax i)) eqn:T3.
    - rewrite (fgt_below_add_tol i (imax i) W B) by lra. apply fgt_fin in T3; auto. repeat split; auto; lra.
    - apply fgt_fin_f in T3; auto. rewrite (fgt_below_add_tol i nm0 W Fn T3). repeat split; auto; lra. Qed.

  Lemma xset_max_float : forall s p i v i' e ev, fget s p = VF i -> tsmax_ff i v = Some (i', e) ->
    xset_max p (VlF v) (s, ev) = Some (fupd s p (VF i'), if e then ev ++ [p] else ev).
  Proof. intros. unfold xset_max. cbn [fst snd]. rewrite H. cbn [var_set_max]. rewrite H0. reflexivity. Qed.
  Lemma xset_min_float : forall s p i v i' e ev, fget s p = VF i -> tsmin_ff i v = Some (i', e) ->
    xset_min p (VlF v) (s, ev) = Some (fupd s p (VF i'), if e then ev ++ [p] else ev).
  Proof. intros. unfold xset_min. cbn [fst snd]. rewrite H. cbn [var_set_min]. rewrite H0. reflexivity. Qed.

  (* what x <= m and x >= m (the two branch propagators on a float pivot) compute *)
  Lemma left_prop_float : forall s p m i, fget s p = VF i -> fprune (left_prop p (VlF m)) (s, []) =
    match xset_max p (VlF m) (s, []) with
    | None => None
    | Some c1 => if val_lt (VlF m) (var_min (fget (fst c1) p)) then xset_max p (var_min (fget (fst c1) p)) c1 else Some c1
    end.
  Proof. intros s p m i Hg. unfold left_prop, mk_fleq. cbn [fprune]. unfold prune_fleq, fv_float_const, fv_float_var, fv_is_const.
    cbn [fv_is_float fv_under fst negb andb]. rewrite Hg. cbn [var_is_float andb]. reflexivity. Qed.
  Lemma right_prop_float : forall s p m i, fget s p = VF i -> fprune (right_prop p (VlF m)) (s, []) =
    if fle m (imax i) then xset_min p (VlF m) (s, []) else None.
  Proof. intros s p m i Hg. unfold right_prop, mk_fgt, mk_flt. cbn [fprune]. unfold prune_flt, int_below_float_var, int_below_float_const, float_const_below_int.
    cbn [fv_is_float negb andb]. unfold prune_fleq_plain. cbn [fv_set_max fv_set_min fv_max fv_min fst].
    unfold next_target, next_bound, under_interval. cbn [fv_under fv_is_float]. rewrite Hg. cbn [var_max var_min].
    unfold val_ge, val_le. cbn [as_f]. destruct (fle m (imax i)); reflexivity. Qed.

  Lemma float_left_child : forall s p i m, near s -> (p < length s)%nat -> fget s p = VF i ->
    magn_b i m = true -> fi_split_ok i m = true -> fle (q_floor i m) m = true -> w p <= R_ m ->
    exists s1 ev, fprune (left_prop p (VlF m)) (s, []) = Some (s1, ev) /\ near s1 /\ sle s1 s /\ wsafe_below s1 (left_prop p (VlF m)).
  Proof. intros s p i m Hn Hp Hg Mb S Hq Hw.
    destruct (split_left_value i m Mb S) as (E & Fmx & Fq & L1 & L2 & L3 & L4 & Lu & Lv).
    assert (M := magn_b_MagnR i m Mb). destruct M as [W Fm S1 S2 Bmin Bmax Bv Bf]. assert (W' := W). destruct W' as (A & B & C & D & E0).
    assert (Hnp := Hn p Hp). rewrite Hg in Hnp. simpl in Hnp. destruct Hnp as (_ & Hlo & Hhi).
    assert (Lqm : R_ (q_floor i m) <= R_ m) by (apply fle_fin in Hq; auto).
    assert (Lmx : R_ (left_max i m) <= R_ m). { unfold left_max in *. destruct (flt (q_floor i m) (imin i)); lra. }
    set (i1 := mkfi (imin i) (left_max i m) (istep i)).
    assert (W1 : wf i1) by (unfold i1; repeat split; simpl; auto).
    exists (fupd s p (VF i1)), [p].
    assert (E1 : fprune (left_prop p (VlF m)) (s, []) = Some (fupd s p (VF i1), [p])).
    { rewrite (left_prop_float s p m i Hg). rewrite (xset_max_float s p i m i1 true [] Hg E). cbn [fst app].
      rewrite fget_fupd_same by auto. unfold i1. cbn [var_min imin val_lt as_f].
      replace (flt m (imin i)) with false by (symmetry; apply flt_fin_f; auto; lra). reflexivity. }
    split; [exact E1|]. split; [|split].
    - apply near_fupd; auto. simpl. split; auto. split; auto.
      assert (0 < R_ (istep i)) by auto. assert (201/100 * R_ (istep i) <= T * R_ (istep i)) by (apply Rmult_le_compat_r; lra). lra.
    - apply sle_fupd; auto. rewrite Hg. simpl. repeat split; auto; lra.
    - intros s2 Hle Hn2.
      assert (Hl2 : length s2 = length s). { destruct Hle as [L _]. rewrite L. apply fupd_length. }
      destruct (sle_float s2 _ p i1 Hle) as (i2 & Hg2 & St2 & Lmin2 & Lmax2). { rewrite fget_fupd_same; auto. }
      assert (Hp2 : (p < length s2)%nat) by lia.
      specialize (Hn2 p Hp2) as Hnp. rewrite Hg2 in Hnp. simpl in Hnp. destruct Hnp as (W2 & _).
      assert (W2' := W2). destruct W2' as (A2 & B2 & C2 & D2 & E2). unfold i1 in Lmax2, Lmin2; simpl in Lmax2, Lmin2.
      exists s2, []. split; [|split; auto using sle_refl].
      rewrite (left_prop_float s2 p m i2 Hg2). rewrite (xset_max_float s2 p i2 m i2 false [] Hg2).
      2:{ apply tsmax_ff_above_noop; auto. lra. }
      cbn [fst]. rewrite fget_fupd_same by auto. cbn [var_min val_lt as_f].
      replace (flt m (imin i2)) with false by (symmetry; apply flt_fin_f; auto; lra).
      rewrite <- Hg2. rewrite fupd_same_id. reflexivity. Qed.

  Lemma float_right_child : forall s p i m, near s -> (p < length s)%nat -> fget s p = VF i ->
    magn_b i m = true -> fi_split_ok i m = true -> fle m (q_ceil i m) = true -> R_ m <= w p ->
    exists s1 ev, fprune (right_prop p (VlF m)) (s, []) = Some (s1, ev) /\ near s1 /\ sle s1 s /\ wsafe_below s1 (right_prop p (VlF m)).
  Proof. intros s p i m Hn Hp Hg Mb S Hq Hw.
    destruct (split_right_value i m Mb S) as (E & Fmn & Fq & L1 & L2 & L3 & L4 & Lu & Lv).
    assert (M := magn_b_MagnR i m Mb). destruct M as [W Fm S1 S2 Bmin Bmax Bv Bf]. assert (W' := W). destruct W' as (A & B & C & D & E0).
    assert (Hnp := Hn p Hp). rewrite Hg in Hnp. simpl in Hnp. destruct Hnp as (_ & Hlo & Hhi).
    assert (Lqm : R_ m <= R_ (q_ceil i m)) by (apply fle_fin in Hq; auto).
    assert (Lmn : R_ m <= R_ (right_min i m)). { unfold right_min in *. destruct (fgt (q_ceil i m) (imax i)); lra. }
    set (i1 := mkfi (right_min i m) (imax i) (istep i)).
    assert (W1 : wf i1) by (unfold i1; repeat split; simpl; auto).
    exists (fupd s p (VF i1)), [p].
    assert (E1 : fprune (right_prop p (VlF m)) (s, []) = Some (fupd s p (VF i1), [p])).
    { rewrite (right_prop_float s p m i Hg).
      replace (fle m (imax i)) with true by (symmetry; apply fle_fin; auto; lra).
      rewrite (xset_min_float s p i m i1 true [] Hg E). reflexivity. }
    split; [exact E1|]. split; [|split].
    - apply near_fupd; auto. simpl. split; auto. split; auto.
      assert (0 < R_ (istep i)) by auto. assert (201/100 * R_ (istep i) <= T * R_ (istep i)) by (apply Rmult_le_compat_r; lra). lra.
    - apply sle_fupd; auto. rewrite Hg. simpl. repeat split; auto; lra.
    - intros s2 Hle Hn2.
      assert (Hl2 : length s2 = length s). { destruct Hle as [L _]. rewrite L. apply fupd_length. }
      destruct (sle_float s2 _ p i1 Hle) as (i2 & Hg2 & St2 & Lmin2 & Lmax2). { rewrite fget_fupd_same; auto. }
      assert (Hp2 : (p < length s2)%nat) by lia.
      specialize (Hn2 p Hp2) as Hnp. rewrite Hg2 in Hnp. simpl in Hnp. destruct Hnp as (W2 & _).
      assert (W2' := W2). destruct W2' as (A2 & B2 & C2 & D2 & E2). unfold i1 in Lmax2, Lmin2; simpl in Lmax2, Lmin2.
      exists s2, []. split; [|split; auto using sle_refl].
      rewrite (right_prop_float s2 p m i2 Hg2).
      replace (fle m (imax i2)) with true by (symmetry; apply fle_fin; auto; lra).
      rewrite (xset_min_float s2 p i2 m i2 false [] Hg2).
      2:{ apply tsmin_ff_below_noop; auto. lra. }
      rewrite <- Hg2. rewrite fupd_same_id. reflexivity. Qed.

  (* ---------------------------------------------------------------- (b) every split keeps w in one child; (c) the theorem *)
  (* what the proof needs of a split point on a float pivot (all decidable, in f64): inside Magn, it passes the code's own
     test fi_split_ok (bisect_progress), and the quantisation of the two children does not overshoot it:
     floor(m/step)*step <= m <= ceil(m/step)*step as computed in binary64 *)
  Definition split_hyp (i : fint) (m : f64) : bool :=
    magn_b i m && fi_split_ok i m && fle (q_floor i m) m && fle m (q_ceil i m).

  Variable s0 : fstore.                (* the declared store *)
  Definition split_ok_hyp : Prop :=
    forall s p i m, sle s s0 -> near s -> (p < length s)%nat -> fget s p = VF i ->
      fi_is_fixed i = false -> fi_mid i = Some m -> split_hyp i m = true.

  Definition Good (s : fstore) (ps : list fprop) : Prop := sle s s0 /\ near s /\ Forall (wsafe_below s) ps.

  Lemma Good_HP : forall s ps p, Good s ps -> In p ps -> exists s' ev, fprune p (s, []) = Some (s', ev) /\ Good s' ps.
  Proof. intros s ps p (Hle & Hn & Hall) Hin.
    assert (Hp : wsafe_below s p) by (eapply Forall_forall; eauto).
    destruct (Hp s (sle_refl s) Hn) as (s' & ev & E & Hn' & Hle').
    exists s', ev. split; auto. split; [eapply sle_trans; eauto|]. split; auto.
    eapply Forall_impl; [|exact Hall]. intros q Hq. eapply wsafe_below_mono; eauto. Qed.

  Lemma Good_child : forall s ps b s1 ev, Good s ps -> fprune b (s, []) = Some (s1, ev) -> near s1 -> sle s1 s ->
    wsafe_below s1 b -> child_ok Good s ps b.
  Proof. intros s ps b s1 ev (Hle & Hn & Hall) E Hn1 Hle1 Hb. exists s1, ev. split; auto.
    split; [eapply sle_trans; eauto|]. split; auto. apply Forall_app; split.
    - eapply Forall_impl; [|exact Hall]. intros q Hq. eapply wsafe_below_mono; eauto.
    - constructor; auto. Qed.

  Lemma Good_HS : split_ok_hyp -> forall s ps, Good s ps -> fall_assigned s = false ->
    exists pivot mid, ffirst_unassigned s 0 = Some pivot /\ var_mid (fget s pivot) = Some mid /\
      (child_ok Good s ps (mk_fleq (FVar pivot) (FConst mid)) \/ child_ok Good s ps (mk_fgt (FVar pivot) (FConst mid))).
  Proof. intros Hsplit s ps Hg Hna. assert (Hg' := Hg). destruct Hg' as (Hle & Hn & Hall).
    destruct (ffirst_unassigned_some s 0 Hna) as (p & Ep).
    destruct (ffirst_unassigned_spec s 0 p Ep) as (_ & Hp & Hua). rewrite Nat.sub_0_r in *.
    exists p. assert (Hnp := Hn p Hp).
    destruct (fget s p) as [d|i] eqn:Hgp; simpl in Hnp, Hua.
    - destruct Hnp as (W & z & Hz & Hw).
      destruct (int_mid_between d W Hua) as (Hm & Hne & Hem).
      set (mid := (dmin d + tdiv (dmax d - dmin d) 2)%Z) in *.
      exists (VlI mid). split; auto. split. { simpl. rewrite Hem, Hne. reflexivity. }
      destruct (Z_le_gt_dec z mid) as [Hzm|Hzm].
      + left. destruct (int_left_child s p d mid Hn Hp Hgp W Hm) as (s1 & ev & E & Hn1 & Hle1 & Hb).
        { exists z. auto. } eapply Good_child; eauto.
      + right. destruct (int_right_child s p d mid Hn Hp Hgp W Hm) as (s1 & ev & E & Hn1 & Hle1 & Hb).
        { exists z. repeat split; auto. lia. } eapply Good_child; eauto.
    - destruct Hnp as (W & Hlo & Hhi).
      destruct (fi_mid_inside i W) as (m & Em & _).
      exists (VlF m). split; auto. split. { simpl. rewrite Em. reflexivity. }
      assert (Hh := Hsplit s p i m Hle Hn Hp Hgp Hua Em). unfold split_hyp in Hh.
      repeat rewrite andb_true_iff in Hh. destruct Hh as (((Mb & S) & Q1) & Q2).
      destruct (Rle_dec (w p) (R_ m)) as [Hwm|Hwm].
      + left. destruct (float_left_child s p i m Hn Hp Hgp Mb S Q1 Hwm) as (s1 & ev & E & Hn1 & Hle1 & Hb).
        eapply Good_child; eauto.
      + right. destruct (float_right_child s p i m Hn Hp Hgp Mb S Q2) as (s1 & ev & E & Hn1 & Hle1 & Hb). lra.
        eapply Good_child; eauto. Qed.

  Theorem robust_never_nosolution_main : forall ps, near s0 -> Forall (wsafe_below s0) ps -> split_ok_hyp ->
    forall maxsols fuel budget, ~ nosol (fsearch None maxsols fuel budget ps s0).
  Proof. intros ps Hn Hall Hsplit maxsols fuel budget.
    apply (fsearch_not_nosol Good Good_HP (Good_HS Hsplit)).
    split; [apply sle_refl|]. split; auto. Qed.

  (* ================================================================ Stage 2: wsafe for plain comparisons *)
  (* ---- integer variable against an integer constant: exact, for every base store *)
  Lemma wsafe_int_le_const : forall base v c, (exists z, w v = IZR z /\ (z <= c)%Z) ->
    (forall s, sle s base -> (v < length s)%nat /\ exists d, fget s v = VI d) ->
    wsafe_below base (mk_fleq (FVar v) (FConst (VlI c))).
  Proof. intros base v c (z & Hw & Hzc) Hint s Hle Hn. destruct (Hint s Hle) as (Hv & d & Hg).
    assert (Hnv := Hn v Hv). rewrite Hg in Hnv. simpl in Hnv. destruct Hnv as (W & z' & Hz' & Hw').
    assert (z' = z) by (apply eq_IZR; congruence). subst z'.
    assert (Hmin : (dmin d <= c)%Z) by (generalize (dmin_least d z (proj2 W) Hz'); lia).
    destruct (Z_lt_le_dec c (dmax d)) as [Hlt|Hge].
    - assert (Hne : dabove c d <> []). { intro E. apply (dabove_nil_iff c d W) in E. lia. }
      assert (W' : wf_dom (dabove c d)) by (apply wf_dom_dabove; auto).
      exists (fupd s v (VI (dabove c d))), [v]. split; [|split].
      + cbv beta iota delta [left_prop mk_fleq mk_fgeq fprune]. rewrite ?prune_fleq_int_const_r, ?prune_fleq_int_const_l. unfold prune_fleq_plain. simpl. unfold xset_max. simpl. rewrite Hg. simpl. unfold dset_max.
        destruct W as [Wne Ws]. replace (dempty d) with false by (destruct d; simpl; congruence).
        replace (c <? dmin d)%Z with false by (symmetry; apply Z.ltb_ge; lia).
        replace (c <? dmax d)%Z with true by (symmetry; apply Z.ltb_lt; lia).
        replace (dempty (dabove c d)) with false by (destruct (dabove c d); simpl; congruence).
        simpl. rewrite fget_fupd_same by auto. simpl.
        assert (dmin (dabove c d) <= c)%Z.
        { assert (In (dmin (dabove c d)) (dabove c d)) by (apply dmin_In; auto). apply dabove_In in H. tauto. }
        replace (dmin (dabove c d) <=? c)%Z with true by (symmetry; apply Z.leb_le; auto). reflexivity.
      + apply near_fupd; auto. simpl. split; auto. exists z. split; auto. apply dabove_In. split; auto.
      + apply sle_fupd; auto. rewrite Hg. simpl. intros x Hx. apply dabove_In in Hx. tauto.
    - exists s, []. split; [|split; auto using sle_refl].
      cbv beta iota delta [left_prop mk_fleq mk_fgeq fprune]. rewrite ?prune_fleq_int_const_r, ?prune_fleq_int_const_l. unfold prune_fleq_plain. simpl. unfold xset_max. simpl. rewrite Hg. simpl. unfold dset_max.
      destruct W as [Wne Ws]. replace (dempty d) with false by (destruct d; simpl; congruence).
      replace (c <? dmin d)%Z with false by (symmetry; apply Z.ltb_ge; lia).
      replace (c <? dmax d)%Z with false by (symmetry; apply Z.ltb_ge; lia).
      simpl. rewrite <- Hg. rewrite fupd_same_id. rewrite Hg. simpl.
      replace (dmin d <=? c)%Z with true by (symmetry; apply Z.leb_le; auto). reflexivity. Qed.

  Lemma wsafe_int_ge_const : forall base v c, (exists z, w v = IZR z /\ (c <= z)%Z) ->
    (forall s, sle s base -> (v < length s)%nat /\ exists d, fget s v = VI d) ->
    wsafe_below base (mk_fleq (FConst (VlI c)) (FVar v)).
  Proof. intros base v c (z & Hw & Hzc) Hint s Hle Hn. destruct (Hint s Hle) as (Hv & d & Hg).
    assert (Hnv := Hn v Hv). rewrite Hg in Hnv. simpl in Hnv. destruct Hnv as (W & z' & Hz' & Hw').
    assert (z' = z) by (apply eq_IZR; congruence). subst z'.
    assert (Hmax : (c <= dmax d)%Z) by (generalize (dmax_greatest d z (proj2 W) Hz'); lia).
    destruct (Z_lt_le_dec (dmin d) c) as [Hlt|Hge].
    - assert (Hne : dbelow c d <> []). { intro E. apply (dbelow_nil_iff c d W) in E. lia. }
      assert (W' : wf_dom (dbelow c d)) by (apply wf_dom_dbelow; auto).
      exists (fupd s v (VI (dbelow c d))), [v]. split; [|split].
      + cbv beta iota delta [left_prop mk_fleq mk_fgeq fprune]. rewrite ?prune_fleq_int_const_r, ?prune_fleq_int_const_l. unfold prune_fleq_plain. simpl. rewrite Hg. simpl.
        replace (c <=? dmax d)%Z with true by (symmetry; apply Z.leb_le; lia).
        unfold xset_min. simpl. rewrite Hg. simpl. unfold dset_min.
        destruct W as [Wne Ws]. replace (dempty d) with false by (destruct d; simpl; congruence).
        replace (dmax d <? c)%Z with false by (symmetry; apply Z.ltb_ge; lia).
        replace (dmin d <? c)%Z with true by (symmetry; apply Z.ltb_lt; lia).
        replace (dempty (dbelow c d)) with false by (destruct (dbelow c d); simpl; congruence). reflexivity.
      + apply near_fupd; auto. simpl. split; auto. exists z. split; auto. apply dbelow_In. split; auto.
      + apply sle_fupd; auto. rewrite Hg. simpl. intros x Hx. apply dbelow_In in Hx. tauto.
    - exists s, []. split; [|split; auto using sle_refl].
      cbv beta iota delta [left_prop mk_fleq mk_fgeq fprune]. rewrite ?prune_fleq_int_const_r, ?prune_fleq_int_const_l. unfold prune_fleq_plain. simpl. rewrite Hg. simpl.
      replace (c <=? dmax d)%Z with true by (symmetry; apply Z.leb_le; lia).
      unfold xset_min. simpl. rewrite Hg. simpl. unfold dset_min.
      destruct W as [Wne Ws]. replace (dempty d) with false by (destruct d; simpl; congruence).
      replace (dmax d <? c)%Z with false by (symmetry; apply Z.ltb_ge; lia).
      replace (dmin d <? c)%Z with false by (symmetry; apply Z.ltb_ge; lia).
      simpl. rewrite <- Hg. rewrite fupd_same_id. reflexivity. Qed.
End Witness.

(* a float interval reduced to a point (in value) is assigned: such a variable is never a pivot *)
Lemma to_usize_of_int : forall (x : f64) k, fin x -> R_ x = IZR k -> to_usize x = Z.max 0 (Z.min usize_hi k).
Proof. intros x k F E. assert (B: Binary.Btrunc 53 1024 x = k).
  { apply eq_IZR. rewrite Binary.Btrunc_correct, round_FIX_IZR, E. rewrite Ztrunc_IZR. reflexivity. exact Hpe. }
  destruct x; try discriminate F; unfold to_usize; now rewrite B. Qed.
Lemma fixed_of_point : forall i, wf i -> R_ (imin i) = R_ (imax i) -> fi_is_fixed i = true.
Proof. intros i (A & B & C & D & E) Heq. unfold fi_is_fixed, fi_step_count.
  replace (fi_is_empty i) with false by (symmetry; unfold fi_is_empty; apply fgt_fin_f; auto; lra).
  assert (Hz : fin (fsub (imax i) (imin i)) /\ R_ (fsub (imax i) (imin i)) = 0).
  { destruct (fsub_cases (imax i) (imin i) B A) as [[F Eq]|(Ov & _)].
    - split; auto. rewrite Eq. replace (R_ (imax i) - R_ (imin i)) with 0 by lra. apply RN_0.
    - exfalso. replace (R_ (imax i) - R_ (imin i)) with 0 in Ov by lra. rewrite RN_0, Rabs_R0 in Ov.
      generalize (bpow_gt_0 radix2 1024). lra. }
  destruct Hz as (Fz & Ez).
  assert (Hy : fin (fdiv (fsub (imax i) (imin i)) (istep i)) /\ R_ (fdiv (fsub (imax i) (imin i)) (istep i)) = 0).
  { assert (Sz : R_ (istep i) <> 0) by lra.
    destruct (fdiv_cases _ (istep i) Fz C Sz) as [[F Eq]|(Ov & _)].
    - split; auto. rewrite Eq, Ez. unfold Rdiv. rewrite Rmult_0_l. apply RN_0.
    - exfalso. rewrite Ez in Ov. unfold Rdiv in Ov. rewrite Rmult_0_l, RN_0, Rabs_R0 in Ov.
      generalize (bpow_gt_0 radix2 1024). lra. }
  destruct Hy as (Fy & Ey). unfold fround.
  destruct (Binary.Bnearbyint_correct 53 1024 Hpe unop_nan_pl64 mode_NA (fdiv (fsub (imax i) (imin i)) (istep i))) as (Er & Fk & _).
  rewrite round_FIX_IZR in Er. change (Binary.B2R 53 1024) with R_ in Er. rewrite Ey in Er.
  change 0 with (IZR 0) in Er. rewrite Zrnd_IZR in Er.
  rewrite (to_usize_of_int _ 0%Z); [reflexivity| unfold fin; rewrite Fk; exact Fy | exact Er].
  apply valid_rnd_round_mode. Qed.

(* ================================================================ non-vacuity: a concrete mixed model *)
(* x0 float, declared [0.5, 0.5] with step 0.25; x1 int in {0,1,2,3}; one constraint 1 <= x1; witness (0.5, 2); T = 3 *)
Definition ex7_iv : fint := mkfi (of_bits 0x3fe0000000000000) (of_bits 0x3fe0000000000000) (of_bits 0x3fd0000000000000).
Definition ex7_store : fstore := [VF ex7_iv; VI [0; 1; 2; 3]%Z].
Definition ex7_props : list fprop := [mk_fleq (FConst (VlI 1)) (FVar 1)].
Definition ex7_w (v : nat) : R := match v with O => 1/2 | _ => 2 end.

Lemma ex7_iv_facts : wf ex7_iv /\ R_ (imin ex7_iv) = 1/2 /\ R_ (imax ex7_iv) = 1/2 /\ R_ (istep ex7_iv) = 1/4.
Proof. unfold ex7_iv, wf. cbn [imin imax istep].
  set (x := of_bits 0x3fe0000000000000). set (y := of_bits 0x3fd0000000000000). vm_compute in x. vm_compute in y. subst x y.
  unfold fin. simpl. unfold F2R. simpl. repeat split; try reflexivity; lra. Qed.

Lemma ex7_hypotheses :
  near 3 ex7_w ex7_store /\ Forall (wsafe_below 3 ex7_w ex7_store) ex7_props /\ split_ok_hyp 3 ex7_w ex7_store.
Proof. destruct ex7_iv_facts as (W & E1 & E2 & E3). split; [|split].
  - intros v Hv. simpl in Hv. destruct v as [|[|v]]; try lia.
    + change (fget ex7_store 0) with (VF ex7_iv). unfold near_var, ex7_w. split; auto. rewrite E1, E2, E3. lra.
    + change (fget ex7_store 1) with (VI [0; 1; 2; 3]%Z). simpl. split. split. discriminate. simpl. lia.
      exists 2%Z. simpl. auto.
  - constructor; [|constructor]. apply wsafe_int_ge_const.
    + exists 2%Z. simpl. split; auto. lia.
    + intros s Hle. split. { destruct Hle as [L _]. rewrite L. simpl. lia. }
      destruct (sle_int ex7_w s ex7_store 1 [0; 1; 2; 3]%Z Hle eq_refl) as (d & Hd & _). eauto.
  - intros s p i m Hle Hn Hp Hg Hnf Em. exfalso.
    assert (Hl : length s = 2%nat) by (destruct Hle as [L _]; exact L).
    destruct p as [|[|p]]; try lia.
    + destruct (sle_float ex7_w s ex7_store 0 ex7_iv Hle eq_refl) as (i2 & Hg2 & _ & L1 & L2).
      rewrite Hg in Hg2. inversion Hg2; subst i2.
      assert (Hn0 := Hn 0%nat Hp). rewrite Hg in Hn0. unfold near_var in Hn0. destruct Hn0 as (Wi & _).
      assert (R_ (imin i) = R_ (imax i)). { destruct Wi as (_ & _ & _ & D & _). lra. }
      rewrite (fixed_of_point i Wi H) in Hnf. discriminate.
    + destruct (sle_int ex7_w s ex7_store 1 [0; 1; 2; 3]%Z Hle eq_refl) as (d & Hd & _). congruence. Qed.

Lemma ex7_search :
  map (map (fun b => match b with VlF x => to_bits x | VlI z => z end)) (fs_sols (fsolve_first 20 1000 ex7_props ex7_store))
    = [[0x3fe0000000000000; 1]%Z].
Proof. vm_compute. reflexivity. Qed.

(* (a) as a statement about near / sle only *)
Lemma propagation_keeps_witness_main : forall T w s0 ps pf q, near T w s0 -> Forall (wsafe_below T w s0) ps ->
  qvalid (length ps) q ->
  match fpropagate pf ps s0 q with
  | (FPFail, _) => False
  | (FPFuel, _) => True
  | (FPDone s', _) => near T w s' /\ sle s' s0
  end.
Proof. intros T w s0 ps pf q Hn Hall Hq.
  assert (G : Good T w s0 s0 ps). { split; [apply sle_refl|]. split; auto. }
  pose proof (good_propagate (Good T w s0) (Good_HP T w s0) ps pf s0 q Hq G) as H.
  destruct (fpropagate pf ps s0 q) as [[| |s'] l]; auto. destruct H as (A & B & _). auto. Qed.

(* ================================================================ Stage 2 (floats): the setters on a store that is near w *)
(* failure-freeness inside Magn: try_set_max with a bound not below the current minimum / try_set_min with a bound not above
   the current maximum never fails (the rounded bound is clamped into the interval before the last test) *)
Lemma tsmax_ff_no_fail : forall i v, magn_b i v = true -> R_ (imin i) <= R_ v -> tsmax_ff i v <> None.
Proof. intros i v Mb L. assert (M := magn_b_MagnR i v Mb). destruct M as [W Fv S1 S2 Bmin Bmax Bv Bf].
  assert (W' := W). destruct W' as (A & B & C & D & E). unfold tsmax_ff. cbv zeta.
  destruct (_ && _); [discriminate|].
  replace (flt v (imin i)) with false by (symmetry; apply flt_fin_f; auto).
  destruct (flt v (fsub (imax i) (ctx_tol i))); [|discriminate].
  destruct (quant_float mode_DN v (istep i) (or_intror eq_refl) Fv C S1 S2 Bv) as (Fn & _).
  change (Binary.Bnearbyint 53 1024 Hpe unop_nan_pl64 mode_DN) with ffloor in *.
  set (nm0 := fmul (ffloor (fdiv v (istep i))) (istep i)) in *.
  destruct (flt nm0 (imin i)) eqn:T3.
  - rewrite (flt_above_sub_tol i (imin i) W A) by lra. discriminate.
  - apply flt_fin_f in T3; auto. rewrite (flt_above_sub_tol i nm0 W Fn T3). discriminate. Qed.
Lemma tsmin_ff_no_fail : forall i v, magn_b i v = true -> R_ v <= R_ (imax i) -> tsmin_ff i v <> None.
Proof. intros i v Mb L. assert (M := magn_b_MagnR i v Mb). destruct M as [W Fv S1 S2 Bmin Bmax Bv Bf].
  assert (W' := W). destruct W' as (A & B & C & D & E). unfold tsmin_ff. cbv zeta.
  destruct (_ && _); [discriminate|].
  rewrite (fgt_below_add_tol i v W Fv L).
  destruct (fgt v (fadd (imin i) (ctx_tol i))); [|discriminate].
  destruct (quant_float mode_UP v (istep i) (or_introl eq_refl) Fv C S1 S2 Bv) as (Fn & _).
  change (Binary.Bnearbyint 53 1024 Hpe unop_nan_pl64 mode_UP) with fceil in *.
  set (nm0 := fmul (fceil (fdiv v (istep i))) (istep i)) in *.
  destruct (fgt nm0 (imax i)) eqn:T3.
  - rewrite (fgt_below_add_tol i (imax i) W B) by lra. discriminate.
  - apply fgt_fin_f in T3; auto. rewrite (fgt_below_add_tol i nm0 W Fn T3). discriminate. Qed.

(* the interval part of `near` *)
Definition near_iv (T : R) (i : fint) (r : R) : Prop :=
  wf i /\ R_ (imin i) - T * R_ (istep i) <= r <= R_ (imax i) + T * R_ (istep i).

(* an upper bound v with margin T steps above the witness (T >= 2.01): try_set_max(v) succeeds, the result is well-formed, not
   wider, and still near the witness -- from a store in which the witness may already be outside the interval by T steps *)
Lemma near_tsmax : forall T i v r, 201/100 <= T -> magn_b i v = true -> near_iv T i r -> r + T * R_ (istep i) <= R_ v ->
  exists i' e, tsmax_ff i v = Some (i', e) /\ near_iv T i' r /\ sle_var (VF i') (VF i).
Proof. intros T i v r HT Mb (W & Hlo & Hhi) Hm.
  assert (M := magn_b_MagnR i v Mb). destruct M as [_ Fv S1 S2 Bmin Bmax Bv Bf].
  assert (W' := W). destruct W' as (A & B & C & D & E).
  assert (Lmin : R_ (imin i) <= R_ v) by lra.
  destruct (tsmax_ff i v) as [[i' e]|] eqn:Et. 2:{ exfalso. eapply tsmax_ff_no_fail; eauto. }
  exists i', e. split; auto.
  destruct (tsmax_ff_magn i v i' e Mb Et) as ((Es & N1 & N2) & Emin & Fmx & _ & Loss).
  destruct (tsmax_ff_order i v i' e W Fv Et) as (_ & _ & _ & Ord & _).
  rewrite Emin in *. apply fle_fin in N2; auto. apply fle_fin in Ord; auto.
  assert (W1 : wf i'). { repeat split; auto; try (rewrite Emin; auto); rewrite Es; auto. }
  split; [|simpl; repeat split; auto; rewrite ?Emin; lra].
  split; auto. rewrite Es, Emin. split; [lra|].
  destruct Loss as [Ls|Ls]; [lra|].
  assert (Rabs (R_ v) * m50 <= (1 + m50) * R_ (istep i)).
  { unfold m50, p50 in *. lra. }
  assert (201/100 * R_ (istep i) <= T * R_ (istep i)) by (apply Rmult_le_compat_r; lra).
  unfold m50 in *. lra. Qed.
Lemma near_tsmin : forall T i v r, 201/100 <= T -> magn_b i v = true -> near_iv T i r -> R_ v <= r - T * R_ (istep i) ->
  exists i' e, tsmin_ff i v = Some (i', e) /\ near_iv T i' r /\ sle_var (VF i') (VF i).
Proof. intros T i v r HT Mb (W & Hlo & Hhi) Hm.
  assert (M := magn_b_MagnR i v Mb). destruct M as [_ Fv S1 S2 Bmin Bmax Bv Bf].
  assert (W' := W). destruct W' as (A & B & C & D & E).
  assert (Lmax : R_ v <= R_ (imax i)) by lra.
  destruct (tsmin_ff i v) as [[i' e]|] eqn:Et. 2:{ exfalso. eapply tsmin_ff_no_fail; eauto. }
  exists i', e. split; auto.
  destruct (tsmin_ff_magn i v i' e Mb Et) as ((Es & N1 & N2) & Emax & Fmn & _ & Loss).
  destruct (tsmin_ff_order i v i' e W Fv Et) as (_ & _ & _ & Ord & _).
  rewrite Emax in *. apply fle_fin in N1; auto. apply fle_fin in Ord; auto.
  assert (W1 : wf i'). { repeat split; auto; try (rewrite Emax; auto); rewrite Es; auto. }
  split; [|simpl; repeat split; auto; rewrite ?Emax; lra].
  split; auto. rewrite Es, Emax. split; [|lra].
  destruct Loss as [Ls|Ls]; [lra|].
  assert (Rabs (R_ v) * m50 <= (1 + m50) * R_ (istep i)).
  { unfold m50, p50 in *. lra. }
  assert (201/100 * R_ (istep i) <= T * R_ (istep i)) by (apply Rmult_le_compat_r; lra).
  unfold m50 in *. lra. Qed.

(* ---- a float variable against a float constant, with margin T steps: the contract holds for every base store inside Magn *)
Lemma wsafe_float_le_const : forall T w base v i0 c, 201/100 <= T -> (v < length base)%nat -> fget base v = VF i0 ->
  magn_b i0 c = true -> w v + T * R_ (istep i0) <= R_ c ->
  wsafe_below T w base (mk_fleq (FVar v) (FConst (VlF c))).
Proof. intros T w base v i0 c HT Hv Hg0 Mb0 Hm s Hle Hn.
  destruct (sle_float w s base v i0 Hle Hg0) as (i & Hg & Es & L1 & L2).
  assert (Hvs : (v < length s)%nat) by (destruct Hle as [L _]; lia).
  assert (Hni := Hn v Hvs). rewrite Hg in Hni. change (near_var T (VF i) (w v)) with (near_iv T i (w v)) in Hni.
  assert (Wi : wf i) by apply Hni.
  assert (Mb : magn_b i c = true) by (eapply magn_preserved; eauto).
  destruct (near_tsmax T i c (w v) HT Mb Hni) as (i' & e & Et & Hn' & Hs'). { rewrite Es. lra. }
  assert (Fc : fin c) by (destruct (magn_b_MagnR i c Mb); auto).
  exists (fupd s v (VF i')), (if e then [] ++ [v] else []). split; [|split].
  - change (mk_fleq (FVar v) (FConst (VlF c))) with (left_prop v (VlF c)). rewrite (left_prop_float s v c i Hg).
    rewrite (xset_max_float s v i c i' e [] Hg Et). cbn [fst]. rewrite fget_fupd_same by auto. cbn [var_min val_lt as_f].
    destruct Hn' as (W' & Hlo' & _). simpl in Hs'. destruct Hs' as (Es' & _).
    replace (flt c (imin i')) with false; [reflexivity|].
    symmetry. apply flt_fin_f; [exact Fc|apply W'|]. rewrite Es', Es in Hlo'. lra.
  - apply near_fupd; auto.
  - apply sle_fupd; auto. rewrite Hg. exact Hs'. Qed.

Lemma wsafe_float_ge_const : forall T w base v i0 c, 201/100 <= T -> (v < length base)%nat -> fget base v = VF i0 ->
  magn_b i0 c = true -> R_ c <= w v - T * R_ (istep i0) ->
  wsafe_below T w base (mk_fleq (FConst (VlF c)) (FVar v)).
Proof. intros T w base v i0 c HT Hv Hg0 Mb0 Hm s Hle Hn.
  destruct (sle_float w s base v i0 Hle Hg0) as (i & Hg & Es & L1 & L2).
  assert (Hvs : (v < length s)%nat) by (destruct Hle as [L _]; lia).
  assert (Hni := Hn v Hvs). rewrite Hg in Hni. change (near_var T (VF i) (w v)) with (near_iv T i (w v)) in Hni.
  assert (Wi : wf i) by apply Hni.
  assert (Mb : magn_b i c = true) by (eapply magn_preserved; eauto).
  destruct (near_tsmin T i c (w v) HT Mb Hni) as (i' & e & Et & Hn' & Hs'). { rewrite Es. lra. }
  assert (Fc : fin c) by (destruct (magn_b_MagnR i c Mb); auto).
  exists (fupd s v (VF i')), (if e then [] ++ [v] else []). split; [|split].
  - cbn [fprune mk_fleq]. unfold prune_fleq, fv_float_const, fv_float_var, fv_is_const.
    cbn [fv_is_float fv_under fst negb andb]. rewrite Hg. cbn [var_is_float andb].
    unfold bound_below. cbn [fv_set_min fv_max fv_min].
    rewrite (xset_min_float s v i c i' e [] Hg Et). cbn [fst]. rewrite fget_fupd_same by auto. cbn [var_max].
    unfold val_gt, val_lt. cbn [as_f].
    destruct Hn' as (W' & _ & Hhi'). simpl in Hs'. destruct Hs' as (Es' & _).
    replace (flt (imax i') c) with false; [reflexivity|].
    symmetry. apply flt_fin_f; [apply W'|exact Fc|]. rewrite Es', Es in Hhi'. lra.
  - apply near_fupd; auto.
  - apply sle_fupd; auto. rewrite Hg. exact Hs'. Qed.

(* Magn w.r.t. a value between two values that are inside Magn *)
Lemma magn_b_between : forall i a b v, magn_b i a = true -> magn_b i b = true -> fin v -> R_ a <= R_ v <= R_ b -> magn_b i v = true.
Proof. intros i a b v Ma Mb Fv (L1 & L2).
  assert (Fbnd : fin (fmul c_2p50 (istep i))) by exact (mg_bfin _ _ (magn_b_MagnR _ _ Ma)).
  assert (Fa : fin a) by exact (mg_v _ _ (magn_b_MagnR _ _ Ma)). assert (Fb : fin b) by exact (mg_v _ _ (magn_b_MagnR _ _ Mb)).
  unfold magn_b in *. repeat rewrite andb_true_iff in *.
  destruct Ma as (((((((F1 & F2) & F3) & F4) & L) & S1) & S2) & ((B1 & B2) & B3)).
  destruct Mb as (_ & ((_ & _) & B3')).
  destruct (fabs_fin _ Fa) as (Ga & Ea). destruct (fabs_fin _ Fb) as (Gb & Eb). destruct (fabs_fin _ Fv) as (Gv & Ev).
  apply fle_fin in B3; auto. apply fle_fin in B3'; auto. rewrite Ea in B3. rewrite Eb in B3'.
  apply Rabs_le_inv in B3. apply Rabs_le_inv in B3'.
  repeat split; auto. apply fle_fin; auto. rewrite Ev. apply Rabs_le. lra. Qed.

(* ---- x <= y between two float variables with the same step, witness margin 2T steps *)
Lemma wsafe_float_le_var : forall T w base x y ix0 iy0, 201/100 <= T -> x <> y ->
  (x < length base)%nat -> (y < length base)%nat -> fget base x = VF ix0 -> fget base y = VF iy0 -> istep ix0 = istep iy0 ->
  magn_b ix0 (imin iy0) = true -> magn_b ix0 (imax iy0) = true -> magn_b iy0 (imin ix0) = true -> magn_b iy0 (imax ix0) = true ->
  w x + 2 * T * R_ (istep ix0) <= w y ->
  wsafe_below T w base (mk_fleq (FVar x) (FVar y)).
Proof. intros T w base x y ix0 iy0 HT Nxy Hx Hy Hgx0 Hgy0 Est M1 M2 M3 M4 Hm s Hle Hn.
  destruct (sle_float w s base x ix0 Hle Hgx0) as (ix & Hgx & Esx & Lx1 & Lx2).
  destruct (sle_float w s base y iy0 Hle Hgy0) as (iy & Hgy & Esy & Ly1 & Ly2).
  assert (Hxs : (x < length s)%nat) by (destruct Hle as [L _]; lia).
  assert (Hys : (y < length s)%nat) by (destruct Hle as [L _]; lia).
  assert (Hnx := Hn x Hxs). rewrite Hgx in Hnx. change (near_var T (VF ix) (w x)) with (near_iv T ix (w x)) in Hnx.
  assert (Hny := Hn y Hys). rewrite Hgy in Hny. change (near_var T (VF iy) (w y)) with (near_iv T iy (w y)) in Hny.
  assert (Wx : wf ix) by apply Hnx. assert (Wy : wf iy) by apply Hny.
  assert (Wx' := Wx). destruct Wx' as (Ax & Bx & Cx & Dx & Ex). assert (Wy' := Wy). destruct Wy' as (Ay & By & Cy & Dy & Ey).
  assert (S0 : 0 < R_ (istep ix0)) by (rewrite <- Esx; auto).
  (* step 1: x.try_set_max(y.max) *)
  assert (Mb1 : magn_b ix (imax iy) = true).
  { apply (magn_preserved ix0 ix (imax iy)); auto. apply (magn_b_between ix0 (imin iy0) (imax iy0)); auto. lra. }
  destruct (near_tsmax T ix (imax iy) (w x) HT Mb1 Hnx) as (ix' & e1 & Et1 & Hnx' & Hsx').
  { destruct Hny as (_ & _ & Hhi). rewrite Esy, <- Est in Hhi. rewrite Esx. lra. }
  set (s1 := fupd s x (VF ix')).
  assert (Hgy1 : fget s1 y = VF iy) by (unfold s1; rewrite fget_fupd_other; auto).
  (* step 2: y.try_set_min(x.min) on the updated store *)
  assert (Wx1 : wf ix') by apply Hnx'. destruct Wx1 as (Ax1 & Bx1 & Cx1 & Dx1 & Ex1).
  simpl in Hsx'. destruct Hsx' as (Es1 & Lm1 & Lm2).
  assert (Mb2 : magn_b iy (imin ix') = true).
  { apply (magn_preserved iy0 iy (imin ix')); auto. apply (magn_b_between iy0 (imin ix0) (imax ix0)); auto. lra. }
  destruct (near_tsmin T iy (imin ix') (w y) HT Mb2 Hny) as (iy' & e2 & Et2 & Hny' & Hsy').
  { destruct Hnx' as (_ & Hlo & _). rewrite Es1, Esx in Hlo. rewrite Esy, <- Est. lra. }
  exists (fupd s1 y (VF iy')), (if e2 then (if e1 then [] ++ [x] else []) ++ [y] else (if e1 then [] ++ [x] else [])).
  split; [|split].
  - cbn [fprune mk_fleq]. unfold prune_fleq, fv_float_const, fv_float_var, fv_is_const.
    cbn [fv_is_float fv_under fst negb andb]. rewrite !andb_false_r. cbn [andb].
    unfold prune_fleq_plain. cbn [fv_set_max fv_set_min fv_max fv_min fst]. rewrite Hgy. cbn [var_max].
    rewrite (xset_max_float s x ix (imax iy) ix' e1 [] Hgx Et1). cbn [fst]. fold s1.
    unfold s1 at 1. rewrite fget_fupd_same by auto. cbn [var_min].
    apply (xset_min_float s1 y iy (imin ix') iy' e2 _ Hgy1 Et2).
  - apply near_fupd; auto. unfold s1. apply near_fupd; auto.
  - eapply sle_trans with s1.
    + apply sle_fupd. unfold s1. rewrite fupd_length. auto. rewrite Hgy1. exact Hsy'.
    + unfold s1. apply sle_fupd; auto. rewrite Hgx. simpl. repeat split; auto. Qed.

(* ================================================================ Stage 3: FloatLinLe -- the reduction *)
Lemma magn_b_bounds : forall i v, magn_b i v = true -> magn_b i (imin i) = true /\ magn_b i (imax i) = true.
Proof. intros i v H. unfold magn_b in *. repeat rewrite andb_true_iff in *.
  destruct H as (((((((F1 & F2) & F3) & F4) & L) & S1) & S2) & ((B1 & B2) & B3)). repeat split; auto. Qed.

(* the bound FloatLinLe computes for position i (coefficient coeff) on store s, and the value it passes to the setter *)
Definition flin_bound (cs : list f64) (vs : list nat) (k : f64) (s : fstore) (i : nat) (coeff : f64) : f64 :=
  fdiv (fsub k (sum_others (fun cj vj => term_min cj s vj) cs vs i 0 c_zero)) coeff.
Definition flin_norm (b : f64) : f64 := if feq b c_zero then c_zero else b.

(* ACCURACY HYPOTHESIS (what the numeric analysis of the binary64 accumulation has to deliver): on every store below the base
   that is near w, whenever the computed bound is finite, it leaves the witness a margin of T steps of the variable *)
Definition flin_acc_ok (T : R) (w : nat -> R) (base : fstore) (cs : list f64) (vs : list nat) (k : f64) : Prop :=
  forall s, sle s base -> near T w s -> forall i coeff v iv, fget s v = VF iv ->
    (fgt coeff c_zero = true -> fis_finite (flin_bound cs vs k s i coeff) = true ->
       w v + T * R_ (istep iv) <= R_ (flin_bound cs vs k s i coeff)) /\
    (fgt coeff c_zero = false -> fis_finite (flin_norm (flin_bound cs vs k s i coeff)) = true ->
       R_ (flin_norm (flin_bound cs vs k s i coeff)) <= w v - T * R_ (istep iv)).
(* the variables of the row are float variables of the base store, inside Magn *)
Definition row_float (base : fstore) (vs : list nat) : Prop :=
  forall v, In v vs -> exists i0, (v < length base)%nat /\ fget base v = VF i0 /\ magn_b i0 (imin i0) = true.

Lemma flin_le_step_near : forall T w base cs vs k, 201/100 <= T -> flin_acc_ok T w base cs vs k ->
  forall i coeff v i0, (v < length base)%nat -> fget base v = VF i0 -> magn_b i0 (imin i0) = true ->
  forall s ev, sle s base -> near T w s ->
  exists s' ev', flin_le_step cs vs k i coeff v (s, ev) = Some (s', ev') /\ near T w s' /\ sle s' s.
Proof. intros T w base cs vs k HT Hacc i coeff v i0 Hv Hg0 Mb0 s ev Hle Hn.
  destruct (sle_float w s base v i0 Hle Hg0) as (iv & Hg & Es & L1 & L2).
  assert (Hvs : (v < length s)%nat) by (destruct Hle as [L _]; lia).
  assert (Hni := Hn v Hvs). rewrite Hg in Hni. change (near_var T (VF iv) (w v)) with (near_iv T iv (w v)) in Hni.
  assert (Wi : wf iv) by apply Hni. assert (Wi' := Wi). destruct Wi' as (A & B & C & D & E).
  assert (Mbv : magn_b iv (imin i0) = true) by (eapply magn_preserved; eauto).
  destruct (magn_b_bounds iv _ Mbv) as (Mmin & Mmax).
  destruct (Hacc s Hle Hn i coeff v iv Hg) as (Hpos & Hneg).
  unfold flin_le_step. destruct (flt (fabs coeff) c_zero_coeff). { exists s, ev. auto using sle_refl. }
  cbn [fst]. fold (flin_bound cs vs k s i coeff).
  destruct Hni as (_ & Hlo & Hhi).
  destruct (fgt coeff c_zero) eqn:Ec.
  - set (b := flin_bound cs vs k s i coeff) in *.
    destruct (fis_finite b) eqn:Fb; [|exists s, ev; auto using sle_refl].
    unfold ub_f. rewrite Hg. cbn [var_max as_f].
    destruct (flt b (imax iv)) eqn:Lt; [|exists s, ev; auto using sle_refl].
    specialize (Hpos eq_refl eq_refl). apply flt_fin in Lt; auto.
    assert (Mb : magn_b iv b = true). { apply (magn_b_between iv (imin iv) (imax iv)); auto. lra. }
    destruct (near_tsmax T iv b (w v) HT Mb (conj Wi (conj Hlo Hhi)) Hpos) as (i' & e & Et & Hn' & Hs').
    exists (fupd s v (VF i')), (if e then ev ++ [v] else ev). split; [apply (xset_max_float s v iv b i' e ev Hg Et)|].
    split. apply near_fupd; auto. apply sle_fupd; auto. rewrite Hg. exact Hs'.
  - set (b := flin_norm (flin_bound cs vs k s i coeff)) in *. fold (flin_norm (flin_bound cs vs k s i coeff)). fold b.
    destruct (fis_finite b) eqn:Fb; [|exists s, ev; auto using sle_refl].
    unfold lb_f. rewrite Hg. cbn [var_min as_f].
    destruct (fgt b (imin iv)) eqn:Gt; [|exists s, ev; auto using sle_refl].
    specialize (Hneg eq_refl eq_refl). apply fgt_fin in Gt; auto.
    assert (Mb : magn_b iv b = true). { apply (magn_b_between iv (imin iv) (imax iv)); auto. lra. }
    destruct (near_tsmin T iv b (w v) HT Mb (conj Wi (conj Hlo Hhi)) Hneg) as (i' & e & Et & Hn' & Hs').
    exists (fupd s v (VF i')), (if e then ev ++ [v] else ev). split; [apply (xset_min_float s v iv b i' e ev Hg Et)|].
    split. apply near_fupd; auto. apply sle_fupd; auto. rewrite Hg. exact Hs'. Qed.

Theorem flin_le_wsafe_partial : forall T w base cs vs k, 201/100 <= T -> row_float base vs -> flin_acc_ok T w base cs vs k ->
  wsafe_below T w base (mk_flin_le cs vs k).
Proof. intros T w base cs vs k HT Hrow Hacc s Hle Hn. cbn [fprune mk_flin_le]. unfold prune_flin_le.
  assert (G : forall cs' vs' i s1 ev1, (forall v, In v vs' -> In v vs) -> sle s1 base -> near T w s1 ->
    exists s' ev', flin_loop (flin_le_step cs vs k) cs' vs' i (s1, ev1) = Some (s', ev') /\ near T w s' /\ sle s' s1).
  { induction cs' as [|c cs' IH]; intros vs' i s1 ev1 Hin Hle1 Hn1; simpl.
    - exists s1, ev1. auto using sle_refl.
    - destruct vs' as [|v vs']. { exists s1, ev1. auto using sle_refl. }
      destruct (Hrow v (Hin v (or_introl eq_refl))) as (i0 & Hv & Hg0 & Mb0).
      destruct (flin_le_step_near T w base cs vs k HT Hacc i c v i0 Hv Hg0 Mb0 s1 ev1 Hle1 Hn1) as (s2 & ev2 & E & Hn2 & Hle2).
      rewrite E.
      destruct (IH vs' (S i) s2 ev2) as (s3 & ev3 & E3 & Hn3 & Hle3); auto.
      { intros u Hu. apply Hin. right; auto. } { eapply sle_trans; eauto. }
      exists s3, ev3. split; auto. split; auto. eapply sle_trans; eauto. }
  destruct (G cs vs 0%nat s [] (fun v H => H) Hle Hn) as (s' & ev' & E & Hn' & Hle'). eauto. Qed.

(* ================================================================ Stage 3: the accumulation-error lemma *)
(* `acc += term` in binary64, left to right, as FloatLinLe / FloatLinEq accumulate min_other / max_other *)
Definition fsum (ts : list f64) (acc : f64) : f64 := fold_left fadd ts acc.
Fixpoint rsum (ts : list f64) : R := match ts with [] => 0 | t :: r => R_ t + rsum r end.
Fixpoint rabs_sum (ts : list f64) : R := match ts with [] => 0 | t :: r => Rabs (R_ t) + rabs_sum r end.
(* no overflow: every partial sum is finite *)
Fixpoint fsum_fin (ts : list f64) (acc : f64) : Prop :=
  match ts with [] => True | t :: r => fin (fadd acc t) /\ fsum_fin r (fadd acc t) end.
Definition eta0 : R := bpow radix2 (-1075).
(* the error recurrence: one rounding adds at most u*(A + e) + eta to the error e, A bounding every exact partial sum *)
Fixpoint err_after (n : nat) (A e : R) : R :=
  match n with O => e | S n' => err_after n' A (e + u53 * (A + e) + eta0) end.

Lemma rabs_sum_nonneg : forall ts, 0 <= rabs_sum ts.
Proof. induction ts; simpl. lra. generalize (Rabs_pos (R_ a)). lra. Qed.
Lemma err_after_mono : forall n A e e', e <= e' -> err_after n A e <= err_after n A e'.
Proof. induction n; simpl; intros; auto. apply IHn. unfold u53. lra. Qed.

(* if the accumulator is within e of x, and |x| + sum|t_j| <= A, then after adding the terms it is within
   err_after (length ts) A e of x + sum t_j *)
Lemma fsum_error : forall ts acc x A e, fin acc -> Forall fin ts -> fsum_fin ts acc -> 0 <= e ->
  Rabs (R_ acc - x) <= e -> Rabs x + rabs_sum ts <= A ->
  fin (fsum ts acc) /\ Rabs (R_ (fsum ts acc) - (x + rsum ts)) <= err_after (length ts) A e.
Proof. induction ts as [|t ts IH]; intros acc x A e Fa Ft Ff He Hx HA; simpl.
  - split; auto. rewrite Rplus_0_r. auto.
  - inversion Ft; subst. destruct Ff as (F1 & Ff). simpl in HA.
    assert (Eq := fadd_fin_eq acc t Fa H1 F1).
    destruct (RN_err (R_ acc + R_ t)) as (eta & Heta & Herr).
    assert (Hnew : Rabs (R_ (fadd acc t) - (x + R_ t)) <= e + u53 * (A + e) + eta0).
    { rewrite Eq. replace (RN (R_ acc + R_ t) - (x + R_ t)) with ((RN (R_ acc + R_ t) - (R_ acc + R_ t)) + (R_ acc - x)) by lra.
      eapply Rle_trans. apply Rabs_triang.
      assert (Rabs (R_ acc + R_ t) <= A + e).
      { replace (R_ acc + R_ t) with ((R_ acc - x) + (x + R_ t)) by lra. eapply Rle_trans. apply Rabs_triang.
        assert (Rabs (x + R_ t) <= Rabs x + Rabs (R_ t)) by apply Rabs_triang.
        generalize (rabs_sum_nonneg ts). lra. }
      assert (u53 * Rabs (R_ acc + R_ t) <= u53 * (A + e)) by (apply Rmult_le_compat_l; auto; unfold u53; lra).
      unfold eta0. lra. }
    assert (He' : 0 <= e + u53 * (A + e) + eta0).
    { eapply Rle_trans; [apply Rabs_pos|exact Hnew]. }
    destruct (IH (fadd acc t) (x + R_ t) A (e + u53 * (A + e) + eta0) F1 H2 Ff He' Hnew) as (Ffin & Hfin).
    { eapply Rle_trans; [|exact HA]. assert (Rabs (x + R_ t) <= Rabs x + Rabs (R_ t)) by apply Rabs_triang. lra. }
    split; auto. replace (x + (R_ t + rsum ts)) with (x + R_ t + rsum ts) by lra. exact Hfin. Qed.

(* closed form: as long as 2*u*n <= 1 (n <= 2^52 terms) the error grows at most linearly, n*(2*u*A + 2*eta) *)
Lemma err_after_linear : forall n A e k, 0 <= A -> 0 <= e -> e <= INR k * (2 * u53 * A + 2 * eta0) ->
  2 * u53 * INR (k + n) <= 1 -> err_after n A e <= INR (k + n) * (2 * u53 * A + 2 * eta0).
Proof. induction n as [|n IH]; intros A e k HA He Hk Hn; simpl.
  - rewrite Nat.add_0_r. auto.
  - replace (k + S n)%nat with (S k + n)%nat in * by lia.
    assert (E0 : 0 < eta0) by (unfold eta0; apply bpow_gt_0).
    apply IH; auto.
    + unfold u53. lra.
    + rewrite S_INR. set (c := 2 * u53 * A + 2 * eta0) in *.
      assert (Hk1 : 2 * u53 * INR k <= 1).
      { eapply Rle_trans; [|exact Hn]. apply Rmult_le_compat_l. unfold u53; lra. apply le_INR. lia. }
      assert (u53 * e <= u53 * (INR k * c)) by (apply Rmult_le_compat_l; auto; unfold u53; lra).
      assert (0 <= c) by (unfold c, u53; nra).
      assert (u53 * (INR k * c) <= c / 2). { replace (u53 * (INR k * c)) with ((2 * u53 * INR k) * (c / 2)) by lra. nra. }
      unfold c in *. lra. Qed.

Theorem fsum_error_linear : forall ts acc, fin acc -> Forall fin ts -> fsum_fin ts acc ->
  2 * u53 * INR (length ts) <= 1 ->
  Rabs (R_ (fsum ts acc) - (R_ acc + rsum ts)) <= INR (length ts) * (2 * u53 * (Rabs (R_ acc) + rabs_sum ts) + 2 * eta0).
Proof. intros ts acc Fa Ft Ff Hn.
  destruct (fsum_error ts acc (R_ acc) (Rabs (R_ acc) + rabs_sum ts) 0 Fa Ft Ff (Rle_refl 0)) as (_ & H).
  - rewrite Rminus_diag_eq by reflexivity. rewrite Rabs_R0. lra.
  - lra.
  - eapply Rle_trans. exact H.
    apply (err_after_linear (length ts) _ 0 0%nat).
    + generalize (Rabs_pos (R_ acc)) (rabs_sum_nonneg ts). lra.
    + lra.
    + simpl. lra.
    + simpl. exact Hn. Qed.

(* the accumulation of FloatLinLe IS such a sum: sum_others = fsum over the terms of the other positions *)
Fixpoint other_terms (term : f64 -> nat -> f64) (cs : list f64) (vs : list nat) (i j : nat) : list f64 :=
  match cs, vs with
  | c :: cs', v :: vs' => if Nat.eqb i j then other_terms term cs' vs' i (S j) else term c v :: other_terms term cs' vs' i (S j)
  | _, _ => []
  end.
Lemma sum_others_fsum : forall term cs vs i j acc, sum_others term cs vs i j acc = fsum (other_terms term cs vs i j) acc.
Proof. intros term. induction cs as [|c cs IH]; intros vs i j acc; simpl; auto.
  destruct vs as [|v vs]; simpl; auto. destruct (Nat.eqb i j); simpl; apply IH. Qed.

(* ================================================================ acceptance of the fast path's candidate (C08)
   Model/FloatDispatch.v, fp_accepts = Model::accepts_candidate.  Structural facts only: what an accepted candidate has
   been through.  Nothing is assumed about the propagators (any list of fprop) or about the candidate. *)
Require Import Selen.Model.FloatDispatch.

Lemma schedule_keeps : forall q x p, In p q -> In p (schedule q x).
Proof. intros q x p H. unfold schedule. destruct (memn x q); auto. apply in_or_app; auto. Qed.
Lemma schedule_self : forall q p, In p (schedule q p).
Proof. intros q p. unfold schedule. destruct (memn p q) eqn:E.
  - unfold memn in E. apply existsb_exists in E. destruct E as (y & Hy & E). apply Nat.eqb_eq in E. subst; auto.
  - apply in_or_app; right; left; auto. Qed.
Lemma fold_schedule_keeps : forall l q p, In p q -> In p (fold_left schedule l q).
Proof. induction l as [|x l IH]; simpl; intros q p H; auto. apply IH. apply schedule_keeps; auto. Qed.
Lemma fold_schedule_all : forall l q p, In p l -> In p (fold_left schedule l q).
Proof. induction l as [|x l IH]; simpl; intros q p H. contradiction.
  destruct H as [<-|H]. apply fold_schedule_keeps. apply schedule_self. apply IH; auto. Qed.
Lemma fschedule_events_keeps : forall ps ev q p, In p q -> In p (fschedule_events ps q ev).
Proof. intros ps ev. unfold fschedule_events. induction ev as [|v ev IH]; simpl; intros q p H; auto.
  apply IH. apply fold_schedule_keeps; auto. Qed.

(* the propagator with PropId p was run and did not fail *)
Definition ran_ok (ps : list fprop) (p : nat) : Prop :=
  exists pr st st' ev, nth_error ps p = Some pr /\ fprune pr (st, []) = Some (st', ev).

(* a propagation that ends normally has run every propagator that was ever on the agenda, and none of the runs failed *)
Lemma fpropagate_done_runs : forall pf ps s q s' lft, fpropagate pf ps s q = (FPDone s', lft) ->
  forall p, In p q -> ran_ok ps p.
Proof. induction pf as [|f IH]; intros ps s q s' lft H p Hp.
  - destruct q; simpl in H; [contradiction|discriminate].
  - destruct q as [|x q']; [contradiction|]. simpl in H.
    destruct (nth_error ps x) as [pr|] eqn:En; [|discriminate].
    destruct (fprune pr (s, [])) as [[s1 ev]|] eqn:Ep; [|discriminate].
    destruct Hp as [<-|Hp].
    + exists pr, s, s1, ev. auto.
    + eapply IH; [exact H|]. apply fschedule_events_keeps; auto. Qed.

Lemma passes_propagation_runs_all : forall pf ps s s', passes_propagation pf ps s = Some s' ->
  fpropagate_all pf ps s = FPDone s' /\ forall p, (p < length ps)%nat -> ran_ok ps p.
Proof. intros pf ps s s' H. unfold passes_propagation in H.
  destruct (fpropagate_all pf ps s) as [| |s1] eqn:E; try discriminate. inversion H; subst. split; auto.
  intros p Hp. unfold fpropagate_all in E.
  destruct (fpropagate pf ps s (agenda_with (seq 0 (length ps)))) as [r lft] eqn:E2. simpl in E. subst r.
  eapply fpropagate_done_runs; [exact E2|]. unfold agenda_with. apply fold_schedule_all. apply in_seq. lia. Qed.

(* the store the check starts from holds exactly the candidate, and every candidate value was in its variable's domain *)
Definition in_domain (x : fvar) (c : fval) : Prop :=
  match x, c with
  | VI d, VlI z => In z d
  | VF i, VlF v => fi_contains i v = true
  | _, _ => False
  end.
Lemma fix_var_spec : forall x c y, fix_var x c = Some y -> in_domain x c /\ var_value y = c /\ var_max y = c.
Proof. intros x c y H. destruct x as [d|i], c as [z|v]; simpl in H; try discriminate.
  - destruct (existsb (Z.eqb z) d) eqn:E; [|discriminate]. inversion H; subst. simpl. split; auto.
    apply existsb_exists in E. destruct E as (w & Hw & E). apply Z.eqb_eq in E. subst; auto.
  - destruct (fi_contains i v) eqn:E; simpl in H; [|discriminate].
    destruct (negb (fi_is_empty (mkfi v v (istep i)))); [|discriminate]. inversion H; subst. simpl. auto. Qed.
Lemma fix_all_spec : forall s cand s0, fix_all s cand = Some s0 ->
  Forall2 in_domain s cand /\ map var_value s0 = cand /\ map var_max s0 = cand.
Proof. induction s as [|x s IH]; intros cand s0 H; destruct cand as [|c cand]; simpl in H; try discriminate.
  - inversion H; subst. simpl. auto.
  - destruct (fix_var x c) as [y|] eqn:Ey; [|discriminate].
    destruct (fix_all s cand) as [r|] eqn:Er; [|discriminate]. inversion H; subst.
    destruct (fix_var_spec _ _ _ Ey) as (A & B & C). destruct (IH _ _ Er) as (D & E & F).
    simpl. repeat split; auto; congruence. Qed.

Theorem fp_accepts_checked : forall mn pf ps s obj cand, fp_accepts mn pf ps s obj cand = true ->
  exists s0 sf sr,
    (* every value is in its variable's domain and the check starts from the store that holds exactly the candidate *)
    Forall2 in_domain s cand /\ fix_all s cand = Some s0 /\ map var_value s0 = cand /\ map var_max s0 = cand /\
    (* from there the ordinary propagation ends normally: every propagator of the model was run, no run failed *)
    fpropagate_all pf ps s0 = FPDone sf /\ (forall p, (p < length ps)%nat -> ran_ok ps p) /\
    (* the model itself propagates, and the candidate's objective attains the bound that propagation leaves *)
    fpropagate_all pf ps s = FPDone sr /\
    (if mn then val_le (fv_min obj sf) (val_add (fv_min obj sr) (fp_slack obj s))
     else val_ge (val_add (fv_max obj sf) (fp_slack obj s)) (fv_max obj sr)) = true.
Proof. intros mn pf ps s obj cand H. unfold fp_accepts, fp_feasible in H.
  destruct (fix_all s cand) as [s0|] eqn:E0; [|discriminate].
  destruct (passes_propagation pf ps s0) as [sf|] eqn:Ef; [|discriminate].
  destruct (passes_propagation pf ps s) as [sr|] eqn:Er; [|discriminate].
  destruct (fix_all_spec _ _ _ E0) as (A & B & C).
  destruct (passes_propagation_runs_all _ _ _ _ Ef) as (D & E).
  destruct (passes_propagation_runs_all _ _ _ _ Er) as (F & _).
  exists s0, sf, sr. repeat split; auto. Qed.

(* conversely nothing else is needed: the acceptance is exactly these conditions *)
Theorem fp_rejects : forall mn pf ps s obj cand,
  (fix_all s cand = None \/ (exists s0, fix_all s cand = Some s0 /\ passes_propagation pf ps s0 = None) \/ passes_propagation pf ps s = None) ->
  fp_accepts mn pf ps s obj cand = false.
Proof. intros mn pf ps s obj cand H. unfold fp_accepts, fp_feasible.
  destruct H as [H|[(s0 & H & H2)|H]].
  - rewrite H. auto.
  - rewrite H, H2. auto.
  - destruct (fix_all s cand) as [s0|]; auto. destruct (passes_propagation pf ps s0); auto. rewrite H. auto. Qed.
