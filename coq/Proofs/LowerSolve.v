(* From the lowered model to enumerate's answer: lower_denotes (C10) composed with
   enumerate_exact (C03).  The propagator records come from a denotation `den : pdesc -> prop`
   whose `sat` is `psat`; that every record met the local contracts (C05) is a premise. *)
Require Import Selen.Model.Prelude Selen.Model.Dom Selen.Model.Views Selen.Model.PropDefs.
Require Import Selen.Model.Props.Basic Selen.Model.Props.LinInt Selen.Model.Propagate Selen.Model.Search Selen.Model.EngineSpec.
Require Import Selen.Model.Api Selen.Model.Lower.
Require Import Selen.Proofs.DomProofs Selen.Proofs.Props.BasicProofs Selen.Proofs.EngineProofs Selen.Proofs.LowerProofs.
Require Selen.Proofs.Props.NeqProofs Selen.Proofs.Props.LogicProofs Selen.Proofs.Props.LinIntProofs.

Lemma fixed_asg : forall (t : store) a v, all_fixed t = true -> inst a t -> (v < length t)%nat -> asg_of t v = a v.
Proof.
  intros t a v Hf Hi Hv. unfold all_fixed in Hf. rewrite forallb_forall in Hf.
  assert (Hd : dfixed (sget t v) = true) by (apply Hf; unfold sget; apply nth_In; exact Hv).
  apply dfixed_single in Hd. destruct Hd as [x Hx]. unfold asg_of. rewrite Hx. simpl.
  specialize (Hi v Hv). rewrite Hx in Hi. destruct Hi as [<-|[]]. reflexivity.
Qed.

Section Solve.
  Variable den : pdesc -> prop.
  Hypothesis den_sat : forall p a, sat (den p) a = psat p a.

  Lemma sol_allsat : forall ps s a, sol (map den ps) s a <-> inst a s /\ allsat ps a.
  Proof.
    intros ps s a; unfold sol, allsat; split; intros [Hi H]; split; try exact Hi.
    - intros p Hp. rewrite <- den_sat. apply H. apply in_map; exact Hp.
    - intros q Hq. apply in_map_iff in Hq. destruct Hq as [p [<- Hp]]. rewrite den_sat. apply H; exact Hp.
  Qed.

  (* C10 + C03: enumerate on the lowered model yields exactly the assignments of the declared
     domains at which every posted tree evaluates to true (projected on the user's variables).
     The in-range condition of lower_denotes (doms_nonempty s) follows from wf_store s. *)
  Theorem fluent_model_solutions : forall decls posts s ps pick sols best,
    forallb is_decl decls = true ->
    Forall (post_wf (length decls)) posts ->
    lower (build (decls ++ posts)) = LOk s ps ->
    Forall good (map den ps) -> scoped (map den ps) (length s) -> wf_store s ->
    enumerate pick (map den ps) s = SOk sols best ->
    let means a := inst a (map decl_dom decls) /\ forall st c, In st posts -> stmt_cons st = Some c -> eval_cons c a = Some true in
    NoDup sols /\
    (forall t, In t sols -> all_fixed t = true /\ means (asg_of t)) /\
    (forall a, means a -> exists t, In t sols /\ agree (length decls) a (asg_of t)).
  Proof.
    intros decls posts s ps pick sols best Hd Hw Hl Hg Hsc Hwf He means.
    pose proof (wf_store_nonempty s Hwf) as Hne.
    destruct (EngineProofs.enumerate_exact BasicProofs.mk_leq_good BasicProofs.mk_gt_good BasicProofs.mk_lt_good
                pick (map den ps) s sols best Hg Hsc Hwf He) as [Nd [Snd Cmp]].
    split; [exact Nd|]. split.
    - intros t Ht. destruct (Snd t Ht) as [Hf [_ Hs]]. split; [exact Hf|].
      apply sol_allsat in Hs. destruct Hs as [Hi Hs].
      apply (lower_denotes decls posts Hd Hw s ps Hl Hne (asg_of t)).
      exists (asg_of t). split; [apply agree_refl|auto].
    - intros a Ha. apply (lower_denotes decls posts Hd Hw s ps Hl Hne a) in Ha.
      destruct Ha as [a' [A [Hi Hs]]].
      destruct (Cmp a' (proj2 (sol_allsat ps s a') (conj Hi Hs))) as [t [Ht Hit]].
      exists t. split; [exact Ht|]. destruct (Snd t Ht) as [Hf [[Hlen _] _]].
      intros v Hv. rewrite (fixed_asg t a' v Hf Hit).
      + apply A; exact Hv.
      + rewrite Hlen.
        pose proof (lower_nvars decls posts Hd Hw s ps Hl) as L.
        lia.
  Qed.
End Solve.

(* the kinds of Props/Basic.v, Props/LinInt.v and Props/Logic.v; Mul / Modulo come from Props/Arith.v *)
Definition den_basic (p : pdesc) : prop :=
  match denote_basic p with Some q => q | None => mkprop (fun c => Some c) (psat p) [] end.
Lemma den_basic_sat : forall p a, sat (den_basic p) a = psat p a.
Proof. intros p a; destruct p; try reflexivity. destruct op; reflexivity. Qed.

(* the lowered `!=` (Propagators::not_equals, Props/Neq.v after the repair 106df3d) meets the local
   contracts, so the premise `Forall good` of fluent_model_solutions can be discharged for it *)
Lemma pneq_good : forall x y, view_ok x -> view_ok y -> good (den_basic (PNeq x y)).
Proof. intros x y Hx Hy. exact (NeqProofs.mk_neq_good x y Hx Hy). Qed.

(* D3 repaired, end to end: x, y in 0..1, (x != y) /\ (x <= 1): the nested != is lowered to the
   NotEquals propagator, which now prunes: the engine yields exactly (0,1) and (1,0) *)
Lemma nested_ne_repaired : exists s ps sols best,
  let c := CAnd (CBin x0 ONe x1) (CBin x0 OLe (EVal 1)) in
  lower (build ([SInt 0 1; SInt 0 1] ++ [SNew c])) = LOk s ps /\
  enumerate fifo (map den_basic ps) s = SOk sols best /\ length sols = 2%nat /\
  forall t, In t sols -> eval_cons c (asg_of t) = Some true.
Proof.
  do 4 eexists. cbv zeta.
  split; [vm_compute; reflexivity|]. split; [vm_compute; reflexivity|]. split; [reflexivity|].
  intros t [<-|[<-|[]]]; reflexivity.
Qed.

(* the pre-repair behaviour, for the record: with the former no-op record (Props/Basic.v
   mk_neq_noop, neq.rs before 106df3d) in place of mk_neq the same lowered model yields x = y = 0 *)
Definition den_basic_prefix (p : pdesc) : prop :=
  match p with PNeq x y => mk_neq_noop x y | _ => den_basic p end.
Lemma nested_ne_prefix_refuted : exists s ps sols best t,
  let c := CAnd (CBin x0 ONe x1) (CBin x0 OLe (EVal 1)) in
  lower (build ([SInt 0 1; SInt 0 1] ++ [SNew c])) = LOk s ps /\
  enumerate fifo (map den_basic_prefix ps) s = SOk sols best /\ In t sols /\ eval_cons c (asg_of t) = Some false.
Proof.
  do 4 eexists. exists [[0]; [0]; [1]]. cbv zeta.
  split; [vm_compute; reflexivity|]. split; [vm_compute; reflexivity|]. split; [simpl; auto|reflexivity].
Qed.

(* ---- D3 repaired (Or / Not lowered through reification) ---- *)
(* the propagators the reified lowering pushes meet the local contracts (C05_Logic, C05): the premise
   `Forall good` of fluent_model_solutions can be discharged for them *)
Lemma pcmpr_good : forall op x y b, good (den_basic (PCmpR op x y b)).
Proof.
  intros op x y b; destruct op;
  [exact (LogicProofs.mk_eq_reif_good x y b)|exact (LogicProofs.mk_ne_reif_good x y b)|exact (LogicProofs.mk_lt_reif_good x y b)
  |exact (LogicProofs.mk_le_reif_good x y b)|exact (LogicProofs.mk_gt_reif_good x y b)|exact (LogicProofs.mk_ge_reif_good x y b)].
Qed.
Lemma pandr_good : forall xs r, good (den_basic (PAndR xs r)).
Proof. intros; exact (LogicProofs.mk_band_good xs r). Qed.
Lemma porr_good : forall xs r, good (den_basic (POrR xs r)).
Proof. intros; exact (LogicProofs.mk_bor_good xs r). Qed.
Lemma pnotr_good : forall o r, good (den_basic (PNotR o r)).
Proof. intros; exact (LogicProofs.mk_bnot_good o r). Qed.
Lemma plinr_good : forall cs xs k b, all_zero cs xs = false ->
  good (den_basic (PLinEqR cs xs k b)) /\ good (den_basic (PLinLeR cs xs k b)) /\ good (den_basic (PLinNeR cs xs k b)).
Proof.
  intros cs xs k b H. split; [exact (LinIntProofs.mk_lin_eq_reif_good cs xs k b H)|].
  split; [exact (LinIntProofs.mk_lin_le_reif_good cs xs k b H)|exact (LinIntProofs.mk_lin_ne_reif_good cs xs k b H)].
Qed.

(* end to end: x in 0..3.  x <= 1 \/ x >= 3 enumerates exactly x = 0, 1, 3; not (x <= 1) exactly x = 2, 3;
   not (x <= 0 \/ (x >= 2 /\ x != 3)) (nested combinators) exactly x = 1, 3 -- each solution once *)
Definition user0 (sols : list store) : list Z := map (fun t => asg_of t 0%nat) sols.
Lemma or_not_repaired_enumerate :
  (exists s ps sols best,
    lower (build ([SInt 0 3] ++ [SNew c_or_w])) = LOk s ps /\
    enumerate fifo (map den_basic ps) s = SOk sols best /\ user0 sols = [0; 1; 3]) /\
  (exists s ps sols best,
    lower (build ([SInt 0 3] ++ [SNew c_not_w])) = LOk s ps /\
    enumerate fifo (map den_basic ps) s = SOk sols best /\ user0 sols = [2; 3]) /\
  (exists s ps sols best,
    let c := CNot (COr (CBin x0 OLe (EVal 0)) (CAnd (CBin x0 OGe (EVal 2)) (CBin x0 ONe (EVal 3)))) in
    lower (build ([SInt 0 3] ++ [SNew c])) = LOk s ps /\
    enumerate fifo (map den_basic ps) s = SOk sols best /\ user0 sols = [1; 3]).
Proof.
  split; [|split]; do 4 eexists; cbv zeta;
  (split; [vm_compute; reflexivity|]); (split; [vm_compute; reflexivity|]); vm_compute; reflexivity.
Qed.
