(* From the lowered model to enumerate's answer: lower_denotes (C10) composed with
   enumerate_exact (C03).  The propagator records come from a denotation `den : pdesc -> prop`
   whose `sat` is `psat`; that every record met the local contracts (C05) is a premise. *)
Require Import Selen.Model.Prelude Selen.Model.Dom Selen.Model.Views Selen.Model.PropDefs.
Require Import Selen.Model.Props.Basic Selen.Model.Props.LinInt Selen.Model.Propagate Selen.Model.Search Selen.Model.EngineSpec.
Require Import Selen.Model.Api Selen.Model.Lower.
Require Import Selen.Proofs.DomProofs Selen.Proofs.Props.BasicProofs Selen.Proofs.EngineProofs Selen.Proofs.LowerProofs.
Require Selen.Proofs.Props.NeqProofs.

Lemma fixed_asg : forall (t : store) a v, all_fixed t = true -> inst a t -> (v < length t)%nat -> asg_of t v = a v.
Proof.
  intros t a v Hf Hi Hv. unfold all_fixed in Hf. rewrite forallb_forall in Hf.
  assert (Hd : dfixed (sget t v) = true) by (apply Hf; unfold sget; apply nth_In; exact Hv).
  apply dfixed_single in Hd. destruct Hd as [x Hx]. unfold asg_of. rewrite Hx. simpl.
  specialize (Hi v Hv). rewrite Hx in Hi. destruct Hi as [<-|[]]. reflexivity.
Qed.

Section Solve.
  Variable den : pdesc -> prop.
  Hypothesis den_sat : forall p a, sat (den p) a = psat p a.

  Lemma sol_allsat : forall ps s a, sol (map den ps) s a <-> inst a s /\ allsat ps a.
  Proof.
    intros ps s a; unfold sol, allsat; split; intros [Hi H]; split; try exact Hi.
    - intros p Hp. rewrite <- den_sat. apply H. apply in_map; exact Hp.
    - intros q Hq. apply in_map_iff in Hq. destruct Hq as [p [<- Hp]]. rewrite den_sat. apply H; exact Hp.
  Qed.

  (* C10 + C03: enumerate on the lowered model yields exactly the assignments of the declared
     domains at which every posted tree evaluates to true (projected on the user's variables).
     The in-range condition of lower_denotes (doms_nonempty s) follows from wf_store s. *)
  Theorem fluent_model_solutions : forall decls posts s ps pick sols best,
    forallb is_decl decls = true ->
    Forall (post_wf (length decls)) posts ->
    (forall c, In (SNew c) posts -> kf_or_not (fold_cons c) = false) ->
    lower (build (decls ++ posts)) = LOk s ps ->
    Forall good (map den ps) -> scoped (map den ps) (length s) -> wf_store s ->
    enumerate pick (map den ps) s = SOk sols best ->
    let means a := inst a (map decl_dom decls) /\ forall st c, In st posts -> stmt_cons st = Some c -> eval_cons c a = Some true in
    NoDup sols /\
    (forall t, In t sols -> all_fixed t = true /\ means (asg_of t)) /\
    (forall a, means a -> exists t, In t sols /\ agree (length decls) a (asg_of t)).
  Proof.
    intros decls posts s ps pick sols best Hd Hw Hk Hl Hg Hsc Hwf He means.
    pose proof (wf_store_nonempty s Hwf) as Hne.
    destruct (EngineProofs.enumerate_exact BasicProofs.mk_leq_good BasicProofs.mk_gt_good BasicProofs.mk_lt_good
                pick (map den ps) s sols best Hg Hsc Hwf He) as [Nd [Snd Cmp]].
    split; [exact Nd|]. split.
    - intros t Ht. destruct (Snd t Ht) as [Hf [_ Hs]]. split; [exact Hf|].
      apply sol_allsat in Hs. destruct Hs as [Hi Hs].
      apply (lower_denotes decls posts Hd Hw Hk s ps Hl Hne (asg_of t)).
      exists (asg_of t). split; [apply agree_refl|auto].
    - intros a Ha. apply (lower_denotes decls posts Hd Hw Hk s ps Hl Hne a) in Ha.
      destruct Ha as [a' [A [Hi Hs]]].
      destruct (Cmp a' (proj2 (sol_allsat ps s a') (conj Hi Hs))) as [t [Ht Hit]].
      exists t. split; [exact Ht|]. destruct (Snd t Ht) as [Hf [[Hlen _] _]].
      intros v Hv. rewrite (fixed_asg t a' v Hf Hit).
      + apply A; exact Hv.
      + rewrite Hlen.
        pose proof (lower_nvars decls posts Hd Hw s ps Hl) as L.
        lia.
  Qed.
End Solve.

(* the kinds of Props/Basic.v and Props/LinInt.v; Mul / Modulo come from Props/Arith.v *)
Definition den_basic (p : pdesc) : prop :=
  match denote_basic p with Some q => q | None => mkprop (fun c => Some c) (psat p) [] end.
Lemma den_basic_sat : forall p a, sat (den_basic p) a = psat p a.
Proof. intros p a; destruct p; reflexivity. Qed.

(* the lowered `!=` (Propagators::not_equals, Props/Neq.v after the repair 106df3d) meets the local
   contracts, so the premise `Forall good` of fluent_model_solutions can be discharged for it *)
Lemma pneq_good : forall x y, view_ok x -> view_ok y -> good (den_basic (PNeq x y)).
Proof. intros x y Hx Hy. exact (NeqProofs.mk_neq_good x y Hx Hy). Qed.

(* D3 repaired, end to end: x, y in 0..1, (x != y) /\ (x <= 1): the nested != is lowered to the
   NotEquals propagator, which now prunes: the engine yields exactly (0,1) and (1,0) *)
Lemma nested_ne_repaired : exists s ps sols best,
  let c := CAnd (CBin x0 ONe x1) (CBin x0 OLe (EVal 1)) in
  lower (build ([SInt 0 1; SInt 0 1] ++ [SNew c])) = LOk s ps /\
  enumerate fifo (map den_basic ps) s = SOk sols best /\ length sols = 2%nat /\
  forall t, In t sols -> eval_cons c (asg_of t) = Some true.
Proof.
  do 4 eexists. cbv zeta.
  split; [vm_compute; reflexivity|]. split; [vm_compute; reflexivity|]. split; [reflexivity|].
  intros t [<-|[<-|[]]]; reflexivity.
Qed.

(* the pre-repair behaviour, for the record: with the former no-op record (Props/Basic.v
   mk_neq_noop, neq.rs before 106df3d) in place of mk_neq the same lowered model yields x = y = 0 *)
Definition den_basic_prefix (p : pdesc) : prop :=
  match p with PNeq x y => mk_neq_noop x y | _ => den_basic p end.
Lemma nested_ne_prefix_refuted : exists s ps sols best t,
  let c := CAnd (CBin x0 ONe x1) (CBin x0 OLe (EVal 1)) in
  lower (build ([SInt 0 1; SInt 0 1] ++ [SNew c])) = LOk s ps /\
  enumerate fifo (map den_basic_prefix ps) s = SOk sols best /\ In t sols /\ eval_cons c (asg_of t) = Some false.
Proof.
  do 4 eexists. exists [[0]; [0]; [1]]. cbv zeta.
  split; [vm_compute; reflexivity|]. split; [vm_compute; reflexivity|]. split; [simpl; auto|reflexivity].
Qed.
