(* Proofs for property C11: the sparse set refines a plain mathematical set under any history
   (excluding the known class D7, restore after a union_with that added an element). *)
Require Import Selen.Model.Prelude Selen.Model.SparseSet Selen.Model.SetSpec.
From Coq Require Import Arith.

Local Open Scope nat_scope.

(* ------------------------------------------------------------------------------------------ *)
(* Generic list lemmas *)

Lemma find_seq_min : forall (f : nat -> bool) k a w,
  find f (seq a k) = Some w ->
  f w = true /\ a <= w < a + k /\ forall u, a <= u < w -> f u = false.
Proof.
  induction k as [|k IH]; intros a w H; cbn [seq find] in H.
  - discriminate.
  - destruct (f a) eqn:E.
    + inversion H; subst. split; [assumption|]. split; [lia|]. intros u Hu; lia.
    + apply IH in H. destruct H as (H1 & H2 & H3). split; [assumption|]. split; [lia|].
      intros u Hu. destruct (Nat.eq_dec u a) as [->|Hne]; [assumption|]. apply H3; lia.
Qed.

Lemma find_rev_seq_max : forall (f : nat -> bool) k a w,
  find f (rev (seq a k)) = Some w ->
  f w = true /\ a <= w < a + k /\ forall u, w < u < a + k -> f u = false.
Proof.
  induction k as [|k IH]; intros a w H.
  - cbn in H. discriminate.
  - rewrite seq_S, rev_app_distr in H. cbn [rev app find] in H.
    destruct (f (a + k)) eqn:E.
    + inversion H; subst. split; [assumption|]. split; [lia|]. intros u Hu; lia.
    + apply IH in H. destruct H as (H1 & H2 & H3). split; [assumption|]. split; [lia|].
      intros u Hu. destruct (Nat.eq_dec u (a + k)) as [->|Hne]; [assumption|]. apply H3; lia.
Qed.

Lemma NoDup_map_inj_on : forall (A B : Type) (f : A -> B) (l : list A),
  NoDup l -> (forall a b, In a l -> In b l -> f a = f b -> a = b) -> NoDup (map f l).
Proof.
  intros A B f l Hnd. induction Hnd as [|a l Hni Hnd IH]; intros Hinj; cbn [map].
  - constructor.
  - constructor.
    + intros Hin. apply in_map_iff in Hin. destruct Hin as (b & Hb & Hbl).
      assert (b = a) by (apply Hinj; [right; assumption | left; reflexivity | assumption]).
      subst. contradiction.
    + apply IH. intros x y Hx Hy. apply Hinj; right; assumption.
Qed.

Lemma nth_error_firstn_lt : forall (A : Type) (l : list A) k i,
  i < k -> nth_error (firstn k l) i = nth_error l i.
Proof.
  intros A l. induction l as [|a l IH]; intros k i H.
  - rewrite firstn_nil. reflexivity.
  - destruct k; [lia|]. destruct i; cbn [firstn nth_error]; [reflexivity|]. apply IH. lia.
Qed.

Lemma nth_error_firstn_ge : forall (A : Type) (l : list A) k i,
  k <= i -> nth_error (firstn k l) i = None.
Proof.
  intros A l k i H. apply nth_error_None. pose proof (firstn_le_length k l). lia.
Qed.

Lemma zrange_aux_In : forall k lo y, In y (zrange_aux lo k) <-> (lo <= y < lo + Z.of_nat k)%Z.
Proof.
  induction k as [|k IH]; intros lo y; cbn [zrange_aux In].
  - split; [tauto | lia].
  - rewrite IH. lia.
Qed.

Lemma zrange_In : forall lo hi y, In y (zrange lo hi) <-> (lo <= y < hi)%Z.
Proof.
  intros lo hi y. unfold zrange. rewrite zrange_aux_In. lia.
Qed.

Lemma memZ_In : forall x l, memZ x l = true <-> In x l.
Proof.
  intros x l. unfold memZ. rewrite existsb_exists. split.
  - intros (y & Hy & He). apply Z.eqb_eq in He. subst. assumption.
  - intros H. exists x. split; [assumption | apply Z.eqb_refl].
Qed.

Lemma list_min_le : forall l d, (list_min d l <= d)%Z /\ forall y, In y l -> (list_min d l <= y)%Z.
Proof.
  induction l as [|a l IH]; intros d; cbn [list_min].
  - split; [lia | intros y []].
  - destruct (IH (Z.min d a)) as [H1 H2]. split; [lia|].
    intros y [->|Hy]; [lia | apply H2; assumption].
Qed.

Lemma list_max_ge : forall l d, (d <= list_max d l)%Z /\ forall y, In y l -> (y <= list_max d l)%Z.
Proof.
  induction l as [|a l IH]; intros d; cbn [list_max].
  - split; [lia | intros y []].
  - destruct (IH (Z.max d a)) as [H1 H2]. split; [lia|].
    intros y [->|Hy]; [lia | apply H2; assumption].
Qed.

Lemma filter_nil_false : forall (A : Type) (f : A -> bool) l,
  filter f l = [] -> forall x, In x l -> f x = false.
Proof.
  intros A f l H x Hx. destruct (f x) eqn:E; [|reflexivity].
  assert (Hin : In x (filter f l)) by (apply filter_In; split; assumption).
  rewrite H in Hin. destruct Hin.
Qed.

(* ------------------------------------------------------------------------------------------ *)
(* Representation invariant *)

Definition mem (s : sset) (v : nat) : Prop := v < n s /\ ind s v < size s.

Definition perm_ok (s : sset) : Prop :=
  (forall i, i < n s -> val s i < n s /\ ind s (val s i) = i) /\
  (forall v, v < n s -> ind s v < n s /\ val s (ind s v) = v).

Definition bounds_ok (s : sset) : Prop :=
  size s > 0 -> mem s (smin s) /\ mem s (smax s) /\ forall v, mem s v -> smin s <= v <= smax s.

Definition Inv (s : sset) : Prop := perm_ok s /\ size s <= n s /\ bounds_ok s.

(* everything but min/max coincides *)
Definition same_core (s s' : sset) : Prop :=
  off s' = off s /\ n s' = n s /\ size s' = size s /\ ind s' = ind s /\ val s' = val s.

(* s' was obtained from s without un-removing anything: the set of values stored in the first
   k positions is unchanged for every k >= size s *)
Definition Stable (s s' : sset) : Prop :=
  off s' = off s /\ n s' = n s /\ size s' <= size s /\
  forall k v, size s <= k -> v < n s -> (ind s' v < k <-> ind s v < k).

Lemma contains_intl_mem : forall s v, contains_intl s v = true <-> mem s v.
Proof.
  intros s v. unfold contains_intl, mem.
  destruct (Nat.leb_spec (n s) v) as [H|H].
  - split; [discriminate | lia].
  - rewrite Nat.ltb_lt. lia.
Qed.

Lemma contains_mem : forall s x,
  ss_contains s x = true <-> (off s <= x)%Z /\ mem s (Z.to_nat (x - off s)).
Proof.
  intros s x. unfold ss_contains. destruct (Z.ltb_spec x (off s)) as [H|H].
  - split; [discriminate | lia].
  - rewrite contains_intl_mem. tauto.
Qed.

Lemma contains_ext : forall s v, ss_contains s (Z.of_nat v + off s)%Z = true <-> mem s v.
Proof.
  intros s v. rewrite contains_mem.
  replace (Z.to_nat (Z.of_nat v + off s - off s)) with v by lia.
  split; [tauto | intros H; split; [lia | assumption]].
Qed.

Lemma Stable_refl : forall s, Stable s s.
Proof. intros s. unfold Stable. repeat split; auto; tauto. Qed.

Lemma Stable_trans : forall s1 s2 s3, Stable s1 s2 -> Stable s2 s3 -> Stable s1 s3.
Proof.
  intros s1 s2 s3 (Ho1 & Hn1 & Hs1 & H1) (Ho2 & Hn2 & Hs2 & H2).
  unfold Stable. split; [congruence|]. split; [congruence|]. split; [lia|].
  intros k v Hk Hv. split.
  - intros H. apply H1; [assumption..|]. apply H2; [lia | congruence | assumption].
  - intros H. apply H2; [lia | congruence |]. apply H1; assumption.
Qed.

Lemma same_core_perm : forall s s', same_core s s' -> perm_ok s -> perm_ok s'.
Proof.
  intros s s' (Ho & Hn & Hs & Hi & Hv) H. unfold perm_ok in *. rewrite Hn, Hi, Hv. exact H.
Qed.

Lemma same_core_mem : forall s s' v, same_core s s' -> (mem s' v <-> mem s v).
Proof.
  intros s s' v (Ho & Hn & Hs & Hi & Hv). unfold mem. rewrite Hn, Hs, Hi. tauto.
Qed.

Lemma same_core_Stable : forall s s', same_core s s' -> Stable s s'.
Proof.
  intros s s' (Ho & Hn & Hs & Hi & Hv). unfold Stable. rewrite Hi.
  repeat split; auto; try lia; tauto.
Qed.

(* first element is a member when non-empty *)
Lemma mem_val : forall s i, perm_ok s -> size s <= n s -> i < size s -> mem s (val s i).
Proof.
  intros s i [Hp1 Hp2] Hsz Hi. destruct (Hp1 i) as [H1 H2]; [lia|].
  unfold mem. rewrite H2. lia.
Qed.

(* ------------------------------------------------------------------------------------------ *)
(* exchange *)

Lemma exchange_perm : forall s v1 v2, perm_ok s -> v1 < n s -> v2 < n s -> perm_ok (exchange s v1 v2).
Proof.
  intros s v1 v2 [Hp1 Hp2] H1 H2.
  destruct (Hp2 v1 H1) as [Hi1 Hv1]. destruct (Hp2 v2 H2) as [Hi2 Hv2].
  unfold perm_ok, exchange; cbn [n ind val]. split.
  - intros i Hi. destruct (Hp1 i Hi) as [Ha Hb]. unfold ov.
    destruct (Nat.eqb_spec i (ind s v2)) as [E1|E1].
    + split; [assumption|]. destruct (Nat.eqb_spec v1 v2); [congruence|].
      rewrite Nat.eqb_refl. congruence.
    + destruct (Nat.eqb_spec i (ind s v1)) as [E2|E2].
      * split; [assumption|]. rewrite Nat.eqb_refl. congruence.
      * split; [assumption|].
        destruct (Nat.eqb_spec (val s i) v2) as [E3|E3]; [congruence|].
        destruct (Nat.eqb_spec (val s i) v1) as [E4|E4]; [congruence|]. assumption.
  - intros v Hv. destruct (Hp2 v Hv) as [Ha Hb]. unfold ov.
    destruct (Nat.eqb_spec v v2) as [E1|E1].
    + split; [assumption|]. subst v.
      destruct (Nat.eqb_spec (ind s v1) (ind s v2)) as [E|E]; [congruence|].
      rewrite Nat.eqb_refl. reflexivity.
    + destruct (Nat.eqb_spec v v1) as [E2|E2].
      * split; [assumption|]. subst v. rewrite Nat.eqb_refl. reflexivity.
      * split; [assumption|].
        destruct (Nat.eqb_spec (ind s v) (ind s v2)) as [E3|E3]; [congruence|].
        destruct (Nat.eqb_spec (ind s v) (ind s v1)) as [E4|E4]; [congruence|]. assumption.
Qed.

Lemma exchange_ind : forall s v1 v2 w,
  ind (exchange s v1 v2) w =
  if Nat.eqb w v2 then ind s v1 else if Nat.eqb w v1 then ind s v2 else ind s w.
Proof. reflexivity. Qed.

(* ------------------------------------------------------------------------------------------ *)
(* min / max maintenance after a removal *)

Lemma upd_max_core : forall s v, same_core s (update_max_val_removed s v).
Proof.
  intros s v. unfold update_max_val_removed.
  destruct (negb (ss_is_empty s) && Nat.eqb (smax s) v); [|repeat split].
  destruct (find _ _); repeat split.
Qed.

Lemma upd_min_core : forall s v, same_core s (update_min_val_removed s v).
Proof.
  intros s v. unfold update_min_val_removed.
  destruct (negb (ss_is_empty s) && Nat.eqb (smin s) v); [|repeat split].
  destruct (find _ _); repeat split.
Qed.

Lemma same_core_trans : forall a b c, same_core a b -> same_core b c -> same_core a c.
Proof.
  intros a b c (H1 & H2 & H3 & H4 & H5) (G1 & G2 & G3 & G4 & G5).
  unfold same_core. repeat split; congruence.
Qed.

Lemma upd_bounds_core : forall s v, same_core s (update_bounds_val_removed s v).
Proof.
  intros s v. unfold update_bounds_val_removed.
  eapply same_core_trans; [apply upd_max_core | apply upd_min_core].
Qed.

Lemma upd_max_min : forall s v, smin (update_max_val_removed s v) = smin s.
Proof.
  intros s v. unfold update_max_val_removed.
  destruct (negb (ss_is_empty s) && Nat.eqb (smax s) v); [|reflexivity].
  destruct (find _ _); reflexivity.
Qed.

Lemma upd_min_max : forall s v, smax (update_min_val_removed s v) = smax s.
Proof.
  intros s v. unfold update_min_val_removed.
  destruct (negb (ss_is_empty s) && Nat.eqb (smin s) v); [|reflexivity].
  destruct (find _ _); reflexivity.
Qed.

(* s: the state after the element v has been taken out, with the old min/max *)
Lemma upd_max_ok : forall s v,
  size s > 0 ->
  (exists w, mem s w) ->
  ~ mem s v ->
  (forall w, mem s w -> smin s <= w <= smax s) ->
  (smax s <> v -> mem s (smax s)) ->
  let s' := update_max_val_removed s v in
  mem s (smax s') /\ forall w, mem s w -> w <= smax s'.
Proof.
  intros s v Hsz (w0 & Hw0) Hnv Hb Hmax. cbn zeta. unfold update_max_val_removed.
  unfold ss_is_empty. destruct (Nat.eqb_spec (size s) 0) as [E|E]; [lia|]. cbn [negb andb].
  destruct (Nat.eqb_spec (smax s) v) as [Ev|Ev].
  - destruct (find (contains_intl s) (rev (seq (smin s) (v - smin s)))) as [w|] eqn:F.
    + apply find_rev_seq_max in F. destruct F as (F1 & F2 & F3). cbn [upd_max smax].
      apply contains_intl_mem in F1. split; [assumption|].
      intros u Hu. destruct (Nat.le_gt_cases u w) as [Hle|Hgt]; [assumption|].
      pose proof (Hb u Hu) as Hbu.
      assert (u <> v) by (intros ->; contradiction).
      assert (Hf : contains_intl s u = false) by (apply F3; lia).
      apply contains_intl_mem in Hu. congruence.
    + exfalso. pose proof (Hb w0 Hw0) as Hb0.
      assert (w0 <> v) by (intros ->; contradiction).
      assert (Hf : contains_intl s w0 = false).
      { eapply find_none; [exact F|]. rewrite <- in_rev. apply in_seq. lia. }
      apply contains_intl_mem in Hw0. congruence.
  - split; [apply Hmax; assumption|]. intros u Hu. apply Hb; assumption.
Qed.

Lemma upd_min_ok : forall s v,
  size s > 0 ->
  (exists w, mem s w) ->
  ~ mem s v ->
  (forall w, mem s w -> smin s <= w <= smax s) ->
  (smin s <> v -> mem s (smin s)) ->
  let s' := update_min_val_removed s v in
  mem s (smin s') /\ forall w, mem s w -> smin s' <= w.
Proof.
  intros s v Hsz (w0 & Hw0) Hnv Hb Hmin. cbn zeta. unfold update_min_val_removed.
  unfold ss_is_empty. destruct (Nat.eqb_spec (size s) 0) as [E|E]; [lia|]. cbn [negb andb].
  destruct (Nat.eqb_spec (smin s) v) as [Ev|Ev].
  - destruct (find (contains_intl s) (seq (S v) (S (smax s) - S v))) as [w|] eqn:F.
    + apply find_seq_min in F. destruct F as (F1 & F2 & F3). cbn [upd_min smin].
      apply contains_intl_mem in F1. split; [assumption|].
      intros u Hu. destruct (Nat.le_gt_cases w u) as [Hle|Hgt]; [assumption|].
      pose proof (Hb u Hu) as Hbu.
      assert (u <> v) by (intros ->; contradiction).
      assert (Hf : contains_intl s u = false) by (apply F3; lia).
      apply contains_intl_mem in Hu. congruence.
    + exfalso. pose proof (Hb w0 Hw0) as Hb0.
      assert (w0 <> v) by (intros ->; contradiction).
      assert (Hf : contains_intl s w0 = false).
      { eapply find_none; [exact F|]. apply in_seq. lia. }
      apply contains_intl_mem in Hw0. congruence.
  - split; [apply Hmin; assumption|]. intros u Hu. apply Hb; assumption.
Qed.

Lemma upd_bounds_ok : forall s v,
  (size s > 0 -> exists w, mem s w) ->
  ~ mem s v ->
  (forall w, mem s w -> smin s <= w <= smax s) ->
  (size s > 0 -> smin s <> v -> mem s (smin s)) ->
  (size s > 0 -> smax s <> v -> mem s (smax s)) ->
  bounds_ok (update_bounds_val_removed s v).
Proof.
  intros s v Hex Hnv Hb Hmin Hmax.
  pose proof (upd_bounds_core s v) as Hc.
  unfold bounds_ok. intros Hsz.
  assert (Hsz' : size s > 0) by (destruct Hc as (_ & _ & Hs & _); lia).
  unfold update_bounds_val_removed in *.
  set (s1 := update_max_val_removed s v) in *.
  pose proof (upd_max_core s v) as Hc1. fold s1 in Hc1.
  pose proof (upd_max_ok s v Hsz' (Hex Hsz') Hnv Hb (Hmax Hsz')) as Hm. cbn zeta in Hm. fold s1 in Hm.
  destruct Hm as [Hm1 Hm2].
  pose proof (upd_max_min s v) as Hmn. fold s1 in Hmn.
  assert (Hs1 : size s1 > 0) by (destruct Hc1 as (_ & _ & Hs & _); lia).
  assert (Hex1 : exists w, mem s1 w).
  { destruct (Hex Hsz') as (w & Hw). exists w. apply (same_core_mem s s1 w Hc1). assumption. }
  assert (Hnv1 : ~ mem s1 v).
  { intros H. apply Hnv. apply (same_core_mem s s1 v Hc1). assumption. }
  assert (Hb1 : forall w, mem s1 w -> smin s1 <= w <= smax s1).
  { intros w Hw. apply (same_core_mem s s1 w Hc1) in Hw. rewrite Hmn.
    pose proof (Hb w Hw). pose proof (Hm2 w Hw). lia. }
  assert (Hmin1 : smin s1 <> v -> mem s1 (smin s1)).
  { intros H. rewrite Hmn in *. apply (same_core_mem s s1 _ Hc1). apply Hmin; assumption. }
  pose proof (upd_min_ok s1 v Hs1 Hex1 Hnv1 Hb1 Hmin1) as Hm'. cbn zeta in Hm'.
  destruct Hm' as [Hn1 Hn2].
  pose proof (upd_min_core s1 v) as Hc2.
  pose proof (upd_min_max s1 v) as Hmx.
  set (s2 := update_min_val_removed s1 v) in *.
  split; [apply (same_core_mem s1 s2 _ Hc2); assumption|].
  split.
  - apply (same_core_mem s1 s2 _ Hc2). rewrite Hmx. apply (same_core_mem s s1 _ Hc1). assumption.
  - intros w Hw. apply (same_core_mem s1 s2 _ Hc2) in Hw. split; [apply Hn2; assumption|].
    rewrite Hmx. apply Hm2. apply (same_core_mem s s1 _ Hc1). assumption.
Qed.

(* ------------------------------------------------------------------------------------------ *)
(* remove *)

Definition OpOK (s s' : sset) (P : Z -> Prop) : Prop :=
  Inv s' /\ Stable s s' /\ forall y, ss_contains s' y = true <-> ss_contains s y = true /\ P y.

Lemma remove_core : forall s v, Inv s -> mem s v ->
  let s2 := upd_size (exchange s v (val s (size s - 1))) (size s - 1) in
  perm_ok s2 /\ (forall w, mem s2 w <-> mem s w /\ w <> v) /\ Stable s s2.
Proof.
  intros s v (Hp & Hsz & Hb) [Hvn Hvi]. cbn zeta.
  set (l := val s (size s - 1)).
  destruct Hp as [Hp1 Hp2].
  assert (Hl : l < n s /\ ind s l = size s - 1) by (apply Hp1; lia).
  destruct Hl as [Hln Hli].
  assert (Hinj : forall w, w < n s -> ind s w = size s - 1 -> w = l).
  { intros w Hw E. destruct (Hp2 w Hw) as [_ Hvw]. rewrite E in Hvw. symmetry. exact Hvw. }
  split; [|split].
  - assert (H : perm_ok (exchange s v l)) by (apply exchange_perm; [split|..]; assumption).
    exact H.
  - intros w. unfold mem. cbn [upd_size n size ind]. rewrite exchange_ind.
    change (n (exchange s v l)) with (n s).
    pose proof (Hinj w) as Hw. pose proof (Hinj v Hvn) as Hv.
    destruct (Nat.eqb_spec w l) as [E1|E1]; [subst w|].
    + destruct (Nat.eq_dec l v) as [e|e]; [rewrite <- e in *|]; lia.
    + destruct (Nat.eqb_spec w v) as [E2|E2]; [subst w|]; lia.
  - unfold Stable. cbn [upd_size off n size ind].
    change (off (exchange s v l)) with (off s). change (n (exchange s v l)) with (n s).
    split; [reflexivity|]. split; [reflexivity|]. split; [lia|].
    intros k w Hk Hw. rewrite exchange_ind.
    destruct (Nat.eqb_spec w l) as [E1|E1]; [subst w; lia|].
    destruct (Nat.eqb_spec w v) as [E2|E2]; [subst w; lia|]. tauto.
Qed.

Lemma remove_ok : forall s x, Inv s -> OpOK s (ss_rm s x) (fun y => y <> x).
Proof.
  intros s x HI. unfold ss_rm, ss_remove.
  destruct (ss_contains s x) eqn:Hc; cbn [negb fst].
  - apply contains_mem in Hc. destruct Hc as [Hox Hm].
    set (v := Z.to_nat (x - off s)) in *.
    change (size (exchange s v (val s (size s - 1)))) with (size s).
    destruct (remove_core s v HI Hm) as (Hp2 & Hm2 & Hst2).
    set (s2 := upd_size (exchange s v (val s (size s - 1))) (size s - 1)) in *.
    pose proof (upd_bounds_core s2 v) as Hcore.
    set (s3 := update_bounds_val_removed s2 v) in *.
    destruct HI as (Hp & Hsz & Hb).
    assert (Hpos : size s > 0) by (destruct Hm; lia).
    destruct (Hb Hpos) as (Hbmin & Hbmax & Hball).
    assert (Hsz2 : size s2 = size s - 1) by reflexivity.
    assert (Hn2 : n s2 = n s) by reflexivity.
    assert (Hmin2 : smin s2 = smin s) by reflexivity.
    assert (Hmax2 : smax s2 = smax s) by reflexivity.
    assert (Hb3 : bounds_ok s3).
    { apply upd_bounds_ok.
      - intros H. exists (val s2 0). apply mem_val; [assumption | rewrite Hsz2, Hn2; lia | assumption].
      - intros H. apply Hm2 in H. destruct H as [_ H]. apply H; reflexivity.
      - intros w Hw. apply Hm2 in Hw. rewrite Hmin2, Hmax2. apply Hball. tauto.
      - intros _ Hne. rewrite Hmin2 in *. apply Hm2. split; assumption.
      - intros _ Hne. rewrite Hmax2 in *. apply Hm2. split; assumption. }
    split; [|split].
    + split; [eapply same_core_perm; eassumption|]. split; [|assumption].
      destruct Hcore as (_ & Hn3 & Hs3 & _). rewrite Hn3, Hs3, Hsz2, Hn2. lia.
    + eapply Stable_trans; [exact Hst2 | apply same_core_Stable; assumption].
    + intros y. rewrite !contains_mem.
      assert (Ho3 : off s3 = off s) by (destruct Hcore as (Ho3 & _); exact Ho3).
      rewrite Ho3. rewrite (same_core_mem s2 s3 _ Hcore). rewrite Hm2.
      subst v. split.
      * intros (H1 & H2 & H3). split; [tauto|]. intros ->. apply H3; reflexivity.
      * intros ((H1 & H2) & H3). split; [assumption|]. split; [assumption|]. lia.
  - split; [assumption|]. split; [apply Stable_refl|].
    intros y. split; [|tauto]. intros H. split; [assumption|]. intros ->. congruence.
Qed.

Lemma OpOK_refl : forall s, Inv s -> OpOK s s (fun _ => True).
Proof. intros s H. split; [assumption|]. split; [apply Stable_refl|]. intros y; tauto. Qed.

Lemma OpOK_trans : forall s1 s2 s3 P Q,
  OpOK s1 s2 P -> OpOK s2 s3 Q -> OpOK s1 s3 (fun y => P y /\ Q y).
Proof.
  intros s1 s2 s3 P Q (H1 & H2 & H3) (G1 & G2 & G3).
  split; [assumption|]. split; [eapply Stable_trans; eassumption|].
  intros y. rewrite G3, H3. tauto.
Qed.

Lemma OpOK_equiv : forall s s' (P Q : Z -> Prop),
  OpOK s s' P -> (forall y, ss_contains s y = true -> (P y <-> Q y)) -> OpOK s s' Q.
Proof.
  intros s s' P Q (H1 & H2 & H3) HPQ. split; [assumption|]. split; [assumption|].
  intros y. rewrite H3. split; intros [Ha Hb]; (split; [assumption|]); apply (HPQ y Ha); assumption.
Qed.

Lemma fold_rm_ok : forall l s, Inv s -> OpOK s (fold_left ss_rm l s) (fun y => ~ In y l).
Proof.
  induction l as [|x l IH]; intros s HI; cbn [fold_left].
  - eapply OpOK_equiv; [apply OpOK_refl; assumption|]. intros y _. cbn [In]. tauto.
  - pose proof (remove_ok s x HI) as H1.
    assert (HI' : Inv (ss_rm s x)) by (destruct H1; assumption).
    pose proof (IH _ HI') as H2.
    eapply OpOK_equiv; [eapply OpOK_trans; eassumption|].
    intros y _. cbn [In]. cbv beta. split.
    + intros [Ha Hb] [Hc|Hc]; [congruence | contradiction].
    + intros H. split; [intros ->; apply H; left; reflexivity | intros Hc; apply H; right; assumption].
Qed.

(* ------------------------------------------------------------------------------------------ *)
(* remove_all, remove_all_but, remove_below, remove_above *)

Lemma remove_all_ok : forall s, Inv s -> OpOK s (ss_remove_all s) (fun _ => False).
Proof.
  intros s (Hp & Hsz & Hb). unfold ss_remove_all. split; [|split].
  - split; [exact Hp|]. split; [cbn; lia|]. intros H. cbn in H. lia.
  - unfold Stable. cbn [upd_size off n size ind]. repeat split; auto; try lia; tauto.
  - intros y. rewrite contains_mem. unfold mem. cbn [upd_size off n size ind].
    split; [lia | tauto].
Qed.

Lemma remove_all_but_core : forall s v, Inv s -> mem s v ->
  let s' := mkss (off s) (n s) v v 1
                 (ov (ov (ind s) v 0) (val s 0) (ind s v))
                 (ov (ov (val s) 0 v) (ind s v) (val s 0)) in
  perm_ok s' /\ (forall w, mem s' w <-> w = v) /\ Stable s s'.
Proof.
  intros s v (Hp & Hsz & Hb) [Hvn Hvi]. cbn zeta.
  destruct Hp as [Hp1 Hp2].
  assert (Hn0 : 0 < n s) by lia.
  destruct (Hp1 0 Hn0) as [H0n H0i].
  destruct (Hp2 v Hvn) as [Hin Hiv].
  split; [|split].
  - unfold perm_ok; cbn [n ind val]. split.
    + intros i Hi. destruct (Hp1 i Hi) as [Ha Hb']. unfold ov.
      destruct (Nat.eqb_spec i (ind s v)) as [E1|E1].
      * split; [assumption|]. rewrite Nat.eqb_refl. congruence.
      * destruct (Nat.eqb_spec i 0) as [E2|E2].
        -- split; [assumption|]. destruct (Nat.eqb_spec v (val s 0)) as [E3|E3]; [congruence|].
           rewrite Nat.eqb_refl. congruence.
        -- split; [assumption|].
           destruct (Nat.eqb_spec (val s i) (val s 0)) as [E3|E3]; [congruence|].
           destruct (Nat.eqb_spec (val s i) v) as [E4|E4]; [congruence|]. assumption.
    + intros w Hw. destruct (Hp2 w Hw) as [Ha Hb']. unfold ov.
      destruct (Nat.eqb_spec w (val s 0)) as [E1|E1].
      * split; [assumption|]. rewrite Nat.eqb_refl. congruence.
      * destruct (Nat.eqb_spec w v) as [E2|E2].
        -- split; [lia|]. destruct (Nat.eqb_spec 0 (ind s v)) as [E3|E3]; [congruence|].
           cbn [Nat.eqb]. congruence.
        -- split; [assumption|].
           destruct (Nat.eqb_spec (ind s w) (ind s v)) as [E3|E3]; [congruence|].
           destruct (Nat.eqb_spec (ind s w) 0) as [E4|E4]; [congruence|]. assumption.
  - intros w. unfold mem; cbn [n ind size]. unfold ov.
    destruct (Nat.eqb_spec w (val s 0)) as [E1|E1].
    + subst w. split.
      * intros [_ H]. assert (E : ind s v = 0) by lia. congruence.
      * intros E. split; [assumption|]. rewrite <- E in *. lia.
    + destruct (Nat.eqb_spec w v) as [E2|E2].
      * subst w. split; [reflexivity | intros _; split; [assumption | lia]].
      * split; [|intros; contradiction]. intros [Hw H].
        destruct (Hp2 w Hw) as [_ Hvw]. assert (E : ind s w = 0) by lia. congruence.
  - unfold Stable; cbn [off n size ind]. split; [reflexivity|]. split; [reflexivity|].
    split; [lia|]. intros k w Hk Hw. unfold ov.
    destruct (Nat.eqb_spec w (val s 0)) as [E1|E1]; [subst w; lia|].
    destruct (Nat.eqb_spec w v) as [E2|E2]; [subst w; lia|]. tauto.
Qed.

Lemma remove_all_but_ok : forall s x, Inv s -> OpOK s (ss_remove_all_but s x) (fun y => y = x).
Proof.
  intros s x HI. unfold ss_remove_all_but.
  destruct (ss_contains s x) eqn:Hc; cbn [negb].
  - apply contains_mem in Hc. destruct Hc as [Hox Hm].
    set (v := Z.to_nat (x - off s)) in *.
    destruct (remove_all_but_core s v HI Hm) as (Hp' & Hm' & Hst').
    set (s' := mkss (off s) (n s) v v 1 _ _) in *.
    split; [|split].
    + split; [assumption|]. split; [change (1 <= n s); destruct Hm; lia|].
      intros _. change (smin s') with v. change (smax s') with v.
      split; [apply Hm'; reflexivity|]. split; [apply Hm'; reflexivity|].
      intros w Hw. apply Hm' in Hw. lia.
    + assumption.
    + intros y. rewrite !contains_mem. change (off s') with (off s). rewrite Hm'.
      subst v. split.
      * intros [H1 H2]. assert (y = x) by lia. subst y. tauto.
      * intros [[H1 H2] ->]. tauto.
  - eapply OpOK_equiv; [apply remove_all_ok; assumption|].
    intros y Hy. cbv beta. split; [tauto|]. intros ->. congruence.
Qed.

Lemma contains_bounds : forall s y, Inv s -> ss_contains s y = true ->
  (ss_min s <= y <= ss_max s)%Z.
Proof.
  intros s y (Hp & Hsz & Hb) Hc. apply contains_mem in Hc. destruct Hc as [Ho Hm].
  assert (Hpos : size s > 0) by (destruct Hm; lia).
  destruct (Hb Hpos) as (_ & _ & Hall). pose proof (Hall _ Hm). unfold ss_min, ss_max. lia.
Qed.

Lemma remove_below_ok : forall s x, Inv s ->
  OpOK s (ss_remove_below s x) (fun y => (x <=? y)%Z = true).
Proof.
  intros s x HI. unfold ss_remove_below.
  destruct (ss_is_empty s) eqn:He.
  - unfold ss_is_empty in He. apply Nat.eqb_eq in He.
    eapply OpOK_equiv; [apply OpOK_refl; assumption|].
    intros y Hy. apply contains_mem in Hy. destruct Hy as [_ [_ Hy]]. lia.
  - destruct (Z.ltb_spec (ss_max s) x) as [Hlt|Hge].
    + eapply OpOK_equiv; [apply remove_all_ok; assumption|].
      intros y Hy. pose proof (contains_bounds s y HI Hy). cbv beta. rewrite Z.leb_le. lia.
    + eapply OpOK_equiv; [apply fold_rm_ok; assumption|].
      intros y Hy. pose proof (contains_bounds s y HI Hy). cbv beta.
      rewrite zrange_In, Z.leb_le. lia.
Qed.

Lemma remove_above_ok : forall s x, Inv s ->
  OpOK s (ss_remove_above s x) (fun y => (y <=? x)%Z = true).
Proof.
  intros s x HI. unfold ss_remove_above.
  destruct (ss_is_empty s) eqn:He.
  - unfold ss_is_empty in He. apply Nat.eqb_eq in He.
    eapply OpOK_equiv; [apply OpOK_refl; assumption|].
    intros y Hy. apply contains_mem in Hy. destruct Hy as [_ [_ Hy]]. lia.
  - destruct (Z.ltb_spec x (ss_min s)) as [Hlt|Hge].
    + eapply OpOK_equiv; [apply remove_all_ok; assumption|].
      intros y Hy. pose proof (contains_bounds s y HI Hy). cbv beta. rewrite Z.leb_le. lia.
    + eapply OpOK_equiv; [apply fold_rm_ok; assumption|].
      intros y Hy. pose proof (contains_bounds s y HI Hy). cbv beta.
      rewrite zrange_In, Z.leb_le. lia.
Qed.

(* ------------------------------------------------------------------------------------------ *)
(* iteration *)

Lemma iter_contains : forall s x, Inv s -> (In x (ss_iter s) <-> ss_contains s x = true).
Proof.
  intros s x ([Hp1 Hp2] & Hsz & Hb). unfold ss_iter. rewrite in_map_iff, contains_mem. split.
  - intros (i & Hx & Hi). apply in_seq in Hi. unfold ext in Hx. subst x.
    destruct (Hp1 i) as [H1 H2]; [lia|].
    replace (Z.to_nat (Z.of_nat (val s i) + off s - off s)) with (val s i) by lia.
    split; [lia|]. unfold mem. rewrite H2. lia.
  - intros (Ho & Hv & Hi). exists (ind s (Z.to_nat (x - off s))).
    destruct (Hp2 _ Hv) as [H1 H2]. split; [unfold ext; rewrite H2; lia | apply in_seq; lia].
Qed.

Lemma val_inj : forall s i j, perm_ok s -> i < n s -> j < n s -> val s i = val s j -> i = j.
Proof.
  intros s i j [Hp1 _] Hi Hj E. destruct (Hp1 i Hi) as [_ H1]. destruct (Hp1 j Hj) as [_ H2].
  congruence.
Qed.

Lemma ext_inj : forall s i j, perm_ok s -> i < n s -> j < n s -> ext s i = ext s j -> i = j.
Proof.
  intros s i j Hp Hi Hj E. unfold ext in E. apply (val_inj s i j Hp Hi Hj). lia.
Qed.

Lemma iter_NoDup : forall s, Inv s -> NoDup (ss_iter s).
Proof.
  intros s (Hp & Hsz & Hb). unfold ss_iter. apply NoDup_map_inj_on; [apply seq_NoDup|].
  intros a b Ha Hb'. apply in_seq in Ha. apply in_seq in Hb'. apply ext_inj; [assumption|lia|lia].
Qed.

Lemma compl_NoDup : forall s, Inv s -> NoDup (ss_complement_iter s).
Proof.
  intros s (Hp & Hsz & Hb). unfold ss_complement_iter. apply NoDup_map_inj_on; [apply seq_NoDup|].
  intros a b Ha Hb'. apply in_seq in Ha. apply in_seq in Hb'. apply ext_inj; [assumption|lia|lia].
Qed.

Lemma compl_In : forall s x, Inv s ->
  (In x (ss_complement_iter s) <->
   (off s <= x < off s + Z.of_nat (n s))%Z /\ ss_contains s x <> true).
Proof.
  intros s x ([Hp1 Hp2] & Hsz & Hb). unfold ss_complement_iter.
  rewrite in_map_iff, contains_mem. split.
  - intros (i & Hx & Hi). apply in_seq in Hi. unfold ext in Hx. subst x.
    destruct (Hp1 i) as [H1 H2]; [lia|]. split; [lia|].
    replace (Z.to_nat (Z.of_nat (val s i) + off s - off s)) with (val s i) by lia.
    unfold mem. rewrite H2. lia.
  - intros (Hr & Hnm). set (v := Z.to_nat (x - off s)) in *.
    assert (Hv : v < n s) by lia. destruct (Hp2 v Hv) as [H1 H2].
    exists (ind s v). split; [unfold ext; rewrite H2; lia|].
    apply in_seq. unfold mem in Hnm. lia.
Qed.

(* ------------------------------------------------------------------------------------------ *)
(* constructors *)

Lemma new_Inv : forall lo hi, Inv (ss_new lo hi).
Proof.
  intros lo hi. unfold ss_new. set (m := Z.to_nat _). split; [|split].
  - unfold perm_ok; cbn [n ind val]. split; intros; split; auto.
  - cbn [size n]. lia.
  - unfold bounds_ok, mem; cbn [size n ind smin smax]. intros _. repeat split; try lia.
Qed.

Lemma new_contains : forall lo hi x,
  ss_contains (ss_new lo hi) x = true <-> (Z.min lo hi <= x <= Z.max lo hi)%Z.
Proof.
  intros lo hi x. rewrite contains_mem. unfold ss_new, mem; cbn [off n ind size].
  destruct (Z.ltb_spec hi lo); lia.
Qed.

Lemma new_is_range : forall lo hi x,
  In x (ss_iter (ss_new lo hi)) <-> (Z.min lo hi <= x <= Z.max lo hi)%Z.
Proof.
  intros lo hi x. rewrite iter_contains by apply new_Inv. apply new_contains.
Qed.

Lemma empty_Inv : forall o, Inv (ss_empty o).
Proof.
  intros o. unfold ss_empty. split; [|split].
  - unfold perm_ok; cbn [n ind val]. split; intros; split; auto.
  - cbn [size n]. lia.
  - unfold bounds_ok; cbn [size]. lia.
Qed.

Lemma nfv_ok : forall l,
  Inv (ss_new_from_values l) /\ forall y, ss_contains (ss_new_from_values l) y = true <-> In y l.
Proof.
  intros [|x r].
  - cbn [ss_new_from_values]. split; [apply empty_Inv|].
    intros y. rewrite contains_mem. unfold mem, ss_empty; cbn [n off size ind In]. lia.
  - unfold ss_new_from_values.
    set (l := x :: r). set (lo := list_min x r). set (hi := list_max x r).
    destruct (list_min_le r x) as [Hlo1 Hlo2]. destruct (list_max_ge r x) as [Hhi1 Hhi2].
    fold lo in Hlo1, Hlo2. fold hi in Hhi1, Hhi2.
    pose proof (fold_rm_ok (filter (fun i => negb (memZ i l)) (zrange lo (hi + 1)))
                           (ss_new lo hi) (new_Inv lo hi)) as (HI & _ & Hc).
    split; [assumption|]. intros y. rewrite Hc. rewrite new_contains, filter_In, zrange_In.
    rewrite negb_true_iff. split.
    + intros [Hr Hn]. apply memZ_In. destruct (memZ y l) eqn:E; [reflexivity|].
      exfalso. apply Hn. split; [lia | reflexivity].
    + intros Hy. assert (Hb : (lo <= y <= hi)%Z).
      { destruct Hy as [<-|Hy]; [lia|]. split; [apply Hlo2 | apply Hhi2]; assumption. }
      split; [lia|]. intros [_ Hf]. apply memZ_In in Hy. congruence.
Qed.

Lemma new_from_values_is_list : forall l x, In x (ss_iter (ss_new_from_values l)) <-> In x l.
Proof.
  intros l x. destruct (nfv_ok l) as [HI Hc]. rewrite iter_contains by assumption. apply Hc.
Qed.

(* ------------------------------------------------------------------------------------------ *)
(* intersect, diff *)

Lemma intersect_ok : forall s o, Inv s ->
  OpOK s (ss_intersect_with s o) (fun y => ss_contains o y = true).
Proof.
  intros s o HI. unfold ss_intersect_with.
  eapply OpOK_equiv; [apply fold_rm_ok; assumption|].
  intros y Hy. cbv beta. rewrite filter_In, negb_true_iff, iter_contains by assumption.
  destruct (ss_contains o y); split; intros; try tauto; try congruence.
  - intros [_ H']. discriminate.
Qed.

Lemma diff_ok : forall s o, Inv s ->
  OpOK s (ss_diff_with s o) (fun y => ss_contains o y = false).
Proof.
  intros s o HI. unfold ss_diff_with.
  eapply OpOK_equiv; [apply fold_rm_ok; assumption|].
  intros y Hy. cbv beta. rewrite filter_In, iter_contains by assumption.
  destruct (ss_contains o y); split; intros; try tauto; try congruence.
  - intros [_ H']. discriminate.
Qed.

(* ------------------------------------------------------------------------------------------ *)
(* union *)

Definition in_u (s : sset) (x : Z) : Prop := (off s <= x < off s + Z.of_nat (n s))%Z.

Lemma in_u_bool : forall s x,
  (off s <=? x)%Z && (x <? off s + Z.of_nat (n s))%Z = true <-> in_u s x.
Proof.
  intros s x. unfold in_u. rewrite andb_true_iff, Z.leb_le, Z.ltb_lt. tauto.
Qed.

Lemma union1_noop : forall s x, ss_contains s x = true \/ ~ in_u s x -> union1 s x = s.
Proof.
  intros s x H. unfold union1. destruct (ss_contains s x) eqn:E; [reflexivity|].
  destruct H as [H|H]; [discriminate|].
  destruct ((off s <=? x)%Z && (x <? off s + Z.of_nat (n s))%Z) eqn:E2; [|reflexivity].
  apply in_u_bool in E2. contradiction.
Qed.

Lemma add_core : forall s v, Inv s -> v < n s -> ~ mem s v ->
  let s2 := upd_size (exchange s v (val s (size s))) (S (size s)) in
  perm_ok s2 /\ S (size s) <= n s /\ (forall w, mem s2 w <-> mem s w \/ w = v).
Proof.
  intros s v (Hp & Hsz & Hb) Hvn Hnm. cbn zeta.
  set (l := val s (size s)).
  destruct Hp as [Hp1 Hp2].
  destruct (Hp2 v Hvn) as [Hin Hiv].
  assert (Hge : size s <= ind s v) by (unfold mem in Hnm; lia).
  assert (Hlt : size s < n s) by lia.
  assert (Hl : l < n s /\ ind s l = size s) by (apply Hp1; lia).
  destruct Hl as [Hln Hli].
  assert (Hinj : forall w, w < n s -> ind s w = size s -> w = l).
  { intros w Hw E. destruct (Hp2 w Hw) as [_ Hvw]. rewrite E in Hvw. symmetry. exact Hvw. }
  split; [|split].
  - assert (H : perm_ok (exchange s v l)) by (apply exchange_perm; [split|..]; assumption).
    exact H.
  - lia.
  - intros w. unfold mem. cbn [upd_size n size ind]. rewrite exchange_ind.
    change (n (exchange s v l)) with (n s).
    pose proof (Hinj w) as Hw. pose proof (Hinj v Hvn) as Hv.
    destruct (Nat.eqb_spec w l) as [E1|E1]; [subst w|].
    + destruct (Nat.eq_dec l v) as [e|e]; [rewrite <- e in *|]; lia.
    + destruct (Nat.eqb_spec w v) as [E2|E2]; [subst w|]; lia.
Qed.

Lemma bounds_ok_intro : forall s2 s', same_core s2 s' ->
  (mem s2 (smin s') /\ mem s2 (smax s') /\ forall v, mem s2 v -> smin s' <= v <= smax s') ->
  bounds_ok s'.
Proof.
  intros s2 s' Hc (H1 & H2 & H3). intros _.
  split; [apply (same_core_mem s2 s' _ Hc); assumption|].
  split; [apply (same_core_mem s2 s' _ Hc); assumption|].
  intros v Hv. apply H3. apply (same_core_mem s2 s' _ Hc). assumption.
Qed.

Definition add_bounds (s2 : sset) (vi : nat) : sset :=
  if Nat.eqb (size s2) 1 then upd_max (upd_min s2 vi) vi
  else
    let s3 := if Nat.ltb vi (smin s2) then upd_min s2 vi else s2 in
    if Nat.ltb (smax s3) vi then upd_max s3 vi else s3.

Lemma add_bounds_core : forall s2 vi, same_core s2 (add_bounds s2 vi).
Proof.
  intros s2 vi. unfold add_bounds.
  destruct (Nat.eqb (size s2) 1); [repeat split|]. cbn zeta.
  destruct (Nat.ltb vi (smin s2)); cbn [upd_min smax];
    destruct (Nat.ltb (smax s2) vi); repeat split.
Qed.

Lemma add_bounds_ok : forall s s2 vi,
  bounds_ok s -> size s2 = S (size s) -> smin s2 = smin s -> smax s2 = smax s ->
  (forall w, mem s2 w <-> mem s w \/ w = vi) ->
  (size s = 0 -> forall w, ~ mem s w) ->
  bounds_ok (add_bounds s2 vi).
Proof.
  intros s s2 vi Hb Hsz Hmin Hmax Hm He.
  apply (bounds_ok_intro s2); [apply add_bounds_core|].
  unfold add_bounds. destruct (Nat.eqb_spec (size s2) 1) as [E|E].
  - cbn [upd_max upd_min smin smax]. assert (E0 : size s = 0) by lia.
    split; [apply Hm; right; reflexivity|]. split; [apply Hm; right; reflexivity|].
    intros v Hv. apply Hm in Hv. destruct Hv as [Hv | ->]; [|lia]. exfalso. apply (He E0 v Hv).
  - assert (Hpos : size s > 0) by lia. destruct (Hb Hpos) as (B1 & B2 & B3). cbn zeta.
    destruct (Nat.ltb_spec vi (smin s2)) as [L1|L1]; cbn [upd_min smax smin];
      destruct (Nat.ltb_spec (smax s2) vi) as [L2|L2]; cbn [upd_max upd_min smax smin];
      rewrite ?Hmin, ?Hmax in *.
    + split; [apply Hm; right; reflexivity|]. split; [apply Hm; right; reflexivity|].
      intros v Hv. apply Hm in Hv. destruct Hv as [Hv | ->]; [|lia]. pose proof (B3 v Hv). lia.
    + split; [apply Hm; right; reflexivity|]. split; [apply Hm; left; assumption|].
      intros v Hv. apply Hm in Hv. destruct Hv as [Hv | ->]; [|lia]. pose proof (B3 v Hv). lia.
    + split; [apply Hm; left; assumption|]. split; [apply Hm; right; reflexivity|].
      intros v Hv. apply Hm in Hv. destruct Hv as [Hv | ->]; [|lia]. pose proof (B3 v Hv). lia.
    + split; [apply Hm; left; assumption|]. split; [apply Hm; left; assumption|].
      intros v Hv. apply Hm in Hv. destruct Hv as [Hv | ->]; [|lia]. pose proof (B3 v Hv). lia.
Qed.

Lemma union1_ok : forall s x, Inv s ->
  Inv (union1 s x) /\ off (union1 s x) = off s /\ n (union1 s x) = n s /\
  forall y, ss_contains (union1 s x) y = true <-> ss_contains s y = true \/ (y = x /\ in_u s x).
Proof.
  intros s x HI.
  destruct (ss_contains s x) eqn:Hc.
  { rewrite union1_noop by (left; assumption). split; [assumption|]. split; [reflexivity|].
    split; [reflexivity|]. intros y. split; [tauto|]. intros [H|[-> _]]; assumption. }
  destruct ((off s <=? x)%Z && (x <? off s + Z.of_nat (n s))%Z) eqn:Hu.
  2:{ assert (Hnu : ~ in_u s x) by (intros H; apply in_u_bool in H; congruence).
      rewrite union1_noop by (right; assumption). split; [assumption|]. split; [reflexivity|].
      split; [reflexivity|]. intros y. split; [tauto|]. intros [H|[_ H]]; [assumption|contradiction]. }
  unfold union1. rewrite Hc, Hu. apply in_u_bool in Hu.
  set (vi := Z.to_nat (x - off s)).
  assert (Hvn : vi < n s) by (unfold in_u in Hu; lia).
  assert (Hnm : ~ mem s vi).
  { intros H. assert (ss_contains s x = true); [|congruence].
    apply contains_mem. split; [unfold in_u in Hu; lia | exact H]. }
  destruct (contains_intl s vi) eqn:Hci; [apply contains_intl_mem in Hci; contradiction|].
  destruct (add_core s vi HI Hvn Hnm) as (Hp2 & Hsz2 & Hm2).
  change (size (exchange s vi (val s (size s)))) with (size s).
  set (s2 := upd_size (exchange s vi (val s (size s))) (S (size s))) in *.
  fold (add_bounds s2 vi).
  pose proof (add_bounds_core s2 vi) as Hcore.
  destruct HI as (Hp & Hsz & Hb).
  assert (Hb' : bounds_ok (add_bounds s2 vi)).
  { apply (add_bounds_ok s); try reflexivity; try assumption.
    intros E w [_ Hw]. lia. }
  destruct Hcore as (Ho & Hn & Hs & Hi & Hv).
  split; [|split; [exact Ho|split; [exact Hn|]]].
  - split; [apply (same_core_perm s2); [repeat split; assumption | assumption]|].
    split; [|assumption]. rewrite Hn, Hs. exact Hsz2.
  - intros y. rewrite !contains_mem. rewrite Ho. change (off s2) with (off s).
    rewrite (same_core_mem s2 (add_bounds s2 vi)) by (repeat split; assumption).
    rewrite Hm2. subst vi. unfold in_u in *. split.
    + intros [H1 [H2|H2]]; [left; tauto|]. right. split; [lia|assumption].
    + intros [[H1 H2]|[-> H2]]; [tauto|]. split; [lia|]. right. reflexivity.
Qed.

Lemma union_fold_ok : forall l s, Inv s ->
  Inv (fold_left union1 l s) /\ off (fold_left union1 l s) = off s /\
  n (fold_left union1 l s) = n s /\
  forall y, ss_contains (fold_left union1 l s) y = true <->
            ss_contains s y = true \/ (In y l /\ in_u s y).
Proof.
  induction l as [|x l IH]; intros s HI; cbn [fold_left].
  - split; [assumption|]. split; [reflexivity|]. split; [reflexivity|].
    intros y. cbn [In]. tauto.
  - destruct (union1_ok s x HI) as (HI1 & Ho1 & Hn1 & Hc1).
    destruct (IH _ HI1) as (HI2 & Ho2 & Hn2 & Hc2).
    split; [assumption|]. split; [congruence|]. split; [congruence|].
    intros y. rewrite Hc2, Hc1. unfold in_u. rewrite Ho1, Hn1. cbn [In]. split.
    + intros [[H|[-> H]]|[H1 H2]]; [tauto | right; tauto | right; tauto].
    + intros [H|[[->|H1] H2]]; [tauto | left; right; tauto | right; tauto].
Qed.

Lemma union_fold_noop : forall l s,
  (forall x, In x l -> ss_contains s x = true \/ ~ in_u s x) -> fold_left union1 l s = s.
Proof.
  induction l as [|x l IH]; intros s H; cbn [fold_left]; [reflexivity|].
  rewrite union1_noop by (apply H; left; reflexivity). apply IH.
  intros y Hy. apply H. right. assumption.
Qed.

(* ------------------------------------------------------------------------------------------ *)
(* observations *)

Lemma iter_length : forall s, length (ss_iter s) = size s.
Proof. intros s. unfold ss_iter. rewrite map_length, seq_length. reflexivity. Qed.

Lemma NoDup_all_eq_len : forall (l : list Z) v,
  NoDup l -> In v l -> (forall x, In x l -> x = v) -> length l = 1.
Proof.
  intros [|a [|b r]] v Hnd Hin Hall.
  - destruct Hin.
  - reflexivity.
  - exfalso. assert (a = v) by (apply Hall; left; reflexivity).
    assert (b = v) by (apply Hall; right; left; reflexivity).
    inversion Hnd as [|? ? Hni _]. apply Hni. left. congruence.
Qed.

Lemma obs_agree_of : forall s sp, Inv s -> ulo sp = off s -> un sp = n s ->
  (forall x, In x (cur sp) <-> ss_contains s x = true) -> obs_agree s sp.
Proof.
  intros s sp HI Hu Hn Hcur.
  assert (Hit : forall x, In x (ss_iter s) <-> In x (cur sp)).
  { intros x. rewrite iter_contains by assumption. symmetry. apply Hcur. }
  assert (Hfirst : size s > 0 -> In (ext s 0) (ss_iter s)).
  { intros H. unfold ss_iter. apply in_map. apply in_seq. lia. }
  assert (Hempty : size s = 0 <-> forall x, ~ In x (cur sp)).
  { split.
    - intros E x Hx. apply Hit in Hx. unfold ss_iter in Hx. rewrite E in Hx. destruct Hx.
    - intros H. destruct (Nat.eq_dec (size s) 0) as [E|E]; [assumption|].
      exfalso. apply (H (ext s 0)). apply Hit. apply Hfirst. lia. }
  unfold obs_agree.
  split; [exact Hit|].
  split; [apply iter_NoDup; assumption|].
  split; [intros x; symmetry; apply Hcur|].
  split; [unfold ss_is_empty; rewrite Nat.eqb_eq; exact Hempty|].
  split.
  { unfold ss_is_fixed. rewrite Nat.eqb_eq. split.
    - intros E. exists (ext s 0). split; [apply Hit; apply Hfirst; lia|].
      intros x Hx. apply Hit in Hx. unfold ss_iter in Hx. rewrite E in Hx.
      cbn in Hx. destruct Hx as [Hx|[]]. congruence.
    - intros (v & Hv & Hall). rewrite <- iter_length.
      apply (NoDup_all_eq_len _ v); [apply iter_NoDup; assumption | apply Hit; assumption|].
      intros x Hx. apply Hall. apply Hit. assumption. }
  split.
  { unfold ss_is_empty. rewrite Nat.eqb_neq. intros Hne.
    destruct HI as (Hp & Hsz & Hb). destruct Hb as (B1 & B2 & B3); [lia|].
    unfold ss_min, ss_max.
    split; [apply Hcur; apply contains_ext; assumption|].
    split; [apply Hcur; apply contains_ext; assumption|].
    intros x Hx. apply Hcur in Hx. apply contains_mem in Hx. destruct Hx as [Ho Hm].
    pose proof (B3 _ Hm). lia. }
  split.
  { intros x. rewrite compl_In by assumption. unfold universe. rewrite zrange_In, Hu, Hn.
    rewrite Hcur. tauto. }
  split; [apply compl_NoDup; assumption|].
  split.
  { intros v. unfold ss_first, ss_is_empty. destruct (Nat.eqb_spec (size s) 0) as [E|E]; [discriminate|].
    intros H. inversion H; subst. apply Hit. apply Hfirst. lia. }
  split.
  { intros v. unfold ss_last, ss_is_empty. destruct (Nat.eqb_spec (size s) 0) as [E|E]; [discriminate|].
    intros H. inversion H; subst. apply Hit. unfold ss_iter. apply in_map. apply in_seq. lia. }
  unfold ss_first, ss_is_empty. rewrite <- Hempty.
  destruct (Nat.eqb_spec (size s) 0) as [E|E]; split; intros; try tauto; try discriminate.
Qed.

(* ------------------------------------------------------------------------------------------ *)
(* snapshots and the simulation relation *)

Definition SnapOK (s : sset) (t : ssstate) (c : list Z) : Prop :=
  size s <= st_size t /\ Inv (ss_restore s t) /\
  forall x, In x c <-> ss_contains (ss_restore s t) x = true.

Definition SnapsRel (s : sset) (cs : list ssstate) (ss : list (list Z * bool)) : Prop :=
  length cs = length ss /\
  (forall i t c, nth_error cs i = Some t -> nth_error ss i = Some (c, false) -> SnapOK s t c) /\
  (forall i j ti tj ci cj, i <= j ->
     nth_error cs i = Some ti -> nth_error cs j = Some tj ->
     nth_error ss i = Some (ci, false) -> nth_error ss j = Some (cj, false) ->
     st_size tj <= st_size ti).

Definition R (c : cstate) (sp : spec) : Prop :=
  Inv (fst c) /\ ulo sp = off (fst c) /\ un sp = n (fst c) /\
  (forall x, In x (cur sp) <-> ss_contains (fst c) x = true) /\
  SnapsRel (fst c) (snd c) (snaps sp).

Lemma restore_save : forall s, ss_restore s (ss_save s) = s.
Proof. intros []. reflexivity. Qed.

Lemma SnapOK_stable : forall s s' t c, SnapOK s t c -> Stable s s' -> Inv s' -> SnapOK s' t c.
Proof.
  intros s s' t c (Hsz & HI & Hc) (Ho & Hn & Hs & Hst) (Hp' & Hsz' & Hb').
  assert (Hmem : forall w, mem (ss_restore s' t) w <-> mem (ss_restore s t) w).
  { intros w. unfold mem; cbn [ss_restore n ind size]. rewrite Hn.
    split; intros [H1 H2]; (split; [assumption|]); apply (Hst (st_size t) w); assumption. }
  destruct HI as (Hp & Hszr & Hb).
  split; [lia|]. split.
  - split; [exact Hp'|]. split; [cbn [ss_restore size n] in *; lia|].
    intros Hpos. destruct (Hb Hpos) as (B1 & B2 & B3).
    change (smin (ss_restore s' t)) with (smin (ss_restore s t)).
    change (smax (ss_restore s' t)) with (smax (ss_restore s t)).
    split; [apply Hmem; assumption|]. split; [apply Hmem; assumption|].
    intros v Hv. apply B3. apply Hmem. assumption.
  - intros x. rewrite Hc, !contains_mem. cbn [ss_restore off]. rewrite Ho, Hmem. tauto.
Qed.

Lemma R_filter : forall s cs sp s' (P : Z -> Prop) c',
  R (s, cs) sp -> OpOK s s' P -> (forall y, In y c' <-> In y (cur sp) /\ P y) ->
  R (s', cs) (set_cur sp c').
Proof.
  intros s cs sp s' P c' (HI & Hu & Hn & Hcur & Hlen & Hsn & Hso) (HI' & Hst & Hc') Hf.
  cbn [fst snd] in *. pose proof Hst as (Ho & Hn' & _).
  split; [assumption|]. split; [cbn; congruence|]. split; [cbn; congruence|].
  split; [intros x; cbn [set_cur cur]; rewrite Hf, Hc', Hcur; tauto|].
  cbn [set_cur snaps]. split; [assumption|]. split; [|assumption].
  intros i t c H1 H2. eapply SnapOK_stable; [eapply Hsn; eassumption | assumption | assumption].
Qed.

Lemma R_filter_b : forall s cs sp s' (f : Z -> bool),
  R (s, cs) sp -> OpOK s s' (fun y => f y = true) ->
  R (s', cs) (set_cur sp (filter f (cur sp))).
Proof.
  intros. eapply R_filter; [eassumption | eassumption|]. intros y. apply filter_In.
Qed.

Lemma nth_error_snoc : forall (A : Type) (l : list A) a i b,
  nth_error (l ++ [a]) i = Some b ->
  (i < length l /\ nth_error l i = Some b) \/ (i = length l /\ b = a).
Proof.
  intros A l a i b H. destruct (Nat.lt_ge_cases i (length l)) as [Hlt|Hge].
  - left. rewrite nth_error_app1 in H by assumption. tauto.
  - right. rewrite nth_error_app2 in H by assumption.
    destruct (i - length l) as [|k] eqn:E.
    + cbn in H. inversion H. split; [lia | reflexivity].
    + cbn in H. destruct k; discriminate.
Qed.

Lemma nth_error_lt_Some : forall (A : Type) (l : list A) i b, nth_error l i = Some b -> i < length l.
Proof. intros A l i b H. apply nth_error_Some. congruence. Qed.

Lemma step_R : forall c sp o, R c sp -> bad (spec_step sp o) = false ->
  R (ss_step c o) (spec_step sp o).
Proof.
  intros [s cs] sp o HR Hbad. pose proof HR as (HI & Hu & Hn & Hcur & Hlen & Hsn & Hso).
  cbn [fst snd] in *.
  destruct o as [x| |x|x|x|l|l|l| |k]; cbn [ss_step spec_step].
  - (* remove *)
    eapply R_filter_b; [exact HR|]. eapply OpOK_equiv; [apply remove_ok; assumption|].
    intros y _. cbv beta. rewrite negb_true_iff, Z.eqb_neq. tauto.
  - (* remove_all *)
    eapply R_filter; [eassumption | apply remove_all_ok; assumption|]. intros y. cbn [In]. tauto.
  - (* only *)
    eapply R_filter_b; [exact HR|]. eapply OpOK_equiv; [apply remove_all_but_ok; assumption|].
    intros y _. cbv beta. rewrite Z.eqb_eq. tauto.
  - eapply R_filter_b; [exact HR|]. apply remove_below_ok; assumption.
  - eapply R_filter_b; [exact HR|]. apply remove_above_ok; assumption.
  - (* intersect *)
    eapply R_filter_b; [exact HR|]. eapply OpOK_equiv; [apply intersect_ok; assumption|].
    intros y _. cbv beta. destruct (nfv_ok l) as [_ Hc]. rewrite Hc, memZ_In. tauto.
  - (* union *)
    destruct (nfv_ok l) as [HIo Hco].
    set (o := ss_new_from_values l) in *.
    assert (Hio : forall y, In y (ss_iter o) <-> In y l).
    { intros y. rewrite iter_contains by assumption. apply Hco. }
    unfold ss_union_with.
    destruct (union_fold_ok (ss_iter o) s HI) as (HI' & Ho' & Hn' & Hc').
    set (added := filter (fun y => in_univ sp y && negb (memZ y (cur sp))) l).
    assert (Hadd : forall y, In y added <-> In y l /\ in_u s y /\ ~ In y (cur sp)).
    { intros y. unfold added. rewrite filter_In, andb_true_iff, negb_true_iff.
      unfold in_univ. rewrite Hu, Hn, in_u_bool. rewrite <- (memZ_In y (cur sp)).
      destruct (memZ y (cur sp)); split; intros; try tauto; try (intuition congruence). }
    split; [exact HI'|]. cbn [fst snd ulo un cur snaps].
    split; [congruence|]. split; [congruence|]. split.
    + intros y. rewrite in_app_iff, Hc', Hadd, Hio, Hcur.
      destruct (ss_contains s y); split; intros; try tauto; try (intuition congruence).
    + destruct added as [|a r] eqn:Ea.
      * assert (Hnoop : fold_left union1 (ss_iter o) s = s).
        { apply union_fold_noop. intros x Hx. apply Hio in Hx.
          destruct (ss_contains s x) eqn:E; [left; reflexivity|]. right. intros Hux.
          apply (proj2 (Hadd x)). split; [assumption|]. split; [assumption|].
          rewrite Hcur. congruence. }
        rewrite Hnoop. split; [assumption|]. split; assumption.
      * split; [rewrite map_length; assumption|]. split.
        -- intros i t c _ H. rewrite nth_error_map in H.
           destruct (nth_error (snaps sp) i); cbn in H; discriminate.
        -- intros i j ti tj ci cj _ _ _ H. rewrite nth_error_map in H.
           destruct (nth_error (snaps sp) i); cbn in H; discriminate.
  - (* diff *)
    eapply R_filter_b; [exact HR|]. eapply OpOK_equiv; [apply diff_ok; assumption|].
    intros y _. cbv beta. destruct (nfv_ok l) as [_ Hc]. rewrite negb_true_iff.
    rewrite <- not_true_iff_false, <- not_true_iff_false, Hc, memZ_In. tauto.
  - (* save *)
    split; [assumption|]. cbn [fst snd ulo un cur snaps].
    split; [assumption|]. split; [assumption|]. split; [assumption|].
    assert (Hnew : SnapOK s (ss_save s) (cur sp)).
    { unfold SnapOK. rewrite restore_save. split; [cbn; lia|]. split; assumption. }
    split; [rewrite !app_length; cbn; lia|]. split.
    + intros i t c H1 H2. apply nth_error_snoc in H1. apply nth_error_snoc in H2.
      destruct H1 as [[L1 H1]|[L1 H1]]; destruct H2 as [[L2 H2]|[L2 H2]]; try lia.
      * eapply Hsn; eassumption.
      * inversion H2; subst. assumption.
    + intros i j ti tj ci cj Hij H1 H2 H3 H4.
      apply nth_error_snoc in H1. apply nth_error_snoc in H2.
      apply nth_error_snoc in H3. apply nth_error_snoc in H4.
      destruct H2 as [[L2 H2]|[L2 H2]]; destruct H4 as [[L4 H4]|[L4 H4]]; try lia.
      * destruct H1 as [[L1 H1]|[L1 H1]]; [|lia]. destruct H3 as [[L3 H3]|[L3 H3]]; [|lia].
        eapply (Hso i j); eassumption.
      * subst tj. cbn [ss_save st_size].
        destruct H1 as [[L1 H1]|[L1 H1]]; destruct H3 as [[L3 H3]|[L3 H3]]; try lia.
        -- destruct (Hsn i ti ci H1 H3) as (Hle & _). assumption.
        -- subst ti. cbn. lia.
  - (* restore *)
    destruct (nth_error cs k) as [t|] eqn:Ek.
    + assert (Hk : k < length (snaps sp)) by (rewrite <- Hlen; eapply nth_error_lt_Some; eassumption).
      destruct (nth_error (snaps sp) k) as [[c fl]|] eqn:Es;
        [|apply nth_error_None in Es; lia].
      cbn [spec_step] in Hbad. rewrite Es in Hbad. cbn [bad] in Hbad.
      apply orb_false_iff in Hbad. destruct Hbad as [_ ->].
      destruct (Hsn k t c Ek Es) as (Hle & HIr & Hcr).
      split; [exact HIr|]. cbn [fst snd ulo un cur snaps].
      split; [assumption|]. split; [assumption|]. split; [assumption|].
      unfold firstn_keep. split; [rewrite !firstn_length; lia|]. split.
      * intros i ti ci H1 H2.
        destruct (Nat.lt_ge_cases i (S k)) as [Hi|Hi];
          [|rewrite nth_error_firstn_ge in H1 by assumption; discriminate].
        rewrite nth_error_firstn_lt in H1, H2 by assumption.
        destruct (Hsn i ti ci H1 H2) as (Hle' & HIr' & Hcr').
        split; [|split; [exact HIr' | exact Hcr']].
        cbn [ss_restore size]. eapply (Hso i k); try eassumption. lia.
      * intros i j ti tj ci cj Hij H1 H2 H3 H4.
        destruct (Nat.lt_ge_cases j (S k)) as [Hj|Hj];
          [|rewrite nth_error_firstn_ge in H2 by assumption; discriminate].
        rewrite nth_error_firstn_lt in H1, H2, H3, H4 by lia.
        eapply (Hso i j); eassumption.
    + assert (Es : nth_error (snaps sp) k = None).
      { apply nth_error_None. rewrite <- Hlen. apply nth_error_None. assumption. }
      rewrite Es. exact HR.
Qed.

Lemma bad_mono_step : forall sp o, bad sp = true -> bad (spec_step sp o) = true.
Proof.
  intros sp o H. destruct o; cbn [spec_step set_cur bad]; try assumption.
  destruct (nth_error (snaps sp) k) as [[c fl]|]; [|assumption]. cbn [bad]. rewrite H. reflexivity.
Qed.

Lemma bad_mono_run : forall ops sp, bad sp = true -> bad (spec_run ops sp) = true.
Proof.
  induction ops as [|o ops IH]; intros sp H; cbn [spec_run fold_left]; [assumption|].
  apply IH. apply bad_mono_step. assumption.
Qed.

Lemma run_R : forall ops c sp, R c sp -> bad (spec_run ops sp) = false ->
  R (ss_run ops c) (spec_run ops sp).
Proof.
  induction ops as [|o ops IH]; intros c sp HR Hbad; cbn [ss_run spec_run fold_left] in *;
    [assumption|].
  apply IH; [|assumption]. apply step_R; [assumption|].
  destruct (bad (spec_step sp o)) eqn:E; [|reflexivity].
  pose proof (bad_mono_run ops _ E) as H. unfold spec_run in H. congruence.
Qed.

Lemma R_init : forall s, Inv s -> R (s, []) (spec_init s).
Proof.
  intros s HI. split; [assumption|]. cbn [fst snd spec_init ulo un cur snaps].
  split; [reflexivity|]. split; [reflexivity|].
  split; [intros x; apply iter_contains; assumption|].
  split; [reflexivity|]. split.
  - intros i t c H. destruct i; discriminate.
  - intros i j ti tj ci cj _ H. destruct i; discriminate.
Qed.

Lemma R_obs : forall c sp, R c sp -> obs_agree (fst c) sp.
Proof.
  intros c sp (HI & Hu & Hn & Hcur & _). apply obs_agree_of; assumption.
Qed.

Lemma refines_general : forall s0 ops, Inv s0 ->
  bad (spec_run ops (spec_init s0)) = false ->
  obs_agree (fst (ss_run ops (s0, []))) (spec_run ops (spec_init s0)).
Proof.
  intros s0 ops HI Hbad. apply R_obs. apply run_R; [apply R_init; assumption | assumption].
Qed.

Lemma run_Inv : forall s0 ops, Inv s0 ->
  bad (spec_run ops (spec_init s0)) = false -> Inv (fst (ss_run ops (s0, []))).
Proof.
  intros s0 ops HI Hbad.
  destruct (run_R ops (s0, []) (spec_init s0) (R_init s0 HI) Hbad) as (H & _). exact H.
Qed.

(* ------------------------------------------------------------------------------------------ *)
(* The lemmas used by Properties/C11.v *)

Lemma refines_range : forall lo hi ops,
  let s0 := ss_new lo hi in
  bad (spec_run ops (spec_init s0)) = false ->
  obs_agree (fst (ss_run ops (s0, []))) (spec_run ops (spec_init s0)).
Proof. intros lo hi ops s0. apply refines_general. apply new_Inv. Qed.

Lemma refines_values : forall l ops,
  let s0 := ss_new_from_values l in
  bad (spec_run ops (spec_init s0)) = false ->
  obs_agree (fst (ss_run ops (s0, []))) (spec_run ops (spec_init s0)).
Proof. intros l ops s0. apply refines_general. apply nfv_ok. Qed.

Lemma subset_spec : forall s1 s2, Inv s1 -> Inv s2 ->
  (ss_is_subset_of s1 s2 = true <-> forall x, In x (ss_iter s1) -> In x (ss_iter s2)) /\
  (ss_equals s1 s2 = true <-> forall x, In x (ss_iter s1) <-> In x (ss_iter s2)).
Proof.
  intros s1 s2 H1 H2.
  assert (Hsub : forallb (ss_contains s2) (ss_iter s1) = true <->
                 forall x, In x (ss_iter s1) -> In x (ss_iter s2)).
  { rewrite forallb_forall. split; intros H x Hx.
    - apply iter_contains; [assumption|]. apply H; assumption.
    - apply iter_contains; [assumption|]. apply H; assumption. }
  split; [exact Hsub|].
  unfold ss_equals. rewrite andb_true_iff, Nat.eqb_eq, Hsub. split.
  - intros [Hsz Hincl] x. split; [apply Hincl|].
    revert x. apply NoDup_length_incl; [apply iter_NoDup; assumption | | exact Hincl].
    rewrite !iter_length. lia.
  - intros H. split; [|intros x; apply H].
    rewrite <- !iter_length. apply Nat.le_antisymm.
    + apply NoDup_incl_length; [apply iter_NoDup; assumption | intros x; apply H].
    + apply NoDup_incl_length; [apply iter_NoDup; assumption | intros x; apply H].
Qed.

Lemma subset_equals_spec : forall ops1 ops2 l1 l2,
  let s1 := fst (ss_run ops1 (ss_new_from_values l1, [])) in
  let s2 := fst (ss_run ops2 (ss_new_from_values l2, [])) in
  bad (spec_run ops1 (spec_init (ss_new_from_values l1))) = false ->
  bad (spec_run ops2 (spec_init (ss_new_from_values l2))) = false ->
  (ss_is_subset_of s1 s2 = true <-> forall x, In x (ss_iter s1) -> In x (ss_iter s2)) /\
  (ss_equals s1 s2 = true <-> forall x, In x (ss_iter s1) <-> In x (ss_iter s2)).
Proof.
  intros ops1 ops2 l1 l2 s1 s2 Hb1 Hb2.
  apply subset_spec; apply run_Inv; try assumption; apply nfv_ok.
Qed.

Lemma restore_after_union_refuted :
  exists ops, let s0 := ss_new 1 5 in
    bad (spec_run ops (spec_init s0)) = true /\
    ~ (forall x, In x (ss_iter (fst (ss_run ops (s0, [])))) <-> In x (cur (spec_run ops (spec_init s0)))).
Proof.
  exists [ORemove 2; OSave; ORemove 4; OUnion [2]; ORestore 0]%Z.
  cbn zeta. split; [vm_compute; reflexivity|].
  intros H. specialize (H 4%Z).
  assert (Hc : In 4%Z (cur (spec_run [ORemove 2; OSave; ORemove 4; OUnion [2]; ORestore 0]%Z
                                      (spec_init (ss_new 1 5))))).
  { vm_compute. tauto. }
  apply H in Hc. vm_compute in Hc.
  repeat (destruct Hc as [Hc|Hc]; [discriminate|]). exact Hc.
Qed.
