(* C17, proof part: under the InRange predicates of Model/Checked.v every checked operation
   returns Some and equals the unbounded-Z model (Model/Views.v, Model/Props/Basic.v,
   Model/Props/LinInt.v); index facts; refutation witnesses for the real panics. *)
Require Import Selen.Model.Prelude Selen.Model.Dom Selen.Model.Views Selen.Model.PropDefs.
Require Import Selen.Model.Props.Basic Selen.Model.Props.LinInt Selen.Model.Api Selen.Model.Checked.
Require Import Selen.Proofs.DomProofs Selen.Proofs.ViewsProofs.

Local Open Scope Z_scope.

(* ---------------- scalars ---------------- *)
Lemma i32_consts : i32_min = -2147483648 /\ i32_max = 2147483647.
Proof. split; reflexivity. Qed.

Lemma ck_abs : forall x, Z.abs x <= i32_max -> ck x = Some x.
Proof.
  intros x H. unfold ck, in_i32. destruct i32_consts as [Hm HM].
  assert (i32_min <= x) by lia. assert (x <= i32_max) by lia.
  destruct (Z.leb_spec i32_min x); try lia. destruct (Z.leb_spec x i32_max); try lia. reflexivity.
Qed.

Lemma sat32_abs : forall x, Z.abs x <= i32_max -> sat32 x = x.
Proof. intros x H. unfold sat32. destruct i32_consts as [Hm HM]. lia. Qed.

Lemma cadd_ok : forall a b, Z.abs a + Z.abs b <= i32_max -> cadd a b = Some (a + b).
Proof. intros. unfold cadd. apply ck_abs. lia. Qed.
Lemma csub_ok : forall a b, Z.abs a + Z.abs b <= i32_max -> csub a b = Some (a - b).
Proof. intros. unfold csub. apply ck_abs. lia. Qed.
Lemma cneg_ok : forall a, Z.abs a <= i32_max -> cneg a = Some (- a).
Proof. intros. unfold cneg. apply ck_abs. lia. Qed.
Lemma cmul_ok : forall a b, Z.abs a * Z.abs b <= i32_max -> cmul a b = Some (a * b).
Proof. intros. unfold cmul. apply ck_abs. rewrite Z.abs_mul. assumption. Qed.
Lemma sadd_ok : forall a b, Z.abs a + Z.abs b <= i32_max -> sadd a b = a + b.
Proof. intros. unfold sadd. apply sat32_abs. lia. Qed.
Lemma ssub_ok : forall a b, Z.abs a + Z.abs b <= i32_max -> ssub a b = a - b.
Proof. intros. unfold ssub. apply sat32_abs. lia. Qed.

Lemma div_guard_ok : forall a b, b <> 0 -> Z.abs a <= i32_max -> div_guard a b = true.
Proof.
  intros a b Hb Ha. unfold div_guard. destruct i32_consts as [Hm HM].
  destruct (Z.eqb_spec b 0); try contradiction.
  destruct (Z.eqb_spec a i32_min); simpl; try reflexivity. lia.
Qed.
Lemma cediv_ok : forall a b, b <> 0 -> Z.abs a <= i32_max -> cediv a b = Some (ediv a b).
Proof. intros. unfold cediv. rewrite div_guard_ok; auto. Qed.
Lemma cerem_ok : forall a b, b <> 0 -> Z.abs a <= i32_max -> cerem a b = Some (erem a b).
Proof. intros. unfold cerem. rewrite div_guard_ok; auto. Qed.
Lemma ctdiv_ok : forall a b, b <> 0 -> Z.abs a <= i32_max -> ctdiv a b = Some (tdiv a b).
Proof. intros. unfold ctdiv. rewrite div_guard_ok; auto. Qed.
Lemma ctrem_ok : forall a b, b <> 0 -> Z.abs a <= i32_max -> ctrem a b = Some (trem a b).
Proof. intros. unfold ctrem. rewrite div_guard_ok; auto. Qed.

Lemma abs_div_le : forall a b, b <> 0 -> Z.abs (a / b) <= Z.abs a.
Proof.
  intros a b Hb.
  pose proof (Z.div_mod a b Hb) as E.
  destruct (Z_lt_le_dec 0 b) as [Hp | Hn].
  - pose proof (Z.mod_pos_bound a b Hp). nia.
  - assert (b < 0) by lia. pose proof (Z.mod_neg_bound a b H). nia.
Qed.
Lemma abs_fdiv_le : forall a b, b <> 0 -> Z.abs (fdiv a b) <= Z.abs a.
Proof. intros. unfold fdiv. apply abs_div_le; auto. Qed.
Lemma abs_cdiv_le : forall a b, b <> 0 -> Z.abs (cdiv a b) <= Z.abs a.
Proof.
  intros. unfold cdiv. rewrite Z.abs_opp.
  pose proof (abs_div_le (- a) b H). rewrite Z.abs_opp in H0. assumption.
Qed.
Lemma div_ceil32_ok : forall a b, b <> 0 -> Z.abs a <= i32_max -> div_ceil32 a b = cdiv a b.
Proof. intros. unfold div_ceil32. apply sat32_abs. pose proof (abs_cdiv_le a b H). lia. Qed.
Lemma div_floor32_ok : forall a b, b <> 0 -> Z.abs a <= i32_max -> div_floor32 a b = fdiv a b.
Proof. intros. unfold div_floor32. apply sat32_abs. pose proof (abs_fdiv_le a b H). lia. Qed.

(* ---------------- bounded stores ---------------- *)
Lemma boundedb_spec : forall B s, boundedb B s = true -> bounded B s.
Proof.
  intros B s H v x Hin. unfold boundedb in H. rewrite forallb_forall in H.
  unfold sget in Hin.
  destruct (Nat.lt_ge_cases v (length s)) as [L | L].
  - assert (Hd : In (nth v s []) s) by (apply nth_In; assumption).
    specialize (H _ Hd). rewrite forallb_forall in H. specialize (H _ Hin). lia.
  - rewrite nth_overflow in Hin by assumption. contradiction.
Qed.

Lemma bounded_dmin : forall B s v, 0 <= B -> bounded B s -> Z.abs (dmin (sget s v)) <= B.
Proof.
  intros B s v HB H. unfold dmin. destruct (sget s v) as [|a r] eqn:E; simpl; [lia|].
  apply (H v). rewrite E. left; reflexivity.
Qed.
Lemma bounded_dmax : forall B s v, 0 <= B -> bounded B s -> Z.abs (dmax (sget s v)) <= B.
Proof.
  intros B s v HB H. unfold dmax. destruct (sget s v) as [|a r] eqn:E; [simpl; lia|].
  apply (H v). rewrite E. apply (dmax_In (a :: r)). discriminate.
Qed.

Lemma sget_supd_In : forall s v d u x, In x (sget (supd s v d) u) -> In x (sget s u) \/ In x d.
Proof.
  unfold sget. induction s as [|a s IH]; intros v d u x H.
  - simpl in H. destruct v; simpl in H; destruct u; simpl in H; contradiction.
  - destruct v as [|v]; simpl in H.
    + destruct u as [|u]; simpl in *; auto.
    + destruct u as [|u]; simpl in *; auto. apply IH in H. assumption.
Qed.

Lemma bounded_supd_sub : forall B s v d, bounded B s -> (forall x, In x d -> In x (sget s v)) -> bounded B (supd s v d).
Proof.
  intros B s v d H Hs u x Hin. apply sget_supd_In in Hin. destruct Hin as [Hin | Hin].
  - apply (H u); assumption.
  - apply (H v). apply Hs; assumption.
Qed.

Lemma cset_min_bounded : forall B v b c c', bounded B (fst c) -> cset_min v b c = Some c' -> bounded B (fst c').
Proof.
  intros B v b [s ev] c' H E. unfold cset_min in E. simpl in *.
  destruct (dempty (sget s v)); [discriminate|].
  destruct (dmax (sget s v) <? b); [discriminate|].
  destruct (dmin (sget s v) <? b).
  - destruct (dempty (dbelow b (sget s v))); [discriminate|]. inversion E; subst; simpl.
    apply bounded_supd_sub; auto. intros x Hx. apply dbelow_In in Hx. tauto.
  - inversion E; subst; assumption.
Qed.
Lemma cset_max_bounded : forall B v b c c', bounded B (fst c) -> cset_max v b c = Some c' -> bounded B (fst c').
Proof.
  intros B v b [s ev] c' H E. unfold cset_max in E. simpl in *.
  destruct (dempty (sget s v)); [discriminate|].
  destruct (b <? dmin (sget s v)); [discriminate|].
  destruct (b <? dmax (sget s v)).
  - destruct (dempty (dabove b (sget s v))); [discriminate|]. inversion E; subst; simpl.
    apply bounded_supd_sub; auto. intros x Hx. apply dabove_In in Hx. tauto.
  - inversion E; subst; assumption.
Qed.

Lemma vset_bounded : forall B w mx b c c', bounded B (fst c) -> vset w mx b c = Some c' -> bounded B (fst c').
Proof.
  induction w as [v|k|w IHw|w IHw k|w IHw k|w IHw|w IHw]; intros mx b ct ct' H E; simpl in E.
  - destruct mx; [eapply cset_max_bounded | eapply cset_min_bounded]; eauto.
  - destruct mx; [destruct (k <=? b) | destruct (b <=? k)]; inversion E; subst; assumption.
  - eapply IHw; eauto.
  - eapply IHw; eauto.
  - destruct mx; eapply IHw; eauto.
  - eapply IHw; eauto.
  - eapply IHw; eauto.
Qed.

Lemma ccset_max_ok : forall B v b c, 0 <= B -> B < i32_max -> bounded B (fst c) -> ccset_max v b c = Some (cset_max v b c).
Proof.
  intros B v b c HB HM H. unfold ccset_max.
  pose proof (bounded_dmax B (fst c) v HB H) as Hd.
  destruct (Z.eqb_spec (dmax (sget (fst c) v)) i32_max) as [E | E].
  - rewrite E in Hd. lia.
  - rewrite Bool.andb_false_r. reflexivity.
Qed.

(* ---------------- views ---------------- *)
Lemma vmag_nonneg : forall B w, 0 <= B -> 0 <= vmag B w.
Proof. induction w; intros; simpl; try specialize (IHw H); try lia; try nia. Qed.

Lemma view_in_rangeb_spec : forall B w, view_in_rangeb B w = true -> view_in_range B w.
Proof.
  induction w; simpl; intros H; apply Bool.andb_true_iff in H; destruct H as [H1 H2];
    split; try (apply Z.leb_le; assumption); auto.
Qed.
Lemma vset_in_rangeb_spec : forall w M, vset_in_rangeb w M = true -> vset_in_range w M.
Proof.
  induction w; simpl; intros M H; auto;
    apply Bool.andb_true_iff in H; destruct H as [H1 H2]; split; auto;
    try (apply Z.leb_le; assumption); try (apply Z.ltb_lt; assumption).
Qed.

(* no_overflow_in_range, views: min_raw / max_raw *)
Lemma cvbnd_ok : forall B s, 0 <= B -> bounded B s -> forall w, view_in_range B w -> forall mx,
  cvbnd w mx s = Some (vbnd w mx s) /\ Z.abs (vbnd w mx s) <= vmag B w.
Proof.
  intros B s HB Hs. induction w as [v|k|w IHw|w IHw k|w IHw k|w IHw|w IHw]; intros [Hm Hr] mx; simpl in *.
  - split; [reflexivity|]. destruct mx; [apply bounded_dmax | apply bounded_dmin]; auto.
  - split; [reflexivity | lia].
  - destruct (IHw Hr (negb mx)) as [E A]. rewrite E. simpl. split.
    + apply cneg_ok. lia.
    + rewrite Z.abs_opp. assumption.
  - destruct (IHw Hr mx) as [E A]. rewrite E. simpl. split.
    + apply cadd_ok. lia.
    + lia.
  - destruct (IHw Hr mx) as [E A]. rewrite E. simpl.
    assert (Z.abs (vbnd w mx s) * Z.abs k <= vmag B w * Z.abs k) by (apply Z.mul_le_mono_nonneg_r; lia).
    split.
    + apply cmul_ok. lia.
    + rewrite Z.abs_mul. assumption.
  - destruct (IHw Hr mx) as [E A]. rewrite E. simpl. split.
    + apply cadd_ok. simpl. lia.
    + lia.
  - destruct (IHw Hr mx) as [E A]. rewrite E. simpl. split.
    + apply csub_ok. simpl. lia.
    + lia.
Qed.

Lemma ceil_pos_abs : forall b k, 0 < k ->
  Z.abs (b / k + (if b mod k =? 0 then 0 else 1)) <= Z.abs b.
Proof.
  intros b k Hk. pose proof (Z.div_mod b k ltac:(lia)) as E. pose proof (Z.mod_pos_bound b k Hk) as R.
  destruct (Z.eqb_spec (b mod k) 0); nia.
Qed.

(* no_overflow_in_range, views: try_set_min / try_set_max *)
Lemma cvset_ok : forall B, 0 <= B -> B < i32_max -> forall w M, vset_in_range w M -> M <= i32_max ->
  forall mx b c, Z.abs b <= M -> bounded B (fst c) -> cvset w mx b c = Some (vset w mx b c).
Proof.
  intros B HB HBM. induction w as [v|k|w IHw|w IHw k|w IHw k|w IHw|w IHw]; intros M Hr HM mx b c Hb Hs; simpl in *.
  - destruct mx; [eapply ccset_max_ok; eauto | reflexivity].
  - reflexivity.
  - rewrite cneg_ok by lia. simpl. apply (IHw M); auto. rewrite Z.abs_opp. assumption.
  - destruct Hr as [H1 H2]. rewrite csub_ok by lia. simpl. apply (IHw (M + Z.abs k)); auto. lia.
  - destruct Hr as [Hk H2]. assert (k <> 0) by lia.
    destruct mx.
    + rewrite cediv_ok by (auto; lia). simpl. apply (IHw M); auto.
      rewrite ediv_pos by assumption. pose proof (abs_div_le b k H). lia.
    + rewrite cediv_ok by (auto; lia). simpl. rewrite cerem_ok by (auto; lia). simpl.
      rewrite ediv_pos by assumption. rewrite erem_pos by assumption.
      pose proof (ceil_pos_abs b k Hk) as Hc.
      assert (E : cadd (b / k) (if b mod k =? 0 then 0 else 1) = Some (b / k + (if b mod k =? 0 then 0 else 1))).
      { unfold cadd. apply ck_abs. lia. }
      rewrite E. simpl. apply (IHw M); auto. lia.
  - destruct Hr as [H1 H2]. rewrite csub_ok by (simpl; lia). simpl. apply (IHw (M + 1)); auto. lia.
  - destruct Hr as [H1 H2]. rewrite cadd_ok by (simpl; lia). simpl. apply (IHw (M + 1)); auto. lia.
Qed.

(* ---------------- sequencing ---------------- *)
Lemma pbind_ok : forall (m : option ctx) cm (f : ctx -> option (option ctx)) (g : ctx -> option ctx),
  cm = Some m -> (forall c, m = Some c -> f c = Some (g c)) -> pbind cm f = Some (obind m g).
Proof. intros m cm f g E H. subst cm. destruct m as [c|]; simpl; auto. Qed.

Lemma bounded_cvar_min : forall B s c, 0 <= B -> bounded B (fst c) -> Z.abs (cvar_min s c) <= B.
Proof. intros. unfold cvar_min. apply bounded_dmin; auto. Qed.
Lemma bounded_cvar_max : forall B s c, 0 <= B -> bounded B (fst c) -> Z.abs (cvar_max s c) <= B.
Proof. intros. unfold cvar_max. apply bounded_dmax; auto. Qed.

Ltac vb B Hs x Hx mx :=
  let E := fresh "E" in let A := fresh "A" in
  destruct (cvbnd_ok B _ ltac:(assumption) Hs x Hx mx) as [E A]; rewrite E; cbn [obind].

(* no_overflow_in_range, Add::prune *)
Lemma cprune_add_ok : forall B x y s c, bounded B (fst c) -> add_in_range B x y ->
  cprune_add x y s c = Some (prune_add x y s c).
Proof.
  intros B x y s c Hs (HB & HBM & Hx & Hy & Hxy & HBy & HBx & Hsx & Hsy).
  unfold cprune_add, prune_add, cmin, cmax, vmin, vmax, vset_min, vset_max.
  vb B Hs x Hx false. vb B Hs y Hy false. rewrite cadd_ok by lia. cbn [obind].
  apply pbind_ok; [reflexivity|]. intros c1 H1. assert (Hs1 := cset_min_bounded _ _ _ _ _ Hs H1).
  vb B Hs1 x Hx true. vb B Hs1 y Hy true. rewrite cadd_ok by lia. cbn [obind].
  apply pbind_ok; [eapply ccset_max_ok; eauto|]. intros c2 H2. assert (Hs2 := cset_max_bounded _ _ _ _ _ Hs1 H2).
  vb B Hs2 y Hy true. pose proof (bounded_cvar_min B s c2 HB Hs2) as M1.
  rewrite csub_ok by lia. cbn [obind].
  apply pbind_ok; [eapply (cvset_ok B HB HBM x (B + vmag B y)); eauto; lia|]. intros c3 H3.
  assert (Hs3 := vset_bounded _ _ _ _ _ _ Hs2 H3).
  vb B Hs3 y Hy false. pose proof (bounded_cvar_max B s c3 HB Hs3) as M2.
  rewrite csub_ok by lia. cbn [obind].
  apply pbind_ok; [eapply (cvset_ok B HB HBM x (B + vmag B y)); eauto; lia|]. intros c4 H4.
  assert (Hs4 := vset_bounded _ _ _ _ _ _ Hs3 H4).
  vb B Hs4 x Hx true. pose proof (bounded_cvar_min B s c4 HB Hs4) as M3.
  rewrite csub_ok by lia. cbn [obind].
  apply pbind_ok; [eapply (cvset_ok B HB HBM y (B + vmag B x)); eauto; lia|]. intros c5 H5.
  assert (Hs5 := vset_bounded _ _ _ _ _ _ Hs4 H5).
  vb B Hs5 x Hx false. pose proof (bounded_cvar_max B s c5 HB Hs5) as M4.
  rewrite csub_ok by lia. cbn [obind].
  eapply (cvset_ok B HB HBM y (B + vmag B x)); eauto; lia.
Qed.

(* ---------------- Sum::prune ---------------- *)
Lemma smag_nonneg : forall B xs, 0 <= B -> 0 <= smag B xs.
Proof. induction xs; intros; simpl; [lia|]. pose proof (vmag_nonneg B a H). specialize (IHxs H). lia. Qed.

Lemma vmag_le_smag : forall B xs x, 0 <= B -> In x xs -> vmag B x <= smag B xs.
Proof.
  induction xs as [|a r IH]; intros x HB Hin; [contradiction|]. simpl.
  pose proof (vmag_nonneg B a HB). pose proof (smag_nonneg B r HB).
  destruct Hin as [-> | Hin]; [lia|]. specialize (IH x HB Hin). lia.
Qed.

Lemma csum_bnd_ok : forall B s mx, 0 <= B -> bounded B s -> forall xs, Forall (view_in_range B) xs ->
  forall acc, Z.abs acc + smag B xs <= i32_max ->
  csum_bnd xs mx s acc = Some (acc + sum_bnd xs mx s) /\ Z.abs (sum_bnd xs mx s) <= smag B xs.
Proof.
  intros B s mx HB Hs. induction xs as [|x r IH]; intros HF acc Hacc; simpl in *.
  - split; [f_equal; lia | lia].
  - inversion HF as [|? ? Hx Hr]; subst.
    destruct (cvbnd_ok B s HB Hs x Hx mx) as [E A]. rewrite E. cbn [obind].
    pose proof (smag_nonneg B r HB).
    rewrite cadd_ok by lia. cbn [obind].
    destruct (IH Hr (acc + vbnd x mx s)) as [E2 A2]; [lia|].
    rewrite E2. split; [f_equal; lia | lia].
Qed.

Lemma csum_terms_ok : forall B T, 0 <= B -> B < i32_max -> B + 2 * T <= i32_max ->
  forall xs, Forall (view_in_range B) xs -> Forall (fun x => vmag B x <= T) xs ->
  Forall (fun x => vset_in_range x (B + 2 * T)) xs ->
  forall smin smax mn mx c, Z.abs smin <= B -> Z.abs smax <= B -> Z.abs mn <= T -> Z.abs mx <= T ->
  bounded B (fst c) ->
  csum_terms xs smin smax mn mx c = Some (sum_terms xs smin smax mn mx c).
Proof.
  intros B T HB HBM HT. induction xs as [|x r IH]; intros HF HV HS smin smax mn mx c Hsmin Hsmax Hmn Hmx Hs; simpl.
  - reflexivity.
  - inversion HF as [|? ? Hx Hr]; subst. inversion HV as [|? ? Vx Vr]; subst. inversion HS as [|? ? Sx Sr]; subst.
    unfold cmin, cmax, vmin, vmax, vset_min, vset_max.
    vb B Hs x Hx false. vb B Hs x Hx true.
    rewrite (csub_ok mn) by lia. cbn [obind]. rewrite (csub_ok mx) by lia. cbn [obind].
    rewrite (csub_ok smin) by lia. cbn [obind].
    apply pbind_ok; [eapply (cvset_ok B HB HBM x (B + 2 * T)); eauto; lia|]. intros c1 H1.
    assert (Hs1 := vset_bounded _ _ _ _ _ _ Hs H1).
    rewrite (csub_ok smax) by lia. cbn [obind].
    apply pbind_ok; [eapply (cvset_ok B HB HBM x (B + 2 * T)); eauto; lia|]. intros c2 H2.
    assert (Hs2 := vset_bounded _ _ _ _ _ _ Hs1 H2).
    apply IH; auto.
Qed.

(* no_overflow_in_range, Sum::prune *)
Lemma cprune_sum_ok : forall B xs s c, bounded B (fst c) -> sum_in_range B xs ->
  cprune_sum xs s c = Some (prune_sum xs s c).
Proof.
  intros B xs s c Hs (HB & HBM & HF & HT & HS).
  unfold cprune_sum, prune_sum. pose proof (smag_nonneg B xs HB) as Hn.
  destruct (csum_bnd_ok B (fst c) false HB Hs xs HF 0) as [E1 A1]; [simpl; lia|].
  destruct (csum_bnd_ok B (fst c) true HB Hs xs HF 0) as [E2 A2]; [simpl; lia|].
  rewrite E1, E2. cbn [obind]. rewrite !Z.add_0_l.
  apply pbind_ok; [reflexivity|]. intros c1 H1. assert (Hs1 := cset_min_bounded _ _ _ _ _ Hs H1).
  apply pbind_ok; [apply (ccset_max_ok B); auto|]. intros c2 H2. assert (Hs2 := cset_max_bounded _ _ _ _ _ Hs1 H2).
  apply (csum_terms_ok B (smag B xs)); auto.
  - apply Forall_forall. intros x Hin. apply vmag_le_smag; auto.
  - apply bounded_cvar_min; auto.
  - apply bounded_cvar_max; auto.
Qed.

(* ---------------- linear propagators ---------------- *)
(* no_oob_index: a coefficient for every variable <-> the indexing never leaves the vector *)
Lemma czip_ok : forall xs cs, (length xs <= length cs)%nat -> czip cs xs = Some (combine cs xs).
Proof.
  induction xs as [|x xr IH]; intros cs H; simpl.
  - destruct cs; reflexivity.
  - destruct cs as [|c cr]; simpl in *; [lia|]. rewrite IH by lia. reflexivity.
Qed.
Lemma czip_short : forall xs cs, (length cs < length xs)%nat -> czip cs xs = None.
Proof.
  induction xs as [|x xr IH]; intros cs H; simpl in *; [lia|].
  destruct cs as [|c cr]; simpl in *; [reflexivity|]. rewrite IH by lia. reflexivity.
Qed.

Lemma sum_abs_nonneg : forall l, 0 <= sum_abs l.
Proof. induction l as [|[cf v] r IH]; simpl; lia. Qed.

Lemma cterm_min_ok : forall B s cf v, 0 <= B -> bounded B s -> Z.abs cf * B <= i32_max ->
  cterm_min s cf v = Some (term_min s cf v) /\ Z.abs (term_min s cf v) <= Z.abs cf * B.
Proof.
  intros B s cf v HB Hs H. unfold cterm_min, term_min.
  pose proof (bounded_dmin B s v HB Hs). pose proof (bounded_dmax B s v HB Hs).
  assert (Z.abs cf * Z.abs (dmin (sget s v)) <= Z.abs cf * B) by (apply Z.mul_le_mono_nonneg_l; lia).
  assert (Z.abs cf * Z.abs (dmax (sget s v)) <= Z.abs cf * B) by (apply Z.mul_le_mono_nonneg_l; lia).
  destruct (0 <? cf); (split; [apply cmul_ok; lia | rewrite Z.abs_mul; lia]).
Qed.
Lemma cterm_max_ok : forall B s cf v, 0 <= B -> bounded B s -> Z.abs cf * B <= i32_max ->
  cterm_max s cf v = Some (term_max s cf v) /\ Z.abs (term_max s cf v) <= Z.abs cf * B.
Proof.
  intros B s cf v HB Hs H. unfold cterm_max, term_max.
  pose proof (bounded_dmin B s v HB Hs). pose proof (bounded_dmax B s v HB Hs).
  assert (Z.abs cf * Z.abs (dmin (sget s v)) <= Z.abs cf * B) by (apply Z.mul_le_mono_nonneg_l; lia).
  assert (Z.abs cf * Z.abs (dmax (sget s v)) <= Z.abs cf * B) by (apply Z.mul_le_mono_nonneg_l; lia).
  destruct (0 <? cf); (split; [apply cmul_ok; lia | rewrite Z.abs_mul; lia]).
Qed.

Lemma cothers2_ok : forall B s, 0 <= B -> bounded B s -> forall l i j amin amax,
  Z.abs amin + sum_abs l * B <= i32_max -> Z.abs amax + sum_abs l * B <= i32_max ->
  cothers2 s l i j amin amax = Some (amin + others (term_min s) l i j, amax + others (term_max s) l i j)
  /\ Z.abs (others (term_min s) l i j) <= sum_abs l * B
  /\ Z.abs (others (term_max s) l i j) <= sum_abs l * B.
Proof.
  intros B s HB Hs. induction l as [|[cf v] r IH]; intros i j amin amax H1 H2; simpl in *.
  - repeat split; try lia; try (f_equal; f_equal; lia).
  - pose proof (sum_abs_nonneg r) as Hn.
    assert (Hd : (Z.abs cf + sum_abs r) * B = Z.abs cf * B + sum_abs r * B) by lia.
    assert (0 <= Z.abs cf * B) by nia. assert (0 <= sum_abs r * B) by nia.
    destruct (Nat.eqb i j).
    + destruct (IH i (S j) amin amax) as (E & A1 & A2); try lia.
      rewrite E. repeat split; try lia; try (f_equal; f_equal; lia).
    + destruct (cterm_min_ok B s cf v HB Hs) as [E1 M1]; [lia|].
      destruct (cterm_max_ok B s cf v HB Hs) as [E2 M2]; [lia|].
      rewrite E1, E2. cbn [obind].
      rewrite !sadd_ok by lia.
      destruct (IH i (S j) (amin + term_min s cf v) (amax + term_max s cf v)) as (E & A1 & A2); try lia.
      rewrite E. repeat split; try lia; try (f_equal; f_equal; lia).
Qed.

Lemma cothers1_ok : forall B s, 0 <= B -> bounded B s -> forall l i j amin,
  Z.abs amin + sum_abs l * B <= i32_max ->
  cothers1 s l i j amin = Some (amin + others (term_min s) l i j)
  /\ Z.abs (others (term_min s) l i j) <= sum_abs l * B.
Proof.
  intros B s HB Hs. induction l as [|[cf v] r IH]; intros i j amin H1; simpl in *.
  - split; try lia; try (f_equal; lia).
  - pose proof (sum_abs_nonneg r) as Hn.
    assert (Hd : (Z.abs cf + sum_abs r) * B = Z.abs cf * B + sum_abs r * B) by lia.
    assert (0 <= Z.abs cf * B) by nia. assert (0 <= sum_abs r * B) by nia.
    destruct (Nat.eqb i j).
    + destruct (IH i (S j) amin) as (E & A1); try lia.
      rewrite E. split; try lia; try (f_equal; lia).
    + destruct (cterm_min_ok B s cf v HB Hs) as [E1 M1]; [lia|].
      rewrite E1. cbn [obind].
      rewrite !sadd_ok by lia.
      destruct (IH i (S j) (amin + term_min s cf v)) as (E & A1); try lia.
      rewrite E. split; try lia; try (f_equal; lia).
Qed.

Lemma clin_eq_step_ok : forall B l k i cf x c, 0 <= B -> B < i32_max -> bounded B (fst c) ->
  sum_abs l * B + Z.abs k <= i32_max ->
  clin_eq_step l k i cf x c = Some (lin_eq_step l k i cf x c).
Proof.
  intros B l k i cf x c HB HBM Hs H. unfold clin_eq_step, lin_eq_step.
  destruct (Z.eqb_spec cf 0) as [|Hcf]; [reflexivity|].
  destruct (cothers2_ok B (fst c) HB Hs l i 0%nat 0 0) as (E & A1 & A2); try (simpl; lia).
  rewrite E. cbn [obind fst snd]. rewrite !Z.add_0_l.
  rewrite !ssub_ok by lia.
  rewrite !div_ceil32_ok by (auto; lia). rewrite !div_floor32_ok by (auto; lia).
  apply pbind_ok; [reflexivity|]. intros c1 H1. assert (Hs1 := cset_min_bounded _ _ _ _ _ Hs H1).
  apply (ccset_max_ok B); auto.
Qed.

Lemma lin_eq_step_bounded : forall B l k i cf x c c', bounded B (fst c) ->
  lin_eq_step l k i cf x c = Some c' -> bounded B (fst c').
Proof.
  intros B l k i cf x c c' Hs E. unfold lin_eq_step in E.
  destruct (cf =? 0); [inversion E; subst; assumption|].
  match type of E with obind ?m _ = _ => destruct m as [c1|] eqn:E1; simpl in E; [|discriminate] end.
  eapply cset_max_bounded; [|exact E]. eapply cset_min_bounded; eauto.
Qed.

Lemma clin_loop_ok : forall B (cstep : nat -> Z -> nat -> ctx -> option (option ctx)) step,
  (forall i cf x c, bounded B (fst c) -> cstep i cf x c = Some (step i cf x c)) ->
  (forall i cf x c c', bounded B (fst c) -> step i cf x c = Some c' -> bounded B (fst c')) ->
  forall l i c, bounded B (fst c) -> clin_loop cstep l i c = Some (lin_loop step l i c).
Proof.
  intros B cstep step H1 H2. induction l as [|[cf x] r IH]; intros i c Hs; simpl.
  - reflexivity.
  - apply pbind_ok; [apply H1; assumption|]. intros c1 E. apply IH. eapply H2; eauto.
Qed.

(* no_overflow_in_range, IntLinEq::prune *)
Lemma cprune_lin_eq_ok : forall B cs xs k c, bounded B (fst c) -> lin_in_range B cs xs k ->
  cprune_lin_eq cs xs k c = Some (prune_lin_eq cs xs k c).
Proof.
  intros B cs xs k c Hs (HB & HBM & HL & HS). unfold cprune_lin_eq, prune_lin_eq.
  rewrite czip_ok by assumption. cbn [obind].
  apply (clin_loop_ok B); auto.
  - intros. apply (clin_eq_step_ok B); auto.
  - intros. eapply lin_eq_step_bounded; eauto.
Qed.

Lemma clin_le_step_ok : forall B l k i cf x c, 0 <= B -> B < i32_max -> bounded B (fst c) ->
  sum_abs l * B + Z.abs k <= i32_max ->
  clin_le_step l k i cf x c = Some (lin_le_step l k i cf x c).
Proof.
  intros B l k i cf x c HB HBM Hs H. unfold clin_le_step, lin_le_step.
  destruct (Z.eqb_spec cf 0) as [|Hcf]; [reflexivity|].
  destruct (cothers1_ok B (fst c) HB Hs l i 0%nat 0) as (E & A1); try (simpl; lia).
  rewrite E. cbn [obind]. rewrite !Z.add_0_l.
  rewrite !ssub_ok by lia. rewrite cediv_ok by (auto; lia). cbn [obind].
  destruct (0 <? cf); [apply (ccset_max_ok B); auto | reflexivity].
Qed.

Lemma lin_le_step_bounded : forall B l k i cf x c c', bounded B (fst c) ->
  lin_le_step l k i cf x c = Some c' -> bounded B (fst c').
Proof.
  intros B l k i cf x c c' Hs E. unfold lin_le_step in E.
  destruct (cf =? 0); [inversion E; subst; assumption|].
  destruct (0 <? cf); [eapply cset_max_bounded | eapply cset_min_bounded]; eauto.
Qed.

(* no_overflow_in_range, IntLinLe::prune *)
Lemma cprune_lin_le_ok : forall B cs xs k c, bounded B (fst c) -> lin_in_range B cs xs k ->
  cprune_lin_le cs xs k c = Some (prune_lin_le cs xs k c).
Proof.
  intros B cs xs k c Hs (HB & HBM & HL & HS). unfold cprune_lin_le, prune_lin_le.
  rewrite czip_ok by assumption. cbn [obind].
  apply (clin_loop_ok B); auto.
  - intros. apply (clin_le_step_ok B); auto.
  - intros. eapply lin_le_step_bounded; eauto.
Qed.

(* ---------------- IntLinNe ---------------- *)
Lemma cne_scan_ok : forall B s, 0 <= B -> bounded B s -> forall xs cs fs u, (length xs <= length cs)%nat ->
  Z.abs fs + sum_abs (combine cs xs) * B <= i32_max ->
  cne_scan s cs xs fs u = Some (ne_scan s (combine cs xs) fs u)
  /\ (forall fs' u', ne_scan s (combine cs xs) fs u = Some (fs', u') ->
        Z.abs fs' <= Z.abs fs + sum_abs (combine cs xs) * B).
Proof.
  intros B s HB Hs. induction xs as [|x xr IH]; intros cs fs u HL H.
  - destruct cs; simpl in *; (split; [reflexivity|]); intros fs' u' E; inversion E; subst; lia.
  - destruct cs as [|cf cr]; simpl in HL; [lia|]. simpl in *.
    pose proof (sum_abs_nonneg (combine cr xr)) as Hn.
    assert (Hd : (Z.abs cf + sum_abs (combine cr xr)) * B = Z.abs cf * B + sum_abs (combine cr xr) * B) by lia.
    assert (0 <= Z.abs cf * B) by nia. assert (0 <= sum_abs (combine cr xr) * B) by nia.
    destruct (dmin (sget s x) =? dmax (sget s x)).
    + pose proof (bounded_dmin B s x HB Hs) as Hm.
      assert (Z.abs cf * Z.abs (dmin (sget s x)) <= Z.abs cf * B) by (apply Z.mul_le_mono_nonneg_l; lia).
      rewrite cmul_ok by lia. cbn [obind].
      assert (Z.abs (cf * dmin (sget s x)) <= Z.abs cf * B) by (rewrite Z.abs_mul; lia).
      rewrite sadd_ok by lia.
      destruct (IH cr (fs + cf * dmin (sget s x)) u) as [E A]; try lia.
      split; [exact E|]. intros fs' u' E'. specialize (A fs' u' E'). lia.
    + destruct u as [p|].
      * split; [reflexivity|]. intros; discriminate.
      * destruct (IH cr fs (Some (cf, x))) as [E A]; try lia.
        split; [exact E|]. intros fs' u' E'. specialize (A fs' u' E'). lia.
Qed.

Lemma cexclude_value_ok : forall B x f c, 0 <= B -> B < i32_max -> bounded B (fst c) ->
  cexclude_value x f c = Some (exclude_value x f c).
Proof.
  intros B x f c HB HBM Hs. unfold cexclude_value, exclude_value.
  pose proof (bounded_cvar_min B x c HB Hs). pose proof (bounded_cvar_max B x c HB Hs).
  destruct ((f <? cvar_min x c) || (cvar_max x c <? f)); [reflexivity|].
  destruct ((cvar_min x c =? cvar_max x c) && (cvar_min x c =? f)); [reflexivity|].
  destruct (Z.eqb_spec (cvar_min x c) f).
  - rewrite cadd_ok by (simpl; lia). reflexivity.
  - destruct (Z.eqb_spec (cvar_max x c) f); [|reflexivity].
    rewrite csub_ok by (simpl; lia). cbn [obind]. apply (ccset_max_ok B); auto.
Qed.

(* no_overflow_in_range, IntLinNe::prune *)
Lemma cprune_lin_ne_ok : forall B cs xs k c, bounded B (fst c) -> lin_in_range B cs xs k ->
  cprune_lin_ne cs xs k c = Some (prune_lin_ne cs xs k c).
Proof.
  intros B cs xs k c Hs (HB & HBM & HL & HS). unfold cprune_lin_ne, prune_lin_ne.
  pose proof (sum_abs_nonneg (combine cs xs)) as Hn.
  destruct (cne_scan_ok B (fst c) HB Hs xs cs 0 None HL) as [E A]; [simpl; lia|].
  rewrite E. cbn [obind].
  destruct (ne_scan (fst c) (combine cs xs) 0 None) as [[fs' [[cf x]|]]|] eqn:R; try reflexivity.
  specialize (A fs' (Some (cf, x)) eq_refl). simpl in A.
  destruct (Z.eqb_spec cf 0) as [|Hcf]; [reflexivity|].
  rewrite ssub_ok by lia.
  rewrite ctrem_ok by (auto; lia). cbn [obind].
  destruct (trem (k - fs') cf =? 0); [|reflexivity].
  rewrite ctdiv_ok by (auto; lia). cbn [obind].
  apply (cexclude_value_ok B); auto.
Qed.

(* ---------------- reified forms ---------------- *)
Lemma cfixed_sum_ok : forall B s, 0 <= B -> bounded B s -> forall l acc,
  Z.abs acc + sum_abs l * B <= i32_max -> cfixed_sum s l acc = Some (fixed_sum s l acc).
Proof.
  intros B s HB Hs. induction l as [|[cf x] r IH]; intros acc H; simpl in *; [reflexivity|].
  pose proof (sum_abs_nonneg r) as Hn.
  assert (Hd : (Z.abs cf + sum_abs r) * B = Z.abs cf * B + sum_abs r * B) by lia.
  assert (0 <= Z.abs cf * B) by nia. assert (0 <= sum_abs r * B) by nia.
  destruct (dmin (sget s x) =? dmax (sget s x)); [|reflexivity].
  pose proof (bounded_dmin B s x HB Hs) as Hm.
  assert (Z.abs cf * Z.abs (dmin (sget s x)) <= Z.abs cf * B) by (apply Z.mul_le_mono_nonneg_l; lia).
  rewrite cmul_ok by lia. cbn [obind].
  assert (Z.abs (cf * dmin (sget s x)) <= Z.abs cf * B) by (rewrite Z.abs_mul; lia).
  rewrite sadd_ok by lia. apply IH. lia.
Qed.

Lemma csum_bounds_ok : forall B s, 0 <= B -> bounded B s -> forall l amin amax,
  Z.abs amin + sum_abs l * B <= i32_max -> Z.abs amax + sum_abs l * B <= i32_max ->
  csum_bounds s l amin amax = Some (amin + fst (sum_bounds s l), amax + snd (sum_bounds s l))
  /\ Z.abs (fst (sum_bounds s l)) <= sum_abs l * B /\ Z.abs (snd (sum_bounds s l)) <= sum_abs l * B.
Proof.
  intros B s HB Hs. induction l as [|[cf x] r IH]; intros amin amax H1 H2; simpl in *.
  - repeat split; try lia; try (f_equal; f_equal; lia).
  - pose proof (sum_abs_nonneg r) as Hn.
    assert (Hd : (Z.abs cf + sum_abs r) * B = Z.abs cf * B + sum_abs r * B) by lia.
    assert (0 <= Z.abs cf * B) by nia. assert (0 <= sum_abs r * B) by nia.
    destruct (cterm_min_ok B s cf x HB Hs) as [E1 M1]; [lia|].
    destruct (cterm_max_ok B s cf x HB Hs) as [E2 M2]; [lia|].
    rewrite E1, E2. cbn [obind]. rewrite !sadd_ok by lia.
    destruct (IH (amin + term_min s cf x) (amax + term_max s cf x)) as (E & A1 & A2); try lia.
    rewrite E. destruct (sum_bounds s r) as [mn mx]. simpl in *.
    repeat split; try lia; try (f_equal; f_equal; lia).
Qed.

Lemma cset_bool_ok : forall B b v c, 0 <= B -> B < i32_max -> bounded B (fst c) ->
  cset_bool b v c = Some (set_bool b v c).
Proof.
  intros B b v c HB HBM Hs. unfold cset_bool, set_bool.
  apply pbind_ok; [reflexivity|]. intros c1 H1. apply (ccset_max_ok B); auto.
  eapply cset_min_bounded; eauto.
Qed.

Lemma cprune_lin_eq_reif_ok : forall B cs xs k b c, bounded B (fst c) -> lin_in_range B cs xs k ->
  cprune_lin_eq_reif cs xs k b c = Some (prune_lin_eq_reif cs xs k b c).
Proof.
  intros B cs xs k b c Hs HR. pose proof HR as (HB & HBM & HL & HS).
  unfold cprune_lin_eq_reif, prune_lin_eq_reif.
  pose proof (sum_abs_nonneg (combine cs xs)) as Hn.
  destruct (reif_is b 1 c); [apply (cprune_lin_eq_ok B); auto|].
  rewrite (cfixed_sum_ok B (fst c) HB Hs) by (simpl; lia). cbn [obind].
  destruct (reif_is b 0 c).
  - destruct (fixed_sum (fst c) (combine cs xs) 0); reflexivity.
  - destruct (fixed_sum (fst c) (combine cs xs) 0) as [sm|]; [|reflexivity].
    destruct (sm =? k); apply (cset_bool_ok B); auto.
Qed.

Lemma cprune_lin_le_reif_ok : forall B cs xs k b c, bounded B (fst c) -> lin_in_range B cs xs k ->
  cprune_lin_le_reif cs xs k b c = Some (prune_lin_le_reif cs xs k b c).
Proof.
  intros B cs xs k b c Hs HR. pose proof HR as (HB & HBM & HL & HS).
  unfold cprune_lin_le_reif, prune_lin_le_reif.
  pose proof (sum_abs_nonneg (combine cs xs)) as Hn.
  destruct (reif_is b 1 c); [apply (cprune_lin_le_ok B); auto|].
  destruct (reif_is b 0 c).
  - rewrite (cfixed_sum_ok B (fst c) HB Hs) by (simpl; lia). cbn [obind].
    destruct (fixed_sum (fst c) (combine cs xs) 0); reflexivity.
  - destruct (csum_bounds_ok B (fst c) HB Hs (combine cs xs) 0 0) as (E & A1 & A2); try (simpl; lia).
    rewrite E. cbn [obind fst snd]. rewrite !Z.add_0_l.
    destruct (sum_bounds (fst c) (combine cs xs)) as [mn mx]. simpl.
    destruct (mx <=? k); [apply (cset_bool_ok B); auto|].
    destruct (k <? mn); [apply (cset_bool_ok B); auto | reflexivity].
Qed.

Lemma cprune_lin_ne_reif_ok : forall B cs xs k b c, bounded B (fst c) -> lin_in_range B cs xs k ->
  cprune_lin_ne_reif cs xs k b c = Some (prune_lin_ne_reif cs xs k b c).
Proof.
  intros B cs xs k b c Hs HR. pose proof HR as (HB & HBM & HL & HS).
  unfold cprune_lin_ne_reif, prune_lin_ne_reif.
  pose proof (sum_abs_nonneg (combine cs xs)) as Hn.
  destruct (reif_is b 1 c); [apply (cprune_lin_ne_ok B); auto|].
  destruct (reif_is b 0 c); [apply (cprune_lin_eq_ok B); auto|].
  rewrite (cfixed_sum_ok B (fst c) HB Hs) by (simpl; lia). cbn [obind].
  destruct (fixed_sum (fst c) (combine cs xs) 0) as [sm|]; [|reflexivity].
  destruct (negb (sm =? k)); apply (cset_bool_ok B); auto.
Qed.

(* ---------------- boolean reflections of the InRange predicates ---------------- *)
Lemma add_in_rangeb_spec : forall B x y, add_in_rangeb B x y = true -> add_in_range B x y.
Proof.
  intros B x y H. unfold add_in_rangeb in H. repeat (apply Bool.andb_true_iff in H; destruct H as [H ?]).
  unfold add_in_range. repeat split;
    try (apply Z.leb_le; assumption); try (apply Z.ltb_lt; assumption);
    try (apply view_in_rangeb_spec; assumption); try (apply vset_in_rangeb_spec; assumption).
Qed.
Lemma sum_in_rangeb_spec : forall B xs, sum_in_rangeb B xs = true -> sum_in_range B xs.
Proof.
  intros B xs H. unfold sum_in_rangeb in H. repeat (apply Bool.andb_true_iff in H; destruct H as [H ?]).
  unfold sum_in_range. repeat split;
    try (apply Z.leb_le; assumption); try (apply Z.ltb_lt; assumption).
  - apply Forall_forall. intros x Hin. apply view_in_rangeb_spec.
    rewrite forallb_forall in H2. apply H2. assumption.
  - apply Forall_forall. intros x Hin. apply vset_in_rangeb_spec.
    rewrite forallb_forall in H0. apply H0. assumption.
Qed.
Lemma lin_in_rangeb_spec : forall B cs xs k, lin_in_rangeb B cs xs k = true -> lin_in_range B cs xs k.
Proof.
  intros B cs xs k H. unfold lin_in_rangeb in H. repeat (apply Bool.andb_true_iff in H; destruct H as [H ?]).
  unfold lin_in_range. repeat split;
    try (apply Z.leb_le; assumption); try (apply Z.ltb_lt; assumption).
  apply Nat.leb_le. assumption.
Qed.

(* ---------------- real panics: refutation witnesses ---------------- *)
(* lin_eq_reif(&[1], &[x, y], 2, b): no length check at posting (functions.rs:366-401); once b is fixed
   to 1 the propagator indexes coefficients[1] (linear.rs:1055) *)
Lemma lin_reif_short_coeffs_panics :
  cprune_lin_eq_reif [1] [0%nat; 1%nat] 2 2 ([[0; 1; 2; 3]; [0; 1; 2; 3]; [1]], []) = None
  /\ boundedb 3 [[0; 1; 2; 3]; [0; 1; 2; 3]; [1]] = true.
Proof. split; vm_compute; reflexivity. Qed.
Lemma lin_le_reif_short_coeffs_panics :
  cprune_lin_le_reif [1] [0%nat; 1%nat] 2 2 ([[0; 1; 2; 3]; [0; 1; 2; 3]; [1]], []) = None.
Proof. vm_compute; reflexivity. Qed.
Lemma lin_ne_reif_short_coeffs_panics :
  cprune_lin_ne_reif [1] [0%nat; 1%nat] 2 2 ([[0]; [0; 1; 2; 3]; [1]], []) = None.
Proof. vm_compute; reflexivity. Qed.
(* the Z model reads the vectors through `combine` and silently drops the second variable *)
Lemma lin_reif_short_coeffs_zmodel :
  prune_lin_eq_reif [1] [0%nat; 1%nat] 2 2 ([[0; 1; 2; 3]; [0; 1; 2; 3]; [1]], []) = Some ([[2]; [0; 1; 2; 3]; [1]], [0%nat; 0%nat]).
Proof. vm_compute; reflexivity. Qed.

(* outside InRange the checked model does panic: the hypotheses are needed *)
Lemma opp_of_i32_min_overflows : cvbnd (VOpp (VVar 0)) true [[i32_min]] = None.
Proof. vm_compute; reflexivity. Qed.
Lemma set_max_at_i32_max_overflows : ccset_max 0 2147483630 ([[2147483628; 2147483647]], []) = None.
Proof. vm_compute; reflexivity. Qed.
Lemma lin_le_large_coeff_overflows : cprune_lin_le [2; 2] [0%nat; 1%nat] 5 ([[1500000000]; [1500000000]], []) = None.
Proof. vm_compute; reflexivity. Qed.
Lemma add_large_overflows : cprune_add (VVar 0) (VVar 1) 2 ([[2000000000]; [2000000000]; [0]], []) = None.
Proof. vm_compute; reflexivity. Qed.

(* ---------------- API error table: the rows the lowering model (Model/Lower.v) covers ---------------- *)
Require Import Selen.Model.Lower.

Lemma drange_reversed : forall lo hi, hi < lo -> drange lo hi = [].
Proof.
  intros lo hi H. unfold drange, zrange.
  replace (Z.to_nat (hi + 1 - lo)) with O by lia. reflexivity.
Qed.
Lemma intset_empty : dof_values [] = [].
Proof. reflexivity. Qed.

Lemma empty_domain_is_error : forall s ps, existsb dempty s = true -> validate s ps = Some EInvalidDomain.
Proof. intros s ps H. unfold validate. rewrite H. reflexivity. Qed.

(* m.int(lo, hi) with hi < lo (and m.intset(vec![])) leaves an empty domain in the model, which the
   validator run by every solving entry point reports as InvalidDomain (empty_domain_is_error) *)
Lemma reversed_bounds_is_error : forall lo hi prog, hi < lo ->
  existsb dempty (fst (mst (build (prog ++ [SInt lo hi])))) = true.
Proof.
  intros lo hi prog H. unfold build. rewrite fold_left_app. simpl. unfold declare, new_var. simpl.
  rewrite existsb_app. rewrite drange_reversed by assumption. simpl. apply Bool.orb_true_r.
Qed.
Lemma empty_set_is_error : forall prog,
  existsb dempty (fst (mst (build (prog ++ [SSet []])))) = true.
Proof.
  intros prog. unfold build. rewrite fold_left_app. simpl. unfold declare, new_var. simpl.
  rewrite existsb_app. simpl. apply Bool.orb_true_r.
Qed.

Lemma zero_divisor_is_error : forall s x y r ps,
  existsb dempty s = false -> existsb dom_too_large s = false -> memZ 0 (sget s y) = true ->
  validate s (PMod (VVar x) (VVar y) r :: ps) = Some EInvalidConstraint.
Proof.
  intros s x y r ps H0 H2 H1. unfold validate. rewrite H0, H2. simpl. rewrite H1. reflexivity.
Qed.

(* m.lin_eq / lin_le / lin_ne with vectors of different length post nothing (the call records the
   error that solve/minimize/maximize return first, functions.rs:293-307) *)
Lemma lin_length_mismatch_posts_nothing : forall op cs xs k m,
  length cs <> length xs -> exec (SLin op cs xs k) m = m.
Proof.
  intros op cs xs k m H. simpl. destruct (Nat.eqb_spec (length cs) (length xs)); [contradiction | reflexivity].
Qed.

Lemma checked_ops_agree_lemma : forall a b,
  (Z.abs a + Z.abs b <= i32_max -> cadd a b = Some (a + b) /\ csub a b = Some (a - b) /\ sadd a b = a + b /\ ssub a b = a - b) /\
  (Z.abs a * Z.abs b <= i32_max -> cmul a b = Some (a * b)) /\
  (Z.abs a <= i32_max -> cneg a = Some (- a)) /\
  (b <> 0 -> Z.abs a <= i32_max ->
     cediv a b = Some (ediv a b) /\ cerem a b = Some (erem a b) /\ ctdiv a b = Some (tdiv a b) /\ ctrem a b = Some (trem a b) /\
     div_ceil32 a b = cdiv a b /\ div_floor32 a b = fdiv a b).
Proof.
  intros a b. repeat split; intros.
  - apply cadd_ok; assumption.
  - apply csub_ok; assumption.
  - apply sadd_ok; assumption.
  - apply ssub_ok; assumption.
  - apply cmul_ok; assumption.
  - apply cneg_ok; assumption.
  - apply cediv_ok; assumption.
  - apply cerem_ok; assumption.
  - apply ctdiv_ok; assumption.
  - apply ctrem_ok; assumption.
  - apply div_ceil32_ok; assumption.
  - apply div_floor32_ok; assumption.
Qed.

Lemma lin_reif_short_coeffs_refuted_lemma :
  exists cs xs k b c, boundedb 3 (fst c) = true /\ (length cs < length xs)%nat /\
    cprune_lin_eq_reif cs xs k b c = None /\ prune_lin_eq_reif cs xs k b c <> None.
Proof.
  exists [1], [0%nat; 1%nat], 2, 2%nat, ([[0; 1; 2; 3]; [0; 1; 2; 3]; [1]], []).
  split; [exact (proj2 lin_reif_short_coeffs_panics)|].
  split; [simpl; lia|].
  split; [exact (proj1 lin_reif_short_coeffs_panics)|].
  rewrite lin_reif_short_coeffs_zmodel. discriminate.
Qed.

Lemma lin_le_ne_reif_short_coeffs_refuted_lemma :
  cprune_lin_le_reif [1] [0%nat; 1%nat] 2 2 ([[0; 1; 2; 3]; [0; 1; 2; 3]; [1]], []) = None /\
  cprune_lin_ne_reif [1] [0%nat; 1%nat] 2 2 ([[0]; [0; 1; 2; 3]; [1]], []) = None.
Proof. split; [exact lin_le_reif_short_coeffs_panics | exact lin_ne_reif_short_coeffs_panics]. Qed.

Lemma out_of_range_panics_refuted_lemma :
  cvbnd (VOpp (VVar 0)) true [[i32_min]] = None /\
  ccset_max 0 2147483630 ([[2147483628; 2147483647]], []) = None /\
  cprune_lin_le [2; 2] [0%nat; 1%nat] 5 ([[1500000000]; [1500000000]], []) = None /\
  cprune_add (VVar 0) (VVar 1) 2 ([[2000000000]; [2000000000]; [0]], []) = None.
Proof.
  split; [exact opp_of_i32_min_overflows|].
  split; [exact set_max_at_i32_max_overflows|].
  split; [exact lin_le_large_coeff_overflows | exact add_large_overflows].
Qed.
