(* C06 / C07, the Mul propagator on float and mixed stores (props/mul.rs, model Model/FloatProps.v prune_fmul):
   the divisor guard.  Back-propagation x = s / y is attempted only when Val::range_contains_unsafe_divisor(y.min, y.max)
   is false; the theorems below say that the guard is TRUE -- hence the block is inert and the context is returned as it
   is -- whenever the divisor box contains zero (float boxes: also when it only touches zero at either end, which is the
   case the seeded change C07d_unsafe_divisor_zero_upper broke), and that an inert block can never fail.
   No axioms of our own; Flocq's real-number axioms enter through B2R. *)
From Coq Require Import ZArith Bool List Lia Reals Lra.
Import ListNotations.
From Flocq Require Import Core.Core IEEE754.BinarySingleNaN IEEE754.Binary IEEE754.Bits.
Require Import Selen.Generated.Consts Selen.Model.B64 Selen.Model.FloatInterval Selen.Model.FloatStore Selen.Model.FloatProps.
Require Import Selen.Proofs.B64Facts Selen.Proofs.FloatIntervalProofs.
Open Scope R_scope.

Lemma fin_c_epsilon : fin c_epsilon. Proof. vm_compute; reflexivity. Qed.
Lemma fin_neg_epsilon : fin (fneg c_epsilon). Proof. vm_compute; reflexivity. Qed.
Lemma R_c_epsilon_pos : 0 < R_ c_epsilon.
Proof. assert (H: flt c_zero c_epsilon = true) by (vm_compute; reflexivity).
  apply (flt_fin _ _ fin_c_zero fin_c_epsilon) in H. now rewrite R_c_zero in H. Qed.
Lemma R_neg_epsilon_neg : R_ (fneg c_epsilon) < 0.
Proof. assert (H: flt (fneg c_epsilon) c_zero = true) by (vm_compute; reflexivity).
  apply (flt_fin _ _ fin_neg_epsilon fin_c_zero) in H. now rewrite R_c_zero in H. Qed.

(* float box [lo, hi] with lo <= 0 <= hi (ends at zero included): the guard holds *)
Theorem range_unsafe_covers_zero_f : forall lo hi, fin lo -> fin hi -> R_ lo <= 0 -> 0 <= R_ hi ->
  range_unsafe (VlF lo) (VlF hi) = true.
Proof. intros lo hi Fl Fh L H. unfold range_unsafe. cbn [as_f]. apply andb_true_intro. split.
  - apply (fle_fin _ _ Fl fin_c_epsilon). pose proof R_c_epsilon_pos. lra.
  - apply (fge_fin _ _ Fh fin_neg_epsilon). pose proof R_neg_epsilon_neg. lra. Qed.
(* integer box *)
Theorem range_unsafe_covers_zero_i : forall lo hi, (lo <= 0)%Z -> (0 <= hi)%Z -> range_unsafe (VlI lo) (VlI hi) = true.
Proof. intros lo hi L H. unfold range_unsafe. apply andb_true_intro. split; apply Z.leb_le; assumption. Qed.
(* ... and only then, for integer boxes (exact guard) *)
Theorem range_unsafe_i_iff : forall lo hi, range_unsafe (VlI lo) (VlI hi) = true <-> (lo <= 0 <= hi)%Z.
Proof. intros lo hi. unfold range_unsafe. rewrite andb_true_iff, !Z.leb_le. tauto. Qed.
(* a float box strictly on one side of the band [-EPSILON, EPSILON] is a safe divisor range *)
Theorem range_unsafe_away_f : forall lo hi, fin lo -> fin hi -> (R_ c_epsilon < R_ lo \/ R_ hi < R_ (fneg c_epsilon)) ->
  range_unsafe (VlF lo) (VlF hi) = false.
Proof. intros lo hi Fl Fh H. unfold range_unsafe. cbn [as_f]. apply andb_false_iff. destruct H as [H|H].
  - left. apply (fle_fin_f _ _ Fl fin_c_epsilon). exact H.
  - right. destruct (fge hi (fneg c_epsilon)) eqn:E; auto. apply (fge_fin _ _ Fh fin_neg_epsilon) in E. lra. Qed.

(* the back-propagation block is inert (returns the context unchanged, cannot fail) under the guard *)
Theorem mul_back_inert : forall w smin smax dmin dmax c, range_unsafe dmin dmax = true -> mul_back w smin smax dmin dmax c = Some c.
Proof. intros w smin smax dmin dmax c H. unfold mul_back. now rewrite H. Qed.
Corollary mul_back_inert_over_zero : forall w smin smax lo hi c, fin lo -> fin hi -> R_ lo <= 0 -> 0 <= R_ hi ->
  mul_back w smin smax (VlF lo) (VlF hi) c = Some c.
Proof. intros. apply mul_back_inert. now apply range_unsafe_covers_zero_f. Qed.

(* val_safe_div never divides by a float of magnitude below 1000 * EPSILON, nor by the integer 0 *)
Theorem val_safe_div_some : forall a b r, val_safe_div a b = Some r -> val_safe_divisor b = true /\ r = val_div a b.
Proof. intros a b r H. unfold val_safe_div in H. destruct (val_safe_divisor b); inversion H; auto. Qed.

(* closed witness (the demonstration of C07d): x in 5..20, y in [-5.0, 0.0], s in [-10.0, -1.0]: one run of Mul leaves x and y
   as they are (the guard holds for y's box, which ends at 0; x's box is a safe divisor range but s/x stays inside y) *)
Definition w_mul_store : fstore :=
  [VI [5;6;7;8;9;10;11;12;13;14;15;16;17;18;19;20]%Z;
   VF (mkfi (of_bits 0xc014000000000000) (of_bits 0x0000000000000000) (of_bits 0x3eb0c6f7a0b5ed8d));
   VF (mkfi (of_bits 0xc024000000000000) (of_bits 0xbff0000000000000) (of_bits 0x3eb0c6f7a0b5ed8d))].
Lemma w_mul_guard : range_unsafe (fv_min (FVar 1) w_mul_store) (fv_max (FVar 1) w_mul_store) = true /\
  match prune_fmul (FVar 0) (FVar 1) 2 (w_mul_store, []) with
  | Some c' => var_min (fget (fst c') 0) = VlI 5 /\ var_max (fget (fst c') 0) = VlI 20
  | None => False end.
Proof. vm_compute. repeat split. Qed.

(* the fold used for the forward bounds (and for the candidate quotients): over finite float values it returns an element of
   the list that is below (above) every element -- so the bound handed to s.try_set_min (try_set_max) is the least (greatest)
   of the four corner products as computed in f64, whatever their order *)
Lemma fold_min_f : forall l a, fin a -> Forall fin l ->
  exists m, val_fold_min (VlF a) (map VlF l) = VlF m /\ fin m /\ In m (a :: l) /\ R_ m <= R_ a /\ Forall (fun x => R_ m <= R_ x) l.
Proof. unfold val_fold_min. induction l as [|x l IH]; intros a Fa Fl.
  - exists a. simpl. repeat split; auto. lra.
  - inversion Fl as [|x' l' Fx Fl']; subst. cbn [map fold_left]. unfold val_lt at 2. cbn [as_f].
    destruct (flt x a) eqn:E.
    + apply (flt_fin _ _ Fx Fa) in E. destruct (IH x Fx Fl') as (m & Hm & Fm & Im & Lm & Am).
      exists m. repeat split; auto. { destruct Im as [->|Im]; [right; left; reflexivity | right; right; exact Im]. } lra.
    + apply (flt_fin_f _ _ Fx Fa) in E. destruct (IH a Fa Fl') as (m & Hm & Fm & Im & Lm & Am).
      exists m. repeat split; auto. { destruct Im as [->|Im]; [left; reflexivity | right; right; exact Im]. }
      constructor; auto. lra. Qed.
Lemma fold_max_f : forall l a, fin a -> Forall fin l ->
  exists m, val_fold_max (VlF a) (map VlF l) = VlF m /\ fin m /\ In m (a :: l) /\ R_ a <= R_ m /\ Forall (fun x => R_ x <= R_ m) l.
Proof. unfold val_fold_max. induction l as [|x l IH]; intros a Fa Fl.
  - exists a. simpl. repeat split; auto. lra.
  - inversion Fl as [|x' l' Fx Fl']; subst. cbn [map fold_left]. unfold val_gt at 2. unfold val_lt. cbn [as_f].
    destruct (flt a x) eqn:E.
    + apply (flt_fin _ _ Fa Fx) in E. destruct (IH x Fx Fl') as (m & Hm & Fm & Im & Lm & Am).
      exists m. repeat split; auto. { destruct Im as [->|Im]; [right; left; reflexivity | right; right; exact Im]. } lra.
    + apply (flt_fin_f _ _ Fa Fx) in E. destruct (IH a Fa Fl') as (m & Hm & Fm & Im & Lm & Am).
      exists m. repeat split; auto. { destruct Im as [->|Im]; [left; reflexivity | right; right; exact Im]. }
      constructor; auto. lra. Qed.
