(* Bit-level facts for UlpUtils::next_float / prev_float (Model/FloatInterval.v):
   from_bits(to_bits(v) +- 1) on a finite v is never NaN and lies on the expected side of v.
   Purely structural (Z arithmetic on the IEEE encoding + SFcompare); no real numbers. *)
From Coq Require Import ZArith Bool Lia.
From Flocq Require Import Core.Core IEEE754.BinarySingleNaN IEEE754.Binary IEEE754.Bits.
Require Import Selen.Generated.Consts Selen.Model.B64 Selen.Model.FloatInterval.
Require Import Selen.Proofs.B64Facts.
Open Scope Z_scope.

Definition P52 : Z := 4503599627370496.   (* 2^52 *)
Definition J (s : bool) (m e : Z) : Z := ((if s then 2048 else 0) + e) * P52 + m.

Lemma join_J : forall s m e, join_bits 52 11 s m e = J s m e.
Proof. intros. unfold join_bits, J. rewrite Z.shiftl_mul_pow2 by lia. reflexivity. Qed.

(* ---- comparisons are SFcompare on the structure *)
Lemma fcmp_SF : forall a b, fcmp a b = SpecFloat.SFcompare (Binary.B2SF 53 1024 a) (Binary.B2SF 53 1024 b).
Proof. intros. unfold fcmp, b64_compare, Binary.Bcompare, BinarySingleNaN.Bcompare.
  now rewrite !Binary.B2SF_B2BSN. Qed.

(* ---- what a finite float looks like *)
Lemma bounded_facts : forall mx ex, SpecFloat.bounded 53 1024 mx ex = true ->
  -1074 <= ex <= 971 /\ Zpos mx < 2 * P52 /\ (-1074 < ex -> P52 <= Zpos mx).
Proof. intros mx ex H. apply andb_true_iff in H. destruct H as [A B].
  apply Z.leb_le in B. unfold SpecFloat.canonical_mantissa in A. apply Zeq_bool_eq in A.
  rewrite Digits.Zpos_digits2_pos in A. unfold SpecFloat.fexp, SpecFloat.emin in A.
  generalize (Digits.Zdigits_correct radix2 (Zpos mx)). set (d := Digits.Zdigits radix2 (Zpos mx)) in *.
  intros [L U]. rewrite Z.abs_eq in L, U by lia.
  assert (D53: d <= 53) by lia.
  split. lia. split.
  - eapply Z.lt_le_trans. exact U. change (2 * P52) with (Zpower radix2 53). apply Zpower_le. exact D53.
  - intros E. assert (d = 53) by lia. subst d. rewrite H in L. exact L. Qed.

Lemma to_bits_finite : forall s mx ex H,
  exists m e, to_bits (Binary.B754_finite 53 1024 s mx ex H) = J s m e /\ 0 <= m < P52 /\ 0 <= e <= 2046 /\
    ((e = 0 /\ m = Zpos mx /\ ex = -1074) \/ (1 <= e /\ Zpos mx = m + P52 /\ ex = e - 1075)).
Proof. intros s mx ex H. destruct (bounded_facts mx ex H) as (E1 & M1 & M2).
  unfold to_bits, bits_of_b64, bits_of_binary_float.
  change (2 ^ 52) with P52. change (3 - 1024 - 53) with (-1074) || idtac.
  destruct (Zle_bool_spec 0 (Zpos mx - P52)) as [L|L].
  - exists (Zpos mx - P52), (ex - (3 - 1024 - 53) + 1). rewrite join_J. split; auto. split. lia. split. lia. right. lia.
  - exists (Zpos mx), 0. rewrite join_J. split; auto. split. lia. split. lia. left. split; auto. split; auto.
    destruct (Z.eq_dec ex (-1074)); auto. assert (P52 <= Zpos mx) by (apply M2; lia). lia. Qed.

(* ---- decoding a bit pattern *)
Definition D (s : bool) (m e : Z) : SpecFloat.spec_float :=
  if e =? 0 then (match m with Zpos p => SpecFloat.S754_finite s p (-1074) | _ => SpecFloat.S754_zero s end)
  else if e =? 2047 then (match m with Z0 => SpecFloat.S754_infinity s | _ => SpecFloat.S754_nan end)
  else match m + P52 with Zpos p => SpecFloat.S754_finite s p (e - 1075) | _ => SpecFloat.S754_nan end.

Lemma B2SF_FF2B : forall x H, Binary.B2SF 53 1024 (Binary.FF2B 53 1024 x H) = Binary.FF2SF x.
Proof. intros [ | | | ] H; reflexivity. Qed.

Lemma of_bits_J : forall s m e, 0 <= m < P52 -> 0 <= e <= 2047 ->
  Binary.B2SF 53 1024 (of_bits (J s m e)) = D s m e.
Proof. intros s m e Hm He. unfold of_bits, b64_of_bits, binary_float_of_bits.
  rewrite B2SF_FF2B. unfold binary_float_of_bits_aux. rewrite <- join_J.
  rewrite split_join_bits by (change (2^52) with P52; change (2^11) with 2048; lia).
  unfold D. change (2 ^ 11 - 1) with 2047. change (2 ^ 52) with P52. change (3 - 1024 - 53) with (-1074).
  rewrite !Zeq_is_eq_bool_sym || idtac.
  destruct (Zeq_bool e 0) eqn:E0.
  - apply Zeq_bool_eq in E0. subst e. simpl. destruct m; try reflexivity; try lia.
  - apply Zeq_bool_neq in E0. replace (e =? 0) with false by (symmetry; apply Z.eqb_neq; auto).
    destruct (Zeq_bool e 2047) eqn:E1.
    + apply Zeq_bool_eq in E1. subst e. simpl. destruct m; try reflexivity; try lia.
    + apply Zeq_bool_neq in E1. replace (e =? 2047) with false by (symmetry; apply Z.eqb_neq; auto).
      replace (e + -1074 - 1) with (e - 1075) by ring. assert (0 < P52) by reflexivity. destruct (m + P52) eqn:EM; try reflexivity; try lia.
      simpl. f_equal. unfold SpecFloat.emin. simpl. lia. Qed.

Lemma D_cases : forall s m e, 0 <= m < P52 -> 0 <= e <= 2047 ->
  (e = 0 /\ m = 0 /\ D s m e = SpecFloat.S754_zero s) \/
  (e = 0 /\ exists p, Zpos p = m /\ D s m e = SpecFloat.S754_finite s p (-1074)) \/
  (e = 2047 /\ m = 0 /\ D s m e = SpecFloat.S754_infinity s) \/
  (e = 2047 /\ m <> 0 /\ D s m e = SpecFloat.S754_nan) \/
  (1 <= e <= 2046 /\ exists p, Zpos p = m + P52 /\ D s m e = SpecFloat.S754_finite s p (e - 1075)).
Proof. intros s m e Hm He. assert (0 < P52) by reflexivity. unfold D.
  destruct (Z.eqb_spec e 0) as [E0|E0].
  - subst e. destruct m as [|p|p]; [left; auto | right; left; split; auto; exists p; auto | lia].
  - destruct (Z.eqb_spec e 2047) as [E1|E1].
    + subst e. destruct m as [|p|p]; [right; right; left; auto | right; right; right; left; split; auto; split; [lia|auto] | lia].
    + right; right; right; right. split. lia. destruct (m + P52) as [|p|p] eqn:EM; try lia. exists p. auto. Qed.

Lemma J_inc : forall s m e, 0 <= m < P52 ->
  J s m e + 1 = if m + 1 <? P52 then J s (m + 1) e else J s 0 (e + 1).
Proof. intros s m e Hm. unfold J. destruct (Z.ltb_spec (m + 1) P52); lia. Qed.
Lemma J_dec : forall s m e, 0 <= m < P52 ->
  J s m e - 1 = if 1 <=? m then J s (m - 1) e else J s (P52 - 1) (e - 1).
Proof. intros s m e Hm. unfold J. destruct (Z.leb_spec 1 m); lia. Qed.

Lemma cmp_pos_lt : forall m1 e1 m2 e2, (e1 < e2 \/ (e1 = e2 /\ Zpos m1 < Zpos m2)) ->
  SpecFloat.SFcompare (SpecFloat.S754_finite false m1 e1) (SpecFloat.S754_finite false m2 e2) = Some Lt.
Proof. intros m1 e1 m2 e2 [H|[H1 H2]]; simpl.
  - apply Z.compare_lt_iff in H. now rewrite H.
  - subst e2. rewrite Z.compare_refl. f_equal. apply Pos.compare_lt_iff. exact H2. Qed.
Lemma cmp_neg_lt : forall m1 e1 m2 e2, (e2 < e1 \/ (e1 = e2 /\ Zpos m2 < Zpos m1)) ->
  SpecFloat.SFcompare (SpecFloat.S754_finite true m1 e1) (SpecFloat.S754_finite true m2 e2) = Some Lt.
Proof. intros m1 e1 m2 e2 [H|[H1 H2]]; simpl.
  - apply Z.compare_gt_iff in H. now rewrite H.
  - subst e2. rewrite Z.compare_refl. f_equal.
    assert (G: (m1 ?= m2)%positive = Gt) by (apply Pos.compare_gt_iff; exact H2). unfold Pos.compare in G. now rewrite G. Qed.

Lemma B2SF_c_zero : Binary.B2SF 53 1024 c_zero = SpecFloat.S754_zero false.
Proof. vm_compute. reflexivity. Qed.
Lemma nnan_SF : forall x : f64, Binary.B2SF 53 1024 x <> SpecFloat.S754_nan -> nnan x.
Proof. intros [ | | | ] H; try reflexivity. elim H; reflexivity. Qed.

Notation negzero := (Binary.B754_zero 53 1024 true).

(* next_float v > v strictly (possibly +inf), for every finite v (next_float(+-0) = 5e-324, since aed2bd1) *)
Theorem next_float_gt : forall v, fin v -> fcmp v (next_float v) = Some Lt.
Proof. intros v Fv. destruct v as [s|s|s pl Hpl|s mx ex H]; try discriminate Fv.
  - destruct s; vm_compute; reflexivity.
  - unfold next_float. simpl fis_inf. simpl fis_nan. simpl andb. cbv iota.
    assert (G: fgt (Binary.B754_finite 53 1024 s mx ex H) c_zero = negb s).
    { unfold fgt. rewrite fcmp_SF, B2SF_c_zero. simpl. now destruct s. }
    assert (G2: feq (Binary.B754_finite 53 1024 s mx ex H) c_zero = false).
    { unfold feq. rewrite fcmp_SF, B2SF_c_zero. simpl. now destruct s. }
    rewrite G, G2. destruct (to_bits_finite s mx ex H) as (m & e & Eb & Hm & He & Hc). rewrite Eb.
    rewrite fcmp_SF. simpl Binary.B2SF at 1. assert (P0: P52 = 4503599627370496) by reflexivity.
    destruct s; simpl negb; cbv iota.
    + (* negative: bits - 1 *)
      rewrite J_dec by auto. destruct (Z.leb_spec 1 m) as [L|L].
      * rewrite of_bits_J by lia. destruct (D_cases true (m - 1) e) as [C|[C|[C|[C|C]]]]; try lia.
        -- destruct C as (_ & _ & ->). reflexivity.
        -- destruct C as (E0 & p & Ep & ->). apply cmp_neg_lt. right. lia.
        -- destruct C as (E1 & p & Ep & ->). apply cmp_neg_lt. right. lia.
      * assert (m = 0) by lia. subst m. assert (1 <= e) by lia.
        rewrite of_bits_J by lia. destruct (D_cases true (P52 - 1) (e - 1)) as [C|[C|[C|[C|C]]]]; try lia.
        -- destruct C as (E0 & p & Ep & ->). apply cmp_neg_lt. right. lia.
        -- destruct C as (E1 & p & Ep & ->). apply cmp_neg_lt. left. lia.
    + (* positive: bits + 1 *)
      rewrite J_inc by auto. destruct (Z.ltb_spec (m + 1) P52) as [L|L].
      * rewrite of_bits_J by lia. destruct (D_cases false (m + 1) e) as [C|[C|[C|[C|C]]]]; try lia.
        -- destruct C as (E0 & p & Ep & ->). apply cmp_pos_lt. right. lia.
        -- destruct C as (E1 & p & Ep & ->). apply cmp_pos_lt. right. lia.
      * assert (m = P52 - 1) by lia. subst m.
        rewrite of_bits_J by lia. destruct (D_cases false 0 (e + 1)) as [C|[C|[C|[C|C]]]]; try lia.
        -- destruct C as (_ & _ & ->). reflexivity.
        -- destruct C as (E1 & p & Ep & ->). apply cmp_pos_lt.
           destruct Hc as [(A & B & C)|(A & B & C)]. right. lia. left. lia. Qed.

(* prev_float v < v strictly (possibly -inf), for every finite v (prev_float(+-0) = -5e-324) *)
Theorem prev_float_lt : forall v, fin v -> fcmp (prev_float v) v = Some Lt.
Proof. intros v Fv. destruct v as [s|s|s pl Hpl|s mx ex H]; try discriminate Fv.
  - destruct s; vm_compute; reflexivity.
  - unfold prev_float. simpl fis_inf. simpl fis_nan. simpl andb. cbv iota.
    assert (G: fgt (Binary.B754_finite 53 1024 s mx ex H) c_zero = negb s).
    { unfold fgt. rewrite fcmp_SF, B2SF_c_zero. simpl. now destruct s. }
    assert (G2: feq (Binary.B754_finite 53 1024 s mx ex H) c_zero = false).
    { unfold feq. rewrite fcmp_SF, B2SF_c_zero. simpl. now destruct s. }
    unfold fne. rewrite G, G2. destruct (to_bits_finite s mx ex H) as (m & e & Eb & Hm & He & Hc). rewrite Eb.
    rewrite fcmp_SF. simpl Binary.B2SF at 2. assert (P0: P52 = 4503599627370496) by reflexivity.
    destruct s; simpl negb; simpl andb; cbv iota.
    + (* negative: bits + 1 *)
      rewrite J_inc by auto. destruct (Z.ltb_spec (m + 1) P52) as [L|L].
      * rewrite of_bits_J by lia. destruct (D_cases true (m + 1) e) as [C|[C|[C|[C|C]]]]; try lia.
        -- destruct C as (E0 & p & Ep & ->). apply cmp_neg_lt. right. lia.
        -- destruct C as (E1 & p & Ep & ->). apply cmp_neg_lt. right. lia.
      * assert (m = P52 - 1) by lia. subst m.
        rewrite of_bits_J by lia. destruct (D_cases true 0 (e + 1)) as [C|[C|[C|[C|C]]]]; try lia.
        -- destruct C as (_ & _ & ->). reflexivity.
        -- destruct C as (E1 & p & Ep & ->). apply cmp_neg_lt.
           destruct Hc as [(A & B & C)|(A & B & C)]. right. lia. left. lia.
    + (* positive: bits - 1 *)
      rewrite J_dec by auto. destruct (Z.leb_spec 1 m) as [L|L].
      * rewrite of_bits_J by lia. destruct (D_cases false (m - 1) e) as [C|[C|[C|[C|C]]]]; try lia.
        -- destruct C as (_ & _ & ->). reflexivity.
        -- destruct C as (E0 & p & Ep & ->). apply cmp_pos_lt. right. lia.
        -- destruct C as (E1 & p & Ep & ->). apply cmp_pos_lt. right. lia.
      * assert (m = 0) by lia. subst m. assert (1 <= e) by lia.
        rewrite of_bits_J by lia. destruct (D_cases false (P52 - 1) (e - 1)) as [C|[C|[C|[C|C]]]]; try lia.
        -- destruct C as (E0 & p & Ep & ->). apply cmp_pos_lt. right. lia.
        -- destruct C as (E1 & p & Ep & ->). apply cmp_pos_lt. left. lia. Qed.

(* consequences in the vocabulary of the comparison booleans *)
Lemma fcmp_lt_nnan_r : forall a b, fcmp a b = Some Lt -> nnan b.
Proof. intros a b H. rewrite fcmp_SF in H. apply nnan_SF. intros E. rewrite E in H.
  destruct (Binary.B2SF 53 1024 a); discriminate. Qed.
Lemma fcmp_lt_nnan_l : forall a b, fcmp a b = Some Lt -> nnan a.
Proof. intros a b H. rewrite fcmp_SF in H. apply nnan_SF. intros E. rewrite E in H. discriminate. Qed.

Corollary next_float_props : forall v, fin v ->
  nnan (next_float v) /\ fle v (next_float v) = true /\ flt v (next_float v) = true.
Proof. intros v F. assert (H := next_float_gt v F). split. eapply fcmp_lt_nnan_r; eauto.
  unfold fle, flt. now rewrite H. Qed.
Corollary prev_float_props : forall v, fin v ->
  nnan (prev_float v) /\ fle (prev_float v) v = true /\ flt (prev_float v) v = true.
Proof. intros v F. assert (H := prev_float_lt v F). split. eapply fcmp_lt_nnan_l; eauto.
  unfold fle, flt. now rewrite H. Qed.
