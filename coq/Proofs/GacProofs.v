(* C19: soundness of the all-different engines of Model/Gac.v.
   bitset / hybrid : every step keeps every assignment of pairwise different values that lies
     inside the domains (assigned-value elimination by injectivity, Hall sets by pigeonhole), so
     supported values survive and an inconsistency verdict refutes all such assignments;
   sparse : only the inconsistency verdict is sound (Hall violator read off a failed search);
     its pruning is refuted (D13). *)
Require Import Selen.Model.Prelude Selen.Model.Dom Selen.Model.SparseSet Selen.Model.Gac.
Require Import Selen.Proofs.SparseSetProofs Selen.Proofs.DomProofs.
Require Import Coq.Sorting.Permutation.

(* ------------------------------------------------------------------------------------------ *)
(* assignments as functions on positions *)
Definition inj_on (vars : list nat) (a : asg) : Prop :=
  forall x y, In x vars -> In y vars -> a x = a y -> x = y.
Definition inside (vars : list nat) (a : asg) (s : store) : Prop :=
  forall x, In x vars -> In (a x) (sget s x).
Definition keeps (a : asg) (s s' : store) : Prop :=
  forall x, In (a x) (sget s x) -> In (a x) (sget s' x).

Lemma keeps_refl : forall a s, keeps a s s. Proof. intros a s x H; exact H. Qed.
Lemma keeps_trans : forall a s1 s2 s3, keeps a s1 s2 -> keeps a s2 s3 -> keeps a s1 s3.
Proof. intros a s1 s2 s3 H1 H2 x H. apply H2, H1, H. Qed.
Lemma inside_keeps : forall vars a s s', inside vars a s -> keeps a s s' -> inside vars a s'.
Proof. intros vars a s s' Hi Hk x Hx. apply Hk, Hi, Hx. Qed.
Lemma inj_on_incl : forall v v' a, incl v' v -> inj_on v a -> inj_on v' a.
Proof. intros v v' a Hi H x y Hx Hy. apply H; apply Hi; assumption. Qed.
Lemma inside_incl : forall v v' a s, incl v' v -> inside v a s -> inside v' a s.
Proof. intros v v' a s Hi H x Hx. apply H, Hi, Hx. Qed.

Lemma dhas_In : forall v d, dhas v d = true <-> In v d.
Proof. intros. unfold dhas. apply memZ_In. Qed.
Lemma drem_In : forall v d x, In x (drem v d) <-> In x d /\ x <> v.
Proof.
  intros v d x. unfold drem. rewrite filter_In. split; intros [H1 H2]; split; try exact H1.
  - apply negb_true_iff in H2. apply Z.eqb_neq in H2. exact H2.
  - apply negb_true_iff. apply Z.eqb_neq. exact H2.
Qed.
Lemma dremall_In : forall u d x, In x (dremall u d) <-> In x d /\ ~ In x u.
Proof.
  intros u d x. unfold dremall. rewrite filter_In. split; intros [H1 H2]; split; try exact H1.
  - intros Hu. apply memZ_In in Hu. rewrite Hu in H2. discriminate.
  - destruct (memZ x u) eqn:E; [apply memZ_In in E; contradiction|reflexivity].
Qed.

Lemma keeps_supd : forall a s t d, (In (a t) (sget s t) -> In (a t) d) -> keeps a s (supd s t d).
Proof.
  intros a s t d H x Hx. destruct (Nat.eq_dec x t) as [->|N].
  - rewrite sget_supd_same; [apply H; exact Hx|].
    apply sget_nonempty_lt. intros E. rewrite E in Hx. destruct Hx.
  - rewrite sget_supd_other by exact N. exact Hx.
Qed.

(* ------------------------------------------------------------------------------------------ *)
(* every engine step only shrinks: each domain of the result is a filter of the old one (hence a
   subset, and sorted when the old one is) *)
Definition fsub (s' s : store) : Prop :=
  length s' = length s /\ forall i, exists f, sget s' i = filter f (sget s i).
Lemma fsub_refl : forall s, fsub s s.
Proof.
  intros s. split; [reflexivity|]. intros i. exists (fun _ => true). symmetry. apply filter_all_true. reflexivity.
Qed.
Lemma filter_filter : forall (f g : Z -> bool) l, filter f (filter g l) = filter (fun x => g x && f x) l.
Proof.
  intros f g l. induction l as [|x r IH]; [reflexivity|]. cbn [filter]. destruct (g x); cbn [filter andb]; [destruct (f x)|]; rewrite IH; reflexivity.
Qed.
Lemma fsub_trans : forall s1 s2 s3, fsub s1 s2 -> fsub s2 s3 -> fsub s1 s3.
Proof.
  intros s1 s2 s3 [L1 F1] [L2 F2]. split; [congruence|]. intros i.
  destruct (F1 i) as (f & E1). destruct (F2 i) as (g & E2). exists (fun x => g x && f x).
  rewrite E1, E2. apply filter_filter.
Qed.
Lemma fsub_supd : forall s t f, fsub (supd s t (filter f (sget s t))) s.
Proof.
  intros s t f. split; [apply supd_length|]. intros i. destruct (Nat.eq_dec i t) as [->|N].
  - destruct (Nat.lt_ge_cases t (length s)) as [L|L].
    + rewrite sget_supd_same by exact L. exists f. reflexivity.
    + exists f. rewrite !sget_oob by (rewrite ?supd_length; exact L). reflexivity.
  - rewrite sget_supd_other by exact N. exists (fun _ => true). symmetry. apply filter_all_true. reflexivity.
Qed.
Lemma fsub_sub : forall s' s, fsub s' s -> sub_store s' s.
Proof.
  intros s' s [L F]. split; [exact L|]. intros v x Hx. destruct (F v) as (f & E). rewrite E in Hx.
  apply filter_In in Hx. tauto.
Qed.
Lemma fsub_sorted : forall s' s i, fsub s' s -> sorted (sget s i) -> sorted (sget s' i).
Proof. intros s' s i [_ F] H. destruct (F i) as (f & ->). apply filter_sorted. exact H. Qed.

Definition res_sub (r : res) (s : store) : Prop := fsub (fst (fst r)) s.

Lemma pass_targets_sub : forall e v ts s ch, res_sub (pass_targets e v ts s ch) s.
Proof.
  intros e v ts. induction ts as [|t r IH]; intros s ch; cbn [pass_targets].
  - apply fsub_refl.
  - destruct (match e with Some a => Nat.eqb t a | None => false end); [apply IH|].
    destruct (dhas v (sget s t)); [|apply IH].
    assert (S1 : fsub (supd s t (drem v (sget s t))) s) by apply fsub_supd.
    destruct (dempty (drem v (sget s t))); [exact S1|].
    unfold res_sub in *. eapply fsub_trans; [apply IH|exact S1].
Qed.

Lemma pass_pairs_sub : forall ex ps ts s ch, res_sub (pass_pairs ex ps ts s ch) s.
Proof.
  intros ex ps ts. induction ps as [|[a v] r IH]; intros s ch; cbn [pass_pairs].
  - apply fsub_refl.
  - pose proof (pass_targets_sub (if ex then Some a else None) v ts s ch) as H1.
    destruct (pass_targets (if ex then Some a else None) v ts s ch) as [[s1 ch1] [|]]; [|exact H1].
    unfold res_sub in *. cbn [fst] in H1. eapply fsub_trans; [apply IH|exact H1].
Qed.

Lemma hall_targets_sub : forall sub u ts s ch, res_sub (hall_targets sub u ts s ch) s.
Proof.
  intros sub u ts. induction ts as [|t r IH]; intros s ch; cbn [hall_targets].
  - apply fsub_refl.
  - destruct (existsb (Nat.eqb t) sub); [apply IH|].
    destruct (Nat.eqb (length (dremall u (sget s t))) (length (sget s t))); [apply IH|].
    assert (S1 : fsub (supd s t (dremall u (sget s t))) s) by apply fsub_supd.
    destruct (dempty (dremall u (sget s t))); [exact S1|].
    unfold res_sub in *. eapply fsub_trans; [apply IH|exact S1].
Qed.

Lemma hall_subsets_sub : forall subs vars s ch, res_sub (hall_subsets subs vars s ch) s.
Proof.
  intros subs vars. induction subs as [|sub r IH]; intros s ch; cbn [hall_subsets].
  - apply fsub_refl.
  - cbv zeta. destruct (Nat.eqb (length sub) (length (union_vals sub s))); [|apply IH].
    pose proof (hall_targets_sub sub (union_vals sub s) vars s ch) as H1.
    destruct (hall_targets sub (union_vals sub s) vars s ch) as [[s1 ch1] [|]]; [|exact H1].
    unfold res_sub in *. cbn [fst] in H1. eapply fsub_trans; [apply IH|exact H1].
Qed.

Lemma hall_sub : forall vars s, res_sub (hall vars s) s.
Proof.
  intros vars s. unfold hall. destruct (Nat.leb (length vars) 6); [apply hall_subsets_sub|apply fsub_refl].
Qed.

Lemma bitset_alldiff_sub : forall vars s, res_sub (bitset_alldiff vars s) s.
Proof.
  intros vars s. unfold bitset_alldiff. destruct (Nat.leb (length vars) 1); [apply fsub_refl|].
  pose proof (pass_pairs_sub true (assigned_of vars s) vars s false) as H1.
  destruct (pass_pairs true (assigned_of vars s) vars s false) as [[s1 ch1] [|]]; [|exact H1].
  pose proof (hall_sub vars s1) as H2.
  destruct (hall vars s1) as [[s2 ch2] [|]]; unfold res_sub in *; cbn [fst] in *;
    eapply fsub_trans; eassumption.
Qed.

Lemma hybrid_alldiff_sub : forall tags vars s, res_sub (hybrid_alldiff tags vars s) s.
Proof.
  intros tags vars s. unfold hybrid_alldiff. destruct vars as [|x0 vr]; [apply fsub_refl|].
  set (vars := x0 :: vr). set (bv := filter (is_b tags) vars). set (sv := filter (is_s tags) vars).
  assert (H1 : res_sub (if nonempty bv then bitset_alldiff bv s else (s, false, true)) s).
  { destruct (nonempty bv); [apply bitset_alldiff_sub|apply fsub_refl]. }
  destruct (if nonempty bv then bitset_alldiff bv s else (s, false, true)) as [[s1 ch1] [|]]; [|exact H1].
  unfold res_sub in H1; cbn [fst] in H1.
  assert (H2 : res_sub (if nonempty sv then pass_pairs true (assigned_of sv s1) sv s1 false else (s1, false, true)) s1).
  { destruct (nonempty sv); [apply pass_pairs_sub|apply fsub_refl]. }
  destruct (if nonempty sv then pass_pairs true (assigned_of sv s1) sv s1 false else (s1, false, true)) as [[s2 ch2] [|]];
    unfold res_sub in H2; cbn [fst] in H2;
    [|unfold res_sub; cbn [fst]; eapply fsub_trans; eassumption].
  assert (S2 : fsub s2 s) by (eapply fsub_trans; eassumption).
  destruct (nonempty bv && nonempty sv); [|exact S2].
  pose proof (pass_pairs_sub false (assigned_of bv s2) sv s2 false) as H3.
  destruct (pass_pairs false (assigned_of bv s2) sv s2 false) as [[s3 ch3] [|]];
    unfold res_sub in H3; cbn [fst] in H3;
    [|unfold res_sub; cbn [fst]; eapply fsub_trans; eassumption].
  assert (S3 : fsub s3 s) by (eapply fsub_trans; eassumption).
  pose proof (pass_pairs_sub false (assigned_of sv s3) bv s3 ch3) as H4.
  destruct (pass_pairs false (assigned_of sv s3) bv s3 ch3) as [[s4 ch4] [|]];
    unfold res_sub in *; cbn [fst] in *; eapply fsub_trans; eassumption.
Qed.

(* ------------------------------------------------------------------------------------------ *)
(* assigned-value elimination keeps every solution *)
Definition excluded (e : option nat) (t : nat) : bool :=
  match e with Some a => Nat.eqb t a | None => false end.

Lemma pass_targets_keep : forall a e v ts s ch s' ch' ok,
  (forall t, In t ts -> excluded e t = false -> a t <> v) ->
  (forall t, In t ts -> In (a t) (sget s t)) ->
  pass_targets e v ts s ch = (s', ch', ok) -> ok = true /\ keeps a s s'.
Proof.
  intros a e v ts. induction ts as [|t r IH]; intros s ch s' ch' ok Hne Hin H; cbn [pass_targets] in H.
  - inversion H; subst. split; [reflexivity|apply keeps_refl].
  - fold (excluded e t) in H. destruct (excluded e t) eqn:Ex.
    + apply (IH s ch s' ch' ok); [intros; apply Hne; [right|]; assumption | intros; apply Hin; right; assumption | exact H].
    + destruct (dhas v (sget s t)) eqn:Hh.
      * assert (Ha : In (a t) (drem v (sget s t))).
        { apply drem_In. split; [apply Hin; left; reflexivity | apply Hne; [left; reflexivity|exact Ex]]. }
        assert (K1 : keeps a s (supd s t (drem v (sget s t)))) by (apply keeps_supd; intros _; exact Ha).
        destruct (dempty (drem v (sget s t))) eqn:De.
        { apply dempty_true in De. rewrite De in Ha. destruct Ha. }
        destruct (IH (supd s t (drem v (sget s t))) true s' ch' ok) as [E K2];
          [intros; apply Hne; [right|]; assumption | intros t' Ht'; apply K1; apply Hin; right; exact Ht' | exact H |].
        split; [exact E | eapply keeps_trans; eassumption].
      * apply (IH s ch s' ch' ok); [intros; apply Hne; [right|]; assumption | intros; apply Hin; right; assumption | exact H].
Qed.

Lemma pass_pairs_keep : forall a (ex : bool) (ps : list (nat * Z)) ts s ch s' ch' ok,
  (forall p v t, In (p, v) ps -> In t ts -> excluded (if ex then Some p else None) t = false -> a t <> v) ->
  (forall t, In t ts -> In (a t) (sget s t)) ->
  pass_pairs ex ps ts s ch = (s', ch', ok) -> ok = true /\ keeps a s s'.
Proof.
  intros a ex ps ts. induction ps as [|[p v] r IH]; intros s ch s' ch' ok Hne Hin H; cbn [pass_pairs] in H.
  - inversion H; subst. split; [reflexivity|apply keeps_refl].
  - destruct (pass_targets (if ex then Some p else None) v ts s ch) as [[s1 ch1] ok1] eqn:E1.
    destruct (pass_targets_keep a (if ex then Some p else None) v ts s ch s1 ch1 ok1
                (fun t Ht Hx => Hne p v t (or_introl eq_refl) Ht Hx) Hin E1) as [-> K1].
    destruct (IH s1 ch1 s' ch' ok) as [E K2];
      [intros p' v' t Hp; apply (Hne p' v' t); right; exact Hp | intros t Ht; apply K1, Hin, Ht | exact H |].
    split; [exact E | eapply keeps_trans; eassumption].
Qed.

Lemma assigned_of_In : forall vars s p v, In (p, v) (assigned_of vars s) -> In p vars /\ sget s p = [v].
Proof.
  intros vars s p v H. unfold assigned_of in H. apply in_flat_map in H. destruct H as (x & Hx & H).
  destruct (sget s x) as [|w [|w' r]] eqn:E; cbn in H; try contradiction.
  destruct H as [H|[]]. inversion H; subst. split; assumption.
Qed.

(* one group: the comparison var != assigned_var is made *)
Lemma group_pass_keep : forall a vars s0 s ch s' ch' ok,
  inj_on vars a -> inside vars a s0 -> inside vars a s ->
  pass_pairs true (assigned_of vars s0) vars s ch = (s', ch', ok) -> ok = true /\ keeps a s s'.
Proof.
  intros a vars s0 s ch s' ch' ok Hinj Hi0 Hi H.
  apply (pass_pairs_keep a true (assigned_of vars s0) vars s ch s' ch' ok); [|exact Hi|exact H].
  intros p v t Hp Ht Hx. cbn [excluded] in Hx. apply Nat.eqb_neq in Hx.
  apply assigned_of_In in Hp. destruct Hp as [Hpv Hs].
  pose proof (Hi0 p Hpv) as Hap. rewrite Hs in Hap. destruct Hap as [Hap|[]].
  intros E. apply Hx. apply Hinj; [exact Ht|exact Hpv|congruence].
Qed.

(* cross propagation: values assigned in one group removed from the other group *)
Lemma cross_pass_keep : forall a vars g1 g2 s0 s ch s' ch' ok,
  inj_on vars a -> incl g1 vars -> incl g2 vars -> (forall x, In x g1 -> In x g2 -> False) ->
  inside g1 a s0 -> inside g2 a s ->
  pass_pairs false (assigned_of g1 s0) g2 s ch = (s', ch', ok) -> ok = true /\ keeps a s s'.
Proof.
  intros a vars g1 g2 s0 s ch s' ch' ok Hinj I1 I2 Hd Hi0 Hi H.
  apply (pass_pairs_keep a false (assigned_of g1 s0) g2 s ch s' ch' ok); [|exact Hi|exact H].
  intros p v t Hp Ht _. apply assigned_of_In in Hp. destruct Hp as [Hpv Hs].
  pose proof (Hi0 p Hpv) as Hap. rewrite Hs in Hap. destruct Hap as [Hap|[]].
  intros E. apply (Hd p); [exact Hpv|].
  assert (t = p) by (apply Hinj; [apply I2; exact Ht | apply I1; exact Hpv | congruence]). subst. exact Ht.
Qed.

(* ------------------------------------------------------------------------------------------ *)
(* Hall sets *)
Lemma combs_spec : forall (k : nat) (l c : list nat), In c (combs k l) -> incl c l /\ (NoDup l -> NoDup c).
Proof.
  intros k l. revert k. induction l as [|x r IH]; intros k c H.
  - destruct k; cbn in H; [destruct H as [<-|[]]; split; [intros y []|intros _; constructor]|destruct H].
  - destruct k as [|k']; cbn [combs] in H.
    + destruct H as [<-|[]]. split; [intros y []|intros _; constructor].
    + apply in_app_or in H. destruct H as [H|H].
      * apply in_map_iff in H. destruct H as (c' & <- & Hc'). destruct (IH k' c' Hc') as [Hi Hn].
        split; [intros y [<-|Hy]; [left; reflexivity|right; apply Hi; exact Hy]|].
        intros Hnd. inversion Hnd; subst. constructor; [intros Hx; apply H1; apply Hi; exact Hx|apply Hn; assumption].
      * destruct (IH (S k') c H) as [Hi Hn].
        split; [intros y Hy; right; apply Hi; exact Hy|]. intros Hnd. inversion Hnd; subst. apply Hn; assumption.
Qed.

Lemma union_vals_In : forall sub s v, In v (union_vals sub s) <-> exists x, In x sub /\ In v (sget s x).
Proof.
  intros sub s v. unfold union_vals. rewrite nodup_In, in_flat_map. reflexivity.
Qed.

(* pigeonhole: k variables whose domains cover exactly k values use all of them *)
Lemma hall_pigeon : forall sub vars s a t,
  NoDup sub -> incl sub vars -> inj_on vars a -> inside sub a s ->
  length sub = length (union_vals sub s) ->
  In t vars -> ~ In t sub -> ~ In (a t) (union_vals sub s).
Proof.
  intros sub vars s a t Hnd Hincl Hinj Hi Hlen Ht Hns Hu.
  assert (N1 : NoDup (map a sub)).
  { apply NoDup_map_inj_on; [exact Hnd|]. intros x y Hx Hy. apply Hinj; apply Hincl; assumption. }
  assert (I1 : incl (map a sub) (union_vals sub s)).
  { intros v Hv. apply in_map_iff in Hv. destruct Hv as (x & <- & Hx). apply union_vals_In. exists x. split; [exact Hx|apply Hi; exact Hx]. }
  assert (I2 : incl (union_vals sub s) (map a sub)).
  { apply NoDup_length_incl; [exact N1|rewrite map_length; lia|exact I1]. }
  apply I2 in Hu. apply in_map_iff in Hu. destruct Hu as (x & E & Hx).
  apply Hns. assert (x = t) by (apply Hinj; [apply Hincl; exact Hx|exact Ht|exact E]). subst. exact Hx.
Qed.

Lemma existsb_eqb_In : forall t sub, existsb (Nat.eqb t) sub = true <-> In t sub.
Proof.
  intros t sub. rewrite existsb_exists. split.
  - intros (x & Hx & E). apply Nat.eqb_eq in E. subst. exact Hx.
  - intros H. exists t. split; [exact H|apply Nat.eqb_refl].
Qed.

Lemma hall_targets_keep : forall a sub u ts s ch s' ch' ok,
  (forall t, In t ts -> ~ In t sub -> ~ In (a t) u) ->
  (forall t, In t ts -> In (a t) (sget s t)) ->
  hall_targets sub u ts s ch = (s', ch', ok) -> ok = true /\ keeps a s s'.
Proof.
  intros a sub u ts. induction ts as [|t r IH]; intros s ch s' ch' ok Hne Hin H; cbn [hall_targets] in H.
  - inversion H; subst. split; [reflexivity|apply keeps_refl].
  - destruct (existsb (Nat.eqb t) sub) eqn:Ex.
    + apply (IH s ch s' ch' ok); [intros; apply Hne; [right|]; assumption | intros; apply Hin; right; assumption | exact H].
    + assert (Hns : ~ In t sub) by (intros Hc; apply existsb_eqb_In in Hc; congruence).
      cbv zeta in H.
      destruct (Nat.eqb (length (dremall u (sget s t))) (length (sget s t))).
      * apply (IH s ch s' ch' ok); [intros; apply Hne; [right|]; assumption | intros; apply Hin; right; assumption | exact H].
      * assert (Ha : In (a t) (dremall u (sget s t))).
        { apply dremall_In. split; [apply Hin; left; reflexivity | apply Hne; [left; reflexivity|exact Hns]]. }
        assert (K1 : keeps a s (supd s t (dremall u (sget s t)))) by (apply keeps_supd; intros _; exact Ha).
        destruct (dempty (dremall u (sget s t))) eqn:De.
        { apply dempty_true in De. rewrite De in Ha. destruct Ha. }
        destruct (IH (supd s t (dremall u (sget s t))) true s' ch' ok) as [E K2];
          [intros; apply Hne; [right|]; assumption | intros t' Ht'; apply K1; apply Hin; right; exact Ht' | exact H |].
        split; [exact E | eapply keeps_trans; eassumption].
Qed.

Lemma hall_subsets_keep : forall a vars subs s ch s' ch' ok,
  inj_on vars a -> (forall sub, In sub subs -> NoDup sub /\ incl sub vars) -> inside vars a s ->
  hall_subsets subs vars s ch = (s', ch', ok) -> ok = true /\ keeps a s s'.
Proof.
  intros a vars subs. induction subs as [|sub r IH]; intros s ch s' ch' ok Hinj Hsubs Hi H; cbn [hall_subsets] in H.
  - inversion H; subst. split; [reflexivity|apply keeps_refl].
  - cbv zeta in H. destruct (Nat.eqb (length sub) (length (union_vals sub s))) eqn:El.
    + apply Nat.eqb_eq in El. destruct (Hsubs sub (or_introl eq_refl)) as [Hnd Hincl].
      destruct (hall_targets sub (union_vals sub s) vars s ch) as [[s1 ch1] ok1] eqn:E1.
      destruct (hall_targets_keep a sub (union_vals sub s) vars s ch s1 ch1 ok1) as [-> K1];
        [intros t Ht Hns; apply (hall_pigeon sub vars s a t); try assumption; apply (inside_incl vars); assumption
        | exact Hi | exact E1 |].
      destruct (IH s1 ch1 s' ch' ok Hinj) as [E K2];
        [intros sb Hsb; apply Hsubs; right; exact Hsb | eapply inside_keeps; eassumption | exact H |].
      split; [exact E | eapply keeps_trans; eassumption].
    + apply (IH s ch s' ch' ok Hinj); [intros sb Hsb; apply Hsubs; right; exact Hsb | exact Hi | exact H].
Qed.

Lemma hall_keep : forall a vars s s' ch' ok,
  NoDup vars -> inj_on vars a -> inside vars a s -> hall vars s = (s', ch', ok) -> ok = true /\ keeps a s s'.
Proof.
  intros a vars s s' ch' ok Hnd Hinj Hi H. unfold hall in H.
  destruct (Nat.leb (length vars) 6).
  - apply (hall_subsets_keep a vars (flat_map (fun k : nat => combs k vars) (hall_sizes (length vars))) s false s' ch' ok Hinj); [|exact Hi|exact H].
    intros sub Hs. apply in_flat_map in Hs. destruct Hs as (k & _ & Hs).
    destruct (combs_spec k vars sub Hs) as [I N]. split; [apply N; exact Hnd|exact I].
  - inversion H; subst. split; [reflexivity|apply keeps_refl].
Qed.

(* hall_sound of the design: the engine's whole propagation keeps every solution *)
Lemma bitset_alldiff_keep : forall a vars s s' ch' ok,
  NoDup vars -> inj_on vars a -> inside vars a s ->
  bitset_alldiff vars s = (s', ch', ok) -> ok = true /\ keeps a s s'.
Proof.
  intros a vars s s' ch' ok Hnd Hinj Hi H. unfold bitset_alldiff in H.
  destruct (Nat.leb (length vars) 1); [inversion H; subst; split; [reflexivity|apply keeps_refl]|].
  destruct (pass_pairs true (assigned_of vars s) vars s false) as [[s1 ch1] ok1] eqn:E1.
  destruct (group_pass_keep a vars s s false s1 ch1 ok1 Hinj Hi Hi E1) as [-> K1].
  destruct (hall vars s1) as [[s2 ch2] ok2] eqn:E2.
  destruct (hall_keep a vars s1 s2 ch2 ok2 Hnd Hinj (inside_keeps _ _ _ _ Hi K1) E2) as [-> K2].
  inversion H; subst. split; [reflexivity | eapply keeps_trans; eassumption].
Qed.

Lemma is_b_s_disjoint : forall tags x, is_b tags x = true -> is_s tags x = true -> False.
Proof. intros tags x. unfold is_b, is_s. destruct (nth_error tags x) as [[|]|]; cbn; congruence. Qed.

Lemma hybrid_alldiff_keep : forall a tags vars s s' ch' ok,
  NoDup vars -> inj_on vars a -> inside vars a s ->
  hybrid_alldiff tags vars s = (s', ch', ok) -> ok = true /\ keeps a s s'.
Proof.
  intros a tags vars s s' ch' ok Hnd Hinj Hi H. unfold hybrid_alldiff in H.
  destruct vars as [|x0 vr]; [inversion H; subst; split; [reflexivity|apply keeps_refl]|].
  set (vars := x0 :: vr) in *. set (bv := filter (is_b tags) vars) in *. set (sv := filter (is_s tags) vars) in *.
  assert (Ib : incl bv vars) by (intros x Hx; apply filter_In in Hx; tauto).
  assert (Is : incl sv vars) by (intros x Hx; apply filter_In in Hx; tauto).
  assert (Hd : forall x, In x bv -> In x sv -> False).
  { intros x H1 H2. apply filter_In in H1, H2. apply (is_b_s_disjoint tags x); tauto. }
  assert (Hd' : forall x, In x sv -> In x bv -> False) by (intros x H1 H2; exact (Hd x H2 H1)).
  destruct (if nonempty bv then bitset_alldiff bv s else (s, false, true)) as [[s1 ch1] ok1] eqn:E1.
  assert (R1 : ok1 = true /\ keeps a s s1).
  { destruct (nonempty bv).
    - apply (bitset_alldiff_keep a bv s s1 ch1 ok1); [apply NoDup_filter; exact Hnd | eapply inj_on_incl; eassumption | eapply inside_incl; eassumption | exact E1].
    - inversion E1; subst. split; [reflexivity|apply keeps_refl]. }
  destruct R1 as [-> K1]. pose proof (inside_keeps _ _ _ _ Hi K1) as Hi1.
  destruct (if nonempty sv then pass_pairs true (assigned_of sv s1) sv s1 false else (s1, false, true)) as [[s2 ch2] ok2] eqn:E2.
  assert (R2 : ok2 = true /\ keeps a s1 s2).
  { destruct (nonempty sv).
    - apply (group_pass_keep a sv s1 s1 false s2 ch2 ok2); [eapply inj_on_incl; eassumption | eapply inside_incl; eassumption | eapply inside_incl; eassumption | exact E2].
    - inversion E2; subst. split; [reflexivity|apply keeps_refl]. }
  destruct R2 as [-> K2]. pose proof (inside_keeps _ _ _ _ Hi1 K2) as Hi2.
  assert (K02 : keeps a s s2) by (eapply keeps_trans; eassumption).
  destruct (nonempty bv && nonempty sv); [|inversion H; subst; split; [reflexivity|exact K02]].
  destruct (pass_pairs false (assigned_of bv s2) sv s2 false) as [[s3 ch3] ok3] eqn:E3.
  destruct (cross_pass_keep a vars bv sv s2 s2 false s3 ch3 ok3 Hinj Ib Is Hd
              (inside_incl _ _ _ _ Ib Hi2) (inside_incl _ _ _ _ Is Hi2) E3) as [-> K3].
  pose proof (inside_keeps _ _ _ _ Hi2 K3) as Hi3.
  destruct (pass_pairs false (assigned_of sv s3) bv s3 ch3) as [[s4 ch4] ok4] eqn:E4.
  destruct (cross_pass_keep a vars sv bv s3 s3 ch3 s4 ch4 ok4 Hinj Is Ib Hd'
              (inside_incl _ _ _ _ Is Hi3) (inside_incl _ _ _ _ Ib Hi3) E4) as [-> K4].
  inversion H; subst. split; [reflexivity|].
  eapply keeps_trans; [exact K02|]. eapply keeps_trans; eassumption.
Qed.

(* ------------------------------------------------------------------------------------------ *)
(* from list solutions to functions *)
Definition asg_of (l : list Z) : asg := fun i => nth i l 0.

Lemma Forall2_nth_In : forall (l : list Z) (ds : store), Forall2 (@In Z) l ds ->
  length l = length ds /\ forall i, (i < length ds)%nat -> In (nth i l 0) (sget ds i).
Proof.
  intros l ds H. induction H as [|x d l ds Hx H IH]; cbn [length].
  - split; [reflexivity|intros i Hi; lia].
  - destruct IH as [IL IN]. split; [f_equal; exact IL|]. intros [|i] Hi; unfold sget; cbn [nth]; [exact Hx|].
    apply IN. lia.
Qed.

Lemma nth_Forall2_In : forall (l : list Z) (ds : store), length l = length ds ->
  (forall i, (i < length ds)%nat -> In (nth i l 0) (sget ds i)) -> Forall2 (@In Z) l ds.
Proof.
  induction l as [|x l IH]; intros [|d ds] HL H; cbn in HL; try lia; constructor.
  - exact (H 0%nat ltac:(cbn; lia)).
  - apply IH; [lia|]. intros i Hi. exact (H (S i) ltac:(cbn; lia)).
Qed.

Lemma sol_asg : forall ds l, alldiff_sol ds l ->
  length l = length ds /\ inj_on (all_vars ds) (asg_of l) /\ inside (all_vars ds) (asg_of l) ds.
Proof.
  intros ds l [HF HN]. destruct (Forall2_nth_In l ds HF) as [HL HI]. split; [exact HL|]. split.
  - intros x y Hx Hy E. unfold all_vars in *. apply in_seq in Hx, Hy. unfold asg_of in E.
    apply (proj1 (NoDup_nth l 0) HN); [lia|lia|exact E].
  - intros x Hx. unfold all_vars in Hx. apply in_seq in Hx. apply HI. lia.
Qed.

Lemma all_vars_NoDup : forall ds, NoDup (all_vars ds).
Proof. intros. apply seq_NoDup. Qed.

Lemma keeps_sol : forall ds ds' l, alldiff_sol ds l -> length ds' = length ds ->
  keeps (asg_of l) ds ds' -> alldiff_sol ds' l.
Proof.
  intros ds ds' l Hs HL K. destruct (sol_asg ds l Hs) as (L & _ & Hi). destruct Hs as [_ HN].
  split; [|exact HN]. apply nth_Forall2_In; [lia|]. intros i Hi'. apply K. apply Hi.
  unfold all_vars. apply in_seq. lia.
Qed.

(* the statement shared by the bitset and hybrid engines *)
Definition engine_sound (ds : store) (r : option store) : Prop :=
  match r with
  | Some ds' =>
      length ds' = length ds /\
      (forall i v, In v (sget ds' i) -> In v (sget ds i)) /\
      (forall i v, supported ds i v -> In v (sget ds' i)) /\
      (forall a, alldiff_sol ds a -> alldiff_sol ds' a)
  | None => forall a, ~ alldiff_sol ds a
  end.

Lemma engine_sound_of : forall ds (r : res),
  res_sub r ds ->
  (forall l s' ch ok, alldiff_sol ds l -> r = (s', ch, ok) -> ok = true /\ keeps (asg_of l) ds s') ->
  engine_sound ds (res_opt r).
Proof.
  intros ds [[s' ch] ok] HF HK. apply fsub_sub in HF. destruct HF as [HL HS]. cbn [fst] in HL, HS. unfold res_opt. destruct ok; cbn [engine_sound].
  - assert (Hall : forall a, alldiff_sol ds a -> alldiff_sol s' a).
    { intros l Hl. destruct (HK l s' ch true Hl eq_refl) as [_ K]. apply (keeps_sol ds); assumption. }
    split; [exact HL|]. split; [exact HS|]. split; [|exact Hall].
    intros i v (l & Hl & Hi & E). subst v. pose proof (Hall l Hl) as [HF _].
    destruct (Forall2_nth_In l s' HF) as [L' I']. apply I'. lia.
  - intros l Hl. destruct (HK l s' ch false Hl eq_refl) as [E _]. discriminate.
Qed.

Theorem bitset_alldiff_sound : forall ds, engine_sound ds (bitset_propagate ds).
Proof.
  intros ds. unfold bitset_propagate. apply engine_sound_of; [apply bitset_alldiff_sub|].
  intros l s' ch ok Hl E. destruct (sol_asg ds l Hl) as (_ & Hinj & Hi).
  exact (bitset_alldiff_keep _ _ _ _ _ _ (all_vars_NoDup ds) Hinj Hi E).
Qed.

(* the hybrid engine on an explicitly tagged state (any tags: the proof does not depend on how
   the representation was chosen) *)
Theorem hybrid_alldiff_sound_tagged : forall tags ds,
  engine_sound ds (res_opt (hybrid_alldiff tags (all_vars ds) ds)).
Proof.
  intros tags ds. apply engine_sound_of; [apply hybrid_alldiff_sub|].
  intros l s' ch ok Hl E. destruct (sol_asg ds l Hl) as (_ & Hinj & Hi).
  exact (hybrid_alldiff_keep _ _ _ _ _ _ _ (all_vars_NoDup ds) Hinj Hi E).
Qed.

(* creation through add_variable_with_values keeps the value sets when the family has no empty
   domain (HybridGAC rejects those) *)
Lemma hy_from_values_In : forall l x, In x (snd (hy_from_values l)) <-> In x l.
Proof.
  intros l x. unfold hy_from_values. destruct (tag_of_values l) eqn:T; cbn [snd].
  - unfold bs_from_values. destruct l as [|y r]; [reflexivity|]. unfold tag_of_values in T. rewrite T. apply zsort_In.
  - unfold sp_from_values. apply zsort_In.
Qed.

Lemma sget_map : forall (f : list Z -> dom) (ds : store) i, f [] = [] -> sget (map f ds) i = f (sget ds i).
Proof.
  intros f ds i Hf. unfold sget. revert i. induction ds as [|d r IH]; intros [|i]; cbn; try (symmetry; exact Hf); [reflexivity|apply IH].
Qed.

Lemma hy_created_In : forall ds i x, In x (sget (map snd (map hy_from_values ds)) i) <-> In x (sget ds i).
Proof.
  intros ds i x. rewrite map_map. rewrite (sget_map (fun l => snd (hy_from_values l))) by reflexivity.
  apply hy_from_values_In.
Qed.

Lemma sol_ext : forall ds1 ds2 l, length ds1 = length ds2 ->
  (forall i x, In x (sget ds1 i) <-> In x (sget ds2 i)) -> alldiff_sol ds1 l -> alldiff_sol ds2 l.
Proof.
  intros ds1 ds2 l HL HE [HF HN]. split; [|exact HN]. destruct (Forall2_nth_In l ds1 HF) as [L I].
  apply nth_Forall2_In; [lia|]. intros i Hi. apply HE. apply I. lia.
Qed.

Theorem hybrid_alldiff_sound : forall ds, engine_sound ds (hybrid_propagate ds).
Proof.
  intros ds. unfold hybrid_propagate.
  set (st := map hy_from_values ds). set (cs := map snd st).
  assert (HLc : length cs = length ds) by (unfold cs, st; rewrite !map_length; reflexivity).
  assert (HE : forall i x, In x (sget cs i) <-> In x (sget ds i)) by (intros; apply hy_created_In).
  assert (AV : all_vars ds = all_vars cs) by (unfold all_vars; rewrite HLc; reflexivity).
  rewrite AV. pose proof (hybrid_alldiff_sound_tagged (map fst st) cs) as H.
  destruct (res_opt (hybrid_alldiff (map fst st) (all_vars cs) cs)) as [ds'|]; cbn [engine_sound] in *.
  - destruct H as (L & S & Sup & Sol).
    assert (Sol' : forall a, alldiff_sol ds a -> alldiff_sol ds' a).
    { intros a Ha. apply Sol. apply (sol_ext ds cs); [lia | intros; symmetry; apply HE | exact Ha]. }
    split; [lia|]. split; [intros i v Hv; apply HE; apply S; exact Hv|]. split; [|exact Sol'].
    intros i v (l & Hl & Hi & E). apply Sup. exists l. split; [|split; assumption].
    apply (sol_ext ds cs); [lia | intros; symmetry; apply HE | exact Hl].
  - intros a Ha. apply (H a). apply (sol_ext ds cs); [lia | intros; symmetry; apply HE | exact Ha].
Qed.

(* ------------------------------------------------------------------------------------------ *)
(* fixed families: the verdict is "the values are pairwise distinct" *)
Definition all_single (ds : store) : Prop := forall d, In d ds -> exists v, d = [v].
Definition fixed_values (ds : store) : list Z := map (hd 0) ds.

Lemma all_single_sget : forall ds i, all_single ds -> (i < length ds)%nat -> sget ds i = [nth i (fixed_values ds) 0].
Proof.
  intros ds i HS Hi. unfold sget, fixed_values.
  assert (HI : In (nth i ds []) ds) by (apply nth_In; exact Hi).
  destruct (HS _ HI) as (v & E).
  pose proof (map_nth (hd 0) ds [] i) as M. cbn [hd] in M. rewrite M.
  unfold store, dom in *. rewrite E. reflexivity.
Qed.

Lemma fixed_values_sol : forall ds, all_single ds -> NoDup (fixed_values ds) -> alldiff_sol ds (fixed_values ds).
Proof.
  intros ds HS HN. split; [|exact HN]. apply nth_Forall2_In; [unfold fixed_values; apply map_length|].
  intros i Hi. rewrite (all_single_sget ds i HS Hi). left; reflexivity.
Qed.

Lemma pass_targets_single : forall e v ts s ch s' ch',
  (forall t, In t ts -> exists w, sget s t = [w]) ->
  pass_targets e v ts s ch = (s', ch', true) ->
  s' = s /\ forall t, In t ts -> excluded e t = false -> ~ In v (sget s t).
Proof.
  intros e v ts. induction ts as [|t r IH]; intros s ch s' ch' HS H; cbn [pass_targets] in H.
  - inversion H; subst. split; [reflexivity|intros t []].
  - fold (excluded e t) in H. destruct (excluded e t) eqn:Ex.
    + destruct (IH s ch s' ch' (fun t' Ht' => HS t' (or_intror Ht')) H) as [E N]. split; [exact E|].
      intros t' [<-|Ht'] Hx; [congruence|apply N; assumption].
    + destruct (HS t (or_introl eq_refl)) as (w & Ew). destruct (dhas v (sget s t)) eqn:Hh.
      * exfalso. apply dhas_In in Hh. rewrite Ew in Hh. destruct Hh as [<-|[]].
        rewrite Ew in H. unfold drem in H. cbn [filter] in H. rewrite Z.eqb_refl in H. cbn in H. discriminate.
      * destruct (IH s ch s' ch' (fun t' Ht' => HS t' (or_intror Ht')) H) as [E N]. split; [exact E|].
        intros t' [<-|Ht'] Hx; [|apply N; assumption].
        intros Hc. apply dhas_In in Hc. congruence.
Qed.

Lemma pass_pairs_single : forall ex (ps : list (nat * Z)) ts s ch s' ch',
  (forall t, In t ts -> exists w, sget s t = [w]) ->
  pass_pairs ex ps ts s ch = (s', ch', true) ->
  s' = s /\ forall p v t, In (p, v) ps -> In t ts -> excluded (if ex then Some p else None) t = false -> ~ In v (sget s t).
Proof.
  intros ex ps ts. induction ps as [|[p v] r IH]; intros s ch s' ch' HS H; cbn [pass_pairs] in H.
  - inversion H; subst. split; [reflexivity|intros p v t []].
  - destruct (pass_targets (if ex then Some p else None) v ts s ch) as [[s1 ch1] [|]] eqn:E1; [|discriminate].
    destruct (pass_targets_single _ v ts s ch s1 ch1 HS E1) as [-> N1].
    destruct (IH s ch1 s' ch' HS H) as [E N]. split; [exact E|].
    intros p' v' t [Hp|Hp] Ht Hx; [inversion Hp; subst; apply N1; assumption|apply (N p' v' t); assumption].
Qed.

Lemma bitset_fixed_distinct : forall ds s' ch, all_single ds ->
  bitset_alldiff (all_vars ds) ds = (s', ch, true) -> NoDup (fixed_values ds).
Proof.
  intros ds s' ch HS H. unfold bitset_alldiff in H.
  assert (LV : length (all_vars ds) = length ds) by (unfold all_vars; apply seq_length).
  assert (LF : length (fixed_values ds) = length ds) by (unfold fixed_values; apply map_length).
  destruct (Nat.leb (length (all_vars ds)) 1) eqn:L1.
  - apply Nat.leb_le in L1. rewrite LV in L1. rewrite <- LF in L1.
    destruct (fixed_values ds) as [|x [|y r]]; cbn in L1; try lia; repeat constructor; intros [].
  - destruct (pass_pairs true (assigned_of (all_vars ds) ds) (all_vars ds) ds false) as [[s1 ch1] [|]] eqn:E1.
    2:{ inversion H. }
    assert (HSg : forall t, In t (all_vars ds) -> exists w, sget ds t = [w]).
    { intros t Ht. unfold all_vars in Ht. apply in_seq in Ht. eexists. apply all_single_sget; [exact HS|lia]. }
    destruct (pass_pairs_single true _ _ ds false s1 ch1 HSg E1) as [_ N].
    apply (proj2 (NoDup_nth (fixed_values ds) 0)). intros i j Hi Hj E. rewrite LF in Hi, Hj.
    destruct (Nat.eq_dec j i) as [|Nij]; [congruence|]. exfalso.
    assert (Ii : In i (all_vars ds)) by (unfold all_vars; apply in_seq; lia).
    assert (Ij : In j (all_vars ds)) by (unfold all_vars; apply in_seq; lia).
    apply (N i (nth i (fixed_values ds) 0) j).
    + unfold assigned_of. apply in_flat_map. exists i. split; [exact Ii|].
      rewrite (all_single_sget ds i HS Hi). left; reflexivity.
    + exact Ij.
    + cbn [excluded]. apply Nat.eqb_neq. exact Nij.
    + rewrite (all_single_sget ds j HS Hj). left. symmetry. exact E.
Qed.

Theorem bitset_fixed_agree : forall ds, all_single ds ->
  (bitset_propagate ds <> None <-> NoDup (fixed_values ds)).
Proof.
  intros ds HS. split.
  - intros H. unfold bitset_propagate in H.
    destruct (bitset_alldiff (all_vars ds) ds) as [[s' ch] [|]] eqn:E; cbn [res_opt] in H; [|congruence].
    exact (bitset_fixed_distinct ds s' ch HS E).
  - intros HN E. pose proof (bitset_alldiff_sound ds) as S. rewrite E in S. cbn [engine_sound] in S.
    exact (S _ (fixed_values_sol ds HS HN)).
Qed.

Lemma hybrid_fixed_created : forall ds, all_single ds ->
  map snd (map hy_from_values ds) = ds /\ map fst (map hy_from_values ds) = map (fun _ => true) ds.
Proof.
  induction ds as [|d r IH]; intros HS; [split; reflexivity|].
  destruct (HS d (or_introl eq_refl)) as (v & ->).
  destruct (IH (fun d' Hd' => HS d' (or_intror Hd'))) as [E1 E2].
  cbn [map]. rewrite E1, E2.
  assert (T : tag_of_values [v] = true) by (unfold tag_of_values; cbn [list_max list_min]; apply Z.leb_le; lia).
  unfold hy_from_values. rewrite T. cbn [fst snd]. unfold bs_from_values. cbn [list_max list_min].
  replace (v - v + 1 <=? 128) with true by (symmetry; apply Z.leb_le; lia). split; reflexivity.
Qed.

Lemma filter_all : forall (f : nat -> bool) l, (forall x, In x l -> f x = true) -> filter f l = l.
Proof.
  intros f l. induction l as [|x r IH]; intros H; [reflexivity|]. cbn [filter].
  rewrite (H x (or_introl eq_refl)). f_equal. apply IH. intros y Hy. apply H. right; exact Hy.
Qed.
Lemma filter_none : forall (f : nat -> bool) l, (forall x, In x l -> f x = false) -> filter f l = [].
Proof.
  intros f l. induction l as [|x r IH]; intros H; [reflexivity|]. cbn [filter].
  rewrite (H x (or_introl eq_refl)). apply IH. intros y Hy. apply H. right; exact Hy.
Qed.

Lemma hybrid_all_bitset : forall (ds : store) (vars : list nat) s,
  (forall x, In x vars -> (x < length ds)%nat) ->
  res_opt (hybrid_alldiff (map (fun _ => true) ds) vars s) = res_opt (bitset_alldiff vars s).
Proof.
  intros ds vars s Hv. set (tags := map (fun _ => true) ds).
  assert (LT : length tags = length ds) by (unfold tags; apply map_length).
  assert (AT : forall b, In b tags -> b = true).
  { intros b Hb. unfold tags in Hb. apply in_map_iff in Hb. destruct Hb as (_ & <- & _). reflexivity. }
  clearbody tags. unfold hybrid_alldiff. destruct vars as [|x0 vr].
  - unfold bitset_alldiff. reflexivity.
  - set (vars := x0 :: vr) in *.
    assert (Tb : forall x, In x vars -> is_b tags x = true).
    { intros x Hx. unfold is_b. destruct (nth_error tags x) as [b|] eqn:E.
      - apply nth_error_In in E. apply AT. exact E.
      - apply nth_error_None in E. specialize (Hv x Hx). lia. }
    assert (Ts : forall x, In x vars -> is_s tags x = false).
    { intros x Hx. specialize (Tb x Hx). unfold is_b, is_s in *. destruct (nth_error tags x) as [[|]|]; [reflexivity|discriminate|reflexivity]. }
    rewrite (filter_all _ vars Tb). rewrite (filter_none _ vars Ts).
    cbv zeta. replace (nonempty vars) with true by reflexivity. cbn [nonempty andb].
    destruct (bitset_alldiff vars s) as [[s1 ch1] [|]]; reflexivity.
Qed.

Theorem hybrid_fixed_agree : forall ds, all_single ds ->
  (hybrid_propagate ds <> None <-> NoDup (fixed_values ds)).
Proof.
  intros ds HS. unfold hybrid_propagate. destruct (hybrid_fixed_created ds HS) as [E1 E2].
  rewrite E1, E2. rewrite (hybrid_all_bitset ds (all_vars ds) ds).
  - apply (bitset_fixed_agree ds HS).
  - intros x Hx. unfold all_vars in Hx. apply in_seq in Hx. lia.
Qed.

(* ------------------------------------------------------------------------------------------ *)
(* Sparse engine.  Only the inconsistency verdict is sound.  The matching built by the code is
   a bijection between matched variables and matched values but its edges need not belong to
   the graph (apply_augmenting_path, see Model/Gac.v); the argument below does not need them to:
   a failed search from an unmatched variable x closes a set R of variables (x in R) all of whose
   values are owned by variables of R other than x — a Hall violator. *)
Definition minv (g : store) (m : matching) : Prop :=
  NoDup (map fst m) /\ NoDup (map snd m) /\ incl (map fst m) (all_vars g).

Lemma m_var_Some : forall m v w, m_var m v = Some w -> In (w, v) m.
Proof.
  intros m v w H. unfold m_var in H. destruct (find (fun p => snd p =? v) m) as [[w' v']|] eqn:E; [|discriminate].
  apply find_some in E. destruct E as [Hin E]. cbn [snd] in E. apply Z.eqb_eq in E. inversion H; subst. exact Hin.
Qed.
Lemma m_var_None : forall m v, m_var m v = None -> ~ In v (map snd m).
Proof.
  intros m v H Hin. unfold m_var in H. destruct (find (fun p => snd p =? v) m) as [p|] eqn:E; [discriminate|].
  apply in_map_iff in Hin. destruct Hin as (p & Ep & Hp). pose proof (find_none _ _ E p Hp) as F. cbn in F.
  rewrite Ep in F. rewrite Z.eqb_refl in F. discriminate.
Qed.
Lemma m_val_None : forall m x, m_val m x = None -> ~ In x (map fst m).
Proof.
  intros m x H Hin. unfold m_val in H. destruct (find (fun p => Nat.eqb (fst p) x) m) as [p|] eqn:E; [discriminate|].
  apply in_map_iff in Hin. destruct Hin as (p & Ep & Hp). pose proof (find_none _ _ E p Hp) as F. cbn in F.
  rewrite Ep in F. rewrite Nat.eqb_refl in F. discriminate.
Qed.
Lemma m_val_Some_In : forall m x v, m_val m x = Some v -> In x (map fst m).
Proof.
  intros m x v H. unfold m_val in H. destruct (find (fun p => Nat.eqb (fst p) x) m) as [[x' v']|] eqn:E; [|discriminate].
  apply find_some in E. destruct E as [Hin E]. cbn [fst] in E. apply Nat.eqb_eq in E. subst.
  apply in_map_iff. exists (x, v'). split; [reflexivity|exact Hin].
Qed.
Lemma owner_functional : forall (m : matching) w v1 v2, NoDup (map fst m) -> In (w, v1) m -> In (w, v2) m -> v1 = v2.
Proof.
  induction m as [|[x v] r IH]; intros w v1 v2 Hn H1 H2; [destruct H1|].
  cbn [map fst] in Hn. inversion Hn; subst.
  destruct H1 as [H1|H1], H2 as [H2|H2].
  - congruence.
  - inversion H1; subst. exfalso. apply H3. apply in_map_iff. exists (w, v2). split; [reflexivity|exact H2].
  - inversion H2; subst. exfalso. apply H3. apply in_map_iff. exists (w, v1). split; [reflexivity|exact H1].
  - apply (IH w); assumption.
Qed.

Lemma dt_iter_In : forall d v, In v (dt_iter d) <-> In v d.
Proof.
  intros d v. unfold dt_iter. destruct d as [|x r]; [reflexivity|].
  destruct ((list_max x r - list_min x r + 1 <=? 128) && ((list_max x r - list_min x r + 1) / 2 <? Z.of_nat (length (x :: r)))); [reflexivity|].
  apply new_from_values_is_list.
Qed.

Lemma memN_In : forall x l, memN x l = true <-> In x l.
Proof. intros. unfold memN. apply existsb_eqb_In. Qed.

Lemma scan_found_free : forall m vals q vv vz v q' vv' vz',
  scan_vals m vals q vv vz = (Some v, q', vv', vz') -> m_var m v = None.
Proof.
  intros m vals. induction vals as [|u r IH]; intros q vv vz v q' vv' vz' H; cbn [scan_vals] in H; [discriminate|].
  destruct (memZ u vz); [eapply IH; exact H|].
  destruct (m_var m u) as [w|] eqn:E.
  - destruct (memN w vv); eapply IH; exact H.
  - inversion H; subst. exact E.
Qed.

Lemma scan_inv : forall m vals q vv vz q' vv' vz',
  scan_vals m vals q vv vz = (None, q', vv', vz') ->
  incl vz vz' /\ incl q q' /\ incl vv vv' /\ (forall v, In v vals -> In v vz') /\
  (forall v, In v vz' -> In v vz \/ exists w, m_var m v = Some w /\ In w vv') /\
  (forall y, In y vv' -> In y vv \/ (In y q' /\ exists v, m_var m v = Some y)).
Proof.
  intros m vals. induction vals as [|u r IH]; intros q vv vz q' vv' vz' H; cbn [scan_vals] in H.
  - inversion H; subst. repeat split; try apply incl_refl; [intros v []| intros v Hv; left; exact Hv | intros y Hy; left; exact Hy].
  - destruct (memZ u vz) eqn:Eu.
    + destruct (IH _ _ _ _ _ _ H) as (A & B & C & D & E & F). repeat split; try assumption.
      intros v [<-|Hv]; [apply A; apply memZ_In; exact Eu|apply D; exact Hv].
    + destruct (m_var m u) as [w|] eqn:Ew; [|discriminate].
      destruct (memN w vv) eqn:Em.
      * destruct (IH _ _ _ _ _ _ H) as (A & B & C & D & E & F). apply memN_In in Em.
        split; [intros z Hz; apply A; right; exact Hz|]. split; [exact B|]. split; [exact C|].
        split; [intros v [<-|Hv]; [apply A; left; reflexivity|apply D; exact Hv]|].
        split; [|exact F]. intros v Hv. destruct (E v Hv) as [[<-|Hz]|Hz]; [right; exists w; split; [exact Ew|apply C; exact Em]|left; exact Hz|right; exact Hz].
      * destruct (IH _ _ _ _ _ _ H) as (A & B & C & D & E & F).
        split; [intros z Hz; apply A; right; exact Hz|].
        split; [intros z Hz; apply B; apply in_or_app; left; exact Hz|].
        split; [intros z Hz; apply C; right; exact Hz|].
        split; [intros v [<-|Hv]; [apply A; left; reflexivity|apply D; exact Hv]|].
        split.
        -- intros v Hv. destruct (E v Hv) as [[<-|Hz]|Hz]; [right; exists w; split; [exact Ew|apply C; left; reflexivity]|left; exact Hz|right; exact Hz].
        -- intros y Hy. destruct (F y Hy) as [[<-|Hz]|Hz]; [right; split; [apply B; apply in_or_app; right; left; reflexivity|exists u; exact Ew]|left; exact Hz|right; exact Hz].
Qed.

Definition binv (g : store) (m : matching) (x : nat) (q vv : list nat) (vz : list Z) : Prop :=
  (forall v, In v vz -> exists w, m_var m v = Some w /\ In w vv) /\
  (forall y, In y vv -> In y q \/ forall v, In v (sget g y) -> In v vz) /\
  In x vv /\
  (forall y, In y vv -> y = x \/ exists v, m_var m v = Some y).

Lemma bfs_found_free : forall fuel g m q vv vz v, bfs fuel g m q vv vz = BFound v -> m_var m v = None.
Proof.
  induction fuel as [|f IH]; intros g m q vv vz v H; cbn [bfs] in H; [discriminate|].
  destruct q as [|cur q0]; [discriminate|].
  destruct (scan_vals m (dt_iter (sget g cur)) q0 vv vz) as [[[o q2] vv2] vz2] eqn:E.
  destruct o as [u|]; [inversion H; subst; eapply scan_found_free; exact E|eapply IH; exact H].
Qed.

Lemma bfs_none_closed : forall fuel g m x q vv vz, binv g m x q vv vz -> bfs fuel g m q vv vz = BNone ->
  exists vv' vz', binv g m x [] vv' vz'.
Proof.
  induction fuel as [|f IH]; intros g m x q vv vz I H; cbn [bfs] in H; [discriminate|].
  destruct q as [|cur q0]; [exists vv, vz; exact I|].
  destruct (scan_vals m (dt_iter (sget g cur)) q0 vv vz) as [[[o q2] vv2] vz2] eqn:E.
  destruct o as [u|]; [discriminate|].
  destruct (scan_inv _ _ _ _ _ _ _ _ E) as (A & B & C & D & E' & F).
  destruct I as (I1 & I2 & I3 & I4).
  apply (IH g m x q2 vv2 vz2); [|exact H]. repeat split.
  - intros v Hv. destruct (E' v Hv) as [Hz|Hz]; [|exact Hz].
    destruct (I1 v Hz) as (w & Ew & Hw). exists w. split; [exact Ew|apply C; exact Hw].
  - intros y Hy. destruct (F y Hy) as [Hz|[Hz _]]; [|left; exact Hz].
    destruct (I2 y Hz) as [[<-|Hq]|Hc].
    + right. intros v Hv. apply D. apply dt_iter_In. exact Hv.
    + left. apply B. exact Hq.
    + right. intros v Hv. apply A. apply Hc. exact Hv.
  - apply C. exact I3.
  - intros y Hy. destruct (F y Hy) as [Hz|[_ Hz]]; [apply I4; exact Hz|right; exact Hz].
Qed.

(* pigeonhole on the closed set *)
Lemma hall_violation : forall g m x vv vz a,
  minv g m -> m_val m x = None -> In x (all_vars g) -> binv g m x [] vv vz ->
  inj_on (all_vars g) a -> inside (all_vars g) a g -> False.
Proof.
  intros g m x vv vz a (N1 & N2 & N3) Hx Hxv (I1 & I2 & I3 & I4) Hinj Hin.
  assert (Hvv : forall y, In y vv -> In y (all_vars g)).
  { intros y Hy. destruct (I4 y Hy) as [->|(v & Ev)]; [exact Hxv|].
    apply N3. apply in_map_iff. exists (y, v). split; [reflexivity|apply m_var_Some; exact Ev]. }
  assert (Hown : forall y, In y vv -> exists w, m_var m (a y) = Some w /\ In w vv /\ w <> x).
  { intros y Hy. destruct (I2 y Hy) as [[]|Hc].
    destruct (I1 (a y) (Hc _ (Hin y (Hvv y Hy)))) as (w & Ew & Hw). exists w. split; [exact Ew|]. split; [exact Hw|].
    intros ->. apply (m_val_None m x Hx). apply in_map_iff. exists (x, a y). split; [reflexivity|apply m_var_Some; exact Ew]. }
  set (f := fun y => match m_var m (a y) with Some w => w | None => x end).
  set (R := nodup Nat.eq_dec vv).
  assert (NR : NoDup (map f R)).
  { apply NoDup_map_inj_on; [apply NoDup_nodup|]. intros y1 y2 H1 H2 E. apply nodup_In in H1, H2.
    destruct (Hown y1 H1) as (w1 & E1 & _). destruct (Hown y2 H2) as (w2 & E2 & _).
    unfold f in E. rewrite E1, E2 in E. subst w2.
    apply Hinj; [apply Hvv; exact H1|apply Hvv; exact H2|].
    apply (owner_functional m w1); [exact N1|apply m_var_Some; exact E1|apply m_var_Some; exact E2]. }
  assert (IR : incl (map f R) (remove Nat.eq_dec x R)).
  { intros w Hw. apply in_map_iff in Hw. destruct Hw as (y & <- & Hy). apply nodup_In in Hy.
    destruct (Hown y Hy) as (w & Ew & Hw & Nw). unfold f. rewrite Ew.
    apply in_in_remove; [exact Nw|apply nodup_In; exact Hw]. }
  pose proof (NoDup_incl_length NR IR) as L1. rewrite map_length in L1.
  assert (L2 : (length (remove Nat.eq_dec x R) < length R)%nat) by (apply remove_length_lt; apply nodup_In; exact I3).
  lia.
Qed.

Lemma match_assigned_inv : forall g order m, NoDup order -> incl order (all_vars g) ->
  minv g m -> (forall y, In y (map fst m) -> ~ In y order) -> minv g (match_assigned g order m).
Proof.
  intros g order. induction order as [|x r IH]; intros m Hn Hi Hm Hd; cbn [match_assigned]; [exact Hm|].
  inversion Hn; subst.
  assert (Hi' : incl r (all_vars g)) by (intros y Hy; apply Hi; right; exact Hy).
  assert (Hd' : forall y, In y (map fst m) -> ~ In y r) by (intros y Hy Hr; apply (Hd y Hy); right; exact Hr).
  destruct (sget g x) as [|v [|v' t]]; try (apply IH; assumption).
  destruct (m_var m v) eqn:Ev; [apply IH; assumption|].
  apply IH; try assumption.
  - destruct Hm as (N1 & N2 & N3). split; [|split].
    + cbn [map fst]. constructor; [|exact N1]. intros Hx. apply (Hd x Hx). left; reflexivity.
    + cbn [map snd]. constructor; [|exact N2]. apply m_var_None. exact Ev.
    + cbn [map fst]. intros y [<-|Hy]; [apply Hi; left; reflexivity|apply N3; exact Hy].
  - cbn [map fst]. intros y [<-|Hy]; [exact H1|apply Hd'; exact Hy].
Qed.

Lemma match_assigned_fst : forall g order m y, In y (map fst (match_assigned g order m)) -> In y (map fst m) \/ In y order.
Proof.
  intros g order. induction order as [|x r IH]; intros m y H; cbn [match_assigned] in H; [left; exact H|].
  destruct (sget g x) as [|v [|v' t]]; try (destruct (IH _ _ H) as [|]; [left; assumption|right; right; assumption]).
  destruct (m_var m v); destruct (IH _ _ H) as [Hy|Hy]; try (left; exact Hy); try (right; right; exact Hy).
  cbn [map fst] in Hy. destruct Hy as [<-|Hy]; [right; left; reflexivity|left; exact Hy].
Qed.

Definition has_sol (g : store) : Prop := exists a, inj_on (all_vars g) a /\ inside (all_vars g) a g.

Lemma match_augment_all : forall g order m m', has_sol g ->
  minv g m -> incl order (all_vars g) -> match_augment g order m = Some m' ->
  minv g m' /\ incl (map fst m) (map fst m') /\ (forall x, In x order -> In x (map fst m')).
Proof.
  intros g order. induction order as [|x r IH]; intros m m' HS Hm Hi H; cbn [match_augment] in H.
  - inversion H; subst. split; [exact Hm|]. split; [apply incl_refl|intros x []].
  - assert (Hi' : incl r (all_vars g)) by (intros y Hy; apply Hi; right; exact Hy).
    destruct (m_val m x) as [v|] eqn:Ex.
    + destruct (IH m m' HS Hm Hi' H) as (A & B & C). split; [exact A|]. split; [exact B|].
      intros y [<-|Hy]; [apply B; eapply m_val_Some_In; exact Ex|apply C; exact Hy].
    + destruct (bfs (S (length g)) g m [x] [x] []) as [v| |] eqn:Eb; [| |discriminate].
      * assert (Hm' : minv g ((x, v) :: m)).
        { destruct Hm as (N1 & N2 & N3). split; [|split]; cbn [map fst snd].
          - constructor; [apply m_val_None; exact Ex|exact N1].
          - constructor; [apply m_var_None; eapply bfs_found_free; exact Eb|exact N2].
          - intros y [<-|Hy]; [apply Hi; left; reflexivity|apply N3; exact Hy]. }
        destruct (IH _ m' HS Hm' Hi' H) as (A & B & C). split; [exact A|].
        split; [intros y Hy; apply B; right; exact Hy|].
        intros y [<-|Hy]; [apply B; left; reflexivity|apply C; exact Hy].
      * exfalso. destruct HS as (a & Hinj & Hin).
        destruct (bfs_none_closed (S (length g)) g m x [x] [x] []) as (vv' & vz' & I); [|exact Eb|].
        { split; [intros v []|]. split; [intros y Hy; left; exact Hy|]. split; [left; reflexivity|].
          intros y [<-|[]]. left; reflexivity. }
        apply (hall_violation g m x vv' vz' a Hm Ex (Hi x (or_introl eq_refl)) I Hinj Hin).
Qed.

Theorem sparse_inconsistent_sound : forall order ds, Permutation order (all_vars ds) ->
  sparse_alldiff order ds = SpInc -> forall a, ~ alldiff_sol ds a.
Proof.
  intros order ds HP H l Hl. unfold sparse_alldiff in H.
  destruct (Nat.leb (length ds) 1); [discriminate|].
  destruct (find_matching ds order) as [m|] eqn:Em; [|discriminate].
  destruct (negb (Nat.eqb (length m) (length ds))) eqn:El; [|discriminate].
  apply negb_true_iff in El. apply Nat.eqb_neq in El. apply El. clear El H.
  assert (Hn : NoDup order) by (apply (Permutation_NoDup (Permutation_sym HP)); apply all_vars_NoDup).
  assert (Hi : incl order (all_vars ds)) by (intros y Hy; apply (Permutation_in _ HP); exact Hy).
  assert (Hi2 : incl (all_vars ds) order) by (intros y Hy; apply (Permutation_in _ (Permutation_sym HP)); exact Hy).
  destruct (sol_asg ds l Hl) as (_ & Hinj & Hin).
  unfold find_matching in Em.
  assert (M0 : minv ds (match_assigned ds order [])).
  { apply match_assigned_inv; try assumption; [|intros y []]. split; [constructor|]. split; [constructor|intros y []]. }
  destruct (match_augment_all ds order _ m (ex_intro _ (asg_of l) (conj Hinj Hin)) M0 Hi Em) as ((N1 & N2 & N3) & _ & C).
  rewrite <- (map_length fst m). unfold all_vars in *.
  apply Nat.le_antisymm.
  - rewrite <- (seq_length (length ds) 0). apply NoDup_incl_length; assumption.
  - rewrite <- (seq_length (length ds) 0) at 1. apply NoDup_incl_length; [apply seq_NoDup|].
    intros y Hy. apply C. apply Hi2. exact Hy.
Qed.

(* D13: with a in {1,2}, b in {2,3} the engine removes 2 from a although a=2, b=3 is a solution,
   whatever the iteration order; and on an unsolvable family it answers "consistent" for one
   iteration order and "inconsistent" for another *)
Lemma sparse_d13_witness :
  sparse_propagate [0%nat; 1%nat] [[1; 2]; [2; 3]] = Some [[1]; [2; 3]] /\
  sparse_propagate [1%nat; 0%nat] [[1; 2]; [2; 3]] = Some [[1]; [2; 3]] /\
  alldiff_sol [[1; 2]; [2; 3]] [2; 3].
Proof.
  split; [vm_compute; reflexivity|]. split; [vm_compute; reflexivity|].
  split; [repeat constructor; cbn; tauto|]. repeat constructor; cbn; intuition discriminate.
Qed.

Theorem sparse_alldiff_refuted :
  ~ (forall order ds ds', Permutation order (all_vars ds) -> sparse_propagate order ds = Some ds' ->
       forall i v, supported ds i v -> In v (sget ds' i)).
Proof.
  intros H. destruct sparse_d13_witness as (E & _ & S).
  assert (P : Permutation [0%nat; 1%nat] (all_vars [[1; 2]; [2; 3]])) by (cbn; apply Permutation_refl).
  specialize (H _ _ _ P E 0%nat 2). cbn in H.
  destruct H as [H|[]]; [|discriminate H].
  exists [2; 3]. split; [exact S|]. split; [cbn; lia|reflexivity].
Qed.

Lemma sparse_order_dependent :
  let ds := [[1; 2]; [1; 2]; [1; 2]; [1; 3; 4]] in
  sparse_alldiff [0; 1; 2; 3]%nat ds = SpInc /\
  sparse_alldiff [3; 0; 1; 2]%nat ds = SpOk ds false /\
  forall a, ~ alldiff_sol ds a.
Proof.
  cbv zeta. split; [vm_compute; reflexivity|]. split; [vm_compute; reflexivity|].
  apply (sparse_inconsistent_sound [0; 1; 2; 3]%nat); [cbn; apply Permutation_refl|vm_compute; reflexivity].
Qed.

(* an inconsistency verdict of any engine refutes every assignment of pairwise different values:
   no engine can call a solvable family inconsistent, so on solvable families they agree *)
Theorem engines_never_contradict : forall ds,
  (bitset_propagate ds = None \/ hybrid_propagate ds = None \/
   exists order, Permutation order (all_vars ds) /\ sparse_alldiff order ds = SpInc) ->
  forall a, ~ alldiff_sol ds a.
Proof.
  intros ds [H|[H|(order & HP & H)]].
  - pose proof (bitset_alldiff_sound ds) as S. rewrite H in S. exact S.
  - pose proof (hybrid_alldiff_sound ds) as S. rewrite H in S. exact S.
  - exact (sparse_inconsistent_sound order ds HP H).
Qed.

(* ------------------------------------------------------------------------------------------ *)
(* sparse engine on fixed families *)
Lemma value_functional : forall (m : matching) v x1 x2, NoDup (map snd m) -> In (x1, v) m -> In (x2, v) m -> x1 = x2.
Proof.
  induction m as [|[x w] r IH]; intros v x1 x2 Hn H1 H2; [destruct H1|].
  cbn [map snd] in Hn. inversion Hn; subst.
  destruct H1 as [H1|H1], H2 as [H2|H2].
  - congruence.
  - inversion H1; subst. exfalso. apply H3. apply in_map_iff. exists (x2, v). split; [reflexivity|exact H2].
  - inversion H2; subst. exfalso. apply H3. apply in_map_iff. exists (x1, v). split; [reflexivity|exact H1].
  - apply (IH v); assumption.
Qed.

Lemma m_var_In : forall m v, In v (map snd m) -> exists w, m_var m v = Some w.
Proof.
  intros m v H. unfold m_var. destruct (find (fun p => snd p =? v) m) as [p|] eqn:E; [eexists; reflexivity|].
  exfalso. apply in_map_iff in H. destruct H as (p & Ep & Hp). pose proof (find_none _ _ E p Hp) as F. cbn in F.
  rewrite Ep, Z.eqb_refl in F. discriminate.
Qed.
Lemma m_val_In : forall m x, In x (map fst m) -> exists v, m_val m x = Some v.
Proof.
  intros m x H. unfold m_val. destruct (find (fun p => Nat.eqb (fst p) x) m) as [p|] eqn:E; [eexists; reflexivity|].
  exfalso. apply in_map_iff in H. destruct H as (p & Ep & Hp). pose proof (find_none _ _ E p Hp) as F. cbn in F.
  rewrite Ep, Nat.eqb_refl in F. discriminate.
Qed.

Lemma dt_iter_single : forall v, dt_iter [v] = [v].
Proof.
  intros v. unfold dt_iter. cbn [list_max list_min length]. replace (v - v + 1) with 1 by lia. reflexivity.
Qed.

Section SparseFixed.
  Variable ds : store.
  Hypothesis HS : all_single ds.
  Let val (x : nat) : Z := nth x (fixed_values ds) 0.
  Let sget_val : forall x, In x (all_vars ds) -> sget ds x = [val x].
  Proof. intros x Hx. unfold all_vars in Hx. apply in_seq in Hx. apply all_single_sget; [exact HS|lia]. Qed.

  Definition true_edges (m : matching) : Prop := forall y v, In (y, v) m -> In y (all_vars ds) /\ v = val y.

  Lemma match_assigned_fixed : forall order m, NoDup order -> incl order (all_vars ds) ->
    true_edges m -> (forall y, In y (map fst m) -> ~ In y order) ->
    let m' := match_assigned ds order m in
    true_edges m' /\ incl (map fst m) (map fst m') /\ incl (map snd m) (map snd m') /\
    (forall x, In x order -> In x (map fst m') \/ In (val x) (map snd m')) /\
    (NoDup (fixed_values ds) -> forall x, In x order -> In x (map fst m')).
  Proof.
    induction order as [|x r IH]; intros m Hn Hi Ht Hd; cbn [match_assigned]; cbv zeta.
    - split; [exact Ht|]. split; [apply incl_refl|]. split; [apply incl_refl|]. split; intros; contradiction.
    - inversion Hn; subst.
      assert (Hi' : incl r (all_vars ds)) by (intros y Hy; apply Hi; right; exact Hy).
      assert (Hd' : forall y, In y (map fst m) -> ~ In y r) by (intros y Hy Hr; apply (Hd y Hy); right; exact Hr).
      assert (Hx : In x (all_vars ds)) by (apply Hi; left; reflexivity).
      rewrite (sget_val x Hx). destruct (m_var m (val x)) as [w|] eqn:Ev.
      + destruct (IH m H2 Hi' Ht Hd') as (A & B & C & D & E). cbv zeta in *.
        split; [exact A|]. split; [exact B|]. split; [exact C|]. split.
        * intros y [<-|Hy]; [|apply D; exact Hy]. right. apply C. apply in_map_iff. exists (w, val x). split; [reflexivity|apply m_var_Some; exact Ev].
        * intros HN y [<-|Hy]; [|apply E; assumption]. exfalso.
          pose proof (m_var_Some _ _ _ Ev) as Hw. destruct (Ht _ _ Hw) as [Hwv Ew].
          assert (x = w).
          { unfold all_vars in Hx, Hwv. apply in_seq in Hx, Hwv.
            assert (LF : length (fixed_values ds) = length ds) by (unfold fixed_values; apply map_length).
            apply (proj1 (NoDup_nth (fixed_values ds) 0) HN); [rewrite LF; lia|rewrite LF; lia|exact Ew]. }
          subst w. apply (Hd x); [apply in_map_iff; exists (x, val x); split; [reflexivity|exact Hw]|left; reflexivity].
      + destruct (IH ((x, val x) :: m) H2 Hi') as (A & B & C & D & E).
        * intros y v [Hy|Hy]; [inversion Hy; subst; split; [exact Hx|reflexivity]|apply Ht; exact Hy].
        * cbn [map fst]. intros y [<-|Hy]; [exact H1|apply Hd'; exact Hy].
        * cbv zeta in *. cbn [map fst snd] in B, C. split; [exact A|].
          split; [intros y Hy; apply B; right; exact Hy|]. split; [intros y Hy; apply C; right; exact Hy|]. split.
          -- intros y [<-|Hy]; [left; apply B; left; reflexivity|apply D; exact Hy].
          -- intros HN y [<-|Hy]; [apply B; left; reflexivity|apply E; assumption].
  Qed.

  Lemma match_augment_skip : forall order m, (forall x, In x order -> In x (map fst m)) -> match_augment ds order m = Some m.
  Proof.
    induction order as [|x r IH]; intros m H; cbn [match_augment]; [reflexivity|].
    destruct (m_val_In m x (H x (or_introl eq_refl))) as (v & ->). apply IH. intros y Hy. apply H. right; exact Hy.
  Qed.

  Lemma bfs_fixed_none : forall m x, (2 <= length ds)%nat -> true_edges m -> In x (all_vars ds) ->
    ~ In x (map fst m) -> In (val x) (map snd m) -> bfs (S (length ds)) ds m [x] [x] [] = BNone.
  Proof.
    intros m x Hn Ht Hx Hnx Hv. destruct (m_var_In m (val x) Hv) as (w & Ew).
    pose proof (m_var_Some _ _ _ Ew) as Hw. destruct (Ht _ _ Hw) as [Hwv Eval].
    assert (Nwx : Nat.eqb w x = false).
    { apply Nat.eqb_neq. intros ->. apply Hnx. apply in_map_iff. exists (x, val x). split; [reflexivity|exact Hw]. }
    destruct (length ds) as [|[|n'']] eqn:EL; try lia.
    cbn [bfs]. rewrite (sget_val x Hx), dt_iter_single. cbn [scan_vals memZ existsb]. rewrite Ew.
    cbn [memN existsb]. rewrite Nwx. cbn [orb app].
    rewrite (sget_val w Hwv), dt_iter_single. cbn [scan_vals memZ existsb]. rewrite <- Eval, Z.eqb_refl. cbn [orb].
    reflexivity.
  Qed.

  Lemma match_augment_fixed : forall order m, (2 <= length ds)%nat -> true_edges m -> incl order (all_vars ds) ->
    (forall x, In x order -> In x (map fst m) \/ In (val x) (map snd m)) -> match_augment ds order m = Some m.
  Proof.
    induction order as [|x r IH]; intros m Hn Ht Hi H; cbn [match_augment]; [reflexivity|].
    assert (IHr : match_augment ds r m = Some m).
    { apply IH; try assumption; [intros y Hy; apply Hi; right; exact Hy|intros y Hy; apply H; right; exact Hy]. }
    destruct (m_val m x) eqn:Ex; [exact IHr|].
    pose proof (m_val_None _ _ Ex) as Hnx. destruct (H x (or_introl eq_refl)) as [Hc|Hv]; [contradiction|].
    rewrite (bfs_fixed_none m x Hn Ht (Hi x (or_introl eq_refl)) Hnx Hv). exact IHr.
  Qed.

  Theorem sparse_fixed_agree_aux : forall order, Permutation order (all_vars ds) ->
    (sparse_propagate order ds <> None <-> NoDup (fixed_values ds)).
  Proof.
    intros order HP.
    assert (LF : length (fixed_values ds) = length ds) by (unfold fixed_values; apply map_length).
    assert (Hn : NoDup order) by (apply (Permutation_NoDup (Permutation_sym HP)); apply all_vars_NoDup).
    assert (Hi : incl order (all_vars ds)) by (intros y Hy; apply (Permutation_in _ HP); exact Hy).
    assert (Hi2 : incl (all_vars ds) order) by (intros y Hy; apply (Permutation_in _ (Permutation_sym HP)); exact Hy).
    unfold sparse_propagate, sparse_alldiff. destruct (Nat.leb (length ds) 1) eqn:L1.
    { apply Nat.leb_le in L1. split; [|intros _; discriminate]. intros _. rewrite <- LF in L1.
      destruct (fixed_values ds) as [|a [|b r]]; cbn in L1; try lia; repeat constructor; intros []. }
    apply Nat.leb_gt in L1.
    assert (T0 : true_edges []) by (intros y v []).
    assert (M1 : minv ds (match_assigned ds order [])).
    { apply match_assigned_inv; try assumption; [|intros y []]. split; [constructor|]. split; [constructor|intros y []]. }
    destruct (match_assigned_fixed order [] Hn Hi T0 (fun y (H : In y []) => match H with end)) as (A & _ & _ & D & E).
    cbv zeta in *. set (m1 := match_assigned ds order []) in *.
    unfold find_matching. fold m1.
    rewrite (match_augment_fixed order m1 ltac:(lia) A Hi D).
    destruct M1 as (N1 & N2 & N3).
    split.
    - intros H. destruct (negb (Nat.eqb (length m1) (length ds))) eqn:El; [congruence|].
      apply negb_false_iff in El. apply Nat.eqb_eq in El.
      assert (Iall : incl (all_vars ds) (map fst m1)).
      { apply NoDup_length_incl; [exact N1| |exact N3]. rewrite map_length. unfold all_vars. rewrite seq_length. lia. }
      apply (proj2 (NoDup_nth (fixed_values ds) 0)). intros i j Hi' Hj' Eij. rewrite LF in Hi', Hj'.
      assert (Ii : In i (map fst m1)) by (apply Iall; unfold all_vars; apply in_seq; lia).
      assert (Ij : In j (map fst m1)) by (apply Iall; unfold all_vars; apply in_seq; lia).
      apply in_map_iff in Ii, Ij. destruct Ii as ([i' vi] & Ei & Hi''), Ij as ([j' vj] & Ej & Hj'').
      cbn [fst] in Ei, Ej. subst i' j'.
      destruct (A _ _ Hi'') as [_ Evi]. destruct (A _ _ Hj'') as [_ Evj].
      apply (value_functional m1 vi); [exact N2|exact Hi''|]. replace vi with vj; [exact Hj''|]. subst vi vj. symmetry. exact Eij.
    - intros HN. specialize (E HN).
      assert (El : length m1 = length ds).
      { rewrite <- (map_length fst m1). apply Nat.le_antisymm.
        - rewrite <- (seq_length (length ds) 0). apply NoDup_incl_length; [exact N1|exact N3].
        - rewrite <- (seq_length (length ds) 0) at 1. apply NoDup_incl_length; [apply seq_NoDup|].
          intros y Hy. apply E. apply Hi2. exact Hy. }
      rewrite El, Nat.eqb_refl. cbn [negb]. discriminate.
  Qed.
End SparseFixed.

Theorem sparse_fixed_agree : forall ds order, all_single ds -> Permutation order (all_vars ds) ->
  (sparse_propagate order ds <> None <-> NoDup (fixed_values ds)).
Proof. intros ds order HS HP. exact (sparse_fixed_agree_aux ds HS order HP). Qed.
