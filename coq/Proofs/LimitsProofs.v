(* Proofs for C15 (time and memory limits): the limited depth-first search of Model/Limits.v is a
   prefix-simulation of the unlimited search of Model/Search.v.  Stdlib only, no axioms.
   The three contracts `leq_good`, `gt_good`, `lt_good` are section hypotheses exactly as in
   Proofs/EngineProofs.v. *)
Require Import Selen.Model.Prelude Selen.Model.Dom Selen.Model.Views Selen.Model.PropDefs.
Require Import Selen.Model.Props.Basic Selen.Model.Propagate Selen.Model.Search Selen.Model.EngineSpec.
Require Import Selen.Model.Limits.
Require Import Selen.Proofs.EngineProofs.

(* ========================================================================================== *)
(* 1. the limited engine simulates the unlimited one *)

Section Sim.
  Variable pick : sched.
  Variable m : mode.
  Variable interval : Z.
  Variable clock : Z -> bool.
  Variable mlimit : option Z.
  Variable giveup : list prop -> store -> bool.
  Variable resume : bool.

  Notation tk := (tick interval clock mlimit).
  Notation dl := (dfs_lim pick m interval clock mlimit giveup resume).

  (* the outer loop is entered again at `depth` *)
  Definition retick (depth : nat) (sols : list store) (b : option Z) (l : lstate) : lres :=
    match tk depth l with
    | inr (w, l'') => LStop sols b l'' (SLimit w) depth
    | inl l'' => LStop sols b l'' SExhausted depth
    end.

  Definition child_lim (rec : nat -> list prop -> store -> option Z -> lstate -> lres)
             (depth : nat) (ps : list prop) (s : store) (bp : prop) (best : option Z) (l : lstate) : lres :=
    (* the propagation of the child is given up at the deadline *)
    if giveup (cps m ps best bp) s then LStop [] best l (SLimit LTimeout) depth else
    match cprop pick m ps s best bp with
    | PFuel => LFuel
    | PFail => LStop [] best l SExhausted depth
    | PDone s' =>
      if all_fixed s' then
        if resume then retick depth [s'] (on_solution m best s') l
        else LStop [s'] (on_solution m best s') l SConsumer depth
      else
        (* the descent: one more frame on the stack, and the limits are tested *)
        match tk (S depth) l with
        | inr (w, l0) => LStop [] best l0 (SLimit w) (S depth)
        | inl l0 =>
          match rec (S depth) (cps m ps best bp) s' best l0 with
          | LFuel => LFuel
          | LStop sols b l' SExhausted _ => retick depth sols b l'
          | r => r
          end
        end
    end.

  Lemma dfs_lim_eq : forall f depth ps s best l,
    dl (S f) depth ps s best l =
    match first_unassigned s 0 with
    | None => LStop [] best l SExhausted depth
    | Some pivot =>
      let mid := dmid (sget s pivot) in
      match child_lim (dl f) depth ps s (mk_leq (VVar pivot) (VConst mid)) best l with
      | LFuel => LFuel
      | LStop sols1 b1 l2 SExhausted _ =>
        match child_lim (dl f) depth ps s (mk_gt (VVar pivot) (VConst mid)) b1 l2 with
        | LFuel => LFuel
        | LStop sols2 b2 l3 w d => LStop (sols1 ++ sols2) b2 l3 w d
        end
      | r => r
      end
    end.
  Proof. reflexivity. Qed.

  (* what a limited result says about the unlimited result of the same call *)
  Definition sim (r : lres) (u : sresult) : Prop :=
    match r with
    | LFuel => u = SFuel
    | LStop sols b _ SExhausted _ => u = SOk sols b
    | LStop sols b _ _ _ => forall all ball, u = SOk all ball -> exists rest, all = sols ++ rest
    end.

  Lemma sim_prefix : forall sols b l why d all ball,
    sim (LStop sols b l why d) (SOk all ball) -> exists rest, all = sols ++ rest.
  Proof.
    intros sols b l why d all ball H. destruct why; cbn in H.
    - injection H as <- <-. exists []. rewrite ?app_nil_r. reflexivity.
    - apply (H all ball eq_refl).
    - apply (H all ball eq_refl).
  Qed.

  Lemma retick_sim : forall depth sols b l, sim (retick depth sols b l) (SOk sols b).
  Proof.
    intros depth sols b l. unfold retick. destruct (tk depth l) as [l''|[w l'']]; cbn.
    - reflexivity.
    - intros all ball H. injection H as <- <-. exists []. rewrite ?app_nil_r. reflexivity.
  Qed.

  Lemma child_sim : forall recl rec depth ps s bp best l,
    (forall depth ps s best l, sim (recl depth ps s best l) (rec ps s best)) ->
    sim (child_lim recl depth ps s bp best l) (child pick m rec ps s best bp).
  Proof.
    intros recl rec depth ps s bp best l Hrec. unfold child_lim, child.
    destruct (giveup (cps m ps best bp) s).
    { cbn. intros all0 ball0 _. exists all0. reflexivity. }
    destruct (cprop pick m ps s best bp) as [| |s']; [reflexivity|reflexivity|].
    destruct (all_fixed s').
    - destruct resume; [apply retick_sim|].
      cbn. intros all ball H. injection H as <- <-. exists []. rewrite ?app_nil_r. reflexivity.
    - destruct (tk (S depth) l) as [l0|[w l0]].
      2:{ (* a limit fires on the descent: nothing yielded yet *)
          cbn. intros all0 ball0 _. exists all0. reflexivity. }
      specialize (Hrec (S depth) (cps m ps best bp) s' best l0).
      destruct (recl (S depth) (cps m ps best bp) s' best l0) as [|sols b l' why d]; [exact Hrec|].
      destruct why; [|exact Hrec|exact Hrec].
      cbn in Hrec. rewrite Hrec. apply retick_sim.
  Qed.

  Lemma dfs_sim : forall fuel depth ps s best l,
    sim (dl fuel depth ps s best l) (dfs pick m fuel ps s best).
  Proof.
    induction fuel as [|f IH]; intros depth ps s best l; [reflexivity|].
    rewrite dfs_lim_eq, dfs_eq.
    destruct (first_unassigned s 0) as [pivot|]; [|reflexivity]. cbv zeta.
    set (mid := dmid (sget s pivot)).
    pose proof (child_sim (dl f) (dfs pick m f) depth ps s (mk_leq (VVar pivot) (VConst mid)) best l IH) as H1.
    destruct (child_lim (dl f) depth ps s (mk_leq (VVar pivot) (VConst mid)) best l) as [|sols1 b1 l2 why1 d1].
    - cbn in H1. rewrite H1. reflexivity.
    - assert (Hgen : why1 <> SExhausted ->
                sim (LStop sols1 b1 l2 why1 d1)
                    match child pick m (dfs pick m f) ps s best (mk_leq (VVar pivot) (VConst mid)) with
                    | SFuel => SFuel
                    | SOk sols1 best1 =>
                      match child pick m (dfs pick m f) ps s best1 (mk_gt (VVar pivot) (VConst mid)) with
                      | SFuel => SFuel
                      | SOk sols2 best2 => SOk (sols1 ++ sols2) best2
                      end
                    end).
      { intros Hne.
        assert (Hp : forall all ball,
                  match child pick m (dfs pick m f) ps s best (mk_leq (VVar pivot) (VConst mid)) with
                  | SFuel => SFuel
                  | SOk sols1 best1 =>
                    match child pick m (dfs pick m f) ps s best1 (mk_gt (VVar pivot) (VConst mid)) with
                    | SFuel => SFuel
                    | SOk sols2 best2 => SOk (sols1 ++ sols2) best2
                    end
                  end = SOk all ball -> exists rest, all = sols1 ++ rest).
        { intros all ball H.
          destruct (child pick m (dfs pick m f) ps s best (mk_leq (VVar pivot) (VConst mid))) as [|a1 ba1];
            [discriminate|].
          destruct (child pick m (dfs pick m f) ps s ba1 (mk_gt (VVar pivot) (VConst mid))) as [|a2 ba2];
            [discriminate|].
          injection H as <- <-. destruct (sim_prefix _ _ _ _ _ _ _ H1) as [rest ->].
          exists (rest ++ a2). rewrite app_assoc. reflexivity. }
        destruct why1; [congruence|exact Hp|exact Hp]. }
      destruct why1; [|apply Hgen; discriminate|apply Hgen; discriminate]. clear Hgen.
      cbn in H1. rewrite H1.
      pose proof (child_sim (dl f) (dfs pick m f) depth ps s (mk_gt (VVar pivot) (VConst mid)) b1 l2 IH) as H2.
      destruct (child_lim (dl f) depth ps s (mk_gt (VVar pivot) (VConst mid)) b1 l2) as [|sols2 b2 l3 w d2].
      + cbn in H2. rewrite H2. reflexivity.
      + assert (Hp : forall all ball,
                  match child pick m (dfs pick m f) ps s b1 (mk_gt (VVar pivot) (VConst mid)) with
                  | SFuel => SFuel
                  | SOk sols2 best2 => SOk (sols1 ++ sols2) best2
                  end = SOk all ball -> exists rest, all = (sols1 ++ sols2) ++ rest).
        { intros all ball H.
          destruct (child pick m (dfs pick m f) ps s b1 (mk_gt (VVar pivot) (VConst mid))) as [|a2 ba2];
            [discriminate|].
          injection H as <- <-. destruct (sim_prefix _ _ _ _ _ _ _ H2) as [rest ->].
          exists rest. rewrite app_assoc. reflexivity. }
        destruct w; [|exact Hp|exact Hp].
        cbn in H2. rewrite H2. reflexivity.
  Qed.

  (* ---- why a limited run stopped *)
  Definition okres (r : lres) : Prop :=
    match r with
    | LFuel => True
    | LStop sols _ l' why d =>
      match why with
      | SExhausted => True
      | SLimit w => (exists l0, tk d l0 = inr (w, l')) \/
                    (w = LTimeout /\ exists ps s, giveup ps s = true)
      | SConsumer => sols <> [] /\ resume = false
      end
    end.

  Lemma retick_ok : forall depth sols b l, okres (retick depth sols b l).
  Proof.
    intros depth sols b l. unfold retick. destruct (tk depth l) as [l''|[w l'']] eqn:E; cbn; [exact I|].
    left. exists l. exact E.
  Qed.

  Lemma child_ok : forall recl depth ps s bp best l,
    (forall depth ps s best l, okres (recl depth ps s best l)) ->
    okres (child_lim recl depth ps s bp best l).
  Proof.
    intros recl depth ps s bp best l Hrec. unfold child_lim.
    destruct (giveup (cps m ps best bp) s) eqn:Eg.
    { cbn. right. split; [reflexivity|]. exists (cps m ps best bp), s. exact Eg. }
    destruct (cprop pick m ps s best bp) as [| |s']; [exact I|exact I|].
    destruct (all_fixed s').
    - destruct resume eqn:Er; [apply retick_ok|]. cbn. split; [discriminate|exact Er].
    - destruct (tk (S depth) l) as [l0|[w l0]] eqn:Et.
      2:{ cbn. left. exists l. exact Et. }
      specialize (Hrec (S depth) (cps m ps best bp) s' best l0).
      destruct (recl (S depth) (cps m ps best bp) s' best l0) as [|sols b l' why d]; [exact I|].
      destruct why; [apply retick_ok|exact Hrec|exact Hrec].
  Qed.

  Lemma dfs_ok : forall fuel depth ps s best l, okres (dl fuel depth ps s best l).
  Proof.
    induction fuel as [|f IH]; intros depth ps s best l; [exact I|].
    rewrite dfs_lim_eq. destruct (first_unassigned s 0) as [pivot|]; [|exact I]. cbv zeta.
    set (mid := dmid (sget s pivot)).
    pose proof (child_ok (dl f) depth ps s (mk_leq (VVar pivot) (VConst mid)) best l IH) as H1.
    destruct (child_lim (dl f) depth ps s (mk_leq (VVar pivot) (VConst mid)) best l) as [|sols1 b1 l2 why1 d1];
      [exact I|].
    destruct why1; [|exact H1|exact H1].
    pose proof (child_ok (dl f) depth ps s (mk_gt (VVar pivot) (VConst mid)) b1 l2 IH) as H2.
    destruct (child_lim (dl f) depth ps s (mk_gt (VVar pivot) (VConst mid)) b1 l2) as [|sols2 b2 l3 w d2];
      [exact I|].
    destruct w; [exact I|exact H2|].
    cbn in *. destruct H2 as [Hne Hr]. split; [|exact Hr].
    intros E. apply app_eq_nil in E. destruct E as [_ E]. exact (Hne E).
  Qed.

  (* ---- the root *)
  Definition sim_root (r : lres + option store) (u : sresult) : Prop :=
    match r with
    | inl r => sim r u
    | inr None => u = SOk [] None
    | inr (Some t) => u = SOk [t] (on_solution m None t)
    end.

  Lemma search_sim : forall ps s,
    sim_root (search_lim pick m interval clock mlimit giveup resume ps s) (search pick m ps s).
  Proof.
    intros ps s. unfold search_lim, search.
    destruct (giveup ps s).
    { cbn. intros all ball _. exists all. reflexivity. }
    destruct (propagate pick _ ps s _) as [| |s']; [reflexivity|reflexivity|].
    destruct (all_fixed s'); [reflexivity|].
    destruct (tk 0 (mkl 0 0)) as [l1|[w l']].
    - exact (dfs_sim (S (total_size s')) 0%nat ps s' None l1).
    - cbn. intros all ball _. exists all. reflexivity.
  Qed.

  Lemma search_ok : forall ps s r,
    search_lim pick m interval clock mlimit giveup resume ps s = inl r -> okres r.
  Proof.
    intros ps s r. unfold search_lim.
    destruct (giveup ps s) eqn:Eg.
    { intros H. injection H as <-. cbn. right. split; [reflexivity|]. exists ps, s. exact Eg. }
    destruct (propagate pick _ ps s _) as [| |s']; [discriminate|intros H; injection H as <-; exact I|].
    destruct (all_fixed s'); [discriminate|].
    destruct (tk 0 (mkl 0 0)) as [l1|[w l']] eqn:E; intros H; injection H as <-.
    - exact (dfs_ok (S (total_size s')) 0%nat ps s' None l1).
    - cbn. left. exists (mkl 0 0). exact E.
  Qed.

  (* the memory test that fired is the one re-evaluated by the caller *)
  Lemma tick_memory_reeval : forall d l0 l', tk d l0 = inr (LMemory, l') ->
    mem_exceeded mlimit d (iters l') = true.
  Proof.
    intros d l0 l'. unfold tick. destruct (_ =? 0); [|discriminate].
    destruct (clock _); [discriminate|].
    destruct (mem_exceeded mlimit d (iters l0 + 1)) eqn:E; [|discriminate].
    intros H. injection H as <-. exact E.
  Qed.
End Sim.

(* ========================================================================================== *)
(* 2. the published theorems *)

Theorem limits_prefix : forall pick m interval clock mlimit giveup resume fuel depth ps s best l sols b l' why d all ball,
  dfs_lim pick m interval clock mlimit giveup resume fuel depth ps s best l = LStop sols b l' why d ->
  dfs pick m fuel ps s best = SOk all ball ->
  (exists rest, all = sols ++ rest) /\ (why = SExhausted -> sols = all /\ b = ball).
Proof.
  intros pick m interval clock mlimit giveup resume fuel depth ps s best l sols b l' why d all ball H1 H2.
  pose proof (dfs_sim pick m interval clock mlimit giveup resume fuel depth ps s best l) as Hs.
  rewrite H1, H2 in Hs. split.
  - eapply sim_prefix. exact Hs.
  - intros ->. cbn in Hs. injection Hs as <- <-. auto.
Qed.

Theorem buildmem_all_entries_g : forall pick interval clock mlimit giveup late obj ps s,
  fst (solve_lim_g pick interval clock mlimit giveup true late ps s) = OMemory /\
  fst (minimize_lim_g pick interval clock mlimit giveup true late obj ps s) = OMemory /\
  enumerate_lim_g pick interval clock mlimit giveup true ps s = Some ([], 0).
Proof. intros. repeat split; reflexivity. Qed.

Theorem buildmem_all_entries : forall pick interval clock mlimit late obj ps s,
  fst (solve_lim pick interval clock mlimit true late ps s) = OMemory /\
  fst (minimize_lim pick interval clock mlimit true late obj ps s) = OMemory /\
  enumerate_lim pick interval clock mlimit true ps s = Some ([], 0).
Proof. intros. repeat split; reflexivity. Qed.

Theorem root_giveup_is_timeout : forall pick interval clock mlimit giveup late obj ps s,
  giveup ps s = true ->
  solve_lim_g pick interval clock mlimit giveup false late ps s = (OTimeout, 0) /\
  minimize_lim_g pick interval clock mlimit giveup false late obj ps s = (OTimeout, 0) /\
  enumerate_lim_g pick interval clock mlimit giveup false ps s = Some ([], 0).
Proof.
  intros pick interval clock mlimit giveup late obj ps s H.
  unfold solve_lim_g, minimize_lim_g, enumerate_lim_g, search_lim. rewrite H. cbn. auto.
Qed.

Lemma tick_never : forall interval d l w l', tick interval never None d l <> inr (w, l').
Proof.
  intros interval d l w l'. unfold tick, never, mem_exceeded. destruct (_ =? 0); discriminate.
Qed.

Lemma ok_never_nolimit : forall interval resume sols b l w d,
  ~ okres interval never None nogiveup resume (LStop sols b l (SLimit w) d).
Proof.
  intros interval resume sols b l w d [[l0 H]|[_ [ps [s H]]]].
  - exact (tick_never _ _ _ _ _ H).
  - discriminate.
Qed.

(* the weakest form: only the "limited Ok => unlimited Ok" direction needs the unlimited search
   not to run out of model fuel *)
Theorem no_limit_agrees_gen : forall pick interval ps s, 0 < interval -> solve pick ps s <> None ->
  (forall t, fst (solve_lim pick interval never None false false ps s) = OOk t <-> solve pick ps s = Some (Some t)) /\
  (fst (solve_lim pick interval never None false false ps s) = ONoSolution <-> solve pick ps s = Some None) /\
  (forall sols ck, enumerate_lim pick interval never None false ps s = Some (sols, ck) ->
     exists b, enumerate pick ps s = SOk sols b).
Proof.
  intros pick interval ps s _ Hnn. unfold solve, enumerate in *.
  split; [|split].
  - intros t. unfold solve_lim, solve_lim_g.
    pose proof (search_sim pick None interval never None nogiveup false ps s) as Hs.
    pose proof (search_ok pick None interval never None nogiveup false ps s) as Hok.
    destruct (search_lim pick None interval never None nogiveup false ps s) as [[|sols b l why d]|[t0|]]; cbn in Hs.
    + rewrite Hs. cbn. split; discriminate.
    + specialize (Hok _ eq_refl). destruct why as [|w|].
      * rewrite Hs. cbn. destruct sols; cbn; split; intros H; try discriminate; injection H as ->; reflexivity.
      * exfalso. exact (ok_never_nolimit _ _ _ _ _ _ _ Hok).
      * cbn in Hok. destruct Hok as [Hne _]. destruct sols as [|t0 r]; [congruence|]. cbn.
        destruct (search pick None ps s) as [|all ball]; [congruence|].
        destruct (Hs _ _ eq_refl) as [rest ->]. cbn.
        split; intros H; injection H as ->; reflexivity.
    + rewrite Hs. cbn. split; intros H; injection H as ->; reflexivity.
    + rewrite Hs. cbn. split; discriminate.
  - unfold solve_lim, solve_lim_g.
    pose proof (search_sim pick None interval never None nogiveup false ps s) as Hs.
    pose proof (search_ok pick None interval never None nogiveup false ps s) as Hok.
    destruct (search_lim pick None interval never None nogiveup false ps s) as [[|sols b l why d]|[t0|]]; cbn in Hs.
    + rewrite Hs. cbn. split; discriminate.
    + specialize (Hok _ eq_refl). destruct why as [|w|].
      * rewrite Hs. cbn. destruct sols; cbn; split; intros H; try discriminate; reflexivity.
      * exfalso. exact (ok_never_nolimit _ _ _ _ _ _ _ Hok).
      * cbn in Hok. destruct Hok as [Hne _]. destruct sols as [|t0 r]; [congruence|]. cbn.
        destruct (search pick None ps s) as [|all ball]; [congruence|].
        destruct (Hs _ _ eq_refl) as [rest ->]. cbn. split; discriminate.
    + rewrite Hs. cbn. split; discriminate.
    + rewrite Hs. cbn. split; reflexivity.
  - intros sols ck. unfold enumerate_lim, enumerate_lim_g.
    pose proof (search_sim pick None interval never None nogiveup true ps s) as Hs.
    pose proof (search_ok pick None interval never None nogiveup true ps s) as Hok.
    destruct (search_lim pick None interval never None nogiveup true ps s) as [[|sols0 b l why d]|[t0|]]; cbn in Hs.
    + discriminate.
    + specialize (Hok _ eq_refl). intros H. injection H as <- _. destruct why as [|w|].
      * exists b. exact Hs.
      * exfalso. exact (ok_never_nolimit _ _ _ _ _ _ _ Hok).
      * cbn in Hok. destruct Hok as [_ Hr]. discriminate.
    + intros H. injection H as <- _. eexists. exact Hs.
    + intros H. injection H as <- _. eexists. exact Hs.
Qed.

Lemma NoDup_prefix : forall (A : Type) (l1 l2 : list A), NoDup (l1 ++ l2) -> NoDup l1.
Proof.
  intros A. induction l1 as [|x l1 IH]; intros l2 H; [constructor|].
  cbn in H. inversion H; subst. constructor.
  - intros Hin. apply H2. apply in_or_app. left. exact Hin.
  - eapply IH. eassumption.
Qed.

Section Limits.
  Hypothesis leq_good : forall x y, view_ok x -> view_ok y -> good (mk_leq x y).
  Hypothesis gt_good  : forall x y, view_ok x -> view_ok y -> good (mk_gt x y).
  Hypothesis lt_good  : forall x y, view_ok x -> view_ok y -> good (mk_lt x y).

  Theorem no_limit_agrees : forall pick interval ps s,
    Forall good ps -> scoped ps (length s) -> wf_store s -> 0 < interval ->
    (forall t, fst (solve_lim pick interval never None false false ps s) = OOk t <-> solve pick ps s = Some (Some t)) /\
    (fst (solve_lim pick interval never None false false ps s) = ONoSolution <-> solve pick ps s = Some None) /\
    (forall sols ck, enumerate_lim pick interval never None false ps s = Some (sols, ck) ->
       exists b, enumerate pick ps s = SOk sols b).
  Proof using leq_good gt_good lt_good.
    intros pick interval ps s Hg Hsc Hwf Hi. apply no_limit_agrees_gen; [exact Hi|].
    apply (solve_total leq_good gt_good lt_good); assumption.
  Qed.

  Theorem enumerate_lim_genuine_g : forall pick interval clock mlimit giveup buildmem ps s sols ck,
    Forall good ps -> scoped ps (length s) -> wf_store s ->
    enumerate_lim_g pick interval clock mlimit giveup buildmem ps s = Some (sols, ck) ->
    NoDup sols /\ forall t, In t sols -> all_fixed t = true /\ sub_store t s /\ sol ps s (asg_of t).
  Proof using leq_good gt_good lt_good.
    intros pick interval clock mlimit giveup buildmem ps s sols ck Hg Hsc Hwf H.
    unfold enumerate_lim_g in H.
    destruct buildmem; [injection H as <- _; split; [constructor|intros t []]|].
    pose proof (enumerate_terminates leq_good gt_good lt_good pick ps s Hg Hsc Hwf) as Ht.
    destruct (enumerate pick ps s) as [|all ball] eqn:E; [congruence|].
    destruct (enumerate_exact leq_good gt_good lt_good pick ps s all ball Hg Hsc Hwf E) as [Hnd [Hsat _]].
    unfold enumerate in E.
    pose proof (search_sim pick None interval clock mlimit giveup true ps s) as Hs.
    assert (Hpre : exists rest, all = sols ++ rest).
    { destruct (search_lim pick None interval clock mlimit giveup true ps s) as [[|sols0 b l why d]|[t0|]];
        cbn in Hs; rewrite E in Hs.
      - discriminate.
      - injection H as <- _. exact (sim_prefix sols0 b l why d all ball Hs).
      - injection H as <- _. injection Hs as -> _. exists []. reflexivity.
      - injection H as <- _. exists all. reflexivity. }
    destruct Hpre as [rest ->]. split.
    - eapply NoDup_prefix. exact Hnd.
    - intros t Ht'. apply Hsat. apply in_or_app. left. exact Ht'.
  Qed.

  Theorem solve_lim_correct_g : forall pick interval clock mlimit giveup buildmem late ps s o ck,
    Forall good ps -> scoped ps (length s) -> wf_store s -> 0 < interval ->
    solve_lim_g pick interval clock mlimit giveup buildmem late ps s = (o, ck) ->
    match o with
    | OOk t => all_fixed t = true /\ sub_store t s /\ sol ps s (asg_of t)
    | ONoSolution => forall a, ~ sol ps s a
    | OTimeout | OMemory => True
    | OFuelOut => False
    end.
  Proof using leq_good gt_good lt_good.
    intros pick interval clock mlimit giveup buildmem late ps s o ck Hg Hsc Hwf _ H.
    unfold solve_lim_g in H. destruct buildmem; [injection H as <- _; exact I|].
    pose proof (enumerate_terminates leq_good gt_good lt_good pick ps s Hg Hsc Hwf) as Ht.
    assert (Hyes : forall t r b, search pick None ps s = SOk (t :: r) b ->
                     all_fixed t = true /\ sub_store t s /\ sol ps s (asg_of t)).
    { intros t r b E. apply (solve_result_satisfies leq_good gt_good lt_good pick ps s t Hg Hsc Hwf).
      unfold solve, enumerate. rewrite E. reflexivity. }
    assert (Hno : forall b, search pick None ps s = SOk [] b -> forall a, ~ sol ps s a).
    { intros b E. apply (solve_nosol_sound leq_good gt_good lt_good pick ps s Hg Hsc Hwf).
      unfold solve, enumerate. rewrite E. reflexivity. }
    unfold enumerate in Ht.
    pose proof (search_sim pick None interval clock mlimit giveup false ps s) as Hs.
    pose proof (search_ok pick None interval clock mlimit giveup false ps s) as Hok.
    destruct (search_lim pick None interval clock mlimit giveup false ps s) as [[|sols b l why d]|[t0|]]; cbn in Hs.
    - congruence.
    - specialize (Hok _ eq_refl). injection H as <- _.
      destruct (timed_out why late) eqn:Eto; [exact I|].
      destruct (mem_exceeded mlimit d (iters l)) eqn:Em; [exact I|].
      destruct (search pick None ps s) as [|all ball] eqn:E; [congruence|].
      destruct sols as [|t r].
      + destruct why as [|w|].
        * eapply Hno. exact Hs.
        * exfalso. destruct w; [discriminate|]. cbn in Hok. destruct Hok as [[l0 Hl0]|[Hw _]]; [|discriminate].
          apply tick_memory_reeval in Hl0. congruence.
        * exfalso. cbn in Hok. destruct Hok as [Hne _]. congruence.
      + destruct (sim_prefix (t :: r) b l why d all ball Hs) as [rest ->]. eapply Hyes. reflexivity.
    - injection H as <- _. eapply Hyes. exact Hs.
    - injection H as <- _. eapply Hno. exact Hs.
  Qed.

  Theorem minimize_lim_correct_g : forall pick interval clock mlimit giveup buildmem late obj ps s o ck,
    Forall good ps -> scoped ps (length s) -> wf_store s -> view_ok obj -> 0 < interval ->
    (forall x, uvar obj = Some x -> (x < length s)%nat) ->
    minimize_lim_g pick interval clock mlimit giveup buildmem late obj ps s = (o, ck) ->
    match o with
    | OOk t => sol ps s (asg_of t) /\ forall a, sol ps s a -> vsem obj (asg_of t) <= vsem obj a
    | ONoSolution => forall a, ~ sol ps s a
    | OTimeout | OMemory => True
    | OFuelOut => False
    end.
  Proof using leq_good gt_good lt_good.
    intros pick interval clock mlimit giveup buildmem late obj ps s o ck Hg Hsc Hwf Hv _ Hvs H.
    unfold minimize_lim_g in H. destruct buildmem; [injection H as <- _; exact I|].
    destruct (minimize_ok_iff_sat leq_good gt_good lt_good pick obj ps s Hg Hsc Hwf Hv) as [Hiff Ht].
    pose proof (minimize_optimal leq_good gt_good lt_good pick obj ps s) as Hopt.
    unfold minimize in Ht, Hiff, Hopt.
    pose proof (search_sim pick (Some obj) interval clock mlimit giveup true ps s) as Hs.
    pose proof (search_ok pick (Some obj) interval clock mlimit giveup true ps s) as Hok.
    destruct (search_lim pick (Some obj) interval clock mlimit giveup true ps s) as [[|sols b l why d]|[t0|]]; cbn in Hs.
    - rewrite Hs in Ht. congruence.
    - specialize (Hok _ eq_refl). injection H as <- _.
      destruct (timed_out why late) eqn:Eto; [exact I|].
      destruct (mem_exceeded mlimit d (iters l)) eqn:Em; [exact I|].
      destruct why as [|w|].
      + rewrite Hs in Hiff, Hopt.
        destruct (last (map Some sols) None) as [t|] eqn:El.
        * apply Hopt; try assumption. reflexivity.
        * apply Hiff. reflexivity.
      + exfalso. destruct w; [discriminate|]. cbn in Hok. destruct Hok as [[l0 Hl0]|[Hw _]]; [|discriminate].
        apply tick_memory_reeval in Hl0. congruence.
      + exfalso. cbn in Hok. destruct Hok as [_ Hr]. discriminate.
    - injection H as <- _. rewrite Hs in Hopt. apply Hopt; try assumption. reflexivity.
    - injection H as <- _. rewrite Hs in Hiff. apply Hiff. reflexivity.
  Qed.

  (* the statements under the periodic limit test alone (the entry points the differential runs) *)
  Theorem enumerate_lim_genuine : forall pick interval clock mlimit buildmem ps s sols ck,
    Forall good ps -> scoped ps (length s) -> wf_store s ->
    enumerate_lim pick interval clock mlimit buildmem ps s = Some (sols, ck) ->
    NoDup sols /\ forall t, In t sols -> all_fixed t = true /\ sub_store t s /\ sol ps s (asg_of t).
  Proof using leq_good gt_good lt_good.
    intros pick interval clock mlimit buildmem. exact (enumerate_lim_genuine_g pick interval clock mlimit nogiveup buildmem).
  Qed.

  Theorem solve_lim_correct : forall pick interval clock mlimit buildmem late ps s o ck,
    Forall good ps -> scoped ps (length s) -> wf_store s -> 0 < interval ->
    solve_lim pick interval clock mlimit buildmem late ps s = (o, ck) ->
    match o with
    | OOk t => all_fixed t = true /\ sub_store t s /\ sol ps s (asg_of t)
    | ONoSolution => forall a, ~ sol ps s a
    | OTimeout | OMemory => True
    | OFuelOut => False
    end.
  Proof using leq_good gt_good lt_good.
    intros pick interval clock mlimit buildmem late. exact (solve_lim_correct_g pick interval clock mlimit nogiveup buildmem late).
  Qed.

  Theorem minimize_lim_correct : forall pick interval clock mlimit buildmem late obj ps s o ck,
    Forall good ps -> scoped ps (length s) -> wf_store s -> view_ok obj -> 0 < interval ->
    (forall x, uvar obj = Some x -> (x < length s)%nat) ->
    minimize_lim pick interval clock mlimit buildmem late obj ps s = (o, ck) ->
    match o with
    | OOk t => sol ps s (asg_of t) /\ forall a, sol ps s a -> vsem obj (asg_of t) <= vsem obj a
    | ONoSolution => forall a, ~ sol ps s a
    | OTimeout | OMemory => True
    | OFuelOut => False
    end.
  Proof using leq_good gt_good lt_good.
    intros pick interval clock mlimit buildmem late. exact (minimize_lim_correct_g pick interval clock mlimit nogiveup buildmem late).
  Qed.
End Limits.
