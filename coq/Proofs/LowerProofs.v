(* Proofs about the Model-level API and its lowering (Model/Api.v, Model/Lower.v): constant
   folding, linear normalisation, and the denotation of the lowered propagator set. *)
Require Import Selen.Model.Prelude Selen.Model.Dom Selen.Model.Views Selen.Model.PropDefs.
Require Import Selen.Model.Props.Basic Selen.Model.Props.LinInt Selen.Model.Props.Logic Selen.Model.Api Selen.Model.Lower.
Require Import Selen.Proofs.SparseSetProofs Selen.Proofs.DomProofs.
Require Export Selen.Proofs.EBoundsSound.   (* escoped, ebounds_sound, aux_dom_sound *)

(* ============================================================================================ *)
(* A. constant folding and identity elimination preserve the arithmetic reading                  *)
(* ============================================================================================ *)
Lemma e_add_correct : forall x y a, eval_expr (e_add x y) a = eval_expr (EAdd x y) a.
Proof. intros x y a; destruct x, y; reflexivity. Qed.
Lemma e_sub_correct : forall x y a, eval_expr (e_sub x y) a = eval_expr (ESub x y) a.
Proof. intros x y a; destruct x, y; reflexivity. Qed.

Lemma is_one_val : forall e, is_one e = true -> e = EVal 1.
Proof. intros e H; destruct e; try discriminate; simpl in H; apply Z.eqb_eq in H; subst; reflexivity. Qed.

Lemma e_mul_correct : forall x y a, eval_expr (e_mul x y) a = eval_expr (EMul x y) a.
Proof.
  intros x y a.
  assert (G : eval_expr (if is_one y then x else if is_one x then y else EMul x y) a = eval_expr (EMul x y) a).
  { destruct (is_one y) eqn:Ey.
    - apply is_one_val in Ey; subst y; simpl. destruct (eval_expr x a); simpl; [f_equal; lia|reflexivity].
    - destruct (is_one x) eqn:Ex; [|reflexivity].
      apply is_one_val in Ex; subst x; cbn [eval_expr obind]. destruct (eval_expr y a); cbn [obind]; [f_equal; lia|reflexivity]. }
  destruct x, y; try exact G; reflexivity.
Qed.

Theorem fold_correct : forall e a, eval_expr (fold e) a = eval_expr e a.
Proof.
  induction e; intro a; simpl; try reflexivity.
  - rewrite e_add_correct; simpl; rewrite IHe1, IHe2; reflexivity.
  - rewrite e_sub_correct; simpl; rewrite IHe1, IHe2; reflexivity.
  - rewrite e_mul_correct; simpl; rewrite IHe1, IHe2; reflexivity.
  - rewrite IHe1, IHe2; reflexivity.
Qed.

Theorem fold_cons_correct : forall c a, eval_cons (fold_cons c) a = eval_cons c a.
Proof.
  induction c; intro a; simpl; try reflexivity.
  - rewrite !fold_correct; reflexivity.
  - rewrite IHc1, IHc2; reflexivity.
  - rewrite IHc1, IHc2; reflexivity.
  - rewrite IHc; reflexivity.
Qed.

(* ============================================================================================ *)
(* B. linear normalisation                                                                       *)
(* ============================================================================================ *)
Lemma lin_val_pairs : forall t a, lin_val (map fst t) (map snd t) a = lin_sem t a.
Proof. induction t as [|[c v] r IH]; intro a; simpl; [reflexivity|rewrite IH; reflexivity]. Qed.

Lemma lin_val_combine : forall cs xs a, lin_val cs xs a = lin_sem (combine cs xs) a.
Proof. induction cs; destruct xs; intro; simpl; try reflexivity. rewrite IHcs; reflexivity. Qed.

Lemma merge1_sem : forall f g, (forall c0 c, f c0 c = c0 + g c) ->
  forall l c v a, lin_sem (merge1 f g l c v) a = lin_sem l a + g c * a v.
Proof.
  intros f g Hf; induction l as [|[c0 v0] r IH]; intros c v a; simpl.
  - lia.
  - destruct (Nat.eqb v0 v) eqn:E; simpl.
    + apply Nat.eqb_eq in E; subst. rewrite Hf. lia.
    + rewrite IH. lia.
Qed.

Lemma merge_sem : forall f g, (forall c0 c, f c0 c = c0 + g c) ->
  forall r l a, lin_sem (merge f g l r) a = lin_sem l a + lin_sem (map (fun p => (g (fst p), snd p)) r) a.
Proof.
  intros f g Hf; unfold merge; induction r as [|[c v] r IH]; intros l a; simpl.
  - lia.
  - rewrite IH, (merge1_sem f g Hf). simpl. lia.
Qed.

Lemma lin_sem_map_id : forall r a, lin_sem (map (fun p => (fst p, snd p)) r) a = lin_sem r a.
Proof. induction r as [|[c v] r IH]; intro; simpl; [reflexivity|rewrite IH; reflexivity]. Qed.
Lemma lin_sem_map_opp : forall r a, lin_sem (map (fun p => (- fst p, snd p)) r) a = - lin_sem r a.
Proof. induction r as [|[c v] r IH]; intro; cbn [map lin_sem fst snd]; [reflexivity|rewrite IH; ring]. Qed.

Lemma merge_add_sem : forall l r a, lin_sem (merge Z.add (fun c => c) l r) a = lin_sem l a + lin_sem r a.
Proof. intros; rewrite merge_sem by (intros; reflexivity). rewrite lin_sem_map_id; reflexivity. Qed.
Lemma merge_sub_sem : forall l r a, lin_sem (merge Z.sub Z.opp l r) a = lin_sem l a - lin_sem r a.
Proof. intros; rewrite merge_sem by (intros; lia). rewrite lin_sem_map_opp; lia. Qed.

(* try_extract_linear_form: whenever it returns, sum c_i * a(x_i) + k is the value of e *)
Theorem linearise_correct : forall e t k a, linform e = Some (t, k) -> eval_expr e a = Some (lin_sem t a + k).
Proof.
  induction e; intros t k a H; simpl in H.
  - inversion H; subst; cbn [eval_expr lin_sem]. f_equal; ring.
  - inversion H; subst; cbn [eval_expr lin_sem]. reflexivity.
  - destruct (linform e1) as [[t1 k1]|] eqn:E1; [|discriminate].
    destruct (linform e2) as [[t2 k2]|] eqn:E2; [|discriminate].
    cbn [obind fst snd] in H; inversion H; subst; cbn [eval_expr].
    rewrite (IHe1 _ _ a eq_refl), (IHe2 _ _ a eq_refl); cbn [obind]. rewrite merge_add_sem. f_equal; ring.
  - destruct (linform e1) as [[t1 k1]|] eqn:E1; [|discriminate].
    destruct (linform e2) as [[t2 k2]|] eqn:E2; [|discriminate].
    cbn [obind fst snd] in H; inversion H; subst; cbn [eval_expr].
    rewrite (IHe1 _ _ a eq_refl), (IHe2 _ _ a eq_refl); cbn [obind]. rewrite merge_sub_sem. f_equal; ring.
  - destruct e1, e2; try discriminate; inversion H; subst; cbn [eval_expr obind lin_sem]; f_equal; ring.
  - discriminate.
Qed.

Lemma cmp_sem_shift : forall op p q s, cmp_sem op (p - s) (q - s) = cmp_sem op p q.
Proof.
  intros op p q s; destruct op; simpl;
  repeat match goal with
  | |- context [?x =? ?y] => destruct (Z.eqb_spec x y)
  | |- context [?x <? ?y] => destruct (Z.ltb_spec x y)
  | |- context [?x <=? ?y] => destruct (Z.leb_spec x y)
  end; try reflexivity; lia.
Qed.

(* try_convert_to_linear_ast preserves the meaning of the comparison *)
Theorem to_linear_correct : forall c a, eval_cons (to_linear c) a = eval_cons c a.
Proof.
  intros c a; destruct c; try reflexivity. simpl.
  destruct (linform l) as [[t1 k1]|] eqn:E1; [|reflexivity].
  destruct (linform r) as [[t2 k2]|] eqn:E2; [|reflexivity].
  simpl. rewrite (linearise_correct _ _ _ a E1), (linearise_correct _ _ _ a E2); simpl.
  rewrite lin_val_pairs, merge_sub_sem. f_equal.
  rewrite <- (cmp_sem_shift op (lin_sem t1 a + k1) (lin_sem t2 a + k2) (lin_sem t2 a + k1)).
  f_equal; lia.
Qed.

(* spellings: the fluent tree, its stored linear form and the lin_* posting of the same
   coefficients mean the same relation *)
Theorem spellings_agree_eval : forall l op r a,
  eval_cons (to_linear (fold_cons (CBin l op r))) a = eval_cons (CBin l op r) a.
Proof. intros; rewrite to_linear_correct, fold_cons_correct; reflexivity. Qed.

(* ============================================================================================ *)
(* C. what the lowered propagator set denotes                                                    *)
(* ============================================================================================ *)
Definition agree (n : nat) (a a' : asg) : Prop := forall v, (v < n)%nat -> a' v = a v.
Definition allsat (ps : list pdesc) (a : asg) : Prop := forall p, In p ps -> psat p a = true.
Definition upd (a : asg) (v : nat) (x : Z) : asg := fun u => if Nat.eqb u v then x else a u.

Lemma agree_refl : forall n a, agree n a a. Proof. intros n a v _; reflexivity. Qed.
Lemma agree_trans : forall n m a b c, (n <= m)%nat -> agree n a b -> agree m b c -> agree n a c.
Proof. intros n m a b c L H1 H2 v Hv. rewrite H2 by lia. apply H1; exact Hv. Qed.
Lemma agree_le : forall n m a b, (n <= m)%nat -> agree m a b -> agree n a b.
Proof. intros n m a b L H v Hv; apply H; lia. Qed.
Lemma agree_sym : forall n a b, agree n a b -> agree n b a.
Proof. intros n a b H v Hv; symmetry; apply H; exact Hv. Qed.
Lemma agree_upd : forall n a v x, (n <= v)%nat -> agree n a (upd a v x).
Proof. intros n a v x L u Hu; unfold upd. destruct (Nat.eqb_spec u v); [lia|reflexivity]. Qed.
Lemma upd_same : forall a v x, upd a v x v = x.
Proof. intros; unfold upd; rewrite Nat.eqb_refl; reflexivity. Qed.

Lemma allsat_app : forall p q a, allsat (p ++ q) a <-> allsat p a /\ allsat q a.
Proof.
  intros p q a; unfold allsat; split.
  - intro H; split; intros x Hx; apply H; apply in_or_app; auto.
  - intros [H1 H2] x Hx; apply in_app_or in Hx; destruct Hx; auto.
Qed.
Lemma allsat_one : forall p a, allsat [p] a <-> psat p a = true.
Proof. intros p a; unfold allsat; split; [intro H; apply H; left; reflexivity|intros H x [<-|[]]; exact H]. Qed.
Lemma allsat_nil : forall a, allsat [] a. Proof. intros a p []. Qed.

(* ---- scoping: which variables a view / description / expression / constraint mentions ---- *)
Definition vscoped (n : nat) (w : view) : Prop := match uvar w with Some v => (v < n)%nat | None => True end.
Definition pscoped (n : nat) (p : pdesc) : Prop :=
  match p with
  | PAdd x y s | PMul x y s | PMod x y s => vscoped n x /\ vscoped n y /\ (s < n)%nat
  | PLeq x y | PEq x y | PNeq x y => vscoped n x /\ vscoped n y
  | PLinEq _ xs _ | PLinLe _ xs _ | PLinNe _ xs _ => Forall (fun v => (v < n)%nat) xs
  | PCmpR _ x y b => (x < n)%nat /\ (y < n)%nat /\ (b < n)%nat
  | PLinEqR _ xs _ b | PLinLeR _ xs _ b | PLinNeR _ xs _ b => Forall (fun v => (v < n)%nat) xs /\ (b < n)%nat
  | PAndR xs r | POrR xs r => Forall (fun v => (v < n)%nat) xs /\ (r < n)%nat
  | PNotR o r => (o < n)%nat /\ (r < n)%nat
  end.
Fixpoint cscoped (n : nat) (c : cons) : Prop :=
  match c with
  | CBin l _ r => escoped n l /\ escoped n r
  | CAnd p q | COr p q => cscoped n p /\ cscoped n q
  | CNot p => cscoped n p
  | CLinInt _ xs _ _ => Forall (fun v => (v < n)%nat) xs
  end.

Lemma vscoped_le : forall n m w, (n <= m)%nat -> vscoped n w -> vscoped m w.
Proof. intros n m w L; unfold vscoped; destruct (uvar w); [lia|auto]. Qed.
Lemma Forall_lt_le : forall n m xs, (n <= m)%nat -> Forall (fun v => (v < n)%nat) xs -> Forall (fun v => (v < m)%nat) xs.
Proof. intros n m xs L H; eapply Forall_impl; [|exact H]; intros; simpl in *; lia. Qed.
Lemma pscoped_le : forall n m p, (n <= m)%nat -> pscoped n p -> pscoped m p.
Proof.
  intros n m p L; destruct p; simpl; intros H;
  repeat match goal with H : _ /\ _ |- _ => destruct H end;
  repeat split; eauto using vscoped_le, Forall_lt_le; lia.
Qed.
Lemma Forall_pscoped_le : forall n m ps, (n <= m)%nat -> Forall (pscoped n) ps -> Forall (pscoped m) ps.
Proof. intros n m ps L H; eapply Forall_impl; [|exact H]; intros; eapply pscoped_le; eauto. Qed.
Lemma escoped_le : forall n m e, (n <= m)%nat -> escoped n e -> escoped m e.
Proof. intros n m e L; induction e; simpl; intros; try tauto; lia. Qed.
Lemma cscoped_le : forall n m c, (n <= m)%nat -> cscoped n c -> cscoped m c.
Proof.
  intros n m c L; induction c; simpl; intros; try tauto.
  - destruct H; split; eapply escoped_le; eauto.
  - eapply Forall_lt_le; eauto.
Qed.

Lemma vsem_agree : forall n a a' w, vscoped n w -> agree n a a' -> vsem w a' = vsem w a.
Proof.
  intros n a a' w; unfold vscoped; induction w; simpl; intros Hs Ha; try (rewrite IHw by assumption; reflexivity).
  - apply Ha; exact Hs.
  - reflexivity.
Qed.

Lemma lin_sem_agree : forall n a a' cs xs, Forall (fun v => (v < n)%nat) xs -> agree n a a' ->
  lin_sem (combine cs xs) a' = lin_sem (combine cs xs) a.
Proof.
  intros n a a'; induction cs; destruct xs; simpl; intros H Ha; try reflexivity.
  inversion H; subst. rewrite IHcs by assumption. rewrite (Ha n0) by assumption. reflexivity.
Qed.

Lemma forallb_tr_agree : forall n a a' xs, Forall (fun v => (v < n)%nat) xs -> agree n a a' ->
  forallb (fun x => tr (a' x)) xs = forallb (fun x => tr (a x)) xs.
Proof. intros n a a' xs H Ha; induction H; simpl; [reflexivity|]. rewrite (Ha x H), IHForall; reflexivity. Qed.
Lemma existsb_tr_agree : forall n a a' xs, Forall (fun v => (v < n)%nat) xs -> agree n a a' ->
  existsb (fun x => tr (a' x)) xs = existsb (fun x => tr (a x)) xs.
Proof. intros n a a' xs H Ha; induction H; simpl; [reflexivity|]. rewrite (Ha x H), IHForall; reflexivity. Qed.

Lemma psat_agree : forall n a a' p, pscoped n p -> agree n a a' -> psat p a' = psat p a.
Proof.
  intros n a a' p Hs Ha; destruct p; simpl in *;
  repeat match goal with H : _ /\ _ |- _ => destruct H end;
  try (match goal with H : Forall _ ?xs |- context [forallb _ ?xs] => rewrite (forallb_tr_agree n a a' xs H Ha); clear H end);
  try (match goal with H : Forall _ ?xs |- context [existsb _ ?xs] => rewrite (existsb_tr_agree n a a' xs H Ha); clear H end);
  repeat match goal with
  | H : vscoped n ?w |- _ => rewrite (vsem_agree n a a' w H Ha); clear H
  | H : (?s < n)%nat |- _ => rewrite (Ha s H); clear H
  | H : Forall _ ?xs |- _ => rewrite (lin_sem_agree n a a' _ xs H Ha); clear H
  end; reflexivity.
Qed.
Lemma allsat_agree : forall n a a' ps, Forall (pscoped n) ps -> agree n a a' -> allsat ps a -> allsat ps a'.
Proof.
  intros n a a' ps Hs Ha H p Hp. rewrite Forall_forall in Hs.
  rewrite (psat_agree n a a' p (Hs p Hp) Ha). apply H; exact Hp.
Qed.

Lemma eval_agree : forall n a a' e, escoped n e -> agree n a a' -> eval_expr e a' = eval_expr e a.
Proof.
  intros n a a'; induction e; simpl; intros Hs Ha;
  try (destruct Hs; rewrite IHe1, IHe2 by assumption; reflexivity).
  - rewrite (Ha v Hs); reflexivity.
  - reflexivity.
Qed.
Lemma lin_val_agree : forall n a a' cs xs, Forall (fun v => (v < n)%nat) xs -> agree n a a' -> lin_val cs xs a' = lin_val cs xs a.
Proof. intros; rewrite !lin_val_combine; eapply lin_sem_agree; eauto. Qed.

Lemma or_eq_pattern_some : forall p q x l r, or_eq_pattern p q = Some (x, l, r) ->
  p = CBin (EVar x) OEq (EVal l) /\ q = CBin (EVar x) OEq (EVal r).
Proof.
  intros p q x l r H; unfold or_eq_pattern in H.
  destruct p as [l1 o1 r1| | | |]; try discriminate. destruct l1; try discriminate. destruct o1; try discriminate.
  destruct r1; try discriminate.
  destruct q as [l2 o2 r2| | | |]; try discriminate. destruct l2; try discriminate. destruct o2; try discriminate.
  destruct r2; try discriminate.
  destruct (Nat.eqb_spec v v0); [|discriminate]. inversion H; subst; auto.
Qed.

Lemma evalc_agree : forall n a a' c, cscoped n c -> agree n a a' -> eval_cons c a' = eval_cons c a.
Proof.
  intros n a a'; induction c; simpl; intros Hs Ha.
  - destruct Hs as [H1 H2].
    rewrite (eval_agree n a a' l H1 Ha), (eval_agree n a a' r H2 Ha). reflexivity.
  - destruct Hs; rewrite IHc1, IHc2 by assumption; reflexivity.
  - destruct Hs; rewrite IHc1, IHc2 by assumption; reflexivity.
  - rewrite IHc by assumption; reflexivity.
  - rewrite (lin_val_agree n a a' cs xs Hs Ha); reflexivity.
Qed.
Lemma holds_agree : forall n a a' c, cscoped n c -> agree n a a' -> holds c a' = holds c a.
Proof. intros n a a' c Hs Ha; unfold holds. rewrite (evalc_agree n a a' c Hs Ha). reflexivity. Qed.

Lemma impl_agree : forall n a a' c, cscoped n c -> agree n a a' -> impl_cons c a' = impl_cons c a.
Proof.
  intros n a a'; induction c; intros Hs Ha.
  - simpl in *. destruct Hs as [H1 H2].
    rewrite (eval_agree n a a' l H1 Ha), (eval_agree n a a' r H2 Ha).
    reflexivity.
  - simpl in *. destruct Hs; rewrite IHc1, IHc2 by assumption; reflexivity.
  - cbn [impl_cons]. apply (holds_agree n a a' _ Hs Ha).
  - cbn [impl_cons]. apply (holds_agree n a a' _ Hs Ha).
  - simpl in *. rewrite (lin_val_agree n a a' cs xs Hs Ha); reflexivity.
Qed.
Lemma impl_prefix_agree : forall n a a' c, cscoped n c -> agree n a a' -> impl_cons_prefix c a' = impl_cons_prefix c a.
Proof.
  intros n a a'; induction c; simpl; intros Hs Ha.
  - destruct Hs as [H1 H2].
    rewrite (eval_agree n a a' l H1 Ha), (eval_agree n a a' r H2 Ha).
    reflexivity.
  - destruct Hs; rewrite IHc1, IHc2 by assumption; reflexivity.
  - destruct Hs as [H1 H2]. destruct (or_eq_pattern c1 c2) as [[[x l] r]|] eqn:E.
    + apply or_eq_pattern_some in E; destruct E as [-> ->]. simpl in H1. destruct H1 as [H1 _]. rewrite (Ha x H1); reflexivity.
    + rewrite IHc1, IHc2 by assumption; reflexivity.
  - apply IHc; assumption.
  - rewrite (lin_val_agree n a a' cs xs Hs Ha); reflexivity.
Qed.

(* ---- stores ---- *)
Lemma sget_app_old : forall (s : store) d v, (v < length s)%nat -> sget (s ++ [d]) v = sget s v.
Proof. intros; unfold sget; apply app_nth1; assumption. Qed.
Lemma sget_app_new : forall (s : store) d, sget (s ++ [d]) (length s) = d.
Proof. intros; unfold sget; rewrite app_nth2 by lia. rewrite Nat.sub_diag; reflexivity. Qed.

Lemma inst_app : forall a (s : store) d, inst a (s ++ [d]) <-> inst a s /\ In (a (length s)) d.
Proof.
  intros a s d; unfold inst; rewrite app_length; simpl; split.
  - intro H; split.
    + intros v Hv. rewrite <- (sget_app_old s d v Hv). apply H; lia.
    + rewrite <- (sget_app_new s d). apply H; lia.
  - intros [H1 H2] v Hv. destruct (Nat.eq_dec v (length s)) as [->|Hne].
    + rewrite sget_app_new; exact H2.
    + rewrite sget_app_old by lia. apply H1; lia.
Qed.

Lemma inst_agree : forall a a' (s : store), agree (length s) a a' -> inst a s -> inst a' s.
Proof. intros a a' s Ha H v Hv. rewrite (Ha v Hv). apply H; exact Hv. Qed.

Lemma drange_In : forall lo hi x, In x (drange lo hi) <-> lo <= x <= hi.
Proof. intros; unfold drange; rewrite zrange_In; lia. Qed.

Lemma memZ_In : forall x l, memZ x l = true <-> In x l.
Proof.
  intros x l; unfold memZ; rewrite existsb_exists; split.
  - intros [y [Hy E]]; apply Z.eqb_eq in E; subst; exact Hy.
  - intro H; exists x; split; [exact H|apply Z.eqb_refl].
Qed.
Lemma only_In : forall k d x, In x (only k d) <-> x = k /\ In k d.
Proof.
  intros k d x; unfold only; destruct (memZ k d) eqn:E.
  - apply memZ_In in E; simpl; split; [intros [<-|[]]; auto|intros [-> _]; auto].
  - split; [intros []|intros [_ H]; apply memZ_In in H; congruence].
Qed.

Lemma inst_supd : forall a (s : store) v d, (v < length s)%nat ->
  (inst a (supd s v d) <-> (forall u, (u < length s)%nat -> u <> v -> In (a u) (sget s u)) /\ In (a v) d).
Proof.
  intros a s v d Hv; unfold inst; rewrite supd_length; split.
  - intro H; split.
    + intros u Hu Hne. rewrite <- (sget_supd_other s v u d Hne). apply H; exact Hu.
    + rewrite <- (sget_supd_same s v d Hv). apply H; exact Hv.
  - intros [H1 H2] u Hu. destruct (Nat.eq_dec u v) as [->|Hne].
    + rewrite sget_supd_same by assumption; exact H2.
    + rewrite sget_supd_other by assumption. apply H1; assumption.
Qed.

(* ---- no empty domain: the in-range condition (Model/Lower.v doms_nonempty).  An auxiliary variable
   whose computed range is too large is represented by the empty domain (aux_dom); the completeness
   half of every step below is about final stores without an empty domain ---- *)
Definition ne (s : store) : Prop := forall v, (v < length s)%nat -> sget s v <> [].

Lemma inst_ne : forall a (s : store), inst a s -> ne s.
Proof. intros a s H v Hv E. specialize (H v Hv). rewrite E in H. exact H. Qed.
Lemma ne_app : forall (s : store) d, ne (s ++ [d]) -> ne s /\ d <> [].
Proof.
  intros s d H; split.
  - intros v Hv. rewrite <- (sget_app_old s d v Hv). apply H. rewrite app_length; simpl; lia.
  - rewrite <- (sget_app_new s d). apply H. rewrite app_length; simpl; lia.
Qed.
Lemma ne_supd_only : forall (s : store) v k, (v < length s)%nat -> ne (supd s v (only k (sget s v))) -> ne s.
Proof.
  intros s v k Hv H u Hu. destruct (Nat.eq_dec u v) as [->|Hne].
  - specialize (H v). rewrite supd_length in H. specialize (H Hv). rewrite sget_supd_same in H by exact Hv.
    unfold only in H. destruct (memZ k (sget s v)) eqn:E; [|congruence].
    apply memZ_In in E. intro E0. rewrite E0 in E. exact E.
  - specialize (H u). rewrite supd_length in H. specialize (H Hu). rewrite sget_supd_other in H by exact Hne. exact H.
Qed.
Lemma doms_nonempty_ne : forall s : store, doms_nonempty s = true <-> ne s.
Proof.
  intro s; unfold doms_nonempty; rewrite forallb_forall; split.
  - intros H v Hv E. assert (Hin : In (sget s v) s) by (unfold sget; apply nth_In; exact Hv).
    specialize (H _ Hin). rewrite E in H. discriminate H.
  - intros H d Hd. apply (In_nth _ _ []) in Hd. destruct Hd as [v [Hv E]].
    destruct d; [|reflexivity]. exfalso. apply (H v Hv). exact E.
Qed.

(* ---- a lowering step from st to st' that adds exactly the constraint P ---- *)
Record step (st st' : lst) (P : asg -> Prop) : Prop := mkstep {
  st_n : (nvars st <= nvars st')%nat;
  st_ne : ne (fst st') -> ne (fst st);
  st_props : exists np, snd st' = snd st ++ np /\ Forall (pscoped (nvars st')) np /\
     (forall a', inst a' (fst st') -> allsat np a' -> inst a' (fst st) /\ P a') /\
     (forall a, inst a (fst st) -> P a -> ne (fst st') ->
        exists a', agree (nvars st) a a' /\ inst a' (fst st') /\ allsat np a') }.

Lemma step_refl : forall st (P : asg -> Prop), (forall a, P a) -> step st st P.
Proof.
  intros st P HP; split; [lia|auto|]. exists []; rewrite app_nil_r; repeat split; auto.
  - intros a H _ _; exists a; repeat split; auto using agree_refl, allsat_nil.
Qed.

Lemma step_weaken : forall st st' (P Q : asg -> Prop), (forall a, P a <-> Q a) -> step st st' P -> step st st' Q.
Proof.
  intros st st' P Q E [Hn Hne [np [H1 [H2 [H3 H4]]]]]; split; [exact Hn|exact Hne|].
  exists np; repeat split; auto.
  - apply (H3 a'); assumption.
  - apply E; apply (H3 a'); assumption.
  - intros a Hi Hq; apply H4; [exact Hi|apply E; exact Hq].
Qed.

(* sequencing; both constraints only mention variables that exist before the first step *)
Lemma step_trans : forall st st1 st2 (P Q : asg -> Prop),
  (forall a a', agree (nvars st) a a' -> Q a -> Q a') ->
  step st st1 P -> step st1 st2 Q -> step st st2 (fun a => P a /\ Q a).
Proof.
  intros st st1 st2 P Q HQ [Hn1 Hne1 [np1 [E1 [S1 [So1 Co1]]]]] [Hn2 Hne2 [np2 [E2 [S2 [So2 Co2]]]]].
  split; [lia|auto|]. exists (np1 ++ np2). split; [rewrite E2, E1, app_assoc; reflexivity|]. split.
  - apply Forall_app; split; [eapply Forall_pscoped_le; eauto|exact S2].
  - split.
    + intros a' Hi Hs. apply allsat_app in Hs; destruct Hs as [Hs1 Hs2].
      destruct (So2 a' Hi Hs2) as [Hi1 HQa]. destruct (So1 a' Hi1 Hs1) as [Hi0 HPa]. auto.
    + intros a Hi [HPa HQa] N2.
      destruct (Co1 a Hi HPa (Hne2 N2)) as [a1 [A1 [I1 Sat1]]].
      destruct (Co2 a1 I1 (HQ a a1 A1 HQa) N2) as [a2 [A2 [I2 Sat2]]].
      exists a2; split; [eapply agree_trans; eauto|]. split; [exact I2|].
      apply allsat_app; split; [|exact Sat2]. eapply allsat_agree; eauto.
Qed.

(* pushing one propagator whose variables all exist *)
Lemma step_push : forall st p (P : asg -> Prop), pscoped (nvars st) p ->
  (forall a, psat p a = true <-> P a) -> step st (push p st) P.
Proof.
  intros st p P Hs HP; split; [unfold nvars, push; simpl; lia|unfold push; simpl; auto|].
  exists [p]; unfold push; simpl. repeat split; auto.
  - apply HP; apply allsat_one; assumption.
  - intros a Hi Ha _; exists a; repeat split; auto using agree_refl. apply allsat_one; apply HP; exact Ha.
Qed.

(* allocating a variable with domain d and constraining nothing else: the new variable takes a
   value chosen by `pick` *)
Lemma nvars_new_var : forall d st, nvars (snd (new_var d st)) = S (nvars st).
Proof. intros; unfold new_var, nvars; simpl; rewrite app_length; simpl; lia. Qed.

(* ---- create_result_var ---- *)
Definition ext1 (st st1 : lst) (e : expr) (ev : nat) : Prop :=
  snd st1 = snd st /\
  ((is_var e = true /\ e = EVar ev /\ st1 = st) \/
   (is_var e = false /\ ev = nvars st /\ fst st1 = fst st ++ [aux_dom (fst st) e])).

Lemma alloc_ext1 : forall e st, ext1 st (snd (create_result_var e st)) e (fst (create_result_var e st)).
Proof. intros e st; destruct e; simpl; unfold ext1; simpl; auto. Qed.

(* the auxiliary variable's computed bounds contain every value of e (aux_dom_sound) *)
Lemma ext1_facts : forall st st1 e ev, ext1 st st1 e ev -> escoped (nvars st) e ->
  (ev < nvars st1)%nat /\ (nvars st <= nvars st1)%nat /\
  (forall a', inst a' (fst st1) -> inst a' (fst st)) /\
  (ne (fst st1) -> ne (fst st)) /\
  (forall a x, inst a (fst st) -> eval_expr e a = Some x -> ne (fst st1) ->
     exists a1, agree (nvars st) a a1 /\ inst a1 (fst st1) /\ a1 ev = x).
Proof.
  intros st st1 e ev [Hp [[Hv [He Hst]]|[Hv [Hev Hf]]]] Hs.
  - subst e st1. simpl in Hs. split; [exact Hs|]. split; [lia|]. split; [auto|]. split; [auto|].
    intros a x Hi Hx _. exists a; repeat split; auto using agree_refl. simpl in Hx; congruence.
  - subst ev. assert (L : nvars st1 = S (nvars st)) by (unfold nvars; rewrite Hf, app_length; simpl; lia).
    split; [lia|]. split; [lia|]. split; [|split].
    + intros a' Hi. rewrite Hf in Hi; apply inst_app in Hi. tauto.
    + intro N. rewrite Hf in N. apply ne_app in N. tauto.
    + intros a x Hi Hx N. rewrite Hf in N. apply ne_app in N. destruct N as [_ N].
      exists (upd a (nvars st) x). split; [apply agree_upd; lia|]. split.
      * rewrite Hf; apply inst_app; split.
        -- eapply inst_agree; [apply agree_upd; unfold nvars; lia|exact Hi].
        -- unfold nvars; rewrite upd_same. eapply aux_dom_sound; eauto.
      * apply upd_same.
Qed.

(* ---- post_expression_constraint ---- *)
Definition Pexpr (e : expr) (res : nat) (a : asg) : Prop := eval_expr e a = Some (a res).

Definition opt_post (rec : expr -> nat -> lst -> lst) (e : expr) (ev : nat) (st : lst) : lst :=
  if is_var e then st else rec e ev st.

Lemma bin_body_eq : forall rec l r mk st,
  bin_body rec l r mk st =
  let st1 := snd (create_result_var l st) in let lv := fst (create_result_var l st) in
  let st2 := snd (create_result_var r st1) in let rv := fst (create_result_var r st1) in
  push (mk lv rv) (opt_post rec r rv (opt_post rec l lv st2)).
Proof.
  intros; unfold bin_body, opt_post.
  destruct (create_result_var l st) as [lv st1]; simpl.
  destruct (create_result_var r st1) as [rv st2]; simpl. reflexivity.
Qed.

Section BinBody.
  Variable rec : expr -> nat -> lst -> lst.
  Variables l r : expr.
  Hypothesis IHl : forall res st, escoped (nvars st) l -> (res < nvars st)%nat -> step st (rec l res st) (Pexpr l res).
  Hypothesis IHr : forall res st, escoped (nvars st) r -> (res < nvars st)%nat -> step st (rec r res st) (Pexpr r res).

  Lemma opt_post_ok : forall e, (forall res st, escoped (nvars st) e -> (res < nvars st)%nat -> step st (rec e res st) (Pexpr e res)) ->
    forall ev st, escoped (nvars st) e -> (ev < nvars st)%nat -> (is_var e = true -> e = EVar ev) ->
    step st (opt_post rec e ev st) (Pexpr e ev).
  Proof.
    intros e IH ev st Hs Hev Hv; unfold opt_post. destruct (is_var e) eqn:E.
    - apply step_refl. intro a. rewrite (Hv eq_refl). reflexivity.
    - apply IH; assumption.
  Qed.

  Variable mk : nat -> nat -> pdesc.
  Variable opf : Z -> Z -> option Z.
  Variable res : nat.
  Hypothesis Hmk : forall lv rv a, psat (mk lv rv) a = true <-> opf (a lv) (a rv) = Some (a res).
  Hypothesis Hsc : forall n lv rv, (lv < n)%nat -> (rv < n)%nat -> (res < n)%nat -> pscoped n (mk lv rv).

  Lemma bin_body_ok : forall st, escoped (nvars st) l -> escoped (nvars st) r -> (res < nvars st)%nat ->
    step st (bin_body rec l r mk st)
      (fun a => (do p <- eval_expr l a; do q <- eval_expr r a; opf p q) = Some (a res)).
  Proof.
    intros st Hsl Hsr Hres. rewrite bin_body_eq; cbv zeta.
    pose proof (alloc_ext1 l st) as X1.
    set (st1 := snd (create_result_var l st)) in *. set (lv := fst (create_result_var l st)) in *.
    pose proof (alloc_ext1 r st1) as X2.
    set (st2 := snd (create_result_var r st1)) in *. set (rv := fst (create_result_var r st1)) in *.
    destruct (ext1_facts _ _ _ _ X1 Hsl) as [Hlv [Hn1 [So1 [N1 Co1]]]].
    assert (Hsr1 : escoped (nvars st1) r) by (eapply escoped_le; eauto).
    destruct (ext1_facts _ _ _ _ X2 Hsr1) as [Hrv [Hn2 [So2 [N2 Co2]]]].
    assert (Hsl2 : escoped (nvars st2) l) by (eapply escoped_le; [|exact Hsl]; lia).
    assert (Hlv2 : (lv < nvars st2)%nat) by lia.
    assert (Vl : is_var l = true -> l = EVar lv).
    { intro E. destruct X1 as [_ [[_ [He _]]|[F _]]]; [exact He|congruence]. }
    assert (Vr : is_var r = true -> r = EVar rv).
    { intro E. destruct X2 as [_ [[_ [He _]]|[F _]]]; [exact He|congruence]. }
    pose proof (opt_post_ok l IHl lv st2 Hsl2 Hlv2 Vl) as S3.
    set (st3 := opt_post rec l lv st2) in *.
    destruct S3 as [Hn3 N3 [np3 [E3 [Sc3 [So3 Co3]]]]].
    assert (Hsr3 : escoped (nvars st3) r) by (eapply escoped_le; [|exact Hsr]; lia).
    assert (Hrv3 : (rv < nvars st3)%nat) by lia.
    pose proof (opt_post_ok r IHr rv st3 Hsr3 Hrv3 Vr) as S4.
    set (st4 := opt_post rec r rv st3) in *.
    destruct S4 as [Hn4 N4 [np4 [E4 [Sc4 [So4 Co4]]]]].
    assert (P12 : snd st2 = snd st).
    { destruct X2 as [Q2 _]. destruct X1 as [Q1 _]. fold st1 in Q1. congruence. }
    split; [unfold push, nvars in *; simpl; lia|unfold push; cbn [fst]; auto|].
    exists (np3 ++ np4 ++ [mk lv rv]). split.
    { unfold push; simpl. rewrite E4, E3, P12, <- !app_assoc. reflexivity. }
    split.
    { unfold push, nvars; simpl. fold (nvars st4).
      apply Forall_app; split; [eapply Forall_pscoped_le; [|exact Sc3]; lia|].
      apply Forall_app; split; [exact Sc4|]. constructor; [|constructor]. apply Hsc; lia. }
    split.
    - intros a' Hi Hs. unfold push in Hi; simpl in Hi.
      apply allsat_app in Hs; destruct Hs as [Hs3 Hs]. apply allsat_app in Hs; destruct Hs as [Hs4 Hs5].
      apply allsat_one in Hs5. apply Hmk in Hs5.
      destruct (So4 a' Hi Hs4) as [Hi3 Er]. destruct (So3 a' Hi3 Hs3) as [Hi2 El].
      pose proof (So2 a' Hi2) as Hi1. pose proof (So1 a' Hi1) as Hi0.
      split; [exact Hi0|]. unfold Pexpr in El, Er. rewrite El, Er; simpl. exact Hs5.
    - intros a Hi Hev NN. unfold push in NN; cbn [fst] in NN.
      pose proof (N4 NN) as NN3. pose proof (N3 NN3) as NN2. pose proof (N2 NN2) as NN1.
      destruct (eval_expr l a) as [x|] eqn:El; [|discriminate]. destruct (eval_expr r a) as [y|] eqn:Er; [|discriminate].
      simpl in Hev.
      destruct (Co1 a x Hi El NN1) as [a1 [A1 [I1 V1]]].
      assert (Er1 : eval_expr r a1 = Some y) by (rewrite (eval_agree _ a a1 r Hsr A1); exact Er).
      destruct (Co2 a1 y I1 Er1 NN2) as [a2 [A2 [I2 V2]]].
      assert (A02 : agree (nvars st) a a2) by (eapply agree_trans; eauto).
      assert (V1' : a2 lv = x) by (rewrite (A2 lv Hlv); exact V1).
      assert (Pl : Pexpr l lv a2).
      { unfold Pexpr. rewrite (eval_agree _ a a2 l Hsl A02), V1'; exact El. }
      destruct (Co3 a2 I2 Pl NN3) as [a3 [A3 [I3 Sat3]]].
      assert (A03 : agree (nvars st) a a3) by (eapply agree_trans; [|exact A02|exact A3]; lia).
      assert (Pr : Pexpr r rv a3).
      { unfold Pexpr. rewrite (eval_agree _ a a3 r Hsr A03), (A3 rv Hrv), V2; exact Er. }
      destruct (Co4 a3 I3 Pr NN) as [a4 [A4 [I4 Sat4]]].
      assert (A04 : agree (nvars st) a a4) by (eapply agree_trans; [|exact A03|exact A4]; lia).
      exists a4. split; [exact A04|]. split; [exact I4|].
      apply allsat_app; split; [eapply allsat_agree; eauto|].
      apply allsat_app; split; [exact Sat4|]. apply allsat_one. apply Hmk.
      rewrite (A4 lv) by lia. rewrite (A3 lv) by lia. rewrite V1'.
      rewrite (A4 rv) by lia. rewrite (A3 rv) by lia. rewrite V2.
      rewrite (A04 res Hres). exact Hev.
  Qed.
End BinBody.

Lemma some_eq_iff : forall (x y : Z), Some x = Some y <-> x = y.
Proof. intros; split; [intro H; inversion H; reflexivity|intros ->; reflexivity]. Qed.

Theorem post_expr_ok : forall e res st, escoped (nvars st) e -> (res < nvars st)%nat ->
  step st (post_expr e res st) (Pexpr e res).
Proof.
  induction e; intros res st Hs Hres; cbn [post_expr].
  - apply step_push; [simpl; unfold vscoped; simpl; simpl in Hs; lia|].
    intro a; unfold Pexpr; simpl. rewrite Z.eqb_eq, some_eq_iff. tauto.
  - apply step_push; [simpl; unfold vscoped; simpl; lia|].
    intro a; unfold Pexpr; simpl. rewrite Z.eqb_eq, some_eq_iff. tauto.
  - destruct Hs as [H1 H2].
    eapply step_weaken; [|apply (bin_body_ok post_expr e1 e2 IHe1 IHe2 _ (fun p q => Some (p + q)) res); auto].
    + intro a; unfold Pexpr; simpl. tauto.
    + intros lv rv a; simpl. rewrite Z.eqb_eq, some_eq_iff. tauto.
    + intros n lv rv; simpl; unfold vscoped; simpl; auto.
  - destruct Hs as [H1 H2].
    eapply step_weaken; [|apply (bin_body_ok post_expr e1 e2 IHe1 IHe2 _ (fun p q => Some (p - q)) res); auto].
    + intro a; unfold Pexpr; simpl. tauto.
    + intros lv rv a; cbn [psat p_sub vtimes_neg vsem]. rewrite Z.eqb_eq, some_eq_iff. split; intro; lia.
    + intros n lv rv; simpl; unfold vscoped; simpl; auto.
  - destruct Hs as [H1 H2].
    eapply step_weaken; [|apply (bin_body_ok post_expr e1 e2 IHe1 IHe2 _ (fun p q => Some (p * q)) res); auto].
    + intro a; unfold Pexpr; simpl. tauto.
    + intros lv rv a; simpl. rewrite Z.eqb_eq, some_eq_iff. tauto.
    + intros n lv rv; simpl; unfold vscoped; simpl; auto.
  - destruct Hs as [H1 H2].
    eapply step_weaken; [|apply (bin_body_ok post_expr e1 e2 IHe1 IHe2 _ (fun p q => if q =? 0 then None else Some (trem p q)) res); auto].
    + intro a; unfold Pexpr; simpl. tauto.
    + intros lv rv a; simpl. destruct (a rv =? 0); simpl; [split; discriminate|].
      rewrite Z.eqb_eq, some_eq_iff. split; intro; congruence.
    + intros n lv rv; simpl; unfold vscoped; simpl; auto.
Qed.

(* create_result_var + post_expression_constraint on a non-variable expression *)
Definition gev_spec (e : expr) (st : lst) (v : nat) (st' : lst) : Prop :=
  (v < nvars st')%nat /\ (nvars st <= nvars st')%nat /\ (ne (fst st') -> ne (fst st)) /\
  exists np, snd st' = snd st ++ np /\ Forall (pscoped (nvars st')) np /\
    (forall a', inst a' (fst st') -> allsat np a' ->
        inst a' (fst st) /\ eval_expr e a' = Some (a' v)) /\
    (forall a x, inst a (fst st) -> eval_expr e a = Some x -> ne (fst st') ->
        exists a', agree (nvars st) a a' /\ inst a' (fst st') /\ allsat np a' /\ a' v = x).

Lemma alloc_post_ok : forall e st, is_var e = false -> escoped (nvars st) e ->
  gev_spec e st (fst (create_result_var e st)) (post_expr e (fst (create_result_var e st)) (snd (create_result_var e st))).
Proof.
  intros e st Hv Hs.
  pose proof (alloc_ext1 e st) as X. set (st1 := snd (create_result_var e st)) in *. set (rv := fst (create_result_var e st)) in *.
  destruct (ext1_facts _ _ _ _ X Hs) as [Hrv [Hn1 [So1 [N1 Co1]]]].
  assert (Hs1 : escoped (nvars st1) e) by (eapply escoped_le; eauto).
  destruct (post_expr_ok e rv st1 Hs1 Hrv) as [Hn2 N2 [np [E2 [Sc2 [So2 Co2]]]]].
  assert (P1 : snd st1 = snd st) by (destruct X as [Q _]; exact Q).
  split; [lia|]. split; [lia|]. split; [auto|]. exists np. split; [rewrite E2, P1; reflexivity|]. split; [exact Sc2|]. split.
  - intros a' Hi Hsat. destruct (So2 a' Hi Hsat) as [Hi1 Ev]. split; [apply So1; exact Hi1|exact Ev].
  - intros a x Hi Hx NN.
    destruct (Co1 a x Hi Hx (N2 NN)) as [a1 [A1 [I1 V1]]].
    assert (Pe : Pexpr e rv a1).
    { unfold Pexpr. rewrite (eval_agree _ a a1 e Hs A1), V1; exact Hx. }
    destruct (Co2 a1 I1 Pe NN) as [a2 [A2 [I2 Sat2]]].
    exists a2. split; [eapply agree_trans; eauto|]. split; [exact I2|]. split; [exact Sat2|]. rewrite (A2 rv Hrv); exact V1.
Qed.

(* get_expr_var: the returned variable carries the value of e *)
Lemma get_expr_var_ok : forall e st, escoped (nvars st) e ->
  gev_spec e st (fst (get_expr_var e st)) (snd (get_expr_var e st)).
Proof.
  intros e st Hs.
  destruct e as [v|c|l r|l r|l r|l r];
  try (match goal with |- gev_spec ?e _ _ _ =>
         pose proof (alloc_post_ok e st eq_refl Hs) as G; unfold gev_spec in *; exact G end).
  - simpl in *. split; [exact Hs|]. split; [lia|]. split; [auto|]. exists []; rewrite app_nil_r.
    split; [reflexivity|]. split; [constructor|]. split.
    + intros a' Hi _; auto.
    + intros a x Hi Hx _. exists a; repeat split; auto using agree_refl, allsat_nil. inversion Hx; reflexivity.
  - cbn [get_expr_var new_var fst snd]. unfold gev_spec, nvars; cbn [fst snd]. rewrite app_length; cbn [length].
    split; [lia|]. split; [lia|]. split; [intro N; apply ne_app in N; tauto|]. exists []; rewrite app_nil_r.
    split; [reflexivity|]. split; [constructor|]. split.
    + intros a' Hi _. apply inst_app in Hi. destruct Hi as [Hi Hin]. apply drange_In in Hin.
      split; [exact Hi|]. cbn [eval_expr]; f_equal; lia.
    + intros a x Hi Hx _. inversion Hx; subst x. exists (upd a (length (fst st)) c).
      split; [apply agree_upd; lia|]. split; [|split; [apply allsat_nil|apply upd_same]].
      apply inst_app; split; [eapply inst_agree; [apply agree_upd; lia|exact Hi]|].
      rewrite upd_same. apply drange_In; lia.
Qed.

Lemma p_cmp_sat : forall op x y a, psat (p_cmp op (VVar x) (VVar y)) a = cmp_sem op (a x) (a y).
Proof.
  intros op x y a; destruct op; simpl; try reflexivity.
  - destruct (Z.leb_spec (a x + 1) (a y)), (Z.ltb_spec (a x) (a y)); try reflexivity; lia.
  - destruct (Z.leb_spec (a y + 1) (a x)), (Z.ltb_spec (a y) (a x)); try reflexivity; lia.
Qed.
Lemma p_cmp_scoped : forall n op x y, (x < n)%nat -> (y < n)%nat -> pscoped n (p_cmp op (VVar x) (VVar y)).
Proof. intros n op x y Hx Hy; destruct op; simpl; unfold vscoped; simpl; auto. Qed.

Lemma lin_sem_opp : forall cs xs a, lin_sem (combine (map Z.opp cs) xs) a = - lin_sem (combine cs xs) a.
Proof. induction cs as [|c cs IH]; destruct xs; intro a; cbn [map combine lin_sem]; try reflexivity. rewrite IH; ring. Qed.

Lemma lin_desc_sat : forall cs xs op k a, psat (lin_desc cs xs op k) a = cmp_sem op (lin_val cs xs a) k.
Proof.
  intros cs xs op k a; rewrite lin_val_combine; destruct op; cbn [lin_desc psat cmp_sem]; try reflexivity;
  try rewrite lin_sem_opp;
  repeat match goal with
  | |- context [?x <? ?y] => destruct (Z.ltb_spec x y)
  | |- context [?x <=? ?y] => destruct (Z.leb_spec x y)
  end; try reflexivity; lia.
Qed.
Lemma lin_desc_scoped : forall n cs xs op k, Forall (fun v => (v < n)%nat) xs -> pscoped n (lin_desc cs xs op k).
Proof. intros n cs xs op k H; destruct op; simpl; exact H. Qed.

(* ============================================================================================ *)
(* reification (the repair of D3: reify_constraint_kind)                                          *)
(* ============================================================================================ *)
Definition zb (t : bool) : Z := if t then 1 else 0.
Lemma tr_zb : forall t, tr (zb t) = t. Proof. destruct t; reflexivity. Qed.
Lemma zb_01 : forall t, zb t = 0 \/ zb t = 1. Proof. destruct t; simpl; auto. Qed.
Lemma zb_nonneg : forall t, 0 <= zb t. Proof. destruct t; simpl; lia. Qed.
Lemma zb_inj : forall t u, zb t = zb u -> t = u. Proof. destruct t, u; simpl; intro H; try reflexivity; discriminate. Qed.
Lemma eqb_tr_zb : forall z t, (z = 0 \/ z = 1) -> (Bool.eqb (tr z) t = true <-> z = zb t).
Proof. intros z t [->| ->]; destruct t; unfold tr; simpl; split; intro H; try reflexivity; discriminate. Qed.
Lemma eqb_is1_zb : forall z t, (z = 0 \/ z = 1) -> (is01 z && Bool.eqb (z =? 1) t = true <-> z = zb t).
Proof. intros z t [->| ->]; destruct t; unfold is01; simpl; split; intro H; try reflexivity; discriminate. Qed.

(* a lowering fragment from st to st' that ends with a variable v carrying a value related to the
   assignment by R (get_expr_var: the value of the expression; reify: the truth value of the tree) *)
Definition vspec (R : asg -> Z -> Prop) (st : lst) (v : nat) (st' : lst) : Prop :=
  (v < nvars st')%nat /\ (nvars st <= nvars st')%nat /\ (ne (fst st') -> ne (fst st)) /\
  exists np, snd st' = snd st ++ np /\ Forall (pscoped (nvars st')) np /\
    (forall a', inst a' (fst st') -> allsat np a' -> inst a' (fst st) /\ R a' (a' v)) /\
    (forall a x, inst a (fst st) -> R a x -> ne (fst st') ->
        exists a', agree (nvars st) a a' /\ inst a' (fst st') /\ allsat np a' /\ a' v = x).

Lemma gev_vspec : forall e st, escoped (nvars st) e ->
  vspec (fun a x => eval_expr e a = Some x) st (fst (get_expr_var e st)) (snd (get_expr_var e st)).
Proof. intros e st H. exact (get_expr_var_ok e st H). Qed.

(* the same without a distinguished variable: Q describes the extended assignments, P is what the
   original assignment must satisfy for an extension to exist *)
Definition pre (st st' : lst) (Q P : asg -> Prop) : Prop :=
  (nvars st <= nvars st')%nat /\ (ne (fst st') -> ne (fst st)) /\
  exists np, snd st' = snd st ++ np /\ Forall (pscoped (nvars st')) np /\
    (forall a', inst a' (fst st') -> allsat np a' -> inst a' (fst st) /\ Q a') /\
    (forall a, inst a (fst st) -> P a -> ne (fst st') ->
        exists a', agree (nvars st) a a' /\ inst a' (fst st') /\ allsat np a' /\ Q a').

Lemma pre_refl : forall st, pre st st (fun _ => True) (fun _ => True).
Proof.
  intro st. split; [lia|]. split; [auto|]. exists []. rewrite app_nil_r. split; [reflexivity|]. split; [constructor|]. split.
  - intros a' Hi _; auto.
  - intros a Hi _ _. exists a. repeat split; auto using agree_refl, allsat_nil.
Qed.

Lemma pre_of_vspec : forall R st v st', vspec R st v st' ->
  (forall a a' x, agree (nvars st) a a' -> R a x -> R a' x) ->
  pre st st' (fun a => R a (a v)) (fun a => exists x, R a x).
Proof.
  intros R st v st' [Hv [Hn [Hne [np [E [Sc [So Co]]]]]]] Hinv.
  split; [exact Hn|]. split; [exact Hne|]. exists np. split; [exact E|]. split; [exact Sc|]. split; [exact So|].
  intros a Hi [x Hx] N. destruct (Co a x Hi Hx N) as [a' [A [I [Sat V]]]].
  exists a'. split; [exact A|]. split; [exact I|]. split; [exact Sat|]. rewrite V. eapply Hinv; eauto.
Qed.

Lemma pre_seq : forall st st1 st2 (Q1 P1 Q2 P2 : asg -> Prop),
  pre st st1 Q1 P1 -> pre st1 st2 Q2 P2 ->
  (forall a a', agree (nvars st1) a a' -> Q1 a -> Q1 a') ->
  (forall a a', agree (nvars st) a a' -> P2 a -> P2 a') ->
  pre st st2 (fun a => Q1 a /\ Q2 a) (fun a => P1 a /\ P2 a).
Proof.
  intros st st1 st2 Q1 P1 Q2 P2 [Hn1 [Hne1 [np1 [E1 [S1 [So1 Co1]]]]]] [Hn2 [Hne2 [np2 [E2 [S2 [So2 Co2]]]]]] HQ HP.
  split; [lia|]. split; [auto|]. exists (np1 ++ np2). split; [rewrite E2, E1, app_assoc; reflexivity|]. split.
  { apply Forall_app; split; [eapply Forall_pscoped_le; eauto|exact S2]. }
  split.
  - intros a' Hi Hs. apply allsat_app in Hs; destruct Hs as [Hs1 Hs2].
    destruct (So2 a' Hi Hs2) as [Hi1 HQ2]. destruct (So1 a' Hi1 Hs1) as [Hi0 HQ1]. auto.
  - intros a Hi [HP1 HP2] N2.
    destruct (Co1 a Hi HP1 (Hne2 N2)) as [a1 [A1 [I1 [Sat1 HQ1]]]].
    destruct (Co2 a1 I1 (HP a a1 A1 HP2) N2) as [a2 [A2 [I2 [Sat2 HQ2]]]].
    exists a2. split; [eapply agree_trans; eauto|]. split; [exact I2|]. split.
    + apply allsat_app; split; [eapply allsat_agree; eauto|exact Sat2].
    + split; [eapply HQ; eauto|exact HQ2].
Qed.

(* Model::bool, then one propagator D that ties the new boolean to the earlier variables *)
Definition close (D : nat -> pdesc) (st : lst) : nat * lst :=
  (nvars st, push (D (nvars st)) (fst st ++ [drange 0 1], snd st)).

Lemma close_ok : forall st st2 (Q P : asg -> Prop) (D : nat -> pdesc) (F : asg -> Z) (R : asg -> Z -> Prop),
  pre st st2 Q P ->
  pscoped (S (nvars st2)) (D (nvars st2)) ->
  (forall a a', agree (nvars st2) a a' -> Q a -> Q a') ->
  (forall a a', agree (nvars st2) a a' -> F a' = F a) ->
  (forall a, Q a -> F a = 0 \/ F a = 1) ->
  (forall a, Q a -> (a (nvars st2) = 0 \/ a (nvars st2) = 1) -> (psat (D (nvars st2)) a = true <-> a (nvars st2) = F a)) ->
  (forall a, Q a -> R a (F a)) ->
  (forall a x, R a x -> P a) ->
  (forall a a' x, agree (nvars st) a a' -> Q a' -> R a x -> x = F a') ->
  vspec R st (fst (close D st2)) (snd (close D st2)).
Proof.
  intros st st2 Q P D F R [Hn [Hne [np [E [Sc [So Co]]]]]] HD HQ HF H01 Hsat HR HP Hdet.
  unfold close; cbn [fst snd]. set (b := nvars st2) in *.
  assert (L : nvars (push (D b) (fst st2 ++ [drange 0 1], snd st2)) = S b).
  { unfold push, nvars; cbn [fst snd]. rewrite app_length; simpl. fold (nvars st2). lia. }
  unfold vspec. rewrite L. split; [lia|]. split; [lia|]. split.
  { unfold push; cbn [fst]. intro N. apply ne_app in N. tauto. }
  exists (np ++ [D b]). split; [unfold push; cbn [snd]; rewrite E, app_assoc; reflexivity|]. split.
  { apply Forall_app; split; [eapply Forall_pscoped_le; [|exact Sc]; lia|constructor; [exact HD|constructor]]. }
  split.
  - intros a' Hi Hs. unfold push in Hi; cbn [fst] in Hi. apply inst_app in Hi. destruct Hi as [Hi Hin].
    fold (nvars st2) in Hin. fold b in Hin. apply drange_In in Hin.
    apply allsat_app in Hs. destruct Hs as [Hs1 Hs2]. apply allsat_one in Hs2.
    destruct (So a' Hi Hs1) as [Hi0 HQa]. split; [exact Hi0|].
    assert (B01 : a' b = 0 \/ a' b = 1) by lia.
    apply (Hsat a' HQa B01) in Hs2. rewrite Hs2. apply HR; exact HQa.
  - intros a x Hi HRx N. unfold push in N; cbn [fst] in N. apply ne_app in N. destruct N as [N _].
    destruct (Co a Hi (HP a x HRx) N) as [a1 [A1 [I1 [Sat1 HQ1]]]].
    pose proof (Hdet a a1 x A1 HQ1 HRx) as Ex.
    assert (Ab : agree b a1 (upd a1 b x)) by (apply agree_upd; lia).
    exists (upd a1 b x). split; [eapply agree_trans; [|exact A1|exact Ab]; exact Hn|]. split; [|split].
    + unfold push; cbn [fst]. apply inst_app. split; [eapply inst_agree; [exact Ab|exact I1]|].
      fold (nvars st2); fold b. rewrite upd_same. apply drange_In. destruct (H01 a1 HQ1); lia.
    + apply allsat_app. split; [eapply allsat_agree; eauto|]. apply allsat_one.
      apply Hsat; [eapply HQ; eauto|rewrite upd_same; destruct (H01 a1 HQ1); lia|].
      rewrite upd_same, (HF a1 _ Ab). exact Ex.
    + apply upd_same.
Qed.

(* fixing the carried value: `props.equals(v, Val::ValI(k))` after a fragment *)
Lemma vspec_fix : forall R st v st' k, vspec R st v st' ->
  step st (push (PEq (VVar v) (VConst k)) st') (fun a => R a k).
Proof.
  intros R st v st' k [Hv [Hn [Hne [np [E [Sc [So Co]]]]]]].
  split; [unfold push, nvars in *; simpl; lia|unfold push; cbn [fst]; exact Hne|].
  exists (np ++ [PEq (VVar v) (VConst k)]). split; [unfold push; cbn [snd]; rewrite E, app_assoc; reflexivity|]. split.
  { unfold push, nvars; cbn [fst snd]. fold (nvars st'). apply Forall_app; split; [exact Sc|].
    constructor; [|constructor]. simpl; unfold vscoped; simpl. split; [exact Hv|exact I]. }
  split.
  - intros a' Hi Hs. unfold push in Hi; cbn [fst] in Hi. apply allsat_app in Hs. destruct Hs as [Hs1 Hs2].
    apply allsat_one in Hs2. cbn [psat vsem] in Hs2. apply Z.eqb_eq in Hs2.
    destruct (So a' Hi Hs1) as [Hi0 HR]. split; [exact Hi0|]. rewrite <- Hs2. exact HR.
  - intros a Hi HR N. unfold push in N; cbn [fst] in N.
    destruct (Co a k Hi HR N) as [a' [A [I' [Sat V]]]].
    exists a'. split; [exact A|]. split; [exact I'|]. apply allsat_app. split; [exact Sat|].
    apply allsat_one. cbn [psat vsem]. rewrite V. apply Z.eqb_refl.
Qed.

(* the reified LinearInt *)
Lemma lin_cmp_reif_sat : forall cs xs op k b a,
  psat (lin_cmp_reif cs xs op k b) a = is01 (a b) && Bool.eqb (a b =? 1) (cmp_sem op (lin_val cs xs a) k).
Proof.
  intros cs xs op k b a; rewrite lin_val_combine; destruct op; cbn [lin_cmp_reif psat cmp_sem]; try reflexivity;
  try rewrite lin_sem_opp; f_equal; f_equal;
  repeat match goal with
  | |- context [?x <? ?y] => destruct (Z.ltb_spec x y)
  | |- context [?x <=? ?y] => destruct (Z.leb_spec x y)
  end; try reflexivity; lia.
Qed.
Lemma lin_cmp_reif_scoped : forall n cs xs op k b, Forall (fun v => (v < n)%nat) xs -> (b < n)%nat ->
  pscoped n (lin_cmp_reif cs xs op k b).
Proof. intros n cs xs op k b H Hb; destruct op; simpl; auto. Qed.

(* the truth value of the tree, as 0 / 1; undefined (a modulo by zero somewhere) relates to nothing *)
Definition Rc (c : cons) (a : asg) (x : Z) : Prop := exists t, eval_cons c a = Some t /\ x = zb t.
Lemma Rc_agree : forall n c a a' x, cscoped n c -> agree n a a' -> Rc c a x -> Rc c a' x.
Proof. intros n c a a' x Hs Ha [t [E V]]. exists t. rewrite (evalc_agree n a a' c Hs Ha). auto. Qed.
Lemma Rc_fun : forall c a x y, Rc c a x -> Rc c a y -> x = y.
Proof. intros c a x y [t [E ->]] [u [E' ->]]. congruence. Qed.

Lemma new_bool_eq : forall st, new_bool st = (nvars st, (fst st ++ [drange 0 1], snd st)).
Proof. reflexivity. Qed.

Lemma reify_bin_eq : forall l op r st,
  reify (CBin l op r) st =
  close (PCmpR op (fst (get_expr_var l st)) (fst (get_expr_var r (snd (get_expr_var l st)))))
        (snd (get_expr_var r (snd (get_expr_var l st)))).
Proof.
  intros; cbn [reify]. destruct (get_expr_var l st) as [lv st1]; cbn [fst snd].
  destruct (get_expr_var r st1) as [rv st2]; reflexivity.
Qed.
Lemma reify_and_eq : forall p q st,
  reify (CAnd p q) st = close (PAndR [fst (reify p st); fst (reify q (snd (reify p st)))]) (snd (reify q (snd (reify p st)))).
Proof.
  intros; cbn [reify]. destruct (reify p st) as [pb st1]; cbn [fst snd].
  destruct (reify q st1) as [qb st2]; reflexivity.
Qed.
Lemma reify_or_eq : forall p q st,
  reify (COr p q) st = close (POrR [fst (reify p st); fst (reify q (snd (reify p st)))]) (snd (reify q (snd (reify p st)))).
Proof.
  intros; cbn [reify]. destruct (reify p st) as [pb st1]; cbn [fst snd].
  destruct (reify q st1) as [qb st2]; reflexivity.
Qed.
Lemma reify_not_eq : forall p st, reify (CNot p) st = close (PNotR (fst (reify p st))) (snd (reify p st)).
Proof. intros; cbn [reify]. destruct (reify p st) as [pb st1]; reflexivity. Qed.
Lemma reify_lin_eq : forall cs xs op k st, reify (CLinInt cs xs op k) st = close (lin_cmp_reif cs xs op k) st.
Proof. reflexivity. Qed.

Lemma some_bool_inj : forall (t u : bool), Some t = Some u -> t = u.
Proof. intros t u H; inversion H; reflexivity. Qed.

(* And / Or of two reified sub-trees (the shared part of the two arms) *)
Lemma reify_binop_ok : forall (mkc : cons -> cons -> cons) (op : bool -> bool -> bool) (D : nat -> nat -> nat -> pdesc),
  (forall p q a, eval_cons (mkc p q) a = do x <- eval_cons p a; do y <- eval_cons q a; Some (op x y)) ->
  (forall n pb qb b, (pb < n)%nat -> (qb < n)%nat -> (b < n)%nat -> pscoped n (D pb qb b)) ->
  (forall pb qb b a, (a b = 0 \/ a b = 1) -> (psat (D pb qb b) a = true <-> a b = zb (op (tr (a pb)) (tr (a qb))))) ->
  forall p q st pb st1 qb st2,
  cscoped (nvars st) p -> cscoped (nvars st) q ->
  vspec (Rc p) st pb st1 -> vspec (Rc q) st1 qb st2 ->
  vspec (Rc (mkc p q)) st (fst (close (D pb qb) st2)) (snd (close (D pb qb) st2)).
Proof.
  intros mkc op D Hev Hsc Hsat p q st pb st1 qb st2 Hp Hq V1 V2.
  assert (Hpb : (pb < nvars st1)%nat) by (destruct V1 as [H _]; exact H).
  assert (Hqb : (qb < nvars st2)%nat) by (destruct V2 as [H _]; exact H).
  assert (Hn1 : (nvars st <= nvars st1)%nat) by (destruct V1 as [_ [H _]]; exact H).
  assert (Hn2 : (nvars st1 <= nvars st2)%nat) by (destruct V2 as [_ [H _]]; exact H).
  assert (Hq1 : cscoped (nvars st1) q) by exact (cscoped_le _ _ _ Hn1 Hq).
  pose proof (pre_of_vspec _ _ _ _ V1 (fun a a' x A => Rc_agree _ p a a' x Hp A)) as P1.
  pose proof (pre_of_vspec _ _ _ _ V2 (fun a a' x A => Rc_agree _ q a a' x Hq1 A)) as P2.
  assert (P12 := pre_seq _ _ _ _ _ _ _ P1 P2).
  cbv beta in P12.
  assert (St1 : forall a a', agree (nvars st1) a a' -> Rc p a (a pb) -> Rc p a' (a' pb)).
  { intros a a' A H. rewrite (A pb Hpb). apply (Rc_agree (nvars st1) p a a'); [eapply cscoped_le; [|exact Hp]; exact Hn1|exact A|exact H]. }
  assert (Inv2 : forall a a', agree (nvars st) a a' -> (exists x, Rc q a x) -> exists x, Rc q a' x).
  { intros a a' A [x H]. exists x. exact (Rc_agree _ q a a' x Hq A H). }
  specialize (P12 St1 Inv2).
  apply (close_ok st st2 _ _ (D pb qb) (fun a => zb (op (tr (a pb)) (tr (a qb)))) (Rc (mkc p q)) P12).
  - apply Hsc; lia.
  - intros a a' A [H1 H2]. split.
    + rewrite (A pb) by lia. apply (Rc_agree (nvars st2) p a a'); [eapply cscoped_le; [|exact Hp]; lia|exact A|exact H1].
    + rewrite (A qb) by lia. apply (Rc_agree (nvars st2) q a a'); [eapply cscoped_le; [|exact Hq]; lia|exact A|exact H2].
  - intros a a' A. rewrite (A pb), (A qb) by lia. reflexivity.
  - intros a _. apply zb_01.
  - intros a _ B. apply Hsat; exact B.
  - intros a [[t1 [E1 V1']] [t2 [E2 V2']]]. exists (op t1 t2). rewrite Hev, E1, E2. cbn [obind].
    split; [reflexivity|]. rewrite V1', V2', !tr_zb. reflexivity.
  - intros a x [t [E _]]. rewrite Hev in E.
    destruct (eval_cons p a) as [t1|] eqn:E1; [|discriminate]. destruct (eval_cons q a) as [t2|] eqn:E2; [|discriminate].
    split; [exists (zb t1), t1|exists (zb t2), t2]; auto.
  - intros a a' x A [[t1 [E1 V1']] [t2 [E2 V2']]] [t [E ->]].
    rewrite Hev in E. rewrite <- (evalc_agree _ a a' p Hp A), <- (evalc_agree _ a a' q Hq A) in E.
    rewrite E1, E2 in E. cbn [obind] in E. apply some_bool_inj in E. subst t.
    rewrite V1', V2', !tr_zb. reflexivity.
Qed.

Theorem reify_ok : forall c st, cscoped (nvars st) c -> vspec (Rc c) st (fst (reify c st)) (snd (reify c st)).
Proof.
  induction c; intros st Hs.
  - (* Binary *)
    destruct Hs as [Hl Hr]. rewrite reify_bin_eq.
    pose proof (gev_vspec l st Hl) as V1.
    set (lv := fst (get_expr_var l st)) in *. set (st1 := snd (get_expr_var l st)) in *.
    assert (Hn1 : (nvars st <= nvars st1)%nat) by (destruct V1 as [_ [H _]]; exact H).
    assert (Hlv : (lv < nvars st1)%nat) by (destruct V1 as [H _]; exact H).
    assert (Hr1 : escoped (nvars st1) r) by exact (escoped_le _ _ _ Hn1 Hr).
    pose proof (gev_vspec r st1 Hr1) as V2.
    set (rv := fst (get_expr_var r st1)) in *. set (st2 := snd (get_expr_var r st1)) in *.
    assert (Hn2 : (nvars st1 <= nvars st2)%nat) by (destruct V2 as [_ [H _]]; exact H).
    assert (Hrv : (rv < nvars st2)%nat) by (destruct V2 as [H _]; exact H).
    pose proof (pre_of_vspec _ _ _ _ V1 (fun a a' x A H => eq_trans (eval_agree _ a a' l Hl A) H)) as P1.
    pose proof (pre_of_vspec _ _ _ _ V2 (fun a a' x A H => eq_trans (eval_agree _ a a' r Hr1 A) H)) as P2.
    assert (P12 := pre_seq _ _ _ _ _ _ _ P1 P2). cbv beta in P12.
    assert (St1 : forall a a', agree (nvars st1) a a' -> eval_expr l a = Some (a lv) -> eval_expr l a' = Some (a' lv)).
    { intros a a' A H. rewrite (A lv Hlv), (eval_agree _ a a' l (escoped_le _ _ _ Hn1 Hl) A). exact H. }
    assert (Inv2 : forall a a', agree (nvars st) a a' -> (exists x, eval_expr r a = Some x) -> exists x, eval_expr r a' = Some x).
    { intros a a' A [x H]. exists x. rewrite (eval_agree _ a a' r Hr A). exact H. }
    specialize (P12 St1 Inv2).
    apply (close_ok st st2 _ _ (PCmpR op lv rv) (fun a => zb (cmp_sem op (a lv) (a rv))) (Rc (CBin l op r)) P12).
    + simpl. lia.
    + assert (L02 : (nvars st <= nvars st2)%nat) by lia.
      intros a a' A [H1 H2]. split.
      * rewrite (A lv) by lia. rewrite (eval_agree (nvars st2) a a' l (escoped_le _ _ _ L02 Hl) A). exact H1.
      * rewrite (A rv) by lia. rewrite (eval_agree (nvars st2) a a' r (escoped_le _ _ _ L02 Hr) A). exact H2.
    + intros a a' A. rewrite (A lv), (A rv) by lia. reflexivity.
    + intros a _. apply zb_01.
    + intros a _ B. cbn [psat]. apply eqb_tr_zb; exact B.
    + intros a [H1 H2]. exists (cmp_sem op (a lv) (a rv)). cbn [eval_cons]. rewrite H1, H2. auto.
    + intros a x [t [E _]]. cbn [eval_cons] in E.
      destruct (eval_expr l a) as [x1|]; [|discriminate]. destruct (eval_expr r a) as [x2|]; [|discriminate].
      split; eexists; reflexivity.
    + intros a a' x A [H1 H2] [t [E ->]]. cbn [eval_cons] in E.
      rewrite <- (eval_agree _ a a' l Hl A), <- (eval_agree _ a a' r Hr A), H1, H2 in E. cbn [obind] in E.
      apply some_bool_inj in E. subst t. reflexivity.
  - (* And *)
    destruct Hs as [H1 H2]. rewrite reify_and_eq.
    pose proof (IHc1 st H1) as V1.
    assert (H2' : cscoped (nvars (snd (reify c1 st))) c2).
    { eapply cscoped_le; [|exact H2]. destruct V1 as [_ [H _]]; exact H. }
    pose proof (IHc2 _ H2') as V2.
    refine (reify_binop_ok CAnd andb (fun pb qb b => PAndR [pb; qb] b) (fun p q a => eq_refl) _ _ c1 c2 st _ _ _ _ H1 H2 V1 V2).
    + intros n pb qb b Hp Hq Hb; simpl. split; [repeat constructor; assumption|exact Hb].
    + intros pb qb b a B. cbn [psat forallb]. rewrite andb_true_r. cbn [andb]. apply eqb_tr_zb; exact B.
  - (* Or *)
    destruct Hs as [H1 H2]. rewrite reify_or_eq.
    pose proof (IHc1 st H1) as V1.
    assert (H2' : cscoped (nvars (snd (reify c1 st))) c2).
    { eapply cscoped_le; [|exact H2]. destruct V1 as [_ [H _]]; exact H. }
    pose proof (IHc2 _ H2') as V2.
    refine (reify_binop_ok COr orb (fun pb qb b => POrR [pb; qb] b) (fun p q a => eq_refl) _ _ c1 c2 st _ _ _ _ H1 H2 V1 V2).
    + intros n pb qb b Hp Hq Hb; simpl. split; [repeat constructor; assumption|exact Hb].
    + intros pb qb b a B. cbn [psat existsb]. rewrite orb_false_r. cbn [andb]. apply eqb_tr_zb; exact B.
  - (* Not *)
    simpl in Hs. rewrite reify_not_eq.
    pose proof (IHc st Hs) as V1.
    set (pb := fst (reify c st)) in *. set (st1 := snd (reify c st)) in *.
    assert (Hn1 : (nvars st <= nvars st1)%nat) by (destruct V1 as [_ [H _]]; exact H).
    assert (Hpb : (pb < nvars st1)%nat) by (destruct V1 as [H _]; exact H).
    pose proof (pre_of_vspec _ _ _ _ V1 (fun a a' x A => Rc_agree _ c a a' x Hs A)) as P1.
    apply (close_ok st st1 _ _ (PNotR pb) (fun a => zb (negb (tr (a pb)))) (Rc (CNot c)) P1).
    + simpl. lia.
    + intros a a' A H. rewrite (A pb Hpb). apply (Rc_agree (nvars st1) c a a'); [eapply cscoped_le; [|exact Hs]; exact Hn1|exact A|exact H].
    + intros a a' A. rewrite (A pb Hpb). reflexivity.
    + intros a _. apply zb_01.
    + intros a [t [E V]] B. cbn [psat].
      assert (I1 : is01 (a (nvars st1)) = true) by (destruct B as [-> | ->]; reflexivity).
      assert (I2 : (0 <=? a pb) = true) by (rewrite V; apply Z.leb_le, zb_nonneg).
      rewrite I1, I2. cbn [andb]. apply eqb_tr_zb; exact B.
    + intros a [t [E V]]. exists (negb t). cbn [eval_cons]. rewrite E. cbn [obind]. split; [reflexivity|].
      rewrite V, tr_zb. reflexivity.
    + intros a x [t [E _]]. cbn [eval_cons] in E. destruct (eval_cons c a) as [t1|] eqn:E1; [|discriminate].
      exists (zb t1), t1. auto.
    + intros a a' x A [t1 [E1 V1']] [t [E ->]]. cbn [eval_cons] in E.
      rewrite <- (evalc_agree _ a a' c Hs A), E1 in E. cbn [obind] in E. apply some_bool_inj in E. subst t.
      rewrite V1', tr_zb. reflexivity.
  - (* LinearInt *)
    simpl in Hs. rewrite reify_lin_eq.
    apply (close_ok st st _ _ (lin_cmp_reif cs xs op k) (fun a => zb (cmp_sem op (lin_val cs xs a) k)) (Rc (CLinInt cs xs op k)) (pre_refl st)).
    + apply lin_cmp_reif_scoped; [eapply Forall_lt_le; [|exact Hs]; lia|lia].
    + auto.
    + intros a a' A. rewrite (lin_val_agree _ a a' cs xs Hs A). reflexivity.
    + intros a _. apply zb_01.
    + intros a _ B. rewrite lin_cmp_reif_sat. apply eqb_is1_zb; exact B.
    + intros a _. eexists. split; reflexivity.
    + auto.
    + intros a a' x A _ [t [E ->]]. cbn [eval_cons] in E. apply some_bool_inj in E. subst t.
      rewrite (lin_val_agree _ a a' cs xs Hs A). reflexivity.
Qed.

(* ---- materialize_constraint_kind, Binary arm ---- *)
Definition mat_gen (l : expr) (op : cmp) (r : expr) (st : lst) : lst :=
  push (p_cmp op (VVar (fst (get_expr_var l st))) (VVar (fst (get_expr_var r (snd (get_expr_var l st))))))
       (snd (get_expr_var r (snd (get_expr_var l st)))).

Definition is_val (e : expr) : bool := match e with EVal _ => true | _ => false end.

Lemma materialize_gen : forall l op r st,
  is_var l && is_val r = false -> is_val l && is_var r = false ->
  materialize (CBin l op r) st = mat_gen l op r st.
Proof.
  intros l op r st H1 H2; unfold mat_gen.
  destruct l, r; try discriminate; cbn [materialize materialize_bin];
  try (destruct op; destruct (get_expr_var _ st) as [lv st1]; cbn [fst snd];
       destruct (get_expr_var _ st1) as [rv st2]; reflexivity).
Qed.

Lemma impl_bin_true : forall l op r a, impl_cons (CBin l op r) a = true <->
  exists x y, eval_expr l a = Some x /\ eval_expr r a = Some y /\ cmp_sem op x y = true.
Proof.
  intros l op r a; cbn [impl_cons].
  destruct (eval_expr l a) as [x|]; [destruct (eval_expr r a) as [y|]|].
  - split.
    + intros H1; exists x, y; auto.
    + intros [x' [y' [E1 [E2 H1]]]]; inversion E1; inversion E2; subst; auto.
  - split; [discriminate|intros [x' [y' [_ [E _]]]]; discriminate].
  - split; [discriminate|intros [x' [y' [E _]]]; discriminate].
Qed.

Lemma mat_gen_ok : forall l op r st, escoped (nvars st) l -> escoped (nvars st) r ->
  step st (mat_gen l op r st) (fun a => impl_cons (CBin l op r) a = true).
Proof.
  intros l op r st Hl Hr; unfold mat_gen.
  destruct (get_expr_var_ok l st Hl) as [Hlv [Hn1 [N1 [np1 [E1 [Sc1 [So1 Co1]]]]]]].
  set (lv := fst (get_expr_var l st)) in *. set (st1 := snd (get_expr_var l st)) in *.
  assert (Hr1 : escoped (nvars st1) r) by (eapply escoped_le; eauto).
  destruct (get_expr_var_ok r st1 Hr1) as [Hrv [Hn2 [N2 [np2 [E2 [Sc2 [So2 Co2]]]]]]].
  set (rv := fst (get_expr_var r st1)) in *. set (st2 := snd (get_expr_var r st1)) in *.
  split; [unfold push, nvars in *; simpl; lia|unfold push; cbn [fst]; auto|].
  exists (np1 ++ np2 ++ [p_cmp op (VVar lv) (VVar rv)]). split.
  { unfold push; simpl. rewrite E2, E1, <- !app_assoc; reflexivity. }
  split.
  { unfold push, nvars; simpl; fold (nvars st2).
    apply Forall_app; split; [eapply Forall_pscoped_le; [|exact Sc1]; lia|].
    apply Forall_app; split; [exact Sc2|]. constructor; [|constructor]. apply p_cmp_scoped; lia. }
  split.
  - intros a' Hi Hs. unfold push in Hi; simpl in Hi.
    apply allsat_app in Hs; destruct Hs as [Hs1 Hs]. apply allsat_app in Hs; destruct Hs as [Hs2 Hs3].
    apply allsat_one in Hs3. rewrite p_cmp_sat in Hs3.
    destruct (So2 a' Hi Hs2) as [Hi1 Er]. destruct (So1 a' Hi1 Hs1) as [Hi0 El].
    split; [exact Hi0|]. apply impl_bin_true. exists (a' lv), (a' rv); auto.
  - intros a Hi Him NN. unfold push in NN; cbn [fst] in NN.
    apply impl_bin_true in Him. destruct Him as [x [y [El [Er Hc]]]].
    destruct (Co1 a x Hi El (N2 NN)) as [a1 [A1 [I1 [Sat1 V1]]]].
    assert (Er1 : eval_expr r a1 = Some y) by (rewrite (eval_agree _ a a1 r Hr A1); exact Er).
    destruct (Co2 a1 y I1 Er1 NN) as [a2 [A2 [I2 [Sat2 V2]]]].
    exists a2. split; [eapply agree_trans; eauto|]. split; [exact I2|].
    apply allsat_app; split; [eapply allsat_agree; eauto|].
    apply allsat_app; split; [exact Sat2|]. apply allsat_one. rewrite p_cmp_sat.
    rewrite (A2 lv Hlv), V1, V2. exact Hc.
Qed.

(* post_var_val_constraint / post_val_var_constraint with the immediate `remove_all_but` *)
Lemma mat_var_val_ok : forall (swap : bool) v op k st, (v < nvars st)%nat ->
  let st0 := match op with OEq => set_dom v (only k (sget (fst st) v)) st | _ => st end in
  let n := nvars st0 in
  let st1 := (fst st0 ++ [drange k k], snd st0) in
  step st (push (if swap then p_cmp op (VVar n) (VVar v) else p_cmp op (VVar v) (VVar n)) st1)
       (fun a => (if swap then cmp_sem op k (a v) else cmp_sem op (a v) k) = true).
Proof.
  intros swap v op k st Hv st0 n st1.
  assert (L0 : nvars st0 = nvars st).
  { subst st0; destruct op; try reflexivity. unfold set_dom, nvars; simpl. apply supd_length. }
  assert (P0 : snd st0 = snd st) by (subst st0; destruct op; reflexivity).
  assert (Sub : forall a, inst a (fst st0) -> inst a (fst st)).
  { subst st0; destruct op; auto. unfold set_dom; simpl. intros a Hi.
    apply (inst_supd a (fst st) v _ Hv) in Hi. destruct Hi as [H1 H2]. apply only_In in H2. destruct H2 as [E H2].
    intros u Hu. destruct (Nat.eq_dec u v) as [->|Hne]; [rewrite E; exact H2|apply H1; assumption]. }
  assert (Eqv : forall a, op = OEq -> inst a (fst st0) -> a v = k).
  { intros a -> Hi. subst st0; unfold set_dom in Hi; simpl in Hi.
    apply (inst_supd a (fst st) v _ Hv) in Hi. destruct Hi as [_ H2]. apply only_In in H2; tauto. }
  assert (Up : forall a, inst a (fst st) -> (op = OEq -> a v = k) -> inst a (fst st0)).
  { subst st0; destruct op; auto. intros a Hi E. unfold set_dom; simpl.
    apply (inst_supd a (fst st) v _ Hv). split; [intros; apply Hi; assumption|].
    apply only_In. split; [auto|]. rewrite <- (E eq_refl). apply Hi; exact Hv. }
  split; [unfold push, nvars in *; subst st1; simpl; rewrite app_length; simpl; lia| |].
  { unfold push; subst st1; cbn [fst]. intro N. apply ne_app in N. destruct N as [N _].
    subst st0; destruct op; auto. unfold set_dom in N; cbn [fst] in N. eapply ne_supd_only; eauto. }
  eexists. split; [unfold push; subst st1; simpl; rewrite P0; reflexivity|].
  split.
  { constructor; [|constructor]. unfold push, nvars; subst st1; simpl. rewrite app_length; simpl. fold (nvars st0).
    destruct swap; apply p_cmp_scoped; subst n; lia. }
  split.
  - intros a' Hi Hs. unfold push in Hi; subst st1; simpl in Hi. apply inst_app in Hi. destruct Hi as [Hi Hin].
    apply drange_In in Hin. fold (nvars st0) in Hin. fold n in Hin. assert (En : a' n = k) by lia.
    apply allsat_one in Hs. split; [apply Sub; exact Hi|].
    destruct swap; rewrite p_cmp_sat, En in Hs; exact Hs.
  - intros a Hi Hc _. exists (upd a n k).
    assert (An : agree (nvars st) a (upd a n k)) by (apply agree_upd; subst n; lia).
    split; [exact An|]. split.
    + unfold push; subst st1; simpl. apply inst_app. split.
      * eapply inst_agree; [unfold nvars in L0; rewrite L0; exact An|].
        apply Up; [exact Hi|]. intros ->. destruct swap; simpl in Hc; apply Z.eqb_eq in Hc; congruence.
      * fold (nvars st0); fold n. rewrite upd_same. apply drange_In; lia.
    + apply allsat_one. destruct swap; rewrite p_cmp_sat, upd_same, (An v Hv); exact Hc.
Qed.

Lemma materialize_var_val : forall v op k st, (v < nvars st)%nat ->
  materialize (CBin (EVar v) op (EVal k)) st =
  let st0 := match op with OEq => set_dom v (only k (sget (fst st) v)) st | _ => st end in
  push (p_cmp op (VVar v) (VVar (nvars st0))) (fst st0 ++ [drange k k], snd st0).
Proof.
  intros v op k st Hv; cbn [materialize materialize_bin]. apply Nat.ltb_lt in Hv.
  destruct op; try rewrite Hv; reflexivity.
Qed.
Lemma materialize_val_var : forall v op k st, (v < nvars st)%nat ->
  materialize (CBin (EVal k) op (EVar v)) st =
  let st0 := match op with OEq => set_dom v (only k (sget (fst st) v)) st | _ => st end in
  push (p_cmp op (VVar (nvars st0)) (VVar v)) (fst st0 ++ [drange k k], snd st0).
Proof.
  intros v op k st Hv; cbn [materialize materialize_bin]. apply Nat.ltb_lt in Hv.
  destruct op; try rewrite Hv; reflexivity.
Qed.

Lemma materialize_or_eq : forall a b st, or_eq_pattern a b = None ->
  materialize (COr a b) st = push (PEq (VVar (fst (reify (COr a b) st))) (VConst 1)) (snd (reify (COr a b) st)).
Proof.
  intros a b st H; cbn [materialize reify]. rewrite H.
  destruct (reify a st) as [lb st1]. destruct (reify b st1) as [rb st2]. reflexivity.
Qed.
Lemma materialize_not_eq : forall a st,
  materialize (CNot a) st = push (PEq (VVar (fst (reify a st))) (VConst 0)) (snd (reify a st)).
Proof. intros a st; cbn [materialize]. destruct (reify a st) as [b st1]. reflexivity. Qed.

Lemma holds_true_iff : forall c a, holds c a = true <-> eval_cons c a = Some true.
Proof. intros c a; unfold holds; destruct (eval_cons c a) as [[|]|]; split; congruence. Qed.
Lemma Rc_one : forall c a, Rc c a 1 <-> holds c a = true.
Proof.
  intros c a; rewrite holds_true_iff; unfold Rc; split.
  - intros [t [E V]]. destruct t; [exact E|discriminate].
  - intro E. exists true. auto.
Qed.
Lemma Rc_zero_not : forall c a, Rc c a 0 <-> holds (CNot c) a = true.
Proof.
  intros c a; rewrite holds_true_iff; unfold Rc; cbn [eval_cons]; split.
  - intros [t [E V]]. destruct t; [discriminate|]. rewrite E. reflexivity.
  - intro E. destruct (eval_cons c a) as [[|]|]; try discriminate. exists false. auto.
Qed.

Theorem materialize_ok : forall c st, cscoped (nvars st) c ->
  step st (materialize c st) (fun a => impl_cons c a = true).
Proof.
  induction c; intros st Hs.
  - destruct Hs as [Hl Hr].
    destruct (is_var l && is_val r) eqn:E1.
    { destruct l; try discriminate; destruct r; try discriminate. simpl in Hl.
      rewrite materialize_var_val by exact Hl.
      eapply step_weaken; [|apply (mat_var_val_ok false v op c st Hl)].
      intro a; simpl. tauto. }
    destruct (is_val l && is_var r) eqn:E2.
    { destruct l; try discriminate; destruct r; try discriminate. simpl in Hr.
      rewrite materialize_val_var by exact Hr.
      eapply step_weaken; [|apply (mat_var_val_ok true v op c st Hr)].
      intro a; simpl. tauto. }
    rewrite materialize_gen by assumption. apply mat_gen_ok; assumption.
  - destruct Hs as [H1 H2]. cbn [materialize].
    eapply step_weaken; [|eapply step_trans; [|apply IHc1; exact H1|apply IHc2]].
    + intro a; cbn [impl_cons]. rewrite andb_true_iff. reflexivity.
    + intros a a' Ha. cbv beta. rewrite (impl_agree _ a a' c2 H2 Ha). auto.
    + eapply cscoped_le; [|exact H2]. apply (st_n _ _ _ (IHc1 st H1)).
  - cbn [impl_cons].
    destruct (or_eq_pattern c1 c2) as [[[x l] r]|] eqn:E.
    + destruct Hs as [H1 H2]. cbn [materialize]. rewrite E.
      apply or_eq_pattern_some in E. destruct E as [-> ->]. simpl in H1. destruct H1 as [Hx _].
      assert (Hh : forall a, holds (COr (CBin (EVar x) OEq (EVal l)) (CBin (EVar x) OEq (EVal r))) a = (a x =? l) || (a x =? r)).
      { intro a. unfold holds. cbn [eval_cons eval_expr obind cmp_sem]. destruct ((a x =? l) || (a x =? r)); reflexivity. }
      cbn [new_var fst snd].
      split; [unfold push, nvars; simpl; rewrite app_length; simpl; lia|unfold push; cbn [fst]; intro N; apply ne_app in N; tauto|].
      eexists. split; [unfold push; simpl; reflexivity|]. split.
      { constructor; [|constructor]. simpl; unfold vscoped, push, nvars in *; simpl. rewrite app_length; simpl. lia. }
      split.
      * intros a' Hi Hsat. unfold push in Hi; cbn [fst snd] in Hi. apply inst_app in Hi. destruct Hi as [Hi Hin].
        apply allsat_one in Hsat. cbn [psat vsem] in Hsat. apply Z.eqb_eq in Hsat. fold (nvars st) in Hin. rewrite <- Hsat in Hin.
        unfold dof_values in Hin. apply (proj1 (zsort_In _ _)) in Hin. simpl in Hin. split; [exact Hi|].
        rewrite Hh. apply orb_true_iff. destruct Hin as [<-|[<-|[]]]; [left|right]; apply Z.eqb_refl.
      * intros a Hi Hor _. rewrite Hh in Hor. exists (upd a (nvars st) (a x)).
        assert (An : agree (nvars st) a (upd a (nvars st) (a x))) by (apply agree_upd; lia).
        split; [exact An|]. split.
        -- unfold push; cbn [fst snd]. apply inst_app. split; [eapply inst_agree; [exact An|exact Hi]|].
           fold (nvars st). rewrite upd_same. unfold dof_values. apply (proj2 (zsort_In _ _)).
           apply orb_true_iff in Hor. destruct Hor as [H|H]; apply Z.eqb_eq in H; rewrite H; simpl; auto.
        -- apply allsat_one. simpl. rewrite upd_same, (An x Hx). apply Z.eqb_refl.
    + rewrite materialize_or_eq by exact E.
      eapply step_weaken; [|apply vspec_fix; apply (reify_ok (COr c1 c2) st Hs)].
      intro a. apply Rc_one.
  - cbn [impl_cons]. rewrite materialize_not_eq.
    eapply step_weaken; [|apply vspec_fix; apply (reify_ok c st Hs)].
    intro a. apply Rc_zero_not.
  - cbn [materialize]. apply step_push; [apply lin_desc_scoped; exact Hs|].
    intro a. rewrite lin_desc_sat. simpl. reflexivity.
Qed.

(* ---- how lowering changes the store: variables are appended; an existing domain is left alone
   or cut down to at most one value (remove_all_but) ---- *)
Definition shrunk (d' d : dom) : Prop := d' = [] \/ (exists k, d' = [k]) \/ exists f, d' = filter f d.
Definition sext (s s' : store) : Prop :=
  (length s <= length s')%nat /\ forall v, (v < length s)%nat -> shrunk (sget s' v) (sget s v).

Lemma filter_filter : forall (f g : Z -> bool) l, filter f (filter g l) = filter (fun x => g x && f x) l.
Proof.
  intros f g; induction l as [|x l IH]; simpl; [reflexivity|].
  destruct (g x); simpl; [destruct (f x); rewrite IH; reflexivity|exact IH].
Qed.
Lemma shrunk_refl : forall d, shrunk d d.
Proof. intro d; right; right; exists (fun _ => true). symmetry; apply filter_all_true; auto. Qed.
Lemma shrunk_trans : forall d1 d2 d3, shrunk d3 d2 -> shrunk d2 d1 -> shrunk d3 d1.
Proof.
  intros d1 d2 d3 [->|[[k ->]|[f ->]]] H2; [left; reflexivity|right; left; eauto|].
  destruct H2 as [->|[[k ->]|[g ->]]].
  - left; reflexivity.
  - simpl; destruct (f k); [right; left; eauto|left; reflexivity].
  - right; right. rewrite filter_filter. eauto.
Qed.
Lemma shrunk_sorted : forall d d', shrunk d' d -> sorted d -> sorted d'.
Proof. intros d d' [->|[[k ->]|[f ->]]] H; [exact I|exact I|apply filter_sorted; exact H]. Qed.
Lemma shrunk_sub : forall d d' x, shrunk d' d -> In x d' -> d' = [x] \/ In x d.
Proof.
  intros d d' x [->|[[k ->]|[f ->]]] H; [destruct H| |right; apply filter_In in H; tauto].
  destruct H as [<-|[]]; left; reflexivity.
Qed.
Lemma sext_refl : forall s, sext s s.
Proof. intro s; split; [lia|intros; apply shrunk_refl]. Qed.
Lemma sext_trans : forall s1 s2 s3, sext s1 s2 -> sext s2 s3 -> sext s1 s3.
Proof.
  intros s1 s2 s3 [L1 H1] [L2 H2]; split; [lia|]. intros v Hv.
  eapply shrunk_trans; [apply H2; lia|apply H1; exact Hv].
Qed.
Lemma sext_app : forall s d, sext s (s ++ [d]).
Proof. intros s d; split; [rewrite app_length; simpl; lia|]. intros v Hv. rewrite sget_app_old by exact Hv. apply shrunk_refl. Qed.
Lemma sext_only : forall s v k, sext s (supd s v (only k (sget s v))).
Proof.
  intros s v k; split; [rewrite supd_length; lia|]. intros u Hu.
  destruct (Nat.eq_dec u v) as [->|Hne].
  - rewrite sget_supd_same by exact Hu. unfold only. destruct (memZ k (sget s v)); [right; left; eauto|left; reflexivity].
  - rewrite sget_supd_other by exact Hne. apply shrunk_refl.
Qed.

Lemma crv_sext : forall e st, sext (fst st) (fst (snd (create_result_var e st))).
Proof. intros e st; destruct e; simpl; auto using sext_refl, sext_app. Qed.

Lemma post_expr_sext : forall e res st, sext (fst st) (fst (post_expr e res st)).
Proof.
  assert (B : forall rec l r mk st,
     (forall res st, sext (fst st) (fst (rec l res st))) -> (forall res st, sext (fst st) (fst (rec r res st))) ->
     sext (fst st) (fst (bin_body rec l r mk st))).
  { intros rec l r mk st Hl Hr. rewrite bin_body_eq; cbv zeta. unfold push, opt_post; cbn [fst].
    eapply sext_trans; [apply (crv_sext l st)|]. eapply sext_trans; [apply (crv_sext r)|].
    destruct (is_var l), (is_var r); eauto using sext_refl, sext_trans. }
  induction e; intros res st; cbn [post_expr]; try (apply B; assumption); apply sext_refl.
Qed.

Lemma gev_sext : forall e st, sext (fst st) (fst (snd (get_expr_var e st))).
Proof.
  intros e st; destruct e; cbn [get_expr_var create_result_var new_var fst snd]; auto using sext_refl, sext_app;
  (eapply sext_trans; [apply sext_app|];
   match goal with |- sext _ (fst (post_expr ?e ?r ?s)) => apply (post_expr_sext e r s) end).
Qed.

Lemma close_sext : forall D st, sext (fst st) (fst (snd (close D st))).
Proof. intros D st; unfold close, push; cbn [fst snd]. apply sext_app. Qed.
Lemma reify_sext : forall c st, sext (fst st) (fst (snd (reify c st))).
Proof.
  induction c; intro st.
  - rewrite reify_bin_eq. eapply sext_trans; [|apply close_sext]. eapply sext_trans; apply gev_sext.
  - rewrite reify_and_eq. eapply sext_trans; [|apply close_sext]. eapply sext_trans; [apply IHc1|apply IHc2].
  - rewrite reify_or_eq. eapply sext_trans; [|apply close_sext]. eapply sext_trans; [apply IHc1|apply IHc2].
  - rewrite reify_not_eq. eapply sext_trans; [|apply close_sext]. apply IHc.
  - rewrite reify_lin_eq. apply close_sext.
Qed.

Lemma materialize_sext : forall c st, sext (fst st) (fst (materialize c st)).
Proof.
  induction c; intro st.
  - destruct (is_var l && is_val r) eqn:E1.
    { destruct l; try discriminate; destruct r; try discriminate. cbn [materialize materialize_bin new_var push fst snd].
      destruct op; try apply sext_app.
      destruct (v <? nvars st)%nat; cbn [set_dom fst snd]; [|apply sext_app].
      eapply sext_trans; [apply sext_only|apply sext_app]. }
    destruct (is_val l && is_var r) eqn:E2.
    { destruct l; try discriminate; destruct r; try discriminate. cbn [materialize materialize_bin new_var push fst snd].
      destruct op; try apply sext_app.
      destruct (v <? nvars st)%nat; cbn [set_dom fst snd]; [|apply sext_app].
      eapply sext_trans; [apply sext_only|apply sext_app]. }
    rewrite materialize_gen by assumption. unfold mat_gen, push; cbn [fst].
    eapply sext_trans; apply gev_sext.
  - cbn [materialize]. eapply sext_trans; [apply IHc1|apply IHc2].
  - destruct (or_eq_pattern c1 c2) as [[[x l] r]|] eqn:E.
    + cbn [materialize]. rewrite E. apply sext_app.
    + rewrite materialize_or_eq by exact E. unfold push; cbn [fst]. apply reify_sext.
  - rewrite materialize_not_eq. unfold push; cbn [fst]. apply reify_sext.
  - cbn [materialize]. apply sext_refl.
Qed.

(* ---- scoping is preserved by folding and by linear normalisation ---- *)
Lemma fold_scoped : forall n e, escoped n e -> escoped n (fold e).
Proof.
  intros n; induction e; simpl; intros H; auto; destruct H as [H1 H2];
  specialize (IHe1 H1); specialize (IHe2 H2).
  - unfold e_add; destruct (fold e1), (fold e2); simpl in *; auto.
  - unfold e_sub; destruct (fold e1), (fold e2); simpl in *; auto.
  - unfold e_mul.
    assert (G : escoped n (if is_one (fold e2) then fold e1 else if is_one (fold e1) then fold e2 else EMul (fold e1) (fold e2))).
    { destruct (is_one (fold e2)); [exact IHe1|]. destruct (is_one (fold e1)); [exact IHe2|]. simpl; auto. }
    destruct (fold e1), (fold e2); simpl in *; auto.
  - unfold e_mod; simpl; auto.
Qed.
Lemma fold_cons_scoped : forall n c, cscoped n c -> cscoped n (fold_cons c).
Proof. intros n; induction c; simpl; intros H; try tauto. destruct H; split; apply fold_scoped; assumption. Qed.

Definition tscoped (n : nat) (t : list (Z * nat)) : Prop := Forall (fun v => (v < n)%nat) (map snd t).
Lemma merge1_scoped : forall n f g l c v, tscoped n l -> (v < n)%nat -> tscoped n (merge1 f g l c v).
Proof.
  intros n f g; unfold tscoped; induction l as [|[c0 v0] r IH]; intros c v Hl Hv; simpl.
  - constructor; auto.
  - inversion Hl; subst. destruct (Nat.eqb v0 v); simpl; constructor; auto.
Qed.
Lemma merge_scoped : forall n f g r l, tscoped n l -> tscoped n r -> tscoped n (merge f g l r).
Proof.
  intros n f g; unfold merge; induction r as [|[c v] r IH]; intros l Hl Hr; simpl; [exact Hl|].
  unfold tscoped in Hr; simpl in Hr; inversion Hr; subst. apply IH; [apply merge1_scoped; assumption|assumption].
Qed.
Lemma linform_scoped : forall n e t k, escoped n e -> linform e = Some (t, k) -> tscoped n t.
Proof.
  intros n; induction e; intros t k Hs H; simpl in H.
  - inversion H; subst; unfold tscoped; simpl; constructor; auto.
  - inversion H; subst; constructor.
  - destruct Hs as [H1 H2]. destruct (linform e1) as [[t1 k1]|]; [|discriminate]. destruct (linform e2) as [[t2 k2]|]; [|discriminate].
    simpl in H; inversion H; subst. apply merge_scoped; eauto.
  - destruct Hs as [H1 H2]. destruct (linform e1) as [[t1 k1]|]; [|discriminate]. destruct (linform e2) as [[t2 k2]|]; [|discriminate].
    simpl in H; inversion H; subst. apply merge_scoped; eauto.
  - destruct Hs as [H1 H2]. destruct e1, e2; try discriminate; inversion H; subst; unfold tscoped; simpl in *; constructor; auto.
  - discriminate.
Qed.
Lemma to_linear_scoped : forall n c, cscoped n c -> cscoped n (to_linear c).
Proof.
  intros n c H; destruct c; try exact H. simpl.
  destruct (linform l) as [[t1 k1]|] eqn:E1; [|exact H]. destruct (linform r) as [[t2 k2]|] eqn:E2; [|exact H].
  destruct H as [H1 H2]. simpl. apply merge_scoped; [apply (linform_scoped n l t1 k1 H1 E1)|apply (linform_scoped n r t2 k2 H2 E2)].
Qed.

(* pending ASTs never match the Var==Val / Var==Var patterns of infer_unbounded_from_asts and
   apply_immediate_var_eq_bounds: those comparisons are linear and were converted *)
Definition simple_bin (c : cons) : bool :=
  match c with CBin l _ r => (is_var l || is_val l) && (is_var r || is_val r) | _ => false end.
Lemma to_linear_notsimple : forall c, simple_bin (to_linear c) = false.
Proof.
  intro c; destruct c; try reflexivity. simpl.
  destruct (linform l) as [[t1 k1]|] eqn:E1; [destruct (linform r) as [[t2 k2]|] eqn:E2|]; try reflexivity.
  - destruct r; try discriminate; simpl; rewrite andb_false_r; reflexivity.
  - destruct l; try discriminate; reflexivity.
Qed.
Lemma infer_eq_noop : forall pend st, Forall (fun c => simple_bin c = false) pend -> infer_eq pend st = st.
Proof.
  unfold infer_eq; induction pend as [|c pend IH]; intros st H; [reflexivity|]. inversion H; subst. simpl.
  match goal with |- fold_left _ _ ?X = _ => assert (E : X = st) end.
  { destruct c as [l op r| | | |]; try reflexivity. destruct l, r; try reflexivity; destruct op; try reflexivity; discriminate. }
  rewrite E. apply IH; assumption.
Qed.
Lemma immediate_noop : forall pend st, Forall (fun c => simple_bin c = false) pend -> immediate_var_eq pend st = Some st.
Proof.
  unfold immediate_var_eq; induction pend as [|c pend IH]; intros st H; [reflexivity|]. inversion H; subst. simpl.
  match goal with |- fold_left _ _ ?X = _ => assert (E : X = Some st) end.
  { destruct c as [l op r| | | |]; try reflexivity. destruct l, r; try reflexivity; destruct op; try reflexivity; discriminate. }
  rewrite E. apply IH; assumption.
Qed.

(* ---- materialising the pending list ---- *)
Definition mat_all (cs : list cons) (st : lst) : lst := fold_left (fun st c => materialize c st) cs st.
Lemma mat_all_ok : forall cs st, Forall (cscoped (nvars st)) cs ->
  step st (mat_all cs st) (fun a => forall c, In c cs -> impl_cons c a = true).
Proof.
  induction cs as [|c cs IH]; intros st H; simpl.
  - apply step_refl. intros a c [].
  - inversion H; subst.
    pose proof (materialize_ok c st H2) as S1.
    assert (H3' : Forall (cscoped (nvars (materialize c st))) cs).
    { eapply Forall_impl; [|exact H3]. intros; eapply cscoped_le; [apply (st_n _ _ _ S1)|assumption]. }
    eapply step_weaken; [|eapply step_trans; [|exact S1|apply (IH _ H3')]].
    + intro a; split.
      * intros [Hc Hr] c0 [<-|Hin]; auto.
      * intro Hall; split; [apply Hall; left; reflexivity|intros c0 Hin; apply Hall; right; exact Hin].
    + intros a a' Ha Hall c0 Hin. rewrite Forall_forall in H3.
      rewrite (impl_agree _ a a' c0 (H3 c0 Hin) Ha). apply Hall; exact Hin.
Qed.

(* ---- the posting phase ---- *)
Section Build.
  Variable n : nat.
  Variable s0 : store.
  Hypothesis Hlen : length s0 = n.
  Hypothesis Hsorted : forall v, sorted (sget s0 v).

  Definition J (m : mstate) (cs : list cons) : Prop :=
    mpanic m = false ->
    muser m = seq 0 n /\ (n <= nvars (mst m))%nat /\ sext s0 (fst (mst m)) /\
    Forall (pscoped (nvars (mst m))) (snd (mst m)) /\
    Forall (cscoped n) (mpend m) /\ incl (mpend m) cs /\ Forall (fun c => simple_bin c = false) (mpend m) /\
    (forall a', inst a' (fst (mst m)) -> allsat (snd (mst m)) a' ->
        inst a' s0 /\ forall c, In c cs -> In c (mpend m) \/ impl_cons c a' = true) /\
    (forall a, inst a s0 -> (forall c, In c cs -> impl_cons c a = true) -> ne (fst (mst m)) ->
        exists a', agree n a a' /\ inst a' (fst (mst m)) /\ allsat (snd (mst m)) a').

  Lemma J_pending : forall m cs c', J m cs -> cscoped n c' -> simple_bin c' = false ->
    J (mkms (mst m) (mpend m ++ [c']) (muser m) (mpanic m)) (cs ++ [c']).
  Proof.
    intros m cs c' HJ Hc Hns Hp; simpl in *. destruct (HJ Hp) as [U [L [X [Sc [Pc [Inc [Ns [So Co]]]]]]]].
    split; [exact U|]. split; [exact L|]. split; [exact X|]. split; [exact Sc|].
    split; [apply Forall_app; split; [exact Pc|constructor; [exact Hc|constructor]]|].
    split; [intros c0 H; apply in_app_or in H; apply in_or_app; destruct H; [left; apply Inc; assumption|right; assumption]|].
    split; [apply Forall_app; split; [exact Ns|constructor; [exact Hns|constructor]]|].
    split.
    - intros a' Hi Hs. destruct (So a' Hi Hs) as [Hi0 Hall]. split; [exact Hi0|].
      intros c0 H; apply in_app_or in H. destruct H as [H|[<-|[]]].
      + destruct (Hall c0 H); [left; apply in_or_app; left; assumption|right; assumption].
      + left; apply in_or_app; right; left; reflexivity.
    - intros a Hi Hall N. apply Co; [exact Hi| |exact N]. intros c0 H; apply Hall; apply in_or_app; left; exact H.
  Qed.

  Lemma J_immediate : forall m cs c c', J m cs -> cscoped n c -> (forall a, impl_cons c a = impl_cons c' a) ->
    J (mkms (materialize c (mst m)) (mpend m) (muser m) (mpanic m)) (cs ++ [c']).
  Proof.
    intros m cs c c' HJ Hc Heq Hp; simpl in *. destruct (HJ Hp) as [U [L [X [Sc [Pc [Inc [Ns [So Co]]]]]]]].
    assert (Hc' : cscoped (nvars (mst m)) c) by (eapply cscoped_le; eauto).
    destruct (materialize_ok c (mst m) Hc') as [Hn Hne [np [E [Sn [Sos Cos]]]]].
    split; [exact U|]. split; [lia|]. split; [eapply sext_trans; [exact X|apply materialize_sext]|].
    split; [rewrite E; apply Forall_app; split; [eapply Forall_pscoped_le; eauto|exact Sn]|].
    split; [exact Pc|]. split; [intros c0 H; apply in_or_app; left; apply Inc; exact H|]. split; [exact Ns|].
    split.
    - intros a' Hi Hs. rewrite E in Hs. apply allsat_app in Hs. destruct Hs as [Hs1 Hs2].
      destruct (Sos a' Hi Hs2) as [Hi1 Him]. destruct (So a' Hi1 Hs1) as [Hi0 Hall]. split; [exact Hi0|].
      intros c0 H; apply in_app_or in H. destruct H as [H|[<-|[]]]; [apply Hall; exact H|].
      right. rewrite <- Heq; exact Him.
    - intros a Hi Hall N.
      destruct (Co a Hi (fun c0 H => Hall c0 (in_or_app _ _ _ (or_introl H))) (Hne N)) as [a1 [A1 [I1 Sat1]]].
      assert (Him : impl_cons c a1 = true).
      { cbv beta. rewrite (impl_agree n a a1 c Hc A1). rewrite Heq.
        apply Hall. apply in_or_app; right; left; reflexivity. }
      destruct (Cos a1 I1 Him N) as [a2 [A2 [I2 Sat2]]].
      exists a2. split; [eapply agree_trans; [|exact A1|exact A2]; exact L|]. split; [exact I2|].
      rewrite E. apply allsat_app; split; [eapply allsat_agree; eauto|exact Sat2].
  Qed.

  Lemma user_sorted : forall s v, sext s0 s -> (v < n)%nat -> sorted (sget s v).
  Proof. intros s v [_ H] Hv. eapply shrunk_sorted; [apply H; rewrite Hlen; exact Hv|apply Hsorted]. Qed.

  Lemma J_edit : forall m cs v1 v2 st', J m cs -> (v1 < n)%nat -> (v2 < n)%nat ->
    (forall a, (forall c, In c cs -> impl_cons c a = true) -> a v1 = a v2) ->
    var_eq_bounds v1 v2 (mst m) = Some st' ->
    J (mkms st' (mpend m) (muser m) (mpanic m)) cs.
  Proof.
    intros m cs v1 v2 st' HJ H1 H2 Heq Hv Hp; simpl in *. destruct (HJ Hp) as [U [L [X [Sc [Pc [Inc [Ns [So Co]]]]]]]].
    unfold var_eq_bounds in Hv.
    assert (B1 : (v1 <? nvars (mst m))%nat = true) by (apply Nat.ltb_lt; lia).
    assert (B2 : (v2 <? nvars (mst m))%nat = true) by (apply Nat.ltb_lt; lia).
    rewrite B1, B2 in Hv; simpl in Hv.
    set (s := fst (mst m)) in *. set (d1 := sget s v1) in *. set (d2 := sget s v2) in *.
    destruct (dempty d1 || dempty d2);
      [inversion Hv; subst st'; exact (conj U (conj L (conj X (conj Sc (conj Pc (conj Inc (conj Ns (conj So Co))))))))|].
    set (lo := if dmin d2 <? dmin d1 then dmin d1 else dmin d2) in *.
    set (hi := if dmax d1 <? dmax d2 then dmax d1 else dmax d2) in *.
    destruct (lo <=? hi) eqn:Elh;
      [|inversion Hv; subst st'; exact (conj U (conj L (conj X (conj Sc (conj Pc (conj Inc (conj Ns (conj So Co))))))))].
    set (keep := filter (fun x => negb ((x <? lo) || (hi <? x)))) in *.
    inversion Hv; subst st'; clear Hv. unfold set_dom; cbn [fst snd].
    assert (Ln : (n <= length s)%nat) by (unfold nvars in L; subst s; lia).
    assert (Lv1 : (v1 < length s)%nat) by (unfold nvars in L; subst s; lia).
    assert (Lv2 : (v2 < length s)%nat) by (unfold nvars in L; subst s; lia).
    subst s. set (s := fst (mst m)) in *. set (s1 := supd s v1 (keep d1)) in *. set (s2 := supd s1 v2 (keep (sget s1 v2))) in *.
    assert (Ls1 : length s1 = length s) by apply supd_length.
    assert (Ls2 : length s2 = length s) by (unfold s2; rewrite supd_length; exact Ls1).
    assert (Sub : forall a, inst a s2 -> inst a s).
    { intros a Hi u Hu. destruct (Nat.eq_dec u v2) as [->|N2].
      - assert (Q : In (a v2) (sget s2 v2)) by (apply Hi; lia).
        unfold s2 in Q; rewrite sget_supd_same in Q by lia. apply filter_In in Q. destruct Q as [Q _].
        destruct (Nat.eq_dec v2 v1) as [->|N1].
        + unfold s1 in Q; rewrite sget_supd_same in Q by lia. apply filter_In in Q; tauto.
        + unfold s1 in Q; rewrite sget_supd_other in Q by exact N1. exact Q.
      - assert (Q : In (a u) (sget s2 u)) by (apply Hi; lia).
        unfold s2 in Q; rewrite sget_supd_other in Q by exact N2.
        destruct (Nat.eq_dec u v1) as [->|N1].
        + unfold s1 in Q; rewrite sget_supd_same in Q by lia. apply filter_In in Q; tauto.
        + unfold s1 in Q; rewrite sget_supd_other in Q by exact N1. exact Q. }
    split; [exact U|]. split; [unfold nvars; cbn [fst]; rewrite Ls2; exact Ln|].
    split.
    { eapply sext_trans; [exact X|]. cbn [fst]. split; [rewrite Ls2; apply Nat.le_refl|]. intros u Hu.
      destruct (Nat.eq_dec u v2) as [->|N2].
      - unfold s2; rewrite sget_supd_same by lia. destruct (Nat.eq_dec v2 v1) as [->|N1].
        + unfold s1; rewrite sget_supd_same by lia. right; right. unfold keep; rewrite filter_filter; eauto.
        + unfold s1; rewrite sget_supd_other by exact N1. right; right; unfold keep; eauto.
      - unfold s2; rewrite sget_supd_other by exact N2. destruct (Nat.eq_dec u v1) as [->|N1].
        + unfold s1; rewrite sget_supd_same by lia. right; right; unfold keep; eauto.
        + unfold s1; rewrite sget_supd_other by exact N1. apply shrunk_refl. }
    split; [unfold nvars in *; cbn [fst snd]; rewrite Ls2; exact Sc|].
    split; [exact Pc|]. split; [exact Inc|]. split; [exact Ns|]. split.
    - intros a' Hi Hs. apply So; [apply Sub; exact Hi|exact Hs].
    - intros a Hi Hall N.
      assert (N0 : ne s).
      { intros u Hu E0. specialize (N u). rewrite Ls2 in N. specialize (N Hu). apply N.
        destruct (Nat.eq_dec u v2) as [->|N2].
        - unfold s2; rewrite sget_supd_same by lia. destruct (Nat.eq_dec v2 v1) as [->|N1].
          + unfold s1; rewrite sget_supd_same by lia. fold s in E0. unfold d1. rewrite E0. reflexivity.
          + unfold s1; rewrite sget_supd_other by exact N1. fold s in E0. rewrite E0. reflexivity.
        - unfold s2; rewrite sget_supd_other by exact N2. destruct (Nat.eq_dec u v1) as [->|N1].
          + unfold s1; rewrite sget_supd_same by lia. fold s in E0. unfold d1. rewrite E0. reflexivity.
          + unfold s1; rewrite sget_supd_other by exact N1. exact E0. }
      destruct (Co a Hi Hall N0) as [a1 [A1 [I1 Sat1]]]. exists a1. split; [exact A1|]. split; [|exact Sat1].
      pose proof (Heq a Hall) as E12.
      assert (In1 : In (a1 v1) d1) by (apply I1; exact Lv1). assert (In2 : In (a1 v2) d2) by (apply I1; exact Lv2).
      assert (S1 : sorted d1) by (apply user_sorted; [exact X|exact H1]).
      assert (S2 : sorted d2) by (apply user_sorted; [exact X|exact H2]).
      assert (E12' : a1 v1 = a1 v2) by (rewrite (A1 v1 H1), (A1 v2 H2); exact E12).
      pose proof (dmin_least d1 _ S1 In1). pose proof (dmax_greatest d1 _ S1 In1).
      pose proof (dmin_least d2 _ S2 In2). pose proof (dmax_greatest d2 _ S2 In2).
      assert (Rng : lo <= a1 v1 <= hi).
      { subst lo hi. destruct (dmin d2 <? dmin d1) eqn:Ea, (dmax d1 <? dmax d2) eqn:Eb;
        try apply Z.ltb_lt in Ea; try apply Z.ltb_ge in Ea; try apply Z.ltb_lt in Eb; try apply Z.ltb_ge in Eb; lia. }
      assert (Kp : forall x d, In x d -> lo <= x <= hi -> In x (keep d)).
      { intros x d Hx Hr. unfold keep. apply filter_In. split; [exact Hx|].
        destruct (Z.ltb_spec x lo), (Z.ltb_spec hi x); simpl; try reflexivity; lia. }
      intros u Hu. rewrite Ls2 in Hu. destruct (Nat.eq_dec u v2) as [->|N2].
      + unfold s2; rewrite sget_supd_same by lia. apply Kp; [|lia].
        destruct (Nat.eq_dec v2 v1) as [->|N1].
        * unfold s1; rewrite sget_supd_same by lia. apply Kp; [exact In1|lia].
        * unfold s1; rewrite sget_supd_other by exact N1. exact In2.
      + unfold s2; rewrite sget_supd_other by exact N2. destruct (Nat.eq_dec u v1) as [->|N1].
        * unfold s1; rewrite sget_supd_same by lia. apply Kp; [exact In1|lia].
        * unfold s1; rewrite sget_supd_other by exact N1. apply I1; exact Hu.
  Qed.
End Build.

(* ---- programs: a declaration phase followed by a posting phase ---- *)
Definition is_decl (s : stmt) : bool := match s with SInt _ _ | SSet _ | SBool => true | _ => false end.
Definition decl_dom (s : stmt) : dom :=
  match s with SInt lo hi => drange lo hi | SSet vs => dof_values vs | _ => drange 0 1 end.
(* the AST a posting statement stores (VarIds = ordinals for two-phase programs) *)
Definition post_form (s : stmt) : option cons :=
  match s with
  | SNew c => Some (to_linear (fold_cons c))
  | SLin op cs xs k => Some (CLinInt cs xs op k)
  | _ => None
  end.
Definition post_wf (n : nat) (s : stmt) : Prop :=
  match s with
  | SNew c => cscoped n c
  | SLin _ cs xs _ => length cs = length xs /\ Forall (fun v => (v < n)%nat) xs
  | _ => False
  end.

Lemma seq_snoc : forall n, seq 0 (S n) = seq 0 n ++ [n].
Proof. intro n. rewrite seq_S. reflexivity. Qed.

Lemma build_decls_gen : forall decls s, forallb is_decl decls = true ->
  fold_left (fun m st => exec st m) decls (mkms (s, []) [] (seq 0 (length s)) false) =
  mkms (s ++ map decl_dom decls, []) [] (seq 0 (length s + length decls)) false.
Proof.
  induction decls as [|d decls IH]; intros s H; simpl.
  - rewrite app_nil_r, Nat.add_0_r; reflexivity.
  - simpl in H. apply andb_true_iff in H. destruct H as [Hd H].
    assert (E : exec d (mkms (s, []) [] (seq 0 (length s)) false) = mkms (s ++ [decl_dom d], []) [] (seq 0 (length (s ++ [decl_dom d]))) false).
    { rewrite app_length; simpl. rewrite Nat.add_1_r, seq_snoc.
      destruct d; try discriminate; reflexivity. }
    rewrite E, (IH _ H). rewrite <- app_assoc, app_length; simpl. f_equal. f_equal. lia.
Qed.
Lemma build_decls : forall decls, forallb is_decl decls = true ->
  build decls = mkms (map decl_dom decls, []) [] (seq 0 (length decls)) false.
Proof. intros decls H. unfold build, ms0. apply (build_decls_gen decls [] H). Qed.

Lemma uv_seq : forall m n i, muser m = seq 0 n -> uv m i = i.
Proof.
  intros m n i H; unfold uv; rewrite H. destruct (Nat.lt_ge_cases i n) as [L|L].
  - rewrite seq_nth by exact L. reflexivity.
  - apply nth_overflow. rewrite seq_length; exact L.
Qed.
Lemma rn_expr_id : forall f e, (forall i, f i = i) -> rn_expr f e = e.
Proof. intros f e H; induction e; simpl; try rewrite IHe1, IHe2; try rewrite H; reflexivity. Qed.
Lemma rn_cons_id : forall f c, (forall i, f i = i) -> rn_cons f c = c.
Proof.
  intros f c H; induction c; simpl; try rewrite IHc1, IHc2; try rewrite IHc; try rewrite !rn_expr_id by exact H; try reflexivity.
  f_equal. rewrite <- (map_id xs) at 2. apply map_ext; exact H.
Qed.

Definition pkind (c : cons) : nat :=
  match c with
  | CBin (EVar _) OEq (EVar _) => 1
  | CBin (EVar _) OEq (EVal _) | CBin (EVal _) OEq (EVar _) => 2
  | _ => 0
  end%nat.
Lemma post_kind0 : forall c m, pkind c = 0%nat ->
  post c m = mkms (mst m) (mpend m ++ [to_linear c]) (muser m) (mpanic m).
Proof.
  intros c m H; destruct c as [l op r| | | |]; try reflexivity.
  destruct l, op, r; try discriminate H; reflexivity.
Qed.

Lemma impl_lin_eval : forall c a cs xs op k, to_linear c = CLinInt cs xs op k ->
  eval_cons c a = Some (impl_cons (to_linear c) a).
Proof. intros c a cs xs op k E. rewrite <- (to_linear_correct c a), E. reflexivity. Qed.

Section BuildPosts.
  Variable n : nat.
  Variable s0 : store.
  Hypothesis Hlen : length s0 = n.
  Hypothesis Hsorted : forall v, sorted (sget s0 v).

  Lemma post_J : forall m cs c, J n s0 m cs -> cscoped n c -> J n s0 (post c m) (cs ++ [to_linear c]).
  Proof.
    intros m cs c HJ Hc.
    assert (Hlc : cscoped n (to_linear c)) by (apply to_linear_scoped; exact Hc).
    destruct (pkind c) as [|[|k]] eqn:K.
    - rewrite post_kind0 by exact K. apply J_pending; [exact HJ|exact Hlc|apply to_linear_notsimple].
    - destruct c as [l op r| | | |]; try discriminate K.
      destruct l as [v1| | | | |]; try discriminate K; destruct op; try discriminate K; destruct r as [v2| | | | |]; try discriminate K.
      destruct Hc as [H1 H2]; simpl in H1, H2.
      pose proof (J_pending n s0 m cs _ HJ Hlc (to_linear_notsimple _)) as HJ1.
      unfold post. destruct (var_eq_bounds v1 v2 (mst m)) as [st'|] eqn:Ev.
      + cbn [mst mpend muser mpanic].
        refine (J_edit n s0 Hlen Hsorted (mkms (mst m) (mpend m ++ [to_linear (CBin (EVar v1) OEq (EVar v2))]) (muser m) (mpanic m)) _ v1 v2 st' HJ1 H1 H2 _ Ev).
        intros a Hall.
        assert (Q : impl_cons (to_linear (CBin (EVar v1) OEq (EVar v2))) a = true) by (apply Hall; apply in_or_app; right; left; reflexivity).
        assert (E : eval_cons (CBin (EVar v1) OEq (EVar v2)) a = Some (impl_cons (to_linear (CBin (EVar v1) OEq (EVar v2))) a)).
        { eapply impl_lin_eval. reflexivity. }
        rewrite Q in E. simpl in E. inversion E as [E']. apply Z.eqb_eq in E'. exact E'.
      + intros Hp; discriminate Hp.
    - assert (K2 : pkind c = 2%nat).
      { destruct c as [l op r| | | |]; try discriminate K. destruct l, op, r; try discriminate K; reflexivity. }
      assert (Heq : forall a, impl_cons c a = impl_cons (to_linear c) a).
      { intro a. destruct c as [l op r| | | |]; try discriminate K2.
        destruct l, op, r; try discriminate K2;
        (match goal with |- impl_cons ?c a = _ =>
           assert (E : eval_cons c a = Some (impl_cons (to_linear c) a)) by (eapply impl_lin_eval; reflexivity) end;
         simpl in E; inversion E as [E']; cbn [impl_cons eval_expr]; exact E'). }
      assert (P : post c m = mkms (materialize c (mst m)) (mpend m) (muser m) (mpanic m)).
      { destruct c as [l op r| | | |]; try discriminate K2. destruct l, op, r; try discriminate K2; reflexivity. }
      rewrite P. apply J_immediate; assumption.
  Qed.

  Lemma post_panic_mono : forall c m, mpanic (post c m) = false -> mpanic m = false.
  Proof.
    intros c m H. destruct (pkind c) as [|[|k]] eqn:K.
    - rewrite post_kind0 in H by exact K. exact H.
    - destruct c as [l op r| | | |]; try discriminate K.
      destruct l as [v1| | | | |]; try discriminate K; destruct op; try discriminate K; destruct r as [v2| | | | |]; try discriminate K.
      unfold post in H. destruct (var_eq_bounds v1 v2 (mst m)); [exact H|discriminate H].
    - destruct c as [l op r| | | |]; try discriminate K. destruct l, op, r; try discriminate K; exact H.
  Qed.

  Lemma exec_J : forall m cs s c', (mpanic m = false -> muser m = seq 0 n) -> J n s0 m cs -> post_wf n s -> post_form s = Some c' ->
    J n s0 (exec s m) (cs ++ [c']) /\ (mpanic (exec s m) = false -> mpanic m = false).
  Proof.
    intros m cs s c' HU HJ Hwf Hf. destruct s; try discriminate Hf; simpl in Hwf, Hf; inversion Hf; subst c'; clear Hf.
    - (* SNew *)
      assert (G : mpanic m = false -> exec (SNew c) m = post (fold_cons c) m).
      { intro Hp. simpl. rewrite rn_cons_id; [reflexivity|]. intro i. apply (uv_seq m n); auto. }
      split.
      + intro Hp. assert (Hp0 : mpanic m = false).
        { simpl in Hp. eapply post_panic_mono; exact Hp. }
        rewrite (G Hp0) in *. apply (post_J m cs (fold_cons c) HJ (fold_cons_scoped n c Hwf) Hp).
      + simpl. apply post_panic_mono.
    - (* SLin *)
      destruct Hwf as [Hl Hx]. simpl. apply Nat.eqb_eq in Hl. rewrite Hl. split; [|auto].
      intro Hp; cbn [mpanic] in Hp.
      assert (Em : map (uv m) xs = xs).
      { rewrite <- (map_id xs) at 2. apply map_ext. intro i. apply (uv_seq m n); auto. }
      rewrite Em. apply (J_pending n s0 m cs (CLinInt cs0 xs op k) HJ Hx eq_refl Hp).
  Qed.
End BuildPosts.

(* ---- declared domains are sorted ---- *)
Lemma zrange_aux_sorted : forall k lo, sorted (zrange_aux lo k).
Proof.
  induction k as [|k IH]; intro lo; simpl; [exact I|].
  apply sorted_cons_iff. split; [|apply IH].
  intros y Hy. apply zrange_aux_In in Hy. lia.
Qed.
Lemma drange_sorted : forall lo hi, sorted (drange lo hi).
Proof. intros; unfold drange, zrange; apply zrange_aux_sorted. Qed.
Lemma decl_dom_sorted : forall s, sorted (decl_dom s).
Proof. intro s; destruct s; unfold decl_dom; try apply drange_sorted; apply zsort_sorted. Qed.
Lemma decls_sorted : forall decls v, sorted (sget (map decl_dom decls) v).
Proof.
  intros decls v; unfold sget. destruct (Nat.lt_ge_cases v (length (map decl_dom decls))) as [L|L].
  - rewrite map_length in L. rewrite (nth_indep _ [] (decl_dom SBool)) by (rewrite map_length; exact L).
    rewrite map_nth. apply decl_dom_sorted.
  - rewrite nth_overflow by exact L. exact I.
Qed.

Fixpoint post_forms (posts : list stmt) : list cons :=
  match posts with
  | [] => []
  | s :: r => match post_form s with Some c => c :: post_forms r | None => post_forms r end
  end.

Lemma post_form_scoped : forall n s c, post_wf n s -> post_form s = Some c -> cscoped n c.
Proof.
  intros n s c Hw Hf; destruct s; try discriminate Hf; simpl in *; inversion Hf; subst.
  - apply to_linear_scoped, fold_cons_scoped; exact Hw.
  - simpl; tauto.
Qed.
Lemma post_forms_scoped : forall n posts, Forall (post_wf n) posts -> Forall (cscoped n) (post_forms posts).
Proof.
  intros n; induction posts as [|s r IH]; intro H; simpl; [constructor|]. inversion H; subst.
  destruct (post_form s) eqn:E; [constructor; [eapply post_form_scoped; eauto|auto]|auto].
Qed.

Section Program.
  Variable decls posts : list stmt.
  Hypothesis Hdecls : forallb is_decl decls = true.
  Let n := length decls.
  Let s0 : store := map decl_dom decls.
  Hypothesis Hposts : Forall (post_wf n) posts.

  Lemma s0_len : length s0 = n. Proof. unfold s0, n; apply map_length. Qed.
  Lemma s0_sorted : forall v, sorted (sget s0 v). Proof. apply decls_sorted. Qed.

  Lemma J_init : J n s0 (build decls) [].
  Proof.
    rewrite (build_decls decls Hdecls). intros _; cbn [mst mpend muser mpanic fst snd]. unfold nvars; cbn [fst].
    fold n. fold s0. rewrite s0_len.
    split; [reflexivity|]. split; [lia|]. split; [apply sext_refl|]. split; [constructor|]. split; [constructor|].
    split; [intros c []|]. split; [constructor|]. split.
    - intros a' Hi _. split; [exact Hi|intros c []].
    - intros a Hi _ _. exists a. split; [apply agree_refl|]. split; [exact Hi|apply allsat_nil].
  Qed.

  Lemma posts_J : forall ps m cs, J n s0 m cs -> Forall (post_wf n) ps ->
    let m' := fold_left (fun m s => exec s m) ps m in
    J n s0 m' (cs ++ post_forms ps) /\ (mpanic m' = false -> mpanic m = false).
  Proof.
    induction ps as [|s r IH]; intros m cs HJ Hw; simpl.
    - rewrite app_nil_r. auto.
    - inversion Hw; subst.
      assert (Ex : exists c', post_form s = Some c') by (destruct s; simpl in H1; try tauto; eexists; reflexivity).
      destruct Ex as [c' Ec]. rewrite Ec.
      destruct (exec_J n s0 s0_len s0_sorted m cs s c' (fun Hp => proj1 (HJ Hp)) HJ H1 Ec) as [HJ1 Hm1].
      destruct (IH (exec s m) (cs ++ [c']) HJ1 H2) as [HJ2 Hm2].
      rewrite <- app_assoc in HJ2. simpl in HJ2. split; [exact HJ2|]. intro Hp. apply Hm1, Hm2, Hp.
  Qed.

  (* EXACT denotation of the lowered model, known classes included: an assignment of the user's
     variables extends to the auxiliaries so that every domain and every propagator description is
     satisfied iff it lies in the declared domains, satisfies `impl_cons` of every stored AST, and
     the lowered model is in range (no empty domain: doms_nonempty; an auxiliary variable whose
     computed range exceeds the size limit is represented by the empty domain) *)
  Theorem lower_denotes_exact : forall s ps, lower (build (decls ++ posts)) = LOk s ps ->
    forall a, (exists a', agree n a a' /\ inst a' s /\ allsat ps a') <->
              (inst a s0 /\ (forall c, In c (post_forms posts) -> impl_cons c a = true) /\ doms_nonempty s = true).
  Proof.
    intros s ps Hl a.
    unfold build in Hl. rewrite fold_left_app in Hl. fold (build decls) in Hl.
    destruct (posts_J posts (build decls) [] J_init Hposts) as [HJ _]. simpl in HJ.
    set (m := fold_left (fun m s => exec s m) posts (build decls)) in *.
    unfold lower in Hl. destruct (mpanic m) eqn:Hp; [discriminate|].
    destruct (HJ Hp) as [U [L [X [Sc [Pc [Inc [Ns [So Co]]]]]]]].
    rewrite (infer_eq_noop _ _ Ns), (immediate_noop _ _ Ns) in Hl. inversion Hl; subst s ps; clear Hl.
    fold (mat_all (mpend m) (mst m)).
    assert (Pc' : Forall (cscoped (nvars (mst m))) (mpend m)).
    { eapply Forall_impl; [|exact Pc]. intros; eapply cscoped_le; eauto. }
    destruct (mat_all_ok (mpend m) (mst m) Pc') as [Hn Hne [np [E [Sn [Sos Cos]]]]].
    pose proof (post_forms_scoped n posts Hposts) as Hsc. rewrite Forall_forall in Hsc.
    split.
    - intros [a' [A [Hi Hs]]]. rewrite E in Hs. apply allsat_app in Hs. destruct Hs as [Hs1 Hs2].
      destruct (Sos a' Hi Hs2) as [Hi1 Hpend]. destruct (So a' Hi1 Hs1) as [Hi0 Hall].
      split; [|split; [|apply doms_nonempty_ne; eapply inst_ne; exact Hi]].
      + eapply inst_agree; [rewrite s0_len; apply agree_sym; exact A|exact Hi0].
      + intros c Hc. cbv beta. rewrite <- (impl_agree n a a' c (Hsc c Hc) A).
        destruct (Hall c Hc) as [Hin|Ht]; [apply Hpend; exact Hin|exact Ht].
    - intros [Hi [Hall N]]. apply doms_nonempty_ne in N. destruct (Co a Hi Hall (Hne N)) as [a1 [A1 [I1 Sat1]]].
      assert (Hp1 : forall c, In c (mpend m) -> impl_cons c a1 = true).
      { intros c Hc. cbv beta. rewrite (impl_agree n a a1 c (Hsc c (Inc c Hc)) A1). apply Hall, Inc, Hc. }
      destruct (Cos a1 I1 Hp1 N) as [a2 [A2 [I2 Sat2]]].
      exists a2. split; [eapply agree_trans; [|exact A1|exact A2]; exact L|]. split; [exact I2|].
      rewrite E. apply allsat_app; split; [eapply allsat_agree; eauto|exact Sat2].
  Qed.
  (* the user's variables are variables of the final store *)
  Lemma lower_nvars : forall s ps, lower (build (decls ++ posts)) = LOk s ps -> (n <= length s)%nat.
  Proof.
    intros s ps Hl.
    unfold build in Hl. rewrite fold_left_app in Hl. fold (build decls) in Hl.
    destruct (posts_J posts (build decls) [] J_init Hposts) as [HJ _]. simpl in HJ.
    set (m := fold_left (fun m s => exec s m) posts (build decls)) in *.
    unfold lower in Hl. destruct (mpanic m) eqn:Hp; [discriminate|].
    destruct (HJ Hp) as [U [L [X [Sc [Pc [Inc [Ns [So Co]]]]]]]].
    rewrite (infer_eq_noop _ _ Ns), (immediate_noop _ _ Ns) in Hl. inversion Hl; subst s ps; clear Hl.
    fold (mat_all (mpend m) (mst m)).
    assert (Pc' : Forall (cscoped (nvars (mst m))) (mpend m)).
    { eapply Forall_impl; [|exact Pc]. intros; eapply cscoped_le; eauto. }
    pose proof (st_n _ _ _ (mat_all_ok (mpend m) (mst m) Pc')) as Hn. unfold nvars in *. lia.
  Qed.
End Program.

(* ============================================================================================ *)
(* D. outside the known classes the lowered model denotes the arithmetic reading                 *)
(* ============================================================================================ *)
Lemma holds_and : forall p q a, holds (CAnd p q) a = holds p a && holds q a.
Proof. intros p q a; unfold holds; simpl. destruct (eval_cons p a) as [[|]|], (eval_cons q a) as [[|]|]; reflexivity. Qed.

(* what the (repaired) lowering enforces IS the arithmetic reading, for every tree *)
Lemma impl_holds : forall c a, impl_cons c a = holds c a.
Proof.
  induction c; intros a.
  - unfold holds; cbn [impl_cons eval_cons].
    destruct (eval_expr l a), (eval_expr r a); cbn [obind]; try reflexivity.
    destruct (cmp_sem op z z0); reflexivity.
  - rewrite holds_and. cbn [impl_cons]. rewrite IHc1, IHc2. reflexivity.
  - reflexivity.
  - reflexivity.
  - unfold holds; simpl. destruct (cmp_sem op (lin_val cs xs a) k); reflexivity.
Qed.

(* the pre-repair lowering enforced the arithmetic reading only outside the class kf_or_not *)
Lemma impl_prefix_holds : forall c a, kf_or_not c = false -> impl_cons_prefix c a = holds c a.
Proof.
  induction c; intros a Hk; simpl in Hk.
  - unfold holds; cbn [impl_cons_prefix eval_cons].
    destruct (eval_expr l a), (eval_expr r a); cbn [obind]; try reflexivity.
    destruct (cmp_sem op z z0); reflexivity.
  - apply orb_false_iff in Hk. destruct Hk as [K1 K2].
    rewrite holds_and. cbn [impl_cons_prefix].
    rewrite IHc1, IHc2 by assumption. reflexivity.
  - cbn [impl_cons_prefix]. destruct (or_eq_pattern c1 c2) as [[[x l] r]|] eqn:E; [|discriminate].
    apply or_eq_pattern_some in E. destruct E as [-> ->]. unfold holds; simpl.
    destruct ((a x =? l) || (a x =? r)); reflexivity.
  - discriminate.
  - unfold holds; simpl. destruct (cmp_sem op (lin_val cs xs a) k); reflexivity.
Qed.

Lemma kf_to_linear : forall c, kf_or_not (to_linear c) = kf_or_not c.
Proof. intro c; destruct c; try reflexivity. simpl. destruct (linform l) as [[? ?]|]; [destruct (linform r) as [[? ?]|]|]; reflexivity. Qed.

Lemma stored_holds : forall c a, impl_cons (to_linear (fold_cons c)) a = holds c a.
Proof.
  intros c a. rewrite impl_holds.
  unfold holds. rewrite to_linear_correct, fold_cons_correct. reflexivity.
Qed.

(* validate = None implies the in-range condition *)
Lemma validate_none_nonempty : forall s ps, validate s ps = None -> doms_nonempty s = true.
Proof.
  intros s ps H. unfold validate in H.
  destruct (existsb dempty s) eqn:E; [discriminate|].
  unfold doms_nonempty. apply forallb_forall. intros d Hd.
  destruct (dempty d) eqn:Ed; [|reflexivity].
  assert (X : existsb dempty s = true).
  { apply existsb_exists. exists d. split; [exact Hd|exact Ed]. }
  congruence.
Qed.
(* a store the engine accepts (every domain non-empty and sorted) is in range *)
Lemma wf_store_nonempty : forall s : store, wf_store s -> doms_nonempty s = true.
Proof. intros s H. apply doms_nonempty_ne. intros v Hv. apply (H v Hv). Qed.

Section Denotes.
  Variable decls posts : list stmt.
  Hypothesis Hdecls : forallb is_decl decls = true.
  Let n := length decls.
  Let s0 : store := map decl_dom decls.
  Hypothesis Hposts : Forall (post_wf n) posts.

  Lemma forms_hold : forall a,
    ((forall c, In c (post_forms posts) -> impl_cons c a = true) <->
     (forall st c, In st posts -> stmt_cons st = Some c -> eval_cons c a = Some true)).
  Proof.
    intros a. clear Hdecls. revert Hposts. generalize posts as ps.
    induction ps as [|st r IH]; intros Hw; simpl.
    - split; [intros _ st c []|intros _ c []].
    - inversion Hw; subst.
      assert (IH' := IH H2).
      assert (Key : exists f, post_form st = Some f /\ exists c, stmt_cons st = Some c /\ (impl_cons f a = true <-> eval_cons c a = Some true)).
      { destruct st; simpl in H1; try tauto.
        - exists (to_linear (fold_cons c)). split; [reflexivity|]. exists c. split; [reflexivity|].
          rewrite stored_holds. apply holds_true_iff.
        - exists (CLinInt cs xs op k). split; [reflexivity|]. exists (CLinInt cs xs op k). split; [reflexivity|].
          simpl. split; [intros ->; reflexivity|intro E; inversion E; reflexivity]. }
      destruct Key as [f [Ef [c [Ec Eq]]]]. rewrite Ef. split.
      + intros H st' c' [<-|Hin] Hsc.
        * rewrite Ec in Hsc; inversion Hsc; subst c'. apply Eq. apply H; left; reflexivity.
        * apply (proj1 IH' (fun c0 Hc0 => H c0 (or_intror Hc0)) st' c' Hin Hsc).
      + intros H c0 [<-|Hin].
        * apply Eq. apply (H st c (or_introl eq_refl) Ec).
        * apply (proj2 IH' (fun st' c' Hin' => H st' c' (or_intror Hin')) c0 Hin).
  Qed.

  (* C10, integer fragment, EVERY tree (and / or / not included: the class or_not is repaired): the
     lowered propagator set (with the final domains) has, projected on
     the user's variables, exactly the assignments inside the declared domains at which every
     posted tree evaluates to true (the auxiliary variables of compound sub-expressions and the
     hidden booleans of reified sub-trees are existentially quantified: a') -- for a lowered model that is in range (doms_nonempty: no
     auxiliary variable's computed range exceeded the size limit; implied by validate = None) *)
  Theorem lower_denotes : forall s ps, lower (build (decls ++ posts)) = LOk s ps ->
    doms_nonempty s = true ->
    forall a, (exists a', agree n a a' /\ inst a' s /\ allsat ps a') <->
              (inst a s0 /\ forall st c, In st posts -> stmt_cons st = Some c -> eval_cons c a = Some true).
  Proof.
    intros s ps Hl Hne a. pose proof (lower_denotes_exact decls posts Hdecls Hposts s ps Hl a) as E.
    split.
    - intro H. apply E in H. destruct H as [Hi [H _]]. split; [exact Hi|]. apply (proj1 (forms_hold a)); exact H.
    - intros [Hi H]. apply E. split; [exact Hi|]. split; [apply (proj2 (forms_hold a)); exact H|exact Hne].
  Qed.
End Denotes.

(* equivalent spellings: two posting sequences over the same declarations whose trees have the
   same arithmetic reading lower to models with the same solutions on the user's variables *)
Theorem spellings_agree : forall decls posts1 posts2 s1 ps1 s2 ps2,
  forallb is_decl decls = true ->
  Forall (post_wf (length decls)) posts1 -> Forall (post_wf (length decls)) posts2 ->
  (forall a, (forall st c, In st posts1 -> stmt_cons st = Some c -> eval_cons c a = Some true) <->
             (forall st c, In st posts2 -> stmt_cons st = Some c -> eval_cons c a = Some true)) ->
  lower (build (decls ++ posts1)) = LOk s1 ps1 -> lower (build (decls ++ posts2)) = LOk s2 ps2 ->
  doms_nonempty s1 = true -> doms_nonempty s2 = true ->
  forall a, (exists a', agree (length decls) a a' /\ inst a' s1 /\ allsat ps1 a') <->
            (exists a', agree (length decls) a a' /\ inst a' s2 /\ allsat ps2 a').
Proof.
  intros decls posts1 posts2 s1 ps1 s2 ps2 Hd W1 W2 Heq L1 L2 N1 N2 a.
  pose proof (lower_denotes decls posts1 Hd W1 s1 ps1 L1 N1 a) as E1.
  pose proof (lower_denotes decls posts2 Hd W2 s2 ps2 L2 N2 a) as E2.
  split; intro H.
  - apply E2. apply E1 in H. destruct H as [Hi H]. split; [exact Hi|]. apply Heq; exact H.
  - apply E1. apply E2 in H. destruct H as [Hi H]. split; [exact Hi|]. apply Heq; exact H.
Qed.

(* x.add(y).le(z)  ==  lin_le([1,1,-1],[x,y,z],0)  ==  z.ge(y.add(x)) *)
Lemma spelling_add_le : forall x y z a,
  eval_cons (CBin (EAdd (EVar x) (EVar y)) OLe (EVar z)) a = eval_cons (CLinInt [1; 1; -1] [x; y; z] OLe 0) a /\
  eval_cons (CBin (EVar z) OGe (EAdd (EVar y) (EVar x))) a = eval_cons (CLinInt [1; 1; -1] [x; y; z] OLe 0) a.
Proof.
  intros x y z a; cbn [eval_cons eval_expr obind cmp_sem lin_val]. split; f_equal;
  repeat match goal with |- context [?p <=? ?q] => destruct (Z.leb_spec p q) end; try reflexivity; lia.
Qed.

(* ============================================================================================ *)
(* E. the known classes are inhabited by genuine counterexamples (witnesses by computation)      *)
(* ============================================================================================ *)
Definition x0 := EVar 0.
Definition x1 := EVar 1.

Definition c_or_w : cons := COr (CBin x0 OLe (EVal 1)) (CBin x0 OGe (EVal 3)).
Definition c_not_w : cons := CNot (CBin x0 OLe (EVal 1)).
Definition c_anyof_w : cons := COr (COr (CBin x0 OLe (EVal 0)) (CBin x0 OEq (EVal 2))) (CBin x0 OGe (EVal 3)).

Lemma inst_0_3 : forall k, 0 <= k <= 3 -> inst (fun _ => k) (map decl_dom [SInt 0 3]).
Proof.
  intros k Hk v Hv; simpl in Hv. destruct v; [|lia].
  change (In k (drange 0 3)). apply drange_In. lia.
Qed.

(* D3 BEFORE the repair (lower_prefix = the lowering with materialize_prefix): x in 0..3,
   x <= 1 \/ x >= 3: x = 0 satisfies the tree, the lowered model (both sides posted) has no solution *)
Lemma or_prefix_refuted : exists decls c a s ps,
  kf_or_not (fold_cons c) = true /\ lower_prefix (build (decls ++ [SNew c])) = LOk s ps /\
  inst a (map decl_dom decls) /\ eval_cons c a = Some true /\
  ~ (exists a', agree (length decls) a a' /\ inst a' s /\ allsat ps a').
Proof.
  exists [SInt 0 3], c_or_w, (fun _ => 0).
  eexists; eexists. split; [reflexivity|]. split; [vm_compute; reflexivity|].
  split; [apply inst_0_3; lia|]. split; [reflexivity|].
  intros [a' [A [I S]]].
  pose proof (I 1%nat ltac:(simpl; lia)) as I1. pose proof (I 2%nat ltac:(simpl; lia)) as I2.
  pose proof (S _ (or_introl eq_refl)) as S1. pose proof (S _ (or_intror (or_introl eq_refl))) as S2.
  cbn in I1, I2, S1, S2. destruct I1 as [I1|[]]. destruct I2 as [I2|[]].
  apply Z.leb_le in S1. apply Z.leb_le in S2. lia.
Qed.

(* D3 before the repair: x in 0..3, not (x <= 1): x = 3 satisfies the tree and was excluded *)
Lemma not_prefix_refuted : exists decls c a s ps,
  kf_or_not (fold_cons c) = true /\ lower_prefix (build (decls ++ [SNew c])) = LOk s ps /\
  inst a (map decl_dom decls) /\ eval_cons c a = Some true /\
  ~ (exists a', agree (length decls) a a' /\ inst a' s /\ allsat ps a').
Proof.
  exists [SInt 0 3], c_not_w, (fun _ => 3).
  eexists; eexists. split; [reflexivity|]. split; [vm_compute; reflexivity|].
  split; [apply inst_0_3; lia|]. split; [reflexivity|].
  intros [a' [A [I S]]].
  pose proof (A 0%nat ltac:(simpl; lia)) as A0.
  pose proof (I 1%nat ltac:(simpl; lia)) as I1.
  pose proof (S _ (or_introl eq_refl)) as S1.
  cbn in A0, I1, S1. destruct I1 as [I1|[]]. apply Z.leb_le in S1. lia.
Qed.

(* D3 REPAIRED: the same two trees, lowered through reification, have exactly the assignments at
   which they evaluate to true: 0, 1, 3 (not 2) for the disjunction, 2, 3 (not 0, 1) for the negation *)
Ltac has_ext decls c Hl :=
  let Hw := fresh in
  assert (Hw : Forall (post_wf (length decls)) [SNew c]) by (repeat constructor; simpl; repeat split; lia);
  apply (proj2 (lower_denotes decls [SNew c] eq_refl Hw _ _ Hl eq_refl _));
  split; [apply inst_0_3; lia|intros st c0 [<-|[]] E; inversion E; subst; reflexivity].
Ltac no_ext decls c Hl :=
  let Hw := fresh in let H := fresh in
  intro H;
  assert (Hw : Forall (post_wf (length decls)) [SNew c]) by (repeat constructor; simpl; repeat split; lia);
  apply (proj1 (lower_denotes decls [SNew c] eq_refl Hw _ _ Hl eq_refl _)) in H;
  destruct H as [_ H]; specialize (H _ _ (or_introl eq_refl) eq_refl); vm_compute in H; discriminate H.

Lemma or_repaired : exists s ps,
  lower (build ([SInt 0 3] ++ [SNew c_or_w])) = LOk s ps /\ doms_nonempty s = true /\ validate s ps = None /\
  (forall k, In k [0; 1; 3] -> exists a', agree 1 (fun _ => k) a' /\ inst a' s /\ allsat ps a') /\
  ~ (exists a', agree 1 (fun _ => 2) a' /\ inst a' s /\ allsat ps a').
Proof.
  eexists; eexists. split; [vm_compute; reflexivity|]. split; [vm_compute; reflexivity|]. split; [vm_compute; reflexivity|].
  pose (Hl := eq_refl : lower (build ([SInt 0 3] ++ [SNew c_or_w])) = LOk _ _).
  split.
  - intros k [<-|[<-|[<-|[]]]]; has_ext [SInt 0 3] c_or_w Hl.
  - no_ext [SInt 0 3] c_or_w Hl.
Qed.

Lemma not_repaired : exists s ps,
  lower (build ([SInt 0 3] ++ [SNew c_not_w])) = LOk s ps /\ doms_nonempty s = true /\ validate s ps = None /\
  (forall k, In k [2; 3] -> exists a', agree 1 (fun _ => k) a' /\ inst a' s /\ allsat ps a') /\
  (forall k, In k [0; 1] -> ~ (exists a', agree 1 (fun _ => k) a' /\ inst a' s /\ allsat ps a')).
Proof.
  eexists; eexists. split; [vm_compute; reflexivity|]. split; [vm_compute; reflexivity|]. split; [vm_compute; reflexivity|].
  pose (Hl := eq_refl : lower (build ([SInt 0 3] ++ [SNew c_not_w])) = LOk _ _).
  split.
  - intros k [<-|[<-|[]]]; has_ext [SInt 0 3] c_not_w Hl.
  - intros k [<-|[<-|[]]]; no_ext [SInt 0 3] c_not_w Hl.
Qed.

(* D5 repaired: x = y = 50, x * y == 2500.  The product lives in an auxiliary variable whose domain
   is computed from the operands' bounds (2500..2500, not the former placeholder -1000..1000): the
   lowered model is in range and has the solution *)
Lemma aux_bounds_repaired : exists s ps,
  lower (build ([SInt 50 50; SInt 50 50] ++ [SNew (CBin (EMul x0 x1) OEq (EVal 2500))])) = LOk s ps /\
  doms_nonempty s = true /\ validate s ps = None /\
  exists a', agree 2 (fun _ => 50) a' /\ inst a' s /\ allsat ps a'.
Proof.
  eexists; eexists. split; [vm_compute; reflexivity|]. split; [vm_compute; reflexivity|]. split; [vm_compute; reflexivity|].
  assert (Hw : Forall (post_wf (length [SInt 50 50; SInt 50 50])) [SNew (CBin (EMul x0 x1) OEq (EVal 2500))])
    by (repeat constructor; simpl; repeat split; lia).
  apply (lower_denotes_exact [SInt 50 50; SInt 50 50] [SNew (CBin (EMul x0 x1) OEq (EVal 2500))] eq_refl Hw _ _
           (eq_refl : lower (build ([SInt 50 50; SInt 50 50] ++ [SNew (CBin (EMul x0 x1) OEq (EVal 2500))])) = LOk _ _)).
  split; [intros v Hv; simpl in Hv; destruct v as [|[|v]]; [simpl; auto|simpl; auto|lia]|].
  split; [|vm_compute; reflexivity].
  intros c [<-|[]]. vm_compute. reflexivity.
Qed.

(* the in-range condition is not vacuous: x in 0..1000, y in 0..1001, x * y == 2500.  The product's
   computed range 0..1001000 has more than max_sparse_set_domain_size values: the auxiliary variable
   is represented by the empty domain, the validator rejects the model (InvalidDomain), and the
   lowered model has no solution although (50, 50) satisfies the tree *)
Lemma aux_range_too_large : exists s ps,
  lower (build ([SInt 0 1000; SInt 0 1001] ++ [SNew (CBin (EMul x0 x1) OEq (EVal 2500))])) = LOk s ps /\
  doms_nonempty s = false /\ validate s ps = Some EInvalidDomain /\
  eval_cons (CBin (EMul x0 x1) OEq (EVal 2500)) (fun _ => 50) = Some true.
Proof.
  eexists; eexists. split; [vm_compute; reflexivity|]. split; [vm_compute; reflexivity|]. split; [vm_compute; reflexivity|].
  reflexivity.
Qed.

(* D12-like, the half that is validator policy: x in 0..9, y in 0..3, x mod y == 1.  The lowering is
   faithful, but the divisor's domain contains 0 and the validator rejects the model although
   (1, 2) satisfies the tree.  (A constant divisor, x mod 3, is accepted since the auxiliary
   variable of the constant has the domain 3..3: mod_const_accepted) *)
Lemma mod_rejected_refuted : exists decls c a s ps,
  lower (build (decls ++ [SNew c])) = LOk s ps /\ validate s ps = Some EInvalidConstraint /\
  inst a (map decl_dom decls) /\ eval_cons c a = Some true.
Proof.
  exists [SInt 0 9; SInt 0 3], (CBin (EMod x0 x1) OEq (EVal 1)), (fun v => match v with O => 1 | _ => 2 end).
  eexists; eexists. split; [vm_compute; reflexivity|]. split; [vm_compute; reflexivity|].
  split; [intros v Hv; simpl in Hv; destruct v as [|[|v]]; [simpl; auto 12|simpl; auto 12|lia]|reflexivity].
Qed.
Lemma mod_const_accepted : exists s ps,
  lower (build ([SInt 0 9] ++ [SNew (CBin (EMod x0 (EVal 3)) OEq (EVal 1))])) = LOk s ps /\ validate s ps = None.
Proof. eexists; eexists. split; vm_compute; reflexivity. Qed.

(* repaired: posting x == x (or x == y) after an immediate x == c with c outside the domain leaves
   the emptied domain alone (no read of min() of an empty SparseSet); the validator reports it *)
Lemma eq_on_empty_invalid : exists s ps,
  lower (build [SInt 0 1; SNew (CBin x0 OEq (EVal 5)); SNew (CBin x0 OEq x0)]) = LOk s ps /\
  validate s ps = Some EInvalidDomain.
Proof. eexists; eexists. split; vm_compute; reflexivity. Qed.

(* the classes are not everything: trees with repeated variables, constants on both sides,
   products and conjunctions lie outside all of them *)
Example outside_classes :
  let c := CAnd (CBin (ESub (EMul x0 x1) (EMul (EVal 2) x0)) OGe (EAdd x1 (EVal (-3))))
                (CBin (EAdd x0 x0) OLt (EAdd (EMul x1 (EVal 3)) (EVal 1))) in
  kf_or_not (fold_cons c) = false.
Proof. vm_compute. auto. Qed.

(* ---- and_all / or_all / all_of / any_of (runtime_api: Constraint::and_all / or_all and the free functions) ---- *)
Lemma and_all_none : forall cs, c_and_all cs = None <-> cs = [].
Proof. intros [|c r]; simpl; split; intro H; try reflexivity; discriminate. Qed.
Lemma or_all_none : forall cs, c_or_all cs = None <-> cs = [].
Proof. intros [|c r]; simpl; split; intro H; try reflexivity; discriminate. Qed.
Lemma all_of_is_and_all : forall cs, c_all_of cs = c_and_all cs. Proof. reflexivity. Qed.
Lemma any_of_is_or_all : forall cs, c_any_of cs = c_or_all cs. Proof. reflexivity. Qed.

(* the chain holds iff every member holds (a member with an undefined modulo makes it undefined: never a solution) *)
Lemma fold_and_holds : forall r c a, holds (fold_left CAnd r c) a = holds c a && forallb (fun x => holds x a) r.
Proof.
  induction r as [|x r IH]; intros c a; simpl; [rewrite andb_true_r; reflexivity|].
  rewrite IH. rewrite andb_assoc. f_equal. unfold holds. simpl.
  destruct (eval_cons c a) as [[|]|]; destruct (eval_cons x a) as [[|]|]; reflexivity.
Qed.
Theorem and_all_holds : forall cs c a, c_and_all cs = Some c -> holds c a = forallb (fun x => holds x a) cs.
Proof. intros [|c0 r] c a H; [discriminate|]. inversion H; subst. simpl. apply fold_and_holds. Qed.

Definition defined (c : cons) (a : asg) : bool := match eval_cons c a with Some _ => true | None => false end.
Lemma fold_or_eval : forall r c a,
  eval_cons (fold_left COr r c) a =
  if defined c a && forallb (fun x => defined x a) r then Some (holds c a || existsb (fun x => holds x a) r) else None.
Proof.
  induction r as [|x r IH]; intros c a; simpl.
  - unfold defined, holds. destruct (eval_cons c a) as [[|]|]; reflexivity.
  - rewrite IH. unfold defined, holds. simpl.
    destruct (eval_cons c a) as [[|]|]; destruct (eval_cons x a) as [[|]|]; simpl; try reflexivity;
      destruct (forallb _ r); reflexivity.
Qed.
(* the arithmetic reading of or_all: defined when every member is, true when some member holds *)
Theorem or_all_eval : forall cs c a, c_or_all cs = Some c ->
  eval_cons c a = if forallb (fun x => defined x a) cs then Some (existsb (fun x => holds x a) cs) else None.
Proof. intros [|c0 r] c a H; [discriminate|]. inversion H; subst. simpl. apply fold_or_eval. Qed.

(* lowering: m.new(and_all(cs)) materialises the members one after the other, like posting them separately *)
Lemma fold_and_materialize : forall r c st,
  materialize (fold_left CAnd r c) st = fold_left (fun st x => materialize x st) r (materialize c st).
Proof. induction r as [|x r IH]; intros c st; simpl; [reflexivity|]. rewrite IH. reflexivity. Qed.
Theorem and_all_materialize : forall cs c st, c_and_all cs = Some c ->
  materialize c st = fold_left (fun st x => materialize x st) cs st.
Proof. intros [|c0 r] c st H; [discriminate|]. inversion H; subst. simpl. apply fold_and_materialize. Qed.
Lemma fold_and_kf : forall r c, kf_or_not (fold_left CAnd r c) = kf_or_not c || existsb kf_or_not r.
Proof. induction r as [|x r IH]; intros c; simpl; [rewrite orb_false_r; reflexivity|]. rewrite IH. simpl. rewrite orb_assoc. reflexivity. Qed.
Theorem and_all_kf : forall cs c, c_and_all cs = Some c -> kf_or_not c = existsb kf_or_not cs.
Proof. intros [|c0 r] c H; [discriminate|]. inversion H; subst. simpl. apply fold_and_kf. Qed.
Lemma fold_and_impl : forall r c a, impl_cons (fold_left CAnd r c) a = impl_cons c a && forallb (fun x => impl_cons x a) r.
Proof. induction r as [|x r IH]; intros c a; simpl; [rewrite andb_true_r; reflexivity|]. rewrite IH. simpl. rewrite andb_assoc. reflexivity. Qed.
Theorem and_all_impl : forall cs c a, c_and_all cs = Some c -> impl_cons c a = forallb (fun x => impl_cons x a) cs.
Proof. intros [|c0 r] c a H; [discriminate|]. inversion H; subst. simpl. apply fold_and_impl. Qed.

(* or_all of three or more members (and of two outside `x == a || x == b`) lay in the former class D3
   (kf_or_not, the trees the pre-repair lowering got wrong): the chain's outer node has an Or as its
   left child, which is not the special pattern *)
Lemma fold_or_nested_kf : forall r a b c, kf_or_not (fold_left COr r (COr (COr a b) c)) = true.
Proof. induction r as [|x r IH]; intros a b c; [reflexivity|]. simpl fold_left. apply IH. Qed.
Theorem or_all_kf : forall c0 c1 c2 r c, c_or_all (c0 :: c1 :: c2 :: r) = Some c -> kf_or_not c = true.
Proof. intros c0 c1 c2 r c H. inversion H; subst. simpl fold_left. apply fold_or_nested_kf. Qed.

(* D3 through any_of BEFORE the repair: x in 0..3, any_of([x <= 0, x == 2, x >= 3]): x = 0 satisfies the tree,
   the pre-repair lowering (all three members posted) had no solution *)
Lemma any_of_prefix_refuted : exists decls cs c a s ps,
  c_any_of cs = Some c /\ kf_or_not (fold_cons c) = true /\ lower_prefix (build (decls ++ [SNew c])) = LOk s ps /\
  inst a (map decl_dom decls) /\ eval_cons c a = Some true /\
  ~ (exists a', agree (length decls) a a' /\ inst a' s /\ allsat ps a').
Proof.
  exists [SInt 0 3], [CBin x0 OLe (EVal 0); CBin x0 OEq (EVal 2); CBin x0 OGe (EVal 3)], c_anyof_w, (fun _ => 0).
  eexists; eexists. split; [reflexivity|]. split; [reflexivity|]. split; [vm_compute; reflexivity|].
  split; [apply inst_0_3; lia|]. split; [reflexivity|].
  intros [a' [A [I S]]].
  pose proof (A 0%nat ltac:(simpl; lia)) as A0.
  pose proof (I 0%nat ltac:(simpl; lia)) as I0.
  cbn in A0, I0. destruct I0 as [I0|[]]. lia.
Qed.
(* repaired: the chain is lowered through nested reification (bool_or of a bool_or); exactly 0, 2, 3 *)
Lemma any_of_repaired : exists cs s ps,
  c_any_of cs = Some c_anyof_w /\
  lower (build ([SInt 0 3] ++ [SNew c_anyof_w])) = LOk s ps /\ doms_nonempty s = true /\ validate s ps = None /\
  (forall k, In k [0; 2; 3] -> exists a', agree 1 (fun _ => k) a' /\ inst a' s /\ allsat ps a') /\
  ~ (exists a', agree 1 (fun _ => 1) a' /\ inst a' s /\ allsat ps a').
Proof.
  exists [CBin x0 OLe (EVal 0); CBin x0 OEq (EVal 2); CBin x0 OGe (EVal 3)].
  eexists; eexists. split; [reflexivity|]. split; [vm_compute; reflexivity|]. split; [vm_compute; reflexivity|]. split; [vm_compute; reflexivity|].
  pose (Hl := eq_refl : lower (build ([SInt 0 3] ++ [SNew c_anyof_w])) = LOk _ _).
  split.
  - intros k [<-|[<-|[<-|[]]]]; has_ext [SInt 0 3] c_anyof_w Hl.
  - no_ext [SInt 0 3] c_anyof_w Hl.
Qed.
(* all_of is faithful: x in 0..3, all_of([x >= 1, x <= 2, x != 1]) lowers to three propagators whose meaning is the conjunction *)
Example all_of_example :
  exists c, c_all_of [CBin x0 OGe (EVal 1); CBin x0 OLe (EVal 2); CBin x0 ONe (EVal 1)] = Some c /\ kf_or_not (fold_cons c) = false /\
    forall a, holds c a = (1 <=? a 0%nat) && (a 0%nat <=? 2) && negb (a 0%nat =? 1).
Proof.
  eexists. split; [reflexivity|]. split; [reflexivity|]. intro a. unfold holds. simpl. unfold x0. simpl.
  destruct (1 <=? a 0%nat); destruct (a 0%nat <=? 2); destruct (a 0%nat =? 1); reflexivity.
Qed.
