(* Proofs for Properties/C12.v: bound tightening on integer domains is exact.
   Also the general library about strictly increasing lists and stores used by the
   view / propagator proofs. *)
Require Import Selen.Model.Prelude Selen.Model.SparseSet Selen.Model.SetSpec Selen.Model.Dom.
Require Import Selen.Proofs.SparseSetProofs.

(* ------------------------------------------------------------------------------------------ *)
(* sorted lists *)

Lemma sorted_cons_iff : forall x r, sorted (x :: r) <-> (forall y, In y r -> x < y) /\ sorted r.
Proof.
  intros x r. revert x. induction r as [|z r IH]; intros x.
  - cbn. split; [intros _; split; [intros y []|exact I] | intros _; exact I].
  - change (sorted (x :: z :: r)) with (x < z /\ sorted (z :: r)). split.
    + intros [Hxz Hs]. split; [|exact Hs].
      intros y [<-|Hy]; [exact Hxz|]. apply IH in Hs. destruct Hs as [Hs _].
      specialize (Hs y Hy). lia.
    + intros [Hall Hs]. split; [apply Hall; left; reflexivity | exact Hs].
Qed.

Lemma sorted_tail : forall x r, sorted (x :: r) -> sorted r.
Proof. intros x r H. apply sorted_cons_iff in H. tauto. Qed.

Lemma sorted_hd_lt : forall x r y, sorted (x :: r) -> In y r -> x < y.
Proof. intros x r y H. apply sorted_cons_iff in H. destruct H as [H _]. apply H. Qed.

Lemma sorted_nil : sorted []. Proof. exact I. Qed.
Lemma sorted_single : forall x, sorted [x]. Proof. intros; exact I. Qed.

Lemma sorted_NoDup : forall d, sorted d -> NoDup d.
Proof.
  induction d as [|x r IH]; intros H; [constructor|].
  apply sorted_cons_iff in H. destruct H as [Hall Hs]. constructor; [|apply IH; exact Hs].
  intros Hin. specialize (Hall x Hin). lia.
Qed.

Lemma filter_sorted : forall f d, sorted d -> sorted (filter f d).
Proof.
  intros f. induction d as [|x r IH]; intros H; [exact I|].
  apply sorted_cons_iff in H. destruct H as [Hall Hs]. cbn [filter].
  destruct (f x); [|apply IH; exact Hs].
  apply sorted_cons_iff. split; [|apply IH; exact Hs].
  intros y Hy. apply filter_In in Hy. apply Hall. tauto.
Qed.

Lemma dempty_true : forall d, dempty d = true <-> d = [].
Proof. intros [|x r]; cbn; split; congruence. Qed.
Lemma dempty_false : forall d, dempty d = false <-> d <> [].
Proof. intros [|x r]; cbn; split; congruence. Qed.

Lemma dfixed_single : forall d, dfixed d = true <-> exists x, d = [x].
Proof.
  intros [|x [|y r]]; cbn; split; try congruence.
  - intros [x H]; congruence.
  - intros _. exists x. reflexivity.
  - intros [z H]; congruence.
Qed.

Lemma dmin_In : forall d, d <> [] -> In (dmin d) d.
Proof. intros [|x r] H; [congruence|left; reflexivity]. Qed.

Lemma dmin_least : forall d y, sorted d -> In y d -> dmin d <= y.
Proof.
  intros [|x r] y Hs [].
  - subst. cbn. lia.
  - cbn. pose proof (sorted_hd_lt x r y Hs H). lia.
Qed.

Lemma last_cons2 : forall (x y : Z) r, last (x :: y :: r) 0 = last (y :: r) 0.
Proof. reflexivity. Qed.

Lemma dmax_In : forall d, d <> [] -> In (dmax d) d.
Proof.
  unfold dmax. induction d as [|x r IH]; intros H; [congruence|].
  destruct r as [|y r]; [left; reflexivity|].
  rewrite last_cons2. right. apply IH. discriminate.
Qed.

Lemma dmax_greatest : forall d y, sorted d -> In y d -> y <= dmax d.
Proof.
  unfold dmax. induction d as [|x r IH]; intros y Hs Hin; [destruct Hin|].
  destruct r as [|z r].
  - destruct Hin as [<-|[]]. cbn. lia.
  - rewrite last_cons2. destruct Hin as [<-|Hin].
    + assert (Hz : In (last (z :: r) 0) (z :: r)) by (apply (dmax_In (z :: r)); discriminate).
      pose proof (sorted_hd_lt _ _ _ Hs Hz). lia.
    + apply IH; [eapply sorted_tail; exact Hs | exact Hin].
Qed.

Lemma dmin_le_dmax : forall d, wf_dom d -> dmin d <= dmax d.
Proof. intros d [Hne Hs]. apply dmin_least; [exact Hs | apply dmax_In; exact Hne]. Qed.

Lemma dmin_unique : forall d m, sorted d -> In m d -> (forall y, In y d -> m <= y) -> dmin d = m.
Proof.
  intros d m Hs Hin Hall.
  assert (Hne : d <> []) by (intros ->; destruct Hin).
  pose proof (dmin_least d m Hs Hin). pose proof (Hall _ (dmin_In d Hne)). lia.
Qed.

Lemma dmax_unique : forall d m, sorted d -> In m d -> (forall y, In y d -> y <= m) -> dmax d = m.
Proof.
  intros d m Hs Hin Hall.
  assert (Hne : d <> []) by (intros ->; destruct Hin).
  pose proof (dmax_greatest d m Hs Hin). pose proof (Hall _ (dmax_In d Hne)). lia.
Qed.

Lemma dfixed_min_max : forall d, wf_dom d -> (dfixed d = true <-> dmin d = dmax d).
Proof.
  intros d [Hne Hs]. split.
  - intros H. apply dfixed_single in H. destruct H as [x ->]. reflexivity.
  - intros E. destruct d as [|x [|y r]]; [congruence|reflexivity|].
    exfalso. assert (Hy : In y (x :: y :: r)) by (right; left; reflexivity).
    pose proof (dmax_greatest _ _ Hs Hy). cbn [dmin hd] in E.
    destruct Hs as [Hxy _]. lia.
Qed.

Lemma dfixed_all_eq : forall d x, dfixed d = true -> In x d -> x = dmin d /\ x = dmax d.
Proof.
  intros d x H Hin. apply dfixed_single in H. destruct H as [z ->].
  destruct Hin as [<-|[]]. split; reflexivity.
Qed.

(* two strictly increasing lists with the same elements are equal *)
Lemma sorted_ext : forall l1 l2, sorted l1 -> sorted l2 ->
  (forall x, In x l1 <-> In x l2) -> l1 = l2.
Proof.
  induction l1 as [|x1 r1 IH]; intros l2 H1 H2 Heq.
  - destruct l2 as [|x2 r2]; [reflexivity|]. exfalso. apply (Heq x2). left; reflexivity.
  - destruct l2 as [|x2 r2]; [exfalso; apply (Heq x1); left; reflexivity|].
    apply sorted_cons_iff in H1. destruct H1 as [Hall1 Hs1].
    apply sorted_cons_iff in H2. destruct H2 as [Hall2 Hs2].
    assert (E : x1 = x2).
    { assert (A : In x1 (x2 :: r2)) by (apply Heq; left; reflexivity).
      assert (B : In x2 (x1 :: r1)) by (apply Heq; left; reflexivity).
      destruct A as [A|A]; [congruence|]. destruct B as [B|B]; [congruence|].
      pose proof (Hall1 _ B). pose proof (Hall2 _ A). lia. }
    subst x2. f_equal. apply IH; [exact Hs1 | exact Hs2 |].
    intros y. split; intros Hy.
    + assert (A : In y (x1 :: r2)) by (apply Heq; right; exact Hy).
      destruct A as [A|A]; [|exact A]. pose proof (Hall1 _ Hy). lia.
    + assert (A : In y (x1 :: r1)) by (apply Heq; right; exact Hy).
      destruct A as [A|A]; [|exact A]. pose proof (Hall2 _ Hy). lia.
Qed.

(* zinsert / zsort *)
Lemma zinsert_In : forall x l y, In y (zinsert x l) <-> y = x \/ In y l.
Proof.
  intros x. induction l as [|z r IH]; intros y; cbn [zinsert].
  - cbn. intuition congruence.
  - destruct (Z.ltb_spec x z) as [H|H].
    + cbn [In]. intuition congruence.
    + destruct (Z.eqb_spec x z) as [E|E].
      * subst z. cbn [In]. intuition congruence.
      * cbn [In]. rewrite IH. intuition congruence.
Qed.

Lemma zinsert_sorted : forall x l, sorted l -> sorted (zinsert x l).
Proof.
  intros x. induction l as [|z r IH]; intros Hs; cbn [zinsert]; [exact I|].
  destruct (Z.ltb_spec x z) as [H|H].
  - apply sorted_cons_iff. split; [|exact Hs].
    intros y [<-|Hy]; [exact H|]. pose proof (sorted_hd_lt _ _ _ Hs Hy). lia.
  - destruct (Z.eqb_spec x z) as [E|E]; [exact Hs|].
    apply sorted_cons_iff in Hs. destruct Hs as [Hall Hs].
    apply sorted_cons_iff. split; [|apply IH; exact Hs].
    intros y Hy. apply zinsert_In in Hy. destruct Hy as [->|Hy]; [lia|apply Hall; exact Hy].
Qed.

Lemma zsort_sorted : forall l, sorted (zsort l).
Proof. induction l as [|x r IH]; cbn; [exact I|apply zinsert_sorted; exact IH]. Qed.

Lemma zsort_In : forall l y, In y (zsort l) <-> In y l.
Proof.
  induction l as [|x r IH]; intros y; cbn [zsort fold_right In]; [tauto|].
  change (fold_right zinsert [] r) with (zsort r). rewrite zinsert_In, IH. intuition congruence.
Qed.

(* zsort of a list is THE sorted list of its elements *)
Lemma zsort_unique : forall l d, sorted d -> (forall y, In y d <-> In y l) -> zsort l = d.
Proof.
  intros l d Hs Heq. apply sorted_ext; [apply zsort_sorted | exact Hs |].
  intros x. rewrite zsort_In. symmetry. apply Heq.
Qed.

Lemma zsort_id : forall d, sorted d -> zsort d = d.
Proof. intros d Hs. apply zsort_unique; [exact Hs | tauto]. Qed.

Lemma zsort_filter : forall f l, zsort (filter f l) = filter f (zsort l).
Proof.
  intros f l. apply zsort_unique; [apply filter_sorted, zsort_sorted|].
  intros y. rewrite !filter_In, zsort_In. tauto.
Qed.

(* filter facts *)
Lemma filter_all_true : forall (f : Z -> bool) l, (forall x, In x l -> f x = true) -> filter f l = l.
Proof.
  intros f. induction l as [|x r IH]; intros H; [reflexivity|]. cbn [filter].
  rewrite (H x (or_introl eq_refl)). f_equal. apply IH. intros y Hy. apply H. right; exact Hy.
Qed.

Lemma filter_all_false : forall (f : Z -> bool) l, (forall x, In x l -> f x = false) -> filter f l = [].
Proof.
  intros f. induction l as [|x r IH]; intros H; [reflexivity|]. cbn [filter].
  rewrite (H x (or_introl eq_refl)). apply IH. intros y Hy. apply H. right; exact Hy.
Qed.

Lemma filter_nil_iff : forall (f : Z -> bool) l, filter f l = [] <-> forall x, In x l -> f x = false.
Proof. intros f l. split; [apply filter_nil_false | apply filter_all_false]. Qed.

Lemma filter_andb : forall (f g : Z -> bool) l,
  filter g (filter f l) = filter (fun x => f x && g x) l.
Proof.
  intros f g. induction l as [|x r IH]; [reflexivity|]. cbn [filter].
  destruct (f x); cbn [andb filter]; [destruct (g x)|]; rewrite IH; reflexivity.
Qed.

Lemma filter_ext_In : forall (f g : Z -> bool) l, (forall x, In x l -> f x = g x) -> filter f l = filter g l.
Proof.
  intros f g. induction l as [|x r IH]; intros H; [reflexivity|]. cbn [filter].
  rewrite (H x (or_introl eq_refl)), IH; [reflexivity|]. intros y Hy. apply H. right; exact Hy.
Qed.

Lemma filter_neq_witness : forall (f : Z -> bool) l x, In x l -> f x = false -> filter f l <> l.
Proof.
  intros f l x Hin Hf E. rewrite <- E in Hin. apply filter_In in Hin. destruct Hin as [_ H]. congruence.
Qed.

Lemma dbelow_In : forall b d x, In x (dbelow b d) <-> In x d /\ b <= x.
Proof. intros. unfold dbelow. rewrite filter_In, Z.leb_le. tauto. Qed.
Lemma dabove_In : forall b d x, In x (dabove b d) <-> In x d /\ x <= b.
Proof. intros. unfold dabove. rewrite filter_In, Z.leb_le. tauto. Qed.

(* ------------------------------------------------------------------------------------------ *)
(* store access *)

Lemma supd_length : forall s v d, length (supd s v d) = length s.
Proof.
  induction s as [|x r IH]; intros v d; [destruct v; reflexivity|].
  destruct v; cbn; [reflexivity|]. rewrite IH. reflexivity.
Qed.

Lemma sget_supd_same : forall s v d, (v < length s)%nat -> sget (supd s v d) v = d.
Proof.
  unfold sget. induction s as [|x r IH]; intros v d H; [cbn in H; lia|].
  destruct v; cbn; [reflexivity|]. apply IH. cbn in H. lia.
Qed.

Lemma sget_supd_other : forall s v u d, u <> v -> sget (supd s v d) u = sget s u.
Proof.
  unfold sget. induction s as [|x r IH]; intros v u d H; [destruct v; reflexivity|].
  destruct v; destruct u; cbn; try reflexivity; try congruence.
  apply IH. congruence.
Qed.

Lemma sget_oob : forall s v, (length s <= v)%nat -> sget s v = [].
Proof. intros. unfold sget. apply nth_overflow. assumption. Qed.

Lemma sget_nonempty_lt : forall s v, sget s v <> [] -> (v < length s)%nat.
Proof.
  intros s v H. destruct (Nat.lt_ge_cases v (length s)) as [L|L]; [exact L|].
  exfalso. apply H. apply sget_oob. exact L.
Qed.

Lemma wf_dom_lt : forall s v, wf_dom (sget s v) -> (v < length s)%nat.
Proof. intros s v [H _]. apply sget_nonempty_lt. exact H. Qed.

Lemma supd_same_id : forall s v, supd s v (sget s v) = s.
Proof.
  unfold sget. induction s as [|x r IH]; intros v; [destruct v; reflexivity|].
  destruct v; cbn; [reflexivity|]. rewrite IH. reflexivity.
Qed.

(* two stores of the same length with the same domains are equal *)
Lemma store_ext : forall s1 s2, length s1 = length s2 -> (forall v, sget s1 v = sget s2 v) -> s1 = s2.
Proof.
  unfold sget. induction s1 as [|x r IH]; intros [|y t] HL H; cbn in HL; try lia; [reflexivity|].
  f_equal; [exact (H 0%nat)|]. apply IH; [lia|]. intros v. exact (H (S v)).
Qed.

Lemma wf_store_supd : forall s v d, wf_store s -> wf_dom d -> wf_store (supd s v d).
Proof.
  intros s v d Hs Hd u Hu. rewrite supd_length in Hu.
  destruct (Nat.eq_dec u v) as [->|N].
  - rewrite sget_supd_same; assumption.
  - rewrite sget_supd_other; [apply Hs; exact Hu | exact N].
Qed.

Lemma sub_store_refl : forall s, sub_store s s.
Proof. intros s. split; [reflexivity | intros; assumption]. Qed.

Lemma sub_store_trans : forall s1 s2 s3, sub_store s1 s2 -> sub_store s2 s3 -> sub_store s1 s3.
Proof.
  intros s1 s2 s3 [L1 H1] [L2 H2]. split; [congruence|]. intros v x Hx. apply H2, H1, Hx.
Qed.

Lemma sub_store_supd : forall s v d, (forall x, In x d -> In x (sget s v)) -> sub_store (supd s v d) s.
Proof.
  intros s v d H. split; [apply supd_length|]. intros u x Hx.
  destruct (Nat.eq_dec u v) as [->|N].
  - destruct (Nat.lt_ge_cases v (length s)) as [L|L].
    + rewrite sget_supd_same in Hx by exact L. apply H; exact Hx.
    + rewrite sget_oob in Hx by (rewrite supd_length; exact L). destruct Hx.
  - rewrite sget_supd_other in Hx by exact N. exact Hx.
Qed.

Lemma inst_sub : forall a s s', inst a s' -> sub_store s' s -> inst a s.
Proof. intros a s s' Hi [L H] v Hv. apply H. apply Hi. lia. Qed.

(* ------------------------------------------------------------------------------------------ *)
(* cset_min / cset_max: complete case analysis *)

Lemma dbelow_id_iff : forall b d, wf_dom d -> (dbelow b d = d <-> b <= dmin d).
Proof.
  intros b d [Hne Hs]. split.
  - intros E. pose proof (dmin_In d Hne) as Hin. rewrite <- E in Hin at 2.
    apply dbelow_In in Hin. tauto.
  - intros H. apply filter_all_true. intros x Hx. apply Z.leb_le.
    pose proof (dmin_least d x Hs Hx). lia.
Qed.

Lemma dabove_id_iff : forall b d, wf_dom d -> (dabove b d = d <-> dmax d <= b).
Proof.
  intros b d [Hne Hs]. split.
  - intros E. pose proof (dmax_In d Hne) as Hin. rewrite <- E in Hin at 2.
    apply dabove_In in Hin. tauto.
  - intros H. apply filter_all_true. intros x Hx. apply Z.leb_le.
    pose proof (dmax_greatest d x Hs Hx). lia.
Qed.

Lemma dbelow_nil_iff : forall b d, wf_dom d -> (dbelow b d = [] <-> dmax d < b).
Proof.
  intros b d [Hne Hs]. unfold dbelow. rewrite filter_nil_iff. split.
  - intros H. specialize (H _ (dmax_In d Hne)). apply Z.leb_gt in H. exact H.
  - intros H x Hx. apply Z.leb_gt. pose proof (dmax_greatest d x Hs Hx). lia.
Qed.

Lemma dabove_nil_iff : forall b d, wf_dom d -> (dabove b d = [] <-> b < dmin d).
Proof.
  intros b d [Hne Hs]. unfold dabove. rewrite filter_nil_iff. split.
  - intros H. specialize (H _ (dmin_In d Hne)). apply Z.leb_gt in H. exact H.
  - intros H x Hx. apply Z.leb_gt. pose proof (dmin_least d x Hs Hx). lia.
Qed.

Lemma wf_dom_dbelow : forall b d, wf_dom d -> dbelow b d <> [] -> wf_dom (dbelow b d).
Proof. intros b d [_ Hs] H. split; [exact H | apply filter_sorted; exact Hs]. Qed.
Lemma wf_dom_dabove : forall b d, wf_dom d -> dabove b d <> [] -> wf_dom (dabove b d).
Proof. intros b d [_ Hs] H. split; [exact H | apply filter_sorted; exact Hs]. Qed.

(* the one lemma everything else is read off *)
Lemma cset_min_spec : forall v b s ev, wf_dom (sget s v) ->
  let d := sget s v in
  (dmax d < b /\ cset_min v b (s, ev) = None) \/
  (b <= dmin d /\ cset_min v b (s, ev) = Some (s, ev)) \/
  (dmin d < b <= dmax d /\ dbelow b d <> [] /\ dbelow b d <> d /\
     cset_min v b (s, ev) = Some (supd s v (dbelow b d), ev ++ [v])).
Proof.
  intros v b s ev Hwf d. unfold cset_min. cbn [fst snd]. fold d.
  destruct Hwf as [Hne Hs]. fold d in Hne, Hs.
  destruct (dempty d) eqn:He; [apply dempty_true in He; contradiction|].
  destruct (Z.ltb_spec (dmax d) b) as [H1|H1]; [left; split; [exact H1|reflexivity]|].
  destruct (Z.ltb_spec (dmin d) b) as [H2|H2]; [|right; left; split; [exact H2|reflexivity]].
  right; right.
  assert (Hn : dbelow b d <> []).
  { intros E. apply (dbelow_nil_iff b d (conj Hne Hs)) in E. lia. }
  assert (Hd : dbelow b d <> d).
  { intros E. apply (dbelow_id_iff b d (conj Hne Hs)) in E. lia. }
  split; [lia|]. split; [exact Hn|]. split; [exact Hd|].
  apply dempty_false in Hn. rewrite Hn. reflexivity.
Qed.

Lemma cset_max_spec : forall v b s ev, wf_dom (sget s v) ->
  let d := sget s v in
  (b < dmin d /\ cset_max v b (s, ev) = None) \/
  (dmax d <= b /\ cset_max v b (s, ev) = Some (s, ev)) \/
  (dmin d <= b < dmax d /\ dabove b d <> [] /\ dabove b d <> d /\
     cset_max v b (s, ev) = Some (supd s v (dabove b d), ev ++ [v])).
Proof.
  intros v b s ev Hwf d. unfold cset_max. cbn [fst snd]. fold d.
  destruct Hwf as [Hne Hs]. fold d in Hne, Hs.
  destruct (dempty d) eqn:He; [apply dempty_true in He; contradiction|].
  destruct (Z.ltb_spec b (dmin d)) as [H1|H1]; [left; split; [exact H1|reflexivity]|].
  destruct (Z.ltb_spec b (dmax d)) as [H2|H2]; [|right; left; split; [exact H2|reflexivity]].
  right; right.
  assert (Hn : dabove b d <> []).
  { intros E. apply (dabove_nil_iff b d (conj Hne Hs)) in E. lia. }
  assert (Hd : dabove b d <> d).
  { intros E. apply (dabove_id_iff b d (conj Hne Hs)) in E. lia. }
  split; [lia|]. split; [exact Hn|]. split; [exact Hd|].
  apply dempty_false in Hn. rewrite Hn. reflexivity.
Qed.

(* a setter on a variable outside the store (or with an empty domain) fails *)
Lemma cset_min_empty : forall v b c, sget (fst c) v = [] -> cset_min v b c = None.
Proof. intros v b c H. unfold cset_min. rewrite H. reflexivity. Qed.
Lemma cset_max_empty : forall v b c, sget (fst c) v = [] -> cset_max v b c = None.
Proof. intros v b c H. unfold cset_max. rewrite H. reflexivity. Qed.

(* ------------------------------------------------------------------------------------------ *)
(* The lemmas used by Properties/C12.v *)

Lemma cset_min_exact : forall v b s ev s' ev', wf_dom (sget s v) ->
  cset_min v b (s, ev) = Some (s', ev') ->
  sget s' v = dbelow b (sget s v) /\ (forall u, u <> v -> sget s' u = sget s u) /\ length s' = length s.
Proof.
  intros v b s ev s' ev' Hwf H. pose proof (wf_dom_lt s v Hwf) as Hv.
  destruct (cset_min_spec v b s ev Hwf) as [[_ E]|[[Hb E]|(_ & _ & _ & E)]];
    rewrite E in H; inversion H; subst; clear H.
  - split; [|split; [reflexivity|reflexivity]]. symmetry. apply dbelow_id_iff; assumption.
  - split; [apply sget_supd_same; exact Hv|]. split; [|apply supd_length].
    intros u Hu. apply sget_supd_other; exact Hu.
Qed.

Lemma cset_max_exact : forall v b s ev s' ev', wf_dom (sget s v) ->
  cset_max v b (s, ev) = Some (s', ev') ->
  sget s' v = dabove b (sget s v) /\ (forall u, u <> v -> sget s' u = sget s u) /\ length s' = length s.
Proof.
  intros v b s ev s' ev' Hwf H. pose proof (wf_dom_lt s v Hwf) as Hv.
  destruct (cset_max_spec v b s ev Hwf) as [[_ E]|[[Hb E]|(_ & _ & _ & E)]];
    rewrite E in H; inversion H; subst; clear H.
  - split; [|split; [reflexivity|reflexivity]]. symmetry. apply dabove_id_iff; assumption.
  - split; [apply sget_supd_same; exact Hv|]. split; [|apply supd_length].
    intros u Hu. apply sget_supd_other; exact Hu.
Qed.

Lemma cset_min_fail_iff : forall v b s ev, wf_dom (sget s v) ->
  (cset_min v b (s, ev) = None <-> dbelow b (sget s v) = []).
Proof.
  intros v b s ev Hwf. rewrite (dbelow_nil_iff b _ Hwf).
  destruct (cset_min_spec v b s ev Hwf) as [[Hb E]|[[Hb E]|(Hb & _ & _ & E)]]; rewrite E.
  - tauto.
  - pose proof (dmin_le_dmax _ Hwf). split; [discriminate|lia].
  - split; [discriminate|lia].
Qed.

Lemma cset_max_fail_iff : forall v b s ev, wf_dom (sget s v) ->
  (cset_max v b (s, ev) = None <-> dabove b (sget s v) = []).
Proof.
  intros v b s ev Hwf. rewrite (dabove_nil_iff b _ Hwf).
  destruct (cset_max_spec v b s ev Hwf) as [[Hb E]|[[Hb E]|(Hb & _ & _ & E)]]; rewrite E.
  - tauto.
  - pose proof (dmin_le_dmax _ Hwf). split; [discriminate|lia].
  - split; [discriminate|lia].
Qed.

Lemma cset_min_event_iff : forall v b s ev s' ev', wf_dom (sget s v) -> (v < length s)%nat ->
  cset_min v b (s, ev) = Some (s', ev') ->
  (ev' = ev ++ [v] /\ sget s' v <> sget s v) \/ (ev' = ev /\ s' = s).
Proof.
  intros v b s ev s' ev' Hwf Hv H.
  destruct (cset_min_spec v b s ev Hwf) as [[_ E]|[[Hb E]|(_ & _ & Hd & E)]];
    rewrite E in H; inversion H; subst; clear H.
  - right; split; reflexivity.
  - left. split; [reflexivity|]. rewrite sget_supd_same by exact Hv. exact Hd.
Qed.

Lemma cset_max_event_iff : forall v b s ev s' ev', wf_dom (sget s v) -> (v < length s)%nat ->
  cset_max v b (s, ev) = Some (s', ev') ->
  (ev' = ev ++ [v] /\ sget s' v <> sget s v) \/ (ev' = ev /\ s' = s).
Proof.
  intros v b s ev s' ev' Hwf Hv H.
  destruct (cset_max_spec v b s ev Hwf) as [[_ E]|[[Hb E]|(_ & _ & Hd & E)]];
    rewrite E in H; inversion H; subst; clear H.
  - right; split; reflexivity.
  - left. split; [reflexivity|]. rewrite sget_supd_same by exact Hv. exact Hd.
Qed.

Lemma cset_wf : forall v b s ev s' ev', wf_store s ->
  (cset_min v b (s, ev) = Some (s', ev') \/ cset_max v b (s, ev) = Some (s', ev')) -> wf_store s'.
Proof.
  intros v b s ev s' ev' Hs H.
  destruct (Nat.lt_ge_cases v (length s)) as [L|L].
  - pose proof (Hs v L) as Hwf. destruct H as [H|H].
    + destruct (cset_min_spec v b s ev Hwf) as [[_ E]|[[Hb E]|(_ & Hn & _ & E)]];
        rewrite E in H; inversion H; subst; clear H; [exact Hs|].
      apply wf_store_supd; [exact Hs | apply wf_dom_dbelow; assumption].
    + destruct (cset_max_spec v b s ev Hwf) as [[_ E]|[[Hb E]|(_ & Hn & _ & E)]];
        rewrite E in H; inversion H; subst; clear H; [exact Hs|].
      apply wf_store_supd; [exact Hs | apply wf_dom_dabove; assumption].
  - exfalso. destruct H as [H|H].
    + rewrite cset_min_empty in H by (apply sget_oob; exact L). discriminate.
    + rewrite cset_max_empty in H by (apply sget_oob; exact L). discriminate.
Qed.

(* sequences of tightenings *)
Definition tighten (v : nat) (c : option ctx) (op : bool * Z) : option ctx :=
  match c with None => None | Some c => if fst op then cset_max v (snd op) c else cset_min v (snd op) c end.
Definition within (ops : list (bool * Z)) (x : Z) : bool :=
  forallb (fun op : bool * Z => if fst op then x <=? snd op else snd op <=? x) ops.

Lemma fold_tighten_None : forall v ops, fold_left (tighten v) ops None = None.
Proof. intros v. induction ops as [|o r IH]; [reflexivity|exact IH]. Qed.

Lemma within_cons : forall op ops d,
  filter (within (op :: ops)) d =
  filter (within ops) (filter (fun x => if fst op then x <=? snd op else snd op <=? x) d).
Proof. intros op ops d. rewrite filter_andb. reflexivity. Qed.

Lemma tighten_seq : forall v ops s ev, wf_dom (sget s v) -> (v < length s)%nat ->
  match fold_left (tighten v) ops (Some (s, ev)) with
  | Some (s', _) => sget s' v = filter (within ops) (sget s v) /\ filter (within ops) (sget s v) <> []
  | None => filter (within ops) (sget s v) = []
  end.
Proof.
  intros v. induction ops as [|[mx b] ops IH]; intros s ev Hwf Hv.
  - cbn [fold_left]. rewrite filter_all_true by (intros; reflexivity).
    split; [reflexivity | apply Hwf].
  - cbn [fold_left]. rewrite within_cons. cbn [fst snd].
    unfold tighten at 2. cbn [fst snd]. destruct mx.
    + change (filter (fun x => x <=? b) (sget s v)) with (dabove b (sget s v)).
      destruct (cset_max v b (s, ev)) as [[s1 ev1]|] eqn:E.
      * destruct (cset_max_exact _ _ _ _ _ _ Hwf E) as (E1 & _ & EL). rewrite <- E1.
        assert (Hwf1 : wf_dom (sget s1 v)).
        { rewrite E1. apply wf_dom_dabove; [exact Hwf|].
          intros N. apply (cset_max_fail_iff v b s ev Hwf) in N. congruence. }
        apply IH; [exact Hwf1 | lia].
      * rewrite fold_tighten_None. apply (cset_max_fail_iff v b s ev Hwf) in E.
        rewrite E. reflexivity.
    + change (filter (fun x => b <=? x) (sget s v)) with (dbelow b (sget s v)).
      destruct (cset_min v b (s, ev)) as [[s1 ev1]|] eqn:E.
      * destruct (cset_min_exact _ _ _ _ _ _ Hwf E) as (E1 & _ & EL). rewrite <- E1.
        assert (Hwf1 : wf_dom (sget s1 v)).
        { rewrite E1. apply wf_dom_dbelow; [exact Hwf|].
          intros N. apply (cset_min_fail_iff v b s ev Hwf) in N. congruence. }
        apply IH; [exact Hwf1 | lia].
      * rewrite fold_tighten_None. apply (cset_min_fail_iff v b s ev Hwf) in E.
        rewrite E. reflexivity.
Qed.

(* the abstract domain operations are what the real sparse set does *)
Definition abs_dom (s : sset) : dom := zsort (ss_iter s).

Lemma abs_dom_In : forall s x, In x (abs_dom s) <-> In x (ss_iter s).
Proof. intros. apply zsort_In. Qed.

Lemma abs_dom_sorted : forall s, sorted (abs_dom s).
Proof. intros. apply zsort_sorted. Qed.

Lemma abs_dom_remove_below : forall s b, Inv s ->
  abs_dom (ss_remove_below s b) = dbelow b (abs_dom s).
Proof.
  intros s b HI. destruct (remove_below_ok s b HI) as (HI' & _ & Hc).
  apply zsort_unique; [apply filter_sorted, abs_dom_sorted|].
  intros y. rewrite dbelow_In, abs_dom_In, (iter_contains _ _ HI'), (iter_contains _ _ HI), Hc, Z.leb_le.
  tauto.
Qed.

Lemma abs_dom_remove_above : forall s b, Inv s ->
  abs_dom (ss_remove_above s b) = dabove b (abs_dom s).
Proof.
  intros s b HI. destruct (remove_above_ok s b HI) as (HI' & _ & Hc).
  apply zsort_unique; [apply filter_sorted, abs_dom_sorted|].
  intros y. rewrite dabove_In, abs_dom_In, (iter_contains _ _ HI'), (iter_contains _ _ HI), Hc, Z.leb_le.
  tauto.
Qed.

Lemma abs_dom_min_max : forall s, Inv s -> ss_is_empty s = false ->
  ss_min s = dmin (abs_dom s) /\ ss_max s = dmax (abs_dom s).
Proof.
  intros s HI He.
  assert (Hobs : obs_agree s (spec_init s)).
  { apply (refines_general s [] HI). reflexivity. }
  destruct Hobs as (Hin & _ & _ & _ & _ & Hmm & _). cbn [spec_init cur] in Hin, Hmm.
  destruct (Hmm He) as (Hmn & Hmx & Hall). split; symmetry.
  - apply dmin_unique; [apply abs_dom_sorted | apply abs_dom_In; exact Hmn |].
    intros y Hy. apply abs_dom_In in Hy. apply Hall in Hy. lia.
  - apply dmax_unique; [apply abs_dom_sorted | apply abs_dom_In; exact Hmx |].
    intros y Hy. apply abs_dom_In in Hy. apply Hall in Hy. lia.
Qed.

Lemma remove_below_refines : forall lo hi ops b,
  let s := fst (ss_run ops (ss_new lo hi, [])) in
  SetSpec.bad (SetSpec.spec_run ops (SetSpec.spec_init (ss_new lo hi))) = false ->
  abs_dom (ss_remove_below s b) = dbelow b (abs_dom s) /\
  abs_dom (ss_remove_above s b) = dabove b (abs_dom s) /\
  (ss_is_empty s = false -> ss_min s = dmin (abs_dom s) /\ ss_max s = dmax (abs_dom s)) /\
  sorted (abs_dom s).
Proof.
  intros lo hi ops b s Hbad.
  assert (HI : Inv s) by (apply run_Inv; [apply new_Inv | exact Hbad]).
  split; [apply abs_dom_remove_below; exact HI|].
  split; [apply abs_dom_remove_above; exact HI|].
  split; [apply abs_dom_min_max; exact HI | apply abs_dom_sorted].
Qed.

(* ------------------------------------------------------------------------------------------ *)
(* total_size: the termination measure; a reported event means some value was removed *)

Lemma filter_length_le_Z : forall (f : Z -> bool) l, (length (filter f l) <= length l)%nat.
Proof.
  intros f. induction l as [|x r IH]; [apply le_n|]. cbn [filter].
  destruct (f x); cbn [length]; lia.
Qed.

Lemma filter_length_lt : forall (f : Z -> bool) l, filter f l <> l -> (length (filter f l) < length l)%nat.
Proof.
  intros f. induction l as [|x r IH]; intros H; [exfalso; apply H; reflexivity|]. cbn [filter] in *.
  destruct (f x).
  - cbn [length]. apply -> Nat.succ_lt_mono. apply IH. intros E. apply H. rewrite E. reflexivity.
  - cbn [length]. pose proof (filter_length_le_Z f r). lia.
Qed.

Lemma total_size_supd : forall s v d, (v < length s)%nat ->
  (total_size (supd s v d) + length (sget s v) = total_size s + length d)%nat.
Proof.
  unfold sget. induction s as [|x r IH]; intros v d H; [cbn in H; lia|].
  destruct v; cbn [supd total_size nth]; [lia|].
  cbn [length] in H. specialize (IH v d ltac:(lia)). lia.
Qed.

Lemma total_size_supd_filter : forall s v (f : Z -> bool), (v < length s)%nat ->
  filter f (sget s v) <> sget s v ->
  (total_size (supd s v (filter f (sget s v))) < total_size s)%nat.
Proof.
  intros s v f Hv Hne. pose proof (total_size_supd s v (filter f (sget s v)) Hv).
  pose proof (filter_length_lt f _ Hne). lia.
Qed.
