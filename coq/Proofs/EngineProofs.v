(* Proofs for the generic engine theorems: propagation to fixpoint (C05 part b), the depth-first
   search engine in both modes (C01, C02, C03, C04) and order independence (C14).
   Stdlib only, no axioms.  The three contracts `leq_good`, `gt_good`, `lt_good` about the
   propagators the engine itself posts are section hypotheses (proved in Proofs/Props/BasicProofs). *)
Require Import Selen.Model.Prelude Selen.Model.Dom Selen.Model.Views Selen.Model.PropDefs.
Require Import Selen.Model.Props.Basic Selen.Model.Propagate Selen.Model.Search Selen.Model.EngineSpec.
Require Import Coq.Sorting.Permutation.

(* ========================================================================================== *)
(* 0. lists, domains, stores *)

Lemma e_sorted_cons : forall x r, sorted (x :: r) -> (forall y, In y r -> x < y) /\ sorted r.
Proof.
  intros x r. revert x. induction r as [|z r IH]; intros x H.
  - split; [intros y []|exact I].
  - change (x < z /\ sorted (z :: r)) in H. destruct H as [Hxz Hs]. split; [|exact Hs].
    intros y [<-|Hy]; [exact Hxz|]. destruct (IH z Hs) as [Hall _]. specialize (Hall y Hy). lia.
Qed.

Lemma e_sorted_NoDup : forall d, sorted d -> NoDup d.
Proof.
  induction d as [|x r IH]; intros H; [constructor|].
  apply e_sorted_cons in H. destruct H as [Hall Hs]. constructor; [|apply IH; exact Hs].
  intros Hin. specialize (Hall x Hin). lia.
Qed.

Lemma e_dmin_In : forall d, d <> [] -> In (dmin d) d.
Proof. intros [|x r] H; [congruence|left; reflexivity]. Qed.

Lemma e_dmin_least : forall d y, sorted d -> In y d -> dmin d <= y.
Proof.
  intros [|x r] y Hs []; cbn.
  - subst. lia.
  - apply e_sorted_cons in Hs. destruct Hs as [Hall _]. specialize (Hall y H). lia.
Qed.

Lemma e_dmax_In : forall d, d <> [] -> In (dmax d) d.
Proof.
  unfold dmax. induction d as [|x r IH]; intros H; [congruence|].
  destruct r as [|y r]; [left; reflexivity|].
  change (last (x :: y :: r) 0) with (last (y :: r) 0). right. apply IH. discriminate.
Qed.

Lemma e_dmax_greatest : forall d y, sorted d -> In y d -> y <= dmax d.
Proof.
  unfold dmax. induction d as [|x r IH]; intros y Hs Hin; [destruct Hin|].
  destruct r as [|z r].
  - destruct Hin as [<-|[]]. cbn. lia.
  - change (last (x :: z :: r) 0) with (last (z :: r) 0). destruct Hin as [<-|Hin].
    + assert (Hz : In (last (z :: r) 0) (z :: r)) by (apply (e_dmax_In (z :: r)); discriminate).
      apply e_sorted_cons in Hs. destruct Hs as [Hall _]. specialize (Hall _ Hz). lia.
    + apply IH; [apply e_sorted_cons in Hs; tauto | exact Hin].
Qed.

Lemma e_dfixed_single : forall d, dfixed d = true -> exists x, d = [x].
Proof. intros [|x [|y r]]; cbn; try congruence. intros _. exists x. reflexivity. Qed.

Lemma e_filter_length_lt : forall (f : Z -> bool) l x, In x l -> f x = false ->
  (length (filter f l) < length l)%nat.
Proof.
  intros f. induction l as [|y r IH]; intros x Hin Hf; [destruct Hin|].
  cbn [filter]. assert (Hle : (length (filter f r) <= length r)%nat).
  { clear. induction r as [|z r IH]; cbn; [lia|]. destruct (f z); cbn; lia. }
  destruct Hin as [->|Hin].
  - rewrite Hf. cbn. lia.
  - specialize (IH x Hin Hf). destruct (f y); cbn; lia.
Qed.

Lemma e_NoDup_incl_lt : forall (l' l : list Z) x, NoDup l' -> incl l' l -> In x l -> ~ In x l' ->
  (length l' < length l)%nat.
Proof.
  intros l' l x Hnd Hincl Hin Hnin.
  assert (H : (length (x :: l') <= length l)%nat).
  { apply NoDup_incl_length; [constructor; assumption|].
    intros y [<-|Hy]; [exact Hin | apply Hincl; exact Hy]. }
  cbn in H. lia.
Qed.

(* stores *)
Lemma sget_overflow : forall s v, (length s <= v)%nat -> sget s v = [].
Proof. intros. unfold sget. apply nth_overflow. assumption. Qed.

Lemma store_ext : forall s1 s2 : store, length s1 = length s2 ->
  (forall v, sget s1 v = sget s2 v) -> s1 = s2.
Proof. intros s1 s2 Hl H. apply (nth_ext s1 s2 [] []); [exact Hl|]. intros n _. apply H. Qed.

Lemma sub_store_refl : forall s, sub_store s s.
Proof. intros s. split; [reflexivity|auto]. Qed.

Lemma sub_store_trans : forall s1 s2 s3, sub_store s1 s2 -> sub_store s2 s3 -> sub_store s1 s3.
Proof. intros s1 s2 s3 [L1 H1] [L2 H2]. split; [congruence|]. intros v x Hx. apply H2, H1, Hx. Qed.

Lemma sub_store_length : forall s' s, sub_store s' s -> length s' = length s.
Proof. intros s' s [L _]. exact L. Qed.

Lemma dom_eq_dec : forall d1 d2 : dom, {d1 = d2} + {d1 <> d2}.
Proof. apply list_eq_dec. apply Z.eq_dec. Qed.

Lemma total_size_le : forall s' s : store, length s' = length s ->
  (forall v, (v < length s)%nat -> (length (sget s' v) <= length (sget s v))%nat) ->
  (total_size s' <= total_size s)%nat.
Proof.
  induction s' as [|d' r' IH]; intros [|d r] Hl H; cbn in Hl; try discriminate; [cbn; lia|].
  cbn [total_size]. assert (H0 := H 0%nat). cbn in H0.
  assert (IH' : (total_size r' <= total_size r)%nat).
  { apply IH; [lia|]. intros v Hv. apply (H (S v)). cbn. lia. }
  lia.
Qed.

Lemma total_size_lt : forall s' s : store, length s' = length s ->
  (forall v, (v < length s)%nat -> (length (sget s' v) <= length (sget s v))%nat) ->
  forall p, (p < length s)%nat -> (length (sget s' p) < length (sget s p))%nat ->
  (total_size s' < total_size s)%nat.
Proof.
  induction s' as [|d' r' IH]; intros [|d r] Hl H p Hp Hlt; cbn in Hl; try discriminate;
    [cbn in Hp; lia|].
  cbn [total_size]. assert (H0 := H 0%nat). cbn in H0.
  assert (Hr : forall v, (v < length r)%nat -> (length (sget r' v) <= length (sget r v))%nat).
  { intros v Hv. apply (H (S v)). cbn. lia. }
  destruct p as [|p].
  - cbn in Hlt. assert ((total_size r' <= total_size r)%nat) by (apply total_size_le; [lia|exact Hr]). lia.
  - assert ((total_size r' < total_size r)%nat).
    { apply (IH r ltac:(lia) Hr p); [cbn in Hp; lia | exact Hlt]. }
    lia.
Qed.

Lemma sub_store_dom_le : forall s' s v, sub_store s' s -> wf_store s' -> (v < length s)%nat ->
  (length (sget s' v) <= length (sget s v))%nat.
Proof.
  intros s' s v [Hl Hsub] Hwf Hv. apply NoDup_incl_length.
  - apply e_sorted_NoDup. apply Hwf. lia.
  - intros x Hx. apply Hsub, Hx.
Qed.

Lemma sub_store_shrinks : forall s' s p x, sub_store s' s -> wf_store s' -> (p < length s)%nat ->
  In x (sget s p) -> ~ In x (sget s' p) -> (total_size s' < total_size s)%nat.
Proof.
  intros s' s p x Hsub Hwf Hp Hin Hnin.
  apply total_size_lt with (p := p); [apply Hsub | | exact Hp |].
  - intros v Hv. apply sub_store_dom_le; assumption.
  - apply e_NoDup_incl_lt with (x := x); [ | | exact Hin | exact Hnin].
    + apply e_sorted_NoDup. apply Hwf. destruct Hsub as [Hl _]. lia.
    + intros y Hy. destruct Hsub as [_ Hs]. apply Hs, Hy.
Qed.

(* ========================================================================================== *)
(* 1. the agenda *)

Lemma memn_In : forall x l, memn x l = true <-> In x l.
Proof.
  intros x l. unfold memn. rewrite existsb_exists. split.
  - intros [y [Hy E]]. apply Nat.eqb_eq in E. subst. exact Hy.
  - intros H. exists x. split; [exact H|apply Nat.eqb_refl].
Qed.

Lemma schedule_In : forall q p x, In x (schedule q p) <-> In x q \/ x = p.
Proof.
  intros q p x. unfold schedule. destruct (memn p q) eqn:E.
  - apply memn_In in E. split; [auto|]. intros [H|H]; [assumption|subst; assumption].
  - rewrite in_app_iff. cbn. intuition.
Qed.

Lemma fold_schedule_In : forall l q x, In x (fold_left schedule l q) <-> In x q \/ In x l.
Proof.
  induction l as [|p l IH]; intros q x; cbn [fold_left].
  - cbn. tauto.
  - rewrite IH, schedule_In. cbn. intuition.
Qed.

Lemma agenda_with_In : forall l x, In x (agenda_with l) <-> In x l.
Proof. intros l x. unfold agenda_with. rewrite fold_schedule_In. cbn. tauto. Qed.

Lemma deps_from_In : forall ps i v j,
  In j (deps_from ps i v) <->
  exists k pj, j = (i + k)%nat /\ nth_error ps k = Some pj /\ In v (trig pj).
Proof.
  induction ps as [|p r IH]; intros i v j; cbn [deps_from].
  - split; [intros []|]. intros [k [pj [_ [H _]]]]. destruct k; discriminate.
  - rewrite in_app_iff, IH. split.
    + intros [H|[k [pj [E [Hn Hv]]]]].
      * apply in_map_iff in H. destruct H as [y [E Hy]]. apply filter_In in Hy.
        destruct Hy as [Hy Ev]. apply Nat.eqb_eq in Ev. subst y.
        exists 0%nat, p. split; [lia|]. split; [reflexivity|exact Hy].
      * exists (S k), pj. split; [lia|]. split; assumption.
    + intros [k [pj [E [Hn Hv]]]]. destruct k as [|k].
      * left. cbn in Hn. injection Hn as <-. apply in_map_iff. exists v. split; [lia|].
        apply filter_In. split; [exact Hv|apply Nat.eqb_refl].
      * right. exists k, pj. split; [lia|]. split; assumption.
Qed.

Lemma deps_In : forall ps v j,
  In j (deps ps v) <-> exists pj, nth_error ps j = Some pj /\ In v (trig pj).
Proof.
  intros ps v j. unfold deps. rewrite deps_from_In. split.
  - intros [k [pj [E H]]]. cbn in E. subst. exists pj. exact H.
  - intros [pj H]. exists j, pj. split; [reflexivity|exact H].
Qed.

Lemma deps_lt : forall ps v j, In j (deps ps v) -> (j < length ps)%nat.
Proof.
  intros ps v j H. apply deps_In in H. destruct H as [pj [H _]].
  apply nth_error_Some. congruence.
Qed.

Lemma schedule_events_In : forall ps ev q x,
  In x (schedule_events ps q ev) <-> In x q \/ exists v, In v ev /\ In x (deps ps v).
Proof.
  intros ps. unfold schedule_events. induction ev as [|v ev IH]; intros q x; cbn [fold_left].
  - split; [auto|]. intros [H|[v [[] _]]]. exact H.
  - rewrite IH, fold_schedule_In. split.
    + intros [[H|H]|[w [Hw H]]]; [left; exact H | right; exists v; split; [left; reflexivity|exact H]
                                  | right; exists w; split; [right; exact Hw|exact H]].
    + intros [H|[w [[<-|Hw] H]]]; [left; left; exact H | left; right; exact H
                                  | right; exists w; split; assumption].
Qed.

Lemma remove_nth_In : forall (l : list nat) i x, In x (remove_nth i l) -> In x l.
Proof.
  induction l as [|y r IH]; intros i x H; [destruct i; destruct H|].
  destruct i as [|i]; cbn in H; [right; exact H|].
  destruct H as [<-|H]; [left; reflexivity | right; eapply IH; exact H].
Qed.

Lemma remove_nth_split : forall (l : list nat) i x, In x l -> x = nth i l 0%nat \/ In x (remove_nth i l).
Proof.
  induction l as [|y r IH]; intros i x H; [destruct H|].
  destruct i as [|i]; cbn.
  - destruct H as [<-|H]; [left; reflexivity | right; exact H].
  - destruct H as [<-|H]; [right; left; reflexivity|].
    destruct (IH i x H) as [E|E]; [left; exact E | right; right; exact E].
Qed.

Lemma remove_nth_length : forall (l : list nat) i, (i < length l)%nat ->
  length (remove_nth i l) = pred (length l).
Proof.
  induction l as [|y r IH]; intros i H; [cbn in H; lia|].
  destruct i as [|i]; cbn; [reflexivity|]. rewrite IH by (cbn in H; lia). cbn in H. lia.
Qed.

Lemma e_NoDup_snoc : forall (a : list nat) p, NoDup a -> ~ In p a -> NoDup (a ++ [p]).
Proof.
  induction a as [|x a IH]; intros p Hnd Hn; cbn.
  - constructor; [intros []|constructor].
  - inversion Hnd; subst. constructor.
    + intros H. apply in_app_or in H. destruct H as [H|[<-|[]]]; [contradiction|].
      apply Hn. left. reflexivity.
    + apply IH; [assumption|]. intros H. apply Hn. right. exact H.
Qed.

(* the queue only grows by distinct fresh PropIds *)
Definition qext (n : nat) (q q' : list nat) : Prop :=
  exists a, q' = q ++ a /\ NoDup a /\ forall x, In x a -> (x < n)%nat /\ ~ In x q.

Lemma qext_refl : forall n q, qext n q q.
Proof. intros n q. exists []. rewrite app_nil_r. split; [reflexivity|]. split; [constructor|intros x []]. Qed.

Lemma qext_schedule : forall n q q' p, qext n q q' -> (p < n)%nat -> qext n q (schedule q' p).
Proof.
  intros n q q' p [a [-> [Hnd Ha]]] Hp. unfold schedule. destruct (memn p (q ++ a)) eqn:E.
  - exists a. auto.
  - assert (Hn : ~ In p (q ++ a)) by (intros H; apply memn_In in H; congruence).
    exists (a ++ [p]). split; [rewrite app_assoc; reflexivity|]. split.
    + apply e_NoDup_snoc; [exact Hnd|]. intros H. apply Hn, in_or_app. right. exact H.
    + intros x Hx. apply in_app_or in Hx. destruct Hx as [Hx|[<-|[]]]; [apply Ha, Hx|].
      split; [exact Hp|]. intros H. apply Hn, in_or_app. left. exact H.
Qed.

Lemma qext_fold_schedule : forall n l q q', qext n q q' -> (forall x, In x l -> (x < n)%nat) ->
  qext n q (fold_left schedule l q').
Proof.
  intros n. induction l as [|p l IH]; intros q q' H Hl; cbn [fold_left]; [exact H|].
  apply IH; [apply qext_schedule; [exact H|apply Hl; left; reflexivity]|].
  intros x Hx. apply Hl. right. exact Hx.
Qed.

Lemma qext_schedule_events : forall ps ev q q', qext (length ps) q q' ->
  qext (length ps) q (schedule_events ps q' ev).
Proof.
  intros ps. unfold schedule_events. induction ev as [|v ev IH]; intros q q' H; cbn [fold_left]; [exact H|].
  apply IH. apply qext_fold_schedule; [exact H|]. intros x Hx. eapply deps_lt; exact Hx.
Qed.

Lemma qext_length : forall n q q', qext n q q' -> (length q' <= length q + n)%nat.
Proof.
  intros n q q' [a [-> [Hnd Ha]]]. rewrite app_length.
  assert (H : (length a <= length (seq 0 n))%nat).
  { apply NoDup_incl_length; [exact Hnd|]. intros x Hx. apply in_seq. destruct (Ha x Hx). lia. }
  rewrite seq_length in H. lia.
Qed.

Lemma schedule_events_length : forall ps q ev,
  (length (schedule_events ps q ev) <= length q + length ps)%nat.
Proof. intros. apply qext_length. apply qext_schedule_events. apply qext_refl. Qed.

Lemma schedule_events_nil : forall ps q, schedule_events ps q [] = q.
Proof. reflexivity. Qed.

(* ========================================================================================== *)
(* 2. propagation to fixpoint *)

(* one run of a contracting propagator from an empty event list *)
Lemma step_contract : forall pr s s' ev, contracting pr -> wf_store s ->
  prune pr (s, []) = Some (s', ev) ->
  sub_store s' s /\ wf_store s' /\
  (forall v, sget s' v <> sget s v -> In v ev) /\
  (forall v, In v ev -> In v (trig pr)) /\
  (ev <> [] -> (total_size s' < total_size s)%nat).
Proof.
  intros pr s s' ev Hc Hwf Hp. destruct (Hc s [] s' ev Hwf Hp) as [Hs [Hw [evn [E [H1 [H2 H3]]]]]].
  cbn in E. subst evn. auto.
Qed.

Lemma step_noev : forall pr s s', contracting pr -> wf_store s ->
  prune pr (s, []) = Some (s', []) -> s' = s.
Proof.
  intros pr s s' Hc Hwf Hp. destruct (step_contract _ _ _ _ Hc Hwf Hp) as [Hs [_ [H1 _]]].
  apply store_ext; [apply Hs|]. intros v.
  destruct (dom_eq_dec (sget s' v) (sget s v)) as [E|E]; [exact E|]. destruct (H1 v E).
Qed.

(* a propagator at its fixpoint stays there when only non-trigger variables change *)
Lemma frame_stable : forall p s s', frame p -> contracting p -> wf_store s' -> length s = length s' ->
  agree_on (trig p) s s' -> prune p (s, []) = Some (s, []) -> prune p (s', []) = Some (s', []).
Proof.
  intros p s s' [F _] Hc Hwf Hl Hag H1. specialize (F s s' [] Hl Hag).
  unfold store, dom, ctx in *. rewrite H1 in F.
  destruct (prune p (s', [])) as [[s2 e2]|] eqn:E2; [|destruct F].
  destruct F as [<- _]. f_equal. f_equal. eapply step_noev; [exact Hc|exact Hwf|exact E2].
Qed.

Section PropagateGeneric.
  Variable pick : sched.
  Variable ps : list prop.

  Lemma propagate_eq : forall f s q, q <> [] ->
    propagate pick (S f) ps s q =
    match nth_error ps (nth (pick q mod length q)%nat q 0%nat) with
    | None => PFail
    | Some pr =>
      match prune pr (s, []) with
      | None => PFail
      | Some (s', ev) =>
        propagate pick f ps s' (schedule_events ps (remove_nth (pick q mod length q)%nat q) ev)
      end
    end.
  Proof.
    intros f s [|p0 r] H; [congruence|].
    rewrite (nth_indep (p0 :: r) 0%nat p0) by (apply Nat.mod_upper_bound; discriminate).
    reflexivity.
  Qed.

  Lemma pick_lt : forall q : list nat, q <> [] -> (pick q mod length q < length q)%nat.
  Proof. intros q H. apply Nat.mod_upper_bound. destruct q; [congruence|discriminate]. Qed.

  (* invariant rule for successful runs *)
  Lemma propagate_invariant : forall (I : store -> list nat -> Prop),
    (forall s q i pr s' ev, I s q -> (i < length q)%nat ->
       nth_error ps (nth i q 0%nat) = Some pr -> prune pr (s, []) = Some (s', ev) ->
       I s' (schedule_events ps (remove_nth i q) ev)) ->
    forall fuel s q s', I s q -> propagate pick fuel ps s q = PDone s' -> I s' [].
  Proof.
    intros I Hstep. induction fuel as [|f IH]; intros s q s' HI Hp.
    - destruct q; cbn in Hp; [injection Hp as <-; exact HI|discriminate].
    - destruct q as [|p0 r] eqn:Eq; [cbn in Hp; injection Hp as <-; exact HI|].
      rewrite <- Eq in *. assert (Hne : q <> []) by (rewrite Eq; discriminate).
      rewrite propagate_eq in Hp by exact Hne.
      destruct (nth_error ps _) as [pr|] eqn:En; [|discriminate].
      destruct (prune pr (s, [])) as [[s1 ev]|] eqn:Epr; [|discriminate].
      eapply IH; [|exact Hp]. eapply Hstep; [exact HI | apply pick_lt; exact Hne | exact En | exact Epr].
  Qed.

  (* progress rule: no failure *)
  Lemma propagate_nofail : forall (I : store -> list nat -> Prop),
    (forall s q i, I s q -> (i < length q)%nat ->
       exists pr s' ev, nth_error ps (nth i q 0%nat) = Some pr /\ prune pr (s, []) = Some (s', ev) /\
                        I s' (schedule_events ps (remove_nth i q) ev)) ->
    forall fuel s q, I s q -> propagate pick fuel ps s q <> PFail.
  Proof.
    intros I Hstep. induction fuel as [|f IH]; intros s q HI.
    - destruct q; cbn; discriminate.
    - destruct q as [|p0 r] eqn:Eq; [cbn; discriminate|].
      rewrite <- Eq in *. assert (Hne : q <> []) by (rewrite Eq; discriminate).
      rewrite propagate_eq by exact Hne.
      destruct (Hstep s q _ HI (pick_lt q Hne)) as [pr [s1 [ev [En [Epr HI']]]]].
      rewrite En, Epr. apply IH. exact HI'.
  Qed.
End PropagateGeneric.

Lemma Forall_nth_error : forall (A : Type) (P : A -> Prop) l i x, Forall P l -> nth_error l i = Some x -> P x.
Proof. intros A P l i x H E. eapply Forall_forall; [exact H|]. eapply nth_error_In; exact E. Qed.

Theorem propagate_shrinks : forall pick fuel ps s q s',
  Forall contracting ps -> wf_store s -> propagate pick fuel ps s q = PDone s' -> sub_store s' s /\ wf_store s'.
Proof.
  intros pick fuel ps s q s' Hc Hwf Hp.
  apply (propagate_invariant pick ps (fun t _ => sub_store t s /\ wf_store t)) with (fuel := fuel) (s := s) (q := q);
    [|split; [apply sub_store_refl|exact Hwf]|exact Hp].
  intros t q0 i pr t' ev [Hs Hw] _ En Epr.
  destruct (step_contract pr t t' ev (Forall_nth_error _ _ _ _ _ Hc En) Hw Epr) as [Hs' [Hw' _]].
  split; [eapply sub_store_trans; eassumption|exact Hw'].
Qed.

(* one sound step keeps the solution *)
Lemma step_sound : forall pr s a, sound pr -> wf_store s -> in_scope pr (length s) -> inst a s ->
  sat pr a = true -> exists s' ev, prune pr (s, []) = Some (s', ev) /\ inst a s'.
Proof. intros pr s a Hs Hwf Hsc Hi Hsat. exact (Hs s [] a Hwf Hsc Hi Hsat). Qed.

Theorem propagate_keeps_solutions : forall pick fuel ps s q a,
  Forall contracting ps -> Forall sound ps -> scoped ps (length s) -> wf_store s -> sol ps s a ->
  (forall i, In i q -> (i < length ps)%nat) ->
  propagate pick fuel ps s q <> PFail /\ forall s', propagate pick fuel ps s q = PDone s' -> inst a s'.
Proof.
  intros pick fuel ps s q a Hc Hso Hsc Hwf [Hi Hsat] Hq.
  set (I := fun (t : store) (q0 : list nat) =>
              wf_store t /\ length t = length s /\ inst a t /\ forall i, In i q0 -> (i < length ps)%nat).
  assert (HI0 : I s q) by (unfold I; auto).
  assert (Hstep : forall t q0 i, I t q0 -> (i < length q0)%nat ->
     exists pr t' ev, nth_error ps (nth i q0 0%nat) = Some pr /\ prune pr (t, []) = Some (t', ev) /\
                      I t' (schedule_events ps (remove_nth i q0) ev)).
  { intros t q0 i [Hw [Hl [Hit Hq0]]] Hlt.
    assert (Hin : In (nth i q0 0%nat) q0) by (apply nth_In; exact Hlt).
    destruct (nth_error ps (nth i q0 0%nat)) as [pr|] eqn:En;
      [|apply nth_error_None in En; specialize (Hq0 _ Hin); lia].
    assert (Hpin : In pr ps) by (eapply nth_error_In; exact En).
    assert (Hscp : in_scope pr (length t)).
    { rewrite Hl. eapply Forall_forall in Hsc; [exact Hsc|exact Hpin]. }
    destruct (step_sound pr t a (Forall_nth_error _ _ _ _ _ Hso En) Hw Hscp Hit (Hsat pr Hpin))
      as [t' [ev [Epr Hit']]].
    exists pr, t', ev. split; [reflexivity|]. split; [exact Epr|].
    destruct (step_contract pr t t' ev (Forall_nth_error _ _ _ _ _ Hc En) Hw Epr) as [Hs' [Hw' _]].
    split; [exact Hw'|]. split; [destruct Hs' as [L _]; congruence|]. split; [exact Hit'|].
    intros j Hj. apply schedule_events_In in Hj. destruct Hj as [Hj|[v [_ Hj]]].
    - apply Hq0. eapply remove_nth_In; exact Hj.
    - eapply deps_lt; exact Hj. }
  split.
  - apply (propagate_nofail pick ps I Hstep). exact HI0.
  - intros s' Hp.
    assert (H : I s' []).
    { apply (propagate_invariant pick ps I) with (fuel := fuel) (s := s) (q := q); [|exact HI0|exact Hp].
      intros t q0 i pr t' ev HI Hlt En Epr.
      destruct (Hstep t q0 i HI Hlt) as [pr' [t'' [ev' [En' [Epr' HI']]]]].
      rewrite En in En'. injection En' as <-. rewrite Epr in Epr'. injection Epr' as <- <-. exact HI'. }
    destruct H as [_ [_ [H _]]]. exact H.
Qed.

(* (the `scoped` premise of the published statement is not needed) *)
Lemma propagate_fixpoint_gen : forall pick fuel ps s q s',
  Forall good ps -> wf_store s -> stable ps s q ->
  propagate pick fuel ps s q = PDone s' -> stable ps s' [].
Proof.
  intros pick fuel ps s q s' Hg Hwf Hst Hp.
  assert (H : wf_store s' /\ stable ps s' []).
  { apply (propagate_invariant pick ps (fun t q0 => wf_store t /\ stable ps t q0))
      with (fuel := fuel) (s := s) (q := q); [|split; assumption|exact Hp].
    clear s q s' Hwf Hst Hp. intros s q i pr s' ev [Hwf Hst] Hlt En Epr.
    assert (Hcpr : contracting pr) by (apply (Forall_nth_error _ _ _ _ _ Hg En)).
    destruct (step_contract pr s s' ev Hcpr Hwf Epr) as [Hsub [Hwf' [Hch [Htr _]]]].
    split; [exact Hwf'|].
    intros j pj Enj Hnin.
    assert (Hnq : ~ In j (remove_nth i q)).
    { intros H. apply Hnin. apply schedule_events_In. left. exact H. }
    assert (Hnd : forall v, In v ev -> ~ In v (trig pj)).
    { intros v Hv Hvt. apply Hnin. apply schedule_events_In. right. exists v. split; [exact Hv|].
      apply deps_In. exists pj. split; assumption. }
    destruct ev as [|v0 ev0].
    - (* nothing changed *)
      assert (E : s' = s) by (eapply step_noev; eassumption). subst s'.
      destruct (Nat.eq_dec j (nth i q 0%nat)) as [Ej|Ej].
      + subst j. rewrite En in Enj. injection Enj as <-. exact Epr.
      + apply (Hst j pj Enj). intros Hin.
        destruct (remove_nth_split q i j Hin) as [E|E]; [exact (Ej E)|exact (Hnq E)].
    - (* some variable changed: j is not the popped propagator and does not watch it *)
      assert (Ej : j <> nth i q 0%nat).
      { intros ->. rewrite En in Enj. injection Enj as <-.
        apply (Hnd v0); [left; reflexivity|]. apply Htr. left. reflexivity. }
      assert (Hold : prune pj (s, []) = Some (s, [])).
      { apply (Hst j pj Enj). intros Hin.
        destruct (remove_nth_split q i j Hin) as [E|E]; [exact (Ej E)|exact (Hnq E)]. }
      assert (Hag : agree_on (trig pj) s s').
      { intros v Hv. destruct (dom_eq_dec (sget s' v) (sget s v)) as [E|E]; [symmetry; exact E|].
        exfalso. apply (Hnd v); [apply Hch; exact E|exact Hv]. }
      assert (Hgj : good pj) by (apply (Forall_nth_error _ _ _ _ _ Hg Enj)).
      destruct Hgj as [Hcj [_ [_ Hfr]]].
      assert (Hl : length s = length s') by (destruct Hsub as [L _]; congruence).
      eapply frame_stable; eassumption. }
  apply H.
Qed.

Theorem propagate_fixpoint : forall pick fuel ps s q s',
  Forall good ps -> scoped ps (length s) -> wf_store s -> stable ps s q ->
  propagate pick fuel ps s q = PDone s' -> stable ps s' [].
Proof. intros pick fuel ps s q s' Hg _. apply propagate_fixpoint_gen. exact Hg. Qed.

Lemma all_fixed_sget : forall s v, all_fixed s = true -> (v < length s)%nat -> dfixed (sget s v) = true.
Proof.
  intros s v H Hv. unfold all_fixed in H. rewrite forallb_forall in H. apply H.
  unfold sget. apply nth_In. exact Hv.
Qed.

(* the version used internally: one propagator, in scope *)
Lemma fixed_checks_one : forall p s a, good p -> in_scope p (length s) -> wf_store s ->
  prune p (s, []) = Some (s, []) -> all_fixed s = true -> inst a s -> sat p a = true.
Proof.
  intros p s a [_ [_ [Hch _]]] Hsc Hwf Hst Hfix Hi.
  apply (Hch s [] a Hwf Hi); [|unfold store, dom, ctx in *; rewrite Hst; discriminate].
  intros v Hv. apply all_fixed_sget; [exact Hfix|apply Hsc; exact Hv].
Qed.

Theorem fixed_fixpoint_checks : forall ps s a,
  Forall good ps -> scoped ps (length s) -> wf_store s -> stable ps s [] -> all_fixed s = true -> inst a s ->
  forall p, In p ps -> sat p a = true.
Proof.
  intros ps s a Hg Hsc Hwf Hst Hfix Hi p Hp.
  destruct (In_nth_error _ _ Hp) as [i Ei].
  apply fixed_checks_one with (s := s); try assumption.
  - eapply Forall_forall; [exact Hg|exact Hp].
  - eapply Forall_forall in Hsc; [exact Hsc|exact Hp].
  - apply (Hst i p Ei). intros [].
Qed.

Theorem propagate_terminates : forall pick fuel ps s q,
  Forall contracting ps -> wf_store s -> (prop_fuel ps s q <= fuel)%nat -> propagate pick fuel ps s q <> PFuel.
Proof.
  intros pick fuel ps s q Hc. unfold prop_fuel.
  assert (H : forall fuel s q, wf_store s ->
            (length q + total_size s * S (length ps) <= fuel)%nat -> propagate pick fuel ps s q <> PFuel).
  { clear fuel s q. induction fuel as [|f IH]; intros s q Hwf Hf.
    - destruct q; cbn; [discriminate|]. cbn in Hf. lia.
    - destruct q as [|p0 r] eqn:Eq; [cbn; discriminate|].
      rewrite <- Eq in *. assert (Hne : q <> []) by (rewrite Eq; discriminate).
      rewrite propagate_eq by exact Hne.
      destruct (nth_error ps _) as [pr|] eqn:En; [|discriminate].
      destruct (prune pr (s, [])) as [[s1 ev]|] eqn:Epr; [|discriminate].
      destruct (step_contract pr s s1 ev (Forall_nth_error _ _ _ _ _ Hc En) Hwf Epr)
        as [Hsub [Hwf1 [_ [_ Hdec]]]].
      apply IH; [exact Hwf1|].
      assert (Hq : (0 < length q)%nat) by (destruct q; [congruence|cbn; lia]).
      assert (Hr := remove_nth_length q _ (pick_lt pick q Hne)).
      destruct ev as [|v0 ev0].
      + assert (E : s1 = s) by (eapply step_noev; [|exact Hwf|exact Epr]; apply (Forall_nth_error _ _ _ _ _ Hc En)).
        subst s1. rewrite schedule_events_nil. lia.
      + assert (Hd : (total_size s1 < total_size s)%nat) by (apply Hdec; discriminate).
        pose proof (schedule_events_length ps (remove_nth (pick q mod length q) q) (v0 :: ev0)) as Hlen.
        nia. }
  intros Hwf Hf. apply H; [exact Hwf|]. lia.
Qed.

(* ========================================================================================== *)
(* 3. branching *)

Lemma wf_unfixed_lt : forall d, wf_dom d -> dfixed d = false -> dmin d < dmax d.
Proof.
  intros d [Hne Hs] Hf. destruct d as [|x [|y r]]; [congruence|discriminate|].
  assert (Hy : In y (x :: y :: r)) by (right; left; reflexivity).
  pose proof (e_dmax_greatest _ _ Hs Hy). cbn [dmin hd]. destruct Hs as [Hxy _]. lia.
Qed.

Lemma dmid_bounds : forall d, wf_dom d -> dfixed d = false -> dmin d <= dmid d < dmax d.
Proof.
  intros d Hwf Hf. pose proof (wf_unfixed_lt d Hwf Hf) as Hlt.
  unfold dmid. destruct Hwf as [Hne _]. destruct d as [|x r] eqn:Ed; [congruence|]. rewrite <- Ed in *.
  assert (E1 : dempty d = false) by (rewrite Ed; reflexivity). rewrite E1.
  destruct (Z.eqb_spec (dmin d) (dmax d)) as [E|_]; [lia|].
  unfold tdiv. rewrite Z.quot_div_nonneg by lia.
  pose proof (Z.div_mod (dmax d - dmin d) 2 ltac:(lia)) as Hdm.
  pose proof (Z.mod_pos_bound (dmax d - dmin d) 2 ltac:(lia)) as Hmb.
  lia.
Qed.

Theorem branch_partition : forall d, wf_dom d -> dfixed d = false ->
  let m := dmid d in
  dmin d <= m < dmax d /\
  (forall x, In x d -> (x <= m \/ m < x)) /\ dabove m d <> [] /\ dbelow (m + 1) d <> [] /\
  (length (dabove m d) < length d)%nat /\ (length (dbelow (m + 1) d) < length d)%nat.
Proof.
  intros d Hwf Hf m. pose proof (dmid_bounds d Hwf Hf) as Hb. fold m in Hb.
  destruct Hwf as [Hne Hs].
  pose proof (e_dmin_In d Hne) as Hmin. pose proof (e_dmax_In d Hne) as Hmax.
  split; [exact Hb|]. split; [intros x _; lia|].
  assert (A : In (dmin d) (dabove m d)).
  { unfold dabove. apply filter_In. split; [exact Hmin|]. apply Z.leb_le. lia. }
  assert (B : In (dmax d) (dbelow (m + 1) d)).
  { unfold dbelow. apply filter_In. split; [exact Hmax|]. apply Z.leb_le. lia. }
  split; [intros E; rewrite E in A; destruct A|].
  split; [intros E; rewrite E in B; destruct B|].
  split.
  - unfold dabove. apply e_filter_length_lt with (x := dmax d); [exact Hmax|]. apply Z.leb_gt. lia.
  - unfold dbelow. apply e_filter_length_lt with (x := dmin d); [exact Hmin|]. apply Z.leb_gt. lia.
Qed.

Theorem maximize_is_minimize_opp : forall pick obj ps s,
  maximize pick obj ps s = minimize pick (VOpp obj) ps s /\ forall a, vsem (VOpp obj) a = - vsem obj a.
Proof. intros. split; reflexivity. Qed.

(* ========================================================================================== *)
(* 4. the search engine *)

Lemma first_unassigned_spec : forall s i p, first_unassigned s i = Some p ->
  (i <= p)%nat /\ (p - i < length s)%nat /\ dfixed (sget s (p - i)) = false.
Proof.
  induction s as [|d r IH]; intros i p H; cbn in H; [discriminate|].
  destruct (dfixed d) eqn:Ed.
  - destruct (IH _ _ H) as [H1 [H2 H3]]. split; [lia|]. split; [cbn; lia|].
    replace (p - i)%nat with (S (p - S i)) by lia. exact H3.
  - injection H as <-. split; [lia|]. rewrite Nat.sub_diag. split; [cbn; lia|exact Ed].
Qed.

Lemma first_unassigned_none : forall s i, first_unassigned s i = None -> all_fixed s = true.
Proof.
  induction s as [|d r IH]; intros i H; [reflexivity|]. cbn in H. cbn.
  destruct (dfixed d); [|discriminate]. apply (IH _ H).
Qed.

Lemma pivot_spec : forall s p, first_unassigned s 0 = Some p ->
  (p < length s)%nat /\ dfixed (sget s p) = false.
Proof. intros s p H. apply first_unassigned_spec in H. rewrite Nat.sub_0_r in H. tauto. Qed.

Lemma all_fixed_wf : forall s, all_fixed s = true -> wf_store s.
Proof.
  intros s H v Hv. destruct (e_dfixed_single _ (all_fixed_sget s v H Hv)) as [x ->].
  split; [discriminate|exact I].
Qed.

Lemma inst_asg_of : forall s, all_fixed s = true -> inst (asg_of s) s.
Proof.
  intros s H v Hv. unfold asg_of. destruct (e_dfixed_single _ (all_fixed_sget s v H Hv)) as [x ->].
  left. reflexivity.
Qed.

(* an assignment inside a fully fixed store is the one the store denotes *)
Lemma inst_fixed_eq : forall s a v, all_fixed s = true -> inst a s -> (v < length s)%nat -> a v = asg_of s v.
Proof.
  intros s a v H Hi Hv. specialize (Hi v Hv). unfold asg_of.
  destruct (e_dfixed_single _ (all_fixed_sget s v H Hv)) as [x E]. rewrite E in *.
  destruct Hi as [Hi|[]]. cbn. congruence.
Qed.

Lemma inst_sub : forall a s' s, inst a s' -> sub_store s' s -> inst a s.
Proof. intros a s' s Hi [Hl Hs] v Hv. apply Hs. apply Hi. lia. Qed.

(* two fully fixed stores of the same length containing the same assignment are equal *)
Lemma fixed_store_unique : forall t t' a, all_fixed t = true -> all_fixed t' = true ->
  length t = length t' -> inst a t -> inst a t' -> t = t'.
Proof.
  intros t t' a Ht Ht' Hl Hi Hi'. apply store_ext; [exact Hl|]. intros v.
  destruct (lt_dec v (length t)) as [Hv|Hv].
  - specialize (Hi v Hv). specialize (Hi' v ltac:(lia)).
    destruct (e_dfixed_single _ (all_fixed_sget t v Ht Hv)) as [x E].
    destruct (e_dfixed_single _ (all_fixed_sget t' v Ht' ltac:(lia))) as [x' E'].
    rewrite E in *. rewrite E' in *. destruct Hi as [Hi|[]]. destruct Hi' as [Hi'|[]]. congruence.
  - rewrite !sget_overflow by lia. reflexivity.
Qed.

(* the value of a view on a fully fixed store *)
Lemma vbnd_fixed : forall s w mx, all_fixed s = true -> vbnd w mx s = vsem w (asg_of s).
Proof.
  intros s w. induction w as [v|c|w IH|w IH c|w IH k|w IH|w IH]; intros mx H; cbn [vbnd vsem];
    try (rewrite IH by exact H; reflexivity); [|reflexivity].
  unfold asg_of. destruct (lt_dec v (length s)) as [Hv|Hv].
  - destruct (e_dfixed_single _ (all_fixed_sget s v H Hv)) as [x ->]. destruct mx; reflexivity.
  - rewrite sget_overflow by lia. destruct mx; reflexivity.
Qed.

(* a view only reads its variable *)
Lemma vsem_ext : forall w a1 a2, (forall x, uvar w = Some x -> a1 x = a2 x) -> vsem w a1 = vsem w a2.
Proof.
  induction w as [v|c|w IH|w IH c|w IH k|w IH|w IH]; intros a1 a2 H; cbn [vsem];
    try (rewrite (IH a1 a2 H); reflexivity); [|reflexivity].
  apply H. reflexivity.
Qed.

(* the propagators posted by the engine itself *)
Lemma leq_trig : forall p c, trig (mk_leq (VVar p) (VConst c)) = [p].
Proof. reflexivity. Qed.
Lemma leq_sat : forall p c a, sat (mk_leq (VVar p) (VConst c)) a = (a p <=? c).
Proof. reflexivity. Qed.
Lemma gt_trig : forall p c, trig (mk_gt (VVar p) (VConst c)) = [p].
Proof. reflexivity. Qed.
Lemma gt_sat : forall p c a, sat (mk_gt (VVar p) (VConst c)) a = (c + 1 <=? a p).
Proof. reflexivity. Qed.
Lemma lt_trig : forall obj b, trig (mk_lt obj (VConst b)) = uvarl obj ++ [].
Proof. reflexivity. Qed.
Lemma lt_sat : forall obj b a, sat (mk_lt obj (VConst b)) a = (vsem obj a + 1 <=? b).
Proof. reflexivity. Qed.

Lemma leq_stable_bound : forall p c s,
  prune (mk_leq (VVar p) (VConst c)) (s, []) = Some (s, []) -> dmax (sget s p) <= c.
Proof.
  intros p c s H. cbn [prune mk_leq] in H. unfold prune_leq, vset_max, vset_min, cmax, cmin, vmax, vmin in H.
  cbn [vset vbnd fst] in H. unfold cset_max in H. cbn [fst snd] in H.
  destruct (dempty (sget s p)); [discriminate|].
  destruct (c <? dmin (sget s p)); [discriminate|].
  destruct (Z.ltb_spec c (dmax (sget s p))) as [Hlt|Hge]; [|lia].
  destruct (dempty (dabove c (sget s p))); [discriminate|]. cbn [obind fst] in H.
  destruct (_ <=? c) in H; [|discriminate]. injection H as _ H. discriminate.
Qed.

Lemma gt_stable_bound : forall p c s,
  prune (mk_gt (VVar p) (VConst c)) (s, []) = Some (s, []) -> c < dmin (sget s p).
Proof.
  intros p c s H. cbn [prune mk_gt mk_leq] in H. unfold prune_leq, vset_max, vset_min, cmax, cmin, vmax, vmin in H.
  cbn [vset vbnd fst] in H.
  destruct (c <=? dmax (sget s p) - 1); [|discriminate]. cbn [obind fst vbnd] in H.
  unfold cset_min in H. cbn [fst snd] in H.
  destruct (dempty (sget s p)); [discriminate|].
  destruct (dmax (sget s p) <? c + 1); [discriminate|].
  destruct (Z.ltb_spec (dmin (sget s p)) (c + 1)) as [Hlt|Hge]; [|lia].
  destruct (dempty (dbelow (c + 1) (sget s p))); [discriminate|]. injection H as _ H. discriminate.
Qed.

(* the objective bookkeeping of Minimize *)
Fixpoint dec_from (best : option Z) (l : list Z) : Prop :=
  match l with
  | [] => True
  | x :: r => (forall b, best = Some b -> x < b) /\ dec_from (Some x) r
  end.
Definition last_best (best : option Z) (l : list Z) : option Z := fold_left (fun _ x => Some x) l best.

Lemma dec_from_app : forall l1 l2 best,
  dec_from best (l1 ++ l2) <-> dec_from best l1 /\ dec_from (last_best best l1) l2.
Proof.
  induction l1 as [|x l1 IH]; intros l2 best; cbn [app dec_from last_best fold_left].
  - tauto.
  - fold (last_best (Some x) l1). rewrite IH. tauto.
Qed.

Lemma last_best_app : forall l1 l2 best, last_best best (l1 ++ l2) = last_best (last_best best l1) l2.
Proof. intros. unfold last_best. apply fold_left_app. Qed.

Lemma last_best_le : forall l b, dec_from (Some b) l -> exists b', last_best (Some b) l = Some b' /\ b' <= b.
Proof.
  induction l as [|x l IH]; intros b H.
  - exists b. split; [reflexivity|lia].
  - destruct H as [H1 H2]. specialize (H1 b eq_refl). destruct (IH x H2) as [b' [E Hb]].
    exists b'. split; [exact E|lia].
Qed.

Lemma dec_from_weaken : forall l best, dec_from best l -> dec_from None l.
Proof. intros [|x l] best H; [exact I|]. destruct H as [_ H]. split; [intros b; discriminate|exact H]. Qed.

Lemma dec_from_strict : forall l, dec_from None l -> strictly_decreasing l.
Proof.
  induction l as [|x l IH]; intros H; [exact I|]. destruct H as [_ H].
  destruct l as [|y l]; [exact I|]. split; [destruct H as [H _]; apply H; reflexivity|].
  apply IH. eapply dec_from_weaken; exact H.
Qed.

Lemma last_best_last : forall (A : Type) (f : A -> Z) (l : list A),
  last_best None (map f l) = option_map f (last (map Some l) None).
Proof.
  intros A f l. assert (H : forall best0 (d : option A), best0 = option_map f d ->
    last_best best0 (map f l) = option_map f (last (map Some l) d)).
  { induction l as [|x l IH]; intros best0 d E; [exact E|].
    cbn [map last_best fold_left]. fold (last_best (Some (f x)) (map f l)).
    rewrite (IH (Some (f x)) (Some x) eq_refl).
    destruct l as [|y l]; [reflexivity|]. cbn [map last].
    clear. revert x y d. induction l as [|z l IH]; intros x y d; [reflexivity|].
    cbn [map last] in *. apply IH. }
  apply (H None None). reflexivity.
Qed.

Lemma e_NoDup_app : forall (A : Type) (l1 l2 : list A), NoDup l1 -> NoDup l2 ->
  (forall x, In x l1 -> In x l2 -> False) -> NoDup (l1 ++ l2).
Proof.
  intros A. induction l1 as [|x l1 IH]; intros l2 H1 H2 Hd; [exact H2|].
  inversion H1; subst. cbn. constructor.
  - intros H. apply in_app_or in H. destruct H as [H|H]; [contradiction|]. apply (Hd x); [left; reflexivity|exact H].
  - apply IH; [assumption|assumption|]. intros y Hy. apply Hd. right. exact Hy.
Qed.

Definition mode_vok (m : mode) : Prop := match m with Some obj => view_ok obj | None => True end.
(* the objective's variable is a variable of the store *)
Definition view_scoped (w : view) (n : nat) : Prop := forall x, uvar w = Some x -> (x < n)%nat.
Definition mode_scoped (m : mode) (n : nat) : Prop :=
  match m with Some obj => view_scoped obj n | None => True end.

Definition node_ok (ps : list prop) (s : store) : Prop := Forall good ps /\ wf_store s /\ stable ps s [].

Lemma good_contracting : forall ps, Forall good ps -> Forall contracting ps.
Proof. intros ps. apply Forall_impl. intros p [H _]. exact H. Qed.
Lemma good_sound : forall ps, Forall good ps -> Forall sound ps.
Proof. intros ps. apply Forall_impl. intros p [_ [H _]]. exact H. Qed.

Section Search.
  Hypothesis leq_good : forall x y, view_ok x -> view_ok y -> good (mk_leq x y).
  Hypothesis gt_good  : forall x y, view_ok x -> view_ok y -> good (mk_gt x y).
  Hypothesis lt_good  : forall x y, view_ok x -> view_ok y -> good (mk_lt x y).

  Section Engine.
    Variable pick : sched.
    Variable m : mode.

    Definition cps (ps : list prop) (best : option Z) (bp : prop) : list prop :=
      (ps ++ [bp]) ++ on_branch_props m best.
    Definition cag (ps : list prop) (best : option Z) : list nat :=
      agenda_with (seq (S (length ps)) (length (on_branch_props m best)) ++ [length ps]).
    Definition cprop (ps : list prop) (s : store) (best : option Z) (bp : prop) : presult :=
      propagate pick (prop_fuel (cps ps best bp) s (cag ps best)) (cps ps best bp) s (cag ps best).
    Definition child (rec : list prop -> store -> option Z -> sresult)
               (ps : list prop) (s : store) (best : option Z) (bp : prop) : sresult :=
      match cprop ps s best bp with
      | PFuel => SFuel
      | PFail => SOk [] best
      | PDone s' =>
        if all_fixed s' then SOk [s'] (on_solution m best s') else rec (cps ps best bp) s' best
      end.

    Lemma dfs_eq : forall f ps s best,
      dfs pick m (S f) ps s best =
      match first_unassigned s 0 with
      | None => SOk [] best
      | Some pivot =>
        let mid := dmid (sget s pivot) in
        match child (dfs pick m f) ps s best (mk_leq (VVar pivot) (VConst mid)) with
        | SFuel => SFuel
        | SOk sols1 best1 =>
          match child (dfs pick m f) ps s best1 (mk_gt (VVar pivot) (VConst mid)) with
          | SFuel => SFuel
          | SOk sols2 best2 => SOk (sols1 ++ sols2) best2
          end
        end
      end.
    Proof. reflexivity. Qed.

    (* successful runs of the engine, as a relation *)
    Inductive run : list prop -> store -> option Z -> list store -> option Z -> Prop :=
    | run_node : forall ps s best pivot sols1 best1 sols2 best2,
        first_unassigned s 0 = Some pivot ->
        crun ps s best (mk_leq (VVar pivot) (VConst (dmid (sget s pivot)))) sols1 best1 ->
        crun ps s best1 (mk_gt (VVar pivot) (VConst (dmid (sget s pivot)))) sols2 best2 ->
        run ps s best (sols1 ++ sols2) best2
    with crun : list prop -> store -> option Z -> prop -> list store -> option Z -> Prop :=
    | crun_fail : forall ps s best bp,
        cprop ps s best bp = PFail -> crun ps s best bp [] best
    | crun_leaf : forall ps s best bp s',
        cprop ps s best bp = PDone s' -> all_fixed s' = true ->
        crun ps s best bp [s'] (on_solution m best s')
    | crun_rec : forall ps s best bp s' sols best',
        cprop ps s best bp = PDone s' -> all_fixed s' = false ->
        run (cps ps best bp) s' best sols best' -> crun ps s best bp sols best'.

    Scheme run_mind := Minimality for run Sort Prop
      with crun_mind := Minimality for crun Sort Prop.
    Combined Scheme run_crun_mind from run_mind, crun_mind.

    Lemma dfs_run : forall fuel ps s best sols best',
      dfs pick m fuel ps s best = SOk sols best' -> all_fixed s = false -> run ps s best sols best'.
    Proof.
      induction fuel as [|f IH]; intros ps s best sols best' H Hnf; [discriminate|].
      rewrite dfs_eq in H.
      destruct (first_unassigned s 0) as [pivot|] eqn:Ep;
        [|apply first_unassigned_none in Ep; congruence].
      assert (Hc : forall best bp sols best', child (dfs pick m f) ps s best bp = SOk sols best' ->
                     crun ps s best bp sols best').
      { clear H. intros b bp so b' H. unfold child in H.
        destruct (cprop ps s b bp) as [| |s'] eqn:Ec; [|discriminate|].
        - injection H as <- <-. apply crun_fail. exact Ec.
        - destruct (all_fixed s') eqn:Ef.
          + injection H as <- <-. apply crun_leaf; assumption.
          + eapply crun_rec; [exact Ec|exact Ef|]. apply IH; assumption. }
      cbv zeta in H.
      destruct (child _ ps s best (mk_leq _ _)) as [|sols1 best1] eqn:E1; [discriminate|].
      destruct (child _ ps s best1 (mk_gt _ _)) as [|sols2 best2] eqn:E2; [discriminate|].
      injection H as <- <-. eapply run_node; [exact Ep|apply Hc; exact E1|apply Hc; exact E2].
    Qed.

    Hypothesis Hmok : mode_vok m.

    Lemma bleq_good : forall p c, good (mk_leq (VVar p) (VConst c)).
    Proof using leq_good. intros. apply leq_good; exact I. Qed.
    Lemma bgt_good : forall p c, good (mk_gt (VVar p) (VConst c)).
    Proof using gt_good. intros. apply gt_good; exact I. Qed.

    Lemma mp_good : forall best, Forall good (on_branch_props m best).
    Proof using lt_good Hmok.
      intros best. unfold on_branch_props, mode_vok in *. destruct m as [obj|]; [|constructor].
      destruct best as [b|]; [|constructor]. constructor; [|constructor].
      apply lt_good; [exact Hmok|exact I].
    Qed.

    Lemma mp_none : on_branch_props m None = [].
    Proof. unfold on_branch_props. destruct m; reflexivity. Qed.

    Lemma cps_In : forall ps best bp p,
      In p (cps ps best bp) <-> In p ps \/ p = bp \/ In p (on_branch_props m best).
    Proof. intros. unfold cps. rewrite !in_app_iff. cbn. intuition. Qed.

    Lemma cps_good : forall ps best bp, Forall good ps -> good bp -> Forall good (cps ps best bp).
    Proof using lt_good Hmok.
      intros ps best bp Hg Hbp. apply Forall_forall. intros p Hp. apply cps_In in Hp.
      destruct Hp as [Hp|[->|Hp]]; [eapply Forall_forall; eassumption | exact Hbp |].
      eapply Forall_forall; [apply mp_good|exact Hp].
    Qed.

    Lemma cps_length : forall ps best bp,
      length (cps ps best bp) = S (length ps + length (on_branch_props m best)).
    Proof. intros. unfold cps. rewrite !app_length. cbn. lia. Qed.

    Lemma cps_nth_old : forall ps best bp i, (i < length ps)%nat ->
      nth_error (cps ps best bp) i = nth_error ps i.
    Proof.
      intros. unfold cps. rewrite nth_error_app1 by (rewrite app_length; cbn; lia).
      rewrite nth_error_app1 by lia. reflexivity.
    Qed.

    Lemma cps_nth_bp : forall ps best bp, nth_error (cps ps best bp) (length ps) = Some bp.
    Proof.
      intros. unfold cps. rewrite nth_error_app1 by (rewrite app_length; cbn; lia).
      rewrite nth_error_app2 by lia. rewrite Nat.sub_diag. reflexivity.
    Qed.

    Lemma cag_In : forall ps best i, In i (cag ps best) <->
      (length ps <= i < S (length ps + length (on_branch_props m best)))%nat.
    Proof. intros. unfold cag. rewrite agenda_with_In, in_app_iff, in_seq. cbn. lia. Qed.

    Lemma cag_lt : forall ps best bp i, In i (cag ps best) -> (i < length (cps ps best bp))%nat.
    Proof. intros ps best bp i H. apply cag_In in H. rewrite cps_length. lia. Qed.

    Lemma cps_stable : forall ps s best bp, stable ps s [] -> stable (cps ps best bp) s (cag ps best).
    Proof.
      intros ps s best bp Hst i p En Hn. destruct (lt_dec i (length ps)) as [Hi|Hi].
      - rewrite cps_nth_old in En by exact Hi. apply (Hst i p En). intros [].
      - exfalso. apply Hn. apply cag_In.
        assert (H : (i < length (cps ps best bp))%nat) by (apply nth_error_Some; congruence).
        rewrite cps_length in H. lia.
    Qed.

    Lemma child_facts : forall ps s best bp s', node_ok ps s -> good bp ->
      cprop ps s best bp = PDone s' -> node_ok (cps ps best bp) s' /\ sub_store s' s.
    Proof using lt_good Hmok.
      intros ps s best bp s' [Hg [Hwf Hst]] Hbp Hp. unfold cprop in Hp.
      pose proof (cps_good ps best bp Hg Hbp) as Hg2.
      destruct (propagate_shrinks _ _ _ _ _ _ (good_contracting _ Hg2) Hwf Hp) as [Hs Hw].
      split; [|exact Hs]. split; [exact Hg2|]. split; [exact Hw|].
      eapply propagate_fixpoint_gen; [exact Hg2|exact Hwf|apply cps_stable; exact Hst|exact Hp].
    Qed.

    Lemma mp_scoped : forall best n, mode_scoped m n -> scoped (on_branch_props m best) n.
    Proof.
      intros best n H. unfold on_branch_props, mode_scoped, scoped in *. destruct m as [obj|]; [|constructor].
      destruct best as [b|]; [|constructor]. constructor; [|constructor].
      intros v Hv. rewrite lt_trig, app_nil_r in Hv. unfold uvarl in Hv.
      destruct (uvar obj) as [x|] eqn:Eu; [|destruct Hv]. destruct Hv as [<-|[]]. apply H. exact Eu.
    Qed.

    Lemma cps_scoped : forall ps best bp n, scoped ps n -> in_scope bp n ->
      scoped (on_branch_props m best) n -> scoped (cps ps best bp) n.
    Proof.
      intros ps best bp n H1 H2 H3. apply Forall_forall. intros p Hp. apply cps_In in Hp.
      destruct Hp as [Hp|[->|Hp]]; [eapply Forall_forall in H1; eassumption | exact H2 |].
      eapply Forall_forall in H3; eassumption.
    Qed.

    Lemma child_keeps : forall ps s best bp a, node_ok ps s -> good bp ->
      scoped (cps ps best bp) (length s) -> sol (cps ps best bp) s a ->
      cprop ps s best bp <> PFail /\ forall s', cprop ps s best bp = PDone s' -> inst a s'.
    Proof using lt_good Hmok.
      intros ps s best bp a [Hg [Hwf Hst]] Hbp Hsc Hsol. unfold cprop.
      pose proof (cps_good ps best bp Hg Hbp) as Hg2.
      apply propagate_keeps_solutions;
        [apply good_contracting; exact Hg2 | apply good_sound; exact Hg2 | exact Hsc | exact Hwf | exact Hsol |].
      intros i Hi. eapply cag_lt; exact Hi.
    Qed.

    Lemma leq_in_scope : forall p c n, (p < n)%nat -> in_scope (mk_leq (VVar p) (VConst c)) n.
    Proof. intros p c n H v Hv. rewrite leq_trig in Hv. destruct Hv as [<-|[]]. exact H. Qed.
    Lemma gt_in_scope : forall p c n, (p < n)%nat -> in_scope (mk_gt (VVar p) (VConst c)) n.
    Proof. intros p c n H v Hv. rewrite gt_trig in Hv. destruct Hv as [<-|[]]. exact H. Qed.

    (* ---- (S) every yielded store is a fully fixed sub-store satisfying every in-scope propagator *)
    Definition sols_ok (ps : list prop) (s : store) (sols : list store) : Prop :=
      forall t, In t sols -> all_fixed t = true /\ sub_store t s /\
        forall p, In p ps -> in_scope p (length s) -> sat p (asg_of t) = true.

    Lemma run_sound_both :
      (forall ps s best sols best', run ps s best sols best' -> node_ok ps s -> sols_ok ps s sols) /\
      (forall ps s best bp sols best', crun ps s best bp sols best' -> node_ok ps s -> good bp ->
         sols_ok (cps ps best bp) s sols).
    Proof using leq_good gt_good lt_good Hmok.
      apply run_crun_mind.
      - intros ps s best pivot sols1 best1 sols2 best2 Ep _ IH1 _ IH2 Hok t Ht.
        apply in_app_or in Ht. destruct Ht as [Ht|Ht].
        + destruct (IH1 Hok (bleq_good _ _) t Ht) as [A [B C]]. split; [exact A|]. split; [exact B|].
          intros p Hp. apply C. apply cps_In. left; exact Hp.
        + destruct (IH2 Hok (bgt_good _ _) t Ht) as [A [B C]]. split; [exact A|]. split; [exact B|].
          intros p Hp. apply C. apply cps_In. left; exact Hp.
      - intros ps s best bp _ _ _ t [].
      - intros ps s best bp s' Hp Hf Hok Hbp t [<-|[]].
        destruct (child_facts _ _ _ _ _ Hok Hbp Hp) as [[Hg2 [Hw2 Hst2]] Hsub].
        split; [exact Hf|]. split; [exact Hsub|]. intros p Hp' Hsc.
        destruct (In_nth_error _ _ Hp') as [i Ei].
        apply fixed_checks_one with (s := s').
        + eapply Forall_forall; eassumption.
        + rewrite (sub_store_length _ _ Hsub). exact Hsc.
        + exact Hw2.
        + apply (Hst2 i p Ei). intros [].
        + exact Hf.
        + apply inst_asg_of; exact Hf.
      - intros ps s best bp s' sols best' Hp Hnf _ IH Hok Hbp t Ht.
        destruct (child_facts _ _ _ _ _ Hok Hbp Hp) as [Hok2 Hsub].
        destruct (IH Hok2 t Ht) as [A [B C]]. split; [exact A|].
        split; [eapply sub_store_trans; eassumption|]. intros p Hp' Hsc. apply C; [exact Hp'|].
        rewrite (sub_store_length _ _ Hsub). exact Hsc.
    Qed.

    (* ---- no solution yielded: the mode state is unchanged *)
    Lemma run_nil_both :
      (forall ps s best sols best', run ps s best sols best' -> sols = [] -> best' = best) /\
      (forall ps s best bp sols best', crun ps s best bp sols best' -> sols = [] -> best' = best).
    Proof.
      apply run_crun_mind.
      - intros ps s best pivot sols1 best1 sols2 best2 _ _ IH1 _ IH2 E.
        apply app_eq_nil in E. destruct E as [E1 E2]. rewrite (IH2 E2). apply IH1. exact E1.
      - reflexivity.
      - intros. discriminate.
      - intros ps s best bp s' sols best' _ _ _ IH E. apply IH. exact E.
    Qed.

    (* ---- no store is yielded twice *)
    Lemma run_nodup_both :
      (forall ps s best sols best', run ps s best sols best' -> node_ok ps s -> NoDup sols) /\
      (forall ps s best bp sols best', crun ps s best bp sols best' -> node_ok ps s -> good bp -> NoDup sols).
    Proof using leq_good gt_good lt_good Hmok.
      apply run_crun_mind.
      - intros ps s best pivot sols1 best1 sols2 best2 Ep Hc1 IH1 Hc2 IH2 Hok.
        destruct (pivot_spec _ _ Ep) as [Hpl _].
        apply e_NoDup_app; [apply IH1; [exact Hok|apply bleq_good] | apply IH2; [exact Hok|apply bgt_good] |].
        intros t H1 H2.
        destruct (proj2 run_sound_both _ _ _ _ _ _ Hc1 Hok (bleq_good _ _) t H1) as [_ [_ C1]].
        destruct (proj2 run_sound_both _ _ _ _ _ _ Hc2 Hok (bgt_good _ _) t H2) as [_ [_ C2]].
        assert (S1 := C1 _ (proj2 (cps_In _ _ _ _) (or_intror (or_introl eq_refl))) (leq_in_scope _ _ _ Hpl)).
        assert (S2 := C2 _ (proj2 (cps_In _ _ _ _) (or_intror (or_introl eq_refl))) (gt_in_scope _ _ _ Hpl)).
        rewrite leq_sat in S1. rewrite gt_sat in S2. apply Z.leb_le in S1. apply Z.leb_le in S2. lia.
      - intros. constructor.
      - intros. constructor; [intros []|constructor].
      - intros ps s best bp s' sols best' Hp Hnf _ IH Hok Hbp.
        destruct (child_facts _ _ _ _ _ Hok Hbp Hp) as [Hok2 _]. apply IH. exact Hok2.
    Qed.

    (* ---- (D) Minimize: the yielded objective values strictly decrease below the incoming bound *)
    Lemma lt_in_scope : forall obj b n, view_scoped obj n -> in_scope (mk_lt obj (VConst b)) n.
    Proof.
      intros obj b n H v Hv. rewrite lt_trig, app_nil_r in Hv. unfold uvarl in Hv.
      destruct (uvar obj) as [x|] eqn:Eu; [|destruct Hv]. destruct Hv as [<-|[]]. apply H. exact Eu.
    Qed.

    Lemma run_dec_both : forall obj, m = Some obj ->
      (forall ps s best sols best', run ps s best sols best' -> node_ok ps s ->
         view_scoped obj (length s) ->
         dec_from best (objs obj sols) /\ best' = last_best best (objs obj sols)) /\
      (forall ps s best bp sols best', crun ps s best bp sols best' -> node_ok ps s -> good bp ->
         view_scoped obj (length s) ->
         dec_from best (objs obj sols) /\ best' = last_best best (objs obj sols)).
    Proof using leq_good gt_good lt_good Hmok.
      intros obj Hm. apply run_crun_mind.
      - intros ps s best pivot sols1 best1 sols2 best2 Ep _ IH1 _ IH2 Hok Hsc.
        destruct (IH1 Hok (bleq_good _ _) Hsc) as [D1 E1].
        destruct (IH2 Hok (bgt_good _ _) Hsc) as [D2 E2].
        unfold objs in *. rewrite map_app. split.
        + apply dec_from_app. split; [exact D1|rewrite <- E1; exact D2].
        + rewrite last_best_app, <- E1. exact E2.
      - intros. split; [exact I|reflexivity].
      - intros ps s best bp s' Hp Hf Hok Hbp Hsc.
        destruct (child_facts _ _ _ _ _ Hok Hbp Hp) as [[Hg2 [Hw2 Hst2]] Hsub].
        rewrite Hm. cbn [on_solution objs map dec_from last_best fold_left].
        unfold vmin. rewrite (vbnd_fixed s' obj false Hf).
        split; [|reflexivity]. split; [|exact I]. intros b Eb.
        assert (Hin : In (mk_lt obj (VConst b)) (cps ps best bp)).
        { apply cps_In. right. right. rewrite Eb, Hm. left. reflexivity. }
        destruct (In_nth_error _ _ Hin) as [i Ei].
        assert (Hs : sat (mk_lt obj (VConst b)) (asg_of s') = true).
        { apply fixed_checks_one with (s := s').
          - eapply Forall_forall; eassumption.
          - apply lt_in_scope. rewrite (sub_store_length _ _ Hsub). exact Hsc.
          - exact Hw2.
          - apply (Hst2 i _ Ei). intros [].
          - exact Hf.
          - apply inst_asg_of; exact Hf. }
        rewrite lt_sat in Hs. apply Z.leb_le in Hs. lia.
      - intros ps s best bp s' sols best' Hp Hnf _ IH Hok Hbp Hsc.
        destruct (child_facts _ _ _ _ _ Hok Hbp Hp) as [Hok2 Hsub]. apply IH; [exact Hok2|].
        rewrite (sub_store_length _ _ Hsub). exact Hsc.
    Qed.

    (* an assignment is dominated when the incumbent is at least as good *)
    Definition dominated (best : option Z) (a : asg) : Prop :=
      match m, best with Some obj, Some b => b <= vsem obj a | _, _ => False end.

    Lemma dominated_dec : forall best a, {dominated best a} + {~ dominated best a}.
    Proof.
      intros best a. unfold dominated. destruct m as [obj|]; [|right; tauto].
      destruct best as [b|]; [apply Z_le_dec|right; tauto].
    Qed.

    Lemma dominated_none : forall a, ~ dominated None a.
    Proof. intros a. unfold dominated. destruct m; tauto. Qed.

    Lemma dominated_mono : forall best best' a,
      (forall obj, m = Some obj -> exists l, dec_from best l /\ best' = last_best best l) ->
      dominated best a -> dominated best' a.
    Proof.
      intros best best' a H. unfold dominated. destruct m as [obj|] eqn:Em; [|tauto].
      destruct best as [b|]; [|tauto]. intros Hb. destruct (H obj eq_refl) as [l [D E]].
      destruct (last_best_le _ _ D) as [b' [E' Hb']]. rewrite E, E'. lia.
    Qed.

    Lemma mode_view_scoped : forall obj n, m = Some obj -> mode_scoped m n -> view_scoped obj n.
    Proof. intros obj n E H. unfold mode_scoped in H. rewrite E in H. exact H. Qed.

    Lemma crun_mono : forall ps s best bp sols best' a, crun ps s best bp sols best' ->
      node_ok ps s -> good bp -> mode_scoped m (length s) -> dominated best a -> dominated best' a.
    Proof using leq_good gt_good lt_good Hmok.
      intros ps s best bp sols best' a Hc Hok Hbp Hms. apply dominated_mono. intros obj Em.
      exists (objs obj sols). apply (proj2 (run_dec_both obj Em) _ _ _ _ _ _ Hc Hok Hbp).
      apply mode_view_scoped; assumption.
    Qed.

    Lemma mp_sat : forall best a p, ~ dominated best a -> In p (on_branch_props m best) -> sat p a = true.
    Proof.
      intros best a p. unfold dominated, on_branch_props. destruct m as [obj|]; [|intros _ []].
      destruct best as [b|]; [|intros _ []]. intros Hnd [<-|[]]. rewrite lt_sat. apply Z.leb_le. lia.
    Qed.

    Lemma child_sol : forall ps s best bp a, sol ps s a -> sat bp a = true -> ~ dominated best a ->
      sol (cps ps best bp) s a.
    Proof.
      intros ps s best bp a [Hi Hs] Hb Hnd. split; [exact Hi|]. intros p Hp. apply cps_In in Hp.
      destruct Hp as [Hp|[->|Hp]]; [apply Hs; exact Hp|exact Hb|eapply mp_sat; eassumption].
    Qed.

    Lemma child_scoped : forall ps best bp n, scoped ps n -> in_scope bp n -> mode_scoped m n ->
      scoped (cps ps best bp) n.
    Proof. intros. apply cps_scoped; [assumption|assumption|apply mp_scoped; assumption]. Qed.

    (* ---- (C) completeness up to domination by the incumbent *)
    Lemma run_complete_both :
      (forall ps s best sols best', run ps s best sols best' ->
         node_ok ps s -> scoped ps (length s) -> mode_scoped m (length s) ->
         forall a, sol ps s a -> ~ dominated best a ->
           (exists t, In t sols /\ inst a t) \/ dominated best' a) /\
      (forall ps s best bp sols best', crun ps s best bp sols best' ->
         node_ok ps s -> scoped ps (length s) -> mode_scoped m (length s) ->
         good bp -> in_scope bp (length s) ->
         forall a, sol ps s a -> sat bp a = true -> ~ dominated best a ->
           (exists t, In t sols /\ inst a t) \/ dominated best' a).
    Proof using leq_good gt_good lt_good Hmok.
      apply run_crun_mind.
      - intros ps s best pivot sols1 best1 sols2 best2 Ep Hc1 IH1 Hc2 IH2 Hok Hsc Hms a Hsol Hnd.
        destruct (pivot_spec _ _ Ep) as [Hpl _].
        destruct (Z_le_dec (a pivot) (dmid (sget s pivot))) as [Hle|Hgt].
        + destruct (IH1 Hok Hsc Hms (bleq_good _ _) (leq_in_scope _ _ _ Hpl) a Hsol) as [[t [Ht Hi]]|Hd].
          * rewrite leq_sat. apply Z.leb_le. exact Hle.
          * exact Hnd.
          * left. exists t. split; [apply in_or_app; left; exact Ht|exact Hi].
          * right. eapply crun_mono; [exact Hc2|exact Hok|apply bgt_good|exact Hms|exact Hd].
        + destruct (dominated_dec best1 a) as [Hd|Hnd1].
          * right. eapply crun_mono; [exact Hc2|exact Hok|apply bgt_good|exact Hms|exact Hd].
          * destruct (IH2 Hok Hsc Hms (bgt_good _ _) (gt_in_scope _ _ _ Hpl) a Hsol) as [[t [Ht Hi]]|Hd].
            -- rewrite gt_sat. apply Z.leb_le. lia.
            -- exact Hnd1.
            -- left. exists t. split; [apply in_or_app; right; exact Ht|exact Hi].
            -- right. exact Hd.
      - intros ps s best bp Hp Hok Hsc Hms Hbp Hbsc a Hsol Hsat Hnd. exfalso.
        destruct (child_keeps ps s best bp a Hok Hbp) as [Hnf _];
          [apply child_scoped; assumption | apply child_sol; assumption | exact (Hnf Hp)].
      - intros ps s best bp s' Hp Hf Hok Hsc Hms Hbp Hbsc a Hsol Hsat Hnd. left.
        exists s'. split; [left; reflexivity|].
        destruct (child_keeps ps s best bp a Hok Hbp) as [_ Hk];
          [apply child_scoped; assumption | apply child_sol; assumption | exact (Hk s' Hp)].
      - intros ps s best bp s' sols best' Hp Hnf _ IH Hok Hsc Hms Hbp Hbsc a Hsol Hsat Hnd.
        destruct (child_facts _ _ _ _ _ Hok Hbp Hp) as [Hok2 Hsub].
        pose proof (sub_store_length _ _ Hsub) as Hl.
        assert (Hsc2 : scoped (cps ps best bp) (length s)) by (apply child_scoped; assumption).
        assert (Hsol2 : sol (cps ps best bp) s a) by (apply child_sol; assumption).
        destruct (child_keeps ps s best bp a Hok Hbp Hsc2 Hsol2) as [_ Hk].
        apply IH; [exact Hok2 | rewrite Hl; exact Hsc2 | rewrite Hl; exact Hms | | exact Hnd].
        split; [exact (Hk s' Hp)|apply Hsol2].
    Qed.

    (* ---- nothing yielded from an empty incumbent: no solution (needs no scoping of the objective) *)
    Lemma run_none_both :
      (forall ps s best sols best', run ps s best sols best' ->
         node_ok ps s -> scoped ps (length s) -> best = None -> sols = [] -> forall a, ~ sol ps s a) /\
      (forall ps s best bp sols best', crun ps s best bp sols best' ->
         node_ok ps s -> scoped ps (length s) -> good bp -> in_scope bp (length s) ->
         best = None -> sols = [] -> forall a, sol ps s a -> sat bp a = true -> False).
    Proof using leq_good gt_good lt_good Hmok.
      assert (Hcs : forall ps bp n, scoped ps n -> in_scope bp n -> scoped (cps ps None bp) n).
      { intros. apply cps_scoped; [assumption|assumption|rewrite mp_none; constructor]. }
      assert (Hcsol : forall ps s bp a, sol ps s a -> sat bp a = true -> sol (cps ps None bp) s a).
      { intros. apply child_sol; [assumption|assumption|apply dominated_none]. }
      apply run_crun_mind.
      - intros ps s best pivot sols1 best1 sols2 best2 Ep Hc1 IH1 Hc2 IH2 Hok Hsc Eb E a Hsol.
        apply app_eq_nil in E. destruct E as [E1 E2].
        destruct (pivot_spec _ _ Ep) as [Hpl _].
        assert (Eb1 : best1 = None) by (rewrite (proj2 run_nil_both _ _ _ _ _ _ Hc1 E1); exact Eb).
        destruct (Z_le_dec (a pivot) (dmid (sget s pivot))) as [Hle|Hgt].
        + apply (IH1 Hok Hsc (bleq_good _ _) (leq_in_scope _ _ _ Hpl) Eb E1 a Hsol).
          rewrite leq_sat. apply Z.leb_le. exact Hle.
        + apply (IH2 Hok Hsc (bgt_good _ _) (gt_in_scope _ _ _ Hpl) Eb1 E2 a Hsol).
          rewrite gt_sat. apply Z.leb_le. lia.
      - intros ps s best bp Hp Hok Hsc Hbp Hbsc Eb _ a Hsol Hsat. subst best.
        destruct (child_keeps ps s None bp a Hok Hbp) as [Hnf _];
          [apply Hcs; assumption | apply Hcsol; assumption | exact (Hnf Hp)].
      - intros. discriminate.
      - intros ps s best bp s' sols best' Hp Hnf _ IH Hok Hsc Hbp Hbsc Eb E a Hsol Hsat. subst best.
        destruct (child_facts _ _ _ _ _ Hok Hbp Hp) as [Hok2 Hsub].
        pose proof (sub_store_length _ _ Hsub) as Hl.
        assert (Hsc2 : scoped (cps ps None bp) (length s)) by (apply Hcs; assumption).
        assert (Hsol2 : sol (cps ps None bp) s a) by (apply Hcsol; assumption).
        destruct (child_keeps ps s None bp a Hok Hbp Hsc2 Hsol2) as [_ Hk].
        apply (IH Hok2 ltac:(rewrite Hl; exact Hsc2) eq_refl E a).
        split; [exact (Hk s' Hp)|apply Hsol2].
    Qed.

    (* ---- termination: each child strictly shrinks the pivot's domain *)
    Lemma branch_shrinks : forall ps s best bp pivot s', node_ok ps s ->
      first_unassigned s 0 = Some pivot ->
      (bp = mk_leq (VVar pivot) (VConst (dmid (sget s pivot))) \/
       bp = mk_gt (VVar pivot) (VConst (dmid (sget s pivot)))) ->
      cprop ps s best bp = PDone s' -> (total_size s' < total_size s)%nat.
    Proof using leq_good gt_good lt_good Hmok.
      intros ps s best bp pivot s' Hok Ep Hbp Hp.
      destruct (pivot_spec _ _ Ep) as [Hpl Hnf].
      assert (Hgb : good bp) by (destruct Hbp as [->| ->]; [apply bleq_good|apply bgt_good]).
      destruct (child_facts _ _ _ _ _ Hok Hgb Hp) as [[_ [Hw2 Hst2]] Hsub].
      assert (Hstb : prune bp (s', []) = Some (s', [])).
      { apply (Hst2 _ _ (cps_nth_bp ps best bp)). intros []. }
      destruct Hok as [_ [Hwf _]]. pose proof (Hwf pivot Hpl) as Hwd.
      destruct (dmid_bounds _ Hwd Hnf) as [Hlo Hhi].
      assert (Hwd' : wf_dom (sget s' pivot)).
      { apply Hw2. rewrite (sub_store_length _ _ Hsub). exact Hpl. }
      destruct Hbp as [-> | ->].
      - apply leq_stable_bound in Hstb.
        apply sub_store_shrinks with (p := pivot) (x := dmax (sget s pivot));
          [exact Hsub|exact Hw2|exact Hpl|apply e_dmax_In; apply Hwd|].
        intros Hin. pose proof (e_dmax_greatest _ _ (proj2 Hwd') Hin). lia.
      - apply gt_stable_bound in Hstb.
        apply sub_store_shrinks with (p := pivot) (x := dmin (sget s pivot));
          [exact Hsub|exact Hw2|exact Hpl|apply e_dmin_In; apply Hwd|].
        intros Hin. pose proof (e_dmin_least _ _ (proj2 Hwd') Hin). lia.
    Qed.

    Lemma child_terminates : forall rec ps s best bp pivot f, node_ok ps s ->
      first_unassigned s 0 = Some pivot ->
      (bp = mk_leq (VVar pivot) (VConst (dmid (sget s pivot))) \/
       bp = mk_gt (VVar pivot) (VConst (dmid (sget s pivot)))) ->
      (total_size s <= f)%nat ->
      (forall ps' s' best', node_ok ps' s' -> (S (total_size s') <= f)%nat -> rec ps' s' best' <> SFuel) ->
      child rec ps s best bp <> SFuel.
    Proof using leq_good gt_good lt_good Hmok.
      intros rec ps s best bp pivot f Hok Ep Hbp Hf Hrec. unfold child.
      assert (Hgb : good bp) by (destruct Hbp as [->| ->]; [apply bleq_good|apply bgt_good]).
      destruct (cprop ps s best bp) as [| |s'] eqn:Ec.
      - discriminate.
      - exfalso. unfold cprop in Ec. revert Ec. apply propagate_terminates; [|apply Hok|apply le_n].
        apply good_contracting. apply cps_good; [apply Hok|exact Hgb].
      - destruct (all_fixed s'); [discriminate|]. apply Hrec.
        + apply (child_facts _ _ _ _ _ Hok Hgb Ec).
        + pose proof (branch_shrinks _ _ _ _ _ _ Hok Ep Hbp Ec). lia.
    Qed.

    Lemma dfs_terminates : forall fuel ps s best, node_ok ps s -> (S (total_size s) <= fuel)%nat ->
      dfs pick m fuel ps s best <> SFuel.
    Proof using leq_good gt_good lt_good Hmok.
      induction fuel as [|f IH]; intros ps s best Hok Hf; [lia|].
      rewrite dfs_eq. destruct (first_unassigned s 0) as [pivot|] eqn:Ep; [|discriminate]. cbv zeta.
      assert (Hrec : forall ps' s' best', node_ok ps' s' -> (S (total_size s') <= f)%nat ->
                       dfs pick m f ps' s' best' <> SFuel) by (intros; apply IH; assumption).
      pose proof (child_terminates (dfs pick m f) ps s best _ pivot f Hok Ep (or_introl eq_refl) ltac:(lia) Hrec) as H1.
      destruct (child (dfs pick m f) ps s best _) as [|sols1 best1]; [congruence|].
      pose proof (child_terminates (dfs pick m f) ps s best1 _ pivot f Hok Ep (or_intror eq_refl) ltac:(lia) Hrec) as H2.
      destruct (child (dfs pick m f) ps s best1 _) as [|sols2 best2]; [congruence|discriminate].
    Qed.

    (* ---- the root: initial propagation of every propagator *)
    Definition root (ps : list prop) (s : store) : presult :=
      propagate pick (prop_fuel ps s (agenda_with (seq 0 (length ps)))) ps s (agenda_with (seq 0 (length ps))).

    Lemma search_eq : forall ps s,
      search pick m ps s =
      match root ps s with
      | PFuel => SFuel
      | PFail => SOk [] None
      | PDone s' =>
        if all_fixed s' then SOk [s'] (on_solution m None s')
        else dfs pick m (S (total_size s')) ps s' None
      end.
    Proof. reflexivity. Qed.

    Lemma root_facts : forall ps s s', Forall good ps -> wf_store s -> root ps s = PDone s' ->
      node_ok ps s' /\ sub_store s' s.
    Proof.
      intros ps s s' Hg Hwf Hp. unfold root in Hp.
      destruct (propagate_shrinks _ _ _ _ _ _ (good_contracting _ Hg) Hwf Hp) as [Hs Hw].
      split; [|exact Hs]. split; [exact Hg|]. split; [exact Hw|].
      eapply propagate_fixpoint_gen; [exact Hg|exact Hwf| |exact Hp].
      intros i p En Hn. exfalso. apply Hn. apply agenda_with_In, in_seq.
      assert ((i < length ps)%nat) by (apply nth_error_Some; congruence). lia.
    Qed.

    Lemma root_keeps : forall ps s a, Forall good ps -> scoped ps (length s) -> wf_store s -> sol ps s a ->
      root ps s <> PFail /\ forall s', root ps s = PDone s' -> inst a s'.
    Proof.
      intros ps s a Hg Hsc Hwf Hsol. unfold root.
      apply propagate_keeps_solutions;
        [apply good_contracting; exact Hg | apply good_sound; exact Hg | exact Hsc | exact Hwf | exact Hsol |].
      intros i Hi. apply agenda_with_In, in_seq in Hi. lia.
    Qed.

    Lemma root_terminates : forall ps s, Forall good ps -> wf_store s -> root ps s <> PFuel.
    Proof.
      intros ps s Hg Hwf. unfold root. apply propagate_terminates; [apply good_contracting; exact Hg|exact Hwf|apply le_n].
    Qed.

    (* the shape of a successful search *)
    Lemma search_cases : forall ps s sols best, Forall good ps -> wf_store s ->
      search pick m ps s = SOk sols best ->
      (root ps s = PFail /\ sols = [] /\ best = None) \/
      exists s', root ps s = PDone s' /\ node_ok ps s' /\ sub_store s' s /\
        ((all_fixed s' = true /\ sols = [s'] /\ best = on_solution m None s') \/
         (all_fixed s' = false /\ run ps s' None sols best)).
    Proof.
      intros ps s sols best Hg Hwf H. rewrite search_eq in H.
      destruct (root ps s) as [| |s'] eqn:Er; [|discriminate|].
      - injection H as <- <-. left. auto.
      - right. exists s'. destruct (root_facts _ _ _ Hg Hwf Er) as [Hok Hsub].
        split; [reflexivity|]. split; [exact Hok|]. split; [exact Hsub|].
        destruct (all_fixed s') eqn:Ef.
        + injection H as <- <-. left. auto.
        + right. split; [reflexivity|]. eapply dfs_run; eassumption.
    Qed.

    Lemma leaf_ok : forall ps s, node_ok ps s -> all_fixed s = true -> sols_ok ps s [s].
    Proof.
      intros ps s [Hg [Hw Hst]] Hf t [<-|[]]. split; [exact Hf|]. split; [apply sub_store_refl|].
      intros p Hp Hsc. destruct (In_nth_error _ _ Hp) as [i Ei].
      apply fixed_checks_one with (s := s); [eapply Forall_forall; eassumption|exact Hsc|exact Hw| |exact Hf|apply inst_asg_of; exact Hf].
      apply (Hst i p Ei). intros [].
    Qed.

    Lemma search_sols_ok : forall ps s sols best, Forall good ps -> wf_store s ->
      search pick m ps s = SOk sols best ->
      exists s', sub_store s' s /\ sols_ok ps s' sols.
    Proof using leq_good gt_good lt_good Hmok.
      intros ps s sols best Hg Hwf H.
      destruct (search_cases _ _ _ _ Hg Hwf H) as [[_ [-> _]]|[s' [_ [Hok [Hsub [[Hf [-> _]]|[Hnf Hr]]]]]]].
      - exists s. split; [apply sub_store_refl|intros t []].
      - exists s'. split; [exact Hsub|apply leaf_ok; assumption].
      - exists s'. split; [exact Hsub|]. apply (proj1 run_sound_both _ _ _ _ _ Hr Hok).
    Qed.

    Lemma search_sound : forall ps s sols best, Forall good ps -> scoped ps (length s) -> wf_store s ->
      search pick m ps s = SOk sols best ->
      forall t, In t sols -> all_fixed t = true /\ sub_store t s /\ sol ps s (asg_of t).
    Proof using leq_good gt_good lt_good Hmok.
      intros ps s sols best Hg Hsc Hwf H t Ht.
      destruct (search_sols_ok _ _ _ _ Hg Hwf H) as [s' [Hsub Hok]].
      destruct (Hok t Ht) as [A [B C]].
      assert (Hts : sub_store t s) by (eapply sub_store_trans; eassumption).
      split; [exact A|]. split; [exact Hts|]. split.
      - eapply inst_sub; [apply inst_asg_of; exact A|exact Hts].
      - intros p Hp. apply C; [exact Hp|]. rewrite (sub_store_length _ _ Hsub).
        eapply Forall_forall in Hsc; eassumption.
    Qed.

    Lemma search_nodup : forall ps s sols best, Forall good ps -> wf_store s ->
      search pick m ps s = SOk sols best -> NoDup sols.
    Proof using leq_good gt_good lt_good Hmok.
      intros ps s sols best Hg Hwf H.
      destruct (search_cases _ _ _ _ Hg Hwf H) as [[_ [-> _]]|[s' [_ [Hok [Hsub [[Hf [-> _]]|[Hnf Hr]]]]]]].
      - constructor.
      - constructor; [intros []|constructor].
      - apply (proj1 run_nodup_both _ _ _ _ _ Hr Hok).
    Qed.

    Lemma search_none : forall ps s best, Forall good ps -> scoped ps (length s) -> wf_store s ->
      search pick m ps s = SOk [] best -> forall a, ~ sol ps s a.
    Proof using leq_good gt_good lt_good Hmok.
      intros ps s best Hg Hsc Hwf H a Hsol.
      destruct (root_keeps ps s a Hg Hsc Hwf Hsol) as [Hnf Hk].
      destruct (search_cases _ _ _ _ Hg Hwf H) as [[Hr _]|[s' [Er [Hok [Hsub [[Hf [E _]]|[Hnf' Hr]]]]]]].
      - exact (Hnf Hr).
      - discriminate.
      - apply (proj1 run_none_both _ _ _ _ _ Hr Hok) with (a := a); [|reflexivity|reflexivity|].
        + rewrite (sub_store_length _ _ Hsub). exact Hsc.
        + split; [exact (Hk s' Er)|apply Hsol].
    Qed.

    Lemma search_complete : forall ps s sols best, Forall good ps -> scoped ps (length s) -> wf_store s ->
      mode_scoped m (length s) -> search pick m ps s = SOk sols best ->
      forall a, sol ps s a -> (exists t, In t sols /\ inst a t) \/ dominated best a.
    Proof using leq_good gt_good lt_good Hmok.
      intros ps s sols best Hg Hsc Hwf Hms H a Hsol.
      destruct (root_keeps ps s a Hg Hsc Hwf Hsol) as [Hnf Hk].
      destruct (search_cases _ _ _ _ Hg Hwf H) as [[Hr _]|[s' [Er [Hok [Hsub [[Hf [-> _]]|[Hnf' Hr]]]]]]].
      - destruct (Hnf Hr).
      - left. exists s'. split; [left; reflexivity|exact (Hk s' Er)].
      - pose proof (sub_store_length _ _ Hsub) as Hl.
        apply (proj1 run_complete_both _ _ _ _ _ Hr Hok); [rewrite Hl; exact Hsc|rewrite Hl; exact Hms| |apply dominated_none].
        split; [exact (Hk s' Er)|apply Hsol].
    Qed.

    Lemma search_dec : forall obj ps s sols best, m = Some obj -> Forall good ps -> wf_store s ->
      view_scoped obj (length s) -> search pick m ps s = SOk sols best ->
      dec_from None (objs obj sols) /\ best = last_best None (objs obj sols).
    Proof using leq_good gt_good lt_good Hmok.
      intros obj ps s sols best Hm Hg Hwf Hvs H.
      destruct (search_cases _ _ _ _ Hg Hwf H) as [[_ [-> ->]]|[s' [_ [Hok [Hsub [[Hf [-> ->]]|[Hnf Hr]]]]]]].
      - split; [exact I|reflexivity].
      - rewrite Hm. cbn [on_solution objs map dec_from last_best fold_left].
        unfold vmin. rewrite (vbnd_fixed s' obj false Hf). split; [|reflexivity].
        split; [intros b; discriminate|exact I].
      - apply (proj1 (run_dec_both obj Hm) _ _ _ _ _ Hr Hok). rewrite (sub_store_length _ _ Hsub). exact Hvs.
    Qed.

    Lemma search_terminates : forall ps s, Forall good ps -> wf_store s -> search pick m ps s <> SFuel.
    Proof using leq_good gt_good lt_good Hmok.
      intros ps s Hg Hwf. rewrite search_eq.
      pose proof (root_terminates ps s Hg Hwf) as Ht.
      destruct (root ps s) as [| |s'] eqn:Er; [discriminate|congruence|].
      destruct (all_fixed s'); [discriminate|].
      apply dfs_terminates; [|apply le_n]. apply (root_facts _ _ _ Hg Hwf Er).
    Qed.
  End Engine.

  (* ======================================================================================== *)
  (* 5. the published theorems *)

  Lemma last_some_In : forall (A : Type) (l : list A) t, last (map Some l) None = Some t -> In t l.
  Proof.
    intros A. induction l as [|x l IH]; intros t H; [discriminate|].
    destruct l as [|y l]; [cbn in H; injection H as <-; left; reflexivity|].
    right. apply IH. exact H.
  Qed.

  Lemma last_none_nil : forall (A : Type) (l : list A), last (map Some l) None = None -> l = [].
  Proof.
    intros A. induction l as [|x l IH]; intros H; [reflexivity|].
    destruct l as [|y l]; [discriminate|]. specialize (IH H). discriminate.
  Qed.

  Lemma dec_last_le : forall l best x, dec_from best l -> In x l ->
    exists b', last_best best l = Some b' /\ b' <= x.
  Proof.
    induction l as [|x0 l IH]; intros best x H Hin; [destruct Hin|].
    destruct H as [_ H]. cbn [last_best fold_left]. fold (last_best (Some x0) l).
    destruct Hin as [<-|Hin]; [apply last_best_le; exact H|apply IH; assumption].
  Qed.

  (* ---- C03 *)
  Theorem enumerate_exact : forall pick ps s sols best,
    Forall good ps -> scoped ps (length s) -> wf_store s ->
    enumerate pick ps s = SOk sols best ->
    NoDup sols /\
    (forall t, In t sols -> all_fixed t = true /\ sub_store t s /\ sol ps s (asg_of t)) /\
    (forall a, sol ps s a -> exists t, In t sols /\ inst a t).
  Proof using leq_good gt_good lt_good.
    intros pick ps s sols best Hg Hsc Hwf H. unfold enumerate in H. split; [|split].
    - eapply (search_nodup pick None I); eassumption.
    - eapply (search_sound pick None I); eassumption.
    - intros a Ha. destruct (search_complete pick None I ps s sols best Hg Hsc Hwf I H a Ha) as [Hx|[]].
      exact Hx.
  Qed.

  Lemma enum_unique : forall pick ps s sols best t, Forall good ps -> scoped ps (length s) -> wf_store s ->
    enumerate pick ps s = SOk sols best ->
    all_fixed t = true -> length t = length s -> sol ps s (asg_of t) -> In t sols.
  Proof using leq_good gt_good lt_good.
    intros pick ps s sols best t Hg Hsc Hwf H Hf Hl Hsol.
    destruct (enumerate_exact _ _ _ _ _ Hg Hsc Hwf H) as [_ [Hs Hc]].
    destruct (Hc _ Hsol) as [t' [Ht' Hi]]. destruct (Hs t' Ht') as [Hf' [Hsub' _]].
    replace t with t'; [exact Ht'|]. symmetry.
    apply (fixed_store_unique t t' (asg_of t)); [exact Hf|exact Hf'| |apply inst_asg_of; exact Hf|exact Hi].
    rewrite (sub_store_length _ _ Hsub'). exact Hl.
  Qed.

  Theorem enumerate_count : forall pick ps s sols best (l : list store),
    Forall good ps -> scoped ps (length s) -> wf_store s ->
    enumerate pick ps s = SOk sols best ->
    NoDup l -> (forall t, In t l <-> (all_fixed t = true /\ length t = length s /\ sol ps s (asg_of t))) ->
    length sols = length l.
  Proof using leq_good gt_good lt_good.
    intros pick ps s sols best l Hg Hsc Hwf H Hnd Hl.
    destruct (enumerate_exact _ _ _ _ _ Hg Hsc Hwf H) as [Hnd' [Hs Hc]].
    apply Nat.le_antisymm; apply NoDup_incl_length; try assumption.
    - intros t Ht. apply Hl. destruct (Hs t Ht) as [A [B C]]. split; [exact A|].
      split; [apply (sub_store_length _ _ B)|exact C].
    - intros t Ht. apply Hl in Ht. destruct Ht as [A [B C]]. eapply enum_unique; eassumption.
  Qed.

  Theorem enumerate_terminates : forall pick ps s,
    Forall good ps -> scoped ps (length s) -> wf_store s -> enumerate pick ps s <> SFuel.
  Proof using leq_good gt_good lt_good.
    intros pick ps s Hg _ Hwf. apply (search_terminates pick None I); assumption.
  Qed.

  (* ---- C01 *)
  Theorem solutions_satisfy : forall pick m ps s sols best,
    Forall good ps -> scoped ps (length s) -> wf_store s -> mode_vok m ->
    search pick m ps s = SOk sols best ->
    forall t, In t sols -> all_fixed t = true /\ sub_store t s /\ sol ps s (asg_of t).
  Proof using leq_good gt_good lt_good.
    intros pick m ps s sols best Hg Hsc Hwf Hm H. eapply (search_sound pick m Hm); eassumption.
  Qed.

  Theorem solve_result_satisfies : forall pick ps s t,
    Forall good ps -> scoped ps (length s) -> wf_store s ->
    solve pick ps s = Some (Some t) -> all_fixed t = true /\ sub_store t s /\ sol ps s (asg_of t).
  Proof using leq_good gt_good lt_good.
    intros pick ps s t Hg Hsc Hwf H. unfold solve in H.
    destruct (enumerate pick ps s) as [|sols best] eqn:E; [discriminate|]. injection H as H.
    destruct (enumerate_exact _ _ _ _ _ Hg Hsc Hwf E) as [_ [Hs _]]. apply Hs.
    destruct sols; [discriminate|]. injection H as ->. left. reflexivity.
  Qed.

  Lemma minimize_sols : forall pick obj ps s r, minimize pick obj ps s = Some r ->
    exists sols best, search pick (Some obj) ps s = SOk sols best /\ r = last (map Some sols) None.
  Proof.
    intros pick obj ps s r H. unfold minimize in H.
    destruct (search pick (Some obj) ps s) as [|sols best]; [discriminate|].
    injection H as <-. exists sols, best. auto.
  Qed.

  Lemma minimize_sat1 : forall pick obj ps s t,
    Forall good ps -> scoped ps (length s) -> wf_store s -> view_ok obj ->
    minimize pick obj ps s = Some (Some t) ->
    all_fixed t = true /\ sub_store t s /\ sol ps s (asg_of t).
  Proof using leq_good gt_good lt_good.
    intros pick obj ps s t Hg Hsc Hwf Hv H.
    destruct (minimize_sols _ _ _ _ _ H) as [sols [best [E El]]].
    eapply (solutions_satisfy pick (Some obj)); try eassumption. apply last_some_In. symmetry. exact El.
  Qed.

  Theorem minimize_result_satisfies : forall pick obj ps s t,
    Forall good ps -> scoped ps (length s) -> wf_store s -> view_ok obj ->
    (minimize pick obj ps s = Some (Some t) \/ maximize pick obj ps s = Some (Some t)) ->
    all_fixed t = true /\ sub_store t s /\ sol ps s (asg_of t).
  Proof using leq_good gt_good lt_good.
    intros pick obj ps s t Hg Hsc Hwf Hv [H|H].
    - eapply minimize_sat1; eassumption.
    - unfold maximize in H. eapply (minimize_sat1 pick (VOpp obj)); try eassumption.
  Qed.

  (* ---- C02 *)
  Theorem solve_total : forall pick ps s,
    Forall good ps -> scoped ps (length s) -> wf_store s -> solve pick ps s <> None.
  Proof using leq_good gt_good lt_good.
    intros pick ps s Hg Hsc Hwf. unfold solve.
    pose proof (enumerate_terminates pick ps s Hg Hsc Hwf) as Ht.
    destruct (enumerate pick ps s); [congruence|discriminate].
  Qed.

  Theorem solve_nosol_sound : forall pick ps s,
    Forall good ps -> scoped ps (length s) -> wf_store s ->
    solve pick ps s = Some None -> forall a, ~ sol ps s a.
  Proof using leq_good gt_good lt_good.
    intros pick ps s Hg Hsc Hwf H a Ha. unfold solve in H.
    destruct (enumerate pick ps s) as [|sols best] eqn:E; [discriminate|].
    destruct (enumerate_exact _ _ _ _ _ Hg Hsc Hwf E) as [_ [_ Hc]].
    destruct (Hc a Ha) as [t [Ht _]]. destruct sols; [destruct Ht|discriminate].
  Qed.

  Theorem solve_complete : forall pick ps s a,
    Forall good ps -> scoped ps (length s) -> wf_store s -> sol ps s a ->
    exists t, solve pick ps s = Some (Some t).
  Proof using leq_good gt_good lt_good.
    intros pick ps s a Hg Hsc Hwf Ha.
    pose proof (solve_total pick ps s Hg Hsc Hwf) as Ht.
    destruct (solve pick ps s) as [[t|]|] eqn:E; [exists t; reflexivity| |congruence].
    destruct (solve_nosol_sound pick ps s Hg Hsc Hwf E a Ha).
  Qed.

  (* ---- C04 *)
  Theorem iterate_strictly_improves : forall pick obj ps s sols best,
    Forall good ps -> scoped ps (length s) -> wf_store s -> view_ok obj ->
    (forall x, uvar obj = Some x -> (x < length s)%nat) ->
    search pick (Some obj) ps s = SOk sols best ->
    strictly_decreasing (objs obj sols) /\
    (forall t, In t sols -> sol ps s (asg_of t)) /\
    (forall a, sol ps s a -> exists t, last (map Some sols) None = Some t /\ vsem obj (asg_of t) <= vsem obj a).
  Proof using leq_good gt_good lt_good.
    intros pick obj ps s sols best Hg Hsc Hwf Hv Hvs H.
    assert (Hm : mode_vok (Some obj)) by exact Hv.
    destruct (search_dec pick (Some obj) Hm obj ps s sols best eq_refl Hg Hwf Hvs H) as [D E].
    pose proof (search_sound pick (Some obj) Hm ps s sols best Hg Hsc Hwf H) as Hs.
    split; [apply dec_from_strict; exact D|]. split; [intros t Ht; apply (Hs t Ht)|].
    intros a Ha. unfold objs in *. rewrite last_best_last in E.
    destruct (search_complete pick (Some obj) Hm ps s sols best Hg Hsc Hwf Hvs H a Ha) as [[t' [Ht' Hi]]|Hd].
    - destruct (Hs t' Ht') as [Hf' [Hsub' _]].
      assert (Ev : vsem obj a = vsem obj (asg_of t')).
      { apply vsem_ext. intros x Hx. apply inst_fixed_eq; [exact Hf'|exact Hi|].
        rewrite (sub_store_length _ _ Hsub'). apply Hvs. exact Hx. }
      destruct (dec_last_le _ None (vsem obj (asg_of t')) D) as [b' [Eb Hb]].
      { apply in_map_iff. exists t'. auto. }
      rewrite last_best_last in Eb.
      destruct (last (map Some sols) None) as [t|]; [|discriminate]. cbn in Eb. injection Eb as <-.
      exists t. split; [reflexivity|lia].
    - unfold dominated in Hd. subst best.
      destruct (last (map Some sols) None) as [t|]; [|destruct Hd]. cbn in Hd.
      exists t. split; [reflexivity|exact Hd].
  Qed.

  Theorem minimize_optimal : forall pick obj ps s t,
    Forall good ps -> scoped ps (length s) -> wf_store s -> view_ok obj ->
    (forall x, uvar obj = Some x -> (x < length s)%nat) ->
    minimize pick obj ps s = Some (Some t) ->
    sol ps s (asg_of t) /\ forall a, sol ps s a -> vsem obj (asg_of t) <= vsem obj a.
  Proof using leq_good gt_good lt_good.
    intros pick obj ps s t Hg Hsc Hwf Hv Hvs H.
    destruct (minimize_sols _ _ _ _ _ H) as [sols [best [E El]]].
    destruct (iterate_strictly_improves _ _ _ _ _ _ Hg Hsc Hwf Hv Hvs E) as [_ [Hs Ho]].
    split; [apply Hs; apply last_some_In; symmetry; exact El|].
    intros a Ha. destruct (Ho a Ha) as [t' [Et Hle]]. rewrite <- El in Et. injection Et as <-. exact Hle.
  Qed.

  Theorem maximize_optimal : forall pick obj ps s t,
    Forall good ps -> scoped ps (length s) -> wf_store s -> view_ok obj ->
    (forall x, uvar obj = Some x -> (x < length s)%nat) ->
    maximize pick obj ps s = Some (Some t) ->
    sol ps s (asg_of t) /\ forall a, sol ps s a -> vsem obj a <= vsem obj (asg_of t).
  Proof using leq_good gt_good lt_good.
    intros pick obj ps s t Hg Hsc Hwf Hv Hvs H. unfold maximize in H.
    destruct (minimize_optimal pick (VOpp obj) ps s t Hg Hsc Hwf Hv Hvs H) as [A B].
    split; [exact A|]. intros a Ha. specialize (B a Ha). cbn [vsem] in B. lia.
  Qed.

  Theorem minimize_ok_iff_sat : forall pick obj ps s,
    Forall good ps -> scoped ps (length s) -> wf_store s -> view_ok obj ->
    (minimize pick obj ps s = Some None <-> forall a, ~ sol ps s a) /\ minimize pick obj ps s <> None.
  Proof using leq_good gt_good lt_good.
    intros pick obj ps s Hg Hsc Hwf Hv.
    assert (Hm : mode_vok (Some obj)) by exact Hv.
    pose proof (search_terminates pick (Some obj) Hm ps s Hg Hwf) as Ht.
    unfold minimize. destruct (search pick (Some obj) ps s) as [|sols best] eqn:E; [congruence|].
    split; [|discriminate]. split.
    - intros H. injection H as H. apply last_none_nil in H. subst sols.
      eapply (search_none pick (Some obj) Hm); eassumption.
    - intros Hno. destruct sols as [|t0 r]; [reflexivity|]. exfalso.
      destruct (search_sound pick (Some obj) Hm ps s _ best Hg Hsc Hwf E t0 (or_introl eq_refl)) as [_ [_ Hs]].
      exact (Hno _ Hs).
  Qed.

  (* ---- C14 *)
  Lemma enum_incl : forall pick1 pick2 ps1 ps2 s l1 b1 l2 b2,
    Forall good ps1 -> scoped ps1 (length s) -> Forall good ps2 -> scoped ps2 (length s) -> wf_store s ->
    (forall a, sol ps1 s a -> sol ps2 s a) ->
    enumerate pick1 ps1 s = SOk l1 b1 -> enumerate pick2 ps2 s = SOk l2 b2 ->
    forall t, In t l1 -> In t l2.
  Proof using leq_good gt_good lt_good.
    intros pick1 pick2 ps1 ps2 s l1 b1 l2 b2 Hg1 Hsc1 Hg2 Hsc2 Hwf Himp E1 E2 t Ht.
    destruct (enumerate_exact _ _ _ _ _ Hg1 Hsc1 Hwf E1) as [_ [Hs _]].
    destruct (Hs t Ht) as [A [B C]].
    eapply enum_unique; [exact Hg2|exact Hsc2|exact Hwf|exact E2|exact A|apply (sub_store_length _ _ B)|apply Himp; exact C].
  Qed.

  Lemma sol_perm : forall ps1 ps2 s a, Permutation ps1 ps2 -> sol ps1 s a -> sol ps2 s a.
  Proof.
    intros ps1 ps2 s a Hp [Hi Hs]. split; [exact Hi|]. intros p Hin. apply Hs.
    eapply Permutation_in; [apply Permutation_sym; exact Hp|exact Hin].
  Qed.

  Lemma Forall_perm : forall (P : prop -> Prop) ps1 ps2, Permutation ps1 ps2 -> Forall P ps1 -> Forall P ps2.
  Proof.
    intros P ps1 ps2 Hp H. apply Forall_forall. intros p Hin. eapply Forall_forall; [exact H|].
    eapply Permutation_in; [apply Permutation_sym; exact Hp|exact Hin].
  Qed.

  Theorem order_independent : forall pick1 pick2 ps1 ps2 s l1 b1 l2 b2,
    Forall good ps1 -> scoped ps1 (length s) -> wf_store s -> Permutation ps1 ps2 ->
    enumerate pick1 ps1 s = SOk l1 b1 -> enumerate pick2 ps2 s = SOk l2 b2 ->
    forall t, In t l1 <-> In t l2.
  Proof using leq_good gt_good lt_good.
    intros pick1 pick2 ps1 ps2 s l1 b1 l2 b2 Hg Hsc Hwf Hp E1 E2 t.
    pose proof (Forall_perm _ _ _ Hp Hg) as Hg2. pose proof (Forall_perm _ _ _ Hp Hsc) as Hsc2.
    split.
    - apply (enum_incl pick1 pick2 ps1 ps2 s l1 b1 l2 b2 Hg Hsc Hg2 Hsc2 Hwf); [|exact E1|exact E2].
      intros a. apply sol_perm. exact Hp.
    - apply (enum_incl pick2 pick1 ps2 ps1 s l2 b2 l1 b1 Hg2 Hsc2 Hg Hsc Hwf); [|exact E2|exact E1].
      intros a. apply sol_perm. apply Permutation_sym. exact Hp.
  Qed.

  Theorem verdict_independent : forall pick1 pick2 ps1 ps2 s,
    Forall good ps1 -> scoped ps1 (length s) -> wf_store s -> Permutation ps1 ps2 ->
    (solve pick1 ps1 s = Some None <-> solve pick2 ps2 s = Some None).
  Proof using leq_good gt_good lt_good.
    intros pick1 pick2 ps1 ps2 s Hg Hsc Hwf Hp.
    pose proof (Forall_perm _ _ _ Hp Hg) as Hg2. pose proof (Forall_perm _ _ _ Hp Hsc) as Hsc2.
    assert (Hhalf : forall pk1 pk2 q1 q2, Forall good q1 -> scoped q1 (length s) -> Forall good q2 ->
              scoped q2 (length s) -> Permutation q1 q2 ->
              solve pk1 q1 s = Some None -> solve pk2 q2 s = Some None).
    { intros pk1 pk2 q1 q2 G1 S1 G2 S2 P H.
      pose proof (solve_nosol_sound pk1 q1 s G1 S1 Hwf H) as Hno.
      pose proof (solve_total pk2 q2 s G2 S2 Hwf) as Ht.
      destruct (solve pk2 q2 s) as [[t|]|] eqn:E; [|reflexivity|congruence]. exfalso.
      destruct (solve_result_satisfies pk2 q2 s t G2 S2 Hwf E) as [_ [_ Hs]].
      apply (Hno (asg_of t)). eapply sol_perm; [apply Permutation_sym; exact P|exact Hs]. }
    split; [apply Hhalf; assumption|apply Hhalf; try assumption; apply Permutation_sym; exact Hp].
  Qed.

  Theorem optimum_independent : forall pick1 pick2 ps1 ps2 s obj t1 t2,
    Forall good ps1 -> scoped ps1 (length s) -> wf_store s -> view_ok obj -> Permutation ps1 ps2 ->
    minimize pick1 obj ps1 s = Some (Some t1) -> minimize pick2 obj ps2 s = Some (Some t2) ->
    vsem obj (asg_of t1) = vsem obj (asg_of t2).
  Proof using leq_good gt_good lt_good.
    intros pick1 pick2 ps1 ps2 s obj t1 t2 Hg Hsc Hwf Hv Hp E1 E2.
    pose proof (Forall_perm _ _ _ Hp Hg) as Hg2. pose proof (Forall_perm _ _ _ Hp Hsc) as Hsc2.
    assert (Hdec : view_scoped obj (length s) \/ exists x, uvar obj = Some x /\ (length s <= x)%nat).
    { unfold view_scoped. destruct (uvar obj) as [x|]; [|left; intros x; discriminate].
      destruct (lt_dec x (length s)) as [Hx|Hx].
      - left. intros y Ey. injection Ey as <-. exact Hx.
      - right. exists x. split; [reflexivity|lia]. }
    destruct Hdec as [Hvs|[x [Ex Hx]]].
    - destruct (minimize_optimal _ _ _ _ _ Hg Hsc Hwf Hv Hvs E1) as [S1 O1].
      destruct (minimize_optimal _ _ _ _ _ Hg2 Hsc2 Hwf Hv Hvs E2) as [S2 O2].
      pose proof (O1 _ (sol_perm _ _ _ _ (Permutation_sym Hp) S2)).
      pose proof (O2 _ (sol_perm _ _ _ _ Hp S1)). lia.
    - destruct (minimize_sat1 _ _ _ _ _ Hg Hsc Hwf Hv E1) as [_ [B1 _]].
      destruct (minimize_sat1 _ _ _ _ _ Hg2 Hsc2 Hwf Hv E2) as [_ [B2 _]].
      apply vsem_ext. intros y Ey. rewrite Ex in Ey. injection Ey as <-. unfold asg_of.
      rewrite !sget_overflow; [reflexivity| |].
      + rewrite (sub_store_length _ _ B2). exact Hx.
      + rewrite (sub_store_length _ _ B1). exact Hx.
  Qed.

  Theorem implied_constraint_neutral : forall pick1 pick2 ps p s l1 b1 l2 b2,
    Forall good (p :: ps) -> scoped (p :: ps) (length s) -> wf_store s ->
    (forall a, sol ps s a -> sat p a = true) ->
    enumerate pick1 ps s = SOk l1 b1 -> enumerate pick2 (ps ++ [p]) s = SOk l2 b2 ->
    forall t, In t l1 <-> In t l2.
  Proof using leq_good gt_good lt_good.
    intros pick1 pick2 ps p s l1 b1 l2 b2 Hg Hsc Hwf Himp E1 E2 t.
    assert (Hperm : Permutation (p :: ps) (ps ++ [p])) by (apply Permutation_cons_append).
    pose proof (Forall_perm _ _ _ Hperm Hg) as Hg2. pose proof (Forall_perm _ _ _ Hperm Hsc) as Hsc2.
    inversion Hg as [|? ? _ Hg1]; subst. inversion Hsc as [|? ? _ Hsc1]; subst.
    split.
    - apply (enum_incl pick1 pick2 ps (ps ++ [p]) s l1 b1 l2 b2 Hg1 Hsc1 Hg2 Hsc2 Hwf); [|exact E1|exact E2].
      intros a Ha. split; [apply Ha|]. intros q Hq.
      apply in_app_or in Hq. destruct Hq as [Hq|[<-|[]]]; [apply Ha; exact Hq|apply Himp; exact Ha].
    - apply (enum_incl pick2 pick1 (ps ++ [p]) ps s l2 b2 l1 b1 Hg2 Hsc2 Hg1 Hsc1 Hwf); [|exact E2|exact E1].
      intros a [Hi Hs]. split; [exact Hi|]. intros q Hq.
      apply Hs. apply in_or_app. left. exact Hq.
  Qed.

  Theorem solution_set_is_semantic : forall pick ps s sols best a,
    Forall good ps -> scoped ps (length s) -> wf_store s ->
    enumerate pick ps s = SOk sols best ->
    (sol ps s a <-> exists t, In t sols /\ inst a t).
  Proof using leq_good gt_good lt_good.
    intros pick ps s sols best a Hg Hsc Hwf E.
    destruct (enumerate_exact _ _ _ _ _ Hg Hsc Hwf E) as [_ [Hs Hc]]. split; [apply Hc|].
    intros [t [Ht Hi]]. destruct (Hs t Ht) as [Hf [Hsub [_ Hsat]]].
    split; [eapply inst_sub; eassumption|]. intros p Hp. rewrite <- (Hsat p Hp).
    assert (Hgp : good p) by (eapply Forall_forall; eassumption).
    destruct Hgp as [_ [_ [_ [_ Hfr]]]]. apply Hfr. intros v Hv.
    apply inst_fixed_eq; [exact Hf|exact Hi|]. rewrite (sub_store_length _ _ Hsub).
    eapply Forall_forall in Hsc; [|exact Hp]. apply Hsc. exact Hv.
  Qed.
End Search.
