(* Proofs for the generic engine theorems: propagation to fixpoint (C05 part b), the depth-first
   search engine in both modes (C01, C02, C03, C04) and order independence (C14).
   Stdlib only, no axioms.  The three contracts `leq_good`, `gt_good`, `lt_good` about the
   propagators the engine itself posts are section hypotheses (proved in Proofs/Props/BasicProofs). *)
Require Import Selen.Model.Prelude Selen.Model.Dom Selen.Model.Views Selen.Model.PropDefs.
Require Import Selen.Model.Props.Basic Selen.Model.Propagate Selen.Model.Search Selen.Model.EngineSpec.
Require Import Coq.Sorting.Permutation.

(* ========================================================================================== *)
(* 0. lists, domains, stores *)

Lemma e_sorted_cons : forall x r, sorted (x :: r) -> (forall y, In y r -> x < y) /\ sorted r.
Proof.
  intros x r. revert x. induction r as [|z r IH]; intros x H.
  - split; [intros y []|exact I].
  - change (x < z /\ sorted (z :: r)) in H. destruct H as [Hxz Hs]. split; [|exact Hs].
    intros y [<-|Hy]; [exact Hxz|]. destruct (IH z Hs) as [Hall _]. specialize (Hall y Hy). lia.
Qed.

Lemma e_sorted_NoDup : forall d, sorted d -> NoDup d.
Proof.
  induction d as [|x r IH]; intros H; [constructor|].
  apply e_sorted_cons in H. destruct H as [Hall Hs]. constructor; [|apply IH; exact Hs].
  intros Hin. specialize (Hall x Hin). lia.
Qed.

Lemma e_dmin_In : forall d, d <> [] -> In (dmin d) d.
Proof. intros [|x r] H; [congruence|left; reflexivity]. Qed.

Lemma e_dmin_least : forall d y, sorted d -> In y d -> dmin d <= y.
Proof.
  intros [|x r] y Hs []; cbn.
  - subst. lia.
  - apply e_sorted_cons in Hs. destruct Hs as [Hall _]. specialize (Hall y H). lia.
Qed.

Lemma e_dmax_In : forall d, d <> [] -> In (dmax d) d.
Proof.
  unfold dmax. induction d as [|x r IH]; intros H; [congruence|].
  destruct r as [|y r]; [left; reflexivity|].
  change (last (x :: y :: r) 0) with (last (y :: r) 0). right. apply IH. discriminate.
Qed.

Lemma e_dmax_greatest : forall d y, sorted d -> In y d -> y <= dmax d.
Proof.
  unfold dmax. induction d as [|x r IH]; intros y Hs Hin; [destruct Hin|].
  destruct r as [|z r].
  - destruct Hin as [<-|[]]. cbn. lia.
  - change (last (x :: z :: r) 0) with (last (z :: r) 0). destruct Hin as [<-|Hin].
    + assert (Hz : In (last (z :: r) 0) (z :: r)) by (apply (e_dmax_In (z :: r)); discriminate).
      apply e_sorted_cons in Hs. destruct Hs as [Hall _]. specialize (Hall _ Hz). lia.
    + apply IH; [apply e_sorted_cons in Hs; tauto | exact Hin].
Qed.

Lemma e_dfixed_single : forall d, dfixed d = true -> exists x, d = [x].
Proof. intros [|x [|y r]]; cbn; try congruence. intros _. exists x. reflexivity. Qed.

Lemma e_filter_length_lt : forall (f : Z -> bool) l x, In x l -> f x = false ->
  (length (filter f l) < length l)%nat.
Proof.
  intros f. induction l as [|y r IH]; intros x Hin Hf; [destruct Hin|].
  cbn [filter]. assert (Hle : (length (filter f r) <= length r)%nat).
  { clear. induction r as [|z r IH]; cbn; [lia|]. destruct (f z); cbn; lia. }
  destruct Hin as [->|Hin].
  - rewrite Hf. cbn. lia.
  - specialize (IH x Hin Hf). destruct (f y); cbn; lia.
Qed.

Lemma e_NoDup_incl_lt : forall (l' l : list Z) x, NoDup l' -> incl l' l -> In x l -> ~ In x l' ->
  (length l' < length l)%nat.
Proof.
  intros l' l x Hnd Hincl Hin Hnin.
  assert (H : (length (x :: l') <= length l)%nat).
  { apply NoDup_incl_length; [constructor; assumption|].
    intros y [<-|Hy]; [exact Hin | apply Hincl; exact Hy]. }
  cbn in H. lia.
Qed.

(* stores *)
Lemma sget_overflow : forall s v, (length s <= v)%nat -> sget s v = [].
Proof. intros. unfold sget. apply nth_overflow. assumption. Qed.

Lemma store_ext : forall s1 s2 : store, length s1 = length s2 ->
  (forall v, sget s1 v = sget s2 v) -> s1 = s2.
Proof. intros s1 s2 Hl H. apply (nth_ext s1 s2 [] []); [exact Hl|]. intros n _. apply H. Qed.

Lemma sub_store_refl : forall s, sub_store s s.
Proof. intros s. split; [reflexivity|auto]. Qed.

Lemma sub_store_trans : forall s1 s2 s3, sub_store s1 s2 -> sub_store s2 s3 -> sub_store s1 s3.
Proof. intros s1 s2 s3 [L1 H1] [L2 H2]. split; [congruence|]. intros v x Hx. apply H2, H1, Hx. Qed.

Lemma sub_store_length : forall s' s, sub_store s' s -> length s' = length s.
Proof. intros s' s [L _]. exact L. Qed.

Lemma dom_eq_dec : forall d1 d2 : dom, {d1 = d2} + {d1 <> d2}.
Proof. apply list_eq_dec. apply Z.eq_dec. Qed.

Lemma total_size_le : forall s' s : store, length s' = length s ->
  (forall v, (v < length s)%nat -> (length (sget s' v) <= length (sget s v))%nat) ->
  (total_size s' <= total_size s)%nat.
Proof.
  induction s' as [|d' r' IH]; intros [|d r] Hl H; cbn in Hl; try discriminate; [cbn; lia|].
  cbn [total_size]. assert (H0 := H 0%nat). cbn in H0.
  assert (IH' : (total_size r' <= total_size r)%nat).
  { apply IH; [lia|]. intros v Hv. apply (H (S v)). cbn. lia. }
  lia.
Qed.

Lemma total_size_lt : forall s' s : store, length s' = length s ->
  (forall v, (v < length s)%nat -> (length (sget s' v) <= length (sget s v))%nat) ->
  forall p, (p < length s)%nat -> (length (sget s' p) < length (sget s p))%nat ->
  (total_size s' < total_size s)%nat.
Proof.
  induction s' as [|d' r' IH]; intros [|d r] Hl H p Hp Hlt; cbn in Hl; try discriminate;
    [cbn in Hp; lia|].
  cbn [total_size]. assert (H0 := H 0%nat). cbn in H0.
  assert (Hr : forall v, (v < length r)%nat -> (length (sget r' v) <= length (sget r v))%nat).
  { intros v Hv. apply (H (S v)). cbn. lia. }
  destruct p as [|p].
  - cbn in Hlt. assert ((total_size r' <= total_size r)%nat) by (apply total_size_le; [lia|exact Hr]). lia.
  - assert ((total_size r' < total_size r)%nat).
    { apply (IH r ltac:(lia) Hr p); [cbn in Hp; lia | exact Hlt]. }
    lia.
Qed.

Lemma sub_store_dom_le : forall s' s v, sub_store s' s -> wf_store s' -> (v < length s)%nat ->
  (length (sget s' v) <= length (sget s v))%nat.
Proof.
  intros s' s v [Hl Hsub] Hwf Hv. apply NoDup_incl_length.
  - apply e_sorted_NoDup. apply Hwf. lia.
  - intros x Hx. apply Hsub, Hx.
Qed.

Lemma sub_store_shrinks : forall s' s p x, sub_store s' s -> wf_store s' -> (p < length s)%nat ->
  In x (sget s p) -> ~ In x (sget s' p) -> (total_size s' < total_size s)%nat.
Proof.
  intros s' s p x Hsub Hwf Hp Hin Hnin.
  apply total_size_lt with (p := p); [apply Hsub | | exact Hp |].
  - intros v Hv. apply sub_store_dom_le; assumption.
  - apply e_NoDup_incl_lt with (x := x); [ | | exact Hin | exact Hnin].
    + apply e_sorted_NoDup. apply Hwf. destruct Hsub as [Hl _]. lia.
    + intros y Hy. destruct Hsub as [_ Hs]. apply Hs, Hy.
Qed.

(* ========================================================================================== *)
(* 1. the agenda *)

Lemma memn_In : forall x l, memn x l = true <-> In x l.
Proof.
  intros x l. unfold memn. rewrite existsb_exists. split.
  - intros [y [Hy E]]. apply Nat.eqb_eq in E. subst. exact Hy.
  - intros H. exists x. split; [exact H|apply Nat.eqb_refl].
Qed.

Lemma schedule_In : forall q p x, In x (schedule q p) <-> In x q \/ x = p.
Proof.
  intros q p x. unfold schedule. destruct (memn p q) eqn:E.
  - apply memn_In in E. split; [auto|]. intros [H|H]; [assumption|subst; assumption].
  - rewrite in_app_iff. cbn. intuition.
Qed.

Lemma fold_schedule_In : forall l q x, In x (fold_left schedule l q) <-> In x q \/ In x l.
Proof.
  induction l as [|p l IH]; intros q x; cbn [fold_left].
  - cbn. tauto.
  - rewrite IH, schedule_In. cbn. intuition.
Qed.

Lemma agenda_with_In : forall l x, In x (agenda_with l) <-> In x l.
Proof. intros l x. unfold agenda_with. rewrite fold_schedule_In. cbn. tauto. Qed.

Lemma deps_from_In : forall ps i v j,
  In j (deps_from ps i v) <->
  exists k pj, j = (i + k)%nat /\ nth_error ps k = Some pj /\ In v (trig pj).
Proof.
  induction ps as [|p r IH]; intros i v j; cbn [deps_from].
  - split; [intros []|]. intros [k [pj [_ [H _]]]]. destruct k; discriminate.
  - rewrite in_app_iff, IH. split.
    + intros [H|[k [pj [E [Hn Hv]]]]].
      * apply in_map_iff in H. destruct H as [y [E Hy]]. apply filter_In in Hy.
        destruct Hy as [Hy Ev]. apply Nat.eqb_eq in Ev. subst y.
        exists 0%nat, p. split; [lia|]. split; [reflexivity|exact Hy].
      * exists (S k), pj. split; [lia|]. split; assumption.
    + intros [k [pj [E [Hn Hv]]]]. destruct k as [|k].
      * left. cbn in Hn. injection Hn as <-. apply in_map_iff. exists v. split; [lia|].
        apply filter_In. split; [exact Hv|apply Nat.eqb_refl].
      * right. exists k, pj. split; [lia|]. split; assumption.
Qed.

Lemma deps_In : forall ps v j,
  In j (deps ps v) <-> exists pj, nth_error ps j = Some pj /\ In v (trig pj).
Proof.
  intros ps v j. unfold deps. rewrite deps_from_In. split.
  - intros [k [pj [E H]]]. cbn in E. subst. exists pj. exact H.
  - intros [pj H]. exists j, pj. split; [reflexivity|exact H].
Qed.

Lemma deps_lt : forall ps v j, In j (deps ps v) -> (j < length ps)%nat.
Proof.
  intros ps v j H. apply deps_In in H. destruct H as [pj [H _]].
  apply nth_error_Some. congruence.
Qed.

Lemma schedule_events_In : forall ps ev q x,
  In x (schedule_events ps q ev) <-> In x q \/ exists v, In v ev /\ In x (deps ps v).
Proof.
  intros ps. unfold schedule_events. induction ev as [|v ev IH]; intros q x; cbn [fold_left].
  - split; [auto|]. intros [H|[v [[] _]]]. exact H.
  - rewrite IH, fold_schedule_In. split.
    + intros [[H|H]|[w [Hw H]]]; [left; exact H | right; exists v; split; [left; reflexivity|exact H]
                                  | right; exists w; split; [right; exact Hw|exact H]].
    + intros [H|[w [[<-|Hw] H]]]; [left; left; exact H | left; right; exact H
                                  | right; exists w; split; assumption].
Qed.

Lemma remove_nth_In : forall (l : list nat) i x, In x (remove_nth i l) -> In x l.
Proof.
  induction l as [|y r IH]; intros i x H; [destruct i; destruct H|].
  destruct i as [|i]; cbn in H; [right; exact H|].
  destruct H as [<-|H]; [left; reflexivity | right; eapply IH; exact H].
Qed.

Lemma remove_nth_split : forall (l : list nat) i x, In x l -> x = nth i l 0%nat \/ In x (remove_nth i l).
Proof.
  induction l as [|y r IH]; intros i x H; [destruct H|].
  destruct i as [|i]; cbn.
  - destruct H as [<-|H]; [left; reflexivity | right; exact H].
  - destruct H as [<-|H]; [right; left; reflexivity|].
    destruct (IH i x H) as [E|E]; [left; exact E | right; right; exact E].
Qed.

Lemma remove_nth_length : forall (l : list nat) i, (i < length l)%nat ->
  length (remove_nth i l) = pred (length l).
Proof.
  induction l as [|y r IH]; intros i H; [cbn in H; lia|].
  destruct i as [|i]; cbn; [reflexivity|]. rewrite IH by (cbn in H; lia). cbn in H. lia.
Qed.

Lemma e_NoDup_snoc : forall (a : list nat) p, NoDup a -> ~ In p a -> NoDup (a ++ [p]).
Proof.
  induction a as [|x a IH]; intros p Hnd Hn; cbn.
  - constructor; [intros []|constructor].
  - inversion Hnd; subst. constructor.
    + intros H. apply in_app_or in H. destruct H as [H|[<-|[]]]; [contradiction|].
      apply Hn. left. reflexivity.
    + apply IH; [assumption|]. intros H. apply Hn. right. exact H.
Qed.

(* the queue only grows by distinct fresh PropIds *)
Definition qext (n : nat) (q q' : list nat) : Prop :=
  exists a, q' = q ++ a /\ NoDup a /\ forall x, In x a -> (x < n)%nat /\ ~ In x q.

Lemma qext_refl : forall n q, qext n q q.
Proof. intros n q. exists []. rewrite app_nil_r. split; [reflexivity|]. split; [constructor|intros x []]. Qed.

Lemma qext_schedule : forall n q q' p, qext n q q' -> (p < n)%nat -> qext n q (schedule q' p).
Proof.
  intros n q q' p [a [-> [Hnd Ha]]] Hp. unfold schedule. destruct (memn p (q ++ a)) eqn:E.
  - exists a. auto.
  - assert (Hn : ~ In p (q ++ a)) by (intros H; apply memn_In in H; congruence).
    exists (a ++ [p]). split; [rewrite app_assoc; reflexivity|]. split.
    + apply e_NoDup_snoc; [exact Hnd|]. intros H. apply Hn, in_or_app. right. exact H.
    + intros x Hx. apply in_app_or in Hx. destruct Hx as [Hx|[<-|[]]]; [apply Ha, Hx|].
      split; [exact Hp|]. intros H. apply Hn, in_or_app. left. exact H.
Qed.

Lemma qext_fold_schedule : forall n l q q', qext n q q' -> (forall x, In x l -> (x < n)%nat) ->
  qext n q (fold_left schedule l q').
Proof.
  intros n. induction l as [|p l IH]; intros q q' H Hl; cbn [fold_left]; [exact H|].
  apply IH; [apply qext_schedule; [exact H|apply Hl; left; reflexivity]|].
  intros x Hx. apply Hl. right. exact Hx.
Qed.

Lemma qext_schedule_events : forall ps ev q q', qext (length ps) q q' ->
  qext (length ps) q (schedule_events ps q' ev).
Proof.
  intros ps. unfold schedule_events. induction ev as [|v ev IH]; intros q q' H; cbn [fold_left]; [exact H|].
  apply IH. apply qext_fold_schedule; [exact H|]. intros x Hx. eapply deps_lt; exact Hx.
Qed.

Lemma qext_length : forall n q q', qext n q q' -> (length q' <= length q + n)%nat.
Proof.
  intros n q q' [a [-> [Hnd Ha]]]. rewrite app_length.
  assert (H : (length a <= length (seq 0 n))%nat).
  { apply NoDup_incl_length; [exact Hnd|]. intros x Hx. apply in_seq. destruct (Ha x Hx). lia. }
  rewrite seq_length in H. lia.
Qed.

Lemma schedule_events_length : forall ps q ev,
  (length (schedule_events ps q ev) <= length q + length ps)%nat.
Proof. intros. apply qext_length. apply qext_schedule_events. apply qext_refl. Qed.

Lemma schedule_events_nil : forall ps q, schedule_events ps q [] = q.
Proof. reflexivity. Qed.

(* ========================================================================================== *)
(* 2. propagation to fixpoint *)

(* one run of a contracting propagator from an empty event list *)
Lemma step_contract : forall pr s s' ev, contracting pr -> wf_store s ->
  prune pr (s, []) = Some (s', ev) ->
  sub_store s' s /\ wf_store s' /\
  (forall v, sget s' v <> sget s v -> In v ev) /\
  (forall v, In v ev -> In v (trig pr)) /\
  (ev <> [] -> (total_size s' < total_size s)%nat).
Proof.
  intros pr s s' ev Hc Hwf Hp. destruct (Hc s [] s' ev Hwf Hp) as [Hs [Hw [evn [E [H1 [H2 H3]]]]]].
  cbn in E. subst evn. auto.
Qed.

Lemma step_noev : forall pr s s', contracting pr -> wf_store s ->
  prune pr (s, []) = Some (s', []) -> s' = s.
Proof.
  intros pr s s' Hc Hwf Hp. destruct (step_contract _ _ _ _ Hc Hwf Hp) as [Hs [_ [H1 _]]].
  apply store_ext; [apply Hs|]. intros v.
  destruct (dom_eq_dec (sget s' v) (sget s v)) as [E|E]; [exact E|]. destruct (H1 v E).
Qed.

(* a propagator at its fixpoint stays there when only non-trigger variables change *)
Lemma frame_stable : forall p s s', frame p -> contracting p -> wf_store s' -> length s = length s' ->
  agree_on (trig p) s s' -> prune p (s, []) = Some (s, []) -> prune p (s', []) = Some (s', []).
Proof.
  intros p s s' [F _] Hc Hwf Hl Hag H1. specialize (F s s' [] Hl Hag).
  unfold store, dom, ctx in *. rewrite H1 in F.
  destruct (prune p (s', [])) as [[s2 e2]|] eqn:E2; [|destruct F].
  destruct F as [<- _]. f_equal. f_equal. eapply step_noev; [exact Hc|exact Hwf|exact E2].
Qed.

Section PropagateGeneric.
  Variable pick : sched.
  Variable ps : list prop.

  Lemma propagate_eq : forall f s q, q <> [] ->
    propagate pick (S f) ps s q =
    match nth_error ps (nth (pick q mod length q)%nat q 0%nat) with
    | None => PFail
    | Some pr =>
      match prune pr (s, []) with
      | None => PFail
      | Some (s', ev) =>
        propagate pick f ps s' (schedule_events ps (remove_nth (pick q mod length q)%nat q) ev)
      end
    end.
  Proof.
    intros f s [|p0 r] H; [congruence|].
    rewrite (nth_indep (p0 :: r) 0%nat p0) by (apply Nat.mod_upper_bound; discriminate).
    reflexivity.
  Qed.

  Lemma pick_lt : forall q : list nat, q <> [] -> (pick q mod length q < length q)%nat.
  Proof. intros q H. apply Nat.mod_upper_bound. destruct q; [congruence|discriminate]. Qed.

  (* invariant rule for successful runs *)
  Lemma propagate_invariant : forall (I : store -> list nat -> Prop),
    (forall s q i pr s' ev, I s q -> (i < length q)%nat ->
       nth_error ps (nth i q 0%nat) = Some pr -> prune pr (s, []) = Some (s', ev) ->
       I s' (schedule_events ps (remove_nth i q) ev)) ->
    forall fuel s q s', I s q -> propagate pick fuel ps s q = PDone s' -> I s' [].
  Proof.
    intros I Hstep. induction fuel as [|f IH]; intros s q s' HI Hp.
    - destruct q; cbn in Hp; [injection Hp as <-; exact HI|discriminate].
    - destruct q as [|p0 r] eqn:Eq; [cbn in Hp; injection Hp as <-; exact HI|].
      rewrite <- Eq in *. assert (Hne : q <> []) by (rewrite Eq; discriminate).
      rewrite propagate_eq in Hp by exact Hne.
      destruct (nth_error ps _) as [pr|] eqn:En; [|discriminate].
      destruct (prune pr (s, [])) as [[s1 ev]|] eqn:Epr; [|discriminate].
      eapply IH; [|exact Hp]. eapply Hstep; [exact HI | apply pick_lt; exact Hne | exact En | exact Epr].
  Qed.

  (* progress rule: no failure *)
  Lemma propagate_nofail : forall (I : store -> list nat -> Prop),
    (forall s q i, I s q -> (i < length q)%nat ->
       exists pr s' ev, nth_error ps (nth i q 0%nat) = Some pr /\ prune pr (s, []) = Some (s', ev) /\
                        I s' (schedule_events ps (remove_nth i q) ev)) ->
    forall fuel s q, I s q -> propagate pick fuel ps s q <> PFail.
  Proof.
    intros I Hstep. induction fuel as [|f IH]; intros s q HI.
    - destruct q; cbn; discriminate.
    - destruct q as [|p0 r] eqn:Eq; [cbn; discriminate|].
      rewrite <- Eq in *. assert (Hne : q <> []) by (rewrite Eq; discriminate).
      rewrite propagate_eq by exact Hne.
      destruct (Hstep s q _ HI (pick_lt q Hne)) as [pr [s1 [ev [En [Epr HI']]]]].
      rewrite En, Epr. apply IH. exact HI'.
  Qed.
End PropagateGeneric.

Lemma Forall_nth_error : forall (A : Type) (P : A -> Prop) l i x, Forall P l -> nth_error l i = Some x -> P x.
Proof. intros A P l i x H E. eapply Forall_forall; [exact H|]. eapply nth_error_In; exact E. Qed.

Theorem propagate_shrinks : forall pick fuel ps s q s',
  Forall contracting ps -> wf_store s -> propagate pick fuel ps s q = PDone s' -> sub_store s' s /\ wf_store s'.
Proof.
  intros pick fuel ps s q s' Hc Hwf Hp.
  apply (propagate_invariant pick ps (fun t _ => sub_store t s /\ wf_store t)) with (fuel := fuel) (s := s) (q := q);
    [|split; [apply sub_store_refl|exact Hwf]|exact Hp].
  intros t q0 i pr t' ev [Hs Hw] _ En Epr.
  destruct (step_contract pr t t' ev (Forall_nth_error _ _ _ _ _ Hc En) Hw Epr) as [Hs' [Hw' _]].
  split; [eapply sub_store_trans; eassumption|exact Hw'].
Qed.

(* one sound step keeps the solution *)
Lemma step_sound : forall pr s a, sound pr -> wf_store s -> in_scope pr (length s) -> inst a s ->
  sat pr a = true -> exists s' ev, prune pr (s, []) = Some (s', ev) /\ inst a s'.
Proof. intros pr s a Hs Hwf Hsc Hi Hsat. exact (Hs s [] a Hwf Hsc Hi Hsat). Qed.

Theorem propagate_keeps_solutions : forall pick fuel ps s q a,
  Forall contracting ps -> Forall sound ps -> scoped ps (length s) -> wf_store s -> sol ps s a ->
  (forall i, In i q -> (i < length ps)%nat) ->
  propagate pick fuel ps s q <> PFail /\ forall s', propagate pick fuel ps s q = PDone s' -> inst a s'.
Proof.
  intros pick fuel ps s q a Hc Hso Hsc Hwf [Hi Hsat] Hq.
  set (I := fun (t : store) (q0 : list nat) =>
              wf_store t /\ length t = length s /\ inst a t /\ forall i, In i q0 -> (i < length ps)%nat).
  assert (HI0 : I s q) by (unfold I; auto).
  assert (Hstep : forall t q0 i, I t q0 -> (i < length q0)%nat ->
     exists pr t' ev, nth_error ps (nth i q0 0%nat) = Some pr /\ prune pr (t, []) = Some (t', ev) /\
                      I t' (schedule_events ps (remove_nth i q0) ev)).
  { intros t q0 i [Hw [Hl [Hit Hq0]]] Hlt.
    assert (Hin : In (nth i q0 0%nat) q0) by (apply nth_In; exact Hlt).
    destruct (nth_error ps (nth i q0 0%nat)) as [pr|] eqn:En;
      [|apply nth_error_None in En; specialize (Hq0 _ Hin); lia].
    assert (Hpin : In pr ps) by (eapply nth_error_In; exact En).
    assert (Hscp : in_scope pr (length t)).
    { rewrite Hl. eapply Forall_forall in Hsc; [exact Hsc|exact Hpin]. }
    destruct (step_sound pr t a (Forall_nth_error _ _ _ _ _ Hso En) Hw Hscp Hit (Hsat pr Hpin))
      as [t' [ev [Epr Hit']]].
    exists pr, t', ev. split; [reflexivity|]. split; [exact Epr|].
    destruct (step_contract pr t t' ev (Forall_nth_error _ _ _ _ _ Hc En) Hw Epr) as [Hs' [Hw' _]].
    split; [exact Hw'|]. split; [destruct Hs' as [L _]; congruence|]. split; [exact Hit'|].
    intros j Hj. apply schedule_events_In in Hj. destruct Hj as [Hj|[v [_ Hj]]].
    - apply Hq0. eapply remove_nth_In; exact Hj.
    - eapply deps_lt; exact Hj. }
  split.
  - apply (propagate_nofail pick ps I Hstep). exact HI0.
  - intros s' Hp.
    assert (H : I s' []).
    { apply (propagate_invariant pick ps I) with (fuel := fuel) (s := s) (q := q); [|exact HI0|exact Hp].
      intros t q0 i pr t' ev HI Hlt En Epr.
      destruct (Hstep t q0 i HI Hlt) as [pr' [t'' [ev' [En' [Epr' HI']]]]].
      rewrite En in En'. injection En' as <-. rewrite Epr in Epr'. injection Epr' as <- <-. exact HI'. }
    destruct H as [_ [_ [H _]]]. exact H.
Qed.

Theorem propagate_fixpoint : forall pick fuel ps s q s',
  Forall good ps -> scoped ps (length s) -> wf_store s -> stable ps s q ->
  propagate pick fuel ps s q = PDone s' -> stable ps s' [].
Proof.
  intros pick fuel ps s q s' Hg _ Hwf Hst Hp.
  assert (H : wf_store s' /\ stable ps s' []).
  { apply (propagate_invariant pick ps (fun t q0 => wf_store t /\ stable ps t q0))
      with (fuel := fuel) (s := s) (q := q); [|split; assumption|exact Hp].
    clear s q s' Hwf Hst Hp. intros s q i pr s' ev [Hwf Hst] Hlt En Epr.
    assert (Hcpr : contracting pr) by (apply (Forall_nth_error _ _ _ _ _ Hg En)).
    destruct (step_contract pr s s' ev Hcpr Hwf Epr) as [Hsub [Hwf' [Hch [Htr _]]]].
    split; [exact Hwf'|].
    intros j pj Enj Hnin.
    assert (Hnq : ~ In j (remove_nth i q)).
    { intros H. apply Hnin. apply schedule_events_In. left. exact H. }
    assert (Hnd : forall v, In v ev -> ~ In v (trig pj)).
    { intros v Hv Hvt. apply Hnin. apply schedule_events_In. right. exists v. split; [exact Hv|].
      apply deps_In. exists pj. split; assumption. }
    destruct ev as [|v0 ev0].
    - (* nothing changed *)
      assert (E : s' = s) by (eapply step_noev; eassumption). subst s'.
      destruct (Nat.eq_dec j (nth i q 0%nat)) as [Ej|Ej].
      + subst j. rewrite En in Enj. injection Enj as <-. exact Epr.
      + apply (Hst j pj Enj). intros Hin.
        destruct (remove_nth_split q i j Hin) as [E|E]; [exact (Ej E)|exact (Hnq E)].
    - (* some variable changed: j is not the popped propagator and does not watch it *)
      assert (Ej : j <> nth i q 0%nat).
      { intros ->. rewrite En in Enj. injection Enj as <-.
        apply (Hnd v0); [left; reflexivity|]. apply Htr. left. reflexivity. }
      assert (Hold : prune pj (s, []) = Some (s, [])).
      { apply (Hst j pj Enj). intros Hin.
        destruct (remove_nth_split q i j Hin) as [E|E]; [exact (Ej E)|exact (Hnq E)]. }
      assert (Hag : agree_on (trig pj) s s').
      { intros v Hv. destruct (dom_eq_dec (sget s' v) (sget s v)) as [E|E]; [symmetry; exact E|].
        exfalso. apply (Hnd v); [apply Hch; exact E|exact Hv]. }
      assert (Hgj : good pj) by (apply (Forall_nth_error _ _ _ _ _ Hg Enj)).
      destruct Hgj as [Hcj [_ [_ Hfr]]].
      assert (Hl : length s = length s') by (destruct Hsub as [L _]; congruence).
      eapply frame_stable; eassumption. }
  apply H.
Qed.

Lemma all_fixed_sget : forall s v, all_fixed s = true -> (v < length s)%nat -> dfixed (sget s v) = true.
Proof.
  intros s v H Hv. unfold all_fixed in H. rewrite forallb_forall in H. apply H.
  unfold sget. apply nth_In. exact Hv.
Qed.

(* the version used internally: one propagator, in scope *)
Lemma fixed_checks_one : forall p s a, good p -> in_scope p (length s) -> wf_store s ->
  prune p (s, []) = Some (s, []) -> all_fixed s = true -> inst a s -> sat p a = true.
Proof.
  intros p s a [_ [_ [Hch _]]] Hsc Hwf Hst Hfix Hi.
  apply (Hch s [] a Hwf Hi); [|unfold store, dom, ctx in *; rewrite Hst; discriminate].
  intros v Hv. apply all_fixed_sget; [exact Hfix|apply Hsc; exact Hv].
Qed.

Theorem fixed_fixpoint_checks : forall ps s a,
  Forall good ps -> scoped ps (length s) -> wf_store s -> stable ps s [] -> all_fixed s = true -> inst a s ->
  forall p, In p ps -> sat p a = true.
Proof.
  intros ps s a Hg Hsc Hwf Hst Hfix Hi p Hp.
  destruct (In_nth_error _ _ Hp) as [i Ei].
  apply fixed_checks_one with (s := s); try assumption.
  - eapply Forall_forall; [exact Hg|exact Hp].
  - eapply Forall_forall in Hsc; [exact Hsc|exact Hp].
  - apply (Hst i p Ei). intros [].
Qed.

Theorem propagate_terminates : forall pick fuel ps s q,
  Forall contracting ps -> wf_store s -> (prop_fuel ps s q <= fuel)%nat -> propagate pick fuel ps s q <> PFuel.
Proof.
  intros pick fuel ps s q Hc. unfold prop_fuel.
  assert (H : forall fuel s q, wf_store s ->
            (length q + total_size s * S (length ps) <= fuel)%nat -> propagate pick fuel ps s q <> PFuel).
  { clear fuel s q. induction fuel as [|f IH]; intros s q Hwf Hf.
    - destruct q; cbn; [discriminate|]. cbn in Hf. lia.
    - destruct q as [|p0 r] eqn:Eq; [cbn; discriminate|].
      rewrite <- Eq in *. assert (Hne : q <> []) by (rewrite Eq; discriminate).
      rewrite propagate_eq by exact Hne.
      destruct (nth_error ps _) as [pr|] eqn:En; [|discriminate].
      destruct (prune pr (s, [])) as [[s1 ev]|] eqn:Epr; [|discriminate].
      destruct (step_contract pr s s1 ev (Forall_nth_error _ _ _ _ _ Hc En) Hwf Epr)
        as [Hsub [Hwf1 [_ [_ Hdec]]]].
      apply IH; [exact Hwf1|].
      assert (Hq : (0 < length q)%nat) by (destruct q; [congruence|cbn; lia]).
      assert (Hr := remove_nth_length q _ (pick_lt pick q Hne)).
      destruct ev as [|v0 ev0].
      + assert (E : s1 = s) by (eapply step_noev; [|exact Hwf|exact Epr]; apply (Forall_nth_error _ _ _ _ _ Hc En)).
        subst s1. rewrite schedule_events_nil. lia.
      + assert (Hd : (total_size s1 < total_size s)%nat) by (apply Hdec; discriminate).
        pose proof (schedule_events_length ps (remove_nth (pick q mod length q) q) (v0 :: ev0)) as Hlen.
        nia. }
  intros Hwf Hf. apply H; [exact Hwf|]. lia.
Qed.
