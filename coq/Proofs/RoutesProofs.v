(* Proofs about Model/Routes.v: result bounds cover the function values, each call's lowering denotes
   its documented meaning (route_sem), every description outside the known classes denotes a record
   meeting the local contracts, composition with the engine theorem (C03), refutations of the known
   classes. *)
Require Import Selen.Model.Prelude Selen.Model.Dom Selen.Model.Views Selen.Model.PropDefs.
Require Import Selen.Model.Props.Basic Selen.Model.Props.LinInt Selen.Model.Props.Arith.
Require Import Selen.Model.Props.Logic Selen.Model.Props.Global Selen.Model.Gac Selen.Model.Props.AllDiff.
Require Import Selen.Model.Propagate Selen.Model.Search Selen.Model.EngineSpec.
Require Import Selen.Model.Api Selen.Model.Lower Selen.Model.Routes.
Require Selen.Generated.Consts.
Require Import Selen.Proofs.DomProofs Selen.Proofs.LowerProofs Selen.Proofs.EngineProofs.
Require Import Selen.Proofs.Props.BasicProofs Selen.Proofs.Props.NeqProofs Selen.Proofs.Props.LinIntProofs Selen.Proofs.Props.ArithProofs
               Selen.Proofs.Props.ArithMulProofs Selen.Proofs.Props.ArithModProofs Selen.Proofs.Props.LogicProofs
               Selen.Proofs.Props.GlobalProofs Selen.Proofs.Props.AllDiffProofs.

(* ------------------------------------------------------------------------------------------ *)
(* 1. result bounds cover the function values *)
Definition within (b : Z * Z) (v : Z) : Prop := fst b <= v <= snd b.

Lemma add_bounds_cover : forall bx by_ x y, within bx x -> within by_ y -> within (add_bounds bx by_) (x + y).
Proof. unfold within, add_bounds; simpl; intros; lia. Qed.
Lemma sub_bounds_cover : forall bx by_ x y, within bx x -> within by_ y -> within (sub_bounds bx by_) (x - y).
Proof. unfold within, sub_bounds; simpl; intros; lia. Qed.

Lemma lin_ends : forall k c d y, c <= y <= d ->
  (k * c <= k * y \/ k * d <= k * y) /\ (k * y <= k * c \/ k * y <= k * d).
Proof. intros k c d y H. destruct (Z_le_gt_dec 0 k); split; [left|right|right|left]; nia. Qed.

Lemma mul_corner : forall a b c d x y, a <= x <= b -> c <= y <= d ->
  (a * c <= x * y \/ a * d <= x * y \/ b * c <= x * y \/ b * d <= x * y) /\
  (x * y <= a * c \/ x * y <= a * d \/ x * y <= b * c \/ x * y <= b * d).
Proof.
  intros a b c d x y Hx Hy.
  destruct (lin_ends a c d y Hy) as [La Ua]. destruct (lin_ends b c d y Hy) as [Lb Ub].
  assert (E1 : (a * y <= x * y /\ x * y <= b * y) \/ (b * y <= x * y /\ x * y <= a * y))
    by (destruct (Z_le_gt_dec 0 y); [left|right]; nia).
  split; destruct E1 as [[P Q]|[P Q]]; lia.
Qed.

Lemma mul_bounds_cover : forall bx by_ x y, within bx x -> within by_ y -> within (mul_bounds bx by_) (x * y).
Proof.
  unfold within, mul_bounds; intros [a b] [c d] x y Hx Hy; simpl in *.
  destruct (mul_corner a b c d x y Hx Hy) as [L U].
  pose proof (Z.le_min_l (a * c) (a * c)).
  repeat match goal with |- context [Z.min ?p ?q] => pose proof (Z.le_min_l p q); pose proof (Z.le_min_r p q); generalize dependent (Z.min p q); intros end.
  repeat match goal with |- context [Z.max ?p ?q] => pose proof (Z.le_max_l p q); pose proof (Z.le_max_r p q); generalize dependent (Z.max p q); intros end.
  lia.
Qed.

Lemma mod_bounds_cover : forall bx by_ x y, within bx x -> within by_ y -> y <> 0 ->
  within (mod_bounds bx by_) (trem x y).
Proof.
  unfold within, mod_bounds, trem; intros [a b] [c d] x y Hx Hy Hn; simpl fst in *; simpl snd in *.
  pose proof (Z.rem_bound_abs x y Hn) as R.
  assert (Y : Z.abs y <= Z.max (Z.abs c) (Z.abs d)) by lia.
  set (yam := Z.max (Z.abs c) (Z.abs d)) in *.
  match goal with |- context [match ?l with [] => _ | _ :: _ => _ end] => destruct l as [|v r] end.
  - simpl; lia.
  - destruct (0 <? yam) eqn:E; [|apply Z.ltb_ge in E; lia].
    simpl. lia.
Qed.

Lemma abs_bounds_cover : forall bx x, within bx x -> within (abs_bounds bx) (Z.abs x).
Proof.
  unfold within, abs_bounds; intros [a b] x H; simpl in *.
  destruct (0 <=? a) eqn:E1; [apply Z.leb_le in E1|apply Z.leb_gt in E1; destruct (b <=? 0) eqn:E2;
    [apply Z.leb_le in E2|apply Z.leb_gt in E2]]; lia.
Qed.

Lemma list_min_mono : forall l1 l2 d1 d2, d1 <= d2 -> Forall2 Z.le l1 l2 -> list_min d1 l1 <= list_min d2 l2.
Proof. induction l1; intros l2 d1 d2 H F; inversion F; subst; simpl; [exact H|apply IHl1; [lia|assumption]]. Qed.
Lemma list_max_mono : forall l1 l2 d1 d2, d1 <= d2 -> Forall2 Z.le l1 l2 -> list_max d1 l1 <= list_max d2 l2.
Proof. induction l1; intros l2 d1 d2 H F; inversion F; subst; simpl; [exact H|apply IHl1; [lia|assumption]]. Qed.

Definition within_all (bs : list (Z * Z)) (vs : list Z) : Prop := Forall2 within bs vs.
Lemma within_all_lo : forall bs vs, within_all bs vs -> Forall2 Z.le (map fst bs) vs.
Proof. induction 1; simpl; constructor; [apply H|assumption]. Qed.
Lemma within_all_hi : forall bs vs, within_all bs vs -> Forall2 Z.le vs (map snd bs).
Proof. induction 1; simpl; constructor; [apply H|assumption]. Qed.

Lemma min_bounds_cover : forall b0 bs v0 vs, within b0 v0 -> within_all bs vs ->
  within (min_bounds b0 bs) (list_min v0 vs).
Proof.
  intros b0 bs v0 vs H0 H; unfold within, min_bounds; simpl; split.
  - apply list_min_mono; [apply H0|apply within_all_lo; exact H].
  - apply list_min_mono; [apply H0|apply within_all_hi; exact H].
Qed.
Lemma max_bounds_cover : forall b0 bs v0 vs, within b0 v0 -> within_all bs vs ->
  within (max_bounds b0 bs) (list_max v0 vs).
Proof.
  intros b0 bs v0 vs H0 H; unfold within, max_bounds; simpl; split.
  - apply list_max_mono; [apply H0|apply within_all_lo; exact H].
  - apply list_max_mono; [apply H0|apply within_all_hi; exact H].
Qed.
Lemma sum_bounds_cover : forall bs vs, within_all bs vs -> within (sum_bounds_l bs) (fold_right Z.add 0 vs).
Proof.
  induction 1; unfold within, sum_bounds_l in *; simpl in *; [lia|]. destruct H; lia.
Qed.

(* operand bounds contain the operand's value at every assignment inside the store *)
Definition sstore (s : store) : Prop := forall v, sorted (sget s v).

Lemma obounds_within : forall s o b a, sstore s -> inst a s -> obounds s o = Some b -> within b (osem o a).
Proof.
  intros s [v|c] b a Hs Hi H; simpl in H.
  - destruct (dempty (sget s v)) eqn:E; [discriminate|]. inversion H; subst; clear H.
    apply dempty_false in E. assert (Hv : (v < length s)%nat) by (apply sget_nonempty_lt; exact E).
    unfold within; simpl. split; [apply dmin_least|apply dmax_greatest]; auto.
  - inversion H; subst. unfold within; simpl; lia.
Qed.

Lemma var_bounds_within : forall s xs bs a, sstore s -> inst a s -> var_bounds s xs = Some bs ->
  within_all bs (map a xs).
Proof.
  intros s xs; induction xs as [|x r IH]; intros bs a Hs Hi H; cbn [var_bounds] in H.
  - inversion H; constructor.
  - destruct (obounds s (OV x)) as [b|] eqn:E; [|discriminate]. cbn [obind] in H.
    destruct (var_bounds s r) as [br|] eqn:E2; [|discriminate]. cbn [obind] in H. inversion H; subst.
    simpl. constructor; [apply (obounds_within s (OV x) b a Hs Hi E)|apply IH; auto].
Qed.

Lemma opnd_bounds_within : forall s xs bs a, sstore s -> inst a s -> opnd_bounds s xs = Some bs ->
  within_all bs (map (fun o => osem o a) xs).
Proof.
  intros s xs; induction xs as [|x r IH]; intros bs a Hs Hi H; cbn [opnd_bounds] in H.
  - inversion H; constructor.
  - destruct (obounds s x) as [b|] eqn:E; [|discriminate]. cbn [obind] in H.
    destruct (opnd_bounds s r) as [br|] eqn:E2; [|discriminate]. cbn [obind] in H. inversion H; subst.
    simpl. constructor; [apply (obounds_within s x b a Hs Hi E)|apply IH; auto].
Qed.
Definition sumo (xs : list opnd) (a : asg) : Z := fold_right (fun x acc => osem x a + acc) 0 xs.
Lemma sumo_fold : forall xs a, sumo xs a = fold_right Z.add 0 (map (fun o => osem o a) xs).
Proof. induction xs; intros; simpl; [reflexivity|rewrite <- IHxs; reflexivity]. Qed.

(* the bounds `call` gives to the handle it returns (None: no handle, or a debug assertion fires) *)
Definition route_bounds (s : store) (r : route) : option (Z * Z) :=
  match r with
  | RAdd x y => bin_bounds add_bounds s x y
  | RSub x y => bin_bounds sub_bounds s x y
  | RMul x y => bin_bounds mul_bounds s x y
  | RMod x y => bin_bounds mod_bounds s x y
  | RAbs x => do bx <- obounds s x; Some (abs_bounds bx)
  | RMin xs => do bs <- var_bounds s xs; match bs with b0 :: br => Some (min_bounds b0 br) | [] => None end
  | RMax xs => do bs <- var_bounds s xs; match bs with b0 :: br => Some (max_bounds b0 br) | [] => None end
  | RSum xs => do bs <- var_bounds s xs; Some (sum_bounds_l bs)
  | RBoolAnd _ | RBoolOr _ | RBoolNot _ | RBoolXor _ _ | RFAnd _ _ | RFOr _ _ | RFNot _ | RFXor _ _ | RBool2Int _ => Some (0, 1)
  | RFElement _ _ => Some (aux_lo, aux_hi)
  | RArrMin xs => do bs <- var_bounds s xs; match bs with b0 :: br => Some (min_bounds b0 br) | [] => None end
  | RArrMax xs => do bs <- var_bounds s xs; match bs with b0 :: br => Some (max_bounds b0 br) | [] => None end
  | RSumIter xs => do bs <- opnd_bounds s xs; Some (sum_bounds_l bs)
  | _ => None
  end.

Lemma sumv_fold : forall xs a, sumv xs a = fold_right Z.add 0 (map a xs).
Proof. induction xs; intros; simpl; [reflexivity|rewrite <- IHxs; reflexivity]. Qed.

Lemma b2z_01 : forall b, 0 <= b2z b <= 1. Proof. destruct b; simpl; lia. Qed.

Definition ovars (o : opnd) : list nat := match o with OV v => [v] | OC _ => [] end.
Definition route_vars (r : route) : list nat :=
  match r with
  | RAdd x y | RSub x y | RMul x y | RMod x y => ovars x ++ ovars y
  | RAbs x => ovars x
  | RMin xs | RMax xs | RSum xs | RAllDiff xs | RAllEq xs | RBoolAnd xs | RBoolOr xs => xs
  | RElement arr i v => arr ++ [i; v]
  | RTable xs _ => xs
  | RCount xs t c => xs ++ ovars t ++ [c]
  | RCard _ xs _ _ => xs
  | RGcc xs _ cnts => xs ++ cnts
  | RBetween l m u => [l; m; u]
  | RBoolNot x | RFNot x | RBool2Int x => [x]
  | RBoolXor x y | RImplies x y | RFAnd x y | RFOr x y | RFXor x y | RFImplies x y => [x; y]
  | RClause p n => p ++ n
  | RReif _ x y b => [x; y; b]
  | RLinReif _ _ xs _ b => xs ++ [b]
  | RFElement arr i => arr ++ [i]
  | RCumulative st _ _ _ => st
  | RArrMin xs | RArrMax xs => xs
  | RSumIter xs => flat_map ovars xs
  | RElement2D mat ri ci vl => concat mat ++ [ri; ci; vl]
  | RElement3D cube di ri ci vl => concat (concat cube) ++ [di; ri; ci; vl]
  | RTable2D mat _ => concat mat
  | RTable3D cube _ => concat (concat cube)
  end.
Definition rscoped (n : nat) (r : route) : Prop := forall x, In x (route_vars r) -> (x < n)%nat.

(* result_bounds_cover: outside the class kf_felement_bounds (and for bool2int with a 0/1 operand) the
   bounds of the returned variable contain every value the function takes on the operand domains *)
Theorem result_bounds_cover : forall r s b a v,
  sstore s -> inst a s -> route_bounds s r = Some b -> route_fun r a = Some v ->
  kf_felement_bounds r s = false -> kf_nonbool_arg r s = false ->
  rscoped (length s) r ->
  within b v.
Proof.
  intros r s b a v Hs Hi Hb Hf Hk Hnb Hsc.
  destruct r; simpl in Hb, Hf; try discriminate;
    try (inversion Hb; inversion Hf; subst; unfold within; simpl; apply b2z_01).
  - (* add *) unfold bin_bounds in Hb. destruct (obounds s x) eqn:Ex; [|discriminate]; destruct (obounds s y) eqn:Ey; [|discriminate].
    simpl in Hb; inversion Hb; inversion Hf; subst. apply add_bounds_cover; eapply obounds_within; eauto.
  - unfold bin_bounds in Hb. destruct (obounds s x) eqn:Ex; [|discriminate]; destruct (obounds s y) eqn:Ey; [|discriminate].
    simpl in Hb; inversion Hb; inversion Hf; subst. apply sub_bounds_cover; eapply obounds_within; eauto.
  - unfold bin_bounds in Hb. destruct (obounds s x) eqn:Ex; [|discriminate]; destruct (obounds s y) eqn:Ey; [|discriminate].
    simpl in Hb; inversion Hb; inversion Hf; subst. apply mul_bounds_cover; eapply obounds_within; eauto.
  - unfold bin_bounds in Hb. destruct (obounds s x) eqn:Ex; [|discriminate]; destruct (obounds s y) eqn:Ey; [|discriminate].
    simpl in Hb; inversion Hb; subst. destruct (osem y a =? 0) eqn:E0; [discriminate|]. inversion Hf; subst.
    apply Z.eqb_neq in E0. apply mod_bounds_cover; auto; eapply obounds_within; eauto.
  - destruct (obounds s x) eqn:Ex; [|discriminate]. simpl in Hb; inversion Hb; inversion Hf; subst.
    apply abs_bounds_cover; eapply obounds_within; eauto.
  - (* min *) destruct (var_bounds s xs) as [bs|] eqn:E; [|discriminate]. simpl in Hb.
    pose proof (var_bounds_within s xs bs a Hs Hi E) as W.
    destruct xs as [|v0 rest]; [discriminate|]. inversion Hf; subst. simpl in W. inversion W; subst.
    inversion Hb; subst. apply min_bounds_cover; assumption.
  - destruct (var_bounds s xs) as [bs|] eqn:E; [|discriminate]. simpl in Hb.
    pose proof (var_bounds_within s xs bs a Hs Hi E) as W.
    destruct xs as [|v0 rest]; [discriminate|]. inversion Hf; subst. simpl in W. inversion W; subst.
    inversion Hb; subst. apply max_bounds_cover; assumption.
  - destruct (var_bounds s xs) as [bs|] eqn:E; [|discriminate]. simpl in Hb. inversion Hb; inversion Hf; subst.
    rewrite sumv_fold. apply sum_bounds_cover. eapply var_bounds_within; eauto.
  - (* felement *) inversion Hb; subst. unfold within; simpl.
    destruct (0 <=? a idx); [|discriminate]. destruct (nth_error arr (Z.to_nat (a idx))) as [x|] eqn:En; [|discriminate].
    inversion Hf; subst. apply nth_error_In in En.
    unfold kf_felement_bounds in Hk. destruct (existsb _ arr) eqn:Ee; [discriminate|].
    assert (Hx : existsb (fun v0 => negb (in_aux v0)) (sget s x) = false).
    { destruct (existsb (fun v0 => negb (in_aux v0)) (sget s x)) eqn:E2; [|reflexivity].
      assert (existsb (fun x0 => existsb (fun v0 => negb (in_aux v0)) (sget s x0)) arr = true)
        by (apply existsb_exists; exists x; split; assumption). congruence. }
    destruct (Nat.lt_ge_cases x (length s)) as [Hlt|Hge].
    + specialize (Hi x Hlt).
      assert (in_aux (a x) = true).
      { destruct (in_aux (a x)) eqn:E3; [reflexivity|].
        assert (existsb (fun v0 => negb (in_aux v0)) (sget s x) = true)
          by (apply existsb_exists; exists (a x); split; [exact Hi|rewrite E3; reflexivity]). congruence. }
      unfold in_aux in H. apply andb_true_iff in H. destruct H as [H1 H2]. apply Z.leb_le in H1, H2. lia.
    + exfalso. specialize (Hsc x). simpl in Hsc. assert (x < length s)%nat by (apply Hsc; apply in_or_app; left; exact En). lia.
  - (* bool2int *) inversion Hb; inversion Hf; subst. unfold within; simpl.
    unfold kf_nonbool_arg in Hnb. simpl in Hnb. rewrite andb_true_r in Hnb. apply negb_false_iff in Hnb.
    assert (Hlt : (b0 < length s)%nat) by (apply Hsc; simpl; auto).
    specialize (Hi b0 Hlt). unfold is_bool_dom in Hnb. rewrite forallb_forall in Hnb. specialize (Hnb _ Hi).
    unfold is01 in Hnb. apply orb_true_iff in Hnb. destruct Hnb as [E|E]; apply Z.eqb_eq in E; lia.
  - (* array_int_minimum *) destruct (var_bounds s xs) as [bs|] eqn:E; [|discriminate]. simpl in Hb.
    pose proof (var_bounds_within s xs bs a Hs Hi E) as W.
    destruct xs as [|v0 rest]; [discriminate|]. inversion Hf; subst. simpl in W. inversion W; subst.
    inversion Hb; subst. apply min_bounds_cover; assumption.
  - (* array_int_maximum *) destruct (var_bounds s xs) as [bs|] eqn:E; [|discriminate]. simpl in Hb.
    pose proof (var_bounds_within s xs bs a Hs Hi E) as W.
    destruct xs as [|v0 rest]; [discriminate|]. inversion Hf; subst. simpl in W. inversion W; subst.
    inversion Hb; subst. apply max_bounds_cover; assumption.
  - (* sum_iter *) destruct (opnd_bounds s xs) as [bs|] eqn:E; [|discriminate]. simpl in Hb. inversion Hb; inversion Hf; subst.
    fold (sumo xs a). rewrite sumo_fold. apply sum_bounds_cover. eapply opnd_bounds_within; eauto.
Qed.

(* ------------------------------------------------------------------------------------------ *)
(* 2. scoping and agreement of the descriptions' meanings *)
Definition lt_all (n : nat) (xs : list nat) : Prop := Forall (fun v => (v < n)%nat) xs.
Definition rdscoped (n : nat) (p : rdesc) : Prop :=
  match p with
  | PB q => pscoped n q
  | PSum xs s => Forall (vscoped n) xs /\ (s < n)%nat
  | PAbs x s => vscoped n x /\ (s < n)%nat
  | PMin xs r | PMax xs r | PBand xs r | PBor xs r => lt_all n xs /\ (r < n)%nat
  | PAllDiff xs | PAllEq xs | PTable xs _ | PCard _ xs _ _ => lt_all n xs
  | PElement arr i v => lt_all n arr /\ (i < n)%nat /\ (v < n)%nat
  | PCount xs t c => lt_all n xs /\ vscoped n t /\ (c < n)%nat
  | PBetween l m u | PBxor l m u | PReif _ l m u => (l < n)%nat /\ (m < n)%nat /\ (u < n)%nat
  | PBnot o r => (o < n)%nat /\ (r < n)%nat
  | PLinReif _ _ xs _ b => lt_all n xs /\ (b < n)%nat
  end.

Lemma lt_all_le : forall n m xs, (n <= m)%nat -> lt_all n xs -> lt_all m xs.
Proof. intros; eapply Forall_lt_le; eauto. Qed.
Lemma rdscoped_le : forall n m p, (n <= m)%nat -> rdscoped n p -> rdscoped m p.
Proof.
  intros n m p L; destruct p; simpl; intros H;
  repeat match goal with H : _ /\ _ |- _ => destruct H end;
  repeat split; eauto using vscoped_le, lt_all_le, pscoped_le; try lia.
  eapply Forall_impl; [|eassumption]. intros; eapply vscoped_le; eauto.
Qed.

Section Agree.
  Variables (n : nat) (a a' : asg).
  Hypothesis Ha : agree n a a'.

  Lemma map_agree : forall xs, lt_all n xs -> map a' xs = map a xs.
  Proof. induction 1; simpl; [reflexivity|rewrite IHForall, (Ha x) by assumption; reflexivity]. Qed.
  Lemma forallb_agree : forall (f : Z -> bool) xs, lt_all n xs ->
    forallb (fun x => f (a' x)) xs = forallb (fun x => f (a x)) xs.
  Proof. induction 1; simpl; [reflexivity|rewrite IHForall, (Ha x) by assumption; reflexivity]. Qed.
  Lemma existsb_agree : forall (f : Z -> bool) xs, lt_all n xs ->
    existsb (fun x => f (a' x)) xs = existsb (fun x => f (a x)) xs.
  Proof. induction 1; simpl; [reflexivity|rewrite IHForall, (Ha x) by assumption; reflexivity]. Qed.
  Lemma occurrences_agree : forall xs k, lt_all n xs -> occurrences xs k a' = occurrences xs k a.
  Proof.
    intros xs k H; unfold occurrences, countb. f_equal. f_equal.
    induction H; simpl; [reflexivity|]. rewrite (Ha x) by assumption. destruct (a x =? k); rewrite IHForall; reflexivity.
  Qed.
  Lemma sum_sem_agree : forall xs, Forall (vscoped n) xs -> sum_sem xs a' = sum_sem xs a.
  Proof. induction 1; simpl; [reflexivity|]. rewrite IHForall, (vsem_agree n a a' x) by assumption. reflexivity. Qed.
  Lemma tuple_eq_agree : forall xs tp, lt_all n xs -> tuple_eq xs tp a' = tuple_eq xs tp a.
  Proof.
    intros xs tp H; unfold tuple_eq. f_equal. revert tp. induction H; intros tp; destruct tp; simpl; try reflexivity.
    rewrite (Ha x) by assumption. rewrite IHForall. reflexivity.
  Qed.
  Lemma nth_lt_all : forall arr k x, lt_all n arr -> nth_error arr k = Some x -> (x < n)%nat.
  Proof. intros arr k x H E. apply nth_error_In in E. unfold lt_all in H. rewrite Forall_forall in H. apply H; exact E. Qed.

  Lemma rsat_agree : forall p, rdscoped n p -> rsat p a' = rsat p a.
  Proof.
    intros p Hs. destruct p; unfold rsat; simpl in Hs;
      repeat match goal with H : _ /\ _ |- _ => destruct H end.
    - (* base *) destruct p; try (apply (psat_agree n a a' _ Hs Ha)).
      destruct op; apply (psat_agree n a a' (PCmpR _ x y b) Hs Ha).
    - simpl. rewrite sum_sem_agree, (Ha s) by assumption. reflexivity.
    - simpl. rewrite (vsem_agree n a a' x), (Ha s) by assumption. reflexivity.
    - simpl. unfold min_sem. destruct xs as [|v0 rest]; [reflexivity|]. inversion H; subst.
      rewrite (Ha r), (Ha v0), (map_agree rest) by assumption. reflexivity.
    - simpl. unfold max_sem. destruct xs as [|v0 rest]; [reflexivity|]. inversion H; subst.
      rewrite (Ha r), (Ha v0), (map_agree rest) by assumption. reflexivity.
    - simpl. rewrite (map_agree xs) by assumption. reflexivity.
    - simpl. rewrite (map_agree xs) by assumption. reflexivity.
    - simpl. rewrite (Ha idx), (Ha vl) by assumption.
      destruct (nth_error arr (Z.to_nat (a idx))) as [x|] eqn:E; [|reflexivity].
      rewrite (Ha x) by (eapply nth_lt_all; eauto). reflexivity.
    - simpl. induction tuples as [|tp r IH]; simpl; [reflexivity|]. rewrite tuple_eq_agree, IH by assumption. reflexivity.
    - simpl. rewrite (Ha cv), (vsem_agree n a a' t), occurrences_agree by assumption. reflexivity.
    - destruct k; simpl; rewrite occurrences_agree by assumption; reflexivity.
    - simpl. rewrite (Ha l), (Ha m), (Ha u) by assumption. reflexivity.
    - simpl. rewrite (Ha r), (forallb_agree tr xs) by assumption. reflexivity.
    - simpl. rewrite (Ha r), (existsb_agree tr xs) by assumption. reflexivity.
    - simpl. rewrite (Ha o), (Ha r) by assumption. reflexivity.
    - simpl. rewrite (Ha x), (Ha y), (Ha r) by assumption. reflexivity.
    - destruct op; simpl; rewrite (Ha x), (Ha y), (Ha b) by assumption; reflexivity.
    - destruct op; simpl; rewrite (Ha b), (lin_sem_agree n a a' cs xs) by assumption; reflexivity.
  Qed.
End Agree.

Definition rallsat (ps : list rdesc) (a : asg) : Prop := forall p, In p ps -> rsat p a = true.
Lemma rallsat_app : forall p q a, rallsat (p ++ q) a <-> rallsat p a /\ rallsat q a.
Proof.
  intros p q a; unfold rallsat; split.
  - intro H; split; intros x Hx; apply H; apply in_or_app; auto.
  - intros [H1 H2] x Hx; apply in_app_or in Hx; destruct Hx; auto.
Qed.
Lemma rallsat_one : forall p a, rallsat [p] a <-> rsat p a = true.
Proof. intros p a; unfold rallsat; split; [intro H; apply H; left; reflexivity|intros H x [<-|[]]; exact H]. Qed.
Lemma rallsat_nil : forall a, rallsat [] a. Proof. intros a p []. Qed.
Lemma rallsat_agree : forall n a a' ps, Forall (rdscoped n) ps -> agree n a a' -> rallsat ps a -> rallsat ps a'.
Proof.
  intros n a a' ps Hs Ha H p Hp. rewrite Forall_forall in Hs.
  rewrite (rsat_agree n a a' Ha p (Hs p Hp)). apply H; exact Hp.
Qed.

(* ------------------------------------------------------------------------------------------ *)
(* 3. exact lowering steps: st' adds propagators np (and variables) such that, for assignments over
   the whole index space, "inside st' and satisfying np" is exactly "inside st and P" *)
Definition rexact (st st' : rlst) (P : asg -> Prop) : Prop :=
  (rnvars st <= rnvars st')%nat /\
  exists np, snd st' = snd st ++ np /\ Forall (rdscoped (rnvars st')) np /\
    forall a, (inst a (fst st') /\ rallsat np a) <-> (inst a (fst st) /\ P a).

Lemma rexact_refl : forall st, rexact st st (fun _ => True).
Proof.
  intro st; split; [lia|]. exists []. rewrite app_nil_r. split; [reflexivity|]. split; [constructor|].
  intro a; split; intros [H _]; split; auto using rallsat_nil.
Qed.

Lemma rexact_weaken : forall st st' (P Q : asg -> Prop),
  (forall a, inst a (fst st) -> (P a <-> Q a)) -> rexact st st' P -> rexact st st' Q.
Proof.
  intros st st' P Q E [Hn [np [H1 [H2 H3]]]]; split; [exact Hn|]. exists np; split; [exact H1|]. split; [exact H2|].
  intro a. rewrite (H3 a). split; intros [Hi HP]; (split; [exact Hi|apply (E a Hi); exact HP]).
Qed.

Lemma rexact_trans : forall st st1 st2 (P Q : asg -> Prop),
  rexact st st1 P -> rexact st1 st2 Q -> rexact st st2 (fun a => P a /\ Q a).
Proof.
  intros st st1 st2 P Q [Hn1 [np1 [E1 [S1 X1]]]] [Hn2 [np2 [E2 [S2 X2]]]].
  split; [lia|]. exists (np1 ++ np2). split; [rewrite E2, E1, app_assoc; reflexivity|]. split.
  - apply Forall_app; split; [|exact S2]. eapply Forall_impl; [|exact S1]. intros; eapply rdscoped_le; eauto.
  - intro a. rewrite rallsat_app. split.
    + intros [Hi [Hs1 Hs2]]. destruct (proj1 (X2 a) (conj Hi Hs2)) as [Hi1 HQ].
      destruct (proj1 (X1 a) (conj Hi1 Hs1)) as [Hi0 HP]. auto.
    + intros [Hi [HP HQ]]. destruct (proj2 (X1 a) (conj Hi HP)) as [Hi1 Hs1].
      destruct (proj2 (X2 a) (conj Hi1 HQ)) as [Hi2 Hs2]. auto.
Qed.

Lemma rexact_push : forall st p, rdscoped (rnvars st) p -> rexact st (rpush p st) (fun a => rsat p a = true).
Proof.
  intros st p Hs; split; [unfold rnvars, rpush; simpl; lia|]. exists [p]. unfold rpush; simpl.
  split; [reflexivity|]. split; [constructor; [exact Hs|constructor]|].
  intro a. rewrite rallsat_one. tauto.
Qed.

Lemma rnvars_new : forall d st, rnvars (snd (rnew_var d st)) = S (rnvars st).
Proof. intros; unfold rnew_var, rnvars; simpl; rewrite app_length; simpl; lia. Qed.

Lemma rexact_newvar : forall d st, rexact st (snd (rnew_var d st)) (fun a => In (a (rnvars st)) d).
Proof.
  intros d st; split; [rewrite rnvars_new; lia|]. exists []. unfold rnew_var; simpl. rewrite app_nil_r.
  split; [reflexivity|]. split; [constructor|]. intro a. rewrite inst_app. unfold rnvars.
  split; [intros [[H1 H2] _]|intros [H1 H2]]; auto using rallsat_nil.
Qed.

Definition not_oversize (b : Z * Z) : Prop := snd b - fst b + 1 <= Selen.Generated.Consts.max_sparse_set_domain_size.
Lemma rdrange_drange : forall b, not_oversize b -> rdrange (fst b) (snd b) = drange (fst b) (snd b).
Proof. unfold not_oversize, rdrange; intros b H. destruct (_ <? _) eqn:E; [apply Z.ltb_lt in E; lia|reflexivity]. Qed.

(* a result variable with bounds b followed by the propagator mk r *)
Lemma rexact_result : forall b mk st, not_oversize b ->
  rdscoped (S (rnvars st)) (mk (rnvars st)) ->
  rexact st (snd (result_var b mk st)) (fun a => within b (a (rnvars st)) /\ rsat (mk (rnvars st)) a = true).
Proof.
  intros b mk st Hb Hs. unfold result_var. rewrite (rdrange_drange b Hb).
  pose proof (rexact_newvar (drange (fst b) (snd b)) st) as N.
  destruct (rnew_var (drange (fst b) (snd b)) st) as [r st1] eqn:E.
  assert (Er : r = rnvars st) by (unfold rnew_var in E; inversion E; reflexivity). subst r. simpl snd in *.
  assert (En : rnvars st1 = S (rnvars st)) by (unfold rnew_var in E; inversion E; unfold rnvars; simpl; rewrite app_length; simpl; lia).
  eapply rexact_weaken; [|eapply rexact_trans; [exact N|apply rexact_push; rewrite En; exact Hs]].
  intros a _. simpl. rewrite drange_In. unfold within. tauto.
Qed.

(* ------------------------------------------------------------------------------------------ *)
(* 4. the routes that return one result variable created by a single propagator *)
Definition simple_ret (r : route) : bool :=
  match r with
  | RAdd _ _ | RSub _ _ | RMul _ _ | RMod _ _ | RAbs _ | RSum _
  | RBoolAnd _ | RBoolOr _ | RBoolNot _ | RBoolXor _ _ | RFAnd _ _ | RFOr _ _ | RFNot _ | RFElement _ _ | RBool2Int _ => true
  | RMin (_ :: _) | RMax (_ :: _) => true
  | RArrMin (_ :: _) | RArrMax (_ :: _) | RSumIter _ => true
  | _ => false
  end.
Definition route_desc (r : route) (n : nat) : rdesc :=
  match r with
  | RAdd x y => PB (PAdd (oview x) (oview y) n)
  | RSub x y => PB (p_sub (oview x) (oview y) n)
  | RMul x y => PB (PMul (oview x) (oview y) n)
  | RMod x y => PB (PMod (oview x) (oview y) n)
  | RAbs x => PAbs (oview x) n
  | RMin xs => PMin xs n | RMax xs => PMax xs n
  | RSum xs => PSum (map VVar xs) n
  | RBoolAnd xs => PBand xs n | RBoolOr xs => PBor xs n
  | RBoolNot x | RFNot x => PBnot x n
  | RBoolXor x y => PBxor x y n
  | RFAnd x y => PBand [x; y] n | RFOr x y => PBor [x; y] n
  | RFElement arr i => PElement arr i n
  | RBool2Int b => PB (PEq (VVar n) (VVar b))
  | RArrMin xs => PMin xs n | RArrMax xs => PMax xs n
  | RSumIter xs => PSum (map oview xs) n
  | _ => PAllDiff []
  end.

Lemma call_simple_ret : forall r m, simple_ret r = true ->
  call r m = ret_result (route_bounds (fst (rst m)) r) (route_desc r) m.
Proof.
  intros r m H; destruct r; try discriminate; try reflexivity;
    try (destruct xs; [discriminate|reflexivity]).
Qed.

Lemma vsem_oview : forall o a, vsem (oview o) a = osem o a. Proof. destruct o; reflexivity. Qed.
Lemma sum_sem_vars : forall xs a, sum_sem (map VVar xs) a = sumv xs a.
Proof. induction xs; intros; simpl; [reflexivity|rewrite IHxs; reflexivity]. Qed.
Lemma sum_sem_opnds : forall xs a, sum_sem (map oview xs) a = sumo xs a.
Proof. induction xs; intros; simpl; [reflexivity|rewrite IHxs, vsem_oview; reflexivity]. Qed.

Lemma b2z_tr : forall b, tr (b2z b) = b. Proof. destruct b; reflexivity. Qed.
Lemma is01_cases : forall z, 0 <= z <= 1 -> z = 0 \/ z = 1. Proof. intros; lia. Qed.

(* the boolean operands of the call take 0/1 values at assignment a *)
Definition bool_ok (r : route) (a : asg) : Prop := forall x, In x (bool_args r) -> a x = 0 \/ a x = 1.

Lemma nonbool_bool_ok : forall r s a, kf_nonbool_arg r s = false -> rscoped (length s) r -> inst a s ->
  (forall x, In x (bool_args r) -> In x (route_vars r)) -> bool_ok r a.
Proof.
  intros r s a Hk Hsc Hi Hsub x Hx. unfold kf_nonbool_arg in Hk. apply negb_false_iff in Hk.
  rewrite forallb_forall in Hk. specialize (Hk x Hx). unfold is_bool_dom in Hk. rewrite forallb_forall in Hk.
  assert (Hlt : (x < length s)%nat) by (apply Hsc; apply Hsub; exact Hx).
  specialize (Hk _ (Hi x Hlt)). unfold is01 in Hk. apply orb_true_iff in Hk. destruct Hk as [E|E]; apply Z.eqb_eq in E; auto.
Qed.

Ltac b2p :=
  repeat match goal with
  | H : _ && _ = true |- _ => apply andb_true_iff in H; destruct H
  | H : (_ =? _) = true |- _ => apply Z.eqb_eq in H
  | H : (_ <=? _) = true |- _ => apply Z.leb_le in H
  | H : negb _ = true |- _ => apply negb_true_iff in H
  | H : (_ =? _) = false |- _ => apply Z.eqb_neq in H
  | H : Bool.eqb _ _ = true |- _ => apply Bool.eqb_prop in H
  end.

Ltac boolcase Hw :=
  unfold within in Hw; simpl in Hw; b2p; simpl; f_equal;
  repeat match goal with H : tr _ = _ |- _ => rewrite ?andb_true_r, ?orb_false_r in H; rewrite <- H; clear H end;
  let E := fresh "E" in destruct (is01_cases _ Hw) as [E|E]; rewrite E; reflexivity.

(* soundness: a value in 0..1 / in the bounds, and the description's meaning, give the function value *)
Lemma route_desc_sound : forall r n a b, simple_ret r = true -> bool_ok r a ->
  (match r with RBoolAnd _ | RBoolOr _ | RBoolNot _ | RBoolXor _ _ | RFAnd _ _ | RFOr _ _ | RFNot _ => b = (0, 1) | _ => True end) ->
  within b (a n) -> rsat (route_desc r n) a = true -> route_fun r a = Some (a n).
Proof.
  intros r n a b Hs Hb Hbb Hw H. destruct r; try discriminate; unfold rsat in H; simpl in H;
    try (rewrite ?vsem_oview in H).
  - b2p. simpl. f_equal. lia.
  - unfold p_sub in H. simpl in H. rewrite ?vsem_oview in H. b2p. simpl. f_equal. lia.
  - b2p. simpl. f_equal. lia.
  - unfold mod_sem in H. rewrite ?vsem_oview in H. b2p. simpl. apply Z.eqb_neq in H. rewrite H. f_equal. lia.
  - b2p. simpl. f_equal. lia.
  - destruct xs as [|v0 rest]; [discriminate|]. unfold min_sem in H. b2p. simpl. f_equal. lia.
  - destruct xs as [|v0 rest]; [discriminate|]. unfold max_sem in H. b2p. simpl. f_equal. lia.
  - rewrite sum_sem_vars in H. b2p. simpl. f_equal. lia.
  - subst b; boolcase Hw.
  - subst b; boolcase Hw.
  - subst b; boolcase Hw.
  - subst b; boolcase Hw.
  - subst b; boolcase Hw.
  - subst b; boolcase Hw.
  - subst b; boolcase Hw.
  - (* felement *) simpl. b2p. destruct (0 <=? a idx) eqn:E0; [|apply Z.leb_gt in E0; lia].
    destruct (nth_error arr (Z.to_nat (a idx))); [|discriminate]. b2p. f_equal. lia.
  - b2p. simpl. f_equal. lia.
  - destruct xs as [|v0 rest]; [discriminate|]. unfold min_sem in H. b2p. simpl. f_equal. lia.
  - destruct xs as [|v0 rest]; [discriminate|]. unfold max_sem in H. b2p. simpl. f_equal. lia.
  - rewrite sum_sem_opnds in H. b2p. simpl. fold (sumo xs a). f_equal. lia.
Qed.

Lemma is01_b2z : forall b, is01 (b2z b) = true. Proof. destruct b; reflexivity. Qed.

Lemma route_desc_complete : forall r n a, simple_ret r = true -> bool_ok r a ->
  route_fun r a = Some (a n) -> rsat (route_desc r n) a = true.
Proof.
  intros r n a Hs Hb H. destruct r; try discriminate; unfold rsat; simpl in H |- *; rewrite ?vsem_oview.
  - inversion H as [E]. apply Z.eqb_eq; lia.
  - inversion H as [E]. unfold p_sub; simpl. rewrite ?vsem_oview. apply Z.eqb_eq; lia.
  - inversion H as [E]. apply Z.eqb_eq; lia.
  - unfold mod_sem. rewrite ?vsem_oview. destruct (osem y a =? 0) eqn:E0; [discriminate|]. inversion H as [E]. simpl.
    apply Z.eqb_eq; reflexivity.
  - inversion H as [E]. apply Z.eqb_eq; lia.
  - destruct xs as [|v0 rest]; [discriminate|]. inversion H as [E]. unfold min_sem. apply Z.eqb_eq; lia.
  - destruct xs as [|v0 rest]; [discriminate|]. inversion H as [E]. unfold max_sem. apply Z.eqb_eq; lia.
  - inversion H as [E]. rewrite sum_sem_vars. apply Z.eqb_eq; lia.
  - inversion H as [E]. rewrite b2z_tr, is01_b2z, Bool.eqb_reflx. destruct xs; reflexivity.
  - inversion H as [E]. rewrite b2z_tr, is01_b2z, Bool.eqb_reflx. destruct xs; reflexivity.
  - inversion H as [E]. rewrite b2z_tr, is01_b2z, Bool.eqb_reflx. simpl.
    destruct (Hb x (or_introl eq_refl)) as [E0|E0]; rewrite E0; reflexivity.
  - inversion H as [E]. rewrite b2z_tr, is01_b2z, Bool.eqb_reflx. reflexivity.
  - inversion H as [E]. rewrite b2z_tr, andb_true_r, Bool.eqb_reflx. reflexivity.
  - inversion H as [E]. rewrite b2z_tr, orb_false_r, Bool.eqb_reflx. reflexivity.
  - inversion H as [E]. rewrite b2z_tr, is01_b2z, Bool.eqb_reflx. simpl.
    destruct (Hb a0 (or_introl eq_refl)) as [E0|E0]; rewrite E0; reflexivity.
  - destruct (0 <=? a idx); [|discriminate]. destruct (nth_error arr (Z.to_nat (a idx))); [|discriminate].
    inversion H as [E]. simpl. apply Z.eqb_eq; reflexivity.
  - inversion H as [E]. apply Z.eqb_eq; reflexivity.
  - destruct xs as [|v0 rest]; [discriminate|]. inversion H as [E]. unfold min_sem. apply Z.eqb_eq; lia.
  - destruct xs as [|v0 rest]; [discriminate|]. inversion H as [E]. unfold max_sem. apply Z.eqb_eq; lia.
  - inversion H as [E]. rewrite sum_sem_opnds. unfold sumo. apply Z.eqb_eq; lia.
Qed.

Lemma vscoped_oview : forall n o, (forall x, In x (ovars o) -> (x < n)%nat) -> vscoped n (oview o).
Proof. intros n [v|c] H; unfold vscoped; simpl; [apply H; simpl; auto|exact I]. Qed.
Lemma lt_all_of : forall n xs, (forall x, In x xs -> (x < n)%nat) -> lt_all n xs.
Proof. intros; apply Forall_forall; assumption. Qed.

Lemma route_desc_scoped : forall r n, simple_ret r = true -> rscoped n r -> rdscoped (S n) (route_desc r n).
Proof.
  intros r n Hs Hsc. unfold rscoped in Hsc.
  assert (L : forall xs, (forall x, In x xs -> In x (route_vars r)) -> lt_all (S n) xs).
  { intros xs H; apply lt_all_of; intros x Hx. specialize (Hsc x (H x Hx)). lia. }
  assert (V : forall o, (forall x, In x (ovars o) -> In x (route_vars r)) -> vscoped (S n) (oview o)).
  { intros o H; apply vscoped_oview; intros x Hx. specialize (Hsc x (H x Hx)). lia. }
  destruct r; try discriminate; simpl in *;
    repeat split; try lia;
    try (apply V; intros; apply in_or_app; auto; fail);
    try (apply V; intros; assumption);
    try (apply L; intros; simpl; auto; fail);
    try (apply L; intros; apply in_or_app; auto; fail).
  - apply Forall_forall. intros w Hw. apply in_map_iff in Hw. destruct Hw as [x [<- Hx]]. unfold vscoped; simpl.
    specialize (Hsc x Hx). lia.
  - assert (x < n)%nat by (apply Hsc; auto). lia.
  - assert (x < n)%nat by (apply Hsc; auto). lia.
  - assert (y < n)%nat by (apply Hsc; auto). lia.
  - assert (a < n)%nat by (apply Hsc; auto). lia.
  - assert (idx < n)%nat by (apply Hsc; apply in_or_app; right; simpl; auto). lia.
  - unfold vscoped; simpl. lia.
  - unfold vscoped; simpl. assert (b < n)%nat by (apply Hsc; auto). lia.
  - apply Forall_forall. intros w Hw. apply in_map_iff in Hw. destruct Hw as [o [<- Ho]].
    apply V. intros x Hx. apply in_flat_map. exists o; split; assumption.
Qed.

Lemma bool_args_sub : forall r x, In x (bool_args r) -> In x (route_vars r).
Proof.
  intros r x H; destruct r; simpl in *; try contradiction; auto;
    try (apply in_or_app; right; simpl; tauto); try tauto.
Qed.

Lemma route_bounds_bool : forall s r b, route_bounds s r = Some b ->
  match r with RBoolAnd _ | RBoolOr _ | RBoolNot _ | RBoolXor _ _ | RFAnd _ _ | RFOr _ _ | RFNot _ => b = (0, 1) | _ => True end.
Proof. intros s r b H; destruct r; simpl in *; try exact I; inversion H; reflexivity. Qed.

Lemma sumo_agree : forall n a a' xs, agree n a a' -> (forall x, In x (flat_map ovars xs) -> (x < n)%nat) ->
  sumo xs a' = sumo xs a.
Proof.
  intros n a a' xs Ha; induction xs as [|o r IH]; intro H; [reflexivity|]. simpl in *.
  rewrite IH by (intros x Hx; apply H; apply in_or_app; right; exact Hx).
  destruct o as [v|c]; simpl; [|reflexivity]. rewrite (Ha v); [reflexivity|]. apply H. simpl. auto.
Qed.

Lemma route_fun_agree : forall r n a a', rscoped n r -> agree n a a' -> route_fun r a' = route_fun r a.
Proof.
  intros r n a a' Hsc Ha. unfold rscoped in Hsc.
  assert (O : forall o, (forall x, In x (ovars o) -> In x (route_vars r)) -> osem o a' = osem o a).
  { intros [v|c] H; simpl; [apply Ha; apply Hsc; apply H; simpl; auto|reflexivity]. }
  assert (L : forall xs, (forall x, In x xs -> In x (route_vars r)) -> lt_all n xs).
  { intros xs H; apply lt_all_of; intros x Hx. apply Hsc, H, Hx. }
  destruct r; simpl in *; try reflexivity;
    try (rewrite !O by (intros; apply in_or_app; auto); reflexivity);
    try (rewrite !O by (intros; assumption); reflexivity).
  - destruct xs as [|v0 rest]; [reflexivity|]. rewrite (Ha v0) by (apply Hsc; simpl; auto).
    rewrite (map_agree n a a' Ha rest) by (apply L; intros; simpl; auto). reflexivity.
  - destruct xs as [|v0 rest]; [reflexivity|]. rewrite (Ha v0) by (apply Hsc; simpl; auto).
    rewrite (map_agree n a a' Ha rest) by (apply L; intros; simpl; auto). reflexivity.
  - rewrite !sumv_fold, (map_agree n a a' Ha xs) by (apply L; auto). reflexivity.
  - rewrite (forallb_agree n a a' Ha tr xs) by (apply L; auto). reflexivity.
  - rewrite (existsb_agree n a a' Ha tr xs) by (apply L; auto). reflexivity.
  - rewrite (Ha x) by (apply Hsc; auto). reflexivity.
  - rewrite (Ha x), (Ha y) by (apply Hsc; auto). reflexivity.
  - rewrite (Ha a0), (Ha b) by (apply Hsc; auto). reflexivity.
  - rewrite (Ha a0), (Ha b) by (apply Hsc; auto). reflexivity.
  - rewrite (Ha a0) by (apply Hsc; auto). reflexivity.
  - rewrite (Ha a0), (Ha b) by (apply Hsc; auto). reflexivity.
  - rewrite (Ha idx) by (apply Hsc; apply in_or_app; right; simpl; auto).
    destruct (0 <=? a idx); [|reflexivity]. destruct (nth_error arr (Z.to_nat (a idx))) as [x|] eqn:E; [|reflexivity].
    rewrite (Ha x); [reflexivity|]. apply Hsc. apply in_or_app; left. eapply nth_error_In; eauto.
  - rewrite (Ha b) by (apply Hsc; auto). reflexivity.
  - destruct xs as [|v0 rest]; [reflexivity|]. rewrite (Ha v0) by (apply Hsc; simpl; auto).
    rewrite (map_agree n a a' Ha rest) by (apply L; intros; simpl; auto). reflexivity.
  - destruct xs as [|v0 rest]; [reflexivity|]. rewrite (Ha v0) by (apply Hsc; simpl; auto).
    rewrite (map_agree n a a' Ha rest) by (apply L; intros; simpl; auto). reflexivity.
  - f_equal. apply (sumo_agree n); assumption.
Qed.

(* ---- route_lower_denotes for the routes returning one result variable ---- *)
Theorem call_ret_exact : forall r m b,
  simple_ret r = true -> rscoped (rnvars (rst m)) r -> sstore (fst (rst m)) ->
  route_bounds (fst (rst m)) r = Some b -> not_oversize b ->
  kf_felement_bounds r (fst (rst m)) = false -> kf_nonbool_arg r (fst (rst m)) = false ->
  let n := rnvars (rst m) in
  ruser (call r m) = ruser m ++ [n] /\ rpanic (call r m) = rpanic m /\
  rexact (rst m) (rst (call r m)) (fun a => route_sem r n a = true).
Proof.
  intros r m b Hs Hsc Hss Hb Hov Hkf Hnb n.
  rewrite (call_simple_ret r m Hs), Hb. unfold ret_result.
  pose proof (rexact_result b (route_desc r) (rst m) Hov (route_desc_scoped r n Hs Hsc)) as X.
  destruct (result_var b (route_desc r) (rst m)) as [r0 st'] eqn:E.
  assert (Er : r0 = n) by (unfold result_var, rnew_var in E; inversion E; reflexivity). subst r0.
  simpl. split; [reflexivity|]. split; [reflexivity|].
  eapply rexact_weaken; [|exact X]. intros a Hi. fold n.
  assert (Hbo : bool_ok r a).
  { apply (nonbool_bool_ok r (fst (rst m)) a Hnb Hsc Hi). apply bool_args_sub. }
  assert (Hret : returns r = true) by (destruct r; try discriminate; reflexivity).
  unfold route_sem. rewrite Hret. split.
  - intros [Hw Hsat]. rewrite (route_desc_sound r n a b Hs Hbo (route_bounds_bool _ r b Hb) Hw Hsat).
    apply Z.eqb_refl.
  - intro H. destruct (route_fun r a) as [v|] eqn:Ef; [|discriminate]. apply Z.eqb_eq in H. subst v.
    split; [|apply route_desc_complete; assumption].
    eapply result_bounds_cover; eauto.
Qed.

(* ---- the routes that push one propagator on existing variables ---- *)
Definition direct (r : route) : bool :=
  match r with
  | RAllDiff _ | RAllEq _ | RElement _ _ _ | RCount _ _ _ | RCard _ _ _ _ | RBetween _ _ _ | RReif _ _ _ _ => true
  | RTable xs ts => table_okb xs ts
  | _ => false
  end.
Definition direct_desc (r : route) : rdesc :=
  match r with
  | RAllDiff xs => PAllDiff xs | RAllEq xs => PAllEq xs
  | RElement arr i v => PElement arr i v
  | RTable xs ts => PTable xs ts
  | RCount xs t c => PCount xs (oview t) c
  | RCard k xs v n => PCard k xs v n
  | RBetween l m u => PBetween l m u
  | RReif OGt x y b => PReif OLt y x b
  | RReif OGe x y b => PReif OLe y x b
  | RReif op x y b => PReif op x y b
  | _ => PAllDiff []
  end.

Lemma call_direct : forall r m, direct r = true -> call r m = with_st m (rpush (direct_desc r) (rst m)).
Proof.
  intros r m H; destruct r; try discriminate; try reflexivity.
  all: try (simpl in H |- *; rewrite H; reflexivity); try (destruct op; reflexivity).
Qed.

Lemma direct_desc_sat : forall r n a, direct r = true -> rsat (direct_desc r) a = route_sem r n a.
Proof.
  intros r n a H; destruct r; try discriminate; unfold rsat, route_sem; simpl; try reflexivity.
  all: try (rewrite vsem_oview; reflexivity); try (destruct k; reflexivity); try (destruct op; reflexivity).
Qed.

Lemma direct_desc_scoped : forall r n, direct r = true -> rscoped n r -> rdscoped n (direct_desc r).
Proof.
  intros r n H Hsc. unfold rscoped in Hsc.
  assert (L : forall xs, (forall x, In x xs -> In x (route_vars r)) -> lt_all n xs).
  { intros xs Hx; apply lt_all_of; intros x Hi. apply Hsc, Hx, Hi. }
  destruct r; try discriminate; simpl in *;
    repeat split;
    try (apply L; intros; auto; fail);
    try (apply L; intros; apply in_or_app; auto; fail);
    try (apply Hsc; auto; fail);
    try (apply Hsc; apply in_or_app; right; simpl; auto; fail).
  - apply vscoped_oview. intros x Hx. apply Hsc. apply in_or_app; right. apply in_or_app; left. exact Hx.
  - apply Hsc. apply in_or_app; right. apply in_or_app; right. simpl; auto.
  - destruct op; simpl; repeat split; apply Hsc; auto.
Qed.

Theorem call_direct_exact : forall r m, direct r = true -> rscoped (rnvars (rst m)) r ->
  ruser (call r m) = ruser m /\ rpanic (call r m) = rpanic m /\ rpend (call r m) = rpend m /\
  rexact (rst m) (rst (call r m)) (fun a => route_sem r 0%nat a = true).
Proof.
  intros r m H Hsc. rewrite (call_direct r m H). simpl. split; [reflexivity|]. split; [reflexivity|]. split; [reflexivity|].
  eapply rexact_weaken; [|apply rexact_push; apply direct_desc_scoped; assumption].
  intros a _. simpl. rewrite (direct_desc_sat r 0%nat a H). tauto.
Qed.

(* ---- the reified linear routes: a pending AST, lowered by prepare_for_search ---- *)
Definition linreif_ok (op : cmp) (cs : list Z) (xs : list nat) : Prop :=
  (op = OEq \/ op = OLe \/ op = ONe) /\ length cs = length xs.

Lemma linreif_sat : forall op cs xs k b a, linreif_ok op cs xs ->
  rsat (lin_reif_desc op cs xs k b) a = route_sem (RLinReif op cs xs k b) 0%nat a.
Proof.
  intros op cs xs k b a [Hop Hl]. unfold route_sem. simpl. rewrite Hl, Nat.eqb_refl. simpl.
  rewrite lin_val_combine. destruct Hop as [->|[->| ->]]; reflexivity.
Qed.

Theorem linreif_lower_exact : forall op cs xs k b st, linreif_ok op cs xs ->
  lt_all (rnvars st) xs -> (b < rnvars st)%nat ->
  rexact st (rmaterialize (CReifLin op cs xs k b) st) (fun a => route_sem (RLinReif op cs xs k b) 0%nat a = true).
Proof.
  intros op cs xs k b st Hok Hx Hb. simpl.
  eapply rexact_weaken; [|apply rexact_push].
  - intros a _. simpl. rewrite (linreif_sat op cs xs k b a Hok). tauto.
  - destruct Hok as [[->|[->| ->]] _]; simpl; auto.
Qed.

(* ------------------------------------------------------------------------------------------ *)
(* 5. every description outside the known classes denotes a record meeting the local contracts (C05) *)
Definition vok (w : view) : Prop := view_ok w.
Definition desc_ok (p : rdesc) : Prop :=
  match p with
  | PB (PAdd x y _) | PB (PMul x y _) | PB (PMod x y _) | PB (PLeq x y) | PB (PEq x y) | PB (PNeq x y) => view_ok x /\ view_ok y
  | PB (PLinEq cs xs _) | PB (PLinLe cs xs _) => all_zero cs xs = false      (* D11 *)
  | PB (PLinNe _ _ _) => True
  | PB (PLinEqR cs xs _ _) | PB (PLinLeR cs xs _ _) | PB (PLinNeR cs xs _ _) => all_zero cs xs = false   (* D11, reified (fluent Or / Not) *)
  | PSum xs _ => Forall view_ok xs
  | PAbs x _ => view_ok x
  | PMin xs _ | PMax xs _ => xs <> []
  | PTable xs ts => table_okb xs ts = true
  | PCount _ t _ => view_ok t
  | PLinReif _ cs xs _ _ => all_zero cs xs = false        (* D11 through the reified routes *)
  | _ => True
  end.

Theorem denote_route_good : forall p, desc_ok p -> good (denote_route p).
Proof.
  intros p H; destruct p; simpl in *.
  - destruct p; simpl in *.
    + apply mk_add_good; apply H.
    + apply mk_mul_good; apply H.
    + apply mk_mod_good; apply H.
    + apply mk_leq_good; apply H.
    + apply mk_eq_good; apply H.
    + apply NeqProofs.mk_neq_good; apply H.
    + apply mk_lin_eq_good; assumption.
    + apply mk_lin_le_good; assumption.
    + apply mk_lin_ne_good.
    + destruct op; [apply mk_eq_reif_good|apply mk_ne_reif_good|apply mk_lt_reif_good|apply mk_le_reif_good|apply mk_gt_reif_good|apply mk_ge_reif_good].
    + apply mk_lin_eq_reif_good; assumption.
    + apply mk_lin_le_reif_good; assumption.
    + apply mk_lin_ne_reif_good; assumption.
    + apply mk_band_good.
    + apply mk_bor_good.
    + apply mk_bnot_good.
  - apply mk_sum_good; assumption.
  - apply mk_abs_good; assumption.
  - apply mk_minof_good; assumption.
  - apply mk_maxof_good; assumption.
  - apply mk_alldiff_good.
  - apply mk_alleq_fixed_good.
  - apply mk_element_good.
  - apply mk_table_good_b; assumption.
  - apply mk_count_good; assumption.
  - destruct k; [apply mk_at_least_good|apply mk_at_most_good|apply mk_exactly_good].
  - apply mk_between_good.
  - apply mk_band_good.
  - apply mk_bor_good.
  - apply mk_bnot_good.
  - apply mk_bxor_good.
  - destruct op; [apply mk_eq_reif_good|apply mk_ne_reif_good|apply mk_lt_reif_good|apply mk_le_reif_good|apply mk_gt_reif_good|apply mk_ge_reif_good].
  - destruct op; try (apply mk_lin_eq_reif_good; assumption); [apply mk_lin_ne_reif_good|apply mk_lin_le_reif_good]; assumption.
Qed.

(* the descriptions the proved routes produce are inside desc_ok *)
Lemma view_ok_oview : forall o, view_ok (oview o). Proof. destruct o; exact I. Qed.
Lemma route_desc_ok : forall r n, simple_ret r = true -> desc_ok (route_desc r n).
Proof.
  intros r n H; destruct r; try discriminate; simpl; auto using view_ok_oview;
    try (split; apply view_ok_oview).
  - unfold p_sub. simpl. split; [apply view_ok_oview|]. destruct y; simpl; split; try lia; exact I.
  - destruct xs; [discriminate|congruence].
  - destruct xs; [discriminate|congruence].
  - apply Forall_forall. intros w Hw. apply in_map_iff in Hw. destruct Hw as [x [<- _]]. exact I.
  - destruct xs; [discriminate|congruence].
  - destruct xs; [discriminate|congruence].
  - apply Forall_forall. intros w Hw. apply in_map_iff in Hw. destruct Hw as [x [<- _]]. apply view_ok_oview.
Qed.
Lemma direct_desc_ok : forall r, direct r = true -> desc_ok (direct_desc r).
Proof.
  intros r H; destruct r; try discriminate; simpl; auto using view_ok_oview.
  destruct op; exact I.
Qed.

(* ------------------------------------------------------------------------------------------ *)
(* 6. whole programs: declarations, then any sequence of calls of the routes covered above *)
Definition call_ok (r : route) (m : rstate) : Prop :=
  rscoped (rnvars (rst m)) r /\
  ((simple_ret r = true /\ exists b, route_bounds (fst (rst m)) r = Some b /\ not_oversize b /\
      kf_felement_bounds r (fst (rst m)) = false /\ kf_nonbool_arg r (fst (rst m)) = false)
   \/ direct r = true).
Definition step_call (m : rstate) (r : route) : rstate := call (rn_route (ruv m) r) m.
Fixpoint calls_ok (calls : list route) (m : rstate) : Prop :=
  match calls with
  | [] => True
  | r :: rest => call_ok (rn_route (ruv m) r) m /\ calls_ok rest (step_call m r)
  end.
(* the documented meaning of the program: every call, applied to the handles the program holds when
   it is made, satisfies route_sem; for a call that returns a handle this says that the returned
   variable has exactly the function value *)
Fixpoint calls_means (calls : list route) (m : rstate) (a : asg) : Prop :=
  match calls with
  | [] => True
  | r :: rest => route_sem (rn_route (ruv m) r) (rnvars (rst m)) a = true /\ calls_means rest (step_call m r) a
  end.

Lemma sstore_app : forall s d, sstore s -> sorted d -> sstore (s ++ [d]).
Proof.
  intros s d Hs Hd v. destruct (Nat.lt_ge_cases v (length s)) as [L|L].
  - rewrite sget_app_old by assumption. apply Hs.
  - destruct (Nat.eq_dec v (length s)) as [->|N]; [rewrite sget_app_new; exact Hd|].
    rewrite sget_oob; [exact I|rewrite app_length; simpl; lia].
Qed.

Lemma direct_not_returns : forall r, direct r = true -> returns r = false.
Proof. intros r H; destruct r; try discriminate; reflexivity. Qed.
Lemma route_sem_res : forall r n k a, returns r = false -> route_sem r n a = route_sem r k a.
Proof. intros r n k a H; unfold route_sem; rewrite H; reflexivity. Qed.

Lemma call_ok_step : forall r m, sstore (fst (rst m)) -> call_ok r m ->
  rpanic (call r m) = rpanic m /\ rcallerr (call r m) = rcallerr m /\ rpend (call r m) = rpend m /\
  sstore (fst (rst (call r m))) /\
  rexact (rst m) (rst (call r m)) (fun a => route_sem r (rnvars (rst m)) a = true).
Proof.
  intros r m Hss [Hsc [[Hs [b [Hb [Hov [Hkf Hnb]]]]]|Hd]].
  - destruct (call_ret_exact r m b Hs Hsc Hss Hb Hov Hkf Hnb) as [_ [Hp X]].
    split; [exact Hp|]. rewrite (call_simple_ret r m Hs), Hb in *. unfold ret_result in *.
    unfold result_var in *. rewrite (rdrange_drange b Hov) in *. simpl in *.
    split; [reflexivity|]. split; [reflexivity|]. split; [|exact X].
    apply sstore_app; [exact Hss|apply drange_sorted].
  - destruct (call_direct_exact r m Hd Hsc) as [_ [Hp [Hpe X]]].
    split; [exact Hp|]. rewrite (call_direct r m Hd) in *. simpl in *.
    split; [reflexivity|]. split; [reflexivity|]. split; [exact Hss|].
    eapply rexact_weaken; [|exact X]. intros a _.
    rewrite (route_sem_res r (rnvars (rst m)) 0%nat a (direct_not_returns r Hd)). tauto.
Qed.

Lemma calls_exact : forall calls m, sstore (fst (rst m)) -> calls_ok calls m ->
  let m' := fold_left step_call calls m in
  rpanic m' = rpanic m /\ rcallerr m' = rcallerr m /\ rpend m' = rpend m /\
  rexact (rst m) (rst m') (calls_means calls m).
Proof.
  induction calls as [|r rest IH]; intros m Hss Hok; simpl.
  - repeat split; try reflexivity; try lia. destruct (rexact_refl (rst m)) as [_ X]. exact X.
  - destruct Hok as [Hc Hrest].
    destruct (call_ok_step _ m Hss Hc) as [Hp [Hce [Hpe [Hss1 X1]]]].
    destruct (IH (step_call m r) Hss1 Hrest) as [Hp2 [Hce2 [Hpe2 X2]]].
    unfold step_call in *. rewrite Hp2, Hce2, Hpe2, Hp, Hce, Hpe. repeat split; try reflexivity.
    + destruct X1 as [N1 _]; destruct X2 as [N2 _]; lia.
    + destruct (rexact_trans _ _ _ _ _ X1 X2) as [_ X]. exact X.
Qed.

Lemma rexec_call : forall m r, rpanic m = false -> rcallerr m = false -> rexec (SCall r) m = step_call m r.
Proof. intros m r Hp Hc. unfold rexec. rewrite Hp, Hc. reflexivity. Qed.

Lemma fold_calls : forall calls m, sstore (fst (rst m)) -> calls_ok calls m -> rpanic m = false -> rcallerr m = false ->
  fold_left (fun m s => rexec s m) (map SCall calls) m = fold_left step_call calls m.
Proof.
  induction calls as [|r rest IH]; intros m Hss Hok Hp Hc; simpl; [reflexivity|].
  destruct Hok as [Hc1 Hrest]. rewrite (rexec_call m r Hp Hc).
  destruct (call_ok_step _ m Hss Hc1) as [Hp1 [Hce1 [_ [Hss1 _]]]].
  apply IH; auto; unfold step_call; congruence.
Qed.

Lemma rbuild_decls_gen : forall decls m, forallb is_decl decls = true -> rpanic m = false -> rcallerr m = false ->
  fold_left (fun m s => rexec s m) (map SB decls) m =
  mkrs (fst (rst m) ++ map decl_dom decls, snd (rst m)) (rpend m)
       (ruser m ++ seq (rnvars (rst m)) (length decls)) false (rverr m) false.
Proof.
  induction decls as [|d decls IH]; intros m H Hp Hc; simpl.
  - rewrite !app_nil_r. destruct m as [[s ps] pe us pa ve ce]; simpl in *. subst. reflexivity.
  - simpl in H. apply andb_true_iff in H. destruct H as [Hd H].
    assert (E : rexec (SB d) m = mkrs (fst (rst m) ++ [decl_dom d], snd (rst m)) (rpend m) (ruser m ++ [rnvars (rst m)]) false (rverr m) false).
    { unfold rexec. rewrite Hp, Hc. simpl. unfold exec_base.
      destruct d; try discriminate; simpl; rewrite !app_nil_r, Hp, Hc, orb_false_r; reflexivity. }
    rewrite E. rewrite IH by (auto). simpl. unfold rnvars; simpl. rewrite app_length; simpl.
    rewrite <- !app_assoc. simpl. f_equal. f_equal. f_equal. rewrite Nat.add_1_r. reflexivity.
Qed.

Lemma rbuild_decls : forall decls, forallb is_decl decls = true ->
  rbuild (map SB decls) = mkrs (map decl_dom decls, []) [] (seq 0 (length decls)) false false false.
Proof. intros decls H. unfold rbuild. rewrite (rbuild_decls_gen decls rs0 H eq_refl eq_refl). reflexivity. Qed.

Lemma decls_sstore : forall decls, sstore (map decl_dom decls).
Proof. intros decls v. apply decls_sorted. Qed.

(* route_lower_denotes, whole programs: the lowered model (all variables, incl. result variables) has
   exactly the assignments that lie in the declared domains and satisfy the documented meaning of
   every call *)
Theorem routes_lower_denotes : forall decls calls,
  forallb is_decl decls = true ->
  let m0 := rbuild (map SB decls) in
  calls_ok calls m0 ->
  exists s ps, rlower (rbuild (map SB decls ++ map SCall calls)) = RLOk s ps /\
    Forall (rdscoped (length s)) ps /\ (length decls <= length s)%nat /\
    forall a, (inst a s /\ rallsat ps a) <-> (inst a (map decl_dom decls) /\ calls_means calls m0 a).
Proof.
  intros decls calls Hd m0 Hok.
  assert (E0 : m0 = mkrs (map decl_dom decls, []) [] (seq 0 (length decls)) false false false) by (apply rbuild_decls; exact Hd).
  assert (Hss : sstore (fst (rst m0))) by (rewrite E0; simpl; apply decls_sstore).
  unfold rbuild. rewrite fold_left_app. fold (rbuild (map SB decls)). fold m0.
  rewrite (fold_calls calls m0 Hss Hok) by (rewrite E0; reflexivity).
  destruct (calls_exact calls m0 Hss Hok) as [Hp [Hce [Hpe [Hn [np [Enp [Snp X]]]]]]].
  set (m' := fold_left step_call calls m0) in *.
  exists (fst (rst m')), (snd (rst m')). split.
  - unfold rlower. rewrite Hp, Hpe, E0. simpl. destruct (rst m'); reflexivity.
  - assert (Eps : snd (rst m') = np) by (rewrite Enp, E0; reflexivity).
    rewrite Eps. split; [exact Snp|]. split.
    + unfold rnvars in Hn. rewrite E0 in Hn. simpl in Hn. rewrite map_length in Hn. exact Hn.
    + intro a. rewrite (X a). rewrite E0. simpl. tauto.
Qed.

(* ------------------------------------------------------------------------------------------ *)
(* 7. composition with the engine theorem (C03 enumerate_exact) *)
Lemma vscoped_uvarl : forall n w v, vscoped n w -> In v (uvarl w) -> (v < n)%nat.
Proof. intros n w v H Hv; unfold vscoped, uvarl in *; destruct (uvar w); [destruct Hv as [<-|[]]; exact H|destruct Hv]. Qed.
Lemma lt_all_In : forall n xs v, lt_all n xs -> In v xs -> (v < n)%nat.
Proof. intros n xs v H Hv; unfold lt_all in H; rewrite Forall_forall in H; apply H; exact Hv. Qed.

Ltac scope_tac :=
  repeat match goal with
  | H : _ /\ _ |- _ => destruct H
  | H : In _ (_ ++ _) |- _ => apply in_app_or in H; destruct H
  | H : In _ (_ :: _) |- _ => destruct H as [<-|H]
  | H : In _ [] |- _ => destruct H
  | H : _ \/ _ |- _ => destruct H
  | H : False |- _ => destruct H
  end;
  subst; try assumption; eauto using vscoped_uvarl, lt_all_In.

Lemma denote_in_scope : forall n p, rdscoped n p -> in_scope (denote_route p) n.
Proof.
  intros n p H v Hv. destruct p; simpl in H.
  - destruct p; try (destruct op); simpl in *; scope_tac.
  - simpl in Hv. destruct H as [H1 H2]. apply in_app_or in Hv. destruct Hv as [Hv|Hv]; [|scope_tac].
    apply in_flat_map in Hv. destruct Hv as [w [Hw Hv]]. rewrite Forall_forall in H1. eapply vscoped_uvarl; eauto.
  - simpl in Hv; scope_tac.
  - simpl in Hv; scope_tac.
  - simpl in Hv; scope_tac.
  - simpl in Hv; scope_tac.
  - simpl in Hv; scope_tac.
  - simpl in Hv. scope_tac.
  - simpl in Hv; scope_tac.
  - simpl in Hv; scope_tac.
  - destruct k; simpl in Hv; scope_tac.
  - simpl in Hv; scope_tac.
  - simpl in Hv; scope_tac.
  - simpl in Hv; scope_tac.
  - simpl in Hv; scope_tac.
  - simpl in Hv; scope_tac.
  - destruct op; simpl in Hv; scope_tac.
  - destruct op; simpl in Hv; scope_tac.
Qed.

Lemma calls_desc_ok : forall calls m, calls_ok calls m -> sstore (fst (rst m)) ->
  Forall desc_ok (snd (rst m)) ->
  Forall desc_ok (snd (rst (fold_left step_call calls m))) /\ sstore (fst (rst (fold_left step_call calls m))).
Proof.
  induction calls as [|r rest IH]; intros m Hok Hss Hd; simpl; [split; assumption|].
  destruct Hok as [Hc Hrest].
  destruct (call_ok_step _ m Hss Hc) as [_ [_ [_ [Hss1 _]]]].
  apply IH; auto. unfold step_call.
  destruct Hc as [Hsc [[Hs [b [Hb _]]]|Hdr]].
  - rewrite (call_simple_ret _ m Hs), Hb. unfold ret_result, result_var. simpl.
    apply Forall_app; split; [exact Hd|constructor; [apply route_desc_ok; exact Hs|constructor]].
  - rewrite (call_direct _ m Hdr). simpl.
    apply Forall_app; split; [exact Hd|constructor; [apply direct_desc_ok; exact Hdr|constructor]].
Qed.

Lemma wf_of_validate : forall s ps, sstore s -> rvalidate s ps = None -> wf_store s.
Proof.
  intros s ps Hs Hv v Hlt. unfold rvalidate in Hv. destruct (existsb dempty s) eqn:E; [discriminate|].
  split; [|apply Hs]. intro Hn.
  assert (existsb dempty s = true); [|congruence].
  apply existsb_exists. exists (sget s v). split; [unfold sget; apply nth_In; exact Hlt|rewrite Hn; reflexivity].
Qed.

(* C01 / C03 for route programs: enumerate on the lowered model yields exactly the assignments of all
   variables (declared and result variables) that lie in the declared domains and satisfy the
   documented meaning of every call — in particular every returned variable has exactly the function
   value.  The local contracts of the propagator records are DISCHARGED here from the per-kind
   theorems of C05 (denote_route_good): calls_ok keeps the program inside the routes covered and
   outside the known classes. *)
Theorem routes_model_solutions : forall decls calls pick sols best,
  forallb is_decl decls = true ->
  let m0 := rbuild (map SB decls) in
  calls_ok calls m0 ->
  forall s ps, rlower (rbuild (map SB decls ++ map SCall calls)) = RLOk s ps ->
  rvalidate s ps = None ->
  enumerate pick (map denote_route ps) s = SOk sols best ->
  let means a := inst a (map decl_dom decls) /\ calls_means calls m0 a in
  NoDup sols /\
  (forall t, In t sols -> all_fixed t = true /\ means (asg_of t)) /\
  (forall a, means a -> exists t, In t sols /\ inst a t).
Proof.
  intros decls calls pick sols best Hd m0 Hok s ps Hl Hv He means.
  destruct (routes_lower_denotes decls calls Hd Hok) as [s' [ps' [Hl' [Hsc [_ X]]]]].
  rewrite Hl in Hl'. inversion Hl'; subst s' ps'. clear Hl'.
  assert (E0 : m0 = mkrs (map decl_dom decls, []) [] (seq 0 (length decls)) false false false) by (apply rbuild_decls; exact Hd).
  assert (Hss0 : sstore (fst (rst m0))) by (rewrite E0; simpl; apply decls_sstore).
  assert (Hd0 : Forall desc_ok (snd (rst m0))) by (rewrite E0; constructor).
  destruct (calls_desc_ok calls m0 Hok Hss0 Hd0) as [Hdok Hssf].
  (* identify the lowered store / descriptions with the final state *)
  assert (Efin : RLOk s ps = RLOk (fst (rst (fold_left step_call calls m0))) (snd (rst (fold_left step_call calls m0)))).
  { rewrite <- Hl. unfold rbuild. rewrite fold_left_app. fold (rbuild (map SB decls)). fold m0.
    rewrite (fold_calls calls m0 Hss0 Hok) by (rewrite E0; reflexivity).
    destruct (calls_exact calls m0 Hss0 Hok) as [Hp [_ [Hpe _]]].
    unfold rlower. rewrite Hp, Hpe, E0. simpl. destruct (rst (fold_left step_call calls _)); reflexivity. }
  inversion Efin; subst s ps. clear Efin.
  set (mf := fold_left step_call calls m0) in *.
  assert (Hg : Forall good (map denote_route (snd (rst mf)))).
  { apply Forall_forall. intros q Hq. apply in_map_iff in Hq. destruct Hq as [p [<- Hp]].
    apply denote_route_good. rewrite Forall_forall in Hdok. apply Hdok; exact Hp. }
  assert (Hscp : scoped (map denote_route (snd (rst mf))) (length (fst (rst mf)))).
  { apply Forall_forall. intros q Hq. apply in_map_iff in Hq. destruct Hq as [p [<- Hp]].
    apply denote_in_scope. rewrite Forall_forall in Hsc. apply Hsc; exact Hp. }
  assert (Hwf : wf_store (fst (rst mf))) by (eapply wf_of_validate; eauto).
  destruct (EngineProofs.enumerate_exact BasicProofs.mk_leq_good BasicProofs.mk_gt_good BasicProofs.mk_lt_good
              pick _ _ sols best Hg Hscp Hwf He) as [Nd [Snd Cmp]].
  assert (SolIff : forall a, sol (map denote_route (snd (rst mf))) (fst (rst mf)) a <-> means a).
  { intro a. unfold means. fold m0 in X. split.
    - intros [Hi H]. apply (proj1 (X a)). split; [exact Hi|]. intros p Hp. apply H. apply in_map; exact Hp.
    - intro Hm. destruct (proj2 (X a) Hm) as [Hi H]. split; [exact Hi|].
      intros q Hq. apply in_map_iff in Hq. destruct Hq as [p [<- Hp]]. apply H; exact Hp. }
  split; [exact Nd|]. split.
  - intros t Ht. destruct (Snd t Ht) as [Hf [_ Hs]]. split; [exact Hf|]. apply SolIff; exact Hs.
  - intros a Ha. apply SolIff in Ha. exact (Cmp a Ha).
Qed.

(* ------------------------------------------------------------------------------------------ *)
(* 8. the known classes contain genuine counterexamples (witnesses = the case lines of known_findings.txt) *)
Definition rallsatb (ps : list rdesc) (a : asg) : bool := forallb (fun p => rsat p a) ps.
Definition lowered_of (prog : list rstmt) : option (store * list rdesc) :=
  match rlower (rbuild prog) with RLOk s ps => Some (s, ps) | RLPanic => None end.
Definition asgl (l : list Z) : asg := fun v => nth v l 0.

(* D12 (repaired by d12_validation_operands; about the PRE-REPAIR validator rvalidate_prefix): Model::modulo(x, Val) —
   validation rejected the model although x = 1, r = 1 satisfies r = x mod 2; the repaired validator accepts it *)
Lemma mod_const_refuted : exists prog r s ps a,
  kf_mod_const r = true /\ prog = [SB (SInt 0 3); SCall r] /\ lowered_of prog = Some (s, ps) /\
  rvalidate_prefix s ps = Some VInvalidConstraint /\ rvalidate s ps = None /\ inst a s /\ rallsatb ps a = true /\ route_sem r 1%nat a = true.
Proof.
  exists [SB (SInt 0 3); SCall (RMod (OV 0%nat) (OC 2))], (RMod (OV 0%nat) (OC 2)). do 2 eexists. exists (asgl [1; 1]).
  split; [reflexivity|]. split; [reflexivity|]. split; [vm_compute; reflexivity|]. split; [vm_compute; reflexivity|]. split; [vm_compute; reflexivity|].
  split; [|split; vm_compute; reflexivity].
  intros v Hv. simpl in Hv. destruct v as [|[|v]]; [vm_compute; tauto|vm_compute; tauto|simpl in Hv; lia].
Qed.

(* a divisor whose domain contains 0: rejected although (x, y, r) = (1, 2, 1) satisfies the call *)
Lemma mod_zero_div_refuted : exists prog r s ps a,
  prog = [SB (SInt 0 3); SB (SInt 0 3); SCall r] /\ kf_mod_zero_div r [drange 0 3; drange 0 3] = true /\
  lowered_of prog = Some (s, ps) /\ rvalidate s ps = Some VInvalidConstraint /\
  inst a s /\ rallsatb ps a = true /\ route_sem r 2%nat a = true.
Proof.
  exists [SB (SInt 0 3); SB (SInt 0 3); SCall (RMod (OV 0%nat) (OV 1%nat))], (RMod (OV 0%nat) (OV 1%nat)). do 2 eexists. exists (asgl [1; 2; 1]).
  split; [reflexivity|]. split; [reflexivity|]. split; [vm_compute; reflexivity|]. split; [vm_compute; reflexivity|].
  split; [|split; vm_compute; reflexivity].
  intros v Hv. simpl in Hv. destruct v as [|[|[|v]]]; try (vm_compute; tauto). simpl in Hv; lia.
Qed.

(* m.add(Val, Val): one registered variable, the PRE-REPAIR validator demanded two; the repaired one accepts *)
Lemma const_const_refuted : exists prog r s ps a,
  kf_const_const r = true /\ prog = [SCall r] /\ lowered_of prog = Some (s, ps) /\
  rvalidate_prefix s ps = Some VInvalidConstraint /\ rvalidate s ps = None /\ inst a s /\ rallsatb ps a = true /\ route_sem r 0%nat a = true.
Proof.
  exists [SCall (RAdd (OC 1) (OC 2))], (RAdd (OC 1) (OC 2)). do 2 eexists. exists (asgl [3]).
  split; [reflexivity|]. split; [reflexivity|]. split; [vm_compute; reflexivity|]. split; [vm_compute; reflexivity|]. split; [vm_compute; reflexivity|].
  split; [|split; vm_compute; reflexivity].
  intros v Hv. simpl in Hv. destruct v as [|v]; [vm_compute; tauto|simpl in Hv; lia].
Qed.

(* functions::element: the value variable is created as -1000..1000; array values outside are lost *)
Lemma felement_bounds_refuted : exists r s a b v,
  kf_felement_bounds r s = true /\ inst a s /\ route_bounds s r = Some b /\ route_fun r a = Some v /\ ~ within b v.
Proof.
  exists (RFElement [0%nat] 1%nat), [[1200; 1201]; [0]], (asgl [1200; 0]), (aux_lo, aux_hi), 1200.
  split; [vm_compute; reflexivity|]. split.
  - intros v Hv. simpl in Hv. destruct v as [|[|v]]; try (vm_compute; tauto). lia.
  - split; [reflexivity|]. split; [reflexivity|]. unfold within; vm_compute. intros [_ H]. apply H; reflexivity.
Qed.

(* functions::implies posts not(a) and or(not_a, b) but never requires the disjunction: (a, b) = (1, 0) is accepted *)
Lemma fimplies_noop_refuted : exists prog r s ps a,
  kf_noop_route r = true /\ prog = [SB SBool; SB SBool; SCall r] /\ lowered_of prog = Some (s, ps) /\
  rvalidate s ps = None /\ inst a s /\ rallsatb ps a = true /\ route_sem r 0%nat a = false.
Proof.
  exists [SB SBool; SB SBool; SCall (RFImplies 0%nat 1%nat)], (RFImplies 0%nat 1%nat). do 2 eexists. exists (asgl [1; 0; 0; 0]).
  split; [reflexivity|]. split; [reflexivity|]. split; [vm_compute; reflexivity|]. split; [vm_compute; reflexivity|].
  split; [|split; vm_compute; reflexivity].
  intros v Hv. simpl in Hv. destruct v as [|[|[|[|v]]]]; try (vm_compute; tauto). simpl in Hv; lia.
Qed.

(* functions::cumulative: two tasks of duration 2, demand 2 each, capacity 3, both starting at 0 are accepted:
   the disjunction is OR-ed together with the variable that is then fixed to 1 *)
Lemma cumulative_noop_refuted : exists prog r s ps a,
  kf_noop_route r = true /\ prog = [SB (SInt 0 3); SB (SInt 0 3); SCall r] /\ lowered_of prog = Some (s, ps) /\
  rvalidate s ps = None /\ inst a s /\ rallsatb ps a = true /\ route_sem r 0%nat a = false.
Proof.
  exists [SB (SInt 0 3); SB (SInt 0 3); SCall (RCumulative [0%nat; 1%nat] [2; 2] [2; 2] 3)], (RCumulative [0%nat; 1%nat] [2; 2] [2; 2] 3).
  do 2 eexists. exists (asgl [0; 0; 2; 2; 0; 0; 1; 1]).
  split; [reflexivity|]. split; [reflexivity|]. split; [vm_compute; reflexivity|]. split; [vm_compute; reflexivity|].
  split; [|split; vm_compute; reflexivity].
  intros v Hv. simpl in Hv. do 8 (destruct v as [|v]; [vm_compute; tauto|]). simpl in Hv; lia.
Qed.

(* D11 through lin_ne_reif with no terms: b <-> (0 <> 2) demands b = 1, the engine yields b = 0 *)
Lemma linreif_zero_refuted : exists prog r s ps sols best t,
  kf_linreif_zero r = true /\ prog = [SB (SInt 0 0); SCall r] /\ lowered_of prog = Some (s, ps) /\
  enumerate fifo (map denote_route ps) s = SOk sols best /\ In t sols /\ route_sem r 0%nat (asg_of t) = false.
Proof.
  exists [SB (SInt 0 0); SCall (RLinReif ONe [] [] 2 0%nat)], (RLinReif ONe [] [] 2 0%nat). do 4 eexists. exists [[0]].
  split; [reflexivity|]. split; [reflexivity|]. split; [vm_compute; reflexivity|].
  split; [vm_compute; reflexivity|]. split; [simpl; auto|reflexivity].
Qed.

(* gcc zips values with counts: the second value has no count variable and is silently dropped *)
Lemma gcc_len_refuted : exists prog r s ps,
  kf_gcc_len r = true /\ prog = [SB (SInt 0 3); SB (SInt 0 3); SCall r] /\ lowered_of prog = Some (s, ps) /\
  rvalidate s ps = None /\ length ps = 1%nat.
Proof.
  exists [SB (SInt 0 3); SB (SInt 0 3); SCall (RGcc [0%nat; 1%nat] [1; 2] [0%nat])], (RGcc [0%nat; 1%nat] [1; 2] [0%nat]). do 2 eexists.
  split; [reflexivity|]. split; [reflexivity|]. split; [vm_compute; reflexivity|]. split; vm_compute; reflexivity.
Qed.

(* a result range wider than MAX_SPARSE_SET_DOMAIN_SIZE: x, y in {-1000, 1000}, m.mul(x, y) is rejected (InvalidDomain) *)
Lemma oversize_refuted : exists prog s ps,
  prog = [SB (SSet [-1000; 1000]); SB (SSet [-1000; 1000]); SCall (RMul (OV 0%nat) (OV 1%nat))] /\
  lowered_of prog = Some (s, ps) /\ rvalidate s ps = Some VInvalidDomain /\ existsb dempty s = false.
Proof. do 3 eexists. split; [reflexivity|]. split; [vm_compute; reflexivity|]. split; vm_compute; reflexivity. Qed.

(* a posting-time validation error (length mismatch) is recorded, but prepare_for_search — all that
   enumerate() consults — lowers and validates the model without it *)
Lemma verr_not_in_prepare : exists prog s ps,
  prog = [SB (SInt 0 3); SB (SInt 0 3); SB (SLin OEq [1] [0%nat; 1%nat] 2)] /\
  rverr (rbuild prog) = true /\ lowered_of prog = Some (s, ps) /\ rvalidate s ps = None /\ ps = [].
Proof. do 3 eexists. split; [reflexivity|]. split; [reflexivity|]. split; [vm_compute; reflexivity|]. split; reflexivity. Qed.

(* debug assertions reachable through the routes: Table::new on a tuple of the wrong arity; reading the
   bounds of a variable that an immediate `x == c` emptied *)
Lemma table_arity_panics : rpanic (rbuild [SB (SInt 0 3); SB (SInt 0 3); SCall (RTable [0%nat; 1%nat] [[1; 2; 3]])]) = true.
Proof. reflexivity. Qed.
Lemma empty_domain_read_panics : rpanic (rbuild [SB (SInt 0 3); SB (SNew (CBin (EVar 0) OEq (EVal 7))); SCall (RAbs (OV 0%nat))]) = true.
Proof. vm_compute. reflexivity. Qed.

(* boolean routes on a non-0/1 operand: bool_not(x) with x = -1 means r = 1 under the code's own reading
   (false iff <= 0), but BoolNot's meaning as implemented demands x >= 0 *)
Lemma nonbool_arg_refuted : exists r s a,
  kf_nonbool_arg r s = true /\ inst a s /\ route_sem r 1%nat a = true /\ rsat (route_desc r 1%nat) a = false.
Proof.
  exists (RBoolNot 0%nat), [[-1; 4]; [0; 1]], (asgl [-1; 1]).
  split; [vm_compute; reflexivity|]. split; [|split; vm_compute; reflexivity].
  intros v Hv. simpl in Hv. destruct v as [|[|v]]; try (vm_compute; tauto). lia.
Qed.

(* ---- non-vacuity: a program mixing arithmetic, global, reified and boolean routes satisfies calls_ok ---- *)
Example routes_example_ok :
  calls_ok [RAdd (OV 0%nat) (OV 1%nat); RAbs (OV 0%nat); RAllDiff [0%nat; 1%nat]; RReif OLe 0%nat 1%nat 2%nat; RBoolNot 2%nat; RMin [3%nat; 4%nat]]
           (rbuild (map SB [SInt (-2) 3; SInt 1 4; SBool])).
Proof.
  simpl. unfold call_ok, rscoped.
  repeat match goal with
  | |- _ /\ _ => split
  | |- forall x, In x _ -> _ => intros x Hx; simpl in Hx; repeat (destruct Hx as [<-|Hx]; [vm_compute; lia|]); destruct Hx
  | |- True => exact I
  end;
  try (right; reflexivity);
  try (left; split; [reflexivity|eexists; split; [vm_compute; reflexivity|split; [vm_compute; discriminate|split; reflexivity]]]).
Qed.

(* ------------------------------------------------------------------------------------------ *)
(* 9. the repaired functions::element (fixes/routes_felement_bounds.patch): its bounds cover every array value *)
Lemma felement_fixed_cover : forall s arr i b a v, sstore s -> inst a s ->
  felement_bounds_fixed s arr = Some b -> route_fun (RFElement arr i) a = Some v -> within b v.
Proof.
  intros s arr i b a v Hs Hi Hb Hf. unfold felement_bounds_fixed in Hb.
  destruct (var_bounds s arr) as [bs|] eqn:E; [|discriminate]. cbn [obind] in Hb.
  pose proof (var_bounds_within s arr bs a Hs Hi E) as W.
  simpl in Hf. destruct (0 <=? a i); [|discriminate].
  destruct (nth_error arr (Z.to_nat (a i))) as [x|] eqn:En; [|discriminate]. inversion Hf; subst v.
  apply nth_error_In in En. destruct bs as [|b0 br]; [destruct arr; [destruct En|inversion W]|].
  inversion Hb; subst b. unfold within; simpl.
  (* a x is one of the values; each value lies within its own bounds *)
  assert (G : forall (bs : list (Z * Z)) (vs : list Z), within_all bs vs -> forall y, In y vs ->
            exists p, In p bs /\ fst p <= y <= snd p).
  { induction 1 as [|p0 v0 bl vl Hw0 Hrest IHr]; intros z Hz; [destruct Hz|].
    destruct Hz as [<-|Hz]; [exists p0; split; [left; reflexivity|exact Hw0]|].
    destruct (IHr z Hz) as [p [Hp Hw]]. exists p; split; [right; exact Hp|exact Hw]. }
  destruct (G _ _ W (a x) (in_map a arr x En)) as [p [Hp [Hlo Hhi]]].
  destruct (ArithProofs.list_min_spec (map fst br) (fst b0)) as [M1 [M2 _]].
  destruct (ArithProofs.list_max_spec (map snd br) (snd b0)) as [N1 [N2 _]].
  destruct Hp as [<-|Hp]; [lia|].
  specialize (M2 (fst p) (in_map fst br p Hp)). specialize (N2 (snd p) (in_map snd br p Hp)). lia.
Qed.

(* the witnesses of the two no-op routes are rejected by the repaired lowering *)
Lemma fimplies_fixed_rejects : exists s ps,
  rlower (rbuild_fixed [SB SBool; SB SBool; SCall (RFImplies 0%nat 1%nat)]) = RLOk s ps /\
  rallsatb ps (asgl [1; 0; 0; 0]) = false.
Proof. do 2 eexists. split; [vm_compute; reflexivity|vm_compute; reflexivity]. Qed.
Lemma cumulative_fixed_rejects : exists s ps,
  rlower (rbuild_fixed [SB (SInt 0 3); SB (SInt 0 3); SCall (RCumulative [0%nat; 1%nat] [2; 2] [2; 2] 3)]) = RLOk s ps /\
  length s = 7%nat /\
  forallb (fun t => negb (rallsatb ps (asgl ([0; 0; 2; 2] ++ t)))) (all_asgs [[0; 1]; [0; 1]; [0; 1]]) = true.
Proof. do 2 eexists. split; [vm_compute; reflexivity|]. split; vm_compute; reflexivity. Qed.

(* ------------------------------------------------------------------------------------------ *)
(* 10. the repairs e45322d (length-mismatched reified linear postings) and e2596cd (malformed table tuples):
   positive statements about call_fixed / rbuild_fixed, the model of the current tree *)
Lemma linreif_fixed_wellformed : forall op cs xs k b m, length cs = length xs ->
  call_fixed (RLinReif op cs xs k b) m = call (RLinReif op cs xs k b) m.
Proof. intros. unfold call_fixed. rewrite H, Nat.eqb_refl. reflexivity. Qed.

(* a length mismatch posts equals(b, 0): exactly the documented meaning "the reification is false" *)
Theorem linreif_len_fixed_exact : forall op cs xs k b m, length cs <> length xs -> (b < rnvars (rst m))%nat ->
  let m' := call_fixed (RLinReif op cs xs k b) m in
  rpanic m' = rpanic m /\ rverr m' = rverr m /\ rpend m' = rpend m /\ ruser m' = ruser m /\
  rexact (rst m) (rst m') (fun a => route_sem (RLinReif op cs xs k b) 0%nat a = true) /\
  (forall a, route_sem (RLinReif op cs xs k b) 0%nat a = true <-> a b = 0).
Proof.
  intros op cs xs k b m Hne Hb. unfold call_fixed. apply Nat.eqb_neq in Hne. rewrite Hne. simpl.
  repeat (split; [reflexivity|]). split.
  - eapply rexact_weaken; [|apply rexact_push].
    + intros a _. unfold rsat, route_sem. simpl. rewrite Hne. tauto.
    + simpl. unfold vscoped; simpl. split; [exact Hb|exact I].
  - intro a. unfold route_sem. simpl. rewrite Hne. apply Z.eqb_eq.
Qed.

Lemma table_fixed_wellformed : forall xs ts m, table_okb xs ts = true ->
  call_fixed (RTable xs ts) m = call (RTable xs ts) m.
Proof. intros. unfold call_fixed. rewrite H. reflexivity. Qed.

Lemma table_filter_sem : forall xs ts a,
  existsb (fun tp => tuple_eq xs tp a) (filter (fun tp => Nat.eqb (length tp) (length xs)) ts) =
  existsb (fun tp => tuple_eq xs tp a) ts.
Proof.
  intros xs ts a; induction ts as [|tp r IH]; simpl; [reflexivity|].
  destruct (Nat.eqb (length tp) (length xs)) eqn:E; simpl; rewrite IH; [reflexivity|].
  unfold tuple_eq at 2. rewrite Nat.eqb_sym, E. reflexivity.
Qed.
Lemma table_filter_ok : forall xs ts, table_okb xs (filter (fun tp => Nat.eqb (length tp) (length xs)) ts) = true.
Proof.
  intros xs ts. unfold table_okb. apply forallb_forall. intros tp H. apply filter_In in H. apply H.
Qed.

(* a malformed table: no panic, a validation error is recorded (every solving call returns it), and the
   propagator that is posted keeps exactly the well-formed tuples, whose meaning is the meaning of the call *)
Theorem table_fixed_malformed : forall xs ts m, table_okb xs ts = false ->
  let m' := call_fixed (RTable xs ts) m in
  rverr m' = true /\ rpanic m' = rpanic m /\ rcallerr m' = rcallerr m /\
  exists ts', snd (rst m') = snd (rst m) ++ [PTable xs ts'] /\ fst (rst m') = fst (rst m) /\
    table_okb xs ts' = true /\ forall a, rsat (PTable xs ts') a = route_sem (RTable xs ts) 0%nat a.
Proof.
  intros xs ts m H. unfold call_fixed. rewrite H. simpl. repeat (split; [reflexivity|]).
  eexists. split; [reflexivity|]. split; [reflexivity|]. split; [apply table_filter_ok|].
  intro a. unfold rsat, route_sem. simpl. apply table_filter_sem.
Qed.

(* the calls on which the repairs change nothing *)
Definition fixed_same (r : route) : bool :=
  match r with
  | RFImplies _ _ | RFElement _ _ | RCumulative _ _ _ _ => false
  | RLinReif _ cs xs _ _ => Nat.eqb (length cs) (length xs)
  | RTable xs ts => table_okb xs ts
  | RTable2D mat ts => forallb (fun row => table_okb row ts) mat
  | RTable3D cube ts => forallb (forallb (fun row => table_okb row ts)) cube
  | _ => true
  end.
Lemma filter_okb : forall (row : list nat) ts, table_okb row ts = true ->
  filter (fun tp : list Z => Nat.eqb (length tp) (length row)) ts = ts.
Proof.
  intros row ts; induction ts as [|t r IH]; intro H; [reflexivity|]. simpl in *.
  apply andb_true_iff in H. destruct H as [H1 H2]. rewrite H1. f_equal. apply IH; exact H2.
Qed.
Lemma st_tables_ok : forall rows ts st, forallb (fun row => table_okb row ts) rows = true ->
  st_tables rows ts st = Some (st_tables_fixed rows ts st).
Proof.
  induction rows as [|row r IH]; intros ts st H; [reflexivity|]. simpl in *.
  apply andb_true_iff in H. destruct H as [H1 H2]. rewrite H1. unfold st_tables_fixed. simpl.
  rewrite (filter_okb row ts H1). apply IH; exact H2.
Qed.
Lemma st_tables3_ok : forall cube ts st, forallb (forallb (fun row => table_okb row ts)) cube = true ->
  st_tables3 cube ts st = Some (fold_left (fun st mat => st_tables_fixed mat ts st) cube st).
Proof.
  induction cube as [|mat r IH]; intros ts st H; [reflexivity|]. simpl in *.
  apply andb_true_iff in H. destruct H as [H1 H2]. rewrite (st_tables_ok mat ts st H1). simpl. apply IH; exact H2.
Qed.
Lemma table_okb_map : forall (f : nat -> nat) row ts, table_okb (map f row) ts = table_okb row ts.
Proof. intros; unfold table_okb. rewrite map_length. reflexivity. Qed.
Lemma rows_okb_map : forall (f : nat -> nat) ts rows,
  forallb (fun row => table_okb row ts) (map (map f) rows) = forallb (fun row => table_okb row ts) rows.
Proof. intros f ts rows; induction rows as [|row r IH]; [reflexivity|]. simpl. rewrite table_okb_map, IH. reflexivity. Qed.
Lemma cube_okb_map : forall (f : nat -> nat) ts cube,
  forallb (forallb (fun row => table_okb row ts)) (map (map (map f)) cube) = forallb (forallb (fun row => table_okb row ts)) cube.
Proof. intros f ts cube; induction cube as [|m r IH]; [reflexivity|]. simpl. rewrite rows_okb_map, IH. reflexivity. Qed.
Lemma call_fixed_same : forall r f m, fixed_same r = true -> call_fixed (rn_route f r) m = call (rn_route f r) m.
Proof.
  intros r f m H; destruct r; try discriminate; try reflexivity; simpl in H.
  - simpl rn_route. unfold call_fixed. unfold table_okb in *. rewrite map_length. fold (table_okb xs tuples). 
    unfold table_okb. rewrite H. reflexivity.
  - simpl rn_route. unfold call_fixed. rewrite map_length, H. reflexivity.
  - simpl rn_route. unfold call_fixed, call. rewrite st_tables_ok by (rewrite rows_okb_map; exact H). reflexivity.
  - simpl rn_route. unfold call_fixed, call. rewrite st_tables3_ok by (rewrite cube_okb_map; exact H). reflexivity.
Qed.
Lemma rbuild_fixed_eq : forall prog, (forall r, In (SCall r) prog -> fixed_same r = true) ->
  rbuild_fixed prog = rbuild prog.
Proof.
  intros prog. unfold rbuild_fixed, rbuild. generalize rs0. induction prog as [|s rest IH]; intros m H; simpl; [reflexivity|].
  assert (E : rexec_fixed s m = rexec s m).
  { unfold rexec_fixed, rexec. destruct (rpanic m || rcallerr m); [reflexivity|]. destruct s; [reflexivity| |reflexivity].
    apply call_fixed_same. apply H. left; reflexivity. }
  rewrite E. apply IH. intros r Hr. apply H. right; exact Hr.
Qed.

(* C01 / C03 for route programs on the CURRENT tree (rbuild_fixed) *)
Theorem routes_model_solutions_fixed : forall decls calls pick sols best,
  forallb is_decl decls = true -> forallb fixed_same calls = true ->
  let m0 := rbuild (map SB decls) in
  calls_ok calls m0 ->
  forall s ps, rlower (rbuild_fixed (map SB decls ++ map SCall calls)) = RLOk s ps ->
  rvalidate s ps = None ->
  enumerate pick (map denote_route ps) s = SOk sols best ->
  let means a := inst a (map decl_dom decls) /\ calls_means calls m0 a in
  NoDup sols /\
  (forall t, In t sols -> all_fixed t = true /\ means (asg_of t)) /\
  (forall a, means a -> exists t, In t sols /\ inst a t).
Proof.
  intros decls calls pick sols best Hd Hf m0 Hok s ps Hl.
  rewrite rbuild_fixed_eq in Hl.
  - exact (routes_model_solutions decls calls pick sols best Hd Hok s ps Hl).
  - intros r Hr. apply in_app_or in Hr. destruct Hr as [Hr|Hr].
    + apply in_map_iff in Hr. destruct Hr as [x [Hx _]]. discriminate.
    + apply in_map_iff in Hr. destruct Hr as [x [Hx Hin]]. inversion Hx; subst.
      rewrite forallb_forall in Hf. apply Hf; exact Hin.
Qed.

(* the former witnesses of classes linreif_len and table_arity_panic on the repaired model *)
Lemma linreif_len_fixed_witness :
  rlower (rbuild_fixed [SB (SInt 0 3); SB (SInt 0 3); SB SBool; SCall (RLinReif OEq [1] [0%nat; 1%nat] 2 2%nat)])
  = RLOk [drange 0 3; drange 0 3; drange 0 1] [PB (PEq (VVar 2) (VConst 0))].
Proof. vm_compute. reflexivity. Qed.
Lemma table_arity_fixed_witness :
  let m := rbuild_fixed [SB (SInt 0 3); SB (SInt 0 3); SCall (RTable [0%nat; 1%nat] [[1; 2; 3]; [1; 2]])] in
  rpanic m = false /\ rverr m = true /\ snd (rst m) = [PTable [0%nat; 1%nat] [[1; 2]]].
Proof. vm_compute. repeat split; reflexivity. Qed.

(* ------------------------------------------------------------------------------------------ *)
(* 10. array_int_minimum / array_int_maximum / sum_iter, table_2d / table_3d, element_2d / element_3d,
   the array factories *)

(* array_int_minimum / array_int_maximum ARE min / max; Model::sum IS sum_iter over its handles *)
Lemma arr_min_is_min : forall xs m, call (RArrMin xs) m = call (RMin xs) m. Proof. reflexivity. Qed.
Lemma arr_max_is_max : forall xs m, call (RArrMax xs) m = call (RMax xs) m. Proof. reflexivity. Qed.
Lemma opnd_bounds_vars : forall s xs, opnd_bounds s (map OV xs) = var_bounds s xs.
Proof. intros s xs; induction xs as [|x r IH]; [reflexivity|]. cbn [map opnd_bounds var_bounds]. rewrite IH. reflexivity. Qed.
Lemma sum_is_sum_iter : forall xs m, call (RSum xs) m = call (RSumIter (map OV xs)) m.
Proof. intros xs m. unfold call. rewrite opnd_bounds_vars, map_map. reflexivity. Qed.
Lemma arr_min_fun : forall xs a, route_fun (RArrMin xs) a = route_fun (RMin xs) a. Proof. reflexivity. Qed.
Lemma arr_max_fun : forall xs a, route_fun (RArrMax xs) a = route_fun (RMax xs) a. Proof. reflexivity. Qed.
Lemma sum_iter_fun : forall xs a, route_fun (RSumIter (map OV xs)) a = route_fun (RSum xs) a.
Proof. intros xs a. simpl. f_equal. induction xs as [|x r IH]; [reflexivity|]. simpl. rewrite IH. reflexivity. Qed.

(* ---- table_2d / table_3d: one Table per row; the posted propagators mean "every row is one of the tuples" ---- *)
Lemma rsat_table_filter : forall row ts a,
  rsat (PTable row (filter (fun tp => Nat.eqb (length tp) (length row)) ts)) a = row_in_table ts a row.
Proof. intros. unfold rsat, row_in_table. simpl. apply table_filter_sem. Qed.

Lemma st_tables_fixed_exact : forall rows ts st, lt_all (rnvars st) (concat rows) ->
  fst (st_tables_fixed rows ts st) = fst st /\
  rexact st (st_tables_fixed rows ts st) (fun a => forallb (row_in_table ts a) rows = true).
Proof.
  induction rows as [|row r IH]; intros ts st Hs.
  - split; [reflexivity|]. eapply rexact_weaken; [|apply rexact_refl]. intros a _. simpl. tauto.
  - unfold st_tables_fixed. simpl fold_left. fold (st_tables_fixed r ts (rpush (PTable row (filter (fun tp => Nat.eqb (length tp) (length row)) ts)) st)).
    simpl in Hs. unfold lt_all in Hs. apply Forall_app in Hs. destruct Hs as [Hrow Hr].
    set (p := PTable row (filter (fun tp => Nat.eqb (length tp) (length row)) ts)).
    destruct (IH ts (rpush p st) Hr) as [E X]. split; [rewrite E; reflexivity|].
    eapply rexact_weaken; [|eapply rexact_trans; [apply (rexact_push st p); exact Hrow|exact X]].
    intros a _. simpl. unfold p. rewrite rsat_table_filter. rewrite andb_true_iff. tauto.
Qed.

Lemma st_tables3_fixed_exact : forall cube ts st, lt_all (rnvars st) (concat (concat cube)) ->
  let st' := fold_left (fun st mat => st_tables_fixed mat ts st) cube st in
  fst st' = fst st /\ rexact st st' (fun a => forallb (forallb (row_in_table ts a)) cube = true).
Proof.
  induction cube as [|mat r IH]; intros ts st Hs.
  - split; [reflexivity|]. eapply rexact_weaken; [|apply rexact_refl]. intros a _. simpl. tauto.
  - simpl in Hs. rewrite concat_app in Hs. unfold lt_all in Hs. apply Forall_app in Hs. destruct Hs as [Hm Hr].
    destruct (st_tables_fixed_exact mat ts st Hm) as [E1 X1].
    assert (Hn : rnvars (st_tables_fixed mat ts st) = rnvars st) by (unfold rnvars; rewrite E1; reflexivity).
    simpl fold_left. destruct (IH ts (st_tables_fixed mat ts st)) as [E2 X2]; [rewrite Hn; exact Hr|].
    split; [simpl in E2; rewrite E2, E1; reflexivity|].
    eapply rexact_weaken; [|eapply rexact_trans; [exact X1|exact X2]].
    intros a _. simpl. rewrite andb_true_iff. tauto.
Qed.

(* the call on the CURRENT tree: whatever the tuples' arities, no panic, NOTHING recorded, and the posted
   propagators mean exactly the documented meaning of the call *)
Theorem table2d_fixed_exact : forall mat ts m, rscoped (rnvars (rst m)) (RTable2D mat ts) ->
  let m' := call_fixed (RTable2D mat ts) m in
  rpanic m' = rpanic m /\ rverr m' = rverr m /\ rcallerr m' = rcallerr m /\ rpend m' = rpend m /\ ruser m' = ruser m /\
  fst (rst m') = fst (rst m) /\
  rexact (rst m) (rst m') (fun a => route_sem (RTable2D mat ts) 0%nat a = true).
Proof.
  intros mat ts m Hsc. simpl. repeat (split; [reflexivity|]).
  assert (Hs : lt_all (rnvars (rst m)) (concat mat)) by (apply lt_all_of; intros x Hx; apply Hsc; exact Hx).
  destruct (st_tables_fixed_exact mat ts (rst m) Hs) as [E X]. split; [exact E|exact X].
Qed.
Theorem table3d_fixed_exact : forall cube ts m, rscoped (rnvars (rst m)) (RTable3D cube ts) ->
  let m' := call_fixed (RTable3D cube ts) m in
  rpanic m' = rpanic m /\ rverr m' = rverr m /\ rcallerr m' = rcallerr m /\ rpend m' = rpend m /\ ruser m' = ruser m /\
  fst (rst m') = fst (rst m) /\
  rexact (rst m) (rst m') (fun a => route_sem (RTable3D cube ts) 0%nat a = true).
Proof.
  intros cube ts m Hsc. simpl. repeat (split; [reflexivity|]).
  assert (Hs : lt_all (rnvars (rst m)) (concat (concat cube))) by (apply lt_all_of; intros x Hx; apply Hsc; exact Hx).
  destruct (st_tables3_fixed_exact cube ts (rst m) Hs) as [E X]. split; [exact E|exact X].
Qed.
(* before e2596cd a malformed tuple fired Table::new's debug assertion *)
Lemma table2d_prefix_panics : rpanic (rbuild [SB (SInt 0 2); SB (SInt 0 2); SCall (RTable2D [[0%nat; 1%nat]] [[0; 1; 2]; [1; 2]])]) = true.
Proof. vm_compute. reflexivity. Qed.
(* the finding: Model::table records a validation error for the same row and tuples, table_2d / table_3d do not *)
Lemma table2d_arity_refuted : exists row ts decls,
  kf_table_nd_arity (RTable2D [row] ts) = true /\ kf_table_nd_arity (RTable3D [[row]] ts) = true /\
  rverr (rbuild_fixed (decls ++ [SCall (RTable row ts)])) = true /\
  rverr (rbuild_fixed (decls ++ [SCall (RTable2D [row] ts)])) = false /\
  rverr (rbuild_fixed (decls ++ [SCall (RTable3D [[row]] ts)])) = false /\
  snd (rst (rbuild_fixed (decls ++ [SCall (RTable2D [row] ts)]))) = snd (rst (rbuild_fixed (decls ++ [SCall (RTable row ts)]))).
Proof. exists [0%nat; 1%nat], [[0; 1; 2]; [1; 2]], [SB (SInt 0 2); SB (SInt 0 2)]. vm_compute. repeat split; reflexivity. Qed.

(* ---- element_2d / element_3d ---- *)
Lemma call_element_nd_shape : forall flat l r vl m,
  call_element_nd flat (EAdd l r) vl m =
  mkrs (fst (rst m) ++ [drange 0 (Z.of_nat (length flat) - 1)], snd (rst m) ++ [PElement flat (rnvars (rst m)) vl])
       (rpend m ++ [CB (to_linear (CBin (EAdd l r) OEq (EVar (rnvars (rst m)))))]) (ruser m) (rpanic m) (rverr m) (rcallerr m).
Proof. intros. unfold call_element_nd, post_base, rnew_var, with_st, rpush, post. simpl. rewrite !app_nil_r. reflexivity. Qed.

(* what the lowered call enforces: the computed index is the value of the index expression, lies in
   0 .. flat.len() - 1, and the flattened cell at it equals the value *)
Definition element_nd_impl (flat : list nat) (e : expr) (vl n : nat) (a : asg) : Prop :=
  exists k x, eval_expr e a = Some k /\ a n = k /\ 0 <= k /\ nth_error flat (Z.to_nat k) = Some x /\ a x = a vl.

Theorem element_nd_exact : forall flat l r vl m cs xs k,
  let e := EAdd l r in let n := rnvars (rst m) in
  escoped n e -> lt_all n flat -> (vl < n)%nat ->
  to_linear (CBin e OEq (EVar n)) = CLinInt cs xs OEq k ->
  let m' := call_element_nd flat e vl m in
  rpend m' = rpend m ++ [CB (CLinInt cs xs OEq k)] /\ ruser m' = ruser m /\ rpanic m' = rpanic m /\
  rverr m' = rverr m /\ rcallerr m' = rcallerr m /\
  rexact (rst m) (rmaterialize (CB (CLinInt cs xs OEq k)) (rst m')) (element_nd_impl flat e vl n).
Proof.
  intros flat l r vl m cs xs k e n He Hf Hv Hlin m'.
  pose proof (call_element_nd_shape flat l r vl m) as Esh. fold e n in Esh. rewrite Hlin in Esh.
  unfold m'. rewrite Esh. simpl rpend. simpl ruser. simpl rpanic. simpl rverr. simpl rcallerr.
  repeat (split; [reflexivity|]).
  set (st1 := (fst (rst m) ++ [drange 0 (Z.of_nat (length flat) - 1)], snd (rst m))).
  assert (N1 : rnvars st1 = S n) by (unfold st1, rnvars; simpl; rewrite app_length; simpl; unfold n, rnvars; lia).
  assert (Hsc : Forall (fun v => (v < S n)%nat) xs).
  { pose proof (to_linear_scoped (S n) (CBin e OEq (EVar n))) as T. rewrite Hlin in T. apply T. simpl. split; [|lia].
    clear -He. unfold e in *. assert (G : forall e0, escoped n e0 -> escoped (S n) e0).
    { induction e0; simpl; intros; try tauto; try lia. } exact (G (EAdd l r) He). }
  assert (X0 : rexact (rst m) st1 (fun a => In (a n) (drange 0 (Z.of_nat (length flat) - 1)))).
  { pose proof (rexact_newvar (drange 0 (Z.of_nat (length flat) - 1)) (rst m)) as X. exact X. }
  assert (X1 : rexact st1 (rpush (PElement flat n vl) st1) (fun a => rsat (PElement flat n vl) a = true)).
  { apply rexact_push. rewrite N1. simpl. split; [eapply lt_all_le; [|exact Hf]; lia|]. split; lia. }
  set (st2 := rpush (PElement flat n vl) st1) in *.
  assert (X2 : rexact st2 (rpush (PB (lin_desc cs xs OEq k)) st2) (fun a => rsat (PB (lin_desc cs xs OEq k)) a = true)).
  { apply rexact_push. change (rnvars st2) with (rnvars st1). rewrite N1. simpl. exact Hsc. }
  assert (Emat : rmaterialize (CB (CLinInt cs xs OEq k)) st2 = rpush (PB (lin_desc cs xs OEq k)) st2).
  { unfold rmaterialize, lift, rpush. simpl. reflexivity. }
  change (rexact (rst m) (rmaterialize (CB (CLinInt cs xs OEq k)) st2) (element_nd_impl flat e vl n)). rewrite Emat.
  eapply rexact_weaken; [|eapply rexact_trans; [exact X0|eapply rexact_trans; [exact X1|exact X2]]].
  intros a _. simpl. unfold element_nd_impl. rewrite drange_In.
  unfold rsat at 2. simpl. pose proof (lin_desc_sat cs xs OEq k a) as LS. 
  assert (EV : eval_cons (CLinInt cs xs OEq k) a = eval_cons (CBin e OEq (EVar n)) a) by (rewrite <- Hlin; apply to_linear_correct).
  simpl in EV. unfold rsat. simpl denote_route. 
  assert (Hps : sat (denote_base (lin_desc cs xs OEq k)) a = psat (lin_desc cs xs OEq k) a).
  { destruct (lin_desc cs xs OEq k) eqn:Ed; try reflexivity; simpl in Ed; discriminate. }
  rewrite <- lin_val_combine. clear LS Hps.
  set (ev := (do p <- eval_expr l a; do q <- eval_expr r a; Some (p + q))) in *.
  split.
  - intros [Hin [Hel Hl]]. simpl in Hel. apply andb_true_iff in Hel. destruct Hel as [H0 Hel]. apply Z.leb_le in H0.
    destruct (nth_error flat (Z.to_nat (a n))) as [x|] eqn:En; [|discriminate]. apply Z.eqb_eq in Hel.
    rewrite Hl in EV. destruct ev as [v|]; [|discriminate]. simpl in EV. inversion EV as [E2]. symmetry in E2. apply Z.eqb_eq in E2.
    exists v, x. subst v. repeat split; auto.
  - intros [v [x [Ee [Ean [H0 [En Hx]]]]]]. subst v.
    assert (Hlt : (Z.to_nat (a n) < length flat)%nat) by (apply nth_error_Some; congruence).
    split; [lia|]. split.
    + simpl. apply andb_true_iff. split; [apply Z.leb_le; lia|]. rewrite En. apply Z.eqb_eq; exact Hx.
    + rewrite Ee in EV. simpl in EV. rewrite Z.eqb_refl in EV. inversion EV as [E2]. rewrite E2. reflexivity.
Qed.

(* the two public calls in terms of the common tail *)
Lemma element2d_call : forall mat ri ci vl m, mat_cols mat <> 0%nat ->
  call (RElement2D mat ri ci vl) m = call_element_nd (concat mat) (idx2 ri ci (mat_cols mat)) vl m.
Proof. intros mat ri ci vl m H. unfold call. apply Nat.eqb_neq in H. rewrite H. reflexivity. Qed.
Lemma element3d_call : forall cube di ri ci vl m, cube_rows cube <> 0%nat -> cube_cols cube <> 0%nat ->
  call (RElement3D cube di ri ci vl) m =
  call_element_nd (concat (concat cube)) (idx3 di ri ci (cube_rows cube) (cube_cols cube)) vl m.
Proof. intros cube di ri ci vl m H1 H2. unfold call. apply Nat.eqb_neq in H1, H2. rewrite H1, H2. reflexivity. Qed.
(* the index equation is always stored as a linear equality (try_convert_to_linear_ast succeeds) *)
Lemma idx2_linear : forall ri ci cols n, exists cs xs k, to_linear (CBin (idx2 ri ci cols) OEq (EVar n)) = CLinInt cs xs OEq k.
Proof. intros. unfold idx2, to_linear. cbn [linform obind]. do 3 eexists. reflexivity. Qed.
Lemma idx3_linear : forall di ri ci rows cols n, exists cs xs k, to_linear (CBin (idx3 di ri ci rows cols) OEq (EVar n)) = CLinInt cs xs OEq k.
Proof. intros. unfold idx3, to_linear. cbn [linform obind]. do 3 eexists. reflexivity. Qed.

(* element_2d, whole call + lowering of its pending equation: exactly "the cell of the FLATTENED matrix at
   row * cols + col equals value" — the individual indices are not constrained *)
Theorem element2d_lower_exact : forall mat ri ci vl m, mat_cols mat <> 0%nat ->
  rscoped (rnvars (rst m)) (RElement2D mat ri ci vl) ->
  let n := rnvars (rst m) in let m' := call (RElement2D mat ri ci vl) m in
  exists c, rpend m' = rpend m ++ [CB c] /\ ruser m' = ruser m /\ rpanic m' = rpanic m /\ rverr m' = rverr m /\ rcallerr m' = rcallerr m /\
    rexact (rst m) (rmaterialize (CB c) (rst m')) (element_nd_impl (concat mat) (idx2 ri ci (mat_cols mat)) vl n).
Proof.
  intros mat ri ci vl m Hc Hsc n m'. unfold m'. rewrite (element2d_call mat ri ci vl m Hc).
  destruct (idx2_linear ri ci (mat_cols mat) n) as [cs [xs [k Hlin]]].
  exists (CLinInt cs xs OEq k). unfold idx2 in *.
  apply (element_nd_exact (concat mat) _ _ vl m cs xs k); try exact Hlin.
  - simpl. repeat split; try exact I; apply Hsc; simpl; apply in_or_app; right; simpl; auto.
  - apply lt_all_of. intros x Hx. apply Hsc. simpl. apply in_or_app; left; exact Hx.
  - apply Hsc. simpl. apply in_or_app; right; simpl; auto.
Qed.
Theorem element3d_lower_exact : forall cube di ri ci vl m, cube_rows cube <> 0%nat -> cube_cols cube <> 0%nat ->
  rscoped (rnvars (rst m)) (RElement3D cube di ri ci vl) ->
  let n := rnvars (rst m) in let m' := call (RElement3D cube di ri ci vl) m in
  exists c, rpend m' = rpend m ++ [CB c] /\ ruser m' = ruser m /\ rpanic m' = rpanic m /\ rverr m' = rverr m /\ rcallerr m' = rcallerr m /\
    rexact (rst m) (rmaterialize (CB c) (rst m'))
      (element_nd_impl (concat (concat cube)) (idx3 di ri ci (cube_rows cube) (cube_cols cube)) vl n).
Proof.
  intros cube di ri ci vl m Hr Hc Hsc n m'. unfold m'. rewrite (element3d_call cube di ri ci vl m Hr Hc).
  destruct (idx3_linear di ri ci (cube_rows cube) (cube_cols cube) n) as [cs [xs [k Hlin]]].
  exists (CLinInt cs xs OEq k). unfold idx3 in *.
  apply (element_nd_exact (concat (concat cube)) _ _ vl m cs xs k); try exact Hlin.
  - simpl. repeat split; try exact I; apply Hsc; simpl; apply in_or_app; right; simpl; auto.
  - apply lt_all_of. intros x Hx. apply Hsc. simpl. apply in_or_app; left; exact Hx.
  - apply Hsc. simpl. apply in_or_app; right; simpl; auto.
Qed.

(* on a rectangular matrix, a column index inside 0 .. cols - 1 makes the flattened reading the documented one *)
Lemma nth_concat_rect : forall (mat : list (list nat)) cols r c, (0 < cols)%nat ->
  Forall (fun row => length row = cols) mat -> (c < cols)%nat ->
  nth_error (concat mat) (r * cols + c) = match nth_error mat r with Some row => nth_error row c | None => None end.
Proof.
  induction mat as [|row rest IH]; intros cols r c Hc Hall Hlt.
  - simpl. destruct r; destruct (_ + c)%nat; reflexivity.
  - inversion Hall as [|? ? Hrow Hrest]; subst. simpl concat. destruct r as [|r].
    + simpl. apply nth_error_app1. lia.
    + simpl nth_error at 2. rewrite nth_error_app2 by lia.
      replace (S r * length row + c - length row)%nat with (r * length row + c)%nat by lia.
      apply IH; auto.
Qed.
Lemma rect_Forall : forall mat, rect mat = true -> Forall (fun row => length row = mat_cols mat) mat.
Proof. intros mat H. unfold rect in H. rewrite forallb_forall in H. apply Forall_forall. intros row Hr. apply Nat.eqb_eq. apply H; exact Hr. Qed.

Theorem element2d_meaning : forall mat ri ci vl n a, mat_cols mat <> 0%nat -> rect mat = true ->
  0 <= a ci < Z.of_nat (mat_cols mat) -> a n = a ri * Z.of_nat (mat_cols mat) + a ci ->
  (element_nd_impl (concat mat) (idx2 ri ci (mat_cols mat)) vl n a <-> route_sem (RElement2D mat ri ci vl) 0%nat a = true).
Proof.
  intros mat ri ci vl n a Hc Hr Hci Hn. set (cols := mat_cols mat) in *.
  unfold element_nd_impl, route_sem. simpl returns. cbv iota. unfold idx2. simpl eval_expr.
  unfold mat_at, nth_z.
  pose proof (rect_Forall mat Hr) as HF. fold cols in HF.
  destruct (0 <=? a ri) eqn:E0.
  - apply Z.leb_le in E0.
    assert (Eidx : Z.to_nat (a ri * Z.of_nat cols + a ci) = (Z.to_nat (a ri) * cols + Z.to_nat (a ci))%nat) by nia.
    assert (Hcl : (Z.to_nat (a ci) < cols)%nat) by lia.
    pose proof (nth_concat_rect mat cols (Z.to_nat (a ri)) (Z.to_nat (a ci)) ltac:(lia) HF Hcl) as NC.
    assert (E1 : (0 <=? a ci) = true) by (apply Z.leb_le; lia).
    simpl obind. split.
    + intros [k [x [Ek [Ean [H0 [En Hx]]]]]]. inversion Ek as [Ek']. rewrite <- Ek' in En. rewrite Eidx, NC in En.
      destruct (nth_error mat (Z.to_nat (a ri))) as [row|]; [|discriminate]. simpl. rewrite E1, En. apply Z.eqb_eq; exact Hx.
    + intro H. destruct (nth_error mat (Z.to_nat (a ri))) as [row|] eqn:Er; [|discriminate]. simpl in H. rewrite E1 in H.
      destruct (nth_error row (Z.to_nat (a ci))) as [x|] eqn:Ex; [|discriminate]. apply Z.eqb_eq in H.
      exists (a ri * Z.of_nat cols + a ci), x. repeat split; auto; try nia. rewrite Eidx, NC. reflexivity.
  - apply Z.leb_gt in E0. simpl obind. split; [|discriminate].
    intros [k [x [Ek [Ean [H0 _]]]]]. inversion Ek as [Ek']. exfalso. nia.
Qed.

(* ---- the finding: closed witnesses (the case lines of known_findings.txt, class element_nd_index) ---- *)
Definition prog_2x2 (r c : Z) (call : route) : list rstmt :=
  [SB (SInt 0 0); SB (SInt 0 0); SB (SInt 1 1); SB (SInt 0 0); SB (SInt r r); SB (SInt c c); SB (SInt 0 1); SCall call].
(* matrix [[0, 0], [1, 0]], row 0, col 2: accepted with value 1 (it reads matrix[1][0]) *)
Lemma element2d_index_refuted : exists prog r s ps a,
  r = RElement2D [[0%nat; 1%nat]; [2%nat; 3%nat]] 4%nat 5%nat 6%nat /\ prog = prog_2x2 0 2 r /\
  kf_element_nd_index r [[0]; [0]; [1]; [0]; [0]; [2]; [0; 1]] = true /\
  lowered_of prog = Some (s, ps) /\ rvalidate s ps = None /\ inst a s /\ rallsatb ps a = true /\ route_sem r 0%nat a = false.
Proof.
  eexists; exists (RElement2D [[0%nat; 1%nat]; [2%nat; 3%nat]] 4%nat 5%nat 6%nat). do 2 eexists. exists (asgl [0; 0; 1; 0; 0; 2; 1; 2]).
  split; [reflexivity|]. split; [reflexivity|]. split; [vm_compute; reflexivity|]. split; [vm_compute; reflexivity|].
  split; [vm_compute; reflexivity|]. split; [|split; vm_compute; reflexivity].
  intros v Hv. simpl in Hv. do 8 (destruct v as [|v]; [vm_compute; tauto|]). simpl in Hv; lia.
Qed.
(* row 1, col -1 reads matrix[0][1] *)
Lemma element2d_negative_col_refuted : exists prog r s ps a,
  r = RElement2D [[0%nat; 2%nat]; [1%nat; 3%nat]] 4%nat 5%nat 6%nat /\ prog = prog_2x2 1 (-1) r /\
  lowered_of prog = Some (s, ps) /\ rvalidate s ps = None /\ inst a s /\ rallsatb ps a = true /\ route_sem r 0%nat a = false.
Proof.
  eexists; exists (RElement2D [[0%nat; 2%nat]; [1%nat; 3%nat]] 4%nat 5%nat 6%nat). do 2 eexists. exists (asgl [0; 0; 1; 0; 1; -1; 1; 1]).
  split; [reflexivity|]. split; [reflexivity|]. split; [vm_compute; reflexivity|].
  split; [vm_compute; reflexivity|]. split; [|split; vm_compute; reflexivity].
  intros v Hv. simpl in Hv. do 8 (destruct v as [|v]; [vm_compute; tauto|]). simpl in Hv; lia.
Qed.
(* ragged [[x0], [x1, x2]]: row 2, col 0 reads x2 although matrix[2] does not exist; first row empty: the "dummy" arm *)
Lemma element2d_ragged_refuted : exists prog r r' s ps a s' ps' a',
  r = RElement2D [[0%nat]; [1%nat; 2%nat]] 4%nat 5%nat 6%nat /\ prog = prog_2x2 2 0 r /\
  kf_element_nd_index r [[0]; [0]; [1]; [0]; [2]; [0]; [0; 1]] = true /\
  lowered_of prog = Some (s, ps) /\ inst a s /\ rallsatb ps a = true /\ route_sem r 0%nat a = false /\
  r' = RElement2D [[]; [2%nat; 3%nat]] 4%nat 5%nat 6%nat /\ kf_element_nd_dummy r' = true /\
  lowered_of (prog_2x2 1 0 r') = Some (s', ps') /\ inst a' s' /\ rallsatb ps' a' = true /\ route_sem r' 0%nat a' = false.
Proof.
  eexists; exists (RElement2D [[0%nat]; [1%nat; 2%nat]] 4%nat 5%nat 6%nat), (RElement2D [[]; [2%nat; 3%nat]] 4%nat 5%nat 6%nat).
  do 2 eexists. exists (asgl [0; 0; 1; 0; 2; 0; 1; 2]). do 2 eexists. exists (asgl [0; 0; 1; 0; 1; 0; 0]).
  split; [reflexivity|]. split; [reflexivity|]. split; [vm_compute; reflexivity|]. split; [vm_compute; reflexivity|].
  split; [intros v Hv; simpl in Hv; do 8 (destruct v as [|v]; [vm_compute; tauto|]); simpl in Hv; lia|].
  split; [vm_compute; reflexivity|]. split; [vm_compute; reflexivity|]. split; [reflexivity|]. split; [vm_compute; reflexivity|].
  split; [vm_compute; reflexivity|].
  split; [intros v Hv; simpl in Hv; do 7 (destruct v as [|v]; [vm_compute; tauto|]); simpl in Hv; lia|].
  split; vm_compute; reflexivity.
Qed.
(* element_3d, cube 2 x 2 x 2, depth 0, row 2, col 0: reads cube[1][0][0] *)
Lemma element3d_index_refuted : exists prog r s ps a,
  r = RElement3D [[[0%nat; 1%nat]; [2%nat; 3%nat]]; [[4%nat; 5%nat]; [6%nat; 7%nat]]] 8%nat 9%nat 10%nat 11%nat /\
  prog = [SArr [2%nat; 2%nat; 2%nat] 0 1; SB (SInt 0 0); SB (SInt 2 2); SB (SInt 0 0); SB (SInt 0 1); SCall r] /\
  lowered_of prog = Some (s, ps) /\ kf_element_nd_index r s = true /\ rvalidate s ps = None /\
  inst a s /\ rallsatb ps a = true /\ route_sem r 0%nat a = false.
Proof.
  eexists; exists (RElement3D [[[0%nat; 1%nat]; [2%nat; 3%nat]]; [[4%nat; 5%nat]; [6%nat; 7%nat]]] 8%nat 9%nat 10%nat 11%nat).
  do 2 eexists. exists (asgl [0; 0; 0; 0; 1; 0; 0; 0; 0; 2; 0; 1; 4]).
  split; [reflexivity|]. split; [reflexivity|]. split; [vm_compute; reflexivity|]. split; [vm_compute; reflexivity|].
  split; [vm_compute; reflexivity|]. split; [|split; vm_compute; reflexivity].
  intros v Hv. simpl in Hv. do 13 (destruct v as [|v]; [vm_compute; tauto|]). simpl in Hv; lia.
Qed.

(* ---- array factories: n handles with the ORDERED bounds, whatever the nesting ---- *)
Lemma repeat_m_S : forall n f m, repeat_m (S n) f m = repeat_m n f (f m). Proof. reflexivity. Qed.
Lemma repeat_m_add : forall a b f m, repeat_m (a + b) f m = repeat_m b f (repeat_m a f m).
Proof. induction a as [|a IH]; intros; [reflexivity|]. simpl. apply IH. Qed.
Lemma repeat_m_mul : forall a b f m, repeat_m a (repeat_m b f) m = repeat_m (a * b) f m.
Proof. induction a as [|a IH]; intros; [reflexivity|]. simpl. rewrite repeat_m_add. apply IH. Qed.
Definition nprod (dims : list nat) : nat := fold_right Nat.mul 1%nat dims.
Theorem exec_arr_flat : forall dims lo hi m, exec_arr dims lo hi m = repeat_m (nprod dims) (declare_r (arr_dom lo hi)) m.
Proof.
  induction dims as [|n r IH]; intros lo hi m; [reflexivity|].
  destruct r as [|n2 r2].
  - simpl. rewrite Nat.mul_1_r. reflexivity.
  - change (exec_arr (n :: n2 :: r2) lo hi m) with (repeat_m n (exec_arr (n2 :: r2) lo hi) m).
    assert (E : forall k m0, repeat_m k (exec_arr (n2 :: r2) lo hi) m0 = repeat_m k (repeat_m (nprod (n2 :: r2)) (declare_r (arr_dom lo hi))) m0).
    { induction k as [|k IHk]; intro m0; [reflexivity|]. rewrite !repeat_m_S. rewrite (IH lo hi m0). apply IHk. }
    rewrite E, repeat_m_mul. reflexivity.
Qed.
(* a factory declaration is the same as that many m.int declarations with the ordered bounds *)
Lemma declare_r_is_int : forall lo hi m, rpanic m = false -> rcallerr m = false -> lo <= hi ->
  rexec (SB (SInt lo hi)) m = declare_r (drange lo hi) m.
Proof.
  intros lo hi m Hp Hc _. unfold rexec. rewrite Hp, Hc. simpl. unfold exec_base, declare_r, declare, rnew_var, new_var, give, with_st. simpl.
  rewrite !app_nil_r. destruct m as [[s ps] pe us pa ve ce]; simpl in *. subst. rewrite orb_false_r. reflexivity.
Qed.
Lemma arr_dom_ordered : forall lo hi, arr_dom lo hi = drange (Z.min lo hi) (Z.max lo hi).
Proof.
  intros lo hi. unfold arr_dom. destruct (lo <? hi) eqn:E.
  - apply Z.ltb_lt in E. rewrite Z.min_l, Z.max_r by lia. reflexivity.
  - apply Z.ltb_ge in E. rewrite Z.min_r, Z.max_l by lia. reflexivity.
Qed.
(* unlike Model::int, whose reversed bounds give the empty domain *)
Lemma ints_swaps_bounds :
  fst (rst (rbuild [SArr [2%nat] 3 1])) = [[1; 2; 3]; [1; 2; 3]] /\ fst (rst (rbuild [SB (SInt 3 1)])) = [[]].
Proof. vm_compute. split; reflexivity. Qed.

(* ---- behaviour after the PROPOSED repairs routes_table_nd_arity.patch / routes_element_nd_index.patch
   (Model/Routes.v call_ext_fixed; NOT the current tree): the former witnesses ---- *)
Lemma element2d_ext_fixed_rejects : exists s ps,
  rlower (rbuild_ext_fixed (prog_2x2 0 2 (RElement2D [[0%nat; 1%nat]; [2%nat; 3%nat]] 4%nat 5%nat 6%nat))) = RLOk s ps /\
  ps = [PB (PLeq (VConst 0) (VVar 5)); PB (PLeq (VVar 5) (VConst 1)); PElement [0%nat; 1%nat; 2%nat; 3%nat] 7 6; PB (PLinEq [2; 1; -1] [4%nat; 5%nat; 7%nat] 0)] /\
  rallsatb ps (asgl [0; 0; 1; 0; 0; 2; 1; 2]) = false /\
  rverr (rbuild_ext_fixed (prog_2x2 2 0 (RElement2D [[0%nat]; [1%nat; 2%nat]] 4%nat 5%nat 6%nat))) = true.
Proof. do 2 eexists. split; [vm_compute; reflexivity|]. split; [reflexivity|]. split; vm_compute; reflexivity. Qed.
Lemma table2d_ext_fixed_records :
  rverr (rbuild_ext_fixed [SB (SInt 0 2); SB (SInt 0 2); SCall (RTable2D [[0%nat; 1%nat]] [[0; 1; 2]; [1; 2]])]) = true /\
  rverr (rbuild_ext_fixed [SB (SInt 0 2); SB (SInt 0 2); SCall (RTable3D [[[0%nat; 1%nat]]] [[0; 1; 2]; [1; 2]])]) = true.
Proof. vm_compute. split; reflexivity. Qed.

(* ------------------------------------------------------------------------------------------ *)
(* 11. the repairs routes_gcc_len / routes_empty_domain_read (Model/Routes.v call_fix2 / rbuild_fix2) *)

(* a store with an empty domain is rejected by validation whatever the propagators *)
Lemma rvalidate_empty : forall s ps, existsb dempty s = true -> rvalidate s ps = Some VInvalidDomain.
Proof. intros s ps H. unfold rvalidate. rewrite H. reflexivity. Qed.

(* the posting methods that derive their result variable from the operands' bounds *)
Definition reads_bounds (r : route) : bool :=
  match r with
  | RAdd _ _ | RSub _ _ | RMul _ _ | RMod _ _ | RAbs _ | RSum _ | RSumIter _ => true
  | RMin (_ :: _) | RMax (_ :: _) | RArrMin (_ :: _) | RArrMax (_ :: _) => true
  | _ => false
  end.
Lemma reads_bounds_simple : forall r, reads_bounds r = true -> simple_ret r = true.
Proof. intros r H; destruct r; try discriminate; try reflexivity; destruct xs; try discriminate; reflexivity. Qed.
Lemma call_fix2_reads : forall r m, reads_bounds r = true ->
  call_fix2 r m = ret_result2 (route_bounds (fst (rst m)) r) (route_desc r) m.
Proof. intros r m H; destruct r; try discriminate; try reflexivity; destruct xs; try discriminate; reflexivity. Qed.

(* operands with non-empty domains: nothing changes *)
Theorem call_fix2_same : forall r m b, reads_bounds r = true -> route_bounds (fst (rst m)) r = Some b ->
  call_fix2 r m = call r m.
Proof.
  intros r m b H Hb. rewrite (call_fix2_reads r m H), (call_simple_ret r m (reads_bounds_simple r H)), Hb.
  unfold ret_result2, ret_result, result_var_opt. destruct (result_var b (route_desc r) (rst m)); reflexivity.
Qed.
(* an operand with an EMPTY domain: no panic; the result variable gets the empty domain, the propagator is posted,
   and validation rejects the model with InvalidDomain whatever else is posted *)
Theorem call_fix2_empty_operand : forall r m, reads_bounds r = true -> route_bounds (fst (rst m)) r = None ->
  let n := rnvars (rst m) in let m' := call_fix2 r m in
  rpanic m' = rpanic m /\ rcallerr m' = rcallerr m /\ rverr m' = rverr m /\ rpend m' = rpend m /\ ruser m' = ruser m ++ [n] /\
  fst (rst m') = fst (rst m) ++ [[]] /\ snd (rst m') = snd (rst m) ++ [route_desc r n] /\
  (forall s' ps, (exists t, s' = fst (rst m') ++ t) -> rvalidate s' ps = Some VInvalidDomain) /\
  rpanic (call r m) = true.
Proof.
  intros r m H Hb n m'. unfold m'. rewrite (call_fix2_reads r m H), (call_simple_ret r m (reads_bounds_simple r H)), Hb.
  unfold ret_result2, ret_result, result_var_opt, rnew_var, give, with_st, rpush, panic. simpl.
  repeat (split; [reflexivity|]). split; [|reflexivity].
  intros s' ps [t ->]. apply rvalidate_empty. rewrite !existsb_app. simpl. rewrite orb_true_r. reflexivity.
Qed.
Theorem call_fix2_no_panic : forall r m, reads_bounds r = true -> rpanic (call_fix2 r m) = rpanic m.
Proof.
  intros r m H. rewrite (call_fix2_reads r m H). unfold ret_result2.
  destruct (result_var_opt (route_bounds (fst (rst m)) r) (route_desc r) (rst m)); reflexivity.
Qed.

(* Model::gcc *)
Theorem gcc_fix2_records : forall xs vals cnts m, length vals <> length cnts ->
  let m' := call_fix2 (RGcc xs vals cnts) m in
  rverr m' = true /\ rpanic m' = rpanic m /\ rcallerr m' = rcallerr m /\ rst m' = rst (call (RGcc xs vals cnts) m) /\
  forall a, route_sem (RGcc xs vals cnts) 0%nat a = false.
Proof.
  intros xs vals cnts m H. apply Nat.eqb_neq in H. unfold call_fix2. rewrite H. simpl.
  repeat (split; [reflexivity|]). intro a. unfold route_sem. simpl. rewrite H. reflexivity.
Qed.
Theorem gcc_fix2_same : forall xs vals cnts m, length vals = length cnts ->
  call_fix2 (RGcc xs vals cnts) m = call (RGcc xs vals cnts) m.
Proof. intros xs vals cnts m H. apply Nat.eqb_eq in H. unfold call_fix2. rewrite H. reflexivity. Qed.

(* on the programs covered by the C01 theorems (calls_ok: operands with non-empty domains, no gcc) the repairs
   change nothing: C01 + C03 for route programs hold for the repaired tree *)
Lemma call_fix2_ok : forall r m, call_ok r m -> fixed_same r = true -> call_fix2 r m = call r m.
Proof.
  intros r m [_ [[Hs [b [Hb _]]]|Hd]] Hf.
  - destruct (reads_bounds r) eqn:Hr; [apply (call_fix2_same r m b Hr Hb)|].
    destruct r; try discriminate; try reflexivity; destruct xs; try discriminate; reflexivity.
  - destruct r; try discriminate; try reflexivity.
    simpl in Hd, Hf. unfold call_fix2, call_ext_fixed, call_fixed. rewrite Hf. reflexivity.
Qed.
Lemma fold_calls_fix2 : forall calls m, sstore (fst (rst m)) -> calls_ok calls m -> forallb fixed_same calls = true ->
  rpanic m = false -> rcallerr m = false ->
  fold_left (fun m s => rexec_fix2 s m) (map SCall calls) m = fold_left step_call calls m.
Proof.
  induction calls as [|r rest IH]; intros m Hss Hok Hf Hp Hc; simpl; [reflexivity|].
  destruct Hok as [Hc1 Hrest]. simpl in Hf. apply andb_true_iff in Hf. destruct Hf as [Hf1 Hf2].
  assert (E : rexec_fix2 (SCall r) m = step_call m r).
  { unfold rexec_fix2, step_call. rewrite Hp, Hc. simpl. apply call_fix2_ok; [exact Hc1|].
    clear -Hf1. destruct r; simpl in *; try reflexivity; try discriminate; try exact Hf1.
    - unfold table_okb in *. rewrite map_length. exact Hf1.
    - rewrite map_length. exact Hf1.
    - rewrite rows_okb_map. exact Hf1.
    - rewrite cube_okb_map. exact Hf1. }
  rewrite E. destruct (call_ok_step _ m Hss Hc1) as [Hp1 [Hce1 [_ [Hss1 _]]]].
  apply IH; auto; unfold step_call; congruence.
Qed.
Lemma rexec_fix2_decl : forall d m, rexec_fix2 (SB d) m = rexec (SB d) m. Proof. reflexivity. Qed.
Lemma fold_decls_fix2 : forall (ds : list stmt) m,
  fold_left (fun m s => rexec_fix2 s m) (map SB ds) m = fold_left (fun m s => rexec s m) (map SB ds) m.
Proof. induction ds as [|d r IH]; intro m; simpl; [reflexivity|]. rewrite rexec_fix2_decl. apply IH. Qed.
Theorem routes_model_solutions_fix2 : forall decls calls pick sols best,
  forallb is_decl decls = true -> forallb fixed_same calls = true ->
  let m0 := rbuild (map SB decls) in
  calls_ok calls m0 ->
  forall s ps, rlower (rbuild_fix2 (map SB decls ++ map SCall calls)) = RLOk s ps ->
  rvalidate s ps = None ->
  enumerate pick (map denote_route ps) s = SOk sols best ->
  let means a := inst a (map decl_dom decls) /\ calls_means calls m0 a in
  NoDup sols /\
  (forall t, In t sols -> all_fixed t = true /\ means (asg_of t)) /\
  (forall a, means a -> exists t, In t sols /\ inst a t).
Proof.
  intros decls calls pick sols best Hd Hf m0 Hok s ps Hl.
  assert (E : rbuild_fix2 (map SB decls ++ map SCall calls) = rbuild (map SB decls ++ map SCall calls)).
  { unfold rbuild_fix2, rbuild. rewrite !fold_left_app.
    rewrite (fold_decls_fix2 decls rs0). fold (rbuild (map SB decls)). fold m0.
    assert (E0 : m0 = mkrs (map decl_dom decls, []) [] (seq 0 (length decls)) false false false) by (apply rbuild_decls; exact Hd).
    assert (Hss : sstore (fst (rst m0))) by (rewrite E0; simpl; apply decls_sstore).
    rewrite (fold_calls_fix2 calls m0 Hss Hok Hf) by (rewrite E0; reflexivity).
    rewrite (fold_calls calls m0 Hss Hok) by (rewrite E0; reflexivity). reflexivity. }
  rewrite E in Hl.
  exact (routes_model_solutions decls calls pick sols best Hd Hok s ps Hl).
Qed.

(* the former witnesses on the repaired model (case lines of known_findings.txt / corpus) *)
Lemma empty_domain_fixed_invalid : exists s ps,
  let m := rbuild_fix2 [SB (SInt 0 3); SB (SNew (CBin (EVar 0) OEq (EVal 7))); SCall (RAbs (OV 0%nat))] in
  rpanic m = false /\ rlower m = RLOk s ps /\ s = [[]; [7]; []] /\ rvalidate s ps = Some VInvalidDomain /\
  rpanic (rbuild_ext_fixed [SB (SInt 0 3); SB (SNew (CBin (EVar 0) OEq (EVal 7))); SCall (RAbs (OV 0%nat))]) = true.
Proof. do 2 eexists. vm_compute. repeat split; reflexivity. Qed.
Lemma empty_domain_fixed_routes :
  forallb (fun r => let m := rbuild_fix2 [SB (SInt 3 1); SB (SInt 0 3); SCall r] in
                    negb (rpanic m) && match rlower m with RLOk s ps => match rvalidate s ps with Some VInvalidDomain => true | _ => false end | RLPanic => false end)
    [RAdd (OV 0%nat) (OV 1%nat); RSub (OV 1%nat) (OV 0%nat); RMul (OV 0%nat) (OC 2); RMod (OV 1%nat) (OV 0%nat); RAbs (OV 0%nat);
     RMin [1%nat; 0%nat]; RMax [0%nat]; RArrMin [0%nat; 1%nat]; RArrMax [1%nat; 0%nat]; RSum [1%nat; 0%nat]; RSumIter [OV 0%nat; OC 1];
     RFElement [1%nat; 0%nat] 1%nat; RCumulative [0%nat; 1%nat] [2; 2] [2; 2] 3] = true.
Proof. vm_compute. reflexivity. Qed.
Lemma api_on_empty_invalid : exists s ps,
  lower (build [SInt 3 1; SInt 0 3; SApi FAdd 0%nat 1%nat]) = LOk s ps /\ s = [[]; [0; 1; 2; 3]; []] /\ validate s ps = Some EInvalidDomain /\
  mpanic (api_call_prefix FAdd 0%nat 1%nat (build [SInt 3 1; SInt 0 3])) = true.
Proof. do 2 eexists. vm_compute. repeat split; reflexivity. Qed.
Lemma gcc_len_fixed_witness :
  let m := rbuild_fix2 [SB (SInt 0 3); SB (SInt 0 3); SCall (RGcc [0%nat; 1%nat] [1; 2] [0%nat])] in
  rverr m = true /\ rpanic m = false /\ rverr (rbuild_ext_fixed [SB (SInt 0 3); SB (SInt 0 3); SCall (RGcc [0%nat; 1%nat] [1; 2] [0%nat])]) = false.
Proof. vm_compute. repeat split; reflexivity. Qed.

(* ------------------------------------------------------------------------------------------ *)
(* 12. the repair d12_validation_operands (finding D12): validate_constraint_parameters counts operands *)

(* add / sub / mul are never rejected on account of their operands, whatever mix of variables and constants *)
Lemma add_mul_params_ok : forall s x y r, bad_params s (PB (PAdd x y r)) = false /\ bad_params s (PB (PMul x y r)) = false /\
  bad_params s (PB (p_sub x y r)) = false.
Proof. intros; repeat split; reflexivity. Qed.
(* modulo: rejected exactly when the divisor OPERAND can be zero: a variable (or a view of one) whose domain contains 0,
   or the constant 0; the dividend plays no part *)
Lemma mod_params_divisor : forall s x y r, bad_params s (PB (PMod x y r)) = divisor_can_be_zero s y.
Proof. reflexivity. Qed.
Lemma mod_const_divisor : forall s x c r, bad_params s (PB (PMod x (VConst c) r)) = (c =? 0).
Proof. reflexivity. Qed.
Lemma mod_var_divisor : forall s x d r, bad_params s (PB (PMod x (VVar d) r)) = memZ 0 (sget s d).
Proof. reflexivity. Qed.

(* the repaired validator only ACCEPTS more: whatever the old one accepted is still accepted *)
Lemma bad_params_weaker : forall s p, bad_params_prefix s p = false -> bad_params s p = false.
Proof.
  intros s p H. destruct p as [q| | | | | | | | | | | | | | | | |]; try reflexivity; try exact H.
  destruct q; try reflexivity. simpl in *. unfold divisor_can_be_zero, reg_vars3, uvarl in *.
  destruct (uvar x) as [a|]; destruct (uvar y) as [d|]; simpl in H; try discriminate. exact H.
Qed.
Theorem rvalidate_accepts_more : forall s ps, rvalidate_prefix s ps = None -> rvalidate s ps = None.
Proof.
  intros s ps H. unfold rvalidate_prefix, rvalidate_with in H. unfold rvalidate.
  destruct (existsb dempty s); [discriminate|]. destruct (existsb _ s); [discriminate|].
  destruct (existsb (alldiff_conflict s) ps); [discriminate|].
  destruct (existsb (bad_params_prefix s) ps) eqn:E; [discriminate|].
  assert (E2 : existsb (bad_params s) ps = false).
  { clear H. induction ps as [|p r IH]; [reflexivity|]. simpl in *. apply orb_false_iff in E. destruct E as [E1 E2].
    rewrite (bad_params_weaker s p E1). apply IH; exact E2. }
  rewrite E2. reflexivity.
Qed.

(* the routes of the former classes kf_mod_const / kf_const_const: a call on non-empty operands whose result fits the size limit
   is accepted unless the divisor can be zero.  Closed sweep over the operand shapes of the former witnesses: *)
Lemma d12_former_witnesses :
  forallb (fun r => match lowered_of [SB (SInt 0 3); SB (SInt 1 3); SCall r] with
                    | Some (s, ps) => match rvalidate s ps, rvalidate_prefix s ps with None, Some VInvalidConstraint => true | _, _ => false end
                    | None => false end)
    [RMod (OV 0%nat) (OC 2); RMod (OC 7) (OV 1%nat); RMod (OC 7) (OC 2); RMod (OV 0%nat) (OC (-3));
     RAdd (OC 1) (OC 2); RSub (OC 1) (OC 2); RMul (OC 1) (OC 2)] = true.
Proof. vm_compute. reflexivity. Qed.
(* a zero divisor stays an error: the constant 0, a variable whose domain contains 0 (also under a constant dividend, where the
   pre-repair validator looked at the RESULT variable instead) *)
Lemma d12_zero_divisor_rejected :
  forallb (fun r => match lowered_of [SB (SInt 0 3); SB (SInt 1 3); SCall r] with
                    | Some (s, ps) => match rvalidate s ps with Some VInvalidConstraint => true | _ => false end
                    | None => false end)
    [RMod (OV 0%nat) (OC 0); RMod (OV 1%nat) (OV 0%nat); RMod (OC 7) (OV 0%nat); RMod (OC 7) (OC 0)] = true.
Proof. vm_compute. reflexivity. Qed.
