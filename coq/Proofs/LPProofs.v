(* Proofs about Model/LP.v: soundness of the optimality (weak duality) and infeasibility (Farkas)
   certificate checkers for every dimension, what `feasible_tol` guarantees, uniqueness of the
   certified optimal value, and the certified-solver corollaries. Stdlib only. *)
Require Import Selen.Model.LP.
From Coq Require Import List ZArith QArith Qabs Bool Lia Lqa.
Import ListNotations.
Open Scope Q_scope.

(* ---------------------------------------------------------------------------------------------- *)
(* booleans to propositions *)

Lemma Qlt_bool_true : forall a b, lp_qlt_bool a b = true -> a < b.
Proof.
  unfold lp_qlt_bool. intros a b H. apply negb_true_iff in H.
  apply Qnot_le_lt. intro L. apply Qle_bool_iff in L. congruence.
Qed.

Lemma veq_Forall2 : forall a b, qveq a b = true -> Forall2 Qeq a b.
Proof.
  induction a as [|x a IH]; destruct b as [|y b]; cbn [qveq]; intros H; try discriminate.
  - constructor.
  - apply andb_prop in H. destruct H as [H1 H2]. constructor.
    + apply Qeq_bool_iff. exact H1.
    + apply IH. exact H2.
Qed.

Lemma vle_Forall2 : forall a b, qvle a b = true -> Forall2 Qle a b.
Proof.
  induction a as [|x a IH]; destruct b as [|y b]; cbn [qvle]; intros H; try discriminate.
  - constructor.
  - apply andb_prop in H. destruct H as [H1 H2]. constructor.
    + apply Qle_bool_iff. exact H1.
    + apply IH. exact H2.
Qed.

Lemma vnonneg_Forall : forall y, qvnonneg y = true -> Forall (Qle 0) y.
Proof.
  unfold qvnonneg. intros y H. apply Forall_forall. intros q Hq.
  rewrite forallb_forall in H. apply Qle_bool_iff. apply H. exact Hq.
Qed.

Lemma rows_ok_Forall2 : forall A b x, lp_rows_ok A b x = true ->
  Forall2 Qle (map (fun r => qdot r x) A) b.
Proof.
  induction A as [|r A IH]; destruct b as [|bi b]; cbn [lp_rows_ok map]; intros x H; try discriminate.
  - constructor.
  - apply andb_prop in H. destruct H as [H1 H2]. constructor.
    + apply Qle_bool_iff. exact H1.
    + apply IH. exact H2.
Qed.

(* ---------------------------------------------------------------------------------------------- *)
(* algebra of qdot / qvadd / qvscale / qcomb *)

Lemma dot_nil_r : forall a, qdot a [] == 0.
Proof. destruct a; reflexivity. Qed.

Lemma dot_repeat0 : forall n x, qdot (repeat 0 n) x == 0.
Proof.
  induction n as [|n IH]; intros x; cbn [repeat qdot].
  - reflexivity.
  - destruct x as [|a x]. reflexivity. rewrite IH. ring.
Qed.

Lemma dot_compat_l : forall a b x, Forall2 Qeq a b -> qdot a x == qdot b x.
Proof.
  intros a b x H. revert x. induction H as [|p q a b Hpq _ IH]; intros x.
  - reflexivity.
  - destruct x as [|c x]; cbn [qdot]. reflexivity. rewrite Hpq, IH. reflexivity.
Qed.

Lemma dot_vscale : forall k a x, qdot (qvscale k a) x == k * qdot a x.
Proof.
  unfold qvscale. induction a as [|p a IH]; intros x; cbn [map qdot].
  - ring.
  - destruct x as [|c x]. ring. rewrite IH. ring.
Qed.

Lemma dot_vopp : forall a x, qdot (qvopp a) x == - qdot a x.
Proof.
  unfold qvopp. induction a as [|p a IH]; intros x; cbn [map qdot].
  - ring.
  - destruct x as [|c x]. ring. rewrite IH. ring.
Qed.

Lemma dot_vadd : forall a b x, length a = length b ->
  qdot (qvadd a b) x == qdot a x + qdot b x.
Proof.
  induction a as [|p a IH]; destruct b as [|q b]; cbn [length qvadd qdot]; intros x H; try discriminate.
  - ring.
  - destruct x as [|c x]. ring. rewrite IH by lia. ring.
Qed.

Lemma vadd_length : forall a b, length a = length b -> length (qvadd a b) = length a.
Proof.
  induction a as [|p a IH]; destruct b as [|q b]; cbn [length qvadd]; intros H; try discriminate.
  - reflexivity.
  - rewrite IH by lia. reflexivity.
Qed.

Lemma vscale_length : forall k a, length (qvscale k a) = length a.
Proof. intros. unfold qvscale. apply map_length. Qed.

Lemma comb_length : forall n rows y, Forall (fun r => length r = n) rows ->
  length (qcomb n y rows) = n.
Proof.
  induction rows as [|r rows IH]; intros y H.
  - destruct y; cbn [qcomb]; apply repeat_length.
  - destruct y as [|yi y]; cbn [qcomb]. apply repeat_length.
    inversion H as [|? ? Hr Hrs]; subst.
    rewrite vadd_length; rewrite vscale_length. reflexivity.
    rewrite IH by assumption. reflexivity.
Qed.

(* (sum_i y_i row_i) . x  =  sum_i y_i (row_i . x) *)
Lemma comb_dot : forall n rows y x, Forall (fun r => length r = n) rows ->
  qdot (qcomb n y rows) x == qdot y (map (fun r => qdot r x) rows).
Proof.
  induction rows as [|r rows IH]; intros y x H.
  - destruct y; cbn [qcomb map]. rewrite dot_repeat0. reflexivity.
    rewrite dot_repeat0, dot_nil_r. reflexivity.
  - destruct y as [|yi y]; cbn [qcomb map qdot]. apply dot_repeat0.
    inversion H as [|? ? Hr Hrs]; subst.
    rewrite dot_vadd.
    + rewrite dot_vscale, IH by assumption. reflexivity.
    + rewrite vscale_length, comb_length by assumption. reflexivity.
Qed.

Lemma dot_mono_r : forall y v d, Forall (Qle 0) y -> Forall2 Qle v d -> qdot y v <= qdot y d.
Proof.
  induction y as [|a y IH]; intros v d Hy Hvd.
  - cbn [qdot]. apply Qle_refl.
  - inversion Hy as [|? ? Ha Hy']; subst.
    destruct Hvd as [|p q v d Hpq Hvd]; cbn [qdot]. apply Qle_refl.
    apply Qplus_le_compat.
    + rewrite (Qmult_comm a p), (Qmult_comm a q). apply Qmult_le_compat_r; assumption.
    + apply IH; assumption.
Qed.

(* ---------------------------------------------------------------------------------------------- *)
(* the identity rows *)

Lemma Forall2_map_ext : forall (f g : list Q -> Q) L v,
  (forall r, f r == g r) -> Forall2 Qeq (map g L) v -> Forall2 Qeq (map f L) v.
Proof.
  induction L as [|r L IH]; intros v E H; cbn [map] in *.
  - exact H.
  - inversion H as [|? q ? v' Hq Hv]; subst. constructor.
    + rewrite E. exact Hq.
    + apply IH; assumption.
Qed.

Lemma ident_dot : forall n x, length x = n ->
  Forall2 Qeq (map (fun r => qdot r x) (qident n)) x.
Proof.
  induction n as [|n IH]; destruct x as [|a x]; cbn [length qident map]; intros H; try discriminate.
  - constructor.
  - constructor.
    + cbn [qdot]. rewrite dot_repeat0. ring.
    + rewrite map_map.
      apply Forall2_map_ext with (g := fun r => qdot r x).
      * intros r. cbn [qdot]. ring.
      * apply IH. lia.
Qed.

Lemma ident_len : forall n, Forall (fun r => length r = n) (qident n).
Proof.
  induction n as [|n IH]; cbn [qident]; constructor.
  - cbn [length]. rewrite repeat_length. reflexivity.
  - apply Forall_forall. intros r Hr. apply in_map_iff in Hr. destruct Hr as [r' [E Hr']]. subst r.
    rewrite Forall_forall in IH. cbn [length]. rewrite (IH r' Hr'). reflexivity.
Qed.

Lemma Forall2_Qeq_Qle : forall a b c, Forall2 Qeq a b -> Forall2 Qle b c -> Forall2 Qle a c.
Proof.
  intros a b c H. revert c. induction H as [|p q a b Hpq _ IH]; intros c Hc.
  - inversion Hc. constructor.
  - inversion Hc as [|? r ? c' Hqr Hbc]; subst. constructor.
    + rewrite Hpq. exact Hqr.
    + apply IH. exact Hbc.
Qed.

Lemma neg_rows_le : forall x L v l,
  Forall2 Qeq (map (fun r => qdot r x) L) v -> Forall2 Qle l v ->
  Forall2 Qle (map (fun r => qdot r x) (map qvopp L)) (qvopp l).
Proof.
  induction L as [|r L IH]; intros v l Hv Hl; cbn [map] in *.
  - inversion Hv; subst. inversion Hl; subst. constructor.
  - inversion Hv as [|? q ? v' Hq Hv']; subst.
    inversion Hl as [|p ? l' ? Hp Hl']; subst.
    unfold qvopp at 2. cbn [map]. constructor.
    + rewrite dot_vopp, Hq. apply Qopp_le_compat. exact Hp.
    + apply (IH v' l'); assumption.
Qed.

(* ---------------------------------------------------------------------------------------------- *)
(* well-formedness and the constraint system M x <= d *)

Lemma wf_rows_len : forall P, lp_wf P = true -> Forall (fun r => length r = lp_nvars P) (lp_sys_rows P).
Proof.
  intros P H. unfold lp_wf in H.
  apply andb_prop in H. destruct H as [_ HA].
  unfold lp_sys_rows. apply Forall_app. split; [|apply Forall_app; split].
  - apply Forall_forall. intros r Hr. rewrite forallb_forall in HA.
    apply Nat.eqb_eq. apply HA. exact Hr.
  - apply ident_len.
  - apply Forall_forall. intros r Hr. apply in_map_iff in Hr. destruct Hr as [r' [E Hr']]. subst r.
    unfold qvopp. rewrite map_length.
    pose proof (ident_len (lp_nvars P)) as HI. rewrite Forall_forall in HI. apply HI. exact Hr'.
Qed.

Lemma feasible_wf : forall P x, feasible P x = true -> lp_wf P = true.
Proof.
  unfold feasible. intros P x H.
  do 4 (apply andb_prop in H; destruct H as [H _]). exact H.
Qed.

(* a feasible point satisfies every row of the system *)
Lemma feasible_sys : forall P x, feasible P x = true ->
  Forall2 Qle (map (fun r => qdot r x) (lp_sys_rows P)) (lp_sys_rhs P).
Proof.
  unfold feasible. intros P x H.
  apply andb_prop in H. destruct H as [H Hu].
  apply andb_prop in H. destruct H as [H Hl].
  apply andb_prop in H. destruct H as [H Hr].
  apply andb_prop in H. destruct H as [_ Hn].
  apply Nat.eqb_eq in Hn.
  unfold lp_sys_rows, lp_sys_rhs. rewrite !map_app.
  apply Forall2_app; [|apply Forall2_app].
  - apply rows_ok_Forall2. exact Hr.
  - apply Forall2_Qeq_Qle with (b := x).
    + apply ident_dot. exact Hn.
    + apply vle_Forall2. exact Hu.
  - apply neg_rows_le with (v := x).
    + apply ident_dot. exact Hn.
    + apply vle_Forall2. exact Hl.
Qed.

(* weak duality / Farkas core: for feasible x and y >= 0, (y^T M) . x <= y . d *)
Lemma weak_duality_sys : forall P x y, feasible P x = true -> qvnonneg y = true ->
  qdot (qcomb (lp_nvars P) y (lp_sys_rows P)) x <= qdot y (lp_sys_rhs P).
Proof.
  intros P x y Hf Hy.
  rewrite comb_dot by (apply wf_rows_len; eapply feasible_wf; exact Hf).
  apply dot_mono_r.
  - apply vnonneg_Forall. exact Hy.
  - apply feasible_sys. exact Hf.
Qed.

(* ---------------------------------------------------------------------------------------------- *)
(* certificate soundness *)

Lemma check_opt_parts : forall P x y, check_opt P x y = true ->
  feasible P x = true /\ qvnonneg y = true /\
  Forall2 Qeq (qcomb (lp_nvars P) y (lp_sys_rows P)) (lp_c P) /\
  qdot y (lp_sys_rhs P) == qdot (lp_c P) x.
Proof.
  unfold check_opt. intros P x y H.
  apply andb_prop in H. destruct H as [H He].
  apply andb_prop in H. destruct H as [H Hc].
  apply andb_prop in H. destruct H as [H Hy].
  apply andb_prop in H. destruct H as [Hf _].
  repeat split; try assumption.
  - apply veq_Forall2. exact Hc.
  - apply Qeq_bool_iff. exact He.
Qed.

Theorem cert_optimal_sound : forall P x y, check_opt P x y = true ->
  feasible P x = true /\
  forall x', feasible P x' = true -> objective P x' <= objective P x.
Proof.
  intros P x y H. apply check_opt_parts in H. destruct H as [Hf [Hy [Hc He]]].
  split. exact Hf.
  intros x' Hf'. unfold objective. rewrite !Qred_correct.
  rewrite <- (dot_compat_l _ _ x' Hc). rewrite <- He.
  apply weak_duality_sys; assumption.
Qed.

Theorem cert_infeasible_sound : forall P y, check_infeasible P y = true ->
  forall x, feasible P x = false.
Proof.
  unfold check_infeasible. intros P y H x.
  apply andb_prop in H. destruct H as [H Hneg].
  apply andb_prop in H. destruct H as [H Hc].
  apply andb_prop in H. destruct H as [H Hy].
  destruct (feasible P x) eqn:Hf; [exfalso|reflexivity].
  pose proof (weak_duality_sys P x y Hf Hy) as W.
  apply veq_Forall2 in Hc. rewrite (dot_compat_l _ _ x Hc), dot_repeat0 in W.
  apply Qlt_bool_true in Hneg. lra.
Qed.

(* two certified optima of the same problem have the same objective value *)
Theorem optimum_unique_value : forall P x1 y1 x2 y2,
  check_opt P x1 y1 = true -> check_opt P x2 y2 = true ->
  objective P x1 == objective P x2.
Proof.
  intros P x1 y1 x2 y2 H1 H2.
  apply cert_optimal_sound in H1. apply cert_optimal_sound in H2.
  destruct H1 as [F1 O1]. destruct H2 as [F2 O2].
  apply Qle_antisym; auto.
Qed.

(* a problem cannot have both certificates *)
Theorem certs_exclusive : forall P x y y', check_opt P x y = true -> check_infeasible P y' = true -> False.
Proof.
  intros P x y y' H1 H2. apply cert_optimal_sound in H1. destruct H1 as [F _].
  rewrite (cert_infeasible_sound P y' H2 x) in F. discriminate.
Qed.

(* ---------------------------------------------------------------------------------------------- *)
(* the certified solver *)

Lemma lp_solve_optimal_inv : forall fuel P x z y, lp_solve fuel P = Optimal x z y ->
  check_opt P x y = true /\ z = objective P x.
Proof.
  unfold lp_solve. intros fuel P x z y H.
  destruct (negb (lp_wf P)); [discriminate|].
  destruct (lp_core fuel P) as [x0 y0|y0| | |]; try discriminate.
  - destruct (check_opt P x0 y0) eqn:E; [|discriminate].
    inversion H; subst. split; [exact E|reflexivity].
  - destruct (check_infeasible P y0); discriminate.
Qed.

Lemma lp_solve_infeasible_inv : forall fuel P y, lp_solve fuel P = Infeasible y ->
  check_infeasible P y = true.
Proof.
  unfold lp_solve. intros fuel P y H.
  destruct (negb (lp_wf P)); [discriminate|].
  destruct (lp_core fuel P) as [x0 y0|y0| | |]; try discriminate.
  - destruct (check_opt P x0 y0); discriminate.
  - destruct (check_infeasible P y0) eqn:E; [|discriminate].
    inversion H; subst. exact E.
Qed.

Theorem lp_optimal_certified : forall fuel P x z y, lp_solve fuel P = Optimal x z y ->
  feasible P x = true /\
  (forall x', feasible P x' = true -> objective P x' <= z) /\
  z == objective P x.
Proof.
  intros fuel P x z y H. apply lp_solve_optimal_inv in H. destruct H as [Hc Hz]. subst z.
  apply cert_optimal_sound in Hc. destruct Hc as [Hf Ho].
  split; [exact Hf|split; [exact Ho|reflexivity]].
Qed.

Theorem lp_infeasible_certified : forall fuel P y, lp_solve fuel P = Infeasible y ->
  forall x, feasible P x = false.
Proof.
  intros fuel P y H. apply lp_solve_infeasible_inv in H.
  apply cert_infeasible_sound with (y := y). exact H.
Qed.

(* whatever the fuel (and hence the pivoting path), two Optimal answers agree on the value *)
Theorem lp_optimal_value_unique : forall f1 f2 P x1 z1 y1 x2 z2 y2,
  lp_solve f1 P = Optimal x1 z1 y1 -> lp_solve f2 P = Optimal x2 z2 y2 -> z1 == z2.
Proof.
  intros f1 f2 P x1 z1 y1 x2 z2 y2 H1 H2.
  apply lp_solve_optimal_inv in H1. apply lp_solve_optimal_inv in H2.
  destruct H1 as [C1 E1]. destruct H2 as [C2 E2]. subst z1 z2.
  eapply optimum_unique_value; eassumption.
Qed.

Theorem lp_status_exclusive : forall f1 f2 P x z y y',
  lp_solve f1 P = Optimal x z y -> lp_solve f2 P = Infeasible y' -> False.
Proof.
  intros f1 f2 P x z y y' H1 H2.
  apply lp_solve_optimal_inv in H1. destruct H1 as [C1 _].
  apply lp_solve_infeasible_inv in H2.
  eapply certs_exclusive; eassumption.
Qed.

(* Any point that an implementation calls optimal and that is exactly feasible cannot beat the
   certified optimum; any implementation claiming feasibility of a certified-infeasible problem
   is wrong.  (These are the two facts the correspondence judge relies on.) *)
Theorem lp_optimal_bounds_any_feasible : forall fuel P x z y x',
  lp_solve fuel P = Optimal x z y -> feasible P x' = true -> objective P x' <= z.
Proof.
  intros fuel P x z y x' H F. apply lp_optimal_certified in H. destruct H as [_ [O _]]. auto.
Qed.

(* ---------------------------------------------------------------------------------------------- *)
(* what feasible_tol guarantees *)

Lemma rows_ok_tol_Forall2 : forall tol A b x, lp_rows_ok_tol tol A b x = true ->
  Forall2 (fun r bi => qdot r x <= bi + tol) A b.
Proof.
  induction A as [|r A IH]; destruct b as [|bi b]; cbn [lp_rows_ok_tol]; intros x H; try discriminate.
  - constructor.
  - apply andb_prop in H. destruct H as [H1 H2]. constructor.
    + apply Qle_bool_iff. exact H1.
    + apply IH. exact H2.
Qed.

Lemma lower_ok_tol_Forall2 : forall tol l x, lp_lower_ok_tol tol l x = true ->
  Forall2 (fun lj xj => lj - tol <= xj) l x.
Proof.
  induction l as [|lj l IH]; destruct x as [|xj x]; cbn [lp_lower_ok_tol]; intros H; try discriminate.
  - constructor.
  - apply andb_prop in H. destruct H as [H1 H2]. constructor.
    + apply Qle_bool_iff. exact H1.
    + apply IH. exact H2.
Qed.

Lemma upper_ok_tol_Forall2 : forall tol x u, lp_upper_ok_tol tol x u = true ->
  Forall2 (fun xj uj => xj <= uj + tol) x u.
Proof.
  induction x as [|xj x IH]; destruct u as [|uj u]; cbn [lp_upper_ok_tol]; intros H; try discriminate.
  - constructor.
  - apply andb_prop in H. destruct H as [H1 H2]. constructor.
    + apply Qle_bool_iff. exact H1.
    + apply IH. exact H2.
Qed.

Theorem feasible_tol_sound : forall P tol x, feasible_tol P tol x = true ->
  lp_wf P = true /\ length x = lp_nvars P /\
  Forall2 (fun r bi => qdot r x <= bi + tol) (lp_A P) (lp_b P) /\
  Forall2 (fun lj xj => lj - tol <= xj) (lp_l P) x /\
  Forall2 (fun xj uj => xj <= uj + tol) x (lp_u P).
Proof.
  unfold feasible_tol. intros P tol x H.
  apply andb_prop in H. destruct H as [H Hu].
  apply andb_prop in H. destruct H as [H Hl].
  apply andb_prop in H. destruct H as [H Hr].
  apply andb_prop in H. destruct H as [Hw Hn].
  repeat split.
  - exact Hw.
  - apply Nat.eqb_eq. exact Hn.
  - apply rows_ok_tol_Forall2. exact Hr.
  - apply lower_ok_tol_Forall2. exact Hl.
  - apply upper_ok_tol_Forall2. exact Hu.
Qed.

(* with tolerance 0 the tolerant check is the exact specification *)
Lemma Qle_bool_ext : forall a b c d, a == c -> b == d -> Qle_bool a b = Qle_bool c d.
Proof.
  intros a b c d H1 H2. apply eq_true_iff_eq. rewrite !Qle_bool_iff, H1, H2. reflexivity.
Qed.

Theorem feasible_tol_zero : forall P x, feasible_tol P 0 x = feasible P x.
Proof.
  intros P x. unfold feasible_tol, feasible.
  assert (R : forall A b, lp_rows_ok_tol 0 A b x = lp_rows_ok A b x).
  { induction A as [|r A IH]; destruct b as [|bi b]; cbn [lp_rows_ok_tol lp_rows_ok]; try reflexivity.
    rewrite IH. f_equal. apply Qle_bool_ext. reflexivity. ring. }
  assert (L : forall l y, lp_lower_ok_tol 0 l y = qvle l y).
  { induction l as [|lj l IH]; destruct y as [|yj y]; cbn [lp_lower_ok_tol qvle]; try reflexivity.
    rewrite IH. f_equal. apply Qle_bool_ext. ring. reflexivity. }
  assert (U : forall y u, lp_upper_ok_tol 0 y u = qvle y u).
  { induction y as [|yj y IH]; destruct u as [|uj u]; cbn [lp_upper_ok_tol qvle]; try reflexivity.
    rewrite IH. f_equal. apply Qle_bool_ext. reflexivity. ring. }
  rewrite R, L, U. reflexivity.
Qed.

(* q_close_rel is the relative/absolute closeness used by the judge *)
Theorem close_rel_sound : forall tol a b, q_close_rel tol a b = true ->
  Qabs (a - b) <= tol * (1 + Qabs b).
Proof. unfold q_close_rel. intros tol a b H. apply Qle_bool_iff. exact H. Qed.

(* ---------------------------------------------------------------------------------------------- *)
(* non-vacuity: concrete problems solved by computation *)

(* Phase I needed (negative right-hand side, negative lower bounds):
   max x+y  s.t.  x+y <= 4,  x-y <= -1,  -2 <= x,y <= 3 *)
Definition ex_phase1 : LP := mkLP [1; 1] [[1; 1]; [1; -1]] [4; -1] [-2; -2] [3; 3].
Example ex_phase1_solved :
  lp_solve 100 ex_phase1 = Optimal [3 # 2; 5 # 2] 4 [1; 0; 0; 0; 0; 0].
Proof. vm_compute. reflexivity. Qed.

(* degenerate (duplicate rows, redundant rows tight at the optimum, ties in the ratio test) *)
Definition ex_degenerate : LP :=
  mkLP [1; 2] [[1; 1]; [1; 1]; [1; 0]; [0; 1]] [2; 2; 2; 2] [0; 0] [2; 2].
Example ex_degenerate_solved :
  exists x y, lp_solve 100 ex_degenerate = Optimal x 4 y.
Proof. eexists. eexists. vm_compute. reflexivity. Qed.

(* infeasible: x+y <= 1 and x+y >= 2 *)
Definition ex_infeasible : LP := mkLP [1; 1] [[1; 1]; [-1; -1]] [1; -2] [-2; -2] [3; 3].
Example ex_infeasible_solved :
  lp_solve 100 ex_infeasible = Infeasible [1 # 2; 1 # 2; 0; 0; 0; 0].
Proof. vm_compute. reflexivity. Qed.

(* no rows at all, negative bounds; and half-integer data with an active lower-bound multiplier *)
Example ex_norows_solved : lp_solve 100 (mkLP [1] [] [] [-3] [-1]) = Optimal [-1] (-1) [1; 0].
Proof. vm_compute. reflexivity. Qed.
Example ex_halfint_solved :
  lp_solve 100 (mkLP [-1; 1 # 2] [[-1; -1]] [-3] [1; 1] [5; 5]) = Optimal [1; 5] (3 # 2) [0; 0; 1 # 2; 1; 0].
Proof. vm_compute. reflexivity. Qed.

(* the tolerant check accepts a slightly infeasible point and rejects a clearly infeasible one *)
Example ex_tol_accepts : feasible_tol ex_phase1 (1 # 1000000) [3 # 2; (5 # 2) + (1 # 2000000)] = true.
Proof. vm_compute. reflexivity. Qed.
Example ex_tol_rejects : feasible_tol ex_phase1 (1 # 1000000) [3 # 2; (5 # 2) + (1 # 100000)] = false.
Proof. vm_compute. reflexivity. Qed.
Example ex_exact_rejects : feasible ex_phase1 [3 # 2; (5 # 2) + (1 # 2000000)] = false.
Proof. vm_compute. reflexivity. Qed.

(* ---------------------------------------------------------------------------------------------- *)
(* Known findings about the implementation (src/lpsolver), recorded as checked facts: the problem,
   its certified exact answer, and the failure of the answer the implementation was observed to give
   (f64 bit patterns decoded by f64_to_Q).  The observations themselves are re-made on every run by
   the correspondence check (known_findings.txt witnesses). *)

(* class phase1 (needs_phase1 P = true):  max x  s.t.  x >= 2, x <= 3, 0 <= x <= 2.
   lpsolver::solve answers Optimal, objective 3, x = 3 (bits 4008000000000000). *)
Definition kf_phase1 : LP := mkLP [1] [[-1]; [1]] [-2; 3] [0] [2].
Lemma kf_phase1_refuted :
  needs_phase1 kf_phase1 = true /\
  (exists x y, lp_solve 100 kf_phase1 = Optimal x 2 y) /\
  f64_to_Q 1074266112 0 = Some 3 /\
  feasible_tol kf_phase1 (1 # 1000000) [3] = false /\
  q_close_rel (1 # 1000000) 3 2 = false.
Proof.
  split; [vm_compute; reflexivity|].
  split; [eexists; eexists; vm_compute; reflexivity|].
  split; [vm_compute; reflexivity|].
  split; vm_compute; reflexivity.
Qed.

(* outside phase1 (slack basis feasible):  max x  s.t.  x - y <= -1/2, 3x <= 4, 3x <= 3/2,
   -1 <= x <= 1, 1 <= y <= 2.  Optimum 1/2.  lpsolver::solve answers Optimal, objective
   1.0000000000000004, x = (3ff0000000000002, 3ff8000000000000): the row 3x <= 3/2 is violated by 3/2.
   (The ratio test skips a basic variable whose value is a tiny negative rounding residue.) *)
Definition kf_ratio : LP := mkLP [1; 0] [[1; -1]; [3; 0]; [3; 0]] [-1 # 2; 4; 3 # 2] [-1; 1] [1; 2].
Lemma kf_ratio_refuted :
  needs_phase1 kf_ratio = false /\
  (exists x y, lp_solve 100 kf_ratio = Optimal x (1 # 2) y) /\
  match f64_to_Q 1072693248 2, f64_to_Q 1073217536 0 with
  | Some a, Some b => feasible_tol kf_ratio (1 # 1000000) [a; b] = false /\
                      q_close_rel (1 # 1000000) a (1 # 2) = false
  | _, _ => False
  end.
Proof.
  split; [vm_compute; reflexivity|].
  split; [eexists; eexists; vm_compute; reflexivity|].
  vm_compute. split; reflexivity.
Qed.

(* the complement of the class phase1 is inhabited by a non-trivial (degenerate) problem *)
Example kf_phase1_complement : needs_phase1 ex_degenerate = false.
Proof. vm_compute. reflexivity. Qed.
