(* Facts about the binary64 layer Model/B64.v: comparisons vs. real order, absence of NaN,
   monotone rounding, overflow case analysis.  Used by Proofs/FloatIntervalProofs.v. *)
From Coq Require Import ZArith Bool Reals Lra Lia.
From Flocq Require Import Core.Core IEEE754.BinarySingleNaN IEEE754.Binary IEEE754.Bits.
Require Import Selen.Model.B64.
Open Scope R_scope.

Notation R_ := (Binary.B2R 53 1024).
Definition fin (x : f64) : Prop := Binary.is_finite 53 1024 x = true.
Definition nnan (x : f64) : Prop := Binary.is_nan 53 1024 x = false.
Notation fexp64 := (SpecFloat.fexp 53 1024).
Definition RN (x : R) : R := round radix2 fexp64 (round_mode mode_NE) x.
Notation pinf := (Binary.B754_infinity 53 1024 false).
Notation ninf := (Binary.B754_infinity 53 1024 true).

Lemma fin_nnan : forall x, fin x -> nnan x.
Proof. intros [ | | | ]; unfold fin, nnan; simpl; congruence. Qed.

Global Instance fexp64_valid : Valid_exp fexp64.
Proof. apply (@BinarySingleNaN.fexp_correct 53 1024). reflexivity. Qed.

Lemma RN_le : forall x y, x <= y -> RN x <= RN y.
Proof. intros; unfold RN; apply round_le; auto with typeclass_instances. Qed.
Lemma RN_id : forall x : f64, RN (R_ x) = R_ x.
Proof. intros; unfold RN; apply round_generic; auto with typeclass_instances. apply Binary.generic_format_B2R. Qed.
Lemma RN_0 : RN 0 = 0.
Proof. unfold RN; apply round_0; auto with typeclass_instances. Qed.

(* ---- comparisons on finite operands are the real order *)
Lemma fcmp_fin : forall a b, fin a -> fin b -> fcmp a b = Some (Rcompare (R_ a) (R_ b)).
Proof. intros; unfold fcmp, b64_compare; now apply Binary.Bcompare_correct. Qed.

Lemma flt_fin : forall a b, fin a -> fin b -> (flt a b = true <-> R_ a < R_ b).
Proof. intros a b Ha Hb; unfold flt; rewrite (fcmp_fin a b Ha Hb).
  destruct (Rcompare_spec (R_ a) (R_ b)); split; intros; try lra; try discriminate; auto. Qed.
Lemma fle_fin : forall a b, fin a -> fin b -> (fle a b = true <-> R_ a <= R_ b).
Proof. intros a b Ha Hb; unfold fle; rewrite (fcmp_fin a b Ha Hb).
  destruct (Rcompare_spec (R_ a) (R_ b)); split; intros; try lra; try discriminate; auto. Qed.
Lemma fgt_fin : forall a b, fin a -> fin b -> (fgt a b = true <-> R_ b < R_ a).
Proof. intros a b Ha Hb; unfold fgt; rewrite (fcmp_fin a b Ha Hb).
  destruct (Rcompare_spec (R_ a) (R_ b)); split; intros; try lra; try discriminate; auto. Qed.
Lemma fge_fin : forall a b, fin a -> fin b -> (fge a b = true <-> R_ b <= R_ a).
Proof. intros a b Ha Hb; unfold fge; rewrite (fcmp_fin a b Ha Hb).
  destruct (Rcompare_spec (R_ a) (R_ b)); split; intros; try lra; try discriminate; auto. Qed.
Lemma feq_fin : forall a b, fin a -> fin b -> (feq a b = true <-> R_ a = R_ b).
Proof. intros a b Ha Hb; unfold feq; rewrite (fcmp_fin a b Ha Hb).
  destruct (Rcompare_spec (R_ a) (R_ b)); split; intros; try lra; try discriminate; auto. Qed.

Lemma flt_fin_f : forall a b, fin a -> fin b -> (flt a b = false <-> R_ b <= R_ a).
Proof. intros a b Ha Hb. destruct (flt a b) eqn:E.
  - apply flt_fin in E; auto. split; intros; [discriminate | lra].
  - split; auto. intros _. destruct (Rle_or_lt (R_ b) (R_ a)); auto. apply flt_fin in H; auto; congruence. Qed.
Lemma fgt_fin_f : forall a b, fin a -> fin b -> (fgt a b = false <-> R_ a <= R_ b).
Proof. intros a b Ha Hb. destruct (fgt a b) eqn:E.
  - apply fgt_fin in E; auto. split; intros; [discriminate | lra].
  - split; auto. intros _. destruct (Rle_or_lt (R_ a) (R_ b)); auto. apply fgt_fin in H; auto; congruence. Qed.
Lemma fle_fin_f : forall a b, fin a -> fin b -> (fle a b = false <-> R_ b < R_ a).
Proof. intros a b Ha Hb. destruct (fle a b) eqn:E.
  - apply fle_fin in E; auto. split; intros; [discriminate | lra].
  - split; auto. intros _. destruct (Rlt_or_le (R_ b) (R_ a)); auto. apply fle_fin in H; auto; congruence. Qed.

(* ---- comparisons against infinities (finite other side) *)
Lemma fcmp_fin_pinf : forall a, fin a -> fcmp a pinf = Some Lt.
Proof. intros [ | | | ]; unfold fin; simpl; try congruence; reflexivity. Qed.
Lemma fcmp_fin_ninf : forall a, fin a -> fcmp a ninf = Some Gt.
Proof. intros [ | | | ]; unfold fin; simpl; try congruence; reflexivity. Qed.
Lemma fcmp_pinf_fin : forall a, fin a -> fcmp pinf a = Some Gt.
Proof. intros [ | | | ]; unfold fin; simpl; try congruence; reflexivity. Qed.
Lemma fcmp_ninf_fin : forall a, fin a -> fcmp ninf a = Some Lt.
Proof. intros [ | | | ]; unfold fin; simpl; try congruence; reflexivity. Qed.

(* a non-NaN float is finite or one of the two infinities *)
Lemma nnan_cases : forall x, nnan x -> fin x \/ x = pinf \/ x = ninf.
Proof. intros [s|[|]|s pl e|s m e H]; unfold nnan, fin; simpl; intros; auto; discriminate. Qed.

(* ---- signs *)
Lemma Bsign_true_le0 : forall x : f64, Binary.Bsign 53 1024 x = true -> R_ x <= 0.
Proof. intros [s|s|s pl e|s m e H]; simpl; intros; try lra. subst s.
  apply F2R_le_0; simpl; lia. Qed.
Lemma Bsign_false_ge0 : forall x : f64, Binary.Bsign 53 1024 x = false -> 0 <= R_ x.
Proof. intros [s|s|s pl e|s m e H]; simpl; intros; try lra. subst s.
  apply F2R_ge_0; simpl; lia. Qed.

(* ---- results of the four operations on finite operands: finite and correctly rounded, or an
        infinity (overflow) *)
Lemma B2FF_inf : forall (x : f64) s, Binary.B2FF 53 1024 x = Binary.binary_overflow 53 1024 mode_NE s -> x = Binary.B754_infinity 53 1024 s.
Proof. intros [s0|s0|s0 pl e|s0 m e H] s; unfold Binary.binary_overflow; simpl; intros E; try discriminate. now inversion E. Qed.

Lemma fadd_cases : forall a b, fin a -> fin b ->
  (fin (fadd a b) /\ R_ (fadd a b) = RN (R_ a + R_ b)) \/
  (bpow radix2 1024 <= Rabs (RN (R_ a + R_ b)) /\ fadd a b = Binary.B754_infinity 53 1024 (Binary.Bsign 53 1024 a) /\ Binary.Bsign 53 1024 a = Binary.Bsign 53 1024 b).
Proof. intros a b Ha Hb. unfold fadd, b64_plus.
  generalize (Binary.Bplus_correct 53 1024 Hp Hpe binop_nan_pl64 mode_NE a b Ha Hb).
  fold (RN (R_ a + R_ b)).
  destruct (Rlt_bool_spec (Rabs (RN (R_ a + R_ b))) (bpow radix2 1024)).
  - intros (E1 & E2 & _). left. exact (conj E2 E1).
  - intros (E1 & E2). right. split; auto. split; auto. now apply B2FF_inf. Qed.

Lemma fsub_cases : forall a b, fin a -> fin b ->
  (fin (fsub a b) /\ R_ (fsub a b) = RN (R_ a - R_ b)) \/
  (bpow radix2 1024 <= Rabs (RN (R_ a - R_ b)) /\ fsub a b = Binary.B754_infinity 53 1024 (Binary.Bsign 53 1024 a) /\ Binary.Bsign 53 1024 a = negb (Binary.Bsign 53 1024 b)).
Proof. intros a b Ha Hb. unfold fsub, b64_minus.
  generalize (Binary.Bminus_correct 53 1024 Hp Hpe binop_nan_pl64 mode_NE a b Ha Hb).
  fold (RN (R_ a - R_ b)).
  destruct (Rlt_bool_spec (Rabs (RN (R_ a - R_ b))) (bpow radix2 1024)).
  - intros (E1 & E2 & _). left. exact (conj E2 E1).
  - intros (E1 & E2). right. split; auto. split; auto. now apply B2FF_inf. Qed.

Lemma fmul_cases : forall a b, fin a -> fin b ->
  (fin (fmul a b) /\ R_ (fmul a b) = RN (R_ a * R_ b)) \/
  (bpow radix2 1024 <= Rabs (RN (R_ a * R_ b)) /\ fmul a b = Binary.B754_infinity 53 1024 (xorb (Binary.Bsign 53 1024 a) (Binary.Bsign 53 1024 b))).
Proof. intros a b Ha Hb. unfold fmul, b64_mult.
  generalize (Binary.Bmult_correct 53 1024 Hp Hpe binop_nan_pl64 mode_NE a b).
  fold (RN (R_ a * R_ b)).
  destruct (Rlt_bool_spec (Rabs (RN (R_ a * R_ b))) (bpow radix2 1024)).
  - intros (E1 & E2 & _). left. split; auto. unfold fin in *. change (Binary.is_finite 53 1024 (Binary.Bmult 53 1024 Hp Hpe binop_nan_pl64 mode_NE a b) = true). rewrite E2. now rewrite Ha, Hb.
  - intros E1. right. split; auto. now apply B2FF_inf. Qed.

Lemma fdiv_cases : forall a b, fin a -> fin b -> R_ b <> 0 ->
  (fin (fdiv a b) /\ R_ (fdiv a b) = RN (R_ a / R_ b)) \/
  (bpow radix2 1024 <= Rabs (RN (R_ a / R_ b)) /\ fdiv a b = Binary.B754_infinity 53 1024 (xorb (Binary.Bsign 53 1024 a) (Binary.Bsign 53 1024 b))).
Proof. intros a b Ha Hb Hz. unfold fdiv, b64_div.
  generalize (Binary.Bdiv_correct 53 1024 Hp Hpe binop_nan_pl64 mode_NE a b Hz).
  fold (RN (R_ a / R_ b)).
  destruct (Rlt_bool_spec (Rabs (RN (R_ a / R_ b))) (bpow radix2 1024)).
  - intros (E1 & E2 & _). left. split; auto. unfold fin in *. change (Binary.is_finite 53 1024 (Binary.Bdiv 53 1024 Hp Hpe binop_nan_pl64 mode_NE a b) = true). now rewrite E2.
  - intros E1. right. split; auto. now apply B2FF_inf. Qed.

(* ---- absence of NaN *)
Lemma nnan_inf : forall s, nnan (Binary.B754_infinity 53 1024 s).
Proof. reflexivity. Qed.

Lemma fsub_nnan : forall a b, nnan a -> fin b -> nnan (fsub a b).
Proof. intros a b Ha Hb. destruct (nnan_cases a Ha) as [Fa|[->| ->]].
  - destruct (fsub_cases a b Fa Hb) as [[F _]|(_ & E & _)]. now apply fin_nnan. rewrite E; reflexivity.
  - destruct b as [s|s|s pl e|s m e H]; try discriminate Hb; reflexivity.
  - destruct b as [s|s|s pl e|s m e H]; try discriminate Hb; reflexivity. Qed.

Lemma fadd_nnan_r : forall a b, fin a -> nnan b -> nnan (fadd a b).
Proof. intros a b Ha Hb. destruct (nnan_cases b Hb) as [Fb|[->| ->]].
  - destruct (fadd_cases a b Ha Fb) as [[F _]|(_ & E & _)]. now apply fin_nnan. rewrite E; reflexivity.
  - destruct a as [s|s|s pl e|s m e H]; try discriminate Ha; reflexivity.
  - destruct a as [s|s|s pl e|s m e H]; try discriminate Ha; reflexivity. Qed.

Lemma R_nz_finite_strict : forall b : f64, fin b -> R_ b <> 0 -> exists s m e H, b = Binary.B754_finite 53 1024 s m e H.
Proof. intros [s|s|s pl e|s m e H] Hb Hz; try discriminate Hb. simpl in Hz; lra. eauto. Qed.

Lemma fmul_nnan : forall a b, nnan a -> fin b -> R_ b <> 0 -> nnan (fmul a b).
Proof. intros a b Ha Hb Hz. destruct (nnan_cases a Ha) as [Fa|[->| ->]].
  - destruct (fmul_cases a b Fa Hb) as [[F _]|(_ & E)]. now apply fin_nnan. rewrite E; reflexivity.
  - destruct (R_nz_finite_strict b Hb Hz) as (s & m & e & H & ->). reflexivity.
  - destruct (R_nz_finite_strict b Hb Hz) as (s & m & e & H & ->). reflexivity. Qed.

Lemma fdiv_nnan : forall a b, nnan a -> fin b -> R_ b <> 0 -> nnan (fdiv a b).
Proof. intros a b Ha Hb Hz. destruct (nnan_cases a Ha) as [Fa|[->| ->]].
  - destruct (fdiv_cases a b Fa Hb Hz) as [[F _]|(_ & E)]. now apply fin_nnan. rewrite E; reflexivity.
  - destruct (R_nz_finite_strict b Hb Hz) as (s & m & e & H & ->). reflexivity.
  - destruct (R_nz_finite_strict b Hb Hz) as (s & m & e & H & ->). reflexivity. Qed.

Lemma nearbyint_fin : forall m x, Binary.is_finite 53 1024 (Binary.Bnearbyint 53 1024 Hpe unop_nan_pl64 m x) = Binary.is_finite 53 1024 x.
Proof. intros. apply (Binary.Bnearbyint_correct 53 1024 Hpe unop_nan_pl64 m x). Qed.
Lemma nearbyint_nnan : forall m x, nnan x -> nnan (Binary.Bnearbyint 53 1024 Hpe unop_nan_pl64 m x).
Proof. intros m x Hx. destruct (nnan_cases x Hx) as [F|[->| ->]]; try reflexivity.
  apply fin_nnan. unfold fin. now rewrite nearbyint_fin. Qed.
Lemma fceil_nnan : forall x, nnan x -> nnan (fceil x).  Proof. intros; now apply nearbyint_nnan. Qed.
Lemma ffloor_nnan : forall x, nnan x -> nnan (ffloor x). Proof. intros; now apply nearbyint_nnan. Qed.
Lemma fround_nnan : forall x, nnan x -> nnan (fround x). Proof. intros; now apply nearbyint_nnan. Qed.

(* ---- every finite float is below 2^1024 in magnitude *)
Lemma fin_lt_emax : forall x : f64, Rabs (R_ x) < bpow radix2 1024.
Proof. intros x. apply (Binary.abs_B2R_lt_emax 53 1024). Qed.

(* ---- monotone consequences *)
Lemma fadd_nonneg_ge : forall a b, fin a -> fin b -> 0 <= R_ b ->
  (fin (fadd a b) /\ R_ a <= R_ (fadd a b)) \/ fadd a b = pinf.
Proof. intros a b Ha Hb Hp0. destruct (fadd_cases a b Ha Hb) as [[F E]|(Ov & E & Es)].
  - left. split; auto. rewrite E. apply Rle_trans with (RN (R_ a)); [rewrite RN_id; lra | apply RN_le; lra].
  - right. rewrite E. destruct (Binary.Bsign 53 1024 a) eqn:Sa; auto. exfalso.
    assert (R_ a <= 0) by now apply Bsign_true_le0.
    assert (R_ b <= 0) by (apply Bsign_true_le0; congruence).
    assert (R_ b = 0) by lra. rewrite H1, Rplus_0_r, RN_id in Ov.
    generalize (fin_lt_emax a); lra. Qed.

Lemma fsub_nonneg_le : forall a b, fin a -> fin b -> 0 <= R_ b ->
  (fin (fsub a b) /\ R_ (fsub a b) <= R_ a) \/ fsub a b = ninf.
Proof. intros a b Ha Hb Hp0. destruct (fsub_cases a b Ha Hb) as [[F E]|(Ov & E & Es)].
  - left. split; auto. rewrite E. apply Rle_trans with (RN (R_ a)); [apply RN_le; lra | rewrite RN_id; lra].
  - right. rewrite E. destruct (Binary.Bsign 53 1024 a) eqn:Sa; auto. exfalso.
    assert (0 <= R_ a) by now apply Bsign_false_ge0.
    assert (R_ b <= 0) by (apply Bsign_true_le0; destruct (Binary.Bsign 53 1024 b); simpl in Es; congruence).
    assert (R_ b = 0) by lra. rewrite H1, Rminus_0_r, RN_id in Ov.
    generalize (fin_lt_emax a); lra. Qed.

Lemma R_of_bits_two : R_ (of_bits 0x4000000000000000) = 2.
Proof. set (x := of_bits 0x4000000000000000). vm_compute in x. subst x. simpl. unfold F2R; simpl. lra. Qed.
Lemma fin_of_bits_two : fin (of_bits 0x4000000000000000).
Proof. vm_compute; reflexivity. Qed.

(* step / 2.0 for a finite positive step: finite and non-negative *)
Lemma half_fin_nonneg : forall s, fin s -> 0 < R_ s ->
  fin (fdiv s (of_bits 0x4000000000000000)) /\ 0 <= R_ (fdiv s (of_bits 0x4000000000000000)) /\ R_ (fdiv s (of_bits 0x4000000000000000)) = RN (R_ s / 2).
Proof. intros s Hs Hpos.
  assert (Hz: R_ (of_bits 0x4000000000000000) <> 0) by (rewrite R_of_bits_two; lra).
  destruct (fdiv_cases s _ Hs fin_of_bits_two Hz) as [[F E]|(Ov & _)]; rewrite R_of_bits_two in *.
  - split; auto. split; auto. rewrite E, <- RN_0. apply RN_le; lra.
  - exfalso. assert (0 <= RN (R_ s / 2)) by (rewrite <- RN_0; apply RN_le; lra).
    assert (RN (R_ s / 2) <= R_ s) by (apply Rle_trans with (RN (R_ s)); [apply RN_le; lra | rewrite RN_id; lra]).
    generalize (fin_lt_emax s). rewrite Rabs_pos_eq in Ov by auto. rewrite (Rabs_pos_eq (R_ s)) by lra. lra. Qed.

(* ---- f64::clamp with finite bounds lo <= hi and a non-NaN argument *)
Lemma fclamp_inside : forall x lo hi, fin lo -> fin hi -> fle lo hi = true -> nnan x ->
  exists r, fclamp x lo hi = Some r /\ fin r /\ fle lo r = true /\ fle r hi = true.
Proof. intros x lo hi Hlo Hhi Hle Hx. unfold fclamp. rewrite Hle.
  assert (Lh := proj1 (fle_fin lo hi Hlo Hhi) Hle).
  assert (Rll: fle lo lo = true) by (apply fle_fin; auto; lra).
  assert (Rhh: fle hi hi = true) by (apply fle_fin; auto; lra).
  destruct (nnan_cases x Hx) as [Fx|[->| ->]].
  - destruct (flt x lo) eqn:E1.
    + assert (fgt lo hi = false) by (apply fgt_fin_f; auto). rewrite H. eauto 6.
    + apply flt_fin_f in E1; auto. destruct (fgt x hi) eqn:E2.
      * eauto 6.
      * apply fgt_fin_f in E2; auto. exists x. repeat split; auto; apply fle_fin; auto.
  - unfold flt, fgt. rewrite (fcmp_pinf_fin lo Hlo), (fcmp_pinf_fin hi Hhi). eauto 6.
  - unfold flt. rewrite (fcmp_ninf_fin lo Hlo).
    assert (fgt lo hi = false) by (apply fgt_fin_f; auto). rewrite H. eauto 6. Qed.

(* ---- i32 as f64 is exact; f64 as i32 after ceil/floor *)
Lemma f64_of_Z_exact : forall c : Z, (Z.abs c < 2 ^ 53)%Z -> fin (f64_of_Z c) /\ R_ (f64_of_Z c) = IZR c.
Proof. intros c Hc. unfold f64_of_Z.
  generalize (Binary.binary_normalize_correct 53 1024 Hp Hpe mode_NE c 0 false).
  assert (G: generic_format radix2 fexp64 (IZR c)).
  { apply (generic_format_FLT radix2 (-1074) 53). exists (Float radix2 c 0).
    - unfold F2R; simpl; ring.
    - exact Hc.
    - simpl; lia. }
  replace (F2R {| Fnum := c; Fexp := 0 |}) with (IZR c) by (unfold F2R; simpl; ring).
  rewrite round_generic by (auto with typeclass_instances).
  rewrite Rlt_bool_true.
  - intros (E & F & _). split; auto.
  - rewrite <- abs_IZR. apply Rlt_le_trans with (IZR (2 ^ 53)). apply IZR_lt; exact Hc.
    change (IZR (2 ^ 53)) with (bpow radix2 53). apply bpow_le. lia. Qed.

Lemma to_i32_of_int : forall (x : f64) k, fin x -> R_ x = IZR k -> to_i32 x = Z.max i32_lo (Z.min i32_hi k).
Proof. intros x k F E. assert (B: Binary.Btrunc 53 1024 x = k).
  { apply eq_IZR. rewrite Binary.Btrunc_correct, round_FIX_IZR, E. rewrite Ztrunc_IZR. reflexivity. exact Hpe. }
  destruct x; try discriminate F; unfold to_i32; now rewrite B. Qed.
