(* C06, arithmetic propagators on float / mixed stores: Add (props/add.rs) and Sub (= Add over Opposite), model
   Model/FloatProps.v prune_fadd / mk_fadd / mk_fsub.
   (1) contracting: with every float bound that reaches a setter inside Magn (guarded copies of the setters: they answer
       None outside the guard and are otherwise the model's own setters), one run of Add never widens a float interval,
       never adds a value to an integer domain, never changes a step or the kind of a variable.
   (2) fixpoint within tolerance: if the two forward calls s.try_set_min(x.min + y.min), s.try_set_max(x.max + y.max)
       leave the context as it is (which is the case on every reported solution: a propagator whose run changes something
       is scheduled again), then x.min + y.min is above s only by the setter's own tolerances and x.max + y.max below s
       only by them -- stated in real numbers with the roundings of the code's own subtractions written out (RN).
   No axioms of our own; Flocq's real-number axioms enter through B2R. *)
From Coq Require Import ZArith Bool List Lia Reals Lra.
Import ListNotations.
From Flocq Require Import Core.Core IEEE754.BinarySingleNaN IEEE754.Binary IEEE754.Bits.
Require Import Selen.Generated.Consts Selen.Model.Prelude Selen.Model.Dom.
Require Import Selen.Model.B64 Selen.Model.FloatInterval Selen.Model.CtxFloat Selen.Model.FloatStore Selen.Model.FloatProps.
Require Import Selen.Proofs.B64Facts Selen.Proofs.FloatIntervalProofs Selen.Proofs.FloatPropsProofs.
Open Scope Z_scope.

(* ================================================================ (1) contracting *)
Definition nw_var (x x' : fvar) : Prop :=
  match x, x' with
  | VI d, VI d' => incl d' d
  | VF i, VF i' => i' = i \/ (wf i /\ wf i' /\ no_widen i i')
  | _, _ => False
  end.
Definition nw_store (s s' : fstore) : Prop := length s' = length s /\ forall v, nw_var (fget s v) (fget s' v).

Lemma nw_var_refl : forall x, nw_var x x.
Proof. destruct x; simpl. apply incl_refl. now left. Qed.
Lemma nw_var_trans : forall a b c, nw_var a b -> nw_var b c -> nw_var a c.
Proof. intros [da|ia] [db|ib] [dc|ic]; simpl; try tauto.
  - intros H1 H2 z Hz. auto.
  - intros [E1|(W1 & W2 & N1)] [E2|(W3 & W4 & N2)]; subst; auto.
    right. split; [exact W1|]. split; [exact W4|]. exact (no_widen_trans ia ib ic W1 W2 W4 N1 N2). Qed.
Lemma nw_store_refl : forall s, nw_store s s.
Proof. split; auto. intro v; apply nw_var_refl. Qed.
Lemma nw_store_trans : forall a b c, nw_store a b -> nw_store b c -> nw_store a c.
Proof. intros a b c (L1 & H1) (L2 & H2). split. congruence. intro v. eapply nw_var_trans; eauto. Qed.

Lemma fupd_nw : forall s v x, nw_var (fget s v) x -> nw_store s (fupd s v x).
Proof. intros s v x H. split. apply fupd_length. intro w.
  destruct (Nat.eq_dec v w) as [->|Ne].
  - destruct (Nat.lt_ge_cases w (length s)).
    + rewrite fget_fupd_same; auto.
    + rewrite (fget_oob (fupd s w x)) by (rewrite fupd_length; auto). rewrite fget_oob by auto. simpl. apply incl_refl.
  - rewrite fget_fupd_other; auto. apply nw_var_refl. Qed.

(* the guard: a float variable receives a FLOAT bound inside Magn of its current interval; integer variables are exact *)
Definition bound_guard (x : fvar) (b : fval) : bool :=
  match x, b with
  | VF i, VlF f => magn_b i f
  | VF _, VlI _ => false
  | VI _, _ => true
  end.
Definition xset_min_g (v : nat) (b : fval) (c : fctx) : option fctx :=
  if bound_guard (fget (fst c) v) b then xset_min v b c else None.
Definition xset_max_g (v : nat) (b : fval) (c : fctx) : option fctx :=
  if bound_guard (fget (fst c) v) b then xset_max v b c else None.

Lemma var_set_min_nw : forall x b x' e, bound_guard x b = true -> var_set_min x b = Some (x', e) -> nw_var x x'.
Proof. intros [d|i] b x' e G H.
  - assert (I := var_set_min_ile _ _ _ _ H). destruct x'; simpl in *; auto.
  - destruct b as [z|f]; simpl in G; [discriminate|]. simpl in H.
    destruct (tsmin_ff i f) as [[i' e']|] eqn:E; [|discriminate]. inversion H; subst. simpl.
    assert (W0 := mg_wf _ _ (magn_b_MagnR _ _ G)).
    destruct (float_step_ok i (OMinF f) i' e W0 eq_refl G E) as (W1 & N & _). right. auto. Qed.
Lemma var_set_max_nw : forall x b x' e, bound_guard x b = true -> var_set_max x b = Some (x', e) -> nw_var x x'.
Proof. intros [d|i] b x' e G H.
  - assert (I := var_set_max_ile _ _ _ _ H). destruct x'; simpl in *; auto.
  - destruct b as [z|f]; simpl in G; [discriminate|]. simpl in H.
    destruct (tsmax_ff i f) as [[i' e']|] eqn:E; [|discriminate]. inversion H; subst. simpl.
    assert (W0 := mg_wf _ _ (magn_b_MagnR _ _ G)).
    destruct (float_step_ok i (OMaxF f) i' e W0 eq_refl G E) as (W1 & N & _). right. auto. Qed.

(* a guarded transformer: agrees with the unguarded one and never widens *)
Definition gsafe (g f : fctx -> option fctx) : Prop :=
  forall c c', g c = Some c' -> f c = Some c' /\ nw_store (fst c) (fst c').
Lemma xset_min_g_safe : forall v b, gsafe (xset_min_g v b) (xset_min v b).
Proof. intros v b c c' H. unfold xset_min_g in H. destruct (bound_guard _ _) eqn:G; [|discriminate]. split; auto.
  unfold xset_min in H. destruct (var_set_min _ _) as [[x' e]|] eqn:E; [|discriminate]. inversion H; subst; simpl.
  apply fupd_nw. eapply var_set_min_nw; eauto. Qed.
Lemma xset_max_g_safe : forall v b, gsafe (xset_max_g v b) (xset_max v b).
Proof. intros v b c c' H. unfold xset_max_g in H. destruct (bound_guard _ _) eqn:G; [|discriminate]. split; auto.
  unfold xset_max in H. destruct (var_set_max _ _) as [[x' e]|] eqn:E; [|discriminate]. inversion H; subst; simpl.
  apply fupd_nw. eapply var_set_max_nw; eauto. Qed.

Fixpoint fv_set_min_g (w : fview) (b : fval) (c : fctx) : option fctx :=
  match w with
  | FVar v => xset_min_g v b c
  | FConst k => if val_le b k then Some c else None
  | FOpp u => fv_set_max_g u (val_neg b) c
  | FNext u => fv_set_min_g u (next_target u (fst c) b) c
  | FPrev u => fv_set_min_g u (prev_target u (fst c) b) c
  end
with fv_set_max_g (w : fview) (b : fval) (c : fctx) : option fctx :=
  match w with
  | FVar v => xset_max_g v b c
  | FConst k => if val_ge b k then Some c else None
  | FOpp u => fv_set_min_g u (val_neg b) c
  | FNext u => fv_set_max_g u (next_target u (fst c) b) c
  | FPrev u => fv_set_max_g u (prev_target u (fst c) b) c
  end.
Lemma fv_set_g_safe : forall w, (forall b, gsafe (fv_set_min_g w b) (fv_set_min w b)) /\ (forall b, gsafe (fv_set_max_g w b) (fv_set_max w b)).
Proof. induction w as [v|k|u [IH1 IH2]|u [IH1 IH2]|u [IH1 IH2]]; simpl; split; intro b.
  - apply xset_min_g_safe. - apply xset_max_g_safe.
  - intros c c'. destruct (val_le b k); [|discriminate]. intro H; inversion H; subst. split; auto. apply nw_store_refl.
  - intros c c'. destruct (val_ge b k); [|discriminate]. intro H; inversion H; subst. split; auto. apply nw_store_refl.
  - apply IH2. - apply IH1.
  - intros c c' H. eapply IH1; eauto. - intros c c' H. eapply IH2; eauto.
  - intros c c' H. eapply IH1; eauto. - intros c c' H. eapply IH2; eauto. Qed.

(* Add::prune with guarded setters: the same text as Model/FloatProps.v prune_fadd *)
Definition prune_fadd_g (x y : fview) (s : nat) (c : fctx) : option fctx :=
  match xset_min_g s (val_add (fv_min x (fst c)) (fv_min y (fst c))) c with
  | None => None
  | Some c1 =>
    match xset_max_g s (val_add (fv_max x (fst c1)) (fv_max y (fst c1))) c1 with
    | None => None
    | Some c2 =>
      match fv_set_min_g x (val_sub (var_min (fget (fst c2) s)) (fv_max y (fst c2))) c2 with
      | None => None
      | Some c3 =>
        match fv_set_max_g x (val_sub (var_max (fget (fst c3) s)) (fv_min y (fst c3))) c3 with
        | None => None
        | Some c4 =>
          match fv_set_min_g y (val_sub (var_min (fget (fst c4) s)) (fv_max x (fst c4))) c4 with
          | None => None
          | Some c5 => fv_set_max_g y (val_sub (var_max (fget (fst c5) s)) (fv_min x (fst c5))) c5
          end
        end
      end
    end
  end.

Theorem float_add_contracting_main : forall x y s, gsafe (prune_fadd_g x y s) (prune_fadd x y s).
Proof. intros x y s c c' H. unfold prune_fadd_g in H. unfold prune_fadd.
  destruct (xset_min_g s _ c) as [c1|] eqn:E1; [|discriminate]. apply xset_min_g_safe in E1. destruct E1 as (E1 & N1). rewrite E1.
  destruct (xset_max_g s _ c1) as [c2|] eqn:E2; [|discriminate]. apply xset_max_g_safe in E2. destruct E2 as (E2 & N2). rewrite E2.
  destruct (fv_set_min_g x _ c2) as [c3|] eqn:E3; [|discriminate]. apply (proj1 (fv_set_g_safe x)) in E3. destruct E3 as (E3 & N3). rewrite E3.
  destruct (fv_set_max_g x _ c3) as [c4|] eqn:E4; [|discriminate]. apply (proj2 (fv_set_g_safe x)) in E4. destruct E4 as (E4 & N4). rewrite E4.
  destruct (fv_set_min_g y _ c4) as [c5|] eqn:E5; [|discriminate]. apply (proj1 (fv_set_g_safe y)) in E5. destruct E5 as (E5 & N5). rewrite E5.
  apply (proj2 (fv_set_g_safe y)) in H. destruct H as (H & N6). split; auto.
  eauto 10 using nw_store_trans. Qed.

(* ================================================================ (2) fixpoint within tolerance *)
Open Scope R_scope.

(* a context transformer that returns its argument unchanged raised no event *)
Lemma xset_min_fix : forall v b st ev, xset_min v b (st, ev) = Some (st, ev) ->
  exists x', var_set_min (fget st v) b = Some (x', false).
Proof. intros v b st ev H. unfold xset_min in H. simpl in H.
  destruct (var_set_min (fget st v) b) as [[x' e]|] eqn:E; [|discriminate]. destruct e.
  - inversion H. exfalso. assert (L: length (ev ++ [v]) = length ev) by congruence. rewrite app_length in L. simpl in L. lia.
  - eauto. Qed.
Lemma xset_max_fix : forall v b st ev, xset_max v b (st, ev) = Some (st, ev) ->
  exists x', var_set_max (fget st v) b = Some (x', false).
Proof. intros v b st ev H. unfold xset_max in H. simpl in H.
  destruct (var_set_max (fget st v) b) as [[x' e]|] eqn:E; [|discriminate]. destruct e.
  - inversion H. exfalso. assert (L: length (ev ++ [v]) = length ev) by congruence. rewrite app_length in L. simpl in L. lia.
  - eauto. Qed.

(* try_set_min(v) that raises no event: v is not above the interval by more than the setter's tolerances.  The three
   alternatives are the three branches of views.rs:215-269 that return without writing:
   (c) v <= min + step/2 (as computed);  (a) interval narrower than step/2 and |v - min| < ptol;  (b) v - max <= ptol *)
Lemma tsmin_ff_noevent_bound : forall i v i', wf i -> fin v ->
  fin (fadd (imin i) (ctx_tol i)) -> fin (fsub v (imin i)) -> fin (fsub v (imax i)) -> fin (ctx_ptol i (imax i)) ->
  tsmin_ff i v = Some (i', false) ->
  R_ v <= R_ (fadd (imin i) (ctx_tol i)) \/
  Rabs (R_ (fsub v (imin i))) < R_ (ctx_ptol i (imax i)) \/
  R_ (fsub v (imax i)) <= R_ (ctx_ptol i (imax i)).
Proof. intros i v i' W Fv F1 F2 F3 F4 H. unfold tsmin_ff in H.
  destruct (flt (fabs (fsub (imax i) (imin i))) (ctx_tol i) && flt (fabs (fsub v (imin i))) (ctx_ptol i (imax i))) eqn:T0.
  { apply andb_true_iff in T0. destruct T0 as (_ & T0). right. left.
    destruct (fabs_fin _ F2) as (Fa & Ra). apply flt_fin in T0; auto. rewrite Ra in T0. exact T0. }
  destruct (fgt v (fadd (imax i) (ctx_tol i))) eqn:T1.
  { destruct (fgt (fsub v (imax i)) (ctx_ptol i (imax i))) eqn:T2; [discriminate|].
    right. right. apply fgt_fin_f in T2; auto. }
  destruct (fgt v (fadd (imin i) (ctx_tol i))) eqn:T3.
  { cbv zeta in H. match type of H with (if ?b then _ else _) = _ => destruct b end; discriminate. }
  left. apply fgt_fin_f in T3; auto. Qed.

(* try_set_max(v) that raises no event: mirrored ((c) v >= max - step/2; (a) |v - max| < ptol; (b) min - v <= ptol) *)
Lemma tsmax_ff_noevent_bound : forall i v i', wf i -> fin v ->
  fin (fsub (imax i) (ctx_tol i)) -> fin (fsub v (imax i)) -> fin (fsub (imin i) v) -> fin (ctx_ptol i (imin i)) ->
  tsmax_ff i v = Some (i', false) ->
  R_ (fsub (imax i) (ctx_tol i)) <= R_ v \/
  Rabs (R_ (fsub v (imax i))) < R_ (ctx_ptol i (imin i)) \/
  R_ (fsub (imin i) v) <= R_ (ctx_ptol i (imin i)).
Proof. intros i v i' W Fv F1 F2 F3 F4 H. unfold tsmax_ff in H.
  destruct (flt (fabs (fsub (imax i) (imin i))) (ctx_tol i) && flt (fabs (fsub v (imax i))) (ctx_ptol i (imin i))) eqn:T0.
  { apply andb_true_iff in T0. destruct T0 as (_ & T0). right. left.
    destruct (fabs_fin _ F2) as (Fa & Ra). apply flt_fin in T0; auto. rewrite Ra in T0. exact T0. }
  destruct (flt v (imin i)) eqn:T1.
  { destruct (fle (fsub (imin i) v) (istep i)) eqn:T2; [discriminate|].
    destruct (fgt (fsub (imin i) v) (ctx_ptol i (imin i))) eqn:T3; [discriminate|].
    right. right. apply fgt_fin_f in T3; auto. }
  destruct (flt v (fsub (imax i) (ctx_tol i))) eqn:T4.
  { cbv zeta in H. match type of H with (if ?b then _ else _) = _ => destruct b end; discriminate. }
  left. apply flt_fin_f in T4; auto. Qed.

(* Add on a float result variable whose two forward setter calls leave the context unchanged.  lo = x.min + y.min and
   hi = x.max + y.max are the f64 values the code computes (val_add); the finiteness hypotheses say that none of the
   code's own intermediate values overflowed (they hold inside Magn). *)
Theorem float_add_fixpoint_within_tol_main : forall x y s st ev i lo hi,
  fget st s = VF i -> wf i ->
  val_add (fv_min x st) (fv_min y st) = VlF lo -> val_add (fv_max x st) (fv_max y st) = VlF hi ->
  xset_min s (VlF lo) (st, ev) = Some (st, ev) -> xset_max s (VlF hi) (st, ev) = Some (st, ev) ->
  fin lo -> fin hi ->
  fin (fadd (imin i) (ctx_tol i)) -> fin (fsub lo (imin i)) -> fin (fsub lo (imax i)) -> fin (ctx_ptol i (imax i)) ->
  fin (fsub (imax i) (ctx_tol i)) -> fin (fsub hi (imax i)) -> fin (fsub (imin i) hi) -> fin (ctx_ptol i (imin i)) ->
  (R_ lo <= R_ (fadd (imin i) (ctx_tol i)) \/ Rabs (R_ (fsub lo (imin i))) < R_ (ctx_ptol i (imax i)) \/
     R_ (fsub lo (imax i)) <= R_ (ctx_ptol i (imax i))) /\
  (R_ (fsub (imax i) (ctx_tol i)) <= R_ hi \/ Rabs (R_ (fsub hi (imax i))) < R_ (ctx_ptol i (imin i)) \/
     R_ (fsub (imin i) hi) <= R_ (ctx_ptol i (imin i))).
Proof. intros x y s st ev i lo hi Hg W _ _ Hmin Hmax Flo Fhi A1 A2 A3 A4 B1 B2 B3 B4. split.
  - destruct (xset_min_fix _ _ _ _ Hmin) as (x' & E). rewrite Hg in E. simpl in E.
    destruct (tsmin_ff i lo) as [[i' e]|] eqn:T; [|discriminate]. inversion E; subst.
    eapply tsmin_ff_noevent_bound; eauto.
  - destruct (xset_max_fix _ _ _ _ Hmax) as (x' & E). rewrite Hg in E. simpl in E.
    destruct (tsmax_ff i hi) as [[i' e]|] eqn:T; [|discriminate]. inversion E; subst.
    eapply tsmax_ff_noevent_bound; eauto. Qed.

(* the forward calls of prune_fadd ARE those two setter calls: a run of Add that returns its argument starts with them *)
Lemma prune_fadd_forward : forall x y s c c', prune_fadd x y s c = Some c' ->
  exists c1 c2, xset_min s (val_add (fv_min x (fst c)) (fv_min y (fst c))) c = Some c1 /\
                xset_max s (val_add (fv_max x (fst c1)) (fv_max y (fst c1))) c1 = Some c2.
Proof. intros x y s c c' H. unfold prune_fadd in H.
  destruct (xset_min s _ c) as [c1|] eqn:E1; [|discriminate].
  destruct (xset_max s _ c1) as [c2|] eqn:E2; [|discriminate]. eauto. Qed.

(* ================================================================ non-vacuity (closed computation) *)
(* x in [1,2], y in [0.5,1], s in [0,10], step 0.25: every bound passes the Magn guard; Add narrows s to [1.5, 3.0] (two
   events on s), Sub (Add over Opposite y) to [0, 1.5] *)
Definition w_add_store : fstore :=
  [VF (mkfi (of_bits 0x3ff0000000000000) (of_bits 0x4000000000000000) (of_bits 0x3fd0000000000000));
   VF (mkfi (of_bits 0x3fe0000000000000) (of_bits 0x3ff0000000000000) (of_bits 0x3fd0000000000000));
   VF (mkfi (of_bits 0) (of_bits 0x4024000000000000) (of_bits 0x3fd0000000000000))].
Definition obs_fvar (x : fvar) : list Z := match x with VF i => [to_bits (imin i); to_bits (imax i)] | VI d => d end.
Definition obs_fctx (r : option fctx) : option (list (list Z) * list nat) :=
  match r with Some (s, e) => Some (map obs_fvar s, e) | None => None end.
Lemma float_add_guard_inhabited_ok :
  obs_fctx (prune_fadd_g (FVar 0) (FVar 1) 2 (w_add_store, [])) =
    Some ([[0x3ff0000000000000; 0x4000000000000000]; [0x3fe0000000000000; 0x3ff0000000000000]; [0x3ff8000000000000; 0x4008000000000000]]%Z, [2; 2]%nat) /\
  obs_fctx (prune_fadd_g (FVar 0) (FOpp (FVar 1)) 2 (w_add_store, [])) =
    Some ([[0x3ff0000000000000; 0x4000000000000000]; [0x3fe0000000000000; 0x3ff0000000000000]; [0; 0x3ff8000000000000]]%Z, [2]%nat).
Proof. split; vm_compute; reflexivity. Qed.
